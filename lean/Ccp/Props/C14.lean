import Ccp.Proofs.Range
import Ccp.Proofs.RangeCompress
import Ccp.Proofs.RangeX
/-!
# C14 — integer range strings expand to the denoted set and compress back canonically

Property theorems only; helper lemmas live in `Ccp.Proofs.Range` and
`Ccp.Proofs.RangeCompress`.
-/
namespace Ccp.C14
open Ccp.Range Ccp.Py Ccp.RangeX

/-- spec: `n` is denoted by one comma-separated part -/
def InPart (p : Nat × Option Nat) (n : Nat) : Prop :=
  match p with
  | (lo, none) => n = lo
  | (lo, some hi) => lo ≤ n ∧ n ≤ hi

theorem mem_expandPart (p : Nat × Option Nat) (n : Nat) : n ∈ expandPart p ↔ InPart p n := by
  obtain ⟨lo, e⟩ := p
  cases e with
  | none => simp [expandPart, InPart]
  | some hi => simp [expandPart, InPart, mem_upto]

/-- **Expansion**: whenever a text is accepted, the members are exactly the union of the
closed intervals written in it, strictly ascending (hence duplicate free).  A descending
interval denotes nothing. -/
theorem parse_denotes (text : Str) (d : List Nat) (h : parse text = .ok d) :
    d.Pairwise (· < ·) ∧
    (text ≠ [] → ∃ ps, parseParts text = .ok ps ∧ ∀ n, n ∈ d ↔ ∃ p ∈ ps, InPart p n) ∧
    (text = [] → d = []) := by
  unfold parse at h
  split at h
  · rename_i h0
    cases h
    exact ⟨List.Pairwise.nil, fun hne => absurd h0 hne, fun _ => rfl⟩
  · split at h
    · cases h
    · split at h
      · rename_i ps hps
        cases h
        refine ⟨sortedSet_sorted _, ?_, fun h0 => absurd h0 ‹_›⟩
        intro _
        refine ⟨ps, hps, ?_⟩
        intro n
        rw [mem_sortedSet, List.mem_flatMap]
        constructor
        · rintro ⟨p, hp, hn⟩; exact ⟨p, hp, (mem_expandPart p n).mp hn⟩
        · rintro ⟨p, hp, hn⟩; exact ⟨p, hp, (mem_expandPart p n).mpr hn⟩
      · cases h

/-- `append` is sorted-set insertion and raises exactly for a duplicate. -/
theorem append_spec (d : List Nat) (v : Nat) (_hd : d.Pairwise (· < ·)) :
    (v ∈ d → append d v = .error .duplicate) ∧
    (v ∉ d → ∃ d', append d v = .ok d' ∧ d'.Pairwise (· < ·) ∧ ∀ n, n ∈ d' ↔ n ∈ d ∨ n = v) := by
  constructor
  · intro h; simp [append, h]
  · intro h
    refine ⟨sortedSet (d ++ [v]), by simp [append, h], sortedSet_sorted _, ?_⟩
    intro n; rw [mem_sortedSet]; simp

/-- `remove` is sorted-set deletion and raises exactly for an absent member. -/
theorem remove_spec (d : List Nat) (v : Nat) (hd : d.Pairwise (· < ·)) :
    (v ∉ d → remove d v = .error .absent) ∧
    (v ∈ d → ∃ d', remove d v = .ok d' ∧ d'.Pairwise (· < ·) ∧ ∀ n, n ∈ d' ↔ n ∈ d ∧ n ≠ v) := by
  constructor
  · intro h; simp [remove, h]
  · intro h
    refine ⟨d.filter (· != v), by simp [remove, h], hd.filter _, ?_⟩
    intro n; simp

/-- Every ordered view of an ascending duplicate-free state is the state itself:
`as_list()`/`as_set()` (`sorted(set(data))`) return `data`. -/
theorem views_are_data (d : List Nat) (hd : d.Pairwise (· < ·)) : sortedSet d = d :=
  sortedSet_of_sorted d hd

-- non-vacuity: a text with overlap, blanks, a duplicate and a descending interval
example : (parse "3-5, 1,4 ,9-7,1".toList).toOption = some [1, 3, 4, 5] := by decide

/-! ## The compressed string

Spec.  `runs S` are the maximal runs of consecutive values of a strictly ascending list, as
`(first, last)`; the canonical text writes a run of one value `a`, of two values `a,b`, of
three or more `a-b`, and joins the runs with commas. -/

/-- maximal runs of consecutive values: `x` extends the first run of the rest when it is
adjacent to it, otherwise it starts a run of its own -/
def runs : List Nat → List (Nat × Nat)
  | [] => []
  | x :: xs =>
    match runs xs with
    | (a, b) :: rs => if x + 1 = a then (x, b) :: rs else (x, x) :: (a, b) :: rs
    | [] => [(x, x)]

def renderRun : Nat × Nat → Str
  | (a, b) =>
    if a = b then toDec a
    else if a + 1 = b then toDec a ++ ',' :: toDec b
    else toDec a ++ '-' :: toDec b

def renderRuns (rs : List (Nat × Nat)) : Str := join [','] (rs.map renderRun)

example : runs [1, 3, 4, 6, 7, 8, 10] = [(1, 1), (3, 4), (6, 8), (10, 10)] := by decide
example : renderRuns (runs [1, 3, 4, 6, 7, 8, 10]) = "1,3,4,6-8,10".toList := by decide +kernel

/-- the spec above is the one the helper lemmas are proved about -/
theorem runs_eq (s : List Nat) : runs s = Range.runs s := by
  induction s with
  | nil => rfl
  | cons x xs ih =>
    rw [runs, Range.runs, ih]
    cases Range.runs xs with
    | nil => rfl
    | cons r rs => rfl

theorem renderRuns_eq (rs : List (Nat × Nat)) : renderRuns rs = Range.renderRuns rs := rfl

/-- **Canonical text**: for every strictly ascending `S` the index loop of
`as_compressed_str` (three-element window, de-duplicated `"-"` markers, comma inserted
exactly between two entries of the same type) writes the maximal runs of `S`:
`a`, `a,b` or `a-b` joined by commas. -/
theorem compress_canonical (S : List Nat) (hS : S.Pairwise (· < ·)) :
    compress S = renderRuns (runs S) := by
  rw [runs_eq, renderRuns_eq]; exact compress_eq S hS

/-- The same for any list: `compress` first sorts and de-duplicates. -/
theorem compress_canonical_any (l : List Nat) :
    compress l = renderRuns (runs (sortedSet l)) := by
  have h := compress_canonical (sortedSet l) (sortedSet_sorted l)
  unfold compress at h ⊢
  rwa [sortedSet_of_sorted _ (sortedSet_sorted l)] at h

/-- **What makes the text canonical**: the runs are well formed (`first ≤ last`), expanded in
order they give back exactly `S` (they cover `S` and nothing else), and any two runs are
separated by a gap (`last + 2 ≤ first` of every later run), so they are ascending and none
can be extended or merged — they are maximal. -/
theorem runs_canonical (S : List Nat) (hS : S.Pairwise (· < ·)) :
    (∀ r ∈ runs S, r.1 ≤ r.2) ∧
    (runs S).flatMap (fun r => upto r.1 r.2) = S ∧
    (runs S).Pairwise (fun r t => r.2 + 2 ≤ t.1) := by
  rw [runs_eq]
  exact ⟨runs_le S, runs_cover S, runs_separated S hS⟩

-- non-vacuity: an ascending list with runs of length 1, 2, 3 and a large value
example : [0, 2, 3, 5, 6, 7, 70000].Pairwise (· < ·) := by decide
example : compress [0, 2, 3, 5, 6, 7, 70000] = "0,2,3,5-7,70000".toList := by decide +kernel

/-- **Round trip at the string level**: for every strictly ascending `S`, the compressed
string is accepted by the parser and expands to `S` again (for `S = []` the text is `""`). -/
theorem expand_compress (S : List Nat) (hS : S.Pairwise (· < ·)) :
    parse (compress S) = .ok S := by
  rw [compress_eq S hS]; exact parse_renderRuns S hS

example : (parse (compress [0, 2, 3, 5, 6, 7, 70000])).toOption = some [0, 2, 3, 5, 6, 7, 70000] := by
  decide +kernel
example : compress [] = [] ∧ (parse []).toOption = some [] := by decide

/-- For any list (unsorted, with duplicates) the compressed string expands to its sorted set. -/
theorem expand_compress_any (l : List Nat) : parse (compress l) = .ok (sortedSet l) := by
  have h := expand_compress (sortedSet l) (sortedSet_sorted l)
  unfold compress at h ⊢
  rwa [sortedSet_of_sorted _ (sortedSet_sorted l)] at h

/-- The compressed string determines the members: two ascending lists with the same
compressed string are equal. -/
theorem compress_injective (S T : List Nat) (hS : S.Pairwise (· < ·)) (hT : T.Pairwise (· < ·))
    (h : compress S = compress T) : S = T := by
  have e := expand_compress S hS
  rw [h, expand_compress T hT] at e
  exact (Except.ok.inj e).symm

/-- Compressing what a text expanded to and expanding again gives the same members. -/
theorem parse_compress_idem (text : Str) (d : List Nat) (h : parse text = .ok d) :
    parse (compress d) = .ok d :=
  expand_compress d (parse_denotes text d h).1

example : (parse "3-5, 1,4 ,9-7,1".toList).toOption = some [1, 3, 4, 5] ∧
    compress [1, 3, 4, 5] = "1,3-5".toList ∧ (parse "1,3-5".toList).toOption = some [1, 3, 4, 5] := by
  decide +kernel

/-- **String level, expansion side**: every non-empty list of parts `lo` / `lo-hi` written
in decimal without blanks and joined by commas is accepted and expands to the sorted union
of its parts. -/
theorem parse_written_parts (ps : List (Nat × Option Nat)) (hne : ps ≠ []) :
    parse (renderParts ps) = .ok (sortedSet (ps.flatMap expandPart)) :=
  parse_renderParts ps hne

example : renderParts [(9, some 11), (3, none), (10, some 12)] = "9-11,3,10-12".toList ∧
    (parse (renderParts [(9, some 11), (3, none), (10, some 12)])).toOption = some [3, 9, 10, 11, 12] := by
  decide +kernel

/-! ## Reading never changes the range -/

/-- **Readers are pure**: every read accessor (`len`, iteration, `as_list`, `as_set`,
`as_compressed_str`, re-expansion, `in`) leaves the state as it was. -/
theorem readers_pure (d : List Nat) (op : Op) (h : op.isRead = true) : (stepOp d op).1 = d := by
  cases op <;> first | rfl | exact absurd h (by simp [Op.isRead])

/-- … and so does any sequence of reads. -/
theorem readers_pure_seq (d : List Nat) (ops : List Op) (h : ∀ op ∈ ops, op.isRead = true) :
    ops.foldl (fun s op => (stepOp s op).1) d = d := by
  induction ops with
  | nil => rfl
  | cons op ops ih =>
    rw [List.foldl_cons, readers_pure d op (h op (by simp))]
    exact ih (fun o ho => h o (by simp [ho]))

/-- A failed `append` / `remove` leaves the state as it was, too. -/
theorem failed_mutation_pure (d : List Nat) (op : Op) (e : Err) (h : (stepOp d op).2 = .err e) :
    (stepOp d op).1 = d := by
  cases op <;> try rfl
  all_goals (simp only [stepOp] at h ⊢; split <;> simp_all)

-- non-vacuity: the seven read operations are reads, the mutators are not and do change the state
example : [Op.len, .iter, .list, .set, .cstr, .rexp, .has 3].all Op.isRead = true := by decide
example : (stepOp [1, 3] (.app 2)).1 = [1, 2, 3] ∧ (stepOp [1, 3] (.rem 3)).1 = [1] ∧
    (stepOp [1, 3] (.app 3)) = ([1, 3], .err .duplicate) := by decide

/-! ## Options: `result_type`, `reverse`, typed views, `append` / `remove` flags, `insert` -/

/-- `CiscoRange(text, result_type=int, reverse=r)` holds what `parse` gives (so every theorem
above applies to its data); `reverse` is only remembered. -/
theorem construct_int (rev : Bool) (text : Str) :
    construct .int rev text =
      match parse text with
      | .ok d => .ok ⟨d, rev⟩
      | .error e => .error (.base e) := by
  unfold construct
  by_cases h0 : text = []
  · subst h0; simp [parse]
  · by_cases h1 : hasDoubleComma text = true
    · simp [h0, h1, parse]
    · simp only [h0, h1, if_false, Bool.false_eq_true]
      cases parse text <;> rfl

/-- An invalid `result_type` is refused for every text; `float` is refused for every text but
`""` (which builds the empty range before the type is looked at). -/
theorem construct_rejects (rev : Bool) (text : Str) :
    (∃ e, construct .bad rev text = .error e) ∧
    (text ≠ [] → ∃ e, construct .float rev text = .error e) ∧
    construct .float rev [] = .ok ⟨[], rev⟩ := by
  refine ⟨?_, ?_, by simp [construct]⟩
  · unfold construct
    by_cases h0 : text = []
    · exact ⟨.base .invalidRange, by simp [h0]⟩
    · by_cases h1 : hasDoubleComma text = true
      · exact ⟨.base .invalidRange, by simp [h0, h1]⟩
      · exact ⟨.base .invalidRange, by simp [h0, h1]⟩
  · intro h0
    unfold construct
    by_cases h1 : hasDoubleComma text = true
    · exact ⟨.base .invalidRange, by simp [h0, h1]⟩
    · exact ⟨.notImplemented, by simp [h0, h1]⟩

example : construct .bad false "1-3".toList = .error (.base .invalidRange) ∧
    construct .float true "1-3".toList = .error .notImplemented ∧
    (construct .int true "3,1-2".toList).toOption = some ⟨[1, 2, 3], true⟩ := by decide

/-- the cast a view was asked for -/
def castOf : Ty → ElTy
  | .str => .s
  | .float => .f
  | _ => .i

/-- **Every ordered view, in every cast**: `as_list(result_type=str|int|float)` succeeds for
every state and returns a list of that cast holding each member exactly once, ascending —
descending exactly when the range was built with `reverse=True`; `as_list()` (auto) does the
same on a non-empty range. -/
theorem as_list_ordered (s : St) (t : Ty) (ht : t = .str ∨ t = .int ∨ t = .float ∨ (t = .auto ∧ s.data ≠ [])) :
    ∃ v, asList s t = .ok v ∧ v.isList = true ∧ (s.data ≠ [] → v.ty = castOf t) ∧
      (∀ n, n ∈ v.items ↔ n ∈ s.data) ∧
      (s.rev = false → v.items.Pairwise (· < ·)) ∧ (s.rev = true → v.items.Pairwise (· > ·)) := by
  have hne : s.data ≠ [] → ordered s ≠ [] := by
    intro h e
    obtain ⟨x, hx⟩ := List.exists_mem_of_ne_nil _ h
    have : x ∈ ordered s := by
      unfold ordered; split <;> simp [mem_sortedSet, hx]
    rw [e] at this; exact absurd this (by simp)
  have hmem : ∀ n, n ∈ ordered s ↔ n ∈ s.data := by
    intro n; unfold ordered; split <;> simp [mem_sortedSet]
  have hasc : s.rev = false → (ordered s).Pairwise (· < ·) := by
    intro h; unfold ordered; simp [h]; exact sortedSet_sorted _
  have hdesc : s.rev = true → (ordered s).Pairwise (· > ·) := by
    intro h; unfold ordered; simp only [h, if_true]
    exact List.pairwise_reverse.mpr (sortedSet_sorted s.data)
  rcases ht with rfl | rfl | rfl | ⟨rfl, hd⟩
  · exact ⟨_, rfl, rfl, fun h => by simp [elTy, hne h, castOf], hmem, hasc, hdesc⟩
  · exact ⟨_, rfl, rfl, fun h => by simp [elTy, hne h, castOf], hmem, hasc, hdesc⟩
  · exact ⟨_, rfl, rfl, fun h => by simp [elTy, hne h, castOf], hmem, hasc, hdesc⟩
  · exact ⟨⟨true, .i, ordered s⟩, by simp [asList, hd], rfl, fun _ => rfl, hmem, hasc, hdesc⟩

/-- … and `as_set(result_type=…)` holds each member exactly once in that cast, whatever
`reverse` is (the members are listed ascending by the model). -/
theorem as_set_members (s : St) (t : Ty) (ht : t = .str ∨ t = .int ∨ t = .float ∨ (t = .auto ∧ s.data ≠ [])) :
    ∃ v, asSet s t = .ok v ∧ v.isList = false ∧ (s.data ≠ [] → v.ty = castOf t) ∧
      (∀ n, n ∈ v.items ↔ n ∈ s.data) ∧ v.items.Pairwise (· < ·) := by
  have hne : s.data ≠ [] → sortedSet s.data ≠ [] := by
    intro h e
    obtain ⟨x, hx⟩ := List.exists_mem_of_ne_nil _ h
    have : x ∈ sortedSet s.data := (mem_sortedSet _ _).mpr hx
    rw [e] at this; exact absurd this (by simp)
  rcases ht with rfl | rfl | rfl | ⟨rfl, hd⟩
  · exact ⟨_, rfl, rfl, fun h => by simp [elTy, hne h, castOf], mem_sortedSet _, sortedSet_sorted _⟩
  · exact ⟨_, rfl, rfl, fun h => by simp [elTy, hne h, castOf], mem_sortedSet _, sortedSet_sorted _⟩
  · exact ⟨_, rfl, rfl, fun h => by simp [elTy, hne h, castOf], mem_sortedSet _, sortedSet_sorted _⟩
  · exact ⟨⟨false, .i, sortedSet s.data⟩, by simp [asSet, hd], rfl, fun _ => rfl, mem_sortedSet _, sortedSet_sorted _⟩

example : asList ⟨[1, 2, 3, 7], true⟩ .str = .ok ⟨true, .s, [7, 3, 2, 1]⟩ ∧
    asSet ⟨[1, 2, 3, 7], true⟩ .float = .ok ⟨false, .f, [1, 2, 3, 7]⟩ ∧
    asList ⟨[1, 2], false⟩ .none = .error (.base .valueError) ∧
    asSet ⟨[1, 2], false⟩ .none = .error .invalidInterface ∧
    asList ⟨[], false⟩ .auto = .ok ⟨false, .e, []⟩ := by decide

/-- With the default flags the option form of `append` is `append` (sorted-set insertion,
`DuplicateMember` exactly for a member). -/
theorem appendX_plain (d : List Nat) (v : Nat) (hd : d.Pairwise (· < ·)) :
    appendX d (.int v) true false = (append d v).mapError XErr.base := by
  unfold appendX append
  by_cases hv : v ∈ d
  · simp [Val.isInt, Val.isIn, hv, Except.mapError]
  · simp [Val.isInt, Val.isIn, hv, Except.mapError]
    exact sortDup_eq_sortedSet _ (nodup_append_new d v hd hv)

/-- `ignore_errors=True` changes nothing for a value that is not a member yet … -/
theorem appendX_ignore_new (d : List Nat) (v : Nat) (hd : d.Pairwise (· < ·)) (hv : v ∉ d) :
    appendX d (.int v) true true = .ok (sortedSet (d ++ [v])) := by
  simp [appendX, Val.isInt, Val.isIn, hv]
  exact sortDup_eq_sortedSet _ (nodup_append_new d v hd hv)

/-- … and for a value that is a member already it is a no-op, for an `int` and for its decimal `str`, with or without
`sort`: the range keeps each member once.  (Before fix aef5a7a of /repo the member was added a second time — finding
FC14a, then stated here as `appendX_ignore_dup_witness`.) -/
theorem appendX_ignore_member (d : List Nat) (v : Nat) (hv : v ∈ d) (sort : Bool) :
    appendX d (.int v) sort true = .ok d ∧ appendX d (.strOf v) sort true = .ok d := by
  simp [appendX, Val.isInt, Val.isIn, hv]

/-- so a strictly ascending range stays strictly ascending under `append(·, ignore_errors=True)` whatever the value -/
theorem appendX_ignore_keeps_ascending (d : List Nat) (v : Nat) (hd : d.Pairwise (· < ·)) :
    ∃ d', appendX d (.int v) true true = .ok d' ∧ d'.Pairwise (· < ·) ∧ v ∈ d' := by
  by_cases hv : v ∈ d
  · exact ⟨d, (appendX_ignore_member d v hv true).1, hd, hv⟩
  · refine ⟨sortedSet (d ++ [v]), appendX_ignore_new d v hd hv, sortedSet_sorted _, ?_⟩
    exact (mem_sortedSet _ _).mpr (by simp)

example : [1, 2, 3].Pairwise (· < ·) ∧ 2 ∈ [1, 2, 3] ∧
    appendX [1, 2, 3] (.int 2) true true = .ok [1, 2, 3] ∧ appendX [1, 2, 3] (.strOf 2) false true = .ok [1, 2, 3] := by decide

/-- `sort=False` puts a new value at the end; a `str` is refused by a non-empty range unless
`ignore_errors` is set (then it is converted); a non-numeric `str` never changes the data. -/
theorem appendX_other_forms (d : List Nat) (v : Nat) (sort ign : Bool) :
    (v ∉ d → appendX d (.int v) false ign = .ok (d ++ [v])) ∧
    (d ≠ [] → appendX d (.strOf v) sort false = .error .mismatched) ∧
    (appendX d (.strOf v) sort true = appendX d (.int v) sort true) ∧
    (appendX d .junk sort ign = .ok d ∨ appendX d .junk sort ign = .error .mismatched) := by
  refine ⟨?_, ?_, ?_, ?_⟩
  · intro hv
    simp [appendX, Val.isInt, Val.isIn, hv]
  · intro h; simp [appendX, Val.isInt, h]
  · simp [appendX, Val.isInt, Val.isIn]
  · unfold appendX
    by_cases h : d ≠ [] ∧ Val.junk.isInt = false ∧ ign = false
    · right; simp [h]
    · left; simp [h, Val.isIn]

/-- With the default flag the option form of `remove` is `remove`, for every state. -/
theorem removeX_plain (d : List Nat) (v : Nat) :
    removeX d (.int v) false = (remove d v).mapError XErr.base := by
  unfold removeX remove
  by_cases hm : v ∈ d
  · have hne : d ≠ [] := List.ne_nil_of_mem hm
    simp [Val.isIn, hm, hne, Except.mapError, (filter_length_lt_iff d v).mpr hm]
  · by_cases hne : d = []
    · simp [Val.isIn, hne, Except.mapError]
    · simp [Val.isIn, hm, hne, Except.mapError]

/-- `remove(v, ignore_errors=True)` is set deletion without the error: nothing happens for an
absent value, a member is taken out. `remove(None)` never changes the data. -/
theorem removeX_ignore (d : List Nat) (v : Nat) (ign : Bool) :
    (v ∉ d → removeX d (.int v) true = .ok d) ∧
    (v ∈ d → removeX d (.int v) true = .ok (d.filter (· != v))) ∧
    (removeX d .junk ign = .ok d ∨ removeX d .junk ign = .error (.base .absent)) := by
  refine ⟨?_, ?_, ?_⟩
  · intro hv
    simp [removeX, Val.isIn, hv]
  · intro hm
    have hne : d ≠ [] := List.ne_nil_of_mem hm
    simp [removeX, Val.isIn, hm, hne, (filter_length_lt_iff d v).mpr hm]
  · unfold removeX
    cases ign
    · right; by_cases hne : d = [] <;> simp [Val.isIn, hne]
    · left; simp [Val.isIn]

example : removeX [1, 3] (.int 2) true = .ok [1, 3] ∧ removeX [1, 3] (.int 3) true = .ok [1] ∧
    removeX [1, 3] (.strOf 3) false = .ok [1] ∧ removeX [1, 3] (.strOf 3) true = .ok [1, 3] ∧
    removeX [] (.int 3) false = .error (.base .absent) := by decide

/-- **Readers are pure, option forms included**: every typed view, `insert` (always refused)
and every reader of the plain interface leave data and `reverse` as they were. -/
theorem readersX_pure (s : St) (op : OpX) (h : op.isRead = true) : (stepX s op).1 = s := by
  cases op with
  | old o => cases o <;> first | rfl | exact absurd h (by simp [OpX.isRead, Op.isRead])
  | list t => rfl
  | set t => rfl
  | app v a b => exact absurd h (by simp [OpX.isRead])
  | rem v a => exact absurd h (by simp [OpX.isRead])
  | ins k => rfl

theorem readersX_pure_seq (s : St) (ops : List OpX) (h : ∀ op ∈ ops, op.isRead = true) :
    ops.foldl (fun st op => (stepX st op).1) s = s := by
  induction ops with
  | nil => rfl
  | cons op ops ih =>
    rw [List.foldl_cons, readersX_pure s op (h op (by simp))]
    exact ih (fun o ho => h o (by simp [ho]))

/-- A refused call leaves the state as it was. -/
theorem failedX_pure (s : St) (op : OpX) (e : XErr) (h : (stepX s op).2 = .err e) :
    (stepX s op).1 = s := by
  cases op with
  | old o =>
    cases o <;> try rfl
    all_goals (simp only [stepX] at h ⊢; split <;> simp_all)
  | list t => rfl
  | set t => rfl
  | app v a b => simp only [stepX] at h ⊢; split <;> simp_all
  | rem v a => simp only [stepX] at h ⊢; split <;> simp_all
  | ins k => rfl

/-- On the plain interface the option model moves the data exactly as `stepOp` does. -/
theorem stepX_old_state (d : List Nat) (r : Bool) (o : Op) (hd : d.Pairwise (· < ·)) :
    (stepX ⟨d, r⟩ (.old o)).1 = ⟨(stepOp d o).1, r⟩ := by
  cases o <;> try rfl
  · rename_i k
    simp only [stepX, stepOp, appendX_plain d k hd]
    cases append d k <;> rfl
  · rename_i k
    simp only [stepX, stepOp, removeX_plain d k]
    cases remove d k <;> rfl

example : [OpX.list .str, .set .bad, .ins 4, .old .len, .old (.has 3)].all OpX.isRead = true := by decide
example : (stepX ⟨[1, 3], true⟩ (.app (.int 2) false false)).1 = ⟨[1, 3, 2], true⟩ ∧
    (stepX ⟨[1, 3], true⟩ (.ins 2)) = (⟨[1, 3], true⟩, .err .notImplemented) := by decide

/-! ## `reverse` touches `as_list` only; `str()`, `repr()`, `obj[k]`, `==`, `obj.data` -/

/-- **`reverse` is visible in `as_list` only**: whatever the flag, every other call gives the same
answer and leaves the same data (iteration, `obj.data`, `len`, `as_set`, the compressed string,
membership, `append`, `remove`, `insert` do not depend on it), and so do the five further
readers. -/
theorem reverse_only_in_as_list (d : List Nat) (r1 r2 : Bool) (op : OpX)
    (h1 : ∀ t, op ≠ .list t) (h2 : op ≠ .old .list) :
    (stepX ⟨d, r1⟩ op).2 = (stepX ⟨d, r2⟩ op).2 ∧
    (stepX ⟨d, r1⟩ op).1.data = (stepX ⟨d, r2⟩ op).1.data := by
  cases op with
  | old o =>
    cases o <;> first
      | exact absurd rfl h2
      | exact ⟨rfl, rfl⟩
      | (simp only [stepX]; constructor <;> (split <;> rfl))
  | list t => exact absurd rfl (h1 t)
  | set t => exact ⟨rfl, rfl⟩
  | app v a b => simp only [stepX]; constructor <;> (split <;> rfl)
  | rem v a => simp only [stepX]; constructor <;> (split <;> rfl)
  | ins k => exact ⟨rfl, rfl⟩

theorem reverse_not_in_readers (rt : CTy) (fresh d : List Nat) (r1 r2 : Bool) (r : ReadOp) :
    readX rt fresh ⟨d, r1⟩ r = readX rt fresh ⟨d, r2⟩ r := by
  cases r <;> rfl

/-- The further readers: `obj.data` is what iteration gives, `obj[k]` is the `k`-th member in
that order and raises `IndexError` from `len` on, `==` against a freshly parsed range holds
exactly while the data are the parsed ones. -/
theorem further_readers (rt : CTy) (fresh : List Nat) (s : St) (k : Nat) :
    readX rt fresh s .data = .old (stepOp s.data .iter).2 ∧
    (∀ h : k < s.data.length, readX rt fresh s (.idx k) = .old (.nat s.data[k])) ∧
    (s.data.length ≤ k → readX rt fresh s (.idx k) = .err .indexError) ∧
    (readX rt fresh s .eqFresh = .old (.bool true) ↔ s.data = fresh) := by
  refine ⟨rfl, ?_, ?_, ?_⟩
  · intro h; simp [readX, List.getElem?_eq_getElem h]
  · intro h; simp [readX, List.getElem?_eq_none h]
  · simp [readX]

example : readX .int [1, 2, 3] ⟨[1, 2, 3], true⟩ .str = .old (.str "[1, 2, 3]".toList) ∧
    readX .int [1, 2, 3] ⟨[1, 2, 3], true⟩ .repr = .old (.str "<CiscoRange [1, 2, 3] members: <class 'int'>>".toList) ∧
    readX .float [] ⟨[], false⟩ .repr = .old (.str "<CiscoRange [] result_type: <class 'float'>>".toList) ∧
    readX .int [1, 2, 3] ⟨[1, 3], true⟩ .eqFresh = .old (.bool false) ∧
    readX .int [1, 2, 3] ⟨[1, 3], true⟩ (.idx 2) = .err .indexError := by decide +kernel

end Ccp.C14
