import Ccp.Proofs.Pwd
/-!
# C17 — Cisco password helpers: type 7 decrypts to the original; type 5/8/9 have the Cisco format and verify

Property theorems only; helper lemmas live in `Ccp.Proofs.Pwd`.

**Partial.**  Everything below is proved for all inputs except one clause of the property: that the
43 (type 8/9) or 22 (type 5) hash characters *are* PBKDF2-HMAC-SHA256 / scrypt / MD5-crypt output.
The key-derivation functions are opaque parameters (`Pbkdf2`, `Scrypt`, `Md5Crypt`) of the model;
what is proved is which arguments they are called with (`kdf_params`, by unfolding `encryptType8/9`
over the generated numerals) and how their answer is laid out (`type8_format`, `type9_format`,
`type5_format`).  The bytes themselves are recomputed from the embedded salt with independent code
on every run of the check (harness/props/c17.py).
-/
namespace Ccp.C17
open Ccp.Pwd Ccp.Py

/-! ### tables generated from the source -/

/-- The key table inside `decrypt_type_7` is the well-known type-7 key (53 entries) and the
wrap-around modulus in the code is the key length. -/
theorem xlat_tables_equal :
    Gen.xlatImpl = xlatRef ∧ Gen.xlatModulus = xlatRef.length ∧ xlatRef.length = 53 := by decide

/-- The numerals in the `pbkdf2_hmac` / `scrypt.hash` / `md5_crypt.using` calls and the salt loops are
the ones the property names. -/
theorem kdf_params :
    (Gen.type8Algo = "sha256" ∧ Gen.type8Rounds = 20000 ∧ Gen.type8Dklen = 32) ∧
    (Gen.type9N = 16384 ∧ Gen.type9r = 1 ∧ Gen.type9p = 1 ∧ Gen.type9Buflen = 32) ∧
    (Gen.type8SaltLen = 14 ∧ Gen.type9SaltLen = 14 ∧ Gen.type5SaltLen = 4) := by decide

/-- The table behind `b64table`: both alphabets have 64 distinct symbols, the first is the RFC 4648
alphabet `base64.b64encode` writes, the second is Cisco's `./0-9A-Za-z`, and the translation sends the i-th standard symbol to the i-th
Cisco symbol — a bijection between the two 64-symbol sets. -/
theorem b64_translation_bijective :
    Gen.stdB64.length = 64 ∧ Gen.ciscoB64.length = 64 ∧ Gen.stdB64.Nodup ∧ Gen.ciscoB64.Nodup ∧
    Gen.stdB64 = b64Rfc ∧ Gen.ciscoB64 = ciscoRef ∧
    Gen.stdB64.map (fun n => (translate (Char.ofNat n)).toNat) = Gen.ciscoB64 ∧
    (∀ a ∈ Gen.stdB64, ∀ b ∈ Gen.stdB64,
      translate (Char.ofNat a) = translate (Char.ofNat b) → a = b) ∧
    (∀ y ∈ Gen.ciscoB64, ∃ x ∈ Gen.stdB64, (translate (Char.ofNat x)).toNat = y) := by
  decide +kernel

/-! ### pwd_check -/

/-- `pwd_check` accepts exactly the passwords whose length is within the generated bounds and none of
whose characters is in the generated `invalid_chars` set. -/
theorem pwd_check_spec (p : Str) :
    pwdCheck p = .ok () ↔
      (Gen.pwdMinLen ≤ p.length ∧ p.length ≤ Gen.pwdMaxLen) ∧ ∀ c ∈ p, c.toNat ∉ Gen.pwdInvalidChars := by
  unfold pwdCheck
  by_cases h1 : (p.length > Gen.pwdMaxLen || p.length < Gen.pwdMinLen) = true
  · simp only [h1, if_true]
    constructor
    · intro h; cases h
    · intro h; simp at h1; omega
  · by_cases h2 : p.any isInvalidChar = true
    · simp only [h1, h2, if_true]
      constructor
      · intro h; cases h
      · rintro ⟨_, h⟩
        obtain ⟨c, hc, hbad⟩ := List.any_eq_true.mp h2
        exact absurd (by simpa [isInvalidChar] using hbad) (h c hc)
    · simp only [h1, h2]
      refine ⟨fun _ => ⟨by simp at h1; omega, ?_⟩, fun _ => rfl⟩
      intro c hc hbad
      exact h2 (List.any_eq_true.mpr ⟨c, hc, by simpa [isInvalidChar] using hbad⟩)

/-- The generated upper limit is 127, a lower limit (none today) excludes at most the empty password,
and the generated set contains `?` and `"` (it also contains the
backslash of the raw string `r"?\""`; the property does not ask for that and nothing here depends
on it). -/
theorem pwd_check_table :
    Gen.pwdMaxLen = 127 ∧ Gen.pwdMinLen ≤ 1 ∧ ('?').toNat ∈ Gen.pwdInvalidChars ∧ ('"').toNat ∈ Gen.pwdInvalidChars := by
  decide

/-- Passwords longer than 127 characters or containing `?` or a double quote are rejected
(by `pwd_check`, hence by every `encrypt_type_*`). -/
theorem pwd_check_rejects (p : Str) (h : p.length > 127 ∨ '?' ∈ p ∨ '"' ∈ p) :
    pwdCheck p = .error .invalidPassword := by
  have hne : pwdCheck p ≠ .ok () := by
    intro hok
    obtain ⟨⟨_, hl⟩, hc⟩ := (pwd_check_spec p).mp hok
    obtain ⟨hmax, _, hq, hd⟩ := pwd_check_table
    rcases h with h | h | h
    · omega
    · exact hc _ h hq
    · exact hc _ h hd
  revert hne
  unfold pwdCheck
  split
  · intro _; rfl
  · split
    · intro _; rfl
    · intro hne; exact absurd rfl hne

theorem encrypt_rejects (p : Str) (h : p.length > 127 ∨ '?' ∈ p ∨ '"' ∈ p)
    (k7 : Nat) (k8 : Pbkdf2) (k9 : Scrypt) (k5 : Md5Crypt) (salt : Str) :
    encryptType7 k7 p = .error .invalidPassword ∧ encryptType8 k8 salt p = .error .invalidPassword ∧
    encryptType9 k9 salt p = .error .invalidPassword ∧ encryptType5 k5 salt p = .error .invalidPassword := by
  simp [encryptType7, encryptType8, encryptType9, encryptType5, pwd_check_rejects p h]

example : pwdCheck "a?b".toList = .error .invalidPassword := by decide
example : pwdCheck (List.replicate 128 'x') = .error .invalidPassword := by decide +kernel
example : pwdCheck (List.replicate 127 'x') = .ok () := by decide +kernel

/-! ### type 7 -/

/-- **Reference encodings decode.**  For every salt that fits in two decimal digits (the 53 salts of
an independent encoder and the 16 salts 0..15 passlib draws are among them) and every non-empty
byte string, the library's `decrypt_type_7` walk over its own table returns the bytes, one
character per byte.  No length bound: the key index wraps modulo 53 on both sides. -/
theorem decrypt_encrypt_bytes (salt : Nat) (p : Bytes) (hs : salt < 100) (hne : p ≠ [])
    (hb : ∀ b ∈ p, b < 256) : decrypt7 (encrypt7 salt p) = .ok (p.map Char.ofNat) :=
  decrypt7_encrypt7_bytes salt p hs hne hb

/-- **Round trip on text.**  What is needed of the password is exactly: non-empty and every
character below 128 (so that its UTF-8 bytes are its code points). -/
theorem decrypt_encrypt (salt : Nat) (p : Str) (hs : salt < 100) (hne : p ≠ [])
    (hascii : ∀ c ∈ p, c.toNat < 128) : decrypt7 (encrypt7 salt (encodeUtf8 p)) = .ok p := by
  rw [encodeUtf8_ascii p hascii]
  have := decrypt7_encrypt7_bytes salt (p.map Char.toNat) hs (by simpa using hne)
    (by intro b hb; obtain ⟨c, hc, rfl⟩ := List.mem_map.mp hb; have := hascii c hc; omega)
  rw [this, map_ofNat_toNat]

/-- **The library's own pair.**  Every non-empty ASCII password that `pwd_check` accepts is encoded by
`encrypt_type_7` (whatever salt passlib draws) into a string that `decrypt_type_7` maps back to it. -/
theorem decrypt_encrypt_lib (salt : Nat) (p : Str) (hs : salt < 16) (hok : pwdCheck p = .ok ())
    (hne : p ≠ []) (hascii : ∀ c ∈ p, c.toNat < 128) :
    ∃ ep, encryptType7 salt p = .ok ep ∧ decrypt7 ep = .ok p :=
  ⟨_, by simp [encryptType7, hok], decrypt_encrypt salt p (by omega) hne hascii⟩

/-- the property's input set: length 1..127 over printable ASCII minus `?` and `"` -/
def InQuantifier (p : Str) : Prop :=
  1 ≤ p.length ∧ p.length ≤ 127 ∧ ∀ c ∈ p, 32 ≤ c.toNat ∧ c.toNat ≤ 126 ∧ c ≠ '?' ∧ c ≠ '"'

/-- On the property's input set the helper accepts exactly the passwords without a character of the
generated set beyond `?` and `"` (today: the backslash), and every accepted one round-trips with
every salt. -/
theorem decrypt_encrypt_quantifier (salt : Nat) (p : Str) (hs : salt < 100) (hq : InQuantifier p)
    (hok : pwdCheck p = .ok ()) :
    ∃ ep, encryptType7 salt p = .ok ep ∧ decrypt7 ep = .ok p := by
  obtain ⟨h1, _, hc⟩ := hq
  refine ⟨_, by simp [encryptType7, hok], decrypt_encrypt salt p hs ?_ ?_⟩
  · intro h; simp [h] at h1
  · intro c hcm; have := hc c hcm; omega

-- non-vacuity: a 60-character password with salt 52 (the key index wraps twice)
example : decrypt7 (encrypt7 52 (encodeUtf8 (List.replicate 30 'a' ++ List.replicate 30 '~')))
    = .ok (List.replicate 30 'a' ++ List.replicate 30 '~') := by decide +kernel
example : encrypt7 8 (encodeUtf8 "cisco".toList) = "0822455D0A16".toList := by decide +kernel
-- sharpness of the hypotheses: the empty password and a non-ASCII password do not round-trip
example : decrypt7 (encrypt7 5 (encodeUtf8 [])) = .error .attributeError := by decide +kernel
example : decrypt7 (encrypt7 8 (encodeUtf8 "é".toList)) = .ok "Ã©".toList := by decide +kernel
-- the decoder's escapes: odd length and non-numeric salt answer "", a lone digit pair raises
example : decrypt7 "08224".toList = .ok [] := by decide +kernel
example : decrypt7 "xx224F".toList = .ok [] := by decide +kernel
example : decrypt7 "08".toList = .error .attributeError := by decide +kernel

/-! ### types 8, 9 and 5: layout -/

/-- **Type 8 layout.**  For every PBKDF2 that returns `dklen` bytes, every salt the fourteen-step loop can
build and every accepted password, the output is `$8$` + the 14 salt characters + `$` + 43
characters of the Cisco alphabet, and splitting on `$` gives back the salt and the hash. -/
theorem type8_format (kdf : Pbkdf2) (hk : ∀ algo pw s r n, (kdf algo pw s r n).length = n)
    (salt pwd : Str) (hs : ValidSalt Gen.type8SaltLen salt) (hp : pwdCheck pwd = .ok ()) :
    ∃ h, encryptType8 kdf salt pwd = .ok ("$8$".toList ++ salt ++ '$' :: h) ∧
      salt.length = 14 ∧ h.length = 43 ∧ (∀ c ∈ h, isCiscoChar c = true) ∧
      splitOn '$' ("$8$".toList ++ salt ++ '$' :: h) = [[], ['8'], salt, h] ∧
      h = ciscoHash (kdf "sha256" (encodeUtf8 pwd) (encodeUtf8 salt) 20000 32) := by
  obtain ⟨hl, hc⟩ := hs
  have hraw := hk Gen.type8Algo (encodeUtf8 pwd) (encodeUtf8 salt) Gen.type8Rounds Gen.type8Dklen
  have hsh := ciscoHash_shape _ (by rw [hraw]; decide)
  rw [hraw] at hsh
  refine ⟨_, by simp only [encryptType8, hp]; rfl, hl, hsh.1, hsh.2, ?_, rfl⟩
  exact fmt_split ['8'] salt _ (by decide) (no_dollar _ hc) (no_dollar _ hsh.2)

/-- **Type 9 layout**, same statement with scrypt. -/
theorem type9_format (kdf : Scrypt) (hk : ∀ pw s N r p n, (kdf pw s N r p n).length = n)
    (salt pwd : Str) (hs : ValidSalt Gen.type9SaltLen salt) (hp : pwdCheck pwd = .ok ()) :
    ∃ h, encryptType9 kdf salt pwd = .ok ("$9$".toList ++ salt ++ '$' :: h) ∧
      salt.length = 14 ∧ h.length = 43 ∧ (∀ c ∈ h, isCiscoChar c = true) ∧
      splitOn '$' ("$9$".toList ++ salt ++ '$' :: h) = [[], ['9'], salt, h] ∧
      h = ciscoHash (kdf (encodeUtf8 pwd) (encodeUtf8 salt) 16384 1 1 32) := by
  obtain ⟨hl, hc⟩ := hs
  have hraw := hk (encodeUtf8 pwd) (encodeUtf8 salt) Gen.type9N Gen.type9r Gen.type9p Gen.type9Buflen
  have hsh := ciscoHash_shape _ (by rw [hraw]; decide)
  rw [hraw] at hsh
  refine ⟨_, by simp only [encryptType9, hp]; rfl, hl, hsh.1, hsh.2, ?_, rfl⟩
  exact fmt_split ['9'] salt _ (by decide) (no_dollar _ hc) (no_dollar _ hsh.2)

/-- **Type 5 layout**: `$1$` + 4 salt characters + `$` + whatever checksum MD5-crypt returns (22 characters
of the same alphabet for the real one — assumed here, measured by the check). -/
theorem type5_format (kdf : Md5Crypt)
    (hk : ∀ pw s, (kdf pw s).length = 22 ∧ ∀ c ∈ kdf pw s, isCiscoChar c = true)
    (salt pwd : Str) (hs : ValidSalt Gen.type5SaltLen salt) (hp : pwdCheck pwd = .ok ())
    (hnul : Char.ofNat 0 ∉ pwd) :
    ∃ h, encryptType5 kdf salt pwd = .ok ("$1$".toList ++ salt ++ '$' :: h) ∧
      salt.length = 4 ∧ h.length = 22 ∧
      splitOn '$' ("$1$".toList ++ salt ++ '$' :: h) = [[], ['1'], salt, h] ∧
      h = kdf (encodeUtf8 pwd) salt := by
  obtain ⟨hl, hc⟩ := hs
  obtain ⟨h22, hcc⟩ := hk (encodeUtf8 pwd) salt
  refine ⟨_, ?_, hl, h22, ?_, rfl⟩
  · simp only [encryptType5, hp]
    rw [if_neg (by simpa using hnul)]; rfl
  · exact fmt_split ['1'] salt _ (by decide) (no_dollar _ hc) (no_dollar _ hcc)

/-- `type8_9_format` of the design: both layouts at once. -/
theorem type8_9_format (k8 : Pbkdf2) (k9 : Scrypt)
    (h8 : ∀ algo pw s r n, (k8 algo pw s r n).length = n) (h9 : ∀ pw s N r p n, (k9 pw s N r p n).length = n)
    (salt pwd : Str) (hs : ValidSalt 14 salt) (hp : pwdCheck pwd = .ok ()) :
    (∃ h, encryptType8 k8 salt pwd = .ok ("$8$".toList ++ salt ++ '$' :: h) ∧ h.length = 43 ∧
      (∀ c ∈ h, isCiscoChar c = true) ∧ splitOn '$' ("$8$".toList ++ salt ++ '$' :: h) = [[], ['8'], salt, h]) ∧
    (∃ h, encryptType9 k9 salt pwd = .ok ("$9$".toList ++ salt ++ '$' :: h) ∧ h.length = 43 ∧
      (∀ c ∈ h, isCiscoChar c = true) ∧ splitOn '$' ("$9$".toList ++ salt ++ '$' :: h) = [[], ['9'], salt, h]) := by
  obtain ⟨a, e1, _, e2, e3, e4, _⟩ := type8_format k8 h8 salt pwd hs hp
  obtain ⟨b, f1, _, f2, f3, f4, _⟩ := type9_format k9 h9 salt pwd hs hp
  exact ⟨⟨a, e1, e2, e3, e4⟩, ⟨b, f1, f2, f3, f4⟩⟩

/-! ### types 8, 9, 5: "verify when recomputed" — PARTIAL

Full statement (NOT proved; the KDFs are not defined in Lean):
  `encrypt_type_8 pwd = "$8$" ++ salt ++ "$" ++ cisco64 (PBKDF2-HMAC-SHA256 (pwd, salt, c = 20000, dkLen = 32))`,
  `encrypt_type_9 pwd = "$9$" ++ salt ++ "$" ++ cisco64 (scrypt (pwd, salt, N = 16384, r = 1, p = 1, dkLen = 32))`,
  `encrypt_type_5 pwd = "$1$" ++ salt ++ "$" ++ MD5-crypt (pwd, salt)`.
Proved: the same equations with `kdf` standing for whatever `hashlib.pbkdf2_hmac`, `scrypt.hash`, passlib's
`md5_crypt` compute — i.e. which function is called, on which bytes, with which numerals (read from the
source by the translator), and that nothing but the alphabet translation and the dropped `=` happens to
the answer.  Missing: `kdf` = the mathematical KDF.  That part is measured on every run by recomputing each
generated hash from its embedded salt with independent code. -/
theorem type8_verifies_partial (kdf : Pbkdf2) (salt pwd : Str) (hp : pwdCheck pwd = .ok ()) :
    encryptType8 kdf salt pwd =
      .ok (fmt ['8'] salt (ciscoHash (kdf "sha256" (encodeUtf8 pwd) (encodeUtf8 salt) 20000 32))) := by
  simp only [encryptType8, hp]; rfl

theorem type9_verifies_partial (kdf : Scrypt) (salt pwd : Str) (hp : pwdCheck pwd = .ok ()) :
    encryptType9 kdf salt pwd =
      .ok (fmt ['9'] salt (ciscoHash (kdf (encodeUtf8 pwd) (encodeUtf8 salt) 16384 1 1 32))) := by
  simp only [encryptType9, hp]; rfl

theorem type5_verifies_partial (kdf : Md5Crypt) (salt pwd : Str) (hp : pwdCheck pwd = .ok ())
    (hnul : Char.ofNat 0 ∉ pwd) :
    encryptType5 kdf salt pwd = .ok (fmt ['1'] salt (kdf (encodeUtf8 pwd) salt)) := by
  simp only [encryptType5, hp]
  rw [if_neg (by simpa using hnul)]

-- non-vacuity: a constant "KDF" of 32 bytes, a valid salt, an accepted password
example : encryptType8 (fun _ _ _ _ n => List.replicate n 255) "abcdefghijklmn".toList "pw".toList
    = .ok "$8$abcdefghijklmn$zzzzzzzzzzzzzzzzzzzzzzzzzzzzzzzzzzzzzzzzzzw".toList := by decide +kernel
example : ValidSalt Gen.type8SaltLen "abcdefghijklm/".toList := by unfold ValidSalt; decide
-- the real type 9 hash of "x" with salt "90cHlEH/hE7.VY" starts from these 32 scrypt bytes; layout only
example : (ciscoHash (List.replicate 32 0)).length = 43 := by decide +kernel

/-! ### types 8, 9: nothing is ever "decrypted"

The property speaks of *verifying* type 8/9 hashes by recomputation; the class also carries `decrypt_type_8` and
`decrypt_type_9`.  They never return a plaintext (so no caller can mistake some string for a recovered password):
for every argument the answer is `NotImplementedError`. -/
theorem type8_type9_never_decrypt (t : Str) :
    decryptType8 t = .error .notImplementedError ∧ decryptType9 t = .error .notImplementedError := ⟨rfl, rfl⟩

end Ccp.C17
