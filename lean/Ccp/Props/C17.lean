import Ccp.Proofs.Pwd
namespace Ccp.C17
open Ccp.Pwd Ccp.Py

theorem xlat_tables_equal : Gen.xlatImpl = xlatRef := by decide

end Ccp.C17
