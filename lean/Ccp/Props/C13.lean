import Ccp.Proofs.IPVal
import Ccp.Proofs.IPValX
/-!
# C13 — address objects obey ordering, equality, hashing and arithmetic laws

`lt/gt/eq/ne/hash/add/sub/setLen/setOffset/getOffset` are `__lt__`, `__gt__`, `__eq__`,
`__ne__`, `__hash__`, `__add__`, `__sub__`, the `prefixlen` setter and the `network_offset`
setter / getter of `IPv4Obj` and `IPv6Obj` (the two classes share this logic; the family
constants are the parameter `f`).  `Valid f x` is the class invariant.  Helper lemmas live in
`Ccp.Proofs.IPVal`.
-/
namespace Ccp.C13
open Ccp.IPVal

/-- `__lt__` is the lexicographic order on `(network number, prefix length, host address)` -/
theorem lt_is_lex (x y : Obj) :
    lt x y = true ↔
      x.net < y.net ∨ (x.net = y.net ∧ (x.len < y.len ∨ (x.len = y.len ∧ x.ip < y.ip))) :=
  lt_iff_lex x y

/-- **strict total order**: irreflexive, asymmetric, transitive, and for objects satisfying the
class invariant exactly one of `x < y`, `x == y`, `y < x` holds -/
theorem lt_strict_total (f : Fam) :
    (∀ x : Obj, lt x x = false) ∧
    (∀ x y : Obj, lt x y = true → lt y x = false) ∧
    (∀ x y z : Obj, lt x y = true → lt y z = true → lt x z = true) ∧
    (∀ x y : Obj, Valid f x → Valid f y →
      (lt x y = true ∧ eq x y = false ∧ lt y x = false) ∨
      (lt x y = false ∧ eq x y = true ∧ lt y x = false) ∨
      (lt x y = false ∧ eq x y = false ∧ lt y x = true)) := by
  refine ⟨?_, ?_, ?_, ?_⟩
  · intro x; rw [lt_false_iff]; exact lex_irrefl x
  · intro x y h; rw [lt_false_iff]; exact lex_asymm x y ((lt_iff_lex x y).mp h)
  · intro x y z h1 h2
    exact (lt_iff_lex x z).mpr (lex_trans x y z ((lt_iff_lex x y).mp h1) ((lt_iff_lex y z).mp h2))
  · intro x y vx vy
    have hxy := lt_iff_lex x y
    have hyx := lt_iff_lex y x
    have he := eq_iff_fields x y
    have hnx := vx.net_eq
    have hny := vy.net_eq
    have key : (x.ip = y.ip ∧ x.len = y.len) → x.net = y.net := by
      rintro ⟨h1, h2⟩; rw [hnx, hny, h1, h2]
    cases h1 : lt x y <;> cases h2 : lt y x <;> cases h3 : eq x y <;>
      simp only [h1, h2, h3, LexLt, Bool.false_eq_true, false_iff, true_iff, not_or, not_and] at hxy hyx he <;> simp <;> omega

/-- `__gt__` is `__lt__` with the operands exchanged -/
theorem gt_is_flip (x y : Obj) : gt x y = lt y x := gt_eq_lt_flip x y

/-- `__eq__`: same address and same prefix length (for valid objects: the same object);
`__ne__` is its negation -/
theorem eq_iff (f : Fam) (x y : Obj) :
    (eq x y = true ↔ x.ip = y.ip ∧ x.len = y.len) ∧
    (Valid f x → Valid f y → (eq x y = true ↔ x = y)) ∧
    ne x y = !(eq x y) :=
  ⟨eq_iff_fields x y, fun vx vy => eq_iff_same f x y vx vy, rfl⟩

/-- equal objects hash equal, whatever the string hash and the address rendering are -/
theorem eq_hash (H : Py.Str → Int) (render : Nat → Py.Str) (x y : Obj) (h : eq x y = true) :
    IPVal.hash H render x = IPVal.hash H render y := by
  obtain ⟨h1, h2⟩ := (eq_iff_fields x y).mp h
  unfold IPVal.hash; rw [h1, h2]

/-- **sorting**: `sorted(objs)` is a permutation of `objs` in which no element is less than an
earlier one; an object inside another one (C12) with a strictly longer prefix compares greater,
so more specific prefixes come after less specific ones -/
theorem sort_specific_after (f : Fam) :
    (∀ l : List Obj, (sorted l).Perm l ∧ (sorted l).Pairwise (fun a b => lt b a = false)) ∧
    (∀ y x : Obj, Valid f y → Valid f x → contains4 f y x = true → y.len < x.len →
      lt y x = true ∧ gt x y = true) := by
  refine ⟨sorted_spec, ?_⟩
  intro y x vy vx hc hl
  have := (lt_iff_lex y x).mpr (specific_after f y x vy vx ((contains4_iff_prefix f y x vy vx).mp hc) hl)
  exact ⟨this, by rw [gt_eq_lt_flip]; exact this⟩

/-- the longest-match idiom of the class docstring: walking a list in descending order
(`sorted(..., reverse=True)`), the first route containing `x` has the longest prefix among all
routes containing `x` -/
theorem longest_match_first (f : Fam) (rt : List Obj) (x r : Obj)
    (hv : ∀ q ∈ rt, Valid f q) (vx : Valid f x)
    (hs : rt.Pairwise (fun a b => lt a b = false))
    (hf : rt.find? (fun q => contains4 f q x) = some r) :
    ∀ r' ∈ rt, contains4 f r' x = true → r'.len ≤ r.len :=
  longest_match_first' f rt x r hv vx hs hf

/-- `x + n` and `x - n` succeed exactly when the result is an address (`0 … MAXINT`); the result
has that address, the same prefix length, and satisfies the invariant.  Outside: `RequirementFailure`
(`add_overflow_raises`, `sub_underflow_raises` are the two `¬` cases). -/
theorem add_sub_spec (f : Fam) (ok : f.Ok) (x : Obj) (n : Int) (vx : Valid f x) :
    (0 ≤ (x.ip : Int) + n ∧ (x.ip : Int) + n ≤ 2 ^ f.w - 1 →
      add f x n = .ok (ofIpLen f ((x.ip : Int) + n).toNat x.len)) ∧
    (¬ (0 ≤ (x.ip : Int) + n ∧ (x.ip : Int) + n ≤ 2 ^ f.w - 1) →
      add f x n = .error .requirementFailure) ∧
    (0 ≤ (x.ip : Int) - n ∧ (x.ip : Int) - n ≤ 2 ^ f.w - 1 →
      sub f x n = .ok (ofIpLen f ((x.ip : Int) - n).toNat x.len)) ∧
    (¬ (0 ≤ (x.ip : Int) - n ∧ (x.ip : Int) - n ≤ 2 ^ f.w - 1) →
      sub f x n = .error .requirementFailure) := by
  have hm : (f.maxInt : Int) = 2 ^ f.w - 1 := by
    have := ok.maxInt_eq
    have hp : 0 < 2 ^ f.w := Nat.two_pow_pos _
    have e : ((2 ^ f.w : Nat) : Int) = (2 : Int) ^ f.w := by simp
    rw [this, ← e]; omega
  have a := add_spec f x n vx.len_le
  have s := add_spec f x (-n) vx.len_le
  rw [← sub_eq_add_neg, ← Int.sub_eq_add_neg] at s
  rw [hm] at a s
  exact ⟨a.1, a.2, s.1, s.2⟩

theorem add_overflow_raises (f : Fam) (ok : f.Ok) (x : Obj) (n : Int) (vx : Valid f x)
    (h : (x.ip : Int) + n > 2 ^ f.w - 1 ∨ (x.ip : Int) + n < 0) :
    add f x n = .error .requirementFailure :=
  (add_sub_spec f ok x n vx).2.1 (by omega)

theorem sub_underflow_raises (f : Fam) (ok : f.Ok) (x : Obj) (n : Int) (vx : Valid f x)
    (h : (x.ip : Int) - n < 0 ∨ (x.ip : Int) - n > 2 ^ f.w - 1) :
    sub f x n = .error .requirementFailure :=
  (add_sub_spec f ok x n vx).2.2.2 (by omega)

/-- adding and then subtracting the same integer gives back the object; the prefix length never
changes and the intermediate object satisfies the invariant -/
theorem add_sub_cancel (f : Fam) (ok : f.Ok) (x y : Obj) (n : Int) (vx : Valid f x)
    (h : add f x n = .ok y) : sub f y n = .ok x ∧ y.len = x.len ∧ Valid f y :=
  add_sub_cancel' f ok x y n vx h

/-- the `prefixlen` setter keeps the host address, sets the length, re-establishes the invariant;
outside `0 … w` it raises `NetmaskValueError` (and nothing is assigned) -/
theorem set_len_keeps_ip (f : Fam) (x : Obj) (arg : Int) (hip : x.ip < 2 ^ f.w) :
    (0 ≤ arg ∧ arg ≤ (f.w : Int) →
      ∃ y, setLen f x arg = .ok y ∧ y.ip = x.ip ∧ (y.len : Int) = arg ∧ Valid f y) ∧
    (¬ (0 ≤ arg ∧ arg ≤ (f.w : Int)) → setLen f x arg = .error .netmaskValueError) := by
  have sp := setLen_spec f x arg
  refine ⟨fun h => ⟨_, sp.1 h, rfl, ?_, valid_ofIpLen f _ _ hip (by omega)⟩, sp.2⟩
  simp only [ofIpLen]; omega

/-- the `network_offset` setter, for every integer `k`: accepted iff `0 ≤ k` and `k` does not
exceed the last address of the network; then the host address becomes `network + k`, network and
prefix length are unchanged and the invariant holds; otherwise (negative, or past the last
address) `AddressValueError` and nothing is assigned. -/
theorem set_offset_sets_ip (f : Fam) (x : Obj) (vx : Valid f x) (k : Int) :
    (0 ≤ k ∧ k ≤ (asDecimalBroadcast f x : Int) - (x.net : Int) →
      ∃ y, setOffset f x k = .ok y ∧ (y.ip : Int) = (x.net : Int) + k ∧ y.net = x.net ∧
        y.len = x.len ∧ Valid f y) ∧
    (¬ (0 ≤ k ∧ k ≤ (asDecimalBroadcast f x : Int) - (x.net : Int)) →
      setOffset f x k = .error .addressValueError) := by
  have hP : 0 < 2 ^ hb f x := Nat.two_pow_pos _
  rw [bcast_eq]
  constructor
  · rintro ⟨h0, hk⟩
    obtain ⟨n, rfl⟩ := Int.eq_ofNat_of_zero_le h0
    have sp := setOffset_nonneg f x vx n
    have hk' : n < 2 ^ hb f x := by omega
    exact ⟨_, sp.1 hk', by simp only; omega, rfl, rfl, valid_same_block f x vx n hk'⟩
  · intro h
    by_cases h0 : 0 ≤ k
    · obtain ⟨n, rfl⟩ := Int.eq_ofNat_of_zero_le h0
      exact (setOffset_nonneg f x vx n).2 (by omega)
    · exact setOffset_neg f x k (by omega)

/-- the `network_offset` getter returns `ip - network`, except that it raises `RequirementFailure`
on the last address of a network of four or more addresses -/
theorem get_offset_spec (f : Fam) (ok : f.Ok) (x : Obj) (vx : Valid f x) :
    getOffset f x =
      if x.len + 2 ≤ f.w ∧ x.ip = asDecimalBroadcast f x then .error .requirementFailure
      else .ok ((x.ip : Int) - (x.net : Int)) :=
  getOffset_spec f ok x vx

/-- every way of obtaining an object establishes or preserves the class invariant -/
theorem invariant_preserved (f : Fam) (ok : f.Ok) :
    (∀ ip len, ip < 2 ^ f.w → len ≤ f.w → Valid f (ofIpLen f ip len)) ∧
    (∀ n y, ofInt f n = .ok y → Valid f y) ∧
    (∀ x n y, Valid f x → add f x n = .ok y → Valid f y) ∧
    (∀ x n y, Valid f x → sub f x n = .ok y → Valid f y) ∧
    (∀ x l y, Valid f x → setLen f x l = .ok y → Valid f y) ∧
    (∀ x (k : Int) y, Valid f x → setOffset f x k = .ok y → Valid f y) := by
  have hm := ok.maxInt_eq
  have hp : 0 < 2 ^ f.w := Nat.two_pow_pos _
  refine ⟨valid_ofIpLen f, ?_, ?_, ?_, ?_, ?_⟩
  · intro n y h
    unfold ofInt at h
    split at h
    · rename_i hr; cases h
      exact valid_ofIpLen f _ _ (by omega) (Nat.le_refl _)
    · cases h
  · intro x n y vx h; exact (add_sub_cancel' f ok x y n vx h).2.2
  · intro x n y vx h; rw [sub_eq_add_neg] at h; exact (add_sub_cancel' f ok x y (-n) vx h).2.2
  · intro x l y vx h
    have sp := setLen_spec f x l
    by_cases hr : 0 ≤ l ∧ l ≤ (f.w : Int)
    · rw [sp.1 hr] at h; cases h; exact valid_ofIpLen f _ _ vx.ip_lt (by omega)
    · rw [sp.2 hr] at h; cases h
  · intro x k y vx h
    have sp := set_offset_sets_ip f x vx k
    by_cases hk : 0 ≤ k ∧ k ≤ (asDecimalBroadcast f x : Int) - (x.net : Int)
    · obtain ⟨y', hy, _, _, _, vy⟩ := sp.1 hk
      rw [hy] at h; cases h; exact vy
    · rw [sp.2 hk] at h; cases h

/-- the family constants of the generated tables satisfy what the proofs assume -/
theorem families_ok : v4.Ok ∧ v6.Ok ∧ v4.w = 32 ∧ v6.w = 128 := ⟨v4_ok, v6_ok, by decide, by decide⟩

-- non-vacuity
-- same network, different prefix lengths and hosts: 10.0.0.0/8 < 10.0.0.0/24 < 10.0.0.5/24
example : lt (ofIpLen v4 0x0a000000 8) (ofIpLen v4 0x0a000000 24) = true
    ∧ lt (ofIpLen v4 0x0a000000 24) (ofIpLen v4 0x0a000005 24) = true := by decide
example : Valid v4 (ofIpLen v4 0x0a000005 24) := by decide
-- F18 input: 255.255.255.255 - 0 is the maximum address
example : sub v4 (ofIpLen v4 0xffffffff 32) 0 = .ok (ofIpLen v4 0xffffffff 32) := by decide
example : add v4 (ofIpLen v4 0xffffffff 32) 1 = .error .requirementFailure := by decide
example : add v4 (ofIpLen v4 0x0a000005 24) 251 = .ok (ofIpLen v4 0x0a000100 24) := by decide
example : (add v6 (ofIpLen v6 5 64) (-5)).toOption = some (ofIpLen v6 0 64) := by decide
example : sub v6 (ofIpLen v6 5 64) 6 = .error .requirementFailure := by decide
example : setLen v4 (ofIpLen v4 0x0a000005 24) 33 = .error .netmaskValueError := by decide
example : setLen v4 (ofIpLen v4 0x0a000005 24) 16 = .ok (ofIpLen v4 0x0a000005 16) := by decide
example : setOffset v4 (ofIpLen v4 0x0a000005 24) 255 = .ok (ofIpLen v4 0x0a0000ff 24) := by decide
example : setOffset v4 (ofIpLen v4 0x0a000005 24) 256 = .error .addressValueError := by decide
-- F41 input (repaired): 10.0.0.5/24 with `network_offset = -1` is rejected
example : setOffset v4 (ofIpLen v4 0x0a000005 24) (-1) = .error .addressValueError := by decide
example : getOffset v4 (ofIpLen v4 0x0a0000ff 24) = .error .requirementFailure := by decide
example : getOffset v4 (ofIpLen v4 0x0a0000fe 24) = .ok 254 := by decide

/-! ## The other operands, setter names and argument types

`ltX / gtX / eqX / neX self val` are the operators for any two operands (`Ccp.Model.IPValX`): a non-empty
object of either family, the empty object `IPv4Obj()` / `IPv6Obj()`, or a `str`; the answer is a truth
value or the exception class that escapes.  `setLenBy / setLenStr / setOffsetStr` are the setters under
their four names and with `str` arguments. -/

open Ccp.IPValX in
/-- **on two non-empty objects the general operators are the ones of the theorems above** — for `<`, `>`,
`==` also across the two families (the comparison is numeric on (network, length, address)); `!=` is the
negation of `==` within a family.  (`IPv4Obj != IPv6Obj` is `True` whatever `==` says: `__ne__` answers
`True` for every operand that is not an `IPv4Obj`.) -/
theorem opsX_on_objects (a b : Arg) (x y : Obj) (ha : objOf a = some x) (hb : objOf b = some y) :
    ltX a b = some (.ok (lt x y)) ∧ gtX a b = some (.ok (gt x y)) ∧ eqX a b = some (.ok (eq x y)) ∧
    (neX (.obj4 x) (.obj4 y) = some (.ok (ne x y)) ∧ neX (.obj6 x) (.obj6 y) = some (.ok (ne x y)) ∧
     neX (.obj6 x) (.obj4 y) = some (.ok (ne x y)) ∧ neX (.obj4 x) (.obj6 y) = some (.ok true)) := by
  cases a <;> cases b <;> simp [objOf] at ha hb <;> subst ha <;> subst hb <;>
    simp [ltX, gtX, eqX, neX, objOf, eq4X, eq6X, notE, ne]

open Ccp.IPValX in
/-- **ordering an empty object or a `str` raises**: `<` and `>` raise `ValueError` as soon as one operand is
an empty object or no address object at all -/
theorem ordering_rejects (a b : Arg) (ha : a ≠ .other) (h : objOf a = none ∨ objOf b = none) :
    ltX a b = some (.error .valueError) ∧ gtX a b = some (.error .valueError) := by
  cases a <;> cases b <;> simp_all [ltX, gtX, objOf]

open Ccp.IPValX in
/-- **equality with empty objects, per family**: two empty objects are equal, an empty and a non-empty one
are not (in either order), `!=` is the negation, nothing raises -/
theorem eqX_empty (x : Obj) :
    (eqX .empty4 .empty4 = some (.ok true) ∧ eqX .empty4 (.obj4 x) = some (.ok false) ∧
      eqX (.obj4 x) .empty4 = some (.ok false)) ∧
    (neX .empty4 .empty4 = some (.ok false) ∧ neX .empty4 (.obj4 x) = some (.ok true) ∧
      neX (.obj4 x) .empty4 = some (.ok true)) ∧
    (eqX .empty6 .empty6 = some (.ok true) ∧ eqX .empty6 (.obj6 x) = some (.ok false) ∧
      eqX (.obj6 x) .empty6 = some (.ok false)) ∧
    (neX .empty6 .empty6 = some (.ok false) ∧ neX .empty6 (.obj6 x) = some (.ok true) ∧
      neX (.obj6 x) .empty6 = some (.ok true)) := by
  simp [eqX, neX, eq4X, eq6X, notE]

open Ccp.IPValX in
/-- **a `str` is never equal to a non-empty object** (`==` is `False`, `!=` is `True`, no exception) -/
theorem eqX_str (x : Obj) :
    eqX (.obj4 x) .other = some (.ok false) ∧ neX (.obj4 x) .other = some (.ok true) ∧
    eqX (.obj6 x) .other = some (.ok false) ∧ neX (.obj6 x) .other = some (.ok true) := by
  simp [eqX, neX, eq4X, eq6X, notE]

open Ccp.IPValX in
/-- **`hash()`, `int()`, `__index__()` and the four names of the prefix length** on a non-empty object:
`hash` returns, `int` is the address, `prefixlen = masklen = masklength = prefixlength` -/
theorem unary_on_objects (a : Arg) (x : Obj) (ha : objOf a = some x) (name : LenName) :
    hashX a = some (.ok ()) ∧ intX a = some (.ok x.ip) ∧ getLenX name a = some (.ok (some x.len)) := by
  cases a <;> simp [objOf] at ha <;> subst ha <;> simp [hashX, intX, getLenX]

open Ccp.IPValX in
/-- **the other names of the setter**: `masklen`, `masklength` and (IPv4) `prefixlength` assign exactly as
`prefixlen` does — so `set_len_keeps_ip` holds for them: the address is kept, the length set, the invariant
re-established, anything outside `0 … w` raises `NetmaskValueError`.  `IPv6Obj.prefixlength` has no setter:
`AttributeError`, nothing assigned. -/
theorem alias_setters (fam : Nat) (name : LenName) (x : Obj) (arg : Int)
    (h : ¬ (name = .prefixlength ∧ fam = 6)) :
    setLenBy fam name x arg = liftE (setLen (famOfNat fam) x arg) ∧
    setLenBy 6 .prefixlength x arg = .error .attributeError := by
  simp [setLenBy, h]

open Ccp.IPValX in
/-- **`str` arguments**: assigning the decimal text of `n` to a length setter is assigning `n`; assigning
the decimal text of an integer `k` (negative ones included) to `network_offset` is assigning `k` — so
`set_len_keeps_ip` / `set_offset_sets_ip` cover these spellings. -/
theorem str_arguments (fam : Nat) (name : LenName) (x : Obj) (n : Nat) (k : Int) :
    setLenStr fam name x (Py.toDec n) = setLenBy fam name x (n : Int) ∧
    setOffsetStr fam x (Py.intToDec k) = liftE (setOffset (famOfNat fam) x k) := by
  constructor
  · unfold setLenStr setLenBy
    split
    · rfl
    · simp [IPText.all_isDigit_toDec, IPText.ofDigits_toDec]
  · simp [setOffsetStr, pyInt_intToDec]

open Ccp.IPValX in
/-- **what the setters and operators reject by type**: a text that is not all digits is no prefix length
(`NetmaskValueError`), a text that is no integer literal is no offset (`ValueError`), a `float` offset
raises `NotImplementedError`, a non-`int` operand of `+` / `-` raises `ValueError` -/
theorem type_rejections (fam : Nat) (name : LenName) (x : Obj) (t : Py.Str)
    (hn : ¬ (name = .prefixlength ∧ fam = 6)) :
    (t.all Py.isDigit = false → setLenStr fam name x t = .error (.base .netmaskValueError)) ∧
    (Py.pyInt t = none → setOffsetStr fam x t = .error .valueError) ∧
    setOffsetOther = .error (.base .notImplemented) ∧ arithNonInt = .error .valueError := by
  refine ⟨fun h => ?_, fun h => ?_, rfl, rfl⟩
  · simp [setLenStr, hn, h]
  · simp [setOffsetStr, h]

-- non-vacuity: across families `==` is numeric and `!=` from the IPv4 side is always true; ordering an empty object raises;
-- hash(IPv6Obj()) raises while hash(IPv4Obj()) returns; a leading zero, a sign, a blank
open Ccp.IPValX in
example : eqX (.obj4 (ofIpLen v4 1 8)) (.obj6 (ofIpLen v6 1 8)) = some (.ok true) ∧
    neX (.obj4 (ofIpLen v4 1 8)) (.obj6 (ofIpLen v6 1 8)) = some (.ok true) ∧
    ltX .empty4 (.obj4 (ofIpLen v4 1 8)) = some (.error .valueError) ∧
    eqX (.obj6 (ofIpLen v6 1 8)) .empty4 = some (.error .valueError) ∧
    eqX .empty4 (.obj6 (ofIpLen v6 1 8)) = some (.error .attributeError) ∧
    hashX .empty6 = some (.error .attributeError) ∧ hashX .empty4 = some (.ok ()) := by decide
open Ccp.IPValX in
example : setLenStr 4 .masklen (ofIpLen v4 0x0a000005 24) "016".toList = .ok (ofIpLen v4 0x0a000005 16) ∧
    setLenStr 4 .masklen (ofIpLen v4 0x0a000005 24) "+16".toList = .error (.base .netmaskValueError) ∧
    setLenStr 6 .prefixlength (ofIpLen v6 5 64) "16".toList = .error .attributeError ∧
    setOffsetStr 4 (ofIpLen v4 0x0a000005 24) " 7 ".toList = .ok (ofIpLen v4 0x0a000007 24) ∧
    setOffsetStr 4 (ofIpLen v4 0x0a000005 24) "-1".toList = .error (.base .addressValueError) ∧
    setOffsetStr 4 (ofIpLen v4 0x0a000005 24) "x".toList = .error .valueError := by decide

end Ccp.C13
