import Ccp.Model.IPText
namespace Ccp.C11
theorem placeholder : True := trivial
end Ccp.C11
