import Ccp.Proofs.IPText
import Ccp.Proofs.IPSpell
import Ccp.Proofs.IPRender
import Ccp.Spec.IP
import Ccp.Proofs.IPTextX
import Ccp.Proofs.IPCheck
/-!
# C11 — IPv4/IPv6 objects agree with the standard library on every derived value

Property theorems only; helper lemmas live in `Ccp.Proofs.IPText`, the reading of "what `ipaddress`
says" in `Ccp.Spec.IP`.  `mk4 ip len` / `mk6 ip len` is the object every constructor stores for the
interface `(ip, len)` (theorems `*_constructors`, `v4_text_forms`, `v6_text_forms`).
-/
namespace Ccp.C11
open Ccp.Py Ccp.IPText Ccp.Spec

/-! ## value level -/

/-- the stdlib's `ALL_ONES ^ (ALL_ONES >> len)` is the netmask `2^w − 2^(w−len)`, its complement the hostmask -/
theorem masks_agree :
    (∀ len, len ≤ 32 → ipIntFromPrefix 32 len = IP.mask 32 len ∧ hostmaskInt 32 len = IP.hostmask 32 len) ∧
    (∀ len, len ≤ 128 → ipIntFromPrefix 128 len = IP.mask 128 len ∧ hostmaskInt 128 len = IP.hostmask 128 len) :=
  ⟨mask32, mask128⟩

/-- `&&&` with a netmask clears exactly the host part; `|||` with the hostmask fills it -/
theorem net_last_arith (w ip len : Nat) (hl : len ≤ w) (h : ip < 2 ^ w) :
    IP.net w ip len = ip - ip % 2 ^ (w - len) ∧
    IP.last w ip len = IP.net w ip len + (2 ^ (w - len) - 1) ∧
    IP.net w ip len ≤ ip ∧ ip ≤ IP.last w ip len := by
  have h1 := net_eq_sub_mod w (w - len) ip (by omega) h
  have h2 := net_add_host w (w - len) ip (by omega) h
  unfold IP.last IP.net IP.mask IP.hostmask
  refine ⟨h1, h2.symm, Nat.and_le_left, ?_⟩
  rw [← h2, h1]
  have := Nat.mod_lt ip (Nat.two_pow_pos (w - len))
  have := Nat.mod_le ip (2 ^ (w - len))
  omega

theorem dotted_eq (n : Nat) : strV4 n = IP.dotted n := by
  rw [strV4_eq]
  simp [IP.dotted, IP.octet]

/-- `str(IPv4Address(n))` is the dotted quad of `n`, and reading it back (stdlib parser, and the
`as_decimal` way: split, reverse, `sum(int(x)·256^i)`) gives `n` -/
theorem dotted_roundtrip (n : Nat) (h : n < 2 ^ 32) :
    strV4 n = IP.dotted n ∧ stdV4Addr (strV4 n) = .ok n ∧
    sumPow 256 pyNat 0 (splitOn '.' (strV4 n)).reverse = some n :=
  ⟨dotted_eq n, stdV4Addr_strV4 n (by omega), sumPow_strV4 n (by omega)⟩

theorem hexDigit_eq : ∀ d : Fin 16, Nat.digitChar d.val = IP.hexDigit d.val := by decide

theorem hex4_eq (g : Nat) : IPText.hex4 g = IP.hex4 g := by
  have hd : ∀ d, d < 16 → Nat.digitChar d = IP.hexDigit d := fun d h => hexDigit_eq ⟨d, h⟩
  simp only [IPText.hex4, IP.hex4]
  rw [hd _ (Nat.mod_lt _ (by omega)), hd _ (Nat.mod_lt _ (by omega)), hd _ (Nat.mod_lt _ (by omega)),
    hd _ (Nat.mod_lt _ (by omega))]

theorem groups_eq (n : Nat) : (hextets n).map IPText.hex4 = (IP.groups n).map IP.hex4 := by
  simp [hextets, IP.groups, IP.group, hex4_eq, List.range, List.range.loop]

theorem exploded_eq (n : Nat) : explodedV6 n = IP.exploded n := by
  unfold explodedV6 IP.exploded
  rw [groups_eq]

/-- the exploded text is the eight zero-padded groups; reading it back the `as_decimal` way (split,
reverse, `sum(int(x,16)·65536^i)`) gives `n`; the compressed text `str(IPv6Address(n))` parses back to `n` -/
theorem hextets_roundtrip (n : Nat) (h : n < 2 ^ 128) :
    explodedV6 n = IP.exploded n ∧
    sumPow 65536 ofHex 0 (splitOn ':' (explodedV6 n)).reverse = some n ∧
    stdV6Addr (strV6 n) = .ok n :=
  ⟨exploded_eq n, sumPow_exploded n h, stdV6Addr_strV6 n h⟩

/-- **IPv4 values**: for every interface `(ip, len)` every derived value of the object equals what
`ipaddress` gives -/
theorem v4_values_agree (ip len : Nat) (hip : ip < 2 ^ 32) (hlen : len ≤ 32) :
    let o := mk4 ip len
    o.ip = ip ∧ o.len = len ∧ o.net = IP.net 32 ip len ∧
    V4.netmask o = IP.mask 32 len ∧ V4.hostmask o = IP.hostmask 32 len ∧ V4.broadcast o = IP.last 32 ip len ∧
    V4.network o = .ok (IP.net 32 ip len, len) ∧
    V4.asDecimal o = .ok ip ∧ V4.asDecimalNetwork o = .ok (IP.net 32 ip len) ∧
    V4.asDecimalBroadcast o = .ok (IP.last 32 ip len) ∧
    V4.numhosts o = .ok (IP.hosts 32 len) ∧
    V4.ipStr o = IP.dotted ip ∧ V4.asCidrAddr o = IP.cidr (IP.dotted ip) len ∧
    V4.asCidrNet o = .ok (IP.cidr (IP.dotted (IP.net 32 ip len)) len) := by
  intro o
  have hip' : ip < 4294967296 := by omega
  have hol : o.len = len := rfl
  have hm := mask32 len hlen
  have hnet : o.net = IP.net 32 ip len := by
    show ip &&& ipIntFromPrefix 32 len = ip &&& IP.mask 32 len
    rw [hm.1]; rfl
  have hbc : V4.broadcast o = IP.last 32 ip len := by
    show o.net ||| hostmaskInt 32 len = _
    rw [hnet, hm.2]; rfl
  refine ⟨rfl, rfl, hnet, hm.1, hm.2, hbc, ?_, V4.asDecimal_mk4 ip len hip', ?_, ?_, ?_, dotted_eq ip, ?_, ?_⟩
  · rw [← hnet]; exact V4.network_mk4 ip len hip' hlen
  · rw [← hnet]; exact V4.asDecimalNetwork_mk4 ip len hip' hlen
  · unfold V4.asDecimalBroadcast
    rw [V4.asDecimalNetwork_mk4 ip len hip' hlen]
    simp only [bind, Except.bind, pure, Except.pure]
    have := (net_last_arith 32 ip len hlen hip).2.1
    rw [hnet, this]; rfl
  · unfold V4.numhosts IP.hosts
    show (if len ≤ 30 then _ else _) = _
    by_cases h30 : len ≤ 30
    · have : len + 2 ≤ 32 := by omega
      simp [h30, this, Gen.ipv4MaxPrefixlen, hol]
    · rcases (show len = 31 ∨ len = 32 by omega) with rfl | rfl <;> simp [hol]
  · show strV4 ip ++ '/' :: toDec len = _
    rw [dotted_eq]; rfl
  · rw [V4.asCidrNet_mk4 ip len hip' hlen, dotted_eq, hnet]; rfl

-- non-vacuity: 10.1.2.3/24 keeps its host bits, network 10.1.2.0, broadcast 10.1.2.255
example : (167838211 : Nat) < 2 ^ 32 ∧ (mk4 167838211 24).ip = 167838211 ∧ (mk4 167838211 24).net = 167838208 ∧
    V4.broadcast (mk4 167838211 24) = 167838463 := by decide

/-- **IPv6 values** -/
theorem v6_values_agree (ip len : Nat) (hip : ip < 2 ^ 128) (hlen : len ≤ 128) :
    let o := mk6 ip len
    o.ip = ip ∧ o.len = len ∧ o.net = IP.net 128 ip len ∧
    V6.netmask o = IP.mask 128 len ∧ V6.hostmask o = IP.hostmask 128 len ∧ V6.lastAddress o = IP.last 128 ip len ∧
    V6.network o = .ok (IP.net 128 ip len, len) ∧
    V6.asDecimal o = .ok ip ∧ V6.asDecimalNetwork o = .ok (IP.net 128 ip len) ∧
    V6.asDecimalNetworkMaxint o = .ok (IP.last 128 ip len) ∧
    V6.numhosts o = .ok (IP.hosts 128 len) ∧
    V6.exploded o = IP.exploded ip ∧ V6.asHexTuple o = (IP.groups ip).map IP.hex4 ∧
    V6.asCidrAddr o = IP.cidr (strV6 ip) len ∧
    V6.asCidrNet o = .ok (IP.cidr (strV6 (IP.net 128 ip len)) len) ∧
    V6.compressed o = IP.cidr (strV6 (IP.net 128 ip len)) len := by
  intro o
  have hol : o.len = len := rfl
  have hm := mask128 len hlen
  have hnet : o.net = IP.net 128 ip len := by
    show ip &&& ipIntFromPrefix 128 len = ip &&& IP.mask 128 len
    rw [hm.1]; rfl
  have hbc : V6.lastAddress o = IP.last 128 ip len := by
    show o.net ||| hostmaskInt 128 len = _
    rw [hnet, hm.2]; rfl
  refine ⟨rfl, rfl, hnet, hm.1, hm.2, hbc, ?_, V6.asDecimal_mk6 ip len hip, ?_, ?_, ?_, exploded_eq ip, ?_, rfl, ?_, ?_⟩
  · rw [← hnet]; exact V6.network_mk6 ip len hip hlen
  · rw [← hnet]; exact V6.asDecimalNetwork_mk6 ip len hip hlen
  · unfold V6.asDecimalNetworkMaxint
    rw [V6.asDecimalNetwork_mk6 ip len hip hlen]
    simp only [bind, Except.bind, pure, Except.pure]
    have := (net_last_arith 128 ip len hlen hip).2.1
    rw [hnet, this]; rfl
  · unfold V6.numhosts IP.hosts
    show (if len ≤ 126 then _ else _) = _
    by_cases h126 : len ≤ 126
    · have : len + 2 ≤ 128 := by omega
      simp [h126, this, Gen.ipv6MaxPrefixlen, hol]
    · rcases (show len = 127 ∨ len = 128 by omega) with rfl | rfl <;> simp [hol]
  · show splitOn ':' (explodedV6 ip) = _
    rw [splitOn_exploded, groups_eq]
  · rw [V6.asCidrNet_mk6 ip len hip hlen, hnet]; rfl
  · show strV6 o.net ++ '/' :: toDec len = _
    rw [hnet]; rfl

-- non-vacuity: a /127 inside the upper half of the address space
example : (2 ^ 127 + 5 : Nat) < 2 ^ 128 ∧ (mk6 (2 ^ 127 + 5) 127).net = 2 ^ 127 + 4 ∧
    V6.lastAddress (mk6 (2 ^ 127 + 5) 127) = 2 ^ 127 + 5 := by decide

/-- **Host bits are kept**: the object reports the address it was given, not the network address –
the stored address minus the network address is exactly the host part `ip mod 2^(w−len)` -/
theorem host_bits_kept :
    (∀ ip len, ip < 2 ^ 32 → len ≤ 32 →
      (mk4 ip len).ip = ip ∧ (mk4 ip len).ip - (mk4 ip len).net = ip % 2 ^ (32 - len) ∧
      V4.asCidrAddr (mk4 ip len) = IP.cidr (IP.dotted ip) len) ∧
    (∀ ip len, ip < 2 ^ 128 → len ≤ 128 →
      (mk6 ip len).ip = ip ∧ (mk6 ip len).ip - (mk6 ip len).net = ip % 2 ^ (128 - len) ∧
      V6.asCidrAddr (mk6 ip len) = IP.cidr (strV6 ip) len) := by
  constructor
  · intro ip len hip hlen
    have hv := v4_values_agree ip len hip hlen
    have ha := (net_last_arith 32 ip len hlen hip).1
    refine ⟨rfl, ?_, hv.2.2.2.2.2.2.2.2.2.2.2.2.1⟩
    rw [hv.2.2.1, ha]
    have := Nat.mod_le ip (2 ^ (32 - len))
    show ip - (ip - ip % 2 ^ (32 - len)) = _
    omega
  · intro ip len hip hlen
    have hv := v6_values_agree ip len hip hlen
    have ha := (net_last_arith 128 ip len hlen hip).1
    refine ⟨rfl, ?_, rfl⟩
    rw [hv.2.2.1, ha]
    have := Nat.mod_le ip (2 ^ (128 - len))
    show ip - (ip - ip % 2 ^ (128 - len)) = _
    omega

/-- **Integer and copy constructors** build the object of `(n, width)` resp. an equal object;
integers outside the address space are refused -/
theorem int_copy_constructors :
    (∀ n : Nat, n < 2 ^ 32 → V4.fromInt n = .ok (mk4 n 32)) ∧
    (∀ v : Int, (v < 0 ∨ 2 ^ 32 ≤ v) → V4.fromInt v = .error .requirementFailure) ∧
    (∀ ip len, ip < 2 ^ 32 → len ≤ 32 → V4.copy (mk4 ip len) = .ok (mk4 ip len)) ∧
    (∀ n : Nat, n < 2 ^ 128 → V6.fromInt n = .ok (mk6 n 128)) ∧
    (∀ v : Int, (v < 0 ∨ 2 ^ 128 ≤ v) → V6.fromInt v = .error .requirementFailure) ∧
    (∀ ip len, ip < 2 ^ 128 → len ≤ 128 → V6.copy (mk6 ip len) = .ok (mk6 ip len)) := by
  refine ⟨fun n h => V4.fromInt_ok n (by omega), ?_, fun ip len h1 h2 => V4.copy_mk4 ip len (by omega) h2,
    fun n h => V6.fromInt_ok n h, ?_, fun ip len h1 h2 => V6.copy_mk6 ip len h1 h2⟩
  · intro v hv
    cases v with
    | ofNat n =>
      have : ¬ n ≤ Gen.ipv4MaxInt := by
        unfold Gen.ipv4MaxInt
        rcases hv with hv | hv
        · exact absurd hv (by simp)
        · have : (4294967296 : Int) ≤ (n : Int) := by simpa using hv
          omega
      simp [V4.fromInt, this]
    | negSucc n => rfl
  · intro v hv
    cases v with
    | ofNat n =>
      have : ¬ n ≤ Gen.ipv6MaxInt := by
        unfold Gen.ipv6MaxInt
        rcases hv with hv | hv
        · exact absurd hv (by simp)
        · have : (340282366920938463463374607431768211456 : Int) ≤ (n : Int) := by simpa using hv
          omega
      simp [V6.fromInt, this]
    | negSucc n => rfl

/-! ## IPv4 text level -/

/-- the accepted spellings of the interface `(ip, len)`, after `strip()` -/
inductive V4Form
  | plain                              -- `a`               (len = 32)
  | pfx (digits : Str)                 -- `a/digits`        ASCII digits whose value is `len` (leading zeros allowed)
  | slashMask (host : Bool)            -- `a/m`             `m` the netmask (or the hostmask) of `len`
  | spaceMask (host : Bool) (ws : Str) -- `a<blanks>m`

def maskOf (len : Nat) (host : Bool) : Nat := if host then IP.hostmask 32 len else IP.mask 32 len

def V4Form.render (ip len : Nat) : V4Form → Str
  | .plain => IP.dotted ip
  | .pfx d => IP.dotted ip ++ '/' :: d
  | .slashMask host => IP.dotted ip ++ '/' :: IP.dotted (maskOf len host)
  | .spaceMask host ws => IP.dotted ip ++ ws ++ IP.dotted (maskOf len host)

/-- side conditions: which `len` a spelling can denote (the stdlib reads all-ones / all-zeroes masks as netmasks) -/
def V4Form.Ok (len : Nat) : V4Form → Prop
  | .plain => len = 32
  | .pfx d => d ≠ [] ∧ (∀ c ∈ d, isDigit c = true) ∧ ofDigits d = some len
  | .slashMask host => host = true → 0 < len ∧ len < 32
  | .spaceMask host ws => (host = true → 0 < len ∧ len < 32) ∧ ws ≠ [] ∧ ∀ c ∈ ws, isSpace c = true

theorem readsAs_maskOf (len : Nat) (host : Bool) (hl : len ≤ 32) (h : host = true → 0 < len ∧ len < 32) :
    maskOf len host < 4294967296 ∧ ReadsAs (maskOf len host) len := by
  cases host with
  | false =>
    refine ⟨?_, readsAs_netmask len hl⟩
    show 2 ^ 32 - 2 ^ (32 - len) < 4294967296
    have := Nat.two_pow_pos (32 - len); omega
  | true =>
    have := h rfl
    refine ⟨?_, readsAs_hostmask len hl this.1 this.2⟩
    show 2 ^ (32 - len) - 1 < 4294967296
    have : 2 ^ (32 - len) ≤ 2 ^ 32 := Nat.pow_le_pow_right (by omega) (by omega)
    omega

/-- **IPv4 text forms**: every accepted spelling of `(ip, len)`, with any surrounding white space,
constructs the object of `(ip, len)` -/
theorem v4_text_forms (ip len : Nat) (hip : ip < 2 ^ 32) (hlen : len ≤ 32) (f : V4Form) (hf : f.Ok len)
    (input : Str) (hs : strip input = f.render ip len) :
    V4.fromStr input = .ok (mk4 ip len) := by
  have hip' : ip < 4294967296 := by omega
  cases f with
  | plain =>
    have : len = 32 := hf
    subst this
    exact V4.fromStr_plain input ip hip' (by rw [hs, dotted_eq]; rfl)
  | pfx d =>
    obtain ⟨h1, h2, h3⟩ := hf
    exact V4.fromStr_prefix input ip len d hip' hlen h1 h2 h3 (by rw [hs, dotted_eq]; rfl)
  | slashMask host =>
    have hm := readsAs_maskOf len host hlen hf
    exact V4.fromStr_slashMask input ip len (maskOf len host) hip' hlen hm.1 hm.2
      (by rw [hs, dotted_eq, dotted_eq]; rfl)
  | spaceMask host ws =>
    obtain ⟨h1, h2, h3⟩ := hf
    have hm := readsAs_maskOf len host hlen h1
    exact V4.fromStr_spaceMask input ip len (maskOf len host) ws hip' hlen hm.1 hm.2 h2 h3
      (by rw [hs, dotted_eq, dotted_eq]; rfl)

-- non-vacuity: each spelling, with blanks around, on an address with host bits
example : V4Form.Ok 24 (.spaceMask true [' ', '\t']) := ⟨fun _ => by omega, by simp, by decide⟩
example : V4Form.Ok 8 (.pfx "008".toList) := ⟨by simp, by decide, by decide⟩

/-- **IPv4 rejects** (no silent truncation or coercion): whenever the text constructor returns an
object, the stripped input *is* one of the accepted spellings of exactly that object's `(ip, len)` –
the address part is the canonical dotted quad (no leading zeros, every octet ≤ 255, nothing
before or after it), the mask part a run of ASCII digits with value `len ≤ 32` or the canonical
dotted quad of the netmask / hostmask of `len`.  Every other text raises. -/
theorem v4_rejects (input : Str) (o : Obj) (h : V4.fromStr input = .ok o) :
    ∃ ip len f, ip < 2 ^ 32 ∧ len ≤ 32 ∧ V4Form.Ok len f ∧ strip input = V4Form.render ip len f ∧ o = mk4 ip len := by
  obtain ⟨ip, len, hip, hlen, ho, hform⟩ := V4.fromStr_inv input o h
  have maskCase : ∀ mv, ReadsAs mv len →
      ∃ host : Bool, (host = true → 0 < len ∧ len < 32) ∧ mv = maskOf len host := by
    intro mv hr
    rcases (readsAs_sound mv len hr).2 with e | ⟨h1, h2, e⟩
    · exact ⟨false, (fun hh => by cases hh), e⟩
    · exact ⟨true, fun _ => ⟨h1, h2⟩, e⟩
  rcases hform with ⟨h32, hs⟩ | ⟨p, hp1, hp2, hp3, hs⟩ | ⟨mv, _, hr, hs⟩ | ⟨mv, ws, _, hr, hw1, hw2, hs⟩
  · exact ⟨ip, len, .plain, by omega, hlen, h32, by rw [hs, dotted_eq]; rfl, ho⟩
  · exact ⟨ip, len, .pfx p, by omega, hlen, ⟨hp1, hp2, hp3⟩, by rw [hs, dotted_eq]; rfl, ho⟩
  · obtain ⟨host, hh, rfl⟩ := maskCase mv hr
    exact ⟨ip, len, .slashMask host, by omega, hlen, hh, by rw [hs, dotted_eq, dotted_eq]; rfl, ho⟩
  · obtain ⟨host, hh, rfl⟩ := maskCase mv hr
    exact ⟨ip, len, .spaceMask host ws, by omega, hlen, ⟨hh, hw1, hw2⟩, by rw [hs, dotted_eq, dotted_eq]; rfl, ho⟩

/-- hence a text that is not such a spelling is refused -/
theorem v4_invalid_raises (input : Str)
    (h : ¬ ∃ ip len f, ip < 2 ^ 32 ∧ len ≤ 32 ∧ V4Form.Ok len f ∧ strip input = V4Form.render ip len f) :
    ∃ e, V4.fromStr input = .error e := by
  cases hr : V4.fromStr input with
  | error e => exact ⟨e, rfl⟩
  | ok o =>
    obtain ⟨ip, len, f, h1, h2, h3, h4, _⟩ := v4_rejects input o hr
    exact absurd ⟨ip, len, f, h1, h2, h3, h4⟩ h

-- non-vacuity: truncation candidates are refused by the model (octet 256, length 33, leading zero, junk suffix)
example : V4.fromStr "256.1.1.1".toList = .error .addressValueError := by rfl
example : V4.fromStr "1.2.3.4/33".toList = .error .netmaskValueError := by rfl
example : V4.fromStr "01.2.3.4".toList = .error .addressValueError := by rfl
example : V4.fromStr "1.2.3.4/24x".toList = .error .addressValueError := by rfl

/-! ## IPv6 text level -/

/-- **IPv6 text forms, exploded spelling** (`xxxx:xxxx:…:xxxx/len`, `xxxx:…:xxxx<blanks>len`, any
surrounding blanks, ASCII digits with leading zeros for `len`): the constructor builds the object of
`(ip, len)`.  The length guard of the code (49 characters, applied to the normalised text since the
repair of F33) only limits the number of digits of `len` to 9; blanks never count. -/
theorem v6_text_forms_exploded (ip len : Nat) (hip : ip < 2 ^ 128) (hlen : len ≤ 128)
    (digits : Str) (hne : digits ≠ []) (hd : ∀ c ∈ digits, isDigit c = true) (hv : ofDigits digits = some len)
    (hguard : digits.length ≤ 9) (input : Str)
    (hs : strip input = IP.exploded ip ++ '/' :: digits ∨
      ∃ ws, ws ≠ [] ∧ (∀ c ∈ ws, isSpace c = true) ∧ strip input = IP.exploded ip ++ ws ++ digits) :
    V6.fromStr input = .ok (mk6 ip len) := by
  rw [← exploded_eq] at hs
  exact V6.fromStr_exploded input ip len digits hip hlen hne hd hv hguard hs

/-- **IPv6 text forms, compressed spelling** – the text the stdlib (and the class itself: `str(ip)`,
`as_cidr_addr`) prints for `ip`, i.e. lower-case groups without leading zeros with the longest run of
≥ 2 zero groups replaced by `::` – as `a`, `a/len`, `a<blanks>len`, with any surrounding blanks and
ASCII digits (leading zeros allowed, at most 9 of them because of the 49-character guard) for `len`:
the constructor builds the object of `(ip, len)`.  Covers the hand-written regex automaton (`:::`
look-ahead, `opt1 | opt3 … opt11`, mask group), the blank-to-slash rewrite, the guard and the stdlib layer. -/
theorem v6_text_forms_compressed (ip len : Nat) (hip : ip < 2 ^ 128) (hlen : len ≤ 128)
    (digits : Str) (hne : digits ≠ []) (hd : ∀ c ∈ digits, isDigit c = true) (hv : ofDigits digits = some len)
    (hguard : digits.length ≤ 9) (input : Str)
    (hs : strip input = strV6 ip ++ '/' :: digits ∨
      ∃ ws, ws ≠ [] ∧ (∀ c ∈ ws, isSpace c = true) ∧ strip input = strV6 ip ++ ws ++ digits) :
    V6.fromStr input = .ok (mk6 ip len) :=
  V6.fromStr_compressed input ip len digits hip hlen hne hd hv hguard hs

/-- the same without a mask: prefix length 128 -/
theorem v6_text_forms_compressed_plain (ip : Nat) (hip : ip < 2 ^ 128) (input : Str) (hs : strip input = strV6 ip) :
    V6.fromStr input = .ok (mk6 ip 128) :=
  V6.fromStr_compressed_plain input ip hip hs

/-- the stdlib layer alone reads the printed text back (what the copy constructor and every
`network`-derived value rely on) -/
theorem v6_printed_text_reads_back (ip len : Nat) (hip : ip < 2 ^ 128) (hlen : len ≤ 128) :
    stdV6Addr (strV6 ip) = .ok ip ∧
    stdV6Net false (strV6 ip ++ '/' :: toDec len) = .ok ((mk6 ip len).net, len) :=
  ⟨stdV6Addr_strV6 ip hip, stdV6Net_cidr false ip len hip hlen (fun h => by cases h)⟩

-- non-vacuity: a leading `::`, blanks around and as separator; the bare `::`; an inner run, upper case
example : V6.fromStr " ::1 64 ".toList = .ok (mk6 1 64) := by rfl
example : V6.fromStr "::/0".toList = .ok (mk6 0 0) := by rfl
example : V6.fromStr "2001:DB8::8:800:200C:417A/64".toList = .ok (mk6 0x20010DB80000000000080800200C417A 64) := by rfl

/-- **The stdlib IPv6 parser model is sound for RFC 4291 §2.2**: a text it accepts is a spelling of the
value it returns (eight groups of 1–4 hex digits, or `hi::lo` with at most seven groups written and the
missing ones zero, the last two groups optionally as a canonical dotted quad), and that value is a
128-bit address.  `IP.IsV6Spelling` is the short readable grammar in `Ccp.Spec.IP`. -/
theorem stdlib_v6_parser_sound (addr : Str) (n : Nat) (h : stdV6Addr addr = .ok n) :
    IP.IsV6Spelling addr n ∧ n < 2 ^ 128 := by
  have hi : stdV6Int addr = some n := by
    unfold stdV6Addr at h
    split at h
    · cases h
    · split at h
      · cases h
      · split at h
        · rename_i v hv; cases h; exact hv
        · cases h
  have hs := stdV6Int_sound addr n hi
  exact ⟨hs, spelling_lt addr n hs⟩

/-- the stdlib parser model accepts exactly the RFC 4291 spellings, with exactly their value -/
theorem stdlib_v6_parser_exact (addr : Str) (n : Nat) : stdV6Int addr = some n ↔ IP.IsV6Spelling addr n :=
  ⟨stdV6Int_sound addr n, stdV6Int_complete addr n⟩

/-- **IPv6 text forms, every spelling**: for *any* RFC 4291 spelling `addr` of `ip` – upper, lower or mixed
case, leading zeros in groups, `::` on any run of one or more zero groups (not only the RFC 5952 choice),
the last two groups as a dotted quad (`::ffff:a.b.c.d`, `x:x:x:x:x:x:a.b.c.d`, …) – written as `addr/len`
or `addr<blanks>len` with any surrounding blanks and ASCII digits for `len`, the constructor builds the
object of `(ip, len)`, provided the normalised text passes the code's 49-character guard. -/
theorem v6_text_forms (ip len : Nat) (addr : Str) (hsp : IP.IsV6Spelling addr ip) (hlen : len ≤ 128)
    (digits : Str) (hne : digits ≠ []) (hd : ∀ c ∈ digits, isDigit c = true) (hv : ofDigits digits = some len)
    (hguard : (addr ++ '/' :: digits).length ≤ 49) (input : Str)
    (hs : strip input = addr ++ '/' :: digits ∨
      ∃ ws, ws ≠ [] ∧ (∀ c ∈ ws, isSpace c = true) ∧ strip input = addr ++ ws ++ digits) :
    V6.fromStr input = .ok (mk6 ip len) :=
  V6.fromStr_spelling input addr ip len digits hsp hlen hne hd hv hguard hs

/-- the same without a mask: prefix length 128 -/
theorem v6_text_forms_plain (ip : Nat) (addr : Str) (hsp : IP.IsV6Spelling addr ip) (hguard : addr.length ≤ 49)
    (input : Str) (hs : strip input = addr) : V6.fromStr input = .ok (mk6 ip 128) :=
  V6.fromStr_spelling_plain input addr ip hsp hguard hs

-- non-vacuity: spellings outside the canonical ones (upper case + embedded quad, `::` on a single zero
-- group with leading zeros kept, full form with dotted quad) are spellings of the expected values
example : IP.IsV6Spelling "::FFFF:1.2.3.4".toList 0xFFFF01020304 := stdV6Int_sound _ _ (by decide +kernel)
example : IP.IsV6Spelling "1:02:003:0004::6:7:8".toList 0x00010002000300040000000600070008 :=
  stdV6Int_sound _ _ (by rfl)
example : IP.IsV6Spelling "0:0:0:0:0:ffff:255.255.255.255".toList 0xFFFFFFFFFFFF := stdV6Int_sound _ _ (by decide +kernel)

/-- **The choice `_compress_hextets` makes, on the zero pattern** (the former `strV6_canonical_partial`,
statement unchanged; the full theorem is `strV6_canonical` below).  On the zero pattern `zs` of the eight
printed groups (`zs[i]` ⇔ group `i` prints as `"0"`): if the loop of `_compress_hextets` shortens at all
it shortens the run `(s, len)` with `shortenedB zs s len` – at least two groups, all zero, no longer zero
run anywhere, no equally long one further left (RFC 5952 §4.2.1–4.2.3, with bounded quantifiers) – and the
text is exactly `groups-before :: groups-after`; if it does not shorten, no run of two or more zero groups
exists and the text is the eight groups joined by colons.  Groups are printed by `'%x'` (lower case, no
leading zeros: `toHex`). -/
theorem strV6_zero_pattern (n : Nat) :
    let X := (hextets n).map toHex
    let zs := X.map (· == ['0'])
    let st := runLoop {} 0 zs
    (st.bestLen > 1 → ∃ s, st.bestStart = some s ∧ shortenedB zs s st.bestLen = true ∧
      strV6 n = join [':'] (X.take s) ++ ':' :: ':' :: join [':'] (X.drop (s + st.bestLen))) ∧
    (¬ st.bestLen > 1 → (∀ s k, s < 8 → k < 9 → zeroRun zs s k = false) ∧ strV6 n = join [':'] X) :=
  strV6_choice n

/-- **IPv6 rejects** (no silent truncation or coercion; this is the statement F16 violated before the
regex was anchored): whenever the text constructor returns an object, then after `strip()` and the
blank-to-slash rewrite the *whole* text (at most 49 characters) is `addr` (then `len = 128`) or
`addr<sep>digits`, where `addr` is an RFC 4291 spelling of exactly the stored address and `digits`
are ASCII digits whose value is the stored prefix length ≤ 128; the object is the object of
`(ip, len)`.  Every other text raises. -/
theorem v6_rejects (input : Str) (o : Obj) (h : V6.fromStr input = .ok o) :
    o = mk6 o.ip o.len ∧ o.len ≤ 128 ∧ o.ip < 2 ^ 128 ∧
    ∃ joined addr, joined.length ≤ 49 ∧
      (splitWs (strip input) = [joined] ∨ ∃ a b, splitWs (strip input) = [a, b] ∧ joined = a ++ '/' :: b) ∧
      IP.IsV6Spelling addr o.ip ∧
      ((strip joined = addr ∧ o.len = 128) ∨
       ∃ sep m, strip joined = addr ++ sep :: m ∧ (sep = '/' ∨ isSpace sep = true) ∧ m ≠ [] ∧
         (∀ c ∈ m, isDigit c = true) ∧ ofDigits m = some o.len) := by
  obtain ⟨h1, h2, joined, addr, h3, h4, h5, h6⟩ := V6.fromStr_inv input o h
  have hs := stdlib_v6_parser_sound addr o.ip h5
  exact ⟨h1, h2, hs.2, joined, addr, h3, h4, hs.1, h6⟩

-- non-vacuity: the F16 witnesses and their neighbours are refused by the model
example : V6.fromStr "::1/64junk".toList = .error .addressValueError := by rfl
example : V6.fromStr "1::2::3".toList = .error .addressValueError := by rfl
example : V6.fromStr "1:2:3:4:5:6:7:8:9".toList = .error .addressValueError := by rfl
example : V6.fromStr "1::g".toList = .error .addressValueError := by rfl
example : V6.fromStr "::1/129".toList = .error .netmaskValueError := by rfl
example : V6.fromStr "::1 64 5".toList = .error .notImplementedError := by rfl
-- the guard no longer counts surrounding blanks (F33 repaired); 50 characters after normalisation are still refused
example : (V6.fromStr "   ffff:ffff:ffff:ffff:ffff:ffff:ffff:ffff/128   ".toList).toOption.isSome = true := by rfl
example : V6.fromStr "ffff:ffff:ffff:ffff:ffff:ffff:ffff:ffff/0000000128".toList = .error .requirementFailure := by rfl

/-! ## RFC 5952: the printed IPv6 text is canonical -/

/-- the two bridges that `strV6_canonical_partial` left open: `'%x' % g` is the RFC 5952 group text, and
the bounded Boolean statement on the zero pattern is `IP.IsShortened` on the group values -/
theorem rfc5952_bridges (n : Nat) :
    (∀ g, g < 65536 → toHex g = IP.hexShort g) ∧ hextets n = IP.groups n ∧
    (∀ s l, shortenedB (((IP.groups n).map toHex).map (· == ['0'])) s l = true ↔ IP.IsShortened (IP.groups n) s l) :=
  ⟨toHex_eq_hexShort, hextets_eq_groups n, shortenedB_iff (IP.groups n) (groups_length n) (groups_lt n)⟩

/-- a group text of RFC 5952 (`IP.hexShort`: four hex digits with the leading zeros dropped) is the writing of
the group in lower-case base 16 without leading zeros (`0` for zero), one to four digits long, and no other
text is -/
theorem hexShort_spec (g : Nat) (h : g < 65536) :
    IP.IsShortest 16 (IP.hexShort g) g ∧ 1 ≤ (IP.hexShort g).length ∧ (IP.hexShort g).length ≤ 4 ∧
    ∀ t, IP.IsShortest 16 t g → t = IP.hexShort g := by
  have hs := hexShort_shortest g h
  have hp := toHex_props g h
  rw [toHex_eq_hexShort g h] at hp
  refine ⟨hs, ?_, hp.2.1, fun t ht => isShortest_unique 16 t _ g ht hs⟩
  cases hx : IP.hexShort g with
  | nil => exact absurd hx hp.1
  | cons _ _ => simp

/-- **RFC 5952 canonicity of `str(IPv6Address(n))`** (what `IPv6Obj` prints: `str(o.ip)`, `as_cidr_addr`,
`as_cidr_net`, `compressed`), for every value `n`: the text is lower-case hex groups without leading zeros
separated by `:`, with exactly the leftmost longest run of at least two zero groups replaced by `::`, and no
`::` when there is no such run (`IP.IsRfc5952`, RFC 5952 §4 as written in `Ccp.Spec.IP`). -/
theorem strV6_canonical (n : Nat) : IP.IsRfc5952 (strV6 n) n := strV6_rfc5952 n

/-- … and for a 128-bit value it re-reads to the same value by the stdlib parser model, i.e. it is one of the
RFC 4291 spellings of `n` -/
theorem strV6_canonical_reads (n : Nat) (h : n < 2 ^ 128) :
    IP.IsRfc5952 (strV6 n) n ∧ stdV6Int (strV6 n) = some n ∧ IP.IsV6Spelling (strV6 n) n :=
  ⟨strV6_rfc5952 n, stdV6Int_strV6 n h, stdV6Int_sound _ _ (stdV6Int_strV6 n h)⟩

-- non-vacuity: two equally long runs – the left one is taken; a single zero group is never shortened;
-- a longer run further right wins
example : strV6 0x00010000000000020000000000030004 = "1:0:0:2::3:4".toList → False := by decide +kernel
example : strV6 0x00010000000000020000000000030004 = "1::2:0:0:3:4".toList := by decide +kernel
example : strV6 0x00010000000200030004000500060007 = "1:0:2:3:4:5:6:7".toList := by decide +kernel
example : strV6 0x00010000000000020000000000000003 = "1:0:0:2::3".toList := by decide +kernel

/-- **RFC 5952 determines the text**: at most one string is the RFC 5952 text of `n` -/
theorem rfc5952_unique (s t : Str) (n : Nat) (hs : IP.IsRfc5952 s n) (ht : IP.IsRfc5952 t n) : s = t :=
  rfc5952_unique' s t n hs ht

/-- hence the predicate holds of exactly the printed text -/
theorem rfc5952_iff (s : Str) (n : Nat) : IP.IsRfc5952 s n ↔ s = strV6 n :=
  ⟨fun h => rfc5952_unique s _ n h (strV6_rfc5952 n), fun h => h ▸ strV6_rfc5952 n⟩

/-- and the text determines the address: an RFC 5952 text is an RFC 4291 spelling of its value, so no text is
the canonical text of two different 128-bit values -/
theorem rfc5952_value_unique (s : Str) (n m : Nat) (hn : n < 2 ^ 128) (hm : m < 2 ^ 128)
    (h1 : IP.IsRfc5952 s n) (h2 : IP.IsRfc5952 s m) : IP.IsV6Spelling s n ∧ n = m := by
  have e1 := (rfc5952_iff s n).mp h1
  have e2 := (rfc5952_iff s m).mp h2
  have r1 := stdV6Int_strV6 n hn
  have r2 := stdV6Int_strV6 m hm
  rw [← e1] at r1
  rw [← e2] at r2
  exact ⟨stdV6Int_sound _ _ r1, Option.some.inj (r1.symm.trans r2)⟩

example : IP.IsRfc5952 "::".toList 0 := (rfc5952_iff _ _).mpr (by decide +kernel)
example : (1 : Nat) < 2 ^ 128 ∧ IP.IsRfc5952 "::1".toList 1 := ⟨by decide, (rfc5952_iff _ _).mpr (by decide +kernel)⟩

/-- `::` appears exactly when two adjacent groups are zero (RFC 5952 §4.2.2: a single zero group is not shortened) -/
theorem rfc5952_shortens_iff (n : Nat) :
    (∃ s l, IP.IsShortened (IP.groups n) s l) ↔
      ∃ i, i + 1 < 8 ∧ (IP.groups n).getD i 1 = 0 ∧ (IP.groups n).getD (i + 1) 1 = 0 :=
  shortened_iff_adjacent n

/-! ## zero-padded / hex / binary renderings

Read through the positional numerals of `Ccp.Spec.IP`: `IsFixed b w s v` – `s` is exactly `w` lower-case
base-`b` digits with value `v`; `IsShortest b s v` – `s` is `v` in base `b` without leading zeros. -/

/-- a width, a base and a value leave exactly one text, with or without padding – so the statements below pin
every rendering down to the character -/
theorem numeral_unique :
    (∀ b w s t v, IP.IsFixed b w s v → IP.IsFixed b w t v → s = t) ∧
    (∀ b s t v, IP.IsShortest b s v → IP.IsShortest b t v → s = t) ∧
    (∀ b w ts ts' vs, IP.AreFixed b w ts vs → IP.AreFixed b w ts' vs → ts = ts') :=
  ⟨fun b w s t v => isFixed_unique b w s t v, fun b s t v => isShortest_unique b s t v,
   fun b w ts ts' vs => areFixed_unique b w ts ts' vs⟩

/-- `str(n)`, `'%x' % n`, `'%b' % n` (for every natural number) are the decimal / lower-case hexadecimal /
binary writings of `n` without leading zeros -/
theorem shortest_numerals (n : Nat) :
    IP.IsShortest 10 (toDec n) n ∧ IP.IsShortest 16 (toHex n) n ∧ IP.IsShortest 2 (toBin n) n :=
  ⟨toDec_shortest n, toHex_shortest n, toBin_shortest n⟩

/-- **`as_zeropadded` / `as_zeropadded_network`**: four 3-digit decimal groups separated by dots whose values are
the four octets of the address (resp. of the network address, followed by `/len` with `len` in shortest decimal) -/
theorem zeropadded_spec (ip len : Nat) (hip : ip < 2 ^ 32) (hlen : len ≤ 32) :
    ∃ ts ns, V4.asZeropadded (mk4 ip len) = .ok (join ['.'] ts) ∧ IP.AreFixed 10 3 ts (IP.octets ip) ∧
      V4.asZeropaddedNetwork (mk4 ip len) = .ok (IP.cidr (join ['.'] ns) len) ∧
      IP.AreFixed 10 3 ns (IP.octets (IP.net 32 ip len)) ∧ IP.IsShortest 10 (toDec len) len := by
  have hnet : (mk4 ip len).net = IP.net 32 ip len := (v4_values_agree ip len hip hlen).2.2.1
  refine ⟨(IP.octets ip).map (fun v => padLeft 3 '0' (toDec v)),
    (IP.octets (IP.net 32 ip len)).map (fun v => padLeft 3 '0' (toDec v)),
    V4.asZeropadded_mk4 ip len, ?_, ?_, ?_, toDec_shortest len⟩
  · exact areFixed_map 10 3 _ _ (fun v hv => pad_dec3 v (by have := octets_lt ip v hv; omega))
  · rw [V4.asZeropaddedNetwork_mk4 ip len (by omega) hlen, hnet]; rfl
  · exact areFixed_map 10 3 _ _ (fun v hv => pad_dec3 v (by have := octets_lt _ v hv; omega))

-- non-vacuity: 10.1.2.3/24
example : (V4.asZeropadded (mk4 167838211 24)).toOption = some "010.001.002.003".toList ∧
    (V4.asZeropaddedNetwork (mk4 167838211 24)).toOption = some "010.001.002.000/24".toList := by
  constructor <;> decide +kernel

/-- **`as_hex`** (both families): `0x` followed by the address value in lower-case hexadecimal without leading
zeros (`hex(int)`) -/
theorem hex_spec :
    (∀ ip len, ip < 2 ^ 32 → ∃ t, V4.asHex (mk4 ip len) = .ok ('0' :: 'x' :: t) ∧ IP.IsShortest 16 t ip) ∧
    (∀ ip len, ip < 2 ^ 128 → ∃ t, V6.asHex (mk6 ip len) = .ok ('0' :: 'x' :: t) ∧ IP.IsShortest 16 t ip) :=
  ⟨fun ip len h => ⟨_, V4.asHex_mk4 ip len (by omega), toHex_shortest ip⟩,
   fun ip len h => ⟨_, V6.asHex_mk6 ip len h, toHex_shortest ip⟩⟩

/-- **`as_hex_tuple`**: IPv4 – four 2-digit lower-case hex texts whose values are the octets; IPv6 – eight
4-digit lower-case hex texts whose values are the groups -/
theorem hex_tuple_spec :
    (∀ ip len, ∃ ts, V4.asHexTuple (mk4 ip len) = .ok ts ∧ IP.AreFixed 16 2 ts (IP.octets ip)) ∧
    (∀ ip len, IP.AreFixed 16 4 (V6.asHexTuple (mk6 ip len)) (IP.groups ip)) := by
  constructor
  · intro ip len
    exact ⟨_, V4.asHexTuple_mk4 ip len, areFixed_map 16 2 _ _ (fun v hv => pad_hex2 v (octets_lt ip v hv))⟩
  · intro ip len
    rw [V6.asHexTuple_mk6]
    exact areFixed_map 16 4 _ _ (fun g hg => hex4_fixed g (groups_lt ip g hg))

/-- **`as_binary_tuple`**: IPv4 – four 8-digit binary texts whose values are the octets; IPv6 – eight 16-digit
binary texts whose values are the groups -/
theorem binary_spec :
    (∀ ip len, ∃ ts, V4.asBinaryTuple (mk4 ip len) = .ok ts ∧ IP.AreFixed 2 8 ts (IP.octets ip)) ∧
    (∀ ip len, ∃ ts, V6.asBinaryTuple (mk6 ip len) = .ok ts ∧ IP.AreFixed 2 16 ts (IP.groups ip)) := by
  constructor
  · intro ip len
    exact ⟨_, V4.asBinaryTuple_mk4 ip len, areFixed_map 2 8 _ _ (fun v hv => pad_bin8 v (octets_lt ip v hv))⟩
  · intro ip len
    exact ⟨_, V6.asBinaryTuple_mk6 ip len, areFixed_map 2 16 _ _ (fun g hg => pad_bin16 g (groups_lt ip g hg))⟩

-- non-vacuity: 10.1.2.3 and 2001:db8::1
example : (V4.asHex (mk4 167838211 24)).toOption = some "0xa010203".toList ∧
    (V4.asHexTuple (mk4 167838211 24)).toOption = some ["0a".toList, "01".toList, "02".toList, "03".toList] ∧
    (V4.asBinaryTuple (mk4 167838211 24)).toOption =
      some ["00001010".toList, "00000001".toList, "00000010".toList, "00000011".toList] ∧
    (V6.asBinaryTuple (mk6 0x20010db8000000000000000000000001 64)).toOption = some ["0010000000000001".toList,
      "0000110110111000".toList, "0000000000000000".toList, "0000000000000000".toList, "0000000000000000".toList,
      "0000000000000000".toList, "0000000000000000".toList, "0000000000000001".toList] := by
  refine ⟨?_, ?_, ?_, ?_⟩ <;> decide +kernel
example : IP.IsFixed 10 3 "007".toList 7 ∧ IP.IsShortest 16 "a010203".toList 167838211 ∧ ¬ IP.IsShortest 16 "0a".toList 10 := by
  refine ⟨⟨by decide, by decide⟩, ⟨by decide, by decide, by decide⟩, fun h => ?_⟩
  have := h.2.1 (by decide)
  exact absurd this (by decide)

/-- **the dotted quad and the CIDR texts** (`str(ip)`, `as_cidr_addr`, `as_cidr_net` of `v4_values_agree`): the four
octets, each in shortest decimal, joined by dots; `/len` appends the prefix length in shortest decimal -/
theorem dotted_spec (n len : Nat) :
    IP.dotted n = join ['.'] ((IP.octets n).map toDec) ∧ (∀ v, IP.IsShortest 10 (toDec v) v) ∧
    ∀ a, IP.cidr a len = a ++ '/' :: toDec len := by
  refine ⟨?_, toDec_shortest, fun _ => rfl⟩
  rw [← dotted_eq, ← toBytes4_eq_octets]; rfl

/-- the octets / groups the renderings speak about are the digits of the address in base 256 / 65536: they
are below the base and add up to the address -/
theorem octets_groups_value :
    (∀ ip, ip < 2 ^ 32 → (∀ v ∈ IP.octets ip, v < 256) ∧
      IP.octets ip = [ip / 256 ^ 3 % 256, ip / 256 ^ 2 % 256, ip / 256 % 256, ip % 256] ∧
      ip = ((ip / 256 ^ 3 % 256 * 256 + ip / 256 ^ 2 % 256) * 256 + ip / 256 % 256) * 256 + ip % 256) ∧
    (∀ ip, ip < 2 ^ 128 → (∀ g ∈ IP.groups ip, g < 65536) ∧ IP.groupsVal (IP.groups ip) = ip) := by
  constructor
  · intro ip h
    refine ⟨octets_lt ip, by simp [IP.octets, IP.octet, List.range, List.range.loop], by omega⟩
  · intro ip h
    refine ⟨groups_lt ip, ?_⟩
    simp only [IP.groupsVal, IP.groups, IP.group, List.range, List.range.loop, List.map, List.foldl]
    omega

/-! ## Factories, argument guards and the remaining value properties (`Ccp.Model.IPTextX`)

`getIpv4 / getIpv6 val stdlib` are `_get_ipv4` / `_get_ipv6`, `ipFactory val stdlib mode` is `ip_factory`,
`checkValid text` is `check_valid_ipaddress`; `ctor4 / ctor6` are the constructors `IPv4Obj(val)` /
`IPv6Obj(val)` of the theorems above (`val` a `str` or an `int`), `stdNet4 / stdNet6 val` is the stdlib's own
`IPv4Network(val, strict=False)` / `IPv6Network(…)`, which the factories ask first. -/

open Ccp.IPTextX in
/-- **the factories return the constructor's object** (so every theorem above about `IPv4Obj(text)` /
`IPv6Obj(text)` holds for what they return) — exactly for the values that the stdlib itself reads *and* the
constructor accepts (no surrounding blanks, no blank instead of the slash: the stdlib refuses those);
whatever goes wrong is reported as `AddressValueError`, nothing else escapes. -/
theorem factory_is_constructor (val : Val) (stdlib : Bool) :
    (∀ r, getIpv4 val false = .ok r ↔ stdNet4 val = .ok () ∧ ∃ o, ctor4 val = .ok o ∧ r = .obj4 o) ∧
    (∀ r, getIpv6 val false = .ok r ↔ stdNet6 val = .ok () ∧ ∃ o, ctor6 val = .ok o ∧ r = .obj6 o) ∧
    (∀ e, getIpv4 val stdlib = .error e → e = .addressValueError) ∧
    (∀ e, getIpv6 val stdlib = .error e → e = .addressValueError) := by
  refine ⟨fun r => ?_, fun r => ?_, fun e h => wrapAVE_error _ e h, fun e h => wrapAVE_error _ e h⟩
  · rw [getIpv4_eq, wrapAVE_ok, getBody4_ok]; simp
  · rw [getIpv6_eq, wrapAVE_ok, getBody6_ok]; simp

open Ccp.IPTextX in
/-- **`stdlib=True`**: the factory returns the stdlib address of the object for a host route (`/32`,
`/128`) and otherwise `obj.network` — the network, *without* the host bits — and nothing else. -/
theorem factory_stdlib (val : Val) (r : Ret) :
    (getIpv4 val true = .ok r ↔ stdNet4 val = .ok () ∧ ∃ o, ctor4 val = .ok o ∧
      ((o.len = 32 ∧ r = .addr4 o.ip) ∨ (o.len ≠ 32 ∧ ∃ n, V4.network o = .ok n ∧ r = .net4 n))) ∧
    (getIpv6 val true = .ok r ↔ stdNet6 val = .ok () ∧ ∃ o, ctor6 val = .ok o ∧
      ((o.len = 128 ∧ r = .addr6 o.ip) ∨ (o.len ≠ 128 ∧ ∃ n, V6.network o = .ok n ∧ r = .net6 n))) := by
  constructor
  · rw [getIpv4_eq, wrapAVE_ok, getBody4_ok]; simp [Gen.ipv4MaxPrefixlen]
  · rw [getIpv6_eq, wrapAVE_ok, getBody6_ok]; simp [Gen.ipv6MaxPrefixlen]

-- for an object that satisfies the class invariant `obj.network` is (ip AND mask, len): the host bits are gone
example : V4.network (mk4 0x0a010203 24) = .ok (0x0a010200, 24) := by
  have := (v4_values_agree 0x0a010203 24 (by decide) (by decide)).2.2.2.2.2.2.1
  rw [this]; decide

open Ccp.IPTextX in
/-- **`ip_factory` dispatch**: `auto_detect` sends a text containing `:` to `_get_ipv6`, any other text to
`_get_ipv4` and refuses an integer (`NotImplementedError`); `ipv4` / `ipv6` call the one factory named (an
integer is fine there); any other `mode` is refused with `RequirementFailure`. -/
theorem ip_factory_dispatch (val : Val) (stdlib : Bool) (mode : Py.Str) :
    (∀ s, ipFactory (.str s) stdlib modeAuto = if s.contains ':' then getIpv6 (.str s) stdlib else getIpv4 (.str s) stdlib) ∧
    (∀ n, ipFactory (.int n) stdlib modeAuto = .error .notImplementedError) ∧
    ipFactory val stdlib modeV4 = getIpv4 val stdlib ∧
    ipFactory val stdlib modeV6 = getIpv6 val stdlib ∧
    (mode ≠ modeAuto → mode ≠ modeV4 → mode ≠ modeV6 → ipFactory val stdlib mode = .error .requirementFailure) := by
  refine ⟨fun s => rfl, fun n => rfl, ?_, ?_, fun h1 h2 h3 => ?_⟩
  · have : modeV4 ≠ modeAuto := by decide
    simp only [ipFactory, this, if_false, if_true, getIpv4_eq, wrapAVE_idem]
  · have h1 : modeV6 ≠ modeAuto := by decide
    have h2 : modeV6 ≠ modeV4 := by decide
    simp only [ipFactory, h1, h2, if_false, if_true, getIpv6_eq, wrapAVE_idem]
  · simp only [ipFactory, h1, h2, h3, if_false]

/-- **`IPv4Obj` never accepts a text that holds a colon** (corollary of `v4_rejects`: the accepted texts are dotted
quads, digits, a slash and white space), so no text is accepted by both constructors as long as an IPv6 text holds
a colon -- which every RFC 4291 spelling does (`IPCheck.colon_mem_spelling`). -/
theorem v4_text_has_no_colon (input : Str) (o : Obj) (h : V4.fromStr input = .ok o) : ':' ∉ input := by
  intro hc
  obtain ⟨ip, len, f, _, _, hf, hs, _⟩ := v4_rejects input o h
  have hm : ':' ∈ V4Form.render ip len f := by
    rw [← hs]; exact IPCheck.mem_strip_of_nonspace ':' input hc (by decide)
  have hd : ∀ n, ':' ∉ IP.dotted n := by
    intro n hn
    rw [← dotted_eq] at hn
    exact strV4_ne n ':' (by decide) (by decide) ':' hn rfl
  cases f with
  | plain => exact hd _ hm
  | pfx d =>
    simp only [V4Form.render, List.mem_append, List.mem_cons] at hm
    rcases hm with hm | hm | hm
    · exact hd _ hm
    · cases hm
    · have := hf.2.1 ':' hm; revert this; decide
  | slashMask host =>
    simp only [V4Form.render, List.mem_append, List.mem_cons] at hm
    rcases hm with hm | hm | hm
    · exact hd _ hm
    · cases hm
    · exact hd _ hm
  | spaceMask host ws =>
    simp only [V4Form.render, List.mem_append] at hm
    rcases hm with (hm | hm) | hm
    · exact hd _ hm
    · have := hf.2.2 ':' hm; revert this; decide
    · exact hd _ hm

open Ccp.IPTextX in
/-- **`check_valid_ipaddress`** (full statement; the docstring's promise "(input_addr, ipaddr_family) if the address is
valid, an error if not").  It answers `(stripped text, 4)` exactly when `IPv4Obj` accepts the stripped text,
`(stripped text, 6)` exactly when `IPv4Obj` refuses it and `IPv6Obj` accepts it, and raises `ValueError` -- nothing else
-- exactly when both refuse it; no other answer exists.
(Before the repair `fix: check_valid_ipaddress() tries IPv6 when the text is not an IPv4 address` this theorem stated
the code as it was -- finding FC11a: family 4 iff `IPv4Obj` accepts, `ValueError` otherwise, never family 6, so every
valid IPv6 address was rejected.) -/
theorem check_valid_spec (s : Py.Str) :
    (∀ t fam, checkValid s = .ok (t, fam) ↔ t = Py.strip s ∧
      ((fam = 4 ∧ ∃ o, V4.fromStr (Py.strip s) = .ok o) ∨
       (fam = 6 ∧ (∀ o, V4.fromStr (Py.strip s) ≠ .ok o) ∧ ∃ o, V6.fromStr (Py.strip s) = .ok o))) ∧
    (∀ e, checkValid s = .error e → e = .valueError) ∧
    (checkValid s = .error .valueError ↔
      (∀ o, V4.fromStr (Py.strip s) ≠ .ok o) ∧ ∀ o, V6.fromStr (Py.strip s) ≠ .ok o) := by
  unfold checkValid
  cases h4 : V4.fromStr (Py.strip s) with
  | ok o =>
    refine ⟨fun t fam => ?_, fun e' he => (by cases he), ?_⟩
    · simp only [Except.ok.injEq, Prod.mk.injEq]
      constructor
      · rintro ⟨rfl, rfl⟩; exact ⟨rfl, .inl ⟨rfl, o, rfl⟩⟩
      · rintro ⟨rfl, ⟨rfl, _⟩ | ⟨_, hno, _⟩⟩
        · exact ⟨rfl, rfl⟩
        · exact absurd rfl (hno o)
    · constructor
      · intro he; cases he
      · rintro ⟨hno, _⟩; exact absurd rfl (hno o)
  | error e4 =>
    cases h6 : V6.fromStr (Py.strip s) with
    | ok o =>
      refine ⟨fun t fam => ?_, fun e' he => (by cases he), ?_⟩
      · simp only [Except.ok.injEq, Prod.mk.injEq]
        constructor
        · rintro ⟨rfl, rfl⟩
          exact ⟨rfl, .inr ⟨rfl, (fun o' ho' => by cases ho'), o, rfl⟩⟩
        · rintro ⟨rfl, ⟨_, o', ho'⟩ | ⟨rfl, _⟩⟩
          · cases ho'
          · exact ⟨rfl, rfl⟩
      · constructor
        · intro he; cases he
        · rintro ⟨_, hno⟩; exact absurd rfl (hno o)
    | error e6 =>
      refine ⟨fun t fam => ?_, fun e' he => (by cases he; rfl), ?_⟩
      · constructor
        · intro he; cases he
        · rintro ⟨_, ⟨_, o', ho'⟩ | ⟨_, _, o', ho'⟩⟩ <;> cases ho'
      · exact ⟨fun _ => ⟨(fun o ho => by cases ho), (fun o ho => by cases ho)⟩, fun _ => rfl⟩

open Ccp.IPTextX in
/-- **The family reported is the family of the text**: a text that `IPv4Obj` accepts is family 4; a text that holds a
colon -- every spelling of an IPv6 address does -- and that `IPv6Obj` accepts is family 6 (`IPv4Obj` cannot accept
it, `v4_text_has_no_colon`); in particular every RFC 4291 spelling `addr` of an address, alone or as `addr/len`
(under the constructor's 49-character guard), surrounded by any blanks, is answered `(stripped text, 6)`. -/
theorem check_valid_families (s : Py.Str) :
    ((∃ o, V4.fromStr (Py.strip s) = .ok o) → checkValid s = .ok (Py.strip s, 4)) ∧
    (':' ∈ Py.strip s → (∃ o, V6.fromStr (Py.strip s) = .ok o) → checkValid s = .ok (Py.strip s, 6)) ∧
    (∀ addr ip, IP.IsV6Spelling addr ip → addr.length ≤ 49 → Py.strip s = addr →
      checkValid s = .ok (addr, 6)) ∧
    (∀ addr ip len digits, IP.IsV6Spelling addr ip → len ≤ 128 → digits ≠ [] → (∀ c ∈ digits, Py.isDigit c = true) →
      ofDigits digits = some len → (addr ++ '/' :: digits).length ≤ 49 → Py.strip s = addr ++ '/' :: digits →
      checkValid s = .ok (addr ++ '/' :: digits, 6)) := by
  have key : ':' ∈ Py.strip s → (∃ o, V6.fromStr (Py.strip s) = .ok o) → checkValid s = .ok (Py.strip s, 6) := by
    intro hc ⟨o, ho⟩
    refine ((check_valid_spec s).1 _ _).mpr ⟨rfl, .inr ⟨rfl, fun o4 h4 => ?_, o, ho⟩⟩
    exact v4_text_has_no_colon _ o4 h4 hc
  refine ⟨fun h => ((check_valid_spec s).1 _ _).mpr ⟨rfl, .inl ⟨rfl, h⟩⟩, key, ?_, ?_⟩
  · intro addr ip hsp hg hs
    have hacc := v6_text_forms_plain ip addr hsp hg (Py.strip s) (by rw [IPCheck.strip_strip, hs])
    have := key (by rw [hs]; exact IPCheck.colon_mem_spelling addr ip hsp) ⟨_, hacc⟩
    rw [hs] at this; exact this
  · intro addr ip len digits hsp hlen hne hd hv hg hs
    have hacc := v6_text_forms ip len addr hsp hlen digits hne hd hv hg (Py.strip s)
      (.inl (by rw [IPCheck.strip_strip, hs]))
    have hc : ':' ∈ Py.strip s := by
      rw [hs]; exact List.mem_append_left _ (IPCheck.colon_mem_spelling addr ip hsp)
    have := key hc ⟨_, hacc⟩
    rw [hs] at this; exact this

open Ccp.IPTextX in
/-- both families, blanks stripped, and texts that neither constructor accepts (`::1` and `fe80::1/64` were rejected with
`ValueError` before the repair of FC11a) -/
example : checkValid " 10.1.2.3/24 ".toList = .ok ("10.1.2.3/24".toList, 4) ∧
    checkValid "::1".toList = .ok ("::1".toList, 6) ∧
    checkValid "  fe80::1/64 ".toList = .ok ("fe80::1/64".toList, 6) ∧
    checkValid "::ffff:1.2.3.4".toList = .ok ("::ffff:1.2.3.4".toList, 6) ∧
    checkValid "1::2::3".toList = .error .valueError ∧
    checkValid "1.2.3.256".toList = .error .valueError := by decide +kernel
/-- hypotheses of `check_valid_families` (a spelling, its length guard) and of `v4_text_has_no_colon` -/
example : IP.IsV6Spelling "fe80::1".toList 0xfe800000000000000000000000000001 ∧ "fe80::1".toList.length ≤ 49 :=
  ⟨stdV6Int_sound _ _ (by decide +kernel), by decide⟩
example : (V4.fromStr "10.1.2.3/24".toList).toOption.isSome = true := by decide +kernel

open Ccp.IPTextX in
/-- **argument guards**: `_get_ipv4` / `_get_ipv6` pass exactly when `val` is `str|int`, `strict` and `stdlib`
are `bool` and `debug` is `int`, and raise `ValueError` otherwise; `ip_factory` passes exactly when the types
are right and `mode` is one of the three names, raises `RequirementFailure` for a wrong `mode` (checked after
`val`, before the others) and `ValueError` for a wrong type.  The constructors build the empty object from
`None`, refuse any other foreign type with `AddressValueError` and a non-`int` `debug` with `ValueError`;
`check_valid_ipaddress` refuses anything but a `str` with `ValueError`. -/
theorem guards_spec (a b c d : Bool) (mode : Py.Str) :
    (guardGet a b c d = none ↔ a = true ∧ b = true ∧ c = true ∧ d = true) ∧
    (∀ e, guardGet a b c d = some e → e = .valueError) ∧
    (guardFactory a mode c d = none ↔
      a = true ∧ (mode = modeAuto ∨ mode = modeV4 ∨ mode = modeV6) ∧ c = true ∧ d = true) ∧
    (guardFactory a mode c d = some .requirementFailure ↔
      a = true ∧ ¬ (mode = modeAuto ∨ mode = modeV4 ∨ mode = modeV6)) ∧
    ctorByType .none = .ok () ∧ ctorByType .foreign = .error .addressValueError ∧
    ctorByType .badDebug = .error .valueError ∧
    guardCheck true = none ∧ guardCheck false = some .valueError := by
  refine ⟨?_, ?_, ?_, ?_, rfl, rfl, rfl, rfl, rfl⟩
  · cases a <;> cases b <;> cases c <;> cases d <;> simp [guardGet]
  · intro e; cases a <;> cases b <;> cases c <;> cases d <;> simp [guardGet] <;> exact fun h => h.symm
  · by_cases hm : mode = modeAuto ∨ mode = modeV4 ∨ mode = modeV6 <;>
      cases a <;> cases c <;> cases d <;> simp [guardFactory, hm]
  · by_cases hm : mode = modeAuto ∨ mode = modeV4 ∨ mode = modeV6 <;>
      cases a <;> cases c <;> cases d <;> simp [guardFactory, hm]

open Ccp.IPTextX in
/-- **the remaining value properties of an IPv4 object** `(ip, len)`: `ipv4`, `_ip`, `as_int` are the address;
`masklen = masklength = prefixlength = len`; `packed` is the four octets (they re-read to `ip`);
`inverse_netmask` is the hostmask; `max_int = 2^32 - 1`; `version = 4`; `network_offset` is `ip - network`
unless that exceeds `numhosts` (`RequirementFailure`; C13's `get_offset_spec`). -/
theorem v4_extra_values (ip len : Nat) (hip : ip < 2 ^ 32) (hlen : len ≤ 32) :
    let x := extra4 (mk4 ip len)
    x.ip = ip ∧ x.ipInt = ip ∧ x.asInt = .ok ip ∧
    x.masklen = len ∧ x.masklength = len ∧ x.prefixlength = len ∧
    x.packed = toBytes4 ip ∧ fromBytes x.packed = ip ∧
    x.inverseNetmask = IP.hostmask 32 len ∧ x.maxInt = 2 ^ 32 - 1 ∧ x.version = 4 ∧
    x.networkOffset =
      (if ((ip : Int) - (IP.net 32 ip len : Int)) > (IP.hosts 32 len : Int) then .error .requirementFailure
       else .ok ((ip : Int) - (IP.net 32 ip len : Int))) := by
  intro x
  have v := v4_values_agree ip len hip hlen
  simp only at v
  obtain ⟨_, _, _, _, hh, _, _, hd, hn, _, hnh, _⟩ := v
  have hmax : Gen.ipv4MaxInt = 2 ^ 32 - 1 := by decide
  refine ⟨rfl, rfl, hd, rfl, rfl, rfl, rfl, fromBytes_toBytes4 ip (by omega), hh, hmax, rfl, ?_⟩
  show networkOffset4 (mk4 ip len) = _
  unfold networkOffset4
  rw [hd, hn, hnh]
  rfl

open Ccp.IPTextX in
/-- **the remaining value properties of an IPv6 object**; `is_ipv4_mapped` holds exactly for `::ffff:a.b.c.d`;
`broadcast`, `as_decimal_broadcast` raise `NotImplementedError`, `teredo`, `sixtofour` raise `AttributeError`
for every object. -/
theorem v6_extra_values (ip len : Nat) (hip : ip < 2 ^ 128) (hlen : len ≤ 128) :
    let x := extra6 (mk6 ip len)
    x.ip = ip ∧ x.ipInt = ip ∧ x.asInt = .ok ip ∧
    x.masklen = len ∧ x.masklength = len ∧ x.prefixlength = len ∧
    x.packed = toBytes16 ip ∧
    x.inverseNetmask = IP.hostmask 128 len ∧ x.maxInt = 2 ^ 128 - 1 ∧ x.version = 6 ∧
    x.networkOffset =
      (if ((ip : Int) - (IP.net 128 ip len : Int)) > (IP.hosts 128 len : Int) then .error .requirementFailure
       else .ok ((ip : Int) - (IP.net 128 ip len : Int))) ∧
    (isIpv4Mapped (mk6 ip len) = true ↔ 0xffff00000000 ≤ ip ∧ ip ≤ 0xffffffffffff) := by
  intro x
  have v := v6_values_agree ip len hip hlen
  simp only at v
  obtain ⟨_, _, _, _, hh, _, _, hd, hn, _, hnh, _⟩ := v
  have hmax : Gen.ipv6MaxInt = 2 ^ 128 - 1 := by decide
  refine ⟨rfl, rfl, hd, rfl, rfl, rfl, rfl, hh, hmax, rfl, ?_, ?_⟩
  · show networkOffset6 (mk6 ip len) = _
    unfold networkOffset6
    rw [hd, hn, hnh]
    rfl
  · show (ip / 2 ^ 32 == 0xffff) = true ↔ _
    rw [beq_iff_eq]
    omega

open Ccp.IPTextX in
example : (extra4 (mk4 0x0a0102ff 24)).packed = [10, 1, 2, 255] ∧
    (extra4 (mk4 0x0a0102ff 24)).networkOffset = .error .requirementFailure ∧
    (extra4 (mk4 0x0a0102fe 24)).networkOffset = .ok 254 ∧
    isIpv4Mapped (mk6 0xffff01020304 96) = true ∧ isIpv4Mapped (mk6 0x1ffff01020304 96) = false :=
  by decide +kernel

end Ccp.C11
