import Ccp.Proofs.Input
namespace Ccp.C09
open Ccp.Input Ccp.Py
theorem stub : (1:Nat) = 1 := rfl
end Ccp.C09
