import Ccp.Proofs.Input
import Ccp.Proofs.InputArgs
/-!
# C09 — all input forms are equivalent and file save/load is the identity

Property theorems only; helper lemmas live in `Ccp.Proofs.Input`, the model in
`Ccp.Model.Input` (dispatch of `read_config`, `str.splitlines`, universal newlines,
the `\r*\n` split, `save_as`) and `Ccp.Model.Tree` (`parse`).

`BreakFree l`  : no character of `l` is one of the 10 `str.splitlines` boundaries.
`CleanLines ls`: no line contains `\r` or `\n`.
`dropLastEmpty`: the list without one final empty line.
`IsLinesep sep`: `sep` is `"\n"` or `"\r\n"` (`os.linesep`).
-/
namespace Ccp.C09
open Ccp.Input Ccp.Py

abbrev LF : Str := ['\n']
abbrev CRLF : Str := ['\r', '\n']

/-- **splitlines ∘ join**: for lines free of line-break characters, splitting the joined text
(separator LF or CRLF) gives the lines back, except that one final empty line is not reported;
so a final line end adds no line, and for lists whose last line is not empty the round trip is
exact. -/
theorem splitlines_join (ls : List Str) (h : ∀ l ∈ ls, BreakFree l) :
    splitlines (join LF ls) = dropLastEmpty ls ∧
    splitlines (join CRLF ls) = dropLastEmpty ls ∧
    (ls ≠ [] → splitlines (join LF ls ++ LF) = ls ∧ splitlines (join CRLF ls ++ CRLF) = ls) ∧
    (ls.getLast? ≠ some [] → splitlines (join LF ls) = ls ∧ splitlines (join CRLF ls) = ls) := by
  have hb : ∀ l ∈ ls ++ [[]], BreakFree l := by
    intro l hl
    rcases List.mem_append.mp hl with hl | hl
    · exact h l hl
    · simp at hl; subst hl; intro c hc; simp at hc
  refine ⟨splitlines_join_lf ls h, splitlines_join_crlf ls h, ?_, ?_⟩
  · intro hne
    rw [show LF = ['\n'] from rfl, show CRLF = ['\r', '\n'] from rfl, join_final _ _ hne, join_final _ _ hne,
      splitlines_join_lf _ hb, splitlines_join_crlf _ hb, dropLastEmpty_snoc]
    exact ⟨rfl, rfl⟩
  · intro hl
    rw [show LF = ['\n'] from rfl, show CRLF = ['\r', '\n'] from rfl, splitlines_join_lf ls h,
      splitlines_join_crlf ls h, dropLastEmpty_id ls hl]
    exact ⟨rfl, rfl⟩

/-- what `read_config` does with a `str` built from break-free lines: the number of lines that
`splitlines` reports decides — none: the string itself is handed on (and rejected by the next
step), one: the string is a **file path**, two or more: these are the config lines. -/
theorem str_dispatch (fs : Path → Option Text) (ls : List Str) (h : ∀ l ∈ ls, BreakFree l)
    (sep : Str) (hsep : sep = LF ∨ sep = CRLF) :
    readConfig fs (.str (join sep ls)) =
      (if (dropLastEmpty ls).length = 1 then (readConfigFile fs (join sep ls)).map .lines
       else if (dropLastEmpty ls).length > 1 then .ok (.lines (dropLastEmpty ls))
       else .ok (.rawStr (join sep ls))) := by
  have hs : splitlines (join sep ls) = dropLastEmpty ls := by
    rcases hsep with e | e <;> subst e
    · exact (splitlines_join ls h).1
    · exact (splitlines_join ls h).2.1
  simp only [readConfig, readStr, hs]

/-- a `pathlib.Path` is read exactly like the string `str(path)`: same lines or same error, same tree -/
theorem path_reads_like_str (fs : Path → Option Text) (cfg : Tree.Cfg) (p : Path) :
    initLines fs (.path p) = initLines fs (.str p) ∧ load cfg fs (.path p) = load cfg fs (.str p) :=
  ⟨rfl, rfl⟩

/-- the six ways of handing over the same configuration -/
def formsOf (ls : List Str) : List Input :=
  [.list ls, .tuple ls, .str (join LF ls), .str (join CRLF ls), .str (join LF ls ++ LF), .str (join CRLF ls ++ CRLF)]

/-- **Forms agree.**  For every list `ls` of at least two lines, none containing a line-break
character, the last one not empty: the list, the tuple, the string joined with LF, the string
joined with CRLF, and both strings with a final line end are all read as exactly the lines `ls`
(whatever the file system holds), hence give the identical parsed tree; so does a `pathlib.Path`
whose `str()` is one of these strings (a Path is read exactly like its string, `path_reads_like_str`).
(With fewer than two lines a string is not a config but a path — `single_line_str_is_path`;
with a last line that is empty the string forms report one line less — `splitlines_join`.) -/
theorem forms_agree (fs : Path → Option Text) (cfg : Tree.Cfg) (ls : List Str)
    (hbf : ∀ l ∈ ls, BreakFree l) (h2 : 2 ≤ ls.length) (hlast : ls.getLast? ≠ some []) :
    (∀ i ∈ formsOf ls, initLines fs i = .ok ls) ∧
    (∀ i ∈ formsOf ls, load cfg fs i = .ok (Tree.parse cfg ls)) ∧
    (∀ s, Input.str s ∈ formsOf ls → load cfg fs (.path s) = .ok (Tree.parse cfg ls)) := by
  have hne : ls ≠ [] := by intro e; subst e; simp at h2
  obtain ⟨_, _, hfin, hpl⟩ := splitlines_join ls hbf
  obtain ⟨h3, h4⟩ := hfin hne
  obtain ⟨h1, h2'⟩ := hpl hlast
  have key : ∀ s, splitlines s = ls → initLines fs (.str s) = .ok ls := by
    intro s hs
    have hn1 : ¬ ls.length = 1 := by omega
    have hn2 : ls.length > 1 := by omega
    simp [initLines, readConfig, readStr, hs, hn1, hn2, handleBrace, bind, Except.bind]
  have all : ∀ i ∈ formsOf ls, initLines fs i = .ok ls := by
    intro i hi
    simp only [formsOf, List.mem_cons, List.not_mem_nil, or_false] at hi
    rcases hi with e | e | e | e | e | e <;> subst e
    · rfl
    · rfl
    · exact key _ h1
    · exact key _ h2'
    · exact key _ h3
    · exact key _ h4
  have allLoad : ∀ i ∈ formsOf ls, load cfg fs i = .ok (Tree.parse cfg ls) := by
    intro i hi
    simp [load, all i hi, Except.map]
  exact ⟨all, allLoad, fun s hs => (path_reads_like_str fs cfg s).2.trans (allLoad _ hs)⟩

/-- a string in which `splitlines` finds exactly one line — no line break at all, or only a final
one — is taken for a **file path**, and so is a `pathlib.Path` with such a string: the answer is
the content of that file, and `FileNotFoundError` when nothing is there.  It is never parsed as a
one-line config. -/
theorem single_line_str_is_path (fs : Path → Option Text) (s : Str) (h : (splitlines s).length = 1) :
    initLines fs (.str s) = (match fs s with
      | none => .error .fileNotFound
      | some raw => .ok (fileLines raw)) ∧
    initLines fs (.path s) = initLines fs (.str s) := by
  refine ⟨?_, rfl⟩
  simp only [initLines, readConfig, readStr, h, if_true, readConfigFile]
  cases fs s <;> rfl

/-- the empty string is rejected (`InvalidParameters`), `None` and the empty list/tuple are the
empty config.  (`str(pathlib.Path(""))` is `"."`, so a Path never reaches the empty-string case.) -/
theorem degenerate_inputs (fs : Path → Option Text) :
    initLines fs (.str []) = .error .invalidParameters ∧
    initLines fs .none = .ok [] ∧ initLines fs (.list []) = .ok [] ∧ initLines fs (.tuple []) = .ok [] := by
  refine ⟨rfl, rfl, rfl, rfl⟩

/-- **File input.**  A path (a single-line string, or a `pathlib.Path` with such a string, naming
an existing file) yields the file's text
split at its line ends, as the code does it: universal newlines (`\r\n`, `\r` → `\n`), then the
`\r*\n` split.  The result is *the* splitting of the translated text at `\n`: joining the lines
with `\n` gives the translated text back, no line contains `\n` or `\r`, there is at least one
line — so the text after the last line end is a line too, and it is the empty line when the
file ends with a line end (the trailing empty element is kept).  `\r*` never has anything to
match, the result equals the plain split at `\n`.  The translation itself leaves no `\r` and is
the identity on texts without `\r`. -/
theorem file_split_spec (fs : Path → Option Text) (p : Path) (raw : Text)
    (hp : (splitlines p).length = 1) (hf : fs p = some raw) :
    initLines fs (.str p) = .ok (fileLines raw) ∧ initLines fs (.path p) = .ok (fileLines raw) ∧
    fileLines raw = splitRegexCRLF (universalNewlines raw) ∧
    fileLines raw = splitOn '\n' (universalNewlines raw) ∧
    join LF (fileLines raw) = universalNewlines raw ∧
    CleanLines (fileLines raw) ∧ fileLines raw ≠ [] ∧
    (∀ ls, ls ≠ [] → (∀ l ∈ ls, NoLF l) → join LF ls = universalNewlines raw → ls = fileLines raw) ∧
    NoCR (universalNewlines raw) ∧ (NoCR raw → universalNewlines raw = raw) := by
  have hsp : fileLines raw = splitOn '\n' (universalNewlines raw) :=
    splitRegexCRLF_noCR _ (universalNewlines_noCR raw)
  have hstr : initLines fs (.str p) = .ok (fileLines raw) := by
    rw [(single_line_str_is_path fs p hp).1, hf]
  refine ⟨hstr, hstr, rfl, hsp, ?_, (fileLines_clean raw).1, (fileLines_clean raw).2, ?_,
    universalNewlines_noCR raw, universalNewlines_id raw⟩
  · rw [hsp]; exact (join_splitOn _).1
  · intro ls hne hl hj
    rw [hsp, ← hj]; exact (splitOn_join ls hne hl).symm

/-- a file whose text ends with a line end yields a final empty line; joined lines `ls` written
with LF, CRLF or bare CR line ends and a final line end are read as `ls ++ [""]` -/
theorem file_of_lines (ls : List Str) (hne : ls ≠ []) (h : CleanLines ls) :
    fileLines (join LF ls) = ls ∧ fileLines (join LF ls ++ LF) = ls ++ [[]] ∧
    fileLines (writeNewlines CRLF (join LF ls ++ LF)) = ls ++ [[]] := by
  have hx : CleanLines (ls ++ [[]]) := by
    intro l hl
    rcases List.mem_append.mp hl with hl | hl
    · exact h l hl
    · simp at hl; subst hl; intro c hc; simp at hc
  have e1 : ∀ N, N ≠ [] → CleanLines N → fileLines (join LF N) = N := by
    intro N hN hc
    unfold fileLines
    rw [universalNewlines_id _ (noCR_join N hc), splitRegexCRLF_noCR _ (noCR_join N hc)]
    exact splitOn_join N hN hc.noLF
  refine ⟨e1 ls hne h, ?_, ?_⟩
  · rw [show LF = ['\n'] from rfl, join_final _ _ hne]; exact e1 _ (by simp) hx
  · rw [show LF = ['\n'] from rfl, join_final _ _ hne]
    unfold fileLines
    rw [universal_write CRLF (Or.inr rfl) _ (noCR_join _ hx), splitRegexCRLF_noCR _ (noCR_join _ hx)]
    exact splitOn_join _ (by simp) hx.noLF

/-- **Save/load is stable.**  Take any file content `raw`, any `os.linesep` (LF or CRLF), any
tree configuration (syntax, comment delimiters, `ignore_blank_lines` on or off).  Let
`b₁ = cycle raw` be the bytes of the first save of the object loaded from `raw`.  Then for every
number `n` of further load+save cycles the bytes written are `b₁` again, and the lines read and
the texts of the object are those read from `b₁`: the file neither grows nor shrinks however
often the cycle repeats. -/
theorem save_load_fixpoint (cfg : Tree.Cfg) (sep : Str) (hs : IsLinesep sep) (raw : Text) (n : Nat) :
    let b₁ := cycle cfg sep raw
    iter (cycle cfg sep) n b₁ = b₁ ∧
    fileLines (iter (cycle cfg sep) n b₁) = fileLines b₁ ∧
    texts cfg (fileLines (iter (cycle cfg sep) n b₁)) = texts cfg (fileLines b₁) := by
  have hfix : cycle cfg sep (cycle cfg sep raw) = cycle cfg sep raw :=
    cycleG_fix (stable_texts cfg) sep hs raw
  have : iter (cycle cfg sep) n (cycle cfg sep raw) = cycle cfg sep raw := by
    cases n with
    | zero => rfl
    | succ n =>
      have := iter_succ_fix (cycle cfg sep) (cycle cfg sep raw) (by rw [hfix, hfix]) n
      rw [this, hfix]
  intro b₁
  show iter (cycle cfg sep) n (cycle cfg sep raw) = cycle cfg sep raw ∧ _
  rw [this]
  exact ⟨rfl, rfl, rfl⟩

/-- the same on the level of the file system: saving the object loaded from path `p` to `q` and
loading `q` again (any paths that are single-line strings) reads the lines of the first save -/
theorem save_load_paths (cfg : Tree.Cfg) (sep : Str) (hs : IsLinesep sep) (fs : Path → Option Text)
    (p q : Path) (raw : Text) (hp : (splitlines p).length = 1) (hq : (splitlines q).length = 1)
    (hf : fs p = some raw) :
    ∃ t₀, load cfg fs (.str p) = .ok t₀ ∧
      let b₁ := saveAs sep (getText t₀)
      b₁ = cycle cfg sep raw ∧
      ∃ t₁, load cfg (fsWrite fs q b₁) (.str q) = .ok t₁ ∧ saveAs sep (getText t₁) = b₁ := by
  refine ⟨Tree.parse cfg (fileLines raw), ?_, rfl, Tree.parse cfg (fileLines (cycle cfg sep raw)), ?_, ?_⟩
  · simp [load, (single_line_str_is_path fs p hp).1, hf, Except.map]
  · have : fsWrite fs q (saveAs sep (getText (Tree.parse cfg (fileLines raw)))) q
        = some (cycle cfg sep raw) := by simp [fsWrite]; rfl
    simp [load, (single_line_str_is_path _ q hq).1, this, Except.map]
  · exact cycleG_fix (stable_texts cfg) sep hs raw

/-- what the first save holds and what is read back from it: the object's lines, with a final
empty line unless there is one already (`norm`); the texts of a file-loaded object are the file's
lines (without `ignore_blank_lines`). -/
theorem first_save_spec (cfg : Tree.Cfg) (hi : cfg.ignoreBlank = false) (sep : Str) (hs : IsLinesep sep)
    (raw : Text) :
    texts cfg (fileLines raw) = fileLines raw ∧
    fileLines (cycle cfg sep raw) = norm (fileLines raw) ∧
    universalNewlines (cycle cfg sep raw) = join LF (norm (fileLines raw)) := by
  have hc := (fileLines_clean raw).1
  refine ⟨texts_noIgnore cfg hi _, ?_, ?_⟩
  · show fileLines (saveAs sep (texts cfg (fileLines raw))) = _
    rw [texts_noIgnore cfg hi, fileLines_saveAs sep hs _ hc]
  · show universalNewlines (saveAs sep (texts cfg (fileLines raw))) = _
    rw [texts_noIgnore cfg hi]
    unfold saveAs
    rw [saveText_eq _ hc.noLF, universal_write sep hs _ (noCR_join _ (cleanLines_norm hc))]

/-- starting from lines of any origin (a list whose items may even contain `\r` or `\n`): the
first save need not be reproduced (an embedded `\r` is read back as a line end), but the second
is, for ever after. -/
theorem save_load_from_any_lines (cfg : Tree.Cfg) (sep : Str) (hs : IsLinesep sep) (ls : List Str) (n : Nat) :
    let b₂ := cycle cfg sep (saveAs sep (texts cfg ls))
    iter (cycle cfg sep) n b₂ = b₂ :=
  (save_load_fixpoint cfg sep hs (saveAs sep (texts cfg ls)) n).1

/-- the constants of the reader and writer in `/repo` (regenerated from the source on every run)
are the ones the model hard-wires: the regex `\r*\n` (both where `read_config` passes it and as
the default), `open(mode="r", newline=None)`, `"\n".join`, the `"\n"` terminator test and
addition, `open(…, "w")` without a `newline` argument. -/
theorem constants_as_modelled :
    Gen.inputLinesplitRgx = "\\r*\\n" ∧ Gen.inputLinesplitRgxDefault = "\\r*\\n" ∧
    Gen.inputOpenMode = "r" ∧ Gen.inputOpenNewlineIsNone = true ∧
    Gen.saveJoinSep = "\n" ∧ Gen.saveEndswith = "\n" ∧ Gen.saveTerminator = "\n" ∧
    Gen.saveOpenMode = "w" ∧ Gen.saveOpenHasNewlineArg = false := by decide

/-! ## every other argument, every other thing at a path: rejected (model `Ccp.Model.InputArgs`) -/

/-- **The extended reader is the old one on the old inputs.**  `loadArg` (any Python object as `config`, a
file system whose paths may also hold directories and undecodable files) agrees with `load` on the five
input forms over a file system of plain files: same tree, or the same exception. -/
theorem loadArg_conservative (cfg : Tree.Cfg) (fs : Path → Option Text) (i : Input) :
    loadArg cfg (nodesOf fs) (.input i) = (load cfg fs i).mapError Exc.ofErr := by
  unfold loadArg load
  rw [initLinesArg_conservative]
  cases initLines fs i <;> rfl

/-- a `list` / `tuple` given item by item: when every item is a `str`, it is the list form -/
theorem str_items_are_the_list (cfg : Tree.Cfg) (fs : Path → Node) (ls : List Str) :
    loadArg cfg fs (.coll .list (ls.map .str)) = .ok (Tree.parse cfg ls) ∧
    loadArg cfg fs (.coll .tuple (ls.map .str)) = .ok (Tree.parse cfg ls) := by
  unfold loadArg
  rw [initLinesArg_strs fs .list (Or.inl rfl), initLinesArg_strs fs .tuple (Or.inr rfl)]
  exact ⟨rfl, rfl⟩

/-- **Nothing else is taken for a configuration.**  A collection is loaded only if it is a `list` or a
`tuple` and every item is a `str` (then the tree is the one of these lines): a non-`str` item, another
Sequence class (deque, bytes, range …), a set or a dict never produce a tree.  An object whose iteration
raises and an object without `len()` are rejected whatever they hold. -/
theorem only_str_lists_load (cfg : Tree.Cfg) (fs : Path → Node) :
    (∀ k items t, loadArg cfg fs (.coll k items) = .ok t →
        (k = .list ∨ k = .tuple) ∧ ∃ ls, items = ls.map .str ∧ t = Tree.parse cfg ls) ∧
    (∀ n, ∃ e, loadArg cfg fs (.noIter n) = .error e) ∧
    loadArg cfg fs .unsized = .error .typeError := by
  refine ⟨?_, ?_, rfl⟩
  · intro k items t h
    unfold loadArg at h
    cases hi : initLinesArg fs (.coll k items) with
    | error e => rw [hi] at h; cases h
    | ok ls =>
      rw [hi] at h
      obtain ⟨hk, hitems⟩ := initLinesArg_coll_ok fs k items ls hi
      refine ⟨hk, ls, hitems, ?_⟩
      cases h; rfl
  · intro n
    cases n with
    | zero => exact ⟨.valueError, rfl⟩
    | succ m => exact ⟨.invalidParameters, rfl⟩

/-- the exception classes of the rejections: an item of a foreign type → `InvalidParameters` (whatever the
collection class); a set / dict of acceptable items → `ValueError`; another Sequence class of acceptable
items → `InvalidParameters`; a `BaseCfgLine` object inside a list → `ValueError` -/
theorem rejection_classes (cfg : Tree.Cfg) (fs : Path → Node) (k : Kind) (items : List Item) :
    (Item.other ∈ items → loadArg cfg fs (.coll k items) = .error .invalidParameters) ∧
    (items.all Item.accepted = true → k = .sized → loadArg cfg fs (.coll k items) = .error .valueError) ∧
    (items.all Item.accepted = true → k = .seq → loadArg cfg fs (.coll k items) = .error .invalidParameters) ∧
    (items.all Item.accepted = true → Item.cfgLine ∈ items → (k = .list ∨ k = .tuple) →
        loadArg cfg fs (.coll k items) = .error .valueError) := by
  have hne : ∀ x : Item, x ∈ items → ∃ a l, items = a :: l := by
    intro x hx; cases items with
    | nil => cases hx
    | cons a l => exact ⟨a, l, rfl⟩
  have hacc : items.all Item.accepted = true → readColl (.coll k items) =
      (if k = .sized then .error .valueError else .ok (k, items)) := by
    intro ha
    unfold readColl
    have : elementsHaveLen (.coll k items) ≠ some false := by
      cases items with
      | nil => simp [elementsHaveLen]
      | cons a l => simp only [elementsHaveLen, ha]; decide
    rw [if_neg this]
    cases k <;> rfl
  refine ⟨?_, ?_, ?_, ?_⟩
  · intro ho
    obtain ⟨a, l, e⟩ := hne _ ho
    have hall : items.all Item.accepted = false := by
      apply Bool.eq_false_iff.mpr
      intro hall
      have := List.all_eq_true.mp hall _ ho
      cases this
    have : readColl (.coll k items) = .error .invalidParameters := by
      unfold readColl
      subst e
      simp only [elementsHaveLen, hall, if_true]
    unfold loadArg
    subst e
    simp only [initLinesArg, this]; rfl
  · intro ha hk
    subst hk
    unfold loadArg
    simp only [initLinesArg, hacc ha]; rfl
  · intro ha hk
    subst hk
    unfold loadArg
    simp only [initLinesArg, hacc ha]; rfl
  · intro ha hc hk
    have hm : items.mapM Item.str? = none := by
      cases hm : items.mapM Item.str? with
      | none => rfl
      | some ls =>
        have := mapM_str_inv _ _ hm
        subst this
        simp at hc
    unfold loadArg
    rcases hk with e | e <;> subst e <;> simp only [initLinesArg, hacc ha] <;>
      simp [bind, Except.bind, initColl, hm, Except.map]

/-- a one-line string (or Path) naming a directory, a file that cannot be read, or a file the codec cannot decode,
is rejected — nothing is read as "the file's text" — with `OSError` resp. `UnicodeDecodeError` -/
theorem bad_path_nodes_rejected (cfg : Tree.Cfg) (fs : Path → Node) (s : Str) (h : (splitlines s).length = 1) :
    (fs s = .dir → loadArg cfg fs (.input (.str s)) = .error .osError ∧
                   loadArg cfg fs (.input (.path s)) = .error .osError) ∧
    (fs s = .unreadable → loadArg cfg fs (.input (.str s)) = .error .osError ∧
                          loadArg cfg fs (.input (.path s)) = .error .osError) ∧
    (fs s = .undecodable → loadArg cfg fs (.input (.str s)) = .error .unicodeDecodeError ∧
                           loadArg cfg fs (.input (.path s)) = .error .unicodeDecodeError) := by
  refine ⟨?_, ?_, ?_⟩ <;> intro hn <;>
    simp [loadArg, initLinesArg, readStrN, h, readConfigFileN, hn, bind, Except.bind, Except.map]

/-- `save_as`: a target that cannot be opened raises (IsADirectoryError, FileNotFoundError) whatever the
lines; a writable target receives exactly the text of `saveAs` when the codec can encode it (UTF-8 always
can), and `UnicodeEncodeError` is raised otherwise; `read_config_file` on a finished object is refused. -/
theorem save_failures (codec : Codec) (sep : Str) (ls : List Str) (p : Path) :
    saveAsTo codec .directory sep ls = .error .isADirectoryError ∧
    saveAsTo codec .noParent sep ls = .error .fileNotFoundError ∧
    saveAsTo .utf8 .writable sep ls = .ok (saveAs sep ls) ∧
    (saveAsTo .latin1 .writable sep ls =
      if (saveText ls).all (fun c => c.toNat < 256) then .ok (saveAs sep ls) else .error .unicodeEncodeError) ∧
    rereadFinished p = .error .requirementFailure :=
  ⟨rfl, rfl, rfl, rfl, rfl⟩

/-! ## non-vacuity -/

def iosCfg : Tree.Cfg := { ios := true, delims := ['!'], ignoreBlank := false }

def demo : List Str := ["interface Ethernet1".toList, " ip address 1.1.1.1 255.0.0.0".toList, "".toList, "end".toList]

-- `forms_agree`: the hypotheses hold for `demo` (interior blank line, 4 lines)
example : (∀ l ∈ demo, ∀ c ∈ l, isBreak c = false) ∧ 2 ≤ demo.length ∧ demo.getLast? ≠ some [] := by decide
example : (formsOf demo).map (fun i => (initLines (fun _ => none) i).toOption) = List.replicate 6 (some demo) := by decide
-- a one-line string is a path: nothing there → FileNotFoundError; something there → its lines
example : initLines (fun _ => none) (.str "hostname R1".toList) = .error .fileNotFound := by rfl
example : initLines (fun p => if p = "r1.cfg".toList then some "a\r\n b\r\n".toList else none) (.str "r1.cfg".toList)
    = .ok ["a".toList, " b".toList, []] := by rfl
example : initLines (fun p => if p = "r1.cfg".toList then some "a\r\n b\r\n".toList else none) (.path "r1.cfg".toList)
    = .ok ["a".toList, " b".toList, []] := by rfl
-- splitlines: VT and NEL break, `\r\n` breaks once, a final line end adds nothing
example : splitlines "a\x0bb\r\nc\u0085".toList = ["a".toList, "b".toList, "c".toList] := by decide
-- the regex split keeps the trailing empty element; `\r*` swallows a run of `\r` before `\n` only
example : splitRegexCRLF "a\r\r\nb\r\rX\r\n".toList = ["a".toList, "b\r\rX".toList, []] := by decide
-- file without final line end: first save adds it, afterwards nothing changes (3 cycles shown)
example : (List.range 4).map (fun n => iter (cycle iosCfg LF) n "a\r\n\r\nb".toList)
    = ["a\r\n\r\nb".toList, "a\n\nb\n".toList, "a\n\nb\n".toList, "a\n\nb\n".toList] := by decide
-- with `ignore_blank_lines`: the blank lines go at the first load, then nothing changes
example : (List.range 3).map (fun n => iter (cycle { iosCfg with ignoreBlank := true } LF) n "a\n\n b\n\n".toList)
    = ["a\n\n b\n\n".toList, "a\n b\n".toList, "a\n b\n".toList] := by decide
-- an unterminated banner keeps the blank lines after it, also the final one
example : (List.range 3).map (fun n => iter (cycle { iosCfg with ignoreBlank := true } LF) n "banner motd ^\n\nx".toList)
    = ["banner motd ^\n\nx".toList, "banner motd ^\n\nx\n".toList, "banner motd ^\n\nx\n".toList] := by decide
-- a list item with an embedded `\r`: the first save is not reproduced, the second is
example : (List.range 3).map (fun n => iter (cycle iosCfg LF) n (saveAs LF ["a\rb".toList]))
    = ["a\rb\n".toList, "a\nb\n".toList, "a\nb\n".toList] := by decide
example : (List.range 3).map (fun n => iter (cycle iosCfg CRLF) n "a\n".toList)
    = ["a\n".toList, "a\r\n".toList, "a\r\n".toList] := by decide

-- the rejection side: concrete arguments
example : loadArg iosCfg (fun _ => .absent) (.coll .list [.str "a".toList, .other]) = .error .invalidParameters := by rfl
example : loadArg iosCfg (fun _ => .absent) (.coll .sized [.str "a".toList]) = .error .valueError := by rfl
example : loadArg iosCfg (fun _ => .absent) (.coll .seq []) = .error .invalidParameters := by rfl
example : loadArg iosCfg (fun _ => .absent) (.coll .tuple [.str "a".toList, .cfgLine]) = .error .valueError := by rfl
example : (splitlines "d.cfg".toList).length = 1 ∧ loadArg iosCfg (fun _ => .dir) (.input (.str "d.cfg".toList)) = .error .osError := ⟨by decide, by rfl⟩
example : saveAsTo .latin1 .writable LF ["a€".toList] = .error .unicodeEncodeError ∧
    saveAsTo .latin1 .writable LF ["aé".toList] = .ok "aé\n".toList := ⟨by rfl, by rfl⟩

end Ccp.C09
