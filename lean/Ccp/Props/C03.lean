import Ccp.Proofs.TreeForest
import Ccp.Proofs.TreeStored
import Ccp.Proofs.TreeBanner
import Ccp.Model.TreeViews
/-!
# C03 — family relations form a consistent forest

Property theorems only; helper lemmas and the specification vocabulary live in
`Ccp.Proofs.TreeForest`:

* `Forest t` := `t.parents.length = t.texts.length ∧ ∀ i < t.size, parentOf t i ≤ i`
  (one parent index per line; a line is a root iff `parentOf t i = i`; otherwise its
  parent comes strictly before it);
* `ancestors t j` := `if parentOf t j < j then parentOf t j :: ancestors t (parentOf t j) else []`
  (the chain parent, grandparent, … root of line `j`, nearest first);
* `IsAncestor t a j` := the transitive closure of "`a` is the parent of `j`, `j` not a root".

The model (`Ccp.Model.Tree`) stores one parent index per line and *derives* the child
lists.  The implementation STORES child lists (`BaseCfgLine._children`, filled by
`_add_child_to_parent`, rearranged by `_reparent_child`); the second model
`Ccp.Model.TreeStored` mirrors those operations step by step, and the last section of this
file proves that its parent array is the one of `parse` and that every stored list is the
derived one (`stored_parents_eq`, `stored_children_eq_derived` and corollaries).  The
correspondence `harness/props/c03.py` compares the implementation's raw `parent` /
`_children` attributes with the stored-list model and its seven views with `Ccp.Model.Tree`.

Not covered here: `commit_forest` for arbitrary committed edit sequences (C07's state
machine) and the brace-syntax trees (C08); `parse` covers the fresh parse *and* the
re-bootstrap that `commit()` performs on the resulting texts.
-/
namespace Ccp.C03
open Ccp.Tree Ccp.Py

/-! ## the parse result is a forest -/

/-- **Every parse is a forest**, for every config text, every option set (`ios` macros on
or off, any comment delimiters, `ignore_blank_lines` on or off), banners and macros
terminated or not: after all four passes of both bootstraps there is exactly one parent
index per line and no line's parent comes after it. -/
theorem parse_forest (cfg : Cfg) (ls : List Str) : Forest (parse cfg ls) :=
  bootstrap_forest cfg _

/-- The same for a single `ConfigList.bootstrap` (what `commit()` re-runs). -/
theorem bootstrap_forest (cfg : Cfg) (ls : List Str) : Forest (bootstrap cfg ls) :=
  Ccp.Tree.bootstrap_forest cfg ls

/-- Passes 1–3 (indentation links, banner walk, macro walk) on their own, and they keep
the line texts in place. -/
theorem link_forest (cfg : Cfg) (ls : List Str) :
    Forest (link cfg ls) ∧ (link cfg ls).texts = ls :=
  ⟨Ccp.Tree.link_forest cfg ls, link_texts_eq cfg ls⟩

/-- In a forest every line is a root (its own parent) or its parent comes strictly
before it; lines beyond the end are their own parent. -/
theorem root_or_before {t : T} (hf : Forest t) (i : Nat) :
    (parentOf t i = i ∨ parentOf t i < i) ∧ (t.size ≤ i → parentOf t i = i) := by
  have h := parentOf_le_of_forest hf i
  refine ⟨by omega, fun hi => ?_⟩
  have : t.parents.length ≤ i := by have := hf.1; simp only [T.size] at hi; omega
  simp [parentOf, List.getD_eq_getElem?_getD, List.getElem?_eq_none this]

/-! ## child lists -/

/-- The child list of `i` holds exactly the lines other than `i` whose parent is `i`. -/
theorem children_spec (t : T) (i j : Nat) :
    j ∈ children t i ↔ j < t.size ∧ parentOf t j = i ∧ j ≠ i := mem_children

/-- Child lists are in strictly ascending line order (hence duplicate free). -/
theorem children_ascending (t : T) (i : Nat) : (children t i).Pairwise (· < ·) :=
  children_sorted t i

/-- How often `j` occurs in the child list of `i`: once if `i` is its parent and `j` is
not a root, otherwise never. -/
theorem children_count (t : T) (i j : Nat) :
    (children t i).count j = if j < t.size ∧ parentOf t j = i ∧ j ≠ i then 1 else 0 :=
  Ccp.Tree.children_count t i j

/-- A non-root line is in exactly one child list — its parent's — exactly once. -/
theorem child_in_exactly_one_list (t : T) (j : Nat) (hj : j < t.size) (hne : parentOf t j ≠ j) :
    (∀ i, j ∈ children t i ↔ i = parentOf t j) ∧ (children t (parentOf t j)).count j = 1 := by
  constructor
  · intro i
    rw [mem_children]
    constructor
    · rintro ⟨_, h, _⟩; exact h.symm
    · rintro rfl; exact ⟨hj, rfl, fun h => hne h.symm⟩
  · rw [Ccp.Tree.children_count]; simp [hj]; exact fun h => hne h.symm

/-- A root is in no child list. -/
theorem root_in_no_list (t : T) (j : Nat) (hr : parentOf t j = j) : ∀ i, j ∉ children t i := by
  intro i h
  obtain ⟨_, h1, h2⟩ := mem_children.mp h
  exact h2 (hr.symm.trans h1)

/-- Parents come before their children. -/
theorem children_after {t : T} (hf : Forest t) {i j : Nat} (h : j ∈ children t i) : i < j := by
  obtain ⟨_, h1, h2⟩ := mem_children.mp h
  have := parentOf_le_of_forest hf j
  omega

/-! ## the ancestor chain (specification) -/

/-- defining equation of `ancestors` -/
theorem ancestors_unfold (t : T) (j : Nat) :
    ancestors t j = if parentOf t j < j then parentOf t j :: ancestors t (parentOf t j) else [] := by
  rw [ancestors]

/-- In a forest the chain lists exactly the proper ancestors (transitive closure of the
parent link), strictly descending, and ends at a root. -/
theorem ancestors_spec {t : T} (hf : Forest t) (j : Nat) :
    (∀ a, a ∈ ancestors t j ↔ IsAncestor t a j) ∧
    (ancestors t j).Pairwise (· > ·) ∧
    (∀ a ∈ ancestors t j, a < j ∧ j < t.size) ∧
    (∀ r, (ancestors t j).getLast? = some r → parentOf t r = r) :=
  ⟨fun _ => ⟨isAncestor_of_mem, mem_of_isAncestor hf⟩, ancestors_desc t j,
   fun _ ha => ⟨ancestors_lt ha, ancestors_lt_size hf ha⟩, fun _ hr => ancestors_last_root hf hr⟩

/-! ## the views -/

/-- `all_parents` is the ancestor chain, root first: strictly ascending, duplicate free.
(The fuel `t.size` of the model's loop is sufficient.) -/
theorem allParents_spec {t : T} (hf : Forest t) (i : Nat) :
    allParents t i = (ancestors t i).reverse ∧
    (allParents t i).Pairwise (· < ·) ∧ (allParents t i).Nodup :=
  ⟨allParents_eq hf i, allParents_sorted hf i, nodup_of_sorted (allParents_sorted hf i)⟩

/-- `all_children` is the transitive closure in line order: `j` is listed iff `i` is on
`j`'s ancestor chain; strictly ascending, duplicate free; as a list, it is the lines of
the config filtered by that condition.  (The fuel `t.size` of the model's recursion is
sufficient.) -/
theorem allChildren_spec {t : T} (hf : Forest t) (i : Nat) :
    (∀ j, j ∈ allChildren t i ↔ i ∈ ancestors t j) ∧
    (allChildren t i).Pairwise (· < ·) ∧ (allChildren t i).Nodup ∧
    allChildren t i = (List.range t.size).filter (fun j => decide (i ∈ ancestors t j)) :=
  ⟨fun _ => mem_allChildren hf, allChildren_sorted hf i, nodup_of_sorted (allChildren_sorted hf i),
   allChildren_eq_filter hf i⟩

/-- `all_children` is "the children and, recursively, theirs" — the least such set is the
one of `allChildren_spec`. -/
theorem allChildren_closure {t : T} (hf : Forest t) (i j : Nat) :
    j ∈ allChildren t i ↔ ∃ c ∈ children t i, j = c ∨ j ∈ allChildren t c :=
  mem_allChildren_closure hf

/-- `all_parents` and `all_children` are converse relations. -/
theorem allParents_allChildren_dual {t : T} (hf : Forest t) (i j : Nat) :
    i ∈ allParents t j ↔ j ∈ allChildren t i := by
  rw [mem_allParents hf, mem_allChildren hf]

/-- `geneology` is the path from the root down to the line itself. -/
theorem geneology_spec {t : T} (hf : Forest t) (i : Nat) :
    geneology t i = (ancestors t i).reverse ++ [i] ∧ (geneology t i).Pairwise (· < ·) := by
  have h : geneology t i = (ancestors t i).reverse ++ [i] := by rw [geneology, allParents_eq hf]
  refine ⟨h, ?_⟩
  rw [geneology]
  exact (List.pairwise_append.mp (family_sorted hf i)).1

/-- `lineage` is ancestors, the line, descendants — already in line order: strictly
ascending, and `j` is listed iff it is an ancestor of `i`, `i` itself or a descendant. -/
theorem lineage_spec {t : T} (hf : Forest t) (i : Nat) :
    lineage t i = allParents t i ++ [i] ++ allChildren t i ∧
    (lineage t i).Pairwise (· < ·) ∧
    (∀ j, j ∈ lineage t i ↔ j ∈ ancestors t i ∨ j = i ∨ i ∈ ancestors t j) := by
  refine ⟨lineage_eq hf i, ?_, ?_⟩
  · rw [lineage_eq hf]; exact family_sorted hf i
  · intro j
    rw [lineage_eq hf]
    simp only [List.mem_append, List.mem_singleton, mem_allParents hf, mem_allChildren hf, or_assoc]

/-- `family_endpoint` is the largest line number among the line and its descendants. -/
theorem familyEndpoint_spec {t : T} (hf : Forest t) (i : Nat) :
    familyEndpoint t i ∈ i :: allChildren t i ∧
    ∀ j ∈ i :: allChildren t i, j ≤ familyEndpoint t i :=
  familyEndpoint_max hf i

/-- `siblings`: the lines in the parent's child list with the same indentation, in
ascending line order.  (For a root `i` that is the root's own children of equal indent —
the code does not special-case roots.) -/
theorem siblings_spec (t : T) (i : Nat) :
    (∀ j, j ∈ siblings t i ↔
      j < t.size ∧ parentOf t j = parentOf t i ∧ j ≠ parentOf t i ∧ indentOf t j = indentOf t i) ∧
    (siblings t i).Pairwise (· < ·) :=
  ⟨fun _ => mem_siblings, siblings_sorted t i⟩

/-- A non-root line is among its own siblings. -/
theorem self_mem_siblings (t : T) (i : Nat) (hi : i < t.size) (hne : parentOf t i ≠ i) :
    i ∈ siblings t i := mem_siblings.mpr ⟨hi, rfl, fun h => hne h.symm, rfl⟩

/-- Flags: `is_parent` iff the child list is non-empty iff some other line names `i` as
its parent; `is_child` iff the line is not a root. -/
theorem flags_spec (t : T) (i : Nat) :
    (isParent t i = true ↔ children t i ≠ []) ∧
    (isParent t i = true ↔ ∃ j, j < t.size ∧ parentOf t j = i ∧ j ≠ i) ∧
    (isChild t i = true ↔ parentOf t i ≠ i) := by
  have h1 : isParent t i = true ↔ children t i ≠ [] := by
    simp [isParent]
  refine ⟨h1, ?_, by simp [isChild]⟩
  rw [h1]
  constructor
  · intro h
    obtain ⟨j, hj⟩ := List.exists_mem_of_ne_nil _ h
    exact ⟨j, mem_children.mp hj⟩
  · rintro ⟨j, hj⟩ h
    have := mem_children.mpr hj
    rw [h] at this; cases this

/-! ## banner and macro bodies: every body line is a direct child of its start line -/

/-- **Body lines are direct children of their start line and of no other line.**  In the final
tree of any line list under any option set: if line `i` is owned by the start line `s` — the
last `macro name` line (syntax ios) whose stretch reaches `i`, or, when no macro start reaches
`i`, the last banner start whose stretch reaches `i` (`Spec/BannerLinks.lean`; the stretch
includes the closing line) — then `s` comes before `i`, is its parent, `i` occurs exactly once
in `s`'s child list and in no other child list.  So a banner / macro family is flat: however the
body is indented, no body line hangs under another body line. -/
theorem body_line_child_of_start (cfg : Cfg) (ls : List Str) (i s : Nat)
    (hi : i < (parse cfg ls).size)
    (hs : macroOwner cfg (parse cfg ls).texts i = some s ∨
      (macroOwner cfg (parse cfg ls).texts i = none ∧ bannerOwner (parse cfg ls).texts i = some s)) :
    s < i ∧ parentOf (parse cfg ls) i = s ∧
    (∀ p, i ∈ children (parse cfg ls) p ↔ p = s) ∧ (children (parse cfg ls) s).count i = 1 := by
  obtain ⟨h1, h2⟩ := specParentFull_of_owner cfg _ i s hs
  have hp : parentOf (parse cfg ls) i = s := by rw [parse_parentOf_full cfg ls i hi, h1]
  have hne : parentOf (parse cfg ls) i ≠ i := by omega
  obtain ⟨h3, h4⟩ := child_in_exactly_one_list (parse cfg ls) i hi hne
  rw [hp] at h3 h4
  exact ⟨h2, hp, h3, h4⟩

/-- The same, spelled out for a banner with `ignore_blank_lines` off: `i` lies in the stretch of
the banner start `b`, no later banner start before `i` reaches `i`, and (ios) no macro start
reaches `i`. -/
theorem banner_body_line_child (cfg : Cfg) (ls : List Str) (hi : cfg.ignoreBlank = false) (b i : Nat)
    (hcov : covers coverB ls b i = true)
    (hlast : ∀ m, b < m → m < i → covers coverB ls m i = false)
    (hmac : cfg.ios = true → ∀ m, m < i → covers coverM ls m i = false) :
    i ∈ children (parse cfg ls) b ∧ ∀ p, i ∈ children (parse cfg ls) p → p = b := by
  have ht : (parse cfg ls).texts = ls := parse_texts_noIgnore cfg ls hi
  have hbi : b < i := ((covers_iff coverB ls b i).mp hcov).1
  have hil : i < (parse cfg ls).size := by
    simp only [T.size, ht]; exact covers_lt_length coverB coverB_le ls b i hcov
  have hm : macroOwner cfg ls i = none := by
    unfold macroOwner
    split
    · rename_i hios; exact (lastCover_eq_none coverM ls i i).mpr (hmac hios)
    · rfl
  have hb : bannerOwner ls i = some b := (lastCover_eq_some coverB ls i i b).mpr ⟨hbi, hcov, hlast⟩
  obtain ⟨_, _, h3, _⟩ := body_line_child_of_start cfg ls i b hil (by rw [ht]; exact Or.inr ⟨hm, hb⟩)
  exact ⟨(h3 b).mpr rfl, fun p hp => (h3 p).mp hp⟩

/-- … and for a macro (syntax ios): `i` lies in the stretch of the macro start `m`, and no later
macro start before `i` reaches `i`. -/
theorem macro_body_line_child (cfg : Cfg) (ls : List Str) (hi : cfg.ignoreBlank = false)
    (hios : cfg.ios = true) (m i : Nat)
    (hcov : covers coverM ls m i = true)
    (hlast : ∀ q, m < q → q < i → covers coverM ls q i = false) :
    i ∈ children (parse cfg ls) m ∧ ∀ p, i ∈ children (parse cfg ls) p → p = m := by
  have ht : (parse cfg ls).texts = ls := parse_texts_noIgnore cfg ls hi
  have hmi : m < i := ((covers_iff coverM ls m i).mp hcov).1
  have hil : i < (parse cfg ls).size := by
    simp only [T.size, ht]; exact covers_lt_length coverM coverM_le ls m i hcov
  have hm : macroOwner cfg ls i = some m := by
    unfold macroOwner
    rw [if_pos hios]
    exact (lastCover_eq_some coverM ls i i m).mpr ⟨hmi, hcov, hlast⟩
  obtain ⟨_, _, h3, _⟩ := body_line_child_of_start cfg ls i m hil (by rw [ht]; exact Or.inl hm)
  exact ⟨(h3 m).mpr rfl, fun p hp => (h3 p).mp hp⟩

/-! ## non-vacuity: concrete configs -/

def exCfg : Cfg := { ios := true, delims := ['!'], ignoreBlank := false }

/-- a banner with an indented and a blank body line; the delimiter line `x^` is a root
after pass 1 and is re-parented by the banner walk -/
def exBanner : List Str :=
  ["banner motd ^".toList, " hi".toList, "".toList, "x^".toList, "interface X".toList, " shutdown".toList]

example : (parse exCfg exBanner).parents = [0, 0, 0, 0, 4, 4] := by decide
example : (link exCfg exBanner).parents ≠ linkByIndent exCfg exBanner := by decide
example : children (parse exCfg exBanner) 0 = [1, 2, 3] := by decide
example : children (parse exCfg exBanner) 4 = [5] := by decide
example : allChildren (parse exCfg exBanner) 0 = [1, 2, 3] := by decide
example : familyEndpoint (parse exCfg exBanner) 0 = 3 ∧ familyEndpoint (parse exCfg exBanner) 5 = 5 := by decide
example : siblings (parse exCfg exBanner) 3 = [2, 3] := by decide
example : isParent (parse exCfg exBanner) 4 = true ∧ isChild (parse exCfg exBanner) 4 = false := by decide
/-- with `ignore_blank_lines` the blank body line survives (banner bodies are kept) -/
example : (parse { exCfg with ignoreBlank := true } exBanner).parents = [0, 0, 0, 0, 4, 4] := by decide
/-- … whereas a blank line outside a banner is dropped and the list re-bootstrapped -/
example : (parse { exCfg with ignoreBlank := true }
    ["interface X".toList, "".toList, " shutdown".toList]).parents = [0, 0] := by decide

/-- depth 3, a macro body with a deeper-indented line, and an unterminated banner -/
def exDeep : List Str :=
  ["interface X".toList, " a".toList, "  b".toList, "   c".toList, " d".toList,
   "macro name m".toList, " x".toList, "  y".toList, "@".toList,
   "banner exec #".toList, "  z".toList, "w".toList]

example : (parse exCfg exDeep).parents = [0, 0, 1, 2, 0, 5, 5, 5, 5, 9, 9, 9] := by decide
example : linkByIndent exCfg exDeep = [0, 0, 1, 2, 0, 5, 5, 6, 8, 9, 9, 11] := by decide
example : ancestors (parse exCfg exDeep) 3 = [2, 1, 0] := by decide +kernel
example : allParents (parse exCfg exDeep) 3 = [0, 1, 2] := by decide
example : geneology (parse exCfg exDeep) 3 = [0, 1, 2, 3] := by decide
example : allChildren (parse exCfg exDeep) 0 = [1, 2, 3, 4] := by decide
example : allChildren (parse exCfg exDeep) 1 = [2, 3] := by decide
example : lineage (parse exCfg exDeep) 2 = [0, 1, 2, 3] := by decide
example : familyEndpoint (parse exCfg exDeep) 1 = 3 := by decide
example : siblings (parse exCfg exDeep) 1 = [1, 4] := by decide
example : IsAncestor (parse exCfg exDeep) 0 3 :=
  ((ancestors_spec (parse_forest exCfg exDeep) 3).1 0).mp (by decide +kernel)

/-! ## the STORED child lists

`Ccp.TreeStored.parse` runs the same four passes as `parse` over a state that also holds,
for every line, the child list the implementation stores, and performs on those lists
exactly the list operations of `_add_child_to_parent` (append) and `_reparent_child`
(remove from the former parent's list, append if absent, sort by line number). -/

/-- **(a) same parents.**  For every option set and every line list, forgetting the stored
child lists of the stored-list parse leaves exactly the result of `parse` — the same texts,
the same parent index for every line, the same `blank_line_keep` flags. -/
theorem stored_parents_eq (cfg : Cfg) (ls : List Str) :
    (Ccp.TreeStored.parse cfg ls).parents = (parse cfg ls).parents ∧
    (Ccp.TreeStored.parse cfg ls).toT = parse cfg ls :=
  ⟨congrArg T.parents (Ccp.TreeStored.parse_toT cfg ls), Ccp.TreeStored.parse_toT cfg ls⟩

/-- **(b) stored = derived.**  For every option set and every line list, after the
stored-list parse the stored child list of EVERY index `p` is the derived child list of
`parse`; as a table: one stored list per line, equal to the derived list of that line. -/
theorem stored_children_eq_derived (cfg : Cfg) (ls : List Str) :
    (∀ p, (Ccp.TreeStored.parse cfg ls).stored p = children (parse cfg ls) p) ∧
    (Ccp.TreeStored.parse cfg ls).children =
      (List.range (parse cfg ls).size).map (children (parse cfg ls)) := by
  have h := Ccp.TreeStored.goodS_parse cfg ls
  constructor
  · intro p
    rw [Ccp.TreeStored.stored_eq_children h p, Ccp.TreeStored.parse_toT]
  · rw [Ccp.TreeStored.children_eq_map h, Ccp.TreeStored.parse_toT]

/-- The same two statements for a single `ConfigList.bootstrap` (what `commit()` re-runs,
including the `ignore_blank_lines` rebuild) and for passes 1–3 on their own. -/
theorem stored_bootstrap_eq_derived (cfg : Cfg) (ls : List Str) :
    ((Ccp.TreeStored.bootstrap cfg ls).toT = bootstrap cfg ls ∧
      ∀ p, (Ccp.TreeStored.bootstrap cfg ls).stored p = children (bootstrap cfg ls) p) ∧
    ((Ccp.TreeStored.link cfg ls).toT = link cfg ls ∧
      ∀ p, (Ccp.TreeStored.link cfg ls).stored p = children (link cfg ls) p) := by
  refine ⟨⟨Ccp.TreeStored.bootstrap_toT cfg ls, fun p => ?_⟩, ⟨Ccp.TreeStored.link_toT cfg ls, fun p => ?_⟩⟩
  · rw [Ccp.TreeStored.stored_eq_children (Ccp.TreeStored.goodS_bootstrap cfg ls) p, Ccp.TreeStored.bootstrap_toT]
  · rw [Ccp.TreeStored.stored_eq_children (Ccp.TreeStored.goodS_link cfg ls) p, Ccp.TreeStored.link_toT]

/-- Every stored child list is in strictly ascending line order (hence duplicate free). -/
theorem stored_children_ascending (cfg : Cfg) (ls : List Str) (p : Nat) :
    ((Ccp.TreeStored.parse cfg ls).stored p).Pairwise (· < ·) := by
  rw [(stored_children_eq_derived cfg ls).1 p]
  exact children_sorted _ _

/-- A line that has a parent is stored in exactly one list — its parent's — exactly once,
and exactly once in all stored lists taken together. -/
theorem stored_child_exactly_once (cfg : Cfg) (ls : List Str) (j : Nat)
    (hj : j < (parse cfg ls).size) (hne : parentOf (parse cfg ls) j ≠ j) :
    (∀ i, j ∈ (Ccp.TreeStored.parse cfg ls).stored i ↔ i = parentOf (parse cfg ls) j) ∧
    ((Ccp.TreeStored.parse cfg ls).stored (parentOf (parse cfg ls) j)).count j = 1 ∧
    (Ccp.TreeStored.parse cfg ls).children.flatten.count j = 1 := by
  have h := child_in_exactly_one_list (parse cfg ls) j hj hne
  refine ⟨fun i => ?_, ?_, ?_⟩
  · rw [(stored_children_eq_derived cfg ls).1 i]; exact h.1 i
  · rw [(stored_children_eq_derived cfg ls).1]; exact h.2
  · rw [Ccp.TreeStored.flatten_count (Ccp.TreeStored.goodS_parse cfg ls) j, Ccp.TreeStored.parse_toT]
    simp [hj, hne]

/-- A root is stored in no list at all; neither is a line number outside the config. -/
theorem stored_root_in_no_list (cfg : Cfg) (ls : List Str) (j : Nat)
    (hr : parentOf (parse cfg ls) j = j) :
    (∀ i, j ∉ (Ccp.TreeStored.parse cfg ls).stored i) ∧
    (Ccp.TreeStored.parse cfg ls).children.flatten.count j = 0 := by
  constructor
  · intro i
    rw [(stored_children_eq_derived cfg ls).1 i]
    exact root_in_no_list (parse cfg ls) j hr i
  · rw [Ccp.TreeStored.flatten_count (Ccp.TreeStored.goodS_parse cfg ls) j, Ccp.TreeStored.parse_toT]
    simp [hr]

/-- **One call of `_reparent_child`.**  On ANY state whose stored lists are the derived ones
(`GoodS`: every list strictly ascending and holding exactly the other lines that name the
line as parent, parents not after their children), re-parenting a line `c` to an earlier line
`p` yields again such a state, whose parents are those of the parent-only model and whose
stored lists are the derived lists of the re-parented tree.  (This is the step the code
before the fix of F02 violated: it appended without removing from the former parent and
without the membership test.) -/
theorem reparent_keeps_stored_eq_derived {s : Ccp.TreeStored.S} (h : Ccp.TreeStored.GoodS s) {p c : Nat}
    (hc : c < s.toT.size) (hpc : p < c) :
    Ccp.TreeStored.GoodS (Ccp.TreeStored.reparent s p c) ∧
    (Ccp.TreeStored.reparent s p c).toT = reparent s.toT p c ∧
    ∀ q, (Ccp.TreeStored.reparent s p c).stored q = children (reparent s.toT p c) q := by
  have hg : Ccp.TreeStored.GoodS (Ccp.TreeStored.reparent s p c) :=
    Ccp.TreeStored.good_reparent h hc hpc
  exact ⟨hg, rfl, fun q => Ccp.TreeStored.stored_eq_children hg q⟩

/-! ### non-vacuity: the stored lists of concrete configs -/

/-- F02's witness: the indented body line ` hi` is an indentation child of the banner line
already after pass 1 and is NOT appended a second time by the banner walk -/
example : (Ccp.TreeStored.parse exCfg exBanner).children = [[1, 2, 3], [], [], [], [5], []] := by decide
example : (Ccp.TreeStored.linkByIndent exCfg exBanner).children = [[1], [], [], [], [5], []] := by decide
/-- `  y` is stored under ` x` after pass 1 and moves to the macro line; `@` (a root after
pass 1) is appended and the list is sorted -/
example : (Ccp.TreeStored.linkByIndent exCfg exDeep).children =
    [[1, 4], [2], [3], [], [], [6], [7], [], [], [10], [], []] := by decide
example : (Ccp.TreeStored.parse exCfg exDeep).children =
    [[1, 4], [2], [3], [], [], [6, 7, 8], [], [], [], [10, 11], [], []] := by decide
/-- hypotheses of `stored_child_exactly_once` / `stored_root_in_no_list` are satisfiable -/
example : 1 < (parse exCfg exBanner).size ∧ parentOf (parse exCfg exBanner) 1 ≠ 1 := by decide
example : parentOf (parse exCfg exBanner) 4 = 4 := by decide
/-- a nested banner start takes the following lines away from the outer banner: lines 3 and 4
change their parent twice (` b`: 2 → 0 → 2, `#`: root → 0 → 2), ` c` once (2 → 0) -/
def exNested : List Str :=
  ["banner motd ^".toList, "a".toList, "banner exec #".toList, " b".toList, "#".toList, " c".toList,
   "^".toList, "d".toList]
example : (Ccp.TreeStored.parse exCfg exNested).parents = [0, 0, 0, 2, 2, 0, 0, 7] := by decide
example : (Ccp.TreeStored.parse exCfg exNested).children = [[1, 2, 5, 6], [], [3, 4], [], [], [], [], []] := by decide
/-- the sort matters: ` hi` is an indentation child of the banner line after pass 1 (the blank
line above it cannot be a parent), the banner walk then appends the blank line 1 behind it -/
example : (Ccp.TreeStored.linkByIndent exCfg ["banner motd ^".toList, "".toList, " hi".toList, "^".toList]).children
    = [[2], [], [], []] := by decide
example : (Ccp.TreeStored.parse exCfg ["banner motd ^".toList, "".toList, " hi".toList, "^".toList]).children
    = [[1, 2, 3], [], [], []] := by decide
/-- hypotheses of `reparent_keeps_stored_eq_derived`: the state after passes 1–3 is `GoodS`,
and re-parenting line 5 of `exDeep` (`macro name m`, a root) under line 4 is a legal call -/
example : Ccp.TreeStored.GoodS (Ccp.TreeStored.link exCfg exDeep) ∧
    (4 : Nat) < 5 ∧ 5 < (Ccp.TreeStored.link exCfg exDeep).toT.size :=
  ⟨Ccp.TreeStored.goodS_link exCfg exDeep, by decide, by decide⟩
example : (Ccp.TreeStored.reparent (Ccp.TreeStored.link exCfg exDeep) 4 5).children =
    [[1, 4], [2], [3], [], [5], [6, 7, 8], [], [], [], [10, 11], [], []] := by decide
/-- hypotheses of `body_line_child_of_start` / `banner_body_line_child` / `macro_body_line_child`
are satisfiable: line 2 of `exBanner` (a blank body line) is owned by the banner start 0, line 7
of `exDeep` (a deeper-indented macro body line) by the macro start 5 -/
example : macroOwner exCfg (parse exCfg exBanner).texts 2 = none ∧
    bannerOwner (parse exCfg exBanner).texts 2 = some 0 := by decide
example : macroOwner exCfg (parse exCfg exDeep).texts 7 = some 5 := by decide
example : covers coverB exBanner 0 3 = true ∧ (∀ m, 0 < m → m < 3 → covers coverB exBanner m 3 = false) ∧
    (∀ m, m < 3 → covers coverM exBanner m 3 = false) :=
  ⟨((lastCover_eq_some coverB exBanner 3 3 0).mp (by decide)).2.1,
   ((lastCover_eq_some coverB exBanner 3 3 0).mp (by decide)).2.2,
   (lastCover_eq_none coverM exBanner 3 3).mp (by decide)⟩
example : covers coverM exDeep 5 8 = true ∧ (∀ q, 5 < q → q < 8 → covers coverM exDeep q 8 = false) :=
  ((lastCover_eq_some coverM exDeep 8 8 5).mp (by decide)).2

/-! ## the two remaining views the property names: `geneology_text`, `has_children` (`Model/TreeViews.lean`) -/

/-- `geneology_text` is the texts along the path from the root down to the line itself: one
text per ancestor, root first, then the line's own text (so it is never empty and its last
entry is the line's text).  Holds for every forest, in particular for every parse of an
indentation-style config (`parse_forest`) and every brace-syntax parse (`C08.junos_forest`). -/
theorem geneologyText_spec {t : T} (hf : Forest t) (i : Nat) :
    geneologyText t i = ((ancestors t i).reverse ++ [i]).map (textOf t) ∧
    (geneologyText t i).length = (ancestors t i).length + 1 ∧
    (geneologyText t i).getLast? = some (textOf t i) := by
  have h : geneologyText t i = ((ancestors t i).reverse ++ [i]).map (textOf t) := by
    rw [geneologyText, (geneology_spec hf i).1]
  refine ⟨h, ?_, ?_⟩
  · rw [h]; simp
  · rw [h]; simp

/-- `has_children` is `is_parent`: true iff some other line names `i` as its parent. -/
theorem hasChildren_spec (t : T) (i : Nat) :
    hasChildren t i = isParent t i ∧
    (hasChildren t i = true ↔ ∃ j, j < t.size ∧ parentOf t j = i ∧ j ≠ i) := by
  have h : hasChildren t i = isParent t i := by
    simp only [hasChildren, isParent]
    cases children t i <;> simp
  exact ⟨h, by rw [h]; exact (flags_spec t i).2.1⟩

example : Forest (parse exCfg exDeep) := parse_forest _ _
example : geneologyText (parse exCfg exDeep) 3 = (parse exCfg exDeep).texts.take 4 := by decide
example : hasChildren (parse exCfg exDeep) 1 = true ∧ hasChildren (parse exCfg exDeep) 3 = false := by decide

end Ccp.C03
