import Ccp.Proofs.TreeForest
namespace Ccp.C03
open Ccp.Tree Ccp.Py

/-- every parse yields a forest -/
theorem parse_forest (cfg : Cfg) (ls : List Str) : Forest (parse cfg ls) := bootstrap_forest cfg _

end Ccp.C03
