import Ccp.Model.Tree
namespace Ccp.C03
open Ccp.Tree Ccp.Py

theorem placeholder_reparent_texts (t : T) (p c : Nat) : (reparent t p c).texts = t.texts := rfl

end Ccp.C03
