import Ccp.Gen.Tables
/-!
# RxC19 — the regular expressions the matchers of `Ccp.Model.IosModels` were written for

`Ccp.Gen.Tables` is regenerated from `/repo`'s source on every run (`harness/translate.py` + `harness/rxscan.py`, AST
only).  The theorem states that every regular expression, keyword test and separator of the accessors of
models_cisco.py that `lean/Ccp/Model/IosModels.lean` models still has exactly the text its token matcher was written
for.  Editing one of them in the code breaks this obligation; re-indenting `_RE_IP_ROUTE` (a `re.VERBOSE` pattern,
compared in canonical verbose form), editing a comment inside it, reformatting a call or renaming a local variable
does not.

Each `rxIos_<Class>_<accessor>` is the scan set of that accessor, looked up from the concrete class (`IOSIntfLine`,
`IOSRouteLine`) through its base classes of the file.  `rx…` are *scan sets* (`harness/rxscan.py`, `scan_closure`): for the named entry point and every helper of the same
source file it reaches, every regex call (with flags; a compiled pattern's method is reported as the `re.` function
with the pattern's text), literal `str` separator, `"lit" in …` test and comparison against a `str` literal or a list of `str` literals (with the constant subscript of the other side), as a sorted duplicate-free list of
`(what, text, flags or detail)`.  So a regex call that is added to, or removed from, the modelled code breaks the
obligation as well, while moving a test into a helper method, re-ordering tests, negating one (`!=` is reported as
`==`, `not in` as `in`), hoisting a pattern into a compiled constant or renaming a constant / local variable does not.

| source (models_cisco.py) | matcher in `lean/Ccp/Model/IosModels.lean` |
|---|---|
| `IOSCfgLine.is_intf`: `text[0:10] == "interface "`, `text[10] != " "` | `isIntf` |
| `IOSCfgLine.is_in_portchannel`, `.portchannel_number`: `^\s*channel-group\s+(\d+)` | `pChan` (`isInPortchannel`, `portchannelNumber`) |
| `IOSCfgLine.is_portchannel_intf`: `"channel" in self.name.lower()` | `isPortchannelIntf` |
| `IOSCfgLine.is_object_for_interface`: `line.strip().split()[0] == "interface"` | `isIntfLine` |
| `BaseIOSIntfLine.name`: `" ".join(self.text.split()[1:])` | `intfName` (`wordsOf`) |
| `.cisco_interface_object`: `CiscoIOSInterface("".join(self.text.split()[1:]))` | `ordinalList` (`Ccp.Intf.parse`, C15's model — its regexes are the last three conjuncts) |
| `.port_type`: `^interface\s+([A-Za-z\-]+)` | `portType` (`afterInterface`, `isAlphaHyphen`) |
| `.interface_number`: `^interface\s+[A-Za-z\-]+\s*(\d+.*?)(\.\d+)*(\s\S+)*\s*$` | `interfaceNumber` (`numberPart`, `lazyNum`, `tail1`, `tail2`) |
| `.subinterface_number`: `^interface\s+[A-Za-z\-]+\s*(\d+.*?\.?\d?)(\s\S+)*\s*$` | `subinterfaceNumber` (`lazySub`, `subEnd`, `tail2`) |
| `.description`: `^\s*description\s+(\S.*)$` | `pDescr` |
| `.ipv4_addr`: `^\s+ip\s+address\s+(\d+\.\d+\.\d+\.\d+)\s+\d+\.\d+\.\d+\.\d+\s*$`, `…(dhcp)\s*$`, `…(negotiated)\s*$` | `pAddr`, `pAddrKw kDhcp`, `pAddrKw kNegotiated` (`addrWords`, `isQuadShape`) |
| `.ipv4_netmask`: `^\s+ip\s+address\s+\d+\.\d+\.\d+\.\d+\s+(\d+\.\d+\.\d+\.\d+)\s*$` | `pMask` |
| `.ipv4_addr_object`: `^\s+ip\s+address\s+(?P<v4addr>\S+)\s+(?P<v4netmask>\d+\.\d+\.\d+\.\d+)\s*$`, `== "dhcp"`, `== "negotiated"` | `pAddrObj`, `ipv4AddrObject` |
| `.ip_secondary_addresses`, `.ip_secondary_networks`: `^\s*ip\s+address\s+(?P<secondary>\S+\s+\S+)\s+secondary\s*$` | `pSecondary` (`secondaries`) |
| `.vrf`: `^\s*(ip\s+)*vrf\sforwarding\s(\S+)$` | `pVrf` |
| `.manual_mtu`: `^\s*mtu\s+(\d+)$` | `pMtu` |
| `.manual_ip_mtu`: `^\s*ip\s+mtu\s+(\d+)$` | `pIpMtu` |
| `.is_shutdown`: `^\s*(shut\S*)\s*$` | `pShut` |
| `.is_switchport`: `split()[0] == "switchport"` | `isSwitchportLoop` |
| `.has_manual_switch_access` / `_trunk`: `split()[0:3] == ["switchport", "mode", "access" / "trunk"]` | `hasWords3` |
| `.access_vlan`: `split()[0:3] == ["switchport", "access", "vlan"]` | `accessVlanLoop` |
| `.native_vlan`: `_parts[0:4] == ["switchport", "trunk", "native", "vlan"]` | `nativeVlanLoop` |
| `.trunk_vlans_allowed`: the four `split()[0:5]` / `[0:4]` keyword tests, `^\s+switchport\s+trunk\s+allowed\s+vlan\s+(add\s+ / except\s+ / remove\s+)(\d[\d\-\,\s]*)$`, `…vlan\s+(all|none|\d[\d\-\,\s]*)$`, `"_nomatch_"`, `^\d[\d\-\,\s]*` | `vdictStep` (`vlanListGroup`, `allowedGroup`, `isVlanChar`), `applyVDict`; the vlan lists go through `CiscoRange(…, result_type=int)` = `Ccp.Range.parse` (C14's model — its separators are among the last conjuncts) |
| `IOSRouteLine.is_object_for`: `line[0:9] == "ip route "` (and `line[0:11] == "ipv6 route "`, outside the model) | `isRouteLine` |
| `IOSRouteLine.__init__`: `_RE_IP_ROUTE.search(self.text)` (`_RE_IPV6_ROUTE` for `ipv6` lines is outside the model and deliberately left out of the scan set: `NOT_MODELLED` in `harness/rxscan.py`) | `routeParse` |
| `_RE_IP_ROUTE` (VERBOSE) | `routeParse`, `routeBody`, `routeTail` and the slot consumers `slotKw`, `slotDigits`, `slotKwWord`, `slotKwDigits`, `slotIntf`, `slotAddr`, `quadPrefix` |

Because `ordinal_list` and `trunk_vlans_allowed` are modelled through C15's `Ccp.Intf.parse` and C14's
`Ccp.Range.parse`, the scan sets of `CiscoIOSInterface.parse_single_interface` (with `parse_intf_short` / `parse_intf_long`)
and of `CiscoRange.__init__ / parse_integers` are conjuncts here as well: an edit of those breaks C19's obligation
together with C15's / C14's, as it should.

**Scan sets as revised.**  The lists below contain only what identifies the regex / separator a scanner was written
for: regex-engine calls (`re.*`, methods of compiled patterns, the `re_*` helpers of the package) with the pattern in
*canonical form* — canonical verbose form and no VERBOSE flag for a pattern compiled with `re.VERBOSE`; group names
removed (`(?P<n>…)` is written `(…)`, `(?P=n)` by number); redundant escapes removed (`\:` is `:`); a pattern handed to a
same-file helper as an argument, or built from a local name that ranges over a constant collection, reported once per
value; a search that cannot fail (`.*`) not reported — with the flags and, for `re.sub`, the replacement; and the
separator arguments of `str.split / rsplit / partition / rpartition / join / replace / strip / splitlines`.  The literal
tests (`"lit" in …`, comparisons with string literals and their subscripts, `str.startswith / endswith / find …`) that
earlier versions of these lists contained are now the INFORMATIONAL definitions `Gen.rx…Info`: no theorem is about
them, so reading a regex group into a local, hoisting a `.split()`, merging branches or renaming a group does not break
an obligation.  Where the text above speaks of such a test as part of a scan set, read: part of `…Info`.
-/
namespace Ccp.RxC19

/-- **regexes_as_modelled** — see the table in the module comment above: every regular expression / separator of the
source for which the model contains a hand-written scanner has the text that scanner was written for.  (The goals
are named `regexes_as_modelled__<definition>`, so that a failing build names the constant that was edited.) -/
theorem regexes_as_modelled :
    Gen.rxIos_IOSIntfLine_is_object_for =
      [("str.split()", "", "")] ∧
    Gen.rxIos_IOSIntfLine_is_intf =
      [] ∧
    Gen.rxIos_IOSIntfLine_is_in_portchannel =
      [(".re_match_iter_typed", "^\\s*channel-group\\s+(\\d+)", "")] ∧
    Gen.rxIos_IOSIntfLine_portchannel_number =
      [(".re_match_iter_typed", "^\\s*channel-group\\s+(\\d+)", "")] ∧
    Gen.rxIos_IOSIntfLine_is_portchannel_intf =
      [("str.join", " ", ""),
       ("str.split()", "", "")] ∧
    Gen.rxIos_IOSIntfLine_name =
      [("str.join", " ", ""),
       ("str.split()", "", "")] ∧
    Gen.rxIos_IOSIntfLine_cisco_interface_object =
      [("str.join", "", ""),
       ("str.split()", "", "")] ∧
    Gen.rxIos_IOSIntfLine_port_type =
      [(".re_match", "^interface\\s+([A-Za-z\\-]+)", "")] ∧
    Gen.rxIos_IOSIntfLine_interface_number =
      [(".re_match", "^interface\\s+[A-Za-z\\-]+\\s*(\\d+.*?)(\\.\\d+)*(\\s\\S+)*\\s*$", "")] ∧
    Gen.rxIos_IOSIntfLine_subinterface_number =
      [(".re_match", "^interface\\s+[A-Za-z\\-]+\\s*(\\d+.*?\\.?\\d?)(\\s\\S+)*\\s*$", "")] ∧
    Gen.rxIos_IOSIntfLine_description =
      [(".re_match_iter_typed", "^\\s*description\\s+(\\S.*)$", "")] ∧
    Gen.rxIos_IOSIntfLine_ipv4_addr =
      [(".re_match_iter_typed", "^\\s+ip\\s+address\\s+(\\d+\\.\\d+\\.\\d+\\.\\d+)\\s+\\d+\\.\\d+\\.\\d+\\.\\d+\\s*$", ""),
       (".re_match_iter_typed", "^\\s+ip\\s+address\\s+(dhcp)\\s*$", ""),
       (".re_match_iter_typed", "^\\s+ip\\s+address\\s+(negotiated)\\s*$", "")] ∧
    Gen.rxIos_IOSIntfLine_ipv4_netmask =
      [(".re_match_iter_typed", "^\\s+ip\\s+address\\s+\\d+\\.\\d+\\.\\d+\\.\\d+\\s+(\\d+\\.\\d+\\.\\d+\\.\\d+)\\s*$", "")] ∧
    Gen.rxIos_IOSIntfLine_ipv4_addr_object =
      [(".re_match_iter_typed", "^\\s+ip\\s+address\\s+(\\S+)\\s+(\\d+\\.\\d+\\.\\d+\\.\\d+)\\s*$", "")] ∧
    Gen.rxIos_IOSIntfLine_ip_secondary_addresses =
      [(".re_match_iter_typed", "^\\s*ip\\s+address\\s+(\\S+\\s+\\S+)\\s+secondary\\s*$", "")] ∧
    Gen.rxIos_IOSIntfLine_ip_secondary_networks =
      [(".re_match_iter_typed", "^\\s*ip\\s+address\\s+(\\S+\\s+\\S+)\\s+secondary\\s*$", "")] ∧
    Gen.rxIos_IOSIntfLine_vrf =
      [(".re_match_iter_typed", "^\\s*(ip\\s+)*vrf\\sforwarding\\s(\\S+)$", "")] ∧
    Gen.rxIos_IOSIntfLine_manual_mtu =
      [(".re_match_iter_typed", "^\\s*mtu\\s+(\\d+)$", "")] ∧
    Gen.rxIos_IOSIntfLine_manual_ip_mtu =
      [(".re_match_iter_typed", "^\\s*ip\\s+mtu\\s+(\\d+)$", "")] ∧
    Gen.rxIos_IOSIntfLine_is_shutdown =
      [(".re_match_iter_typed", "^\\s*(shut\\S*)\\s*$", "")] ∧
    Gen.rxIos_IOSIntfLine_is_switchport =
      [("str.split()", "", "")] ∧
    Gen.rxIos_IOSIntfLine_has_manual_switch_access =
      [("str.split()", "", "")] ∧
    Gen.rxIos_IOSIntfLine_has_manual_switch_trunk =
      [("str.split()", "", "")] ∧
    Gen.rxIos_IOSIntfLine_access_vlan =
      [("str.split()", "", "")] ∧
    Gen.rxIos_IOSIntfLine_native_vlan =
      [("str.split()", "", "")] ∧
    Gen.rxIos_IOSIntfLine_trunk_vlans_allowed =
      [(".re_match_typed", "^\\s+switchport\\s+trunk\\s+allowed\\s+vlan\\s+(all|none|\\d[\\d\\-,\\s]*)$", ""),
       (".re_match_typed", "^\\s+switchport\\s+trunk\\s+allowed\\s+vlan\\s+add\\s+(\\d[\\d\\-,\\s]*)$", ""),
       (".re_match_typed", "^\\s+switchport\\s+trunk\\s+allowed\\s+vlan\\s+except\\s+(\\d[\\d\\-,\\s]*)$", ""),
       (".re_match_typed", "^\\s+switchport\\s+trunk\\s+allowed\\s+vlan\\s+remove\\s+(\\d[\\d\\-,\\s]*)$", ""),
       ("re.search", "^\\d[\\d\\-,\\s]*", ""),
       ("str.split()", "", "")] ∧
    Gen.rxIos_IOSRouteLine_is_object_for =
      [] ∧
    Gen.rxIos_IOSRouteLine_init =
      [("re.search", "^ip\\s+route(?:\\s+(?:vrf\\s+(\\S+)))?\\s+(\\d+\\.\\d+\\.\\d+\\.\\d+)\\s+(\\d+\\.\\d+\\.\\d+\\.\\d+)(?:\\s+([^\\d]\\S+))?(?:\\s+(\\d+\\.\\d+\\.\\d+\\.\\d+))?(?:\\s+(dhcp))?(?:\\s+(global))?(?:\\s+(\\d+))?(?:\\s+(multicast))?(?:\\s+name\\s+(\\S+))?(?:\\s+(permanent))?(?:\\s+track\\s+(\\d+))?(?:\\s+tag\\s+(\\d+))?", "")] ∧
    Gen.rxIntfParse =
      [("re.search", "(\\s+[a-zA-Z\\-]+)$", ""),
       ("re.search", ":(\\d+)", ""),
       ("re.search", "\\.(\\d+)", ""),
       ("re.search", "^([a-zA-Z\\-\\s]*)([\\d:./^\\-^a-z^A-Z^\\s]+)(\\s+[a-zA-Z\\-]+){0,1}$", ""),
       ("re.search", "^([a-zA-Z\\-\\s]*)([\\d:.^\\-^a-z^A-Z^\\s]+)(\\s+[a-zA-Z\\-]+){0,1}$", ""),
       ("re.search", "^(\\d+)([^:^.^\\-^\\s^\\d^a-z^A-Z])?(\\d+)?([^:^.^\\-^\\s^\\d^a-z^A-Z])?(\\d+)?", ""),
       ("re.search", "^\\D*(\\d+)", ""),
       ("re.split", "\\s+", "")] ∧
    Gen.rxRangeIntegers =
      [("str.join", "", ""),
       ("str.split", ",", ""),
       ("str.split", "-", "")] := by
  refine ⟨?regexes_as_modelled__rxIos_IOSIntfLine_is_object_for,
    ?regexes_as_modelled__rxIos_IOSIntfLine_is_intf, ?regexes_as_modelled__rxIos_IOSIntfLine_is_in_portchannel,
    ?regexes_as_modelled__rxIos_IOSIntfLine_portchannel_number,
    ?regexes_as_modelled__rxIos_IOSIntfLine_is_portchannel_intf, ?regexes_as_modelled__rxIos_IOSIntfLine_name,
    ?regexes_as_modelled__rxIos_IOSIntfLine_cisco_interface_object,
    ?regexes_as_modelled__rxIos_IOSIntfLine_port_type,
    ?regexes_as_modelled__rxIos_IOSIntfLine_interface_number,
    ?regexes_as_modelled__rxIos_IOSIntfLine_subinterface_number,
    ?regexes_as_modelled__rxIos_IOSIntfLine_description, ?regexes_as_modelled__rxIos_IOSIntfLine_ipv4_addr,
    ?regexes_as_modelled__rxIos_IOSIntfLine_ipv4_netmask,
    ?regexes_as_modelled__rxIos_IOSIntfLine_ipv4_addr_object,
    ?regexes_as_modelled__rxIos_IOSIntfLine_ip_secondary_addresses,
    ?regexes_as_modelled__rxIos_IOSIntfLine_ip_secondary_networks, ?regexes_as_modelled__rxIos_IOSIntfLine_vrf,
    ?regexes_as_modelled__rxIos_IOSIntfLine_manual_mtu, ?regexes_as_modelled__rxIos_IOSIntfLine_manual_ip_mtu,
    ?regexes_as_modelled__rxIos_IOSIntfLine_is_shutdown, ?regexes_as_modelled__rxIos_IOSIntfLine_is_switchport,
    ?regexes_as_modelled__rxIos_IOSIntfLine_has_manual_switch_access,
    ?regexes_as_modelled__rxIos_IOSIntfLine_has_manual_switch_trunk,
    ?regexes_as_modelled__rxIos_IOSIntfLine_access_vlan, ?regexes_as_modelled__rxIos_IOSIntfLine_native_vlan,
    ?regexes_as_modelled__rxIos_IOSIntfLine_trunk_vlans_allowed,
    ?regexes_as_modelled__rxIos_IOSRouteLine_is_object_for, ?regexes_as_modelled__rxIos_IOSRouteLine_init,
    ?regexes_as_modelled__rxIntfParse, ?regexes_as_modelled__rxRangeIntegers⟩
  all_goals rfl

end Ccp.RxC19
