import Ccp.Gen.Tables
import Ccp.Spec.BlankKeep
import Ccp.Proofs.TreeLossless
import Ccp.Proofs.TreeKeep
/-!
# C01 — parsing an indentation-style config is total and lossless

`parse cfg ls` is the model of `CiscoConfParse(ls, syntax=…, comment_delimiters=…,
ignore_blank_lines=…)` for the four indentation syntaxes (`cfg.ios` distinguishes ios, the
only one with `macro name` handling, from nxos / iosxr / asa, which run the same code).

**Totality** (`parse_total` of the design): `parse : Cfg → List Str → T` is a total Lean
function — it has no error result at all — so "the parse of every line list, for every
syntax, delimiter set and `ignore_blank_lines` setting, returns" holds by construction of the
model; that the *real* parser likewise never raises on the generated inputs is what the
correspondence checks (the model answers `ok` for every request).  The typed-model factory
(which may reject a line) is not part of this model.

Property theorems only; helper lemmas live in `Ccp.Proofs.TreeLossless` and `Ccp.Proofs.TreeKeep`;
the specification of the blank-line filter is `Ccp/Spec/BlankKeep.lean`.
-/
namespace Ccp.C01
open Ccp.Tree Ccp.Py

/-- **Lossless**: with `ignore_blank_lines` off, the texts of the parsed tree are exactly the
input lines, in order — for every syntax and delimiter set, banners and macros (terminated or
not) included. -/
theorem parse_texts (cfg : Cfg) (ls : List Str) (hi : cfg.ignoreBlank = false) :
    (parse cfg ls).texts = ls := by
  rw [parse_eq_bootstrap, bootstrap, bootstrapFuel_noIgnore cfg hi, link_texts_ll]

/-- **One entry per line**: the parent list and the `blank_line_keep` list of the parsed tree
have exactly one entry per text line (every configuration, `ignore_blank_lines` on or off).
Lines are numbered by their position in `texts` (the dump prints position `i` as `linenum`),
so this is the model-level content of "the i-th line carries line number i". -/
theorem parse_sizes (cfg : Cfg) (ls : List Str) :
    (parse cfg ls).parents.length = (parse cfg ls).texts.length ∧
    (parse cfg ls).keep.length = (parse cfg ls).texts.length := by
  rw [parse_eq_bootstrap]; exact bootstrapFuel_wf cfg _ _

/-- the second bootstrap performed by `commit()` changes nothing -/
theorem parse_commit_idempotent (cfg : Cfg) (ls : List Str) : parse cfg ls = bootstrap cfg ls :=
  parse_eq_bootstrap cfg ls

/-- `nonBlank s` = `s.strip() != ""` (blankness through the 29 Python whitespace code points) -/
example (s : Str) : nonBlank s = !(strip s).isEmpty := rfl

/-- **With `ignore_blank_lines`** (and in fact for every configuration): the texts of the
result are a sub-list of the input (nothing added, duplicated, reordered or rewritten), every
non-blank line is kept (the non-blank lines of the result are the non-blank lines of the
input, in order), and the result is a fixed point of the filter: passes 1–3 followed by the
blank-line filter on the result's own texts drop nothing more (`ls.length` rounds of the
restart loop always suffice). -/
theorem parse_texts_ignore_blank (cfg : Cfg) (ls : List Str) :
    (parse cfg ls).texts.Sublist ls ∧
    (parse cfg ls).texts.filter nonBlank = ls.filter nonBlank ∧
    (cfg.ignoreBlank = true → keptTexts (link cfg (parse cfg ls).texts) = (parse cfg ls).texts) := by
  rw [parse_eq_bootstrap]
  exact ⟨bootstrapFuel_sublist cfg _ _, bootstrapFuel_nonBlank cfg _ _, fun hi => bootstrap_fixed cfg hi ls⟩

/-- every dropped line is blank -/
theorem parse_drops_only_blank (cfg : Cfg) (ls : List Str) (s : Str) (hs : s ∈ ls) (hn : nonBlank s = true) :
    s ∈ (parse cfg ls).texts := by
  have h := (parse_texts_ignore_blank cfg ls).2.1
  have : s ∈ ls.filter nonBlank := List.mem_filter.mpr ⟨hs, hn⟩
  rw [← h] at this
  exact (List.mem_filter.mp this).1

/-- **Closed form with `ignore_blank_lines`** (`Ccp/Spec/BlankKeep.lean`): the texts of the
result are the input lines at the positions `j` with `keepSpec cfg ls j`, i.e. line `j` is
non-blank or lies in the stretch protected by a start line at some position `q ≤ j`
(`inBody_spec` below).  `prot cfg x rest` is that stretch, counted from the start line `x`
itself: for a banner start `1 +` the number of following lines before the first one that
contains the delimiter (`0` more if the banner has no recognisable delimiter or the delimiter
occurs twice in the start line); for a `macro name` line under syntax ios `1 +` the number of
following lines up to and including the first `@` line; the larger of the two; `0` if `x`
starts nothing.  Banners and macros terminated or not, nested, overlapping: no hypotheses. -/
theorem parse_texts_eq_keepSpec (cfg : Cfg) (ls : List Str) (hi : cfg.ignoreBlank = true) :
    (parse cfg ls).texts = (ls.zipIdx.filter (fun xj => keepSpec cfg ls xj.2)).map Prod.fst := by
  rw [parse_eq_bootstrap, bootstrap_texts_eq_scan cfg hi, keptScan_eq_filter]

/-- the meaning of `inBody` (and hence of `keepSpec j = nonBlank line j || inBody j`) -/
theorem inBody_spec (cfg : Cfg) (ls : List Str) (j : Nat) (hj : j < ls.length) :
    inBody cfg ls j = true ↔
      ∃ q, q ≤ j ∧ ∃ x, ls[q]? = some x ∧ j - q < prot cfg x (ls.drop (q + 1)) := by
  rw [inBody_iff cfg ls j hj]
  constructor
  · rintro ⟨q, _, h2, h3⟩; exact ⟨q, h2, h3⟩
  · rintro ⟨q, h2, h3⟩; exact ⟨q, Nat.zero_le _, h2, h3⟩

/-- the restart loop of `bootstrap` never needs a second filtering round: the result is what
one run of passes 1–3 and the blank-line filter on the input leaves -/
theorem parse_single_round (cfg : Cfg) (ls : List Str) (hi : cfg.ignoreBlank = true) :
    (parse cfg ls).texts = keptTexts (link cfg ls) := by
  rw [parse_eq_bootstrap, bootstrap_texts_eq_scan cfg hi, keptTexts_link_eq_scan]

/-! ## non-vacuity -/

private def iosIgn : Cfg := { ios := true, delims := ['!'], ignoreBlank := true }
private def iosCfg : Cfg := { ios := true, delims := ['!'], ignoreBlank := false }

/-- a banner with a blank body line, a blank line outside, under `ignore_blank_lines` -/
private def exBanner : List Str :=
  ["banner motd ^".toList, " hello".toList, "".toList, "^".toList, "  ".toList, "end".toList]

example : (parse iosIgn exBanner).texts =
    ["banner motd ^".toList, " hello".toList, "".toList, "^".toList, "end".toList] := by decide
example : (parse iosIgn exBanner).parents = [0, 0, 0, 0, 4] := by decide
example : (List.range 6).map (keepSpec iosIgn exBanner) = [true, true, true, true, false, true] := by decide
example : (List.range 6).map (inBody iosIgn exBanner) = [true, true, true, false, false, false] := by decide
example : (parse iosCfg exBanner).texts = exBanner := by decide
/-- an unterminated macro (the former `IndexError`, F01) parses, losslessly -/
example : (parse iosCfg ["macro name m".toList, " a".toList]).texts = ["macro name m".toList, " a".toList] := by decide
/-- a macro body keeps its blank line, the blank line after `@` goes -/
example : (parse iosIgn ["macro name m".toList, "".toList, "@".toList, "".toList]).texts =
    ["macro name m".toList, "".toList, "@".toList] := by decide
/-- under a non-ios syntax `macro name` protects nothing -/
example : (parse { iosIgn with ios := false } ["macro name m".toList, "".toList, "@".toList, "".toList]).texts =
    ["macro name m".toList, "@".toList] := by decide
/-- an unterminated banner protects everything after it; the blank line before it goes -/
example : (parse iosIgn ["".toList, "banner exec #".toList, "".toList, " ".toList]).texts =
    ["banner exec #".toList, "".toList, " ".toList] := by decide

end Ccp.C01

namespace Ccp.C01
open Ccp.Tree

/-- **constants_as_modelled** — the literals the hand-written banner / macro recognisers of the model hard-wire are
the ones `/repo`'s source contains *now* (`Ccp.Gen.Tables` is regenerated from the source on every run): the banner
keyword set and regex templates of `_build_banner_re_ios`, the delimiter regex of `_banner_mark_regex`, and the
`txt[0:11] == "macro name "` test of `bootstrap`.  Editing any of them in the code breaks this obligation. -/
theorem constants_as_modelled :
    (Gen.bannerKeywords.all (fun k => bannerKeywords.contains k.toList) = true) ∧
    (bannerKeywords.all (fun k => (Gen.bannerKeywords.map String.toList).contains k) = true) ∧
    Gen.bannerStartTemplate = "^(set\\s+)*banner\\s+{}" ∧
    Gen.bannerStartExtra = "aaa authentication fail-message" ∧
    Gen.bannerDelimRegex = "^(?:(?P<btype>(?:set\\s+)*banner\\s\\w+\\s+)(?P<bchar>\\S))" ∧
    Gen.macroStartLiteral = "macro name " ∧
    Gen.macroStartSlice = (0, 11) := by
  decide

end Ccp.C01
