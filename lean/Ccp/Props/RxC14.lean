import Ccp.Gen.Tables
/-!
# RxC14 — the separators the scanner of `Ccp.Model.Range` was written for

`CiscoRange.parse_integers` (ccp_util.py) uses no regular expression; it cuts the text with literal separators.
`Ccp.Gen.Tables` is regenerated from `/repo`'s source on every run (`harness/translate.py` + `harness/rxscan.py`, AST
only); the theorem states that these separators are still the ones `lean/Ccp/Model/Range.lean` hard-wires, and that no
regular expression has been introduced.

| source (ccp_util.py) | scanner in `lean/Ccp/Model/Range.lean` |
|---|---|
| `CiscoRange.__init__`: `",," in text` | `hasDoubleComma` |
| `parse_integers`: `text.split(",")` | `parseParts` (`splitOn ','`) |
| `parse_integers`: `"-" in _csv_part`, `_csv_part.split("-")` | `parsePart` (`splitOn '-'`) |
| `parse_integers`: `"".join(filter(str.isdigit, …))` | the digit filter of `parsePart` |

`rx…` are *scan sets* (`harness/rxscan.py`, `scan_closure`): for the named entry point and every helper of the same
source file it reaches, every regex call (with flags; a compiled pattern's method is reported as the `re.` function
with the pattern's text), literal `str` separator and `"lit" in …` test, as a sorted duplicate-free list of
`(what, text, flags or detail)`.  So a regex call that is added to, or removed from, the modelled code breaks the
obligation as well, while moving a test into a helper method, re-ordering tests, negating one (`!=` is reported as
`==`, `not in` as `in`), hoisting a pattern into a compiled constant or renaming a constant / local variable does not.

**Scan sets as revised.**  The lists below contain only what identifies the regex / separator a scanner was written
for: regex-engine calls (`re.*`, methods of compiled patterns, the `re_*` helpers of the package) with the pattern in
*canonical form* — canonical verbose form and no VERBOSE flag for a pattern compiled with `re.VERBOSE`; group names
removed (`(?P<n>…)` is written `(…)`, `(?P=n)` by number); redundant escapes removed (`\:` is `:`); a pattern handed to a
same-file helper as an argument, or built from a local name that ranges over a constant collection, reported once per
value; a search that cannot fail (`.*`) not reported — with the flags and, for `re.sub`, the replacement; and the
separator arguments of `str.split / rsplit / partition / rpartition / join / replace / strip / splitlines`.  The literal
tests (`"lit" in …`, comparisons with string literals and their subscripts, `str.startswith / endswith / find …`) that
earlier versions of these lists contained are now the INFORMATIONAL definitions `Gen.rx…Info`: no theorem is about
them, so reading a regex group into a local, hoisting a `.split()`, merging branches or renaming a group does not break
an obligation.  Where the text above speaks of such a test as part of a scan set, read: part of `…Info`.
-/
namespace Ccp.RxC14

/-- **regexes_as_modelled** — see the table in the module comment above: every regular expression / separator of the
source for which the model contains a hand-written scanner has the text that scanner was written for.  (The goals
are named `regexes_as_modelled__<definition>`, so that a failing build names the constant that was edited.) -/
theorem regexes_as_modelled :
    Gen.rxRangeIntegers =
      [("str.join", "", ""),
       ("str.split", ",", ""),
       ("str.split", "-", "")] := by
  refine ?regexes_as_modelled__rxRangeIntegers
  all_goals rfl

end Ccp.RxC14
