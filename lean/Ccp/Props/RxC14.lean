import Ccp.Gen.Tables
/-!
# RxC14 — the separators the scanner of `Ccp.Model.Range` was written for

`CiscoRange.parse_integers` (ccp_util.py) uses no regular expression; it cuts the text with literal separators.
`Ccp.Gen.Tables` is regenerated from `/repo`'s source on every run (`harness/translate.py` + `harness/rxscan.py`, AST
only); the theorem states that these separators are still the ones `lean/Ccp/Model/Range.lean` hard-wires, and that no
regular expression has been introduced.

| source (ccp_util.py) | scanner in `lean/Ccp/Model/Range.lean` |
|---|---|
| `CiscoRange.__init__`: `",," in text` | `hasDoubleComma` |
| `parse_integers`: `text.split(",")` | `parseParts` (`splitOn ','`) |
| `parse_integers`: `"-" in _csv_part`, `_csv_part.split("-")` | `parsePart` (`splitOn '-'`) |
| `parse_integers`: `"".join(filter(str.isdigit, …))` | the digit filter of `parsePart` |

`rxScan…` are *scan lists*: every regex call, literal `str` separator and `"lit" in …` test of the function, distinct,
in order of first appearance, as `(callee, text, flags)`.
-/
namespace Ccp.RxC14

/-- **regexes_as_modelled** — see the table in the module comment above: every regular expression / separator of the
source for which the model contains a hand-written scanner has the text that scanner was written for.  (The goals
are named `regexes_as_modelled__<definition>`, so that a failing build names the constant that was edited.) -/
theorem regexes_as_modelled :
    Gen.rxScanRangeInit =
      [("lit in", ",,", "")] ∧
    Gen.rxScanRangeParseIntegers =
      [("str.split", ",", ""),
       ("lit in", "-", ""),
       ("str.split", "-", ""),
       ("str.join", "", "")] := by
  refine ⟨?regexes_as_modelled__rxScanRangeInit, ?regexes_as_modelled__rxScanRangeParseIntegers⟩
  all_goals rfl

end Ccp.RxC14
