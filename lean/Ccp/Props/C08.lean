import Ccp.Proofs.Brace
/-!
# C08 — brace-delimited configs become an indentation tree that mirrors the nesting

Property theorems only.  Specification (`Stmt`, `flatten`, `Layout`, `render`,
well-formedness): `Ccp/Spec/Brace.lean`; model: `Ccp/Model/Brace.lean`; lemmas:
`Ccp/Proofs/Brace.lean`.
-/
namespace Ccp.C08
open Ccp.Brace Ccp.Py

/-- the width `CiscoConfParse(syntax='junos')` indents with is the property's "four spaces"
(table lemma over the generated constant) -/
theorem stop_width_is_four : Gen.junosStopWidth = 4 := by decide

/-- **Round trip.**  For every well-formed statement tree (words: non-empty visible ASCII
without braces; first word of a statement not starting with a quote — F31; last word not
ending in `;`) and every layout whose white space consists of blanks, LF and CR — indentation,
blank lines, trailing blanks, semicolon present or absent per statement, brace on the same or
a later line, one-line blocks, empty blocks, several blocks on a line — whatever way the
rendering is cut into input lines, `CiscoConfParse(lines, syntax='junos')` hands the
bootstrap exactly the preorder flattening, four blanks per enclosing block, closing braces
producing nothing.

Full statement wanted (`brace_roundtrip`): the same with tabs allowed in the white-space
fields of the layout (pyparsing expands them to blanks before parsing).  Missing layout
dimension: tabs.  `#` comment lines are not a layout dimension: `BraceParse` never consults
`comment_delimiters`, a comment line is a statement and yields a line (it is covered here as
a leaf whose first word starts with `#`). -/
theorem brace_roundtrip_partial (L : Layout) (T : List Stmt) (hT : ListOk T) (hL : LayoutOk L)
    (lines : List Str) (hne : lines ≠ []) (hl : join ['\n'] lines = render L T) :
    junosToIos lines = .ok (flatten T) := by
  unfold junosToIos convertJunosToIos
  rw [if_neg hne, hl, stop_width_is_four]
  exact braceText_render L hL T hT

end Ccp.C08
