import Ccp.Model.Brace
namespace Ccp.C08
open Ccp.Brace Ccp.Py

/-- the width `CiscoConfParse(syntax='junos')` indents with is the property's "four spaces" -/
theorem stop_width_is_four : Gen.junosStopWidth = 4 := by decide

end Ccp.C08
