import Ccp.Proofs.BraceTree
import Ccp.Proofs.BraceOpts
import Ccp.Props.C02
import Ccp.Props.C03
/-!
# C08 — brace-delimited configs become an indentation tree that mirrors the nesting

Property theorems only.  Specification (`Stmt`, `flatten`, `treeParents`, `Layout`,
`render`, well-formedness): `Ccp/Spec/Brace.lean`; model: `Ccp/Model/Brace.lean`; lemmas:
`Ccp/Proofs/Brace.lean`.  The last part (options `stop_width`, `semicolon_end`, `ignore_blank_lines`,
the argument checks of the entry points) is about `Ccp/Model/BraceOpts.lean`, lemmas in
`Ccp/Proofs/BraceOpts.lean`.
-/
namespace Ccp.C08
open Ccp.Brace Ccp.Py Ccp.Tree

/-- the width `CiscoConfParse(syntax='junos')` indents with is the property's "four spaces"
(table lemma over the generated constant) -/
theorem stop_width_is_four : Gen.junosStopWidth = 4 := by decide

/-- **Round trip.**  For every well-formed statement tree (words: non-empty visible ASCII
without braces; first word of a statement not starting with a quote — F31; last word not
ending in `;`) and every layout whose white space consists of blanks, tabs, LF and CR —
indentation by blanks or tabs, blank lines, trailing white space, semicolon present or absent
per statement, brace on the same or a later line, one-line blocks, empty blocks, several
blocks on a line — whatever way the rendering is cut into input lines,
`CiscoConfParse(lines, syntax='junos')` hands the bootstrap exactly the preorder flattening,
four blanks per enclosing block, closing braces producing nothing.

Remaining hypotheses, all explicit: `ListOk T` (above) and `LayoutOk L` (layout white space is
white space).  `#` comment lines are not a layout dimension: `BraceParse` never consults
`comment_delimiters`, a comment line is a statement and yields a line (it is covered here as
a leaf whose first word starts with `#`).  A tab *inside* a statement is outside `WordOk`
(pyparsing turns it into blanks inside the token). -/
theorem brace_roundtrip (L : Layout) (T : List Stmt) (hT : ListOk T) (hL : LayoutOk L)
    (lines : List Str) (hne : lines ≠ []) (hl : join ['\n'] lines = render L T) :
    junosToIos lines = .ok (flatten T) := by
  unfold junosToIos convertJunosToIos
  rw [if_neg hne, hl, stop_width_is_four]
  exact braceText_render L hL T hT

/-- **Parents.**  In the flattening of a well-formed tree the nearest preceding line with
strictly smaller indentation (`indentParents`, the indentation-parent rule stated locally)
is, for every line, the statement that opened its innermost enclosing block
(`treeParents`); top-level statements are roots.  Closing braces produce no lines by
construction of `flatten`. -/
theorem flatten_parent (T : List Stmt) (hT : ListOk T) :
    indentParents (flatten T) = treeParents T :=
  indentParents_flatten T hT

/-- **Missing closing brace.**  Deleting any one `}` from the rendering of a well-formed tree
(any layout, tabs included; quote characters inside statements allowed) makes the conversion
raise `ParseException`, however the text is cut into lines.  (Argument: in such a text no
token starts with a quote, before or after the deletion, so `quoted_string` never hides a
brace and the group opened by the wrapper cannot close.) -/
theorem missing_close_errors (L : Layout) (T : List Stmt) (hT : ListOk T) (hL : LayoutOk L)
    (a b : Str) (hab : render L T = a ++ '}' :: b)
    (lines : List Str) (hne : lines ≠ []) (hl : join ['\n'] lines = a ++ b) :
    junosToIos lines = .error .parseException := by
  unfold junosToIos convertJunosToIos
  rw [if_neg hne, hl]
  have hbal : bal 0 (a ++ '}' :: b) = some 0 := by
    have := renderList_bal L hL T [] 0 hT 0 []
    rw [List.append_nil] at this
    rw [← hab]; exact this
  have hsafe : safe false (a ++ '}' :: (b ++ ['}'])) = true := by
    have := renderList_safe L hL T [] 0 hT ['}'] (by decide)
    have e : render L T = renderList L [] 0 T := rfl
    rw [← e, hab] at this
    simpa using this
  have hhead : ∀ x ∈ (a ++ b).head?, x ≠ '{' ∧ x ≠ '}' := by
    have h0 := render_head L hL T hT
    rw [hab] at h0
    cases a with
    | nil => exact absurd rfl (h0 '}' (by simp)).2
    | cons x a' => intro y hy; exact h0 y (by simpa using hy)
  exact braceText_missing_close _ a b hbal hsafe hhead

/-! ### on the shared tree model (C01–C03) -/

/-- the bootstrap options of the model are the tables of `/repo`: `'#'` is the junos comment
delimiter and junos is a brace syntax (no banner / macro pass) -/
theorem junos_tables :
    Gen.syntaxCommentDelimiters.lookup "junos" = some ["#"] ∧ "junos" ∈ Gen.allBraceSyntax ∧
    junosCfg.delims = ['#'] := by decide

/-- **The local parent rule is C02's rule** on configuration lines: for every list of lines
none of which is blank or a comment, pass 1 of the shared bootstrap model — which
`Ccp.C02.linkByIndent_eq_spec` proves equal to `specParent` — gives every line the parent
that `indentParents` (nearest preceding line with strictly smaller indentation) gives it,
a root being its own parent (`selfRoots`). -/
theorem local_rule_is_specParent (cfg : Cfg) (ls : List Str)
    (hcfg : ∀ l ∈ ls, isConfigLine cfg l = true) :
    linkByIndent cfg ls = selfRoots 0 (indentParents ls) ∧
    ∀ i, i < ls.length → (selfRoots 0 (indentParents ls))[i]? = some (specParent (ls.map (info cfg)) i) := by
  have h := linkByIndent_eq_local cfg ls hcfg
  exact ⟨h, fun i hi => h ▸ (Ccp.C02.linkByIndent_eq_spec cfg ls).2 i hi⟩

/-- **Parents, on the shared tree builder.**  For a well-formed statement tree none of whose
statements begins with `#` (`hc`, stated on the converted lines: no line is a comment for the
bootstrap; a `#` line under a deeper line is F32), the parent links that the bootstrap verified
by C01–C03 computes on the converted lines are the tree parents: every statement's parent is the
statement that opened its innermost enclosing block, top-level statements are roots.
Pass 1 (`linkByIndent`) is the whole bootstrap of a brace syntax; the second conjunct says the
same of the full `parse` of the indentation syntaxes when no converted line happens to look
like a banner start. -/
theorem flatten_parent_shared (T : List Stmt) (hT : ListOk T)
    (hc : ∀ l ∈ flatten T, isComment junosCfg l = false) :
    linkByIndent junosCfg (flatten T) = selfRoots 0 (treeParents T) ∧
    ((∀ l ∈ flatten T, isBannerStart l = false) →
      (parse junosCfg (flatten T)).texts = flatten T ∧
      (parse junosCfg (flatten T)).parents = selfRoots 0 (treeParents T)) := by
  have h1 : linkByIndent junosCfg (flatten T) = selfRoots 0 (treeParents T) := by
    rw [linkByIndent_eq_local junosCfg _ (flatten_isConfigLine junosCfg T hT hc), indentParents_flatten T hT]
  refine ⟨h1, fun hb => ?_⟩
  obtain ⟨ht, hp, -⟩ := Ccp.C02.parse_links_eq_spec junosCfg (flatten T) hb (by intro h; cases h) rfl
  exact ⟨ht, by rw [hp, ← linkByIndent_eq_map, h1]⟩

/-- **`junos_forest`** (the item C03 left open): whatever brace-syntax input is accepted, the
resulting tree — converted lines, parent links by pass 1 of the shared bootstrap — is a forest
in the sense of C03 (one parent index per line, no parent after its child), so all of C03's
theorems about children, ancestors and the family views apply to it; its texts are the
converted lines. -/
theorem junos_forest (lines : List Str) (t : T) (h : junosParse lines = .ok t) :
    Ccp.Tree.Forest t ∧ junosToIos lines = .ok t.texts := by
  obtain ⟨out, ho, ht, hinv⟩ := junosParse_inv lines t h
  exact ⟨forest_of_inv hinv, by rw [ht]; exact ho⟩

/-- **The whole parse of a rendered tree**: texts = flattening, parents = tree parents. -/
theorem junos_tree (L : Layout) (T : List Stmt) (hT : ListOk T) (hL : LayoutOk L)
    (hc : ∀ l ∈ flatten T, isComment junosCfg l = false)
    (lines : List Str) (hne : lines ≠ []) (hl : join ['\n'] lines = render L T) :
    junosParse lines = .ok { texts := flatten T, parents := selfRoots 0 (treeParents T),
                             keep := (flatten T).map (fun _ => false) } := by
  unfold junosParse
  rw [brace_roundtrip L T hT hL lines hne hl]
  simp only [(flatten_parent_shared T hT hc).1]

/-! ### non-vacuity -/

/-- `system { host-name r1; ports { console type vt100; } }` `version 11.4R7.5;` `# end` -/
def exT : List Stmt :=
  [.node ["system".toList] [.node ["host-name".toList, "r1".toList] [],
                            .node ["ports".toList] [.node ["console".toList, "type".toList, "vt100".toList] []]],
   .node ["version".toList, "11.4R7.5".toList] [],
   .node ["#".toList, "end".toList] []]

/-- brace of `system` on the next line, `ports` as a one-line block, trailing blanks after
the semicolons, a blank line before `version`, no semicolon after the comment -/
def exL : Layout := fun p =>
  match p with
  | [0] => ⟨[], false, "\n".toList, false, "\n".toList, "\n\n".toList⟩
  | [0, 0] => ⟨"    ".toList, true, "  ".toList, false, [], []⟩
  | [0, 1] => ⟨"  ".toList, false, " ".toList, false, " ".toList, []⟩
  | [0, 1, 0] => ⟨" ".toList, true, " ".toList, false, [], []⟩
  | [2] => ⟨"\r\n".toList, false, [], false, [], []⟩
  | _ => ⟨[], true, [], false, [], []⟩

example : String.ofList (render exL exT) =
    "system\n{    host-name r1;  \n  ports { console type vt100;  }\n}\n\nversion 11.4R7.5;\n\r\n# end" := by
  decide +kernel

def errOf {α : Type} : Except Err α → Option Err
  | .error e => some e
  | .ok _ => none

example : (junosToIos (splitOn '\n' (render exL exT))).toOption =
    some (["system", "    host-name r1", "    ports", "        console type vt100", "version 11.4R7.5", "# end"].map
      String.toList) := by
  decide +kernel

example : flatten exT = ["system", "    host-name r1", "    ports", "        console type vt100",
    "version 11.4R7.5", "# end"].map String.toList := by decide +kernel

example : treeParents exT = [none, some 0, some 0, some 2, none, none] := by decide +kernel

example : indentParents (flatten exT) = [none, some 0, some 0, some 2, none, none] := by decide +kernel

example : ListOk exT := by
  simp [exT, ListOk, StmtOk, WordsOk, WordOk, isPrintable]

example : LayoutOk exL := by
  intro p
  unfold exL
  split <;> (refine ⟨?_, ?_, ?_, ?_⟩ <;> (unfold AllWs; decide +kernel))

/-- the same text with the brace that closes `ports` deleted is rejected -/
example : errOf (junosToIos (splitOn '\n'
    "system\n{    host-name r1;  \n  ports { console type vt100;  \n}\n\nversion 11.4R7.5;\n\r\n# end".toList))
    = some .parseException := by
  decide +kernel

/-- the shared bootstrap on the converted lines of the example (the `#` line is a root) -/
example : linkByIndent junosCfg (flatten exT) = [0, 0, 0, 2, 4, 5] := by decide +kernel

example : selfRoots 0 (treeParents exT) = [0, 0, 0, 2, 4, 5] := by decide +kernel

/-- the hypothesis `hc` of `flatten_parent_shared` holds for the example without its comment -/
example : ∀ l ∈ flatten (exT.take 2), isComment junosCfg l = false := by decide +kernel

example : (junosParse (splitOn '\n' (render exL exT))).toOption.map (·.parents) = some [0, 0, 0, 2, 4, 5] := by
  decide +kernel

/-! tabs in the layout, a quoted string inside a statement -/

def exT2 : List Stmt :=
  [.node ["interfaces".toList] [.node ["description".toList, "\"up".toList, "link\"".toList] [],
                               .node ["unit".toList, "0".toList] []]]

def exL2 : Layout := fun p =>
  match p with
  | [0] => ⟨[], false, "\t".toList, false, "\n".toList, []⟩
  | [0, 0] => ⟨"\n\t".toList, true, " \t ".toList, false, [], []⟩
  | _ => ⟨"\t\t".toList, true, [], true, "\t".toList, "\t".toList⟩

example : String.ofList (render exL2 exT2) =
    "interfaces\t{\n\tdescription \"up link\"; \t \n\t\tunit 0;{\t}\t\n}" := by decide +kernel

example : (junosToIos (splitOn '\n' (render exL2 exT2))).toOption =
    some (["interfaces", "    description \"up link\"", "    unit 0"].map String.toList) := by decide +kernel

example : ListOk exT2 := by
  simp [exT2, ListOk, StmtOk, WordsOk, WordOk, isPrintable]

example : LayoutOk exL2 := by
  intro p
  unfold exL2
  split <;> (refine ⟨?_, ?_, ?_, ?_⟩ <;> (unfold AllWs; decide +kernel))

/-- the last brace deleted: rejected, quotes and tabs notwithstanding -/
example : errOf (junosToIos (splitOn '\n'
    "interfaces\t{\n\tdescription \"up link\"; \t \n\t\tunit 0;{\t}\t\n".toList))
    = some .parseException := by
  decide +kernel

/-! ## options and argument checks around the conversion (`Ccp.Model.BraceOpts`)

`BraceParse(config_txt, comment_delimiters, stop_width, semicolon_end)` called directly,
`convert_junos_to_ios(input_list, stop_width, comment_delimiters, …)` with its ladder of argument
checks, `CiscoConfParse.handle_ccp_brace_syntax`, and `CiscoConfParse(lines, syntax='junos',
factory=…, ignore_blank_lines=…)`. -/

/-- the model with options is the model above at the default option values -/
theorem options_default (lines : List Str) (txt : Str) (w : Int) :
    braceTextS false w txt = braceText (stopOf w) txt ∧
    handleBrace .junos (.list lines) = liftE (junosToIos lines) ∧
    junosParseWith false (.list lines) = liftE (junosParse lines) := by
  have h2 : handleBrace .junos (.list lines) = liftE (junosToIos lines) := by
    simp only [handleBrace, convertArgs, junosToIos, convertJunosToIos, Option.getD]
    cases lines with
    | nil => rfl
    | cons l ls =>
      have hd : ([['#']] : List Str).contains ['{'] = false ∧ ([['#']] : List Str).contains ['}'] = false := by decide
      simp only [List.isEmpty_cons, hd.1, hd.2, Bool.or_false, Bool.false_eq_true, if_false, Bool.not_true,
        reduceCtorEq]
      rw [braceTextS_false]
      rfl
  refine ⟨braceTextS_false w txt, h2, ?_⟩
  unfold junosParseWith junosParse
  rw [h2]
  cases junosToIos lines with
  | error e => rfl
  | ok out => rfl

/-- `convert_junos_to_ios` once its arguments have the right types -/
theorem convertArgs_typed (ls : List Str) (w : Int) (d : Option (List Str)) :
    convertArgs { input := .list ls, stopWidth := some w, delims := some d, debugIsInt := true }
      = if (ls.isEmpty || (d.getD []).contains ['{'] || (d.getD []).contains ['}']) = true
        then .error (.base .valueError) else liftE (braceTextS false w (join ['\n'] ls)) := rfl

/-- **Round trip for every indentation width.**  `stop_width = w` (any `int`; a negative one counts
as 0): a well-formed tree in any layout converts to its preorder flattening with `w` blanks per
enclosing block (`flattenW w`; `flattenW 4 = flatten`) — through `BraceParse(...)` called directly,
whatever `comment_delimiters` is (it is never consulted), and through `convert_junos_to_ios` with
any list of comment delimiters that holds no brace. -/
theorem brace_roundtrip_any_width (w : Int) (L : Layout) (T : List Stmt) (hT : ListOk T) (hL : LayoutOk L)
    (lines : List Str) (hne : lines ≠ []) (hl : join ['\n'] lines = render L T)
    (ds : Option (List Str)) (dc : Option (List Str))
    (hdc : (dc.getD []).contains ['{'] = false ∧ (dc.getD []).contains ['}'] = false) :
    braceParseArgs { txt := some (render L T), delims := ds, stopWidth := w, semiEnd := false }
      = .ok (flattenW (stopOf w) T) ∧
    convertArgs { input := .list lines, stopWidth := some w, delims := some dc, debugIsInt := true }
      = .ok (flattenW (stopOf w) T) ∧
    flattenW 4 T = flatten T := by
  have hb : braceTextS false w (render L T) = .ok (flattenW (stopOf w) T) := by
    rw [braceTextS_false]; exact braceText_render_width _ L hL T hT
  refine ⟨?_, ?_, flattenW_four T⟩
  · simp [braceParseArgs, hb, liftE]
  · have hemp : lines.isEmpty = false := by cases lines <;> simp_all
    rw [convertArgs_typed, hemp, hdc.1, hdc.2, hl, hb]
    rfl

/-- **`semicolon_end`** — proved part: with `semicolon_end=True` the text of a statement is the
stripped token, its semicolon included; with `False` it is the `cleanTok` of the theorems above.
FULL STATEMENT, not proved (measured on every run by the correspondence and by the oracle, stream
`opts`): `braceTextS true w (render L T)` is the flattening in which a statement keeps its `;`
exactly when the layout wrote one. -/
theorem semicolon_end_partial (t : Str) :
    cleanTokS true t = strip t ∧ cleanTokS false t = cleanTok t := by
  refine ⟨?_, cleanTokS_false t⟩
  simp only [cleanTokS, Bool.not_true, Bool.false_and, Bool.false_eq_true, if_false]
  unfold strip
  have h1 : ∀ c, (rstrip (lstrip t)).head? = some c → isSpace c = false := strip_head_nonspace t
  rw [lstrip_of_head _ h1]
  unfold rstrip
  have idem : ∀ l : Str, (l.dropWhile isSpace).dropWhile isSpace = l.dropWhile isSpace := by
    intro l
    induction l with
    | nil => rfl
    | cons a as ih =>
      by_cases ha : isSpace a = true
      · simp only [List.dropWhile_cons, ha, if_true]; exact ih
      · simp [ha]
  rw [List.reverse_reverse, idem]

/-- **The argument checks of `convert_junos_to_ios`**, in the order of the code: an `input_list` that
is not a `list` (a tuple too), a `stop_width` that is not an `int`, `comment_delimiters` that is not a
list, a `debug` that is not an `int` — each `InvalidParameters`, the first one that applies; then an
empty list or a brace among the comment delimiters — `ValueError`; only then the text is parsed. -/
theorem convert_argument_checks (ls : List Str) (sw : Option Int) (dl : Option (Option (List Str))) (dbg : Bool)
    (w : Int) (d : Option (List Str)) :
    convertArgs { input := .tuple ls, stopWidth := sw, delims := dl, debugIsInt := dbg } = .error .invalidParameters ∧
    convertArgs { input := .other, stopWidth := sw, delims := dl, debugIsInt := dbg } = .error .invalidParameters ∧
    convertArgs { input := .list ls, stopWidth := none, delims := dl, debugIsInt := dbg } = .error .invalidParameters ∧
    convertArgs { input := .list ls, stopWidth := some w, delims := none, debugIsInt := dbg } = .error .invalidParameters ∧
    convertArgs { input := .list ls, stopWidth := some w, delims := some d, debugIsInt := false } = .error .invalidParameters ∧
    (ls = [] ∨ (d.getD []).contains ['{'] = true ∨ (d.getD []).contains ['}'] = true →
      convertArgs { input := .list ls, stopWidth := some w, delims := some d, debugIsInt := true }
        = .error (.base .valueError)) ∧
    (ls ≠ [] → (d.getD []).contains ['{'] = false → (d.getD []).contains ['}'] = false →
      convertArgs { input := .list ls, stopWidth := some w, delims := some d, debugIsInt := true }
        = liftE (braceTextS false w (join ['\n'] ls))) := by
  refine ⟨rfl, rfl, rfl, rfl, rfl, ?_, ?_⟩
  · intro h
    rw [convertArgs_typed]
    have : (ls.isEmpty || (d.getD []).contains ['{'] || (d.getD []).contains ['}']) = true := by
      rcases h with h | h | h
      · subst h; rfl
      · rw [h]; simp
      · rw [h]; simp
    rw [if_pos this]
  · intro h1 h2 h3
    have hemp : ls.isEmpty = false := by cases ls <;> simp_all
    rw [convertArgs_typed, hemp, h2, h3]
    rfl

/-- a `config_txt` that is not a `str` is refused by `BraceParse` (`NotImplementedError`) -/
theorem braceParse_rejects_non_text (ds : Option (List Str)) (w : Int) (se : Bool) :
    braceParseArgs { txt := none, delims := ds, stopWidth := w, semiEnd := se } = .error .notImplemented := rfl

/-- **`handle_ccp_brace_syntax(tmp_lines, syntax)`**: a syntax that is not valid and a `tmp_lines`
that is neither list nor tuple are refused (`InvalidParameters`, the syntax first); for the
indentation syntaxes the lines pass through unchanged, list or tuple; for junos a list is
converted (`convert_junos_to_ios(lines, comment_delimiters=['#'])`, four blanks per level) and so is a
tuple, with the same result.  (Before the repair `fix: CiscoConfParse accepts a tuple of lines with syntax='junos'`
the tuple -- which this method lets through -- was refused by the converter with `InvalidParameters`: finding
FC08a; `convert_junos_to_ios` called directly still insists on a `list`, `convert_argument_checks`.) -/
theorem handleBrace_spec (ls : List Str) (tmp : Lines) (syn : Syn) :
    handleBrace .invalid tmp = .error .invalidParameters ∧
    handleBrace syn .other = .error .invalidParameters ∧
    handleBrace .indented (.list ls) = .ok ls ∧ handleBrace .indented (.tuple ls) = .ok ls ∧
    handleBrace .junos (.list ls) = liftE (junosToIos ls) ∧
    handleBrace .junos (.tuple ls) = liftE (junosToIos ls) := by
  refine ⟨rfl, ?_, rfl, rfl, (options_default ls [] 0).2.1, (options_default ls [] 0).2.1⟩
  cases syn <;> rfl

/-- **`ignore_blank_lines` and the factory.**  `junosParseWith ig` is the parse for
`ignore_blank_lines = ig` (the factory only chooses the class of the line objects and has no
parameter in the model).  Whatever is accepted: the texts are the converted lines, minus the blank
ones when `ig` (a statement that is a lone `;` converts to a blank line), and the tree is a C03
forest.  A tuple of lines is parsed like the list of the same lines (`junos_tuple_is_list`). -/
theorem junos_options (ig : Bool) (lines : List Str) (t : T) (h : junosParseWith ig (.list lines) = .ok t) :
    ∃ out, junosToIos lines = .ok out ∧
      t.texts = (if ig then out.filter (fun l => !(strip l).isEmpty) else out) ∧
      t.parents = linkByIndent junosCfg t.texts ∧ Ccp.Tree.Forest t := by
  unfold junosParseWith at h
  rw [(options_default lines [] 0).2.1] at h
  cases ho : junosToIos lines with
  | error e => rw [ho] at h; cases h
  | ok out =>
    rw [ho] at h
    simp only [liftE, Except.ok.injEq] at h
    subst h
    exact ⟨out, rfl, rfl, rfl, forest_of_inv ⟨rfl, linkByIndent_length _ _, linkByIndent_below _ _⟩⟩

/-- **A tuple of lines is a config like the list of the same lines**: `CiscoConfParse(tuple_of_lines, syntax='junos',
…)` is the parse of `list(tuple_of_lines)` for every option setting -- same refusals, same texts, same tree -- so
`junos_options` and `junos_tree_any_options` hold for it verbatim.  (Before the repair of finding FC08a this was
`junos_tuple_refused`: every tuple was refused with `InvalidParameters`.) -/
theorem junos_tuple_is_list (ig : Bool) (ls : List Str) :
    junosParseWith ig (.tuple ls) = junosParseWith ig (.list ls) := rfl

/-- **The whole parse of a rendered tree does not depend on `ignore_blank_lines`**: a well-formed
statement never converts to a blank line, so both settings give texts = flattening, parents = tree
parents (`junos_tree`). -/
theorem junos_tree_any_options (ig : Bool) (L : Layout) (T : List Stmt) (hT : ListOk T) (hL : LayoutOk L)
    (hc : ∀ l ∈ flatten T, isComment junosCfg l = false)
    (lines : List Str) (hne : lines ≠ []) (hl : join ['\n'] lines = render L T) :
    junosParseWith ig (.list lines) = .ok { texts := flatten T, parents := selfRoots 0 (treeParents T),
                                            keep := (flatten T).map (fun _ => false) } := by
  unfold junosParseWith
  rw [(options_default lines [] 0).2.1, brace_roundtrip L T hT hL lines hne hl]
  have hf : (flatten T).filter (fun l => !(strip l).isEmpty) = flatten T :=
    List.filter_eq_self.mpr (fun l hl => by simp [flattenList_nonblank T 0 hT l hl])
  cases ig <;> simp only [liftE, if_true, if_false, Bool.false_eq_true, hf, (flatten_parent_shared T hT hc).1]

/-- `junos_tree_any_options` for the tuple form: the whole parse of a rendered tree handed over as a tuple of lines
is the statement tree, under either `ignore_blank_lines` setting. -/
theorem junos_tree_tuple (ig : Bool) (L : Layout) (T : List Stmt) (hT : ListOk T) (hL : LayoutOk L)
    (hc : ∀ l ∈ flatten T, isComment junosCfg l = false)
    (lines : List Str) (hne : lines ≠ []) (hl : join ['\n'] lines = render L T) :
    junosParseWith ig (.tuple lines) = .ok { texts := flatten T, parents := selfRoots 0 (treeParents T),
                                             keep := (flatten T).map (fun _ => false) } :=
  junos_tree_any_options ig L T hT hL hc lines hne hl

/-! ### non-vacuity of this part -/

/-- the example tree with two blanks per level, and with none for a negative width -/
example : (braceParseArgs { txt := some (render exL exT), delims := none, stopWidth := 2, semiEnd := false }).toOption =
    some (["system", "  host-name r1", "  ports", "    console type vt100", "version 11.4R7.5", "# end"].map
      String.toList) := by decide +kernel
example : flattenW 2 exT = ["system", "  host-name r1", "  ports", "    console type vt100", "version 11.4R7.5",
    "# end"].map String.toList := by decide +kernel
example : stopOf (-3) = 0 ∧ flattenW 0 exT = ["system", "host-name r1", "ports", "console type vt100",
    "version 11.4R7.5", "# end"].map String.toList := by decide +kernel
/-- `semicolon_end=True` keeps the semicolons the layout wrote (the statement of the full theorem,
on the example) -/
example : (braceParseArgs { txt := some (render exL exT), delims := some [['#']], stopWidth := 4, semiEnd := true }).toOption =
    some (["system", "    host-name r1;", "    ports", "        console type vt100;", "version 11.4R7.5;", "# end"].map
      String.toList) := by decide +kernel
/-- the argument ladder: a tuple is refused before a bad width is looked at; a brace among the
comment delimiters is a `ValueError` -/
example : convertArgs { input := .tuple ["a;".toList], stopWidth := none, delims := none, debugIsInt := false }
      = .error .invalidParameters ∧
    convertArgs { input := .list ["a;".toList], stopWidth := some 4, delims := some (some [['{']]), debugIsInt := true }
      = .error (.base .valueError) ∧
    (convertArgs { input := .list ["a;".toList], stopWidth := some 4, delims := some none, debugIsInt := true }).toOption
      = some ["a".toList] := ⟨rfl, rfl, by decide +kernel⟩
/-- a lone `;` converts to a blank line, which `ignore_blank_lines` drops -/
example : ((junosParseWith false (.list ["a {".toList, ";".toList, "b;".toList, "}".toList])).toOption.map (·.texts))
      = some ["a".toList, "    ".toList, "    b".toList] ∧
    ((junosParseWith true (.list ["a {".toList, ";".toList, "b;".toList, "}".toList])).toOption.map (·.texts))
      = some ["a".toList, "    b".toList] ∧
    ((junosParseWith true (.list ["a {".toList, ";".toList, "b;".toList, "}".toList])).toOption.map (·.parents))
      = some [0, 0] := by decide +kernel
example : (junosParseWith true (.list (splitOn '\n' (render exL exT)))).toOption.map (·.parents) = some [0, 0, 0, 2, 4, 5] := by
  decide +kernel
/-- the tuple form of the same lines gives the same tree (it was refused before the repair of FC08a) -/
example : (junosParseWith true (.tuple (splitOn '\n' (render exL exT)))).toOption.map (·.parents) = some [0, 0, 0, 2, 4, 5] ∧
    ((junosParseWith false (.tuple ["a {".toList, "b;".toList, "}".toList])).toOption.map (·.texts))
      = some ["a".toList, "    b".toList] := by
  decide +kernel

end Ccp.C08
