import Ccp.Gen.Tables
/-!
# RxC04 — the regex templates behind the flag readings of the C04 correspondence

The regular expression is *data* in `Ccp.Model.Search` (every request carries, per regex, the row of `re.search`
answers), so the model has no scanner for a fixed pattern.  The correspondence harness (`harness/props/c04.py`,
TRUSTED entry "flag readings used for the oracle rows") hard-wires how the three flags rewrite the caller's regex:
`exactmatch` = `^(?:…)$` around it, `ignore_ws` = every white-space run becomes `\s+`, `escape_chars` = `re.escape`
with the blanks un-escaped.  `Ccp.Gen.Tables` is regenerated from `/repo`'s source on every run
(`harness/translate.py` + `harness/rxscan.py`, AST only); the theorem states that the templates of the source are the
ones this reading was written for.

| source (ciscoconfparse2.py) | reading |
|---|---|
| `build_space_tolerant_regex`: `re.sub(r"\s+", escaped_space, linespec)` with `escaped_space = (backslash + backslash + "s+").translate(encoding)`, `backslash = "\x5c"` | `ignore_ws`: white-space runs of the pattern become the two-backslash text `\\s+` (the replacement template of `re.sub`, i.e. `\s+` in the result) |
| `escape_linespec`: `re.sub(r"\\(\s)", r"\1", re.escape(linespec))` | `escape_chars`: literal text, blanks left alone |
| `CiscoConfParse._find_line_OBJ`: `re.compile(linespec)` / `re.compile("^(?:%s)$" % linespec)` for a `str`, `re.compile("^(?:%s)$" % linespec.pattern, linespec.flags)` for a compiled `re.Pattern` (the third entry of the scan set, flags `<dynamic>`; added by `fix: find_objects(compiled pattern, exactmatch=True) anchors the expression text, not the repr of the Pattern`, finding FC04e), then `.search` | `exactmatch` = `fullmatch` on a line without line breaks, under the flags of a compiled expression |

`<dynamic>` marks a pattern that is not a constant of the source (the caller's regex); `%-template` marks the constant
frame of a `"…" % x` expression.  `rx…` are *scan sets* (`harness/rxscan.py`, `scan_closure`): for the named entry point and every helper of the same
source file it reaches, every regex call (with flags; a compiled pattern's method is reported as the `re.` function
with the pattern's text), literal `str` separator, as a sorted duplicate-free list of
`(what, text, flags or detail)`.  So a regex call that is added to, or removed from, the modelled code breaks the
obligation as well, while moving a test into a helper method, re-ordering tests, negating one (`!=` is reported as
`==`, `not in` as `in`), hoisting a pattern into a compiled constant or renaming a constant / local variable does not.

**Scan sets as revised.**  The lists below contain only what identifies the regex / separator a scanner was written
for: regex-engine calls (`re.*`, methods of compiled patterns, the `re_*` helpers of the package) with the pattern in
*canonical form* — canonical verbose form and no VERBOSE flag for a pattern compiled with `re.VERBOSE`; group names
removed (`(?P<n>…)` is written `(…)`, `(?P=n)` by number); redundant escapes removed (`\:` is `:`); a pattern handed to a
same-file helper as an argument, or built from a local name that ranges over a constant collection, reported once per
value; a search that cannot fail (`.*`) not reported — with the flags and, for `re.sub`, the replacement; and the
separator arguments of `str.split / rsplit / partition / rpartition / join / replace / strip / splitlines`.  The literal
tests (`"lit" in …`, comparisons with string literals and their subscripts, `str.startswith / endswith / find …`) that
earlier versions of these lists contained are now the INFORMATIONAL definitions `Gen.rx…Info`: no theorem is about
them, so reading a regex group into a local, hoisting a `.split()`, merging branches or renaming a group does not break
an obligation.  Where the text above speaks of such a test as part of a scan set, read: part of `…Info`.
-/
namespace Ccp.RxC04

/-- **regexes_as_modelled** — see the table in the module comment above: every regular expression / separator of the
source for which the model contains a hand-written scanner has the text that scanner was written for.  (The goals
are named `regexes_as_modelled__<definition>`, so that a failing build names the constant that was edited.) -/
theorem regexes_as_modelled :
    Gen.rxSpaceTolerant =
      [("re.sub", "\\s+", "repl=\\\\s+ via str.translate")] ∧
    Gen.rxEscapeLinespec =
      [("re.sub", "\\\\(\\s)", "repl=\\1")] ∧
    Gen.rxFindLineObj =
      [("re.compile", "<dynamic>", ""),
       ("re.compile", "^(?:%s)$", "%-template"),
       ("re.compile", "^(?:%s)$", "%-template <dynamic>"),
       ("re.search", "<dynamic>", "")] := by
  refine ⟨?regexes_as_modelled__rxSpaceTolerant, ?regexes_as_modelled__rxEscapeLinespec,
    ?regexes_as_modelled__rxFindLineObj⟩
  all_goals rfl

end Ccp.RxC04
