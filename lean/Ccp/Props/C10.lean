import Ccp.Proofs.Diff
/-!
# C10 — the diff transforms the old config into the new one; the rollback is its mirror

Property theorems only; helper lemmas live in `Ccp.Proofs.Diff`, the model and the short
specification vocabulary (`paths`, `isRem`, `target`, `applyCmd`, `apply`, `Distinct`, `Plain`)
in `Ccp.Model.Diff`.

**Partial**: the theorems cover the *plain fragment* of hier_config — no line starts with the
negation prefix `no ` (`Plain`), siblings have different texts (`Distinct`; the loader guarantees
it, `loaded_distinct`), and none of hier_config's per-OS rewriting rules applies (that part of
the fragment is not visible in the model: the model simply has no such rules; the harness
derives the exclusion list from the installed library).

A configuration denotes the set `paths cfg` of its hierarchical lines (a line with the texts of
its ancestors).  The commands of a diff are the hierarchical lines of the delta tree,
`paths (diff old new)`, in output order; `render` prints exactly these, one per line, two
blanks per ancestor.
-/
namespace Ccp.C10
open Ccp.Diff Ccp.Py

/-- **Transformation.** Applying the commands of the diff, in order, to the hierarchical lines
of the old configuration yields exactly the hierarchical lines of the new one. -/
theorem apply_diff (old new : Forest) (dO : Distinct old) (dN : Distinct new)
    (pO : Plain old) (pN : Plain new) (p : Path) :
    p ∈ apply (paths (diff old new)) (paths old) ↔ p ∈ paths new :=
  apply_diff_mem dO dN pO pN p

/-- **Additions are necessary.** A command that is not a removal is a line of the new
configuration, and if the old configuration already has that line then the command is only the
section header of a deeper command of the same diff. -/
theorem adds_absent (old new : Forest) (dO : Distinct old) (pO : Plain old)
    (c : Path) (hc : c ∈ paths (diff old new)) (hr : isRem c = false) :
    c ∈ paths new ∧ (c ∈ paths old → ∃ x, c ++ [x] ∈ paths (diff old new)) :=
  ⟨add_in_target pO hc hr, add_absent_or_header dO pO hc hr⟩

/-- **Removals are necessary and exact.** A removal names a line that the old configuration
has and the new one lacks; and every line of the old configuration that the new one lacks is
that line or lies below it, for some removal of the diff. -/
theorem removes_present_and_gone (old new : Forest) (dO : Distinct old) (dN : Distinct new)
    (pO : Plain old) (pN : Plain new) :
    (∀ c ∈ paths (diff old new), isRem c = true → target c ∈ paths old ∧ target c ∉ paths new) ∧
    (∀ p ∈ paths old, p ∉ paths new →
      ∃ c ∈ paths (diff old new), isRem c = true ∧ target c <+: p) :=
  ⟨fun _ hc hr => rem_spec dO dN pO pN hc hr,
   fun _ hp hn => by
     obtain ⟨c, h1, h2, h3⟩ := gone_removed dO pO hp hn
     exact ⟨c, h1, h2, h3⟩⟩

/-- **Self.** The diff (and the rollback) of a configuration with itself is empty. -/
theorem diff_self_nil (cfg : Forest) (d : Distinct cfg) :
    getDiff (cfg, cfg) = [] ∧ getRollback (cfg, cfg) = [] := by
  simp [getDiff, getRollback, diff_self d, render, renderF]

/-- **Mirror.** The rollback from old to new is the diff from new to old. -/
theorem rollback_mirror (old new : Forest) : getRollback (old, new) = getDiff (new, old) := rfl

/-- Every loaded configuration has pairwise different siblings, so the `Distinct` hypotheses
above hold for whatever text `Diff()` is given. -/
theorem loaded_distinct (text : Str) : Distinct (loadTree text) := loadTree_distinct text

/-- **Input forms.** A list and a tuple of lines, the lines joined by the line separator as one
string (provided that string is not the name of an existing file), a path `p` (one line) of a
file holding that text, all denote the same pair of configurations; an absent side (`None`)
is the empty list / tuple / string. -/
theorem forms_agree (fs : Str → Option Str) (l : List Str) (p : Str) (side : Input) (syn : Str)
    (hnofile : fs (join linesep l) = none)
    (hfile : fs p = some (join linesep l)) (hp : (splitlines p).length = 1) :
    let viaList := init fs (.list l) side syn
    init fs (.tuple l) side syn = viaList ∧
    init fs (.str (join linesep l)) side syn = viaList ∧
    init fs (.str p) side syn = viaList ∧
    init fs side (.tuple l) syn = init fs side (.list l) syn ∧
    init fs side (.str (join linesep l)) syn = init fs side (.list l) syn ∧
    init fs side (.str p) syn = init fs side (.list l) syn ∧
    init fs .none side syn = init fs (.list []) side syn ∧
    init fs side .none syn = init fs side (.list []) syn := by
  have h1 : normalise fs (.str (join linesep l)) = normalise fs (.list l) := by
    simp only [normalise, hnofile]; split <;> rfl
  have h2 : normalise fs (.str p) = normalise fs (.list l) := by
    simp only [normalise, hp, if_true, hfile]
  have h3 : normalise fs (.tuple l) = normalise fs (.list l) := rfl
  have h4 : normalise fs .none = normalise fs (.list []) := rfl
  simp only [init, h1, h2, h3, h4, and_self]

/-- **The printed diff is its command list.** `render` prints one command per line, two blanks
per ancestor; reading those lines back with the loader's own indentation rule recovers exactly
`paths delta`, in order.  So the `paths (diff old new)` of the theorems above are the commands a
reader of `get_diff()` sees.  (Hypothesis: the texts are ones the loader stores.) -/
theorem printed_commands (delta : Forest) (hN : ∀ p ∈ paths delta, ∀ t ∈ p, NormalText t) :
    linePaths [] ((render delta).filterMap normLine) = paths delta :=
  linePaths_render delta hN

/-! ### non-vacuity: concrete configurations meeting the hypotheses -/

private def oldText : Str :=
  "host R1\nint Gi1\n mtu 1500\n speed  10\nrouter ospf 1\n net 10.0.0.0\n  cost 5\nline vty 0\n".toList
private def newText : Str :=
  "host R1\r\nint Gi1\r\n    mtu 9000\r\n    speed 10\r\nline vty 0\r\n  login\r\nint Gi1\r\n    bw 10".toList

-- what the real `Diff(oldText, newText).get_diff()` / `.get_rollback()` print
example : getDiff (loadTree oldText, loadTree newText) =
    ["no router ospf 1", "int Gi1", "  no mtu 1500", "  mtu 9000", "  bw 10", "line vty 0",
     "  login"].map String.toList := by decide +kernel

example : getRollback (loadTree oldText, loadTree newText) =
    ["int Gi1", "  no mtu 9000", "  no bw 10", "  mtu 1500", "router ospf 1", "  net 10.0.0.0",
     "    cost 5", "line vty 0", "  no login"].map String.toList := by decide +kernel

-- the hypotheses of `apply_diff` hold for these two (the repeated `int Gi1` section was merged,
-- `speed  10` and `speed 10` are the same line)
example : Plain (loadTree oldText) ∧ Plain (loadTree newText) := by
  constructor <;> (unfold Plain; decide +kernel)

-- a removal whose target is a whole section; an addition below a shared header
example : (["router ospf 1".toList, "net 10.0.0.0".toList] : Path) ∈ paths (loadTree oldText) ∧
    isRem ["no router ospf 1".toList] = true ∧
    target ["no router ospf 1".toList] = ["router ospf 1".toList] ∧
    (["int Gi1".toList, "mtu 9000".toList] : Path) ∈ paths (diff (loadTree oldText) (loadTree newText)) := by
  decide +kernel

-- `apply` on a small instance: `no b` removes `b` and the line below it (not `bb`), the other
-- commands add their line (a line added twice is still one member of the set)
example : apply ([["no b"], ["a"], ["a", "c"]].map (·.map String.toList))
      ([["a"], ["b"], ["b", "x"], ["bb"]].map (·.map String.toList)) =
    [["a"], ["bb"], ["a"], ["a", "c"]].map (·.map String.toList) := by decide +kernel

-- the texts of the example delta are normal (hypothesis of `printed_commands`)
example : ∀ p ∈ paths (diff (loadTree oldText) (loadTree newText)), ∀ t ∈ p, NormalText t := by
  unfold NormalText; decide +kernel

-- the diff of a non-empty configuration with itself
example : getDiff (loadTree oldText, loadTree oldText) = [] := by decide +kernel

-- forms: the hypotheses of `forms_agree` are satisfiable (a file system holding one file)
example : ∃ (fs : Str → Option Str) (l : List Str) (p : Str),
    fs (join linesep l) = none ∧ fs p = some (join linesep l) ∧ (splitlines p).length = 1 ∧ l.length = 2 :=
  ⟨fun q => if q = "/tmp/a.cfg".toList then some "a\n b".toList else none,
   ["a".toList, " b".toList], "/tmp/a.cfg".toList, by decide +kernel, by decide +kernel, by decide +kernel, rfl⟩

end Ccp.C10
