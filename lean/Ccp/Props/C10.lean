import Ccp.Proofs.Diff
import Ccp.Proofs.DiffCli
/-!
# C10 — the diff transforms the old config into the new one; the rollback is its mirror

Property theorems only; helper lemmas live in `Ccp.Proofs.Diff`, the model and the short
specification vocabulary (`paths`, `isRem`, `target`, `applyCmd`, `apply`, `Distinct`, `Plain`)
in `Ccp.Model.Diff`.

**Partial**: the theorems cover the *plain fragment* of hier_config — no line starts with the
negation prefix `no ` (`Plain`), siblings have different texts (`Distinct`; the loader guarantees
it, `loaded_distinct`), and none of hier_config's per-OS rewriting rules applies (that part of
the fragment is not visible in the model: the model simply has no such rules; the harness
derives the exclusion list from the installed library).

A configuration denotes the set `paths cfg` of its hierarchical lines (a line with the texts of
its ancestors).  The commands of a diff are the hierarchical lines of the delta tree,
`paths (diff old new)`, in output order; `render` prints exactly these, one per line, two
blanks per ancestor.
-/
namespace Ccp.C10
open Ccp.Diff Ccp.Py

/-- **Transformation.** Applying the commands of the diff, in order, to the hierarchical lines
of the old configuration yields exactly the hierarchical lines of the new one. -/
theorem apply_diff (old new : Forest) (dO : Distinct old) (dN : Distinct new)
    (pO : Plain old) (pN : Plain new) (p : Path) :
    p ∈ apply (paths (diff old new)) (paths old) ↔ p ∈ paths new :=
  apply_diff_mem dO dN pO pN p

/-- **Additions are necessary.** A command that is not a removal is a line of the new
configuration, and if the old configuration already has that line then the command is only the
section header of a deeper command of the same diff. -/
theorem adds_absent (old new : Forest) (dO : Distinct old) (pO : Plain old)
    (c : Path) (hc : c ∈ paths (diff old new)) (hr : isRem c = false) :
    c ∈ paths new ∧ (c ∈ paths old → ∃ x, c ++ [x] ∈ paths (diff old new)) :=
  ⟨add_in_target pO hc hr, add_absent_or_header dO pO hc hr⟩

/-- **Removals are necessary and exact.** A removal names a line that the old configuration
has and the new one lacks; and every line of the old configuration that the new one lacks is
that line or lies below it, for some removal of the diff. -/
theorem removes_present_and_gone (old new : Forest) (dO : Distinct old) (dN : Distinct new)
    (pO : Plain old) (pN : Plain new) :
    (∀ c ∈ paths (diff old new), isRem c = true → target c ∈ paths old ∧ target c ∉ paths new) ∧
    (∀ p ∈ paths old, p ∉ paths new →
      ∃ c ∈ paths (diff old new), isRem c = true ∧ target c <+: p) :=
  ⟨fun _ hc hr => rem_spec dO dN pO pN hc hr,
   fun _ hp hn => by
     obtain ⟨c, h1, h2, h3⟩ := gone_removed dO pO hp hn
     exact ⟨c, h1, h2, h3⟩⟩

/-- **Self.** The diff (and the rollback) of a configuration with itself is empty. -/
theorem diff_self_nil (cfg : Forest) (d : Distinct cfg) :
    getDiff (cfg, cfg) = [] ∧ getRollback (cfg, cfg) = [] := by
  simp [getDiff, getRollback, diff_self d, render, renderF]

/-- **Mirror.** The rollback from old to new is the diff from new to old. -/
theorem rollback_mirror (old new : Forest) : getRollback (old, new) = getDiff (new, old) := rfl

/-- Every loaded configuration has pairwise different siblings, so the `Distinct` hypotheses
above hold for whatever text `Diff()` is given. -/
theorem loaded_distinct (text : Str) : Distinct (loadTree text) := loadTree_distinct text

/-- **Input forms.** A list and a tuple of lines, the lines joined by the line separator as one
string (provided that string is not the name of an existing file), a path `p` (one line) of a
file holding that text, all denote the same pair of configurations; an absent side (`None`)
is the empty list / tuple / string. -/
theorem forms_agree (fs : Str → Option Str) (l : List Str) (p : Str) (side : Input) (syn : Str)
    (hnofile : fs (join linesep l) = none)
    (hfile : fs p = some (join linesep l)) (hp : (splitlines p).length = 1) :
    let viaList := init fs (.list l) side syn
    init fs (.tuple l) side syn = viaList ∧
    init fs (.str (join linesep l)) side syn = viaList ∧
    init fs (.str p) side syn = viaList ∧
    init fs side (.tuple l) syn = init fs side (.list l) syn ∧
    init fs side (.str (join linesep l)) syn = init fs side (.list l) syn ∧
    init fs side (.str p) syn = init fs side (.list l) syn ∧
    init fs .none side syn = init fs (.list []) side syn ∧
    init fs side .none syn = init fs side (.list []) syn := by
  have h1 : normalise fs (.str (join linesep l)) = normalise fs (.list l) := by
    simp only [normalise, hnofile]; split <;> rfl
  have h2 : normalise fs (.str p) = normalise fs (.list l) := by
    simp only [normalise, hp, if_true, hfile]
  have h3 : normalise fs (.tuple l) = normalise fs (.list l) := rfl
  have h4 : normalise fs .none = normalise fs (.list []) := rfl
  simp only [init, h1, h2, h3, h4, and_self]

/-- **The printed diff is its command list.** `render` prints one command per line, two blanks
per ancestor; reading those lines back with the loader's own indentation rule recovers exactly
`paths delta`, in order.  So the `paths (diff old new)` of the theorems above are the commands a
reader of `get_diff()` sees.  (Hypothesis: the texts are ones the loader stores.) -/
theorem printed_commands (delta : Forest) (hN : ∀ p ∈ paths delta, ∀ t ∈ p, NormalText t) :
    linePaths [] ((render delta).filterMap normLine) = paths delta :=
  linePaths_render delta hN

/-! ### the command line: `ccp diff [-m METHOD] [-s SYNTAX] FILE FILE` (model `Ccp.Model.DiffCli`) -/

/-- **`ccp diff` prints the API result.**  With both files present (texts `a`, `b`) and an accepted syntax, the
lines appended to `CliApplication.stdout` are those of `Diff(a, b, syntax).get_diff()` — with `-m diff` and without
`-m` — resp. `.get_rollback()` with `-m rollback`; without `-s` the syntax is `ios`.  So every theorem above about
`getDiff` / `getRollback` of the loaded pair is a theorem about what `ccp diff` prints. -/
theorem cli_diff_is_api (fs : Str → Option Str) (f0 f1 a b syn : Str)
    (h0 : fs f0 = some a) (h1 : fs f1 = some b) (hs : syntaxes.contains syn = true) :
    cliDiff fs f0 f1 none (some syn) = ((init fs (.str a) (.str b) syn).map getDiff).mapError .diff ∧
    cliDiff fs f0 f1 (some "diff".toList) (some syn) = ((init fs (.str a) (.str b) syn).map getDiff).mapError .diff ∧
    cliDiff fs f0 f1 (some "rollback".toList) (some syn) = ((init fs (.str a) (.str b) syn).map getRollback).mapError .diff ∧
    cliDiff fs f0 f1 none none = cliDiff fs f0 f1 (some "diff".toList) (some "ios".toList) := by
  have hr : parseMethod (some "rollback".toList) = some .rollback := by decide
  have hd : parseMethod (some "diff".toList) = some .diff := by decide
  have hi : parseSyntax (some "ios".toList) = some "ios".toList := by decide
  refine ⟨?_, ?_, ?_, ?_⟩
  · simp only [cliDiff, parseMethod, parseSyntax, hs, if_true, h0, h1]
    cases init fs (.str a) (.str b) syn <;> rfl
  · simp only [cliDiff, hd, parseSyntax, hs, if_true, h0, h1]
    cases init fs (.str a) (.str b) syn <;> rfl
  · simp only [cliDiff, hr, parseSyntax, hs, if_true, h0, h1]
    cases init fs (.str a) (.str b) syn <;> rfl
  · unfold cliDiff
    rw [hd, hi]
    rfl

/-- **Mirror on the command line.** `ccp diff -m rollback OLD NEW` prints what `ccp diff -m diff NEW OLD` prints (or
fails in the same way), for every file system and every `-s`. -/
theorem cli_rollback_mirror (fs : Str → Option Str) (f0 f1 : Str) (syn : Option Str) :
    cliDiff fs f0 f1 (some "rollback".toList) syn = cliDiff fs f1 f0 (some "diff".toList) syn := by
  have hr : parseMethod (some "rollback".toList) = some .rollback := by decide
  have hd : parseMethod (some "diff".toList) = some .diff := by decide
  simp only [cliDiff, hr, hd]
  cases parseSyntax syn with
  | none => rfl
  | some s =>
    cases h0 : fs f0 with
    | none => cases h1 : fs f1 <;> rfl
    | some a =>
      cases h1 : fs f1 with
      | none => rfl
      | some b =>
        simp only [init_str_swap fs a b s]
        cases init fs (.str a) (.str b) s <;> rfl

/-- a `-m` / `-s` value outside the argparse choices ends the process before any file is read; with accepted
options a missing file is a FileNotFoundError -/
theorem cli_rejects (fs : Str → Option Str) (f0 f1 : Str) (m s : Option Str) :
    (parseMethod m = none ∨ parseSyntax s = none → cliDiff fs f0 f1 m s = .error .systemExit) ∧
    (parseMethod m ≠ none → parseSyntax s ≠ none → (fs f0 = none ∨ fs f1 = none) →
      cliDiff fs f0 f1 m s = .error .fileNotFound) := by
  constructor
  · intro h
    unfold cliDiff
    rcases h with h | h
    · rw [h]
    · rw [h]; cases parseMethod m <;> rfl
  · intro hm hs hf
    unfold cliDiff
    cases hm' : parseMethod m with
    | none => exact absurd hm' hm
    | some mm =>
      cases hs' : parseSyntax s with
      | none => exact absurd hs' hs
      | some ss =>
        rcases hf with h | h
        · simp only [h]
        · simp only [h]; cases fs f0 <;> rfl
/-! ### non-vacuity: concrete configurations meeting the hypotheses -/

private def oldText : Str :=
  "host R1\nint Gi1\n mtu 1500\n speed  10\nrouter ospf 1\n net 10.0.0.0\n  cost 5\nline vty 0\n".toList
private def newText : Str :=
  "host R1\r\nint Gi1\r\n    mtu 9000\r\n    speed 10\r\nline vty 0\r\n  login\r\nint Gi1\r\n    bw 10".toList

-- what the real `Diff(oldText, newText).get_diff()` / `.get_rollback()` print
example : getDiff (loadTree oldText, loadTree newText) =
    ["no router ospf 1", "int Gi1", "  no mtu 1500", "  mtu 9000", "  bw 10", "line vty 0",
     "  login"].map String.toList := by decide +kernel

example : getRollback (loadTree oldText, loadTree newText) =
    ["int Gi1", "  no mtu 9000", "  no bw 10", "  mtu 1500", "router ospf 1", "  net 10.0.0.0",
     "    cost 5", "line vty 0", "  no login"].map String.toList := by decide +kernel

-- the hypotheses of `apply_diff` hold for these two (the repeated `int Gi1` section was merged,
-- `speed  10` and `speed 10` are the same line)
example : Plain (loadTree oldText) ∧ Plain (loadTree newText) := by
  constructor <;> (unfold Plain; decide +kernel)

-- a removal whose target is a whole section; an addition below a shared header
example : (["router ospf 1".toList, "net 10.0.0.0".toList] : Path) ∈ paths (loadTree oldText) ∧
    isRem ["no router ospf 1".toList] = true ∧
    target ["no router ospf 1".toList] = ["router ospf 1".toList] ∧
    (["int Gi1".toList, "mtu 9000".toList] : Path) ∈ paths (diff (loadTree oldText) (loadTree newText)) := by
  decide +kernel

-- `apply` on a small instance: `no b` removes `b` and the line below it (not `bb`), the other
-- commands add their line (a line added twice is still one member of the set)
example : apply ([["no b"], ["a"], ["a", "c"]].map (·.map String.toList))
      ([["a"], ["b"], ["b", "x"], ["bb"]].map (·.map String.toList)) =
    [["a"], ["bb"], ["a"], ["a", "c"]].map (·.map String.toList) := by decide +kernel

-- the texts of the example delta are normal (hypothesis of `printed_commands`)
example : ∀ p ∈ paths (diff (loadTree oldText) (loadTree newText)), ∀ t ∈ p, NormalText t := by
  unfold NormalText; decide +kernel

-- the diff of a non-empty configuration with itself
example : getDiff (loadTree oldText, loadTree oldText) = [] := by decide +kernel

-- forms: the hypotheses of `forms_agree` are satisfiable (a file system holding one file)
example : ∃ (fs : Str → Option Str) (l : List Str) (p : Str),
    fs (join linesep l) = none ∧ fs p = some (join linesep l) ∧ (splitlines p).length = 1 ∧ l.length = 2 :=
  ⟨fun q => if q = "/tmp/a.cfg".toList then some "a\n b".toList else none,
   ["a".toList, " b".toList], "/tmp/a.cfg".toList, by decide +kernel, by decide +kernel, by decide +kernel, rfl⟩

-- `cli_diff_is_api` / `cli_rollback_mirror`: two files, what `ccp diff -m rollback -s nxos f0 f1` prints
private def fs2 : Str → Option Str := fun p =>
  if p = "f0".toList then some "int Gi1\n mtu 1500\n".toList else if p = "f1".toList then some "int Gi1\n mtu 9000\n".toList else none
example : (cliDiff fs2 "f0".toList "f1".toList (some "rollback".toList) (some "nxos".toList)).toOption
    = some ["int Gi1".toList, "  no mtu 9000".toList, "  mtu 1500".toList] := by decide +kernel
example : (match cliDiff fs2 "f0".toList "f1".toList (some "undo".toList) none with | .error .systemExit => true | _ => false) = true ∧
    (match cliDiff fs2 "f0".toList "nowhere".toList none none with | .error .fileNotFound => true | _ => false) = true := by
  decide +kernel

end Ccp.C10
