import Ccp.Proofs.Diff
namespace Ccp.C10
open Ccp.Diff
theorem rollback_mirror (cfg : Forest × Forest) : getRollback cfg = getDiff (cfg.2, cfg.1) := rfl
end Ccp.C10
