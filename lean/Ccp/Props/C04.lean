import Ccp.Proofs.Search
import Ccp.Proofs.SearchForms
/-!
# C04 — searches return exactly the matching lines, ordered and de-duplicated

Property theorems only; the specification (`IsChain`, `chains`, `Desc`, `Below`, `padded`,
`Forest`) and the helper lemmas live in `Ccp.Proofs.Search`.

Every theorem is for all trees `t` (any texts, any parent function — no well-formedness is
needed unless `Forest t` is listed) and all oracle rows (`hit r i` = "regex r matches line i",
computed by Python's `re` in the correspondence runs).  `Forest t` (`parentOf t i ≤ i`) is
needed exactly where `all_children` is involved (`recurse := true`).

What `chains` means is fixed by `mem_chains` (membership = `IsChain`) and `chains_sorted`
(strictly ascending in the lexicographic order of line numbers), restated here.
-/
namespace Ccp.C04
open Ccp.Tree Ccp.Search Ccp.SearchForms

/-! ### the specification is what it says -/

/-- `chains t rs` holds exactly the tuples (c₀,…,c_k) with `c₀` a line matching row 0 and each
next element a direct child of the previous one matching its row … -/
theorem chains_mem (t : T) (rs : List Row) (cs : List Nat) : cs ∈ chains t rs ↔ IsChain t rs cs :=
  mem_chains t rs cs

/-- … in strictly ascending lexicographic order (hence without duplicates) -/
theorem chains_ordered (t : T) (rs : List Row) :
    (chains t rs).Pairwise (· < ·) ∧ (chains t rs).Nodup :=
  ⟨chains_sorted t rs, chains_nodup t rs⟩

/-! ### find_objects -/

/-- `find_objects` returns the ascending list of the matching lines, reversed on request;
never a duplicate, never a line outside the config. -/
theorem findObjects_spec (t : T) (r : Row) :
    (findObjects t r false).Pairwise (· < ·) ∧
    (∀ i, i ∈ findObjects t r false ↔ i < t.size ∧ hit r i = true) ∧
    findObjects t r true = (findObjects t r false).reverse ∧
    (∀ rev, (findObjects t r rev).Nodup) ∧
    (∀ rev i, i ∈ findObjects t r rev → i < t.size ∧ hit r i = true) := by
  have hs : (findObjects t r false).Pairwise (· < ·) := findLineObj_sorted t r
  have hm : ∀ i, i ∈ findObjects t r false ↔ i < t.size ∧ hit r i = true := mem_findLineObj t r
  refine ⟨hs, hm, rfl, ?_, ?_⟩
  · intro rev
    cases rev with
    | false => exact sorted_nodup hs
    | true =>
      show (findLineObj t r).reverse.Nodup
      exact List.pairwise_reverse.mpr ((sorted_nodup hs).imp (fun h => h.symm))
  · intro rev i hi
    cases rev with
    | false => exact (hm i).mp hi
    | true => exact (hm i).mp (List.mem_reverse.mp hi)

/-- the list form of `find_objects` takes exactly one expression -/
theorem findObjects_list_spec (t : T) (rs : List Row) (rev : Bool) :
    findObjectsList t rs rev =
      match rs with
      | [r] => .ok (findObjects t r rev)
      | _ => .error .invalidParameters := by
  unfold findObjectsList; rfl

/-! ### find_object_branches -/

/-- **Branch growth = chain enumeration.**  For at least two expressions,
`find_object_branches(empty_branches=False)` returns exactly the chains of direct
parent→child lines matching expression i at depth i, in lexicographic order of line numbers,
reversed on request.  (An off-by-one in the growth loop, a lost fork or a wrong `None` filter
breaks this proof.) -/
theorem branches_eq_chains (t : T) (rs : List Row) (h : 2 ≤ rs.length) (rev : Bool) :
    findObjectBranches t rs false rev =
      .ok (if rev then ((chains t rs).map (·.map some)).reverse else (chains t rs).map (·.map some)) := by
  match rs, h with
  | r0 :: r1 :: rest, _ =>
    have key : ((r1 :: rest).foldl (growStep t) ((findChildObjectBranches t none r0).map (fun k => [k]))).filter
        (fun b => !hasNone b) = (chains t (r0 :: r1 :: rest)).map (·.map some) := by
      rw [roots_seed]
      split
      · rename_i he
        rw [dead_filter t _ _ (by intro b hb; rw [List.mem_singleton] at hb; subst hb; rfl)]
        simp [chains, List.isEmpty_iff.mp he]
      · rw [foldl_growStep_flatMap, List.filter_flatMap, List.flatMap_map]
        show _ = List.map _ ((findLineObj t r0).flatMap _)
        rw [List.map_flatMap]
        congr 1
        funext c
        have := live_filter t (r1 :: rest) [] c rfl
        simp only [List.nil_append] at this
        rw [this, List.map_map]
        simp [Function.comp_def]
    simp only [findObjectBranches, Bool.false_eq_true, if_false, key]

/-- with `empty_branches=True` the result is the list of maximal partial chains padded with
`None` (`padded`), reversed on request -/
theorem branches_padded_spec (t : T) (rs : List Row) (h : 2 ≤ rs.length) (rev : Bool) :
    findObjectBranches t rs true rev =
      .ok (if rev then (padded t rs).reverse else padded t rs) := by
  match rs, h with
  | r0 :: r1 :: rest, _ =>
    have key : (r1 :: rest).foldl (growStep t) ((findChildObjectBranches t none r0).map (fun k => [k]))
        = padded t (r0 :: r1 :: rest) := by
      rw [roots_seed]
      simp only [padded]
      by_cases he : (findLineObj t r0).isEmpty = true
      · simp only [he, if_true]
        have := dead_pad t (r1 :: rest) []
        simpa using this
      · have he' : (findLineObj t r0).isEmpty = false := by simpa using he
        simp only [he', Bool.false_eq_true, if_false]
        rw [foldl_growStep_flatMap, List.flatMap_map]
        congr 1
        funext c
        have := live_pad t (r1 :: rest) [] c
        simpa using this
    simp only [findObjectBranches, if_true, key]

/-- the two results are consistent: dropping the rows that contain a `None` from the padded
list leaves the chains -/
theorem padded_complete_rows (t : T) (rs : List Row) (h : 2 ≤ rs.length) :
    (padded t rs).filter (fun b => !hasNone b) = (chains t rs).map (·.map some) := by
  have h1 := branches_eq_chains t rs h false
  have h2 := branches_padded_spec t rs h false
  match rs, h with
  | r0 :: r1 :: rest, _ =>
    simp only [findObjectBranches, Bool.false_eq_true, if_false, if_true, Except.ok.injEq] at h1 h2
    rw [← h2]; exact h1

/-- fewer than two expressions are refused -/
theorem branches_too_short (t : T) (rs : List Row) (h : rs.length < 2) (e rev : Bool) :
    findObjectBranches t rs e rev = .error .valueError := by
  match rs, h with
  | [], _ => rfl
  | [_], _ => rfl

/-! ### list forms of find_parent_objects / find_child_objects -/

/-- `find_parent_objects([r0, r1, …], reverse)` = ascending duplicate-free list of the first
components of the chains, reversed on request -/
theorem findParent_list_spec (t : T) (rs : List Row) (h : 2 ≤ rs.length) :
    ∃ l, findParentObjectsList t rs false = .ok l ∧ l.Pairwise (· < ·) ∧ l.Nodup ∧
      (∀ i, i ∈ l ↔ ∃ cs ∈ chains t rs, cs.head? = some i) ∧
      findParentObjectsList t rs true = .ok l.reverse := by
  have hb := branches_eq_chains t rs h false
  match rs, h with
  | r0 :: r1 :: rest, _ =>
    refine ⟨sortDedup (((chains t (r0 :: r1 :: rest)).map (·.map some)).filterMap firstOf),
      by simp only [findParentObjectsList, Bool.false_eq_true, if_false, hb], sortDedup_sorted _,
      sorted_nodup (sortDedup_sorted _), ?_,
      by simp only [findParentObjectsList, Bool.false_eq_true, if_false, if_true, hb]⟩
    intro i
    rw [mem_sortDedup, List.mem_filterMap]
    constructor
    · rintro ⟨b, hb, hi⟩
      obtain ⟨cs, hcs, rfl⟩ := List.mem_map.mp hb
      exact ⟨cs, hcs, by rw [← firstOf_map_some]; exact hi⟩
    · rintro ⟨cs, hcs, hi⟩
      exact ⟨cs.map some, List.mem_map.mpr ⟨cs, hcs, rfl⟩, by rw [firstOf_map_some]; exact hi⟩

/-- `find_child_objects([r0, r1, …], reverse)` = ascending duplicate-free list of the last
components of the chains, reversed on request -/
theorem findChild_list_spec (t : T) (rs : List Row) (h : 2 ≤ rs.length) :
    ∃ l, findChildObjectsList t rs false = .ok l ∧ l.Pairwise (· < ·) ∧ l.Nodup ∧
      (∀ i, i ∈ l ↔ ∃ cs ∈ chains t rs, cs.getLast? = some i) ∧
      findChildObjectsList t rs true = .ok l.reverse := by
  have hb := branches_eq_chains t rs h false
  match rs, h with
  | r0 :: r1 :: rest, _ =>
    refine ⟨sortDedup (((chains t (r0 :: r1 :: rest)).map (·.map some)).filterMap lastOf),
      by simp only [findChildObjectsList, Bool.false_eq_true, if_false, hb], sortDedup_sorted _,
      sorted_nodup (sortDedup_sorted _), ?_,
      by simp only [findChildObjectsList, Bool.false_eq_true, if_false, if_true, hb]⟩
    intro i
    rw [mem_sortDedup, List.mem_filterMap]
    constructor
    · rintro ⟨b, hb, hi⟩
      obtain ⟨cs, hcs, rfl⟩ := List.mem_map.mp hb
      exact ⟨cs, hcs, by rw [← lastOf_map_some]; exact hi⟩
    · rintro ⟨cs, hcs, hi⟩
      exact ⟨cs.map some, List.mem_map.mpr ⟨cs, hcs, rfl⟩, by rw [lastOf_map_some]; exact hi⟩

/-- a list of one expression is `find_objects` with the same `reverse` (a chain of length 1 is a
matching line); the empty list is refused -/
theorem list_form_short (t : T) (r : Row) (rev : Bool) :
    findParentObjectsList t [r] rev = .ok (findObjects t r rev) ∧
    findChildObjectsList t [r] rev = .ok (findObjects t r rev) ∧
    findParentObjectsList t [] rev = .error .valueError ∧
    findChildObjectsList t [] rev = .error .valueError :=
  ⟨rfl, rfl, rfl, rfl⟩

/-! ### two-argument forms -/

/-- `find_parent_objects(p, c, recurse)`: exactly the lines matching `p` that have some direct
(`recurse=False`) or any-depth (`recurse=True`) child matching `c`; ascending, reversed on request -/
theorem findParent_two_arg_spec (t : T) (prow crow : Row) (recurse : Bool)
    (hf : recurse = true → Forest t) :
    (findParentObjects2 t prow crow recurse false).Pairwise (· < ·) ∧
    (∀ p, p ∈ findParentObjects2 t prow crow recurse false ↔
      p < t.size ∧ hit prow p = true ∧ ∃ c, Below t recurse p c ∧ hit crow c = true) ∧
    findParentObjects2 t prow crow recurse true =
      (findParentObjects2 t prow crow recurse false).reverse := by
  refine ⟨List.Pairwise.filter _ (findLineObj_sorted t prow), ?_, ?_⟩
  · intro p
    simp only [findParentObjects2, findObjects, Bool.false_eq_true, if_false, List.mem_filter,
      mem_findLineObj, Bool.not_eq_true', reSearchChildren_nonempty t recurse hf]
    exact and_assoc
  · simp [findParentObjects2, findObjects, List.filter_reverse]

/-- `find_parent_objects_wo_child(p, c, recurse)`: exactly the lines matching `p` with **no**
direct / any-depth child matching `c` -/
theorem woChild_spec (t : T) (prow crow : Row) (recurse : Bool) (hf : recurse = true → Forest t) :
    (findParentObjectsWoChild2 t prow crow recurse false).Pairwise (· < ·) ∧
    (∀ p, p ∈ findParentObjectsWoChild2 t prow crow recurse false ↔
      p < t.size ∧ hit prow p = true ∧ ¬ ∃ c, Below t recurse p c ∧ hit crow c = true) ∧
    findParentObjectsWoChild2 t prow crow recurse true =
      (findParentObjectsWoChild2 t prow crow recurse false).reverse := by
  refine ⟨List.Pairwise.filter _ (findLineObj_sorted t prow), ?_, ?_⟩
  · intro p
    rw [← reSearchChildren_nonempty t recurse hf]
    simp only [findParentObjectsWoChild2, findObjects, Bool.false_eq_true, if_false, List.mem_filter,
      mem_findLineObj, Bool.not_eq_false]
    exact and_assoc
  · simp [findParentObjectsWoChild2, findObjects, List.filter_reverse]

/-- `find_child_objects(p, c, recurse, reverse)`: exactly the lines matching `c` that are a direct /
any-depth child of some line matching `p`; ascending and duplicate free, reversed on request -/
theorem findChild_two_arg_spec (t : T) (prow crow : Row) (recurse : Bool)
    (hf : recurse = true → Forest t) :
    (findChildObjects2 t prow crow recurse false).Pairwise (· < ·) ∧
    (findChildObjects2 t prow crow recurse false).Nodup ∧
    (∀ c, c ∈ findChildObjects2 t prow crow recurse false ↔
      hit crow c = true ∧ ∃ p, p < t.size ∧ hit prow p = true ∧ Below t recurse p c) ∧
    findChildObjects2 t prow crow recurse true =
      (findChildObjects2 t prow crow recurse false).reverse := by
  refine ⟨sortDedup_sorted _, sorted_nodup (sortDedup_sorted _), ?_, ?_⟩
  · intro c
    simp only [findChildObjects2, Bool.false_eq_true, if_false, mem_sortDedup, List.mem_flatMap,
      findObjects, mem_findLineObj, mem_reSearchChildren t recurse hf]
    constructor
    · rintro ⟨p, ⟨h1, h2⟩, h3, h4⟩; exact ⟨h4, p, h1, h2, h3⟩
    · rintro ⟨h4, p, h1, h2, h3⟩; exact ⟨p, ⟨h1, h2⟩, h3, h4⟩
  · simp only [findChildObjects2, Bool.false_eq_true, if_false, if_true, findObjects]
    congr 1
    apply sorted_ext _ _ (sortDedup_sorted _) (sortDedup_sorted _)
    intro c
    simp only [mem_sortDedup, List.mem_flatMap, List.mem_reverse]

/-! ### the list form and the two-argument form agree (at `recurse := false`) -/

/-- `find_parent_objects([p, c], reverse)` = `find_parent_objects(p, c, recurse=False, reverse)`,
for either value of `reverse` and for rows computed under any flag reading (the same
`escape_chars` / `ignore_ws` treatment is applied to the expressions in both forms, so both
consult the same rows `p`, `c`) -/
theorem list_form_agrees_parent (t : T) (p c : Row) (rev : Bool) :
    findParentObjectsList t [p, c] rev = .ok (findParentObjects2 t p c false rev) := by
  obtain ⟨l, hl, hs, _, hm, hr⟩ := findParent_list_spec t [p, c] (by simp)
  obtain ⟨hs2, hm2, hr2⟩ := findParent_two_arg_spec t p c false (by simp)
  have hEq : l = findParentObjects2 t p c false false := by
    apply sorted_ext _ _ hs hs2
    intro i
    rw [hm, hm2]
    simp only [mem_chains, isChain_pair, Below, Bool.false_eq_true, if_false]
    constructor
    · rintro ⟨cs, ⟨i', k, rfl, h1, h2, h3, h4⟩, hh⟩
      simp at hh; subst hh
      exact ⟨h1, h2, k, h3, h4⟩
    · rintro ⟨h1, h2, k, h3, h4⟩
      exact ⟨[i, k], ⟨i, k, rfl, h1, h2, h3, h4⟩, rfl⟩
  cases rev with
  | false => rw [hl, hEq]
  | true => rw [hr, hr2, hEq]

/-- `find_child_objects([p, c], reverse)` = `find_child_objects(p, c, recurse=False, reverse)` -/
theorem list_form_agrees_child (t : T) (p c : Row) (rev : Bool) :
    findChildObjectsList t [p, c] rev = .ok (findChildObjects2 t p c false rev) := by
  obtain ⟨l, hl, hs, _, hm, hr⟩ := findChild_list_spec t [p, c] (by simp)
  obtain ⟨hs2, _, hm2, hr2⟩ := findChild_two_arg_spec t p c false (by simp)
  have hEq : l = findChildObjects2 t p c false false := by
    apply sorted_ext _ _ hs hs2
    intro k
    rw [hm, hm2]
    simp only [mem_chains, isChain_pair, Below, Bool.false_eq_true, if_false]
    constructor
    · rintro ⟨cs, ⟨i, k', rfl, h1, h2, h3, h4⟩, hh⟩
      simp at hh; subst hh
      exact ⟨h4, i, h1, h2, h3⟩
    · rintro ⟨h4, i, h1, h2, h3⟩
      exact ⟨[i, k], ⟨i, k, rfl, h1, h2, h3, h4⟩, rfl⟩
  cases rev with
  | false => rw [hl, hEq]
  | true => rw [hr, hr2, hEq]

/-- a list of one expression agrees with `find_objects` under the same `reverse` -/
theorem list_form_agrees_single (t : T) (r : Row) (rev : Bool) :
    findParentObjectsList t [r] rev = findObjectsList t [r] rev ∧
    findChildObjectsList t [r] rev = findObjectsList t [r] rev := ⟨rfl, rfl⟩

/-- **Finding F07.**  Full statement (false of the code and of the model):
`∀ p c p1, findParentObjectsWoChildList t [p, c] p1 false rev = .ok (findParentObjectsWoChild2 t p c false rev)`.
What holds: the list form is the two-argument form with the child row replaced by the row `p1`
of the *second character of the parent expression*; the row of `c` is never consulted; it raises
`IndexError` when the parent expression is shorter than two characters.  So the two forms agree
exactly when `p1` happens to be the row of `c`. -/
theorem list_form_agrees_woChild_partial (t : T) (p c : Row) (recurse rev : Bool) :
    (∀ p1, findParentObjectsWoChildList t [p, c] (some p1) recurse rev =
      .ok (findParentObjectsWoChild2 t p p1 recurse rev)) ∧
    findParentObjectsWoChildList t [p, c] (some c) recurse rev =
      .ok (findParentObjectsWoChild2 t p c recurse rev) ∧
    findParentObjectsWoChildList t [p, c] none recurse rev = .error .indexError :=
  ⟨fun _ => rfl, rfl, rfl⟩

/-! ### CiscoConfParse.re_search_children, BaseCfgLine.has_child_with -/

/-- `parse.re_search_children(r, recurse)`: the matching roots, or every matching line -/
theorem rootSearch_spec (t : T) (r : Row) :
    (∀ rec_, (reSearchChildrenRoot t r rec_).Pairwise (· < ·)) ∧
    (∀ i, i ∈ reSearchChildrenRoot t r true ↔ i < t.size ∧ hit r i = true) ∧
    (∀ i, i ∈ reSearchChildrenRoot t r false ↔ i < t.size ∧ hit r i = true ∧ parentOf t i = i) := by
  refine ⟨?_, ?_, ?_⟩
  · intro rec_
    cases rec_ with
    | true => exact findLineObj_sorted t r
    | false => exact List.Pairwise.filter _ (findLineObj_sorted t r)
  · intro i; exact mem_findLineObj t r i
  · intro i
    simp only [reSearchChildrenRoot, Bool.false_eq_true, if_false, findObjects, List.mem_filter,
      mem_findLineObj, beq_iff_eq]
    exact and_assoc

/-- `obj.has_child_with(r, all_children)` is true exactly when some direct / any-depth child
matches — whatever the texts are (after the repair FC04d a matching `""` child counts) -/
theorem hasChildWith_spec (t : T) (p : Nat) (crow : Row) (allCh : Bool)
    (hf : allCh = true → Forest t) :
    hasChildWith t p crow allCh = true ↔ ∃ c, Below t allCh p c ∧ hit crow c = true := by
  rw [← reSearchChildren_nonempty t allCh hf]
  unfold hasChildWith reSearchChildren
  cases (offspring t allCh p).filter (hit crow) <;> simp

/-! ### other spellings of the arguments and the `search_safe` guard (`Ccp.SearchForms`)

The functions of `Ccp.Search` take rows; `Ccp.SearchForms` models what the code does with the
arguments *before* it searches: a compiled `re.Pattern`, a `BaseCfgLine`, a tuple, a missing or
ill-typed argument, and the refusal while an uncommitted `ConfigList.insert` is pending.  The
theorems say that none of these spellings changes an answer (they agree with the `str` / list form
or are refused with an error), so the specifications above apply to them verbatim. -/

/-- **All-`str` arguments, nothing pending: the argument handling adds nothing.** -/
theorem forms_str_agree (t : T) (o : Opts) (hp : o.pend = false) (p c : Row) (rs : List Row) (p1 : Option Row) (tup : Bool) :
    findObjectsF t (.one (strArg p)) o = .ok (findObjects t p o.rev) ∧
    findObjectsF t (.list (rs.map strArg)) o = liftErr (findObjectsList t rs o.rev) ∧
    findObjectBranchesF t tup rs o = liftErr (findObjectBranches t rs o.emp o.rev) ∧
    findParentObjectsListF t rs o = liftErr (findParentObjectsList t rs o.rev) ∧
    findParentObjects2F t (strArg p) (strArg c) o = .ok (findParentObjects2 t p c o.rec_ o.rev) ∧
    findChildObjectsF t (.one (strArg p)) (strArg c) o = .ok (findChildObjects2 t p c o.rec_ o.rev) ∧
    findChildObjectsF t (.list (rs.map strArg)) (strArg c) o = liftErr (findChildObjectsList t rs o.rev) ∧
    findParentObjectsWoChildF t (.one (strArg p)) (strArg c) p1 o = .ok (findParentObjectsWoChild2 t p c o.rec_ o.rev) ∧
    findParentObjectsWoChildF t (.list (rs.map strArg)) { kind := .none } p1 o =
      liftErr (findParentObjectsWoChildList t rs p1 o.rec_ o.rev) ∧
    reSearchChildrenRootF t (strArg p) o = .ok (reSearchChildrenRoot t p o.rec_) := by
  refine ⟨?_, ?_, ?_, ?_, ?_, ?_, ?_, ?_, ?_, ?_⟩
  · simp [findObjectsF, findObjectsArg, strArg, rxOk, escOk, wsOk, hp]
  · match rs with
    | [] => simp [findObjectsF, findObjectsList, liftErr, FErr.ofSearch]
    | [r] => simp [findObjectsF, findObjectsArg, findObjectsList, liftErr, strArg, rxOk, escOk, wsOk, hp]
    | r :: r' :: l => simp [findObjectsF, findObjectsList, liftErr, FErr.ofSearch, strArg, rxOk]
  · simp [findObjectBranchesF, hp]
  · simp [findParentObjectsListF, hp]
  · simp [findParentObjects2F, strArg, rxOk, escOk, wsOk, hp]
  · simp [findChildObjectsF, strArg, rxOk, escOk, wsOk, hp]
  · match rs with
    | [] => simp [findChildObjectsF, findChildObjectsList, liftErr, FErr.ofSearch, hp]
    | [r] => simp [findChildObjectsF, findObjectsArg, findChildObjectsList, liftErr, strArg, rxOk, escOk, wsOk, hp]
    | r :: r' :: l =>
      simp [findChildObjectsF, strArg, rxOk, escOk, wsOk, hp, Function.comp_def]
  · simp [findParentObjectsWoChildF, woChildCore, strArg, rxOk, escOk, wsOk, hp]
  · match rs, p1 with
    | [], _ => simp [findParentObjectsWoChildF, findParentObjectsWoChildList, liftErr, FErr.ofSearch]
    | [r], _ => simp [findParentObjectsWoChildF, findParentObjectsWoChildList, liftErr, FErr.ofSearch]
    | [r, r'], none => simp [findParentObjectsWoChildF, findParentObjectsWoChildList, liftErr, FErr.ofSearch, strArg, rxOk]
    | [r, r'], some x => simp [findParentObjectsWoChildF, findParentObjectsWoChildList, woChildCore, liftErr, strArg, rxOk, escOk, wsOk, hp]
    | r :: r' :: r'' :: l, _ => simp [findParentObjectsWoChildF, findParentObjectsWoChildList, liftErr, FErr.ofSearch]
  · simp [reSearchChildrenRootF, findObjectsArg, reSearchChildrenRoot, strArg, rxOk, escOk, wsOk, hp, findObjects]

/-- **A compiled `re.Pattern` answers like the `str` with the same row** wherever it is accepted
(no `ignore_ws`, no `escape_chars`): `find_objects` (also as the one element of a list), either
argument of `find_parent_objects_wo_child`, the child of `find_child_objects`,
`CiscoConfParse.re_search_children`, `has_child_with`, `obj.re_search`, `obj.re_search_children`. -/
theorem pattern_form_agrees (t : T) (o : Opts) (hw : o.ws = false) (hx : o.esc = false) (p c : Row)
    (p1 : Option Row) (i : Nat) :
    findObjectsF t (.one (patArg p)) o = findObjectsF t (.one (strArg p)) o ∧
    findObjectsF t (.list [patArg p]) o = findObjectsF t (.one (strArg p)) o ∧
    (∀ a ∈ [strArg p, patArg p], ∀ b ∈ [strArg c, patArg c],
      findParentObjectsWoChildF t (.one a) b p1 o = findParentObjectsWoChildF t (.one (strArg p)) (strArg c) p1 o) ∧
    findChildObjectsF t (.one (strArg p)) (patArg c) o = findChildObjectsF t (.one (strArg p)) (strArg c) o ∧
    reSearchChildrenRootF t (patArg p) o = reSearchChildrenRootF t (strArg p) o ∧
    hasChildWithF t i (patArg c) o = hasChildWithF t i (strArg c) o ∧
    reSearchF t i (patArg p) o = reSearchF t i (strArg p) o ∧
    reSearchChildrenObjF t i (patArg c) o = reSearchChildrenObjF t i (strArg c) o := by
  refine ⟨?_, ?_, ?_, ?_, ?_, ?_, ?_, ?_⟩
  · simp [findObjectsF, findObjectsArg, strArg, patArg, rxOk, escOk, wsOk, hw, hx]
  · simp [findObjectsF, findObjectsArg, strArg, patArg, rxOk, escOk, wsOk, hw, hx]
  · intro a ha b hb
    simp only [List.mem_cons, List.mem_nil_iff, or_false] at ha hb
    rcases ha with rfl | rfl <;> rcases hb with rfl | rfl <;>
      simp [findParentObjectsWoChildF, woChildCore, strArg, patArg, rxOk, escOk, wsOk, hw, hx]
  · simp [findChildObjectsF, strArg, patArg, rxOk, escOk, wsOk, hw, hx]
  · simp [reSearchChildrenRootF, findObjectsArg, strArg, patArg, rxOk, escOk, wsOk]
  · simp [hasChildWithF, strArg, patArg, rxOk]
  · simp [reSearchF, strArg, patArg, rxOk]
  · simp [reSearchChildrenObjF, strArg, patArg, rxOk]

/-- … and it is *refused*, never mis-read, where the expression would have to be rewritten:
`ignore_ws` → `ValueError`, `escape_chars` → `TypeError` (unless the refusal for a pending insert or
an earlier check comes first); as the `parentspec` of the two-argument `find_parent_objects` /
`find_child_objects` it is refused with `InvalidParameters`; as the first element of the list form of
`find_parent_objects_wo_child` it raises `TypeError` (`parentspec[1]` of a compiled pattern, F07). -/
theorem pattern_form_refused (t : T) (o : Opts) (hp : o.pend = false) (p c : Row) :
    (o.esc = true → findObjectsF t (.one (patArg p)) o = .error .typeError) ∧
    (o.esc = false → o.ws = true → findObjectsF t (.one (patArg p)) o = .error .valueError) ∧
    (o.esc = false → findParentObjects2F t (patArg p) (strArg c) o = .error .invalidParameters) ∧
    (o.esc = false → findChildObjectsF t (.one (patArg p)) (strArg c) o = .error .invalidParameters) ∧
    -- F07 again: the list form of wo-child subscripts its first element
    (∀ b ∈ [strArg c, patArg c], ∀ p1, findParentObjectsWoChildF t (.list [patArg p, b]) { kind := .none } p1 o = .error .typeError) := by
  refine ⟨?_, ?_, ?_, ?_, ?_⟩
  · intro hx; simp [findObjectsF, findObjectsArg, patArg, rxOk, escOk, hx]
  · intro hx hw; simp [findObjectsF, findObjectsArg, patArg, rxOk, escOk, wsOk, hx, hw, hp]
  · intro hx; simp [findParentObjects2F, patArg, strArg, rxOk, hx, hp]
  · intro hx; simp [findChildObjectsF, patArg, strArg, hx, hp]
  · intro b hb p1
    simp only [List.mem_cons, List.mem_nil_iff, or_false] at hb
    rcases hb with rfl | rfl <;> simp [findParentObjectsWoChildF, patArg, strArg, rxOk]

/-- **A tuple answers like the list** where a tuple is accepted (`find_object_branches`,
`find_child_objects`), for any elements, flags and state. -/
theorem tuple_form_agrees (t : T) (o : Opts) (rs : List Row) (l : List Arg) (c : Arg) :
    findObjectBranchesF t true rs o = findObjectBranchesF t false rs o ∧
    findChildObjectsF t (.tuple l) c o = findChildObjectsF t (.list l) c o := ⟨rfl, rfl⟩

/-- a `BaseCfgLine` as `parentspec` of `find_child_objects` / `find_parent_objects_wo_child` is read as
its text (the row of `obj.text` used as an expression), when `escape_chars` is off -/
theorem line_as_parentspec (t : T) (o : Opts) (hx : o.esc = false) (r : Row) (n : Nat) (txt : Ccp.Py.Str) (c : Arg)
    (p1 : Option Row) :
    findChildObjectsF t (.one (lineArg r n txt)) c o = findChildObjectsF t (.one (strArg r)) c o ∧
    findParentObjectsWoChildF t (.one (lineArg r n txt)) c p1 o = findParentObjectsWoChildF t (.one (strArg r)) c p1 o := by
  constructor
  · simp [findChildObjectsF, lineArg, strArg, escOk, hx]
  · simp [findParentObjectsWoChildF, woChildCore, lineArg, strArg, rxOk, escOk, hx]

/-- `find_objects(obj)` returns the lines equal to `obj` — the line `obj.linenum` if it carries `obj.text`,
nothing otherwise; `exactmatch` and `reverse` change nothing -/
theorem findObjects_line_spec (t : T) (o : Opts) (hp : o.pend = false) (hw : o.ws = false) (hx : o.esc = false)
    (r : Row) (n : Nat) (txt : Ccp.Py.Str) :
    ∃ l, findObjectsF t (.one (lineArg r n txt)) o = .ok l ∧
      (∀ i, i ∈ l ↔ i = n ∧ n < t.size ∧ t.texts.getD n [] = txt) ∧ l.length ≤ 1 := by
  refine ⟨revIf o.rev (eqLines t (lineArg r n txt)), ?_, ?_, ?_⟩
  · simp [findObjectsF, findObjectsArg, lineArg, rxOk, hp, hw, hx]
  · intro i
    rw [mem_revIf, eqLines_eq]
    show i ∈ (if n < t.size ∧ t.texts.getD n [] = txt then [n] else []) ↔ _
    by_cases h : n < t.size ∧ t.texts.getD n [] = txt
    · rw [if_pos h, List.mem_singleton]
      exact ⟨fun hi => ⟨hi, h⟩, fun hi => hi.1⟩
    · rw [if_neg h]
      exact ⟨fun hi => absurd hi (by simp), fun hi => absurd hi.2 h⟩
  · rw [length_revIf, eqLines_eq]
    split <;> simp

/-- **While an insert is pending no search answers.**  Every API answers with an error — the
`NotImplementedError` of the `search_safe` guard, or the error of an argument check that comes
before the guard — for all arguments and flags.  `has_child_with` consults the guard per examined
child: it refuses on every line that has offspring (and answers `False` without looking on a line that
has none). -/
theorem pending_refused (t : T) (o : Opts) (hp : o.pend = true) (f : First) (c a : Arg) (rs : List Row)
    (p1 : Option Row) (tup : Bool) (i : Nat) :
    (∀ l, findObjectsF t f o ≠ .ok l) ∧
    findObjectBranchesF t tup rs o = .error .notImplementedError ∧
    findParentObjectsListF t rs o = .error .notImplementedError ∧
    (∀ l, findParentObjects2F t a c o ≠ .ok l) ∧
    findChildObjectsF t f c o = .error .notImplementedError ∧
    (∀ l, findParentObjectsWoChildF t f c p1 o ≠ .ok l) ∧
    (∀ l, reSearchChildrenRootF t a o ≠ .ok l) ∧
    reSearchF t i a o = .error .notImplementedError ∧
    reSearchChildrenObjF t i a o = .error .notImplementedError ∧
    ((offspring t o.rec_ i).isEmpty = false → hasChildWithF t i a o = .error .notImplementedError) := by
  have hfa : ∀ (a : Arg) ws esc rev l, findObjectsArg t a ws esc rev true ≠ .ok l := by
    intro a ws esc rev l
    unfold findObjectsArg
    split
    · simp
    · split
      · simp
      · simp
  have hwc : ∀ tup p c l, woChildCore t tup p c o ≠ .ok l := by
    intro tup p c l
    unfold woChildCore
    simp only [hp]
    split
    · simp
    · simp
  refine ⟨?_, ?_, ?_, ?_, ?_, ?_, ?_, ?_, ?_, ?_⟩
  · intro l
    unfold findObjectsF
    rw [hp]
    split
    · exact hfa _ _ _ _ l
    · simp
    · simp
    · split
      · exact hfa _ _ _ _ l
      · simp
    · split <;> simp
  · simp [findObjectBranchesF, hp]
  · simp [findParentObjectsListF, hp]
  · intro l
    unfold findParentObjects2F
    simp only [hp]
    split <;> simp
  · simp [findChildObjectsF, hp]
  · intro l
    unfold findParentObjectsWoChildF
    split
    · exact hwc _ _ _ l
    · exact hwc _ _ _ l
    · split
      · split
        · simp
        · split
          · simp
          · exact hwc _ _ _ l
      · simp
    · simp
  · intro l
    unfold reSearchChildrenRootF
    rw [hp]
    split
    · rename_i l' h; exact absurd h (hfa _ _ _ _ l')
    · simp
  · simp [reSearchF, hp]
  · simp [reSearchChildrenObjF, hp]
  · intro h; simp [hasChildWithF, hp, h]

/-- the line-object methods: `obj.re_search(r)` matches exactly when the row says so, and
`obj.re_search_children(r, recurse)` returns exactly the direct / any-depth children matching `r` -/
theorem objSearch_spec (t : T) (o : Opts) (hp : o.pend = false) (hf : o.rec_ = true → Forest t) (p : Nat) (r : Row) :
    reSearchF t p (strArg r) o = .ok (hit r p) ∧
    ∃ l, reSearchChildrenObjF t p (strArg r) o = .ok l ∧
      ∀ c, c ∈ l ↔ Below t o.rec_ p c ∧ hit r c = true := by
  refine ⟨by simp [reSearchF, strArg, rxOk, hp], reSearchChildren t p r o.rec_, by simp [reSearchChildrenObjF, strArg, rxOk, hp], ?_⟩
  intro c
  exact mem_reSearchChildren t o.rec_ hf p r c

/-- **`regex_groups=True`.**  For `empty_branches=False` the rows are those of the complete chains -- exactly the
N-tuples of chains of direct parent-to-child lines matching expression `i` at depth `i` that the property speaks of --
and for `empty_branches=True` one row per maximal partial chain (`padded`); in chain order, reversed on request.
Each row has one cell per expression; the cell of a missing line is `(None,)`, the cell of line `i` holds the
capture groups of the expression on its text (`-` for a group that did not participate), or the line itself when the
expression has no groups; every cell is a tuple (`Branch.__init__`).
(Before the repair `fix: find_object_branches(regex_groups=True) drops partial branches unless empty_branches=True`
this was `branches_groups_partial`: for either value of `empty_branches` the padded rows came back, because the `None`
filter ran after the conversion to cells and never fired -- finding FC04f.) -/
theorem branches_groups (t : T) (rs : List Row) (h : 2 ≤ rs.length) (g : GroupTable) (rev : Bool) :
    findObjectBranchesGroups t rs g false rev false =
      .ok (if rev then (((chains t rs).map (·.map some)).map (rowCells g)).reverse
           else ((chains t rs).map (·.map some)).map (rowCells g)) ∧
    findObjectBranchesGroups t rs g true rev false =
      .ok (if rev then ((padded t rs).map (rowCells g)).reverse else (padded t rs).map (rowCells g)) ∧
    (∀ b : Branch, (rowCells g b).length = b.length ∧ ∀ c ∈ rowCells g b, c.isTuple = true) ∧
    (∀ idx, cellOf g idx none = ⟨true, [.none]⟩) ∧
    (∀ idx i, groupsAt g idx i = some [] → cellOf g idx (some i) = ⟨false, [.line i]⟩) ∧
    (∀ idx i x xs, groupsAt g idx i = some (x :: xs) →
      cellOf g idx (some i) = ⟨true, (x :: xs).map itemOf⟩) := by
  refine ⟨?_, ?_, ?_, fun _ => rfl, ?_, ?_⟩
  · have hb := branches_eq_chains t rs h false
    simp only [Bool.false_eq_true, if_false] at hb
    simp [findObjectBranchesGroups, hb]
  · have hb := branches_padded_spec t rs h false
    simp only [Bool.false_eq_true, if_false] at hb
    simp [findObjectBranchesGroups, hb]
  · intro b
    refine ⟨by simp [rowCells], ?_⟩
    intro c hc
    simp only [rowCells, List.mem_map] at hc
    obtain ⟨ie, _, rfl⟩ := hc
    rfl
  · intro idx i hg; simp [cellOf, hg]
  · intro idx i x xs hg; simp [cellOf, hg]

/-! ### non-vacuity: a concrete tree

```
0  a          (root)
1   b         child of 0
2    c        child of 1
3   b         child of 0 (duplicate text)
4  a          (root, no children)
5   ""        child of 4 with the empty text
```
-/
def exT : T :=
  { texts := ["a".toList, " b".toList, "  c".toList, " b".toList, "a".toList, []],
    parents := [0, 0, 1, 0, 4, 4], keep := [false, false, false, false, false, false] }

def rowA : Row := [true, false, false, false, true, false]
def rowB : Row := [false, true, false, true, false, false]
def rowC : Row := [false, false, true, false, false, false]
def rowE : Row := [false, false, false, false, false, true]   -- `^$`

example : Forest exT := by
  intro i
  match i with
  | 0 | 1 | 2 | 3 | 4 | 5 => decide
  | n + 6 => simp [parentOf, exT]

example : chains exT [rowA, rowB] = [[0, 1], [0, 3]] := by decide
example : chains exT [rowA, rowB, rowC] = [[0, 1, 2]] := by decide
example : findObjectBranches exT [rowA, rowB, rowC] false false = .ok [[some 0, some 1, some 2]] := by rfl
example : findObjectBranches exT [rowA, rowB, rowC] true false =
    .ok [[some 0, some 1, some 2], [some 0, some 3, none], [some 4, none, none]] := by rfl
example : findObjectBranches exT [rowC, rowC, rowC] true true = .ok [[some 2, none, none]] := by rfl
example : findObjectBranches exT [[], rowC, rowC] true true = .ok [[none, none, none]] := by rfl
example : findObjects exT rowB true = [3, 1] := by decide
example : findParentObjectsList exT [rowA, rowB] false = .ok [0] := by rfl
example : findChildObjectsList exT [rowA, rowB] false = .ok [1, 3] := by rfl
example : findParentObjects2 exT rowA rowC true false = [0] ∧ findParentObjects2 exT rowA rowC false false = [] := by decide
example : findChildObjects2 exT rowA rowB false true = [3, 1] := by decide
example : findChildObjectsList exT [rowA, rowB] true = .ok [3, 1] := by rfl
example : findParentObjectsWoChild2 exT rowA rowB false true = [4] := by decide
example : reSearchChildrenRoot exT rowB false = [] ∧ reSearchChildrenRoot exT rowB true = [1, 3] := by decide
/-- F07 witness: with `p1` ≠ the row of `c` the list form differs from the two-argument form -/
example : findParentObjectsWoChildList exT [rowA, rowB] (some rowC) false false = .ok [0, 4] ∧
    findParentObjectsWoChild2 exT rowA rowB false false = [4] := ⟨by rfl, by decide⟩
/-- line 4 has a child with the empty text matching `^$`; it counts -/
example : hasChildWith exT 4 rowE false = true ∧ (5 ∈ children exT 4 ∧ hit rowE 5 = true) := by decide
example : hasChildWith exT 0 rowC true = true ∧ hasChildWith exT 0 rowC false = false := by decide

/-! non-vacuity of the argument-form theorems (hypotheses `pend = false`, `ws = false`, `esc = false`, `pend = true`) -/
example : findObjectsF exT (.one (patArg rowB)) { rev := true } = .ok [3, 1] := by rfl
example : findObjectsF exT (.list [patArg rowB]) {} = .ok [1, 3] := by rfl
example : findObjectsF exT (.one (patArg rowB)) { ws := true } = .error .valueError := by rfl
example : findObjectsF exT (.one (patArg rowB)) { esc := true } = .error .typeError := by rfl
example : findObjectsF exT (.one (lineArg [] 3 " b".toList)) { exact := true, rev := true } = .ok [3] := by rfl
example : findObjectsF exT (.one (lineArg [] 2 " b".toList)) {} = .ok [] := by rfl
example : findObjectBranchesF exT true [rowA, rowB, rowC] {} = .ok [[some 0, some 1, some 2]] := by rfl
example : findChildObjectsF exT (.tuple [strArg rowA, strArg rowB]) { kind := .none } { rev := true } = .ok [3, 1] := by rfl
example : findChildObjectsF exT (.one (lineArg rowA 0 "a".toList)) (patArg rowB) {} = .ok [1, 3] := by rfl
example : findParentObjectsWoChildF exT (.one (patArg rowA)) (patArg rowB) none {} = .ok [4] := by rfl
example : findParentObjects2F exT (patArg rowA) (strArg rowB) {} = .error .invalidParameters := by rfl
example : findParentObjectsWoChildF exT (.list [patArg rowA, strArg rowB]) { kind := .none } none {} = .error .typeError := by rfl
example : findObjectsF exT (.one (strArg rowB)) { pend := true } = .error .notImplementedError := by rfl
example : findObjectsF exT (.list [strArg rowA, strArg rowB]) { pend := true } = .error .invalidParameters := by rfl
example : hasChildWithF exT 0 (strArg rowB) { pend := true } = .error .notImplementedError ∧
    hasChildWithF exT 2 (strArg rowB) { pend := true } = .ok false := ⟨by rfl, by rfl⟩
example : reSearchChildrenObjF exT 0 (strArg rowC) { rec_ := true } = .ok [2] ∧
    reSearchChildrenObjF exT 0 (strArg rowC) {} = .ok [] ∧ reSearchF exT 3 (patArg rowB) {} = .ok true := ⟨by rfl, by rfl, by rfl⟩

def exG : GroupTable := [[some [], none, none, none, some [], none],
      [none, some [some "b".toList, none], none, some [some "b".toList, none], none, none],
      [none, none, some [], none, none, none]]
/-- `empty_branches=False`: only the complete chain `0, 1, 2` (before the repair of FC04f the three padded rows below
came back here as well) -/
example : findObjectBranchesGroups exT [rowA, rowB, rowC] exG false false false =
    .ok [[⟨true, [.line 0]⟩, ⟨true, [.str "b".toList, .none]⟩, ⟨true, [.line 2]⟩]] := by rfl
example : findObjectBranchesGroups exT [rowA, rowB, rowC] exG true false false =
    .ok [[⟨true, [.line 0]⟩, ⟨true, [.str "b".toList, .none]⟩, ⟨true, [.line 2]⟩],
         [⟨true, [.line 0]⟩, ⟨true, [.str "b".toList, .none]⟩, ⟨true, [.none]⟩],
         [⟨true, [.line 4]⟩, ⟨true, [.none]⟩, ⟨true, [.none]⟩]] := by rfl

end Ccp.C04
