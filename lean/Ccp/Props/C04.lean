import Ccp.Model.Search
namespace Ccp.C04
open Ccp.Tree Ccp.Search

theorem placeholder (t : T) (r : Row) : findObjects t r false = findLineObj t r := rfl

end Ccp.C04
