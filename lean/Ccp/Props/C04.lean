import Ccp.Proofs.Search
/-!
# C04 — searches return exactly the matching lines, ordered and de-duplicated

Property theorems only; the specification (`IsChain`, `chains`, `Desc`, `Below`, `padded`,
`Forest`) and the helper lemmas live in `Ccp.Proofs.Search`.

Every theorem is for all trees `t` (any texts, any parent function — no well-formedness is
needed unless `Forest t` is listed) and all oracle rows (`hit r i` = "regex r matches line i",
computed by Python's `re` in the correspondence runs).  `Forest t` (`parentOf t i ≤ i`) is
needed exactly where `all_children` is involved (`recurse := true`).

What `chains` means is fixed by `mem_chains` (membership = `IsChain`) and `chains_sorted`
(strictly ascending in the lexicographic order of line numbers), restated here.
-/
namespace Ccp.C04
open Ccp.Tree Ccp.Search

/-! ### the specification is what it says -/

/-- `chains t rs` holds exactly the tuples (c₀,…,c_k) with `c₀` a line matching row 0 and each
next element a direct child of the previous one matching its row … -/
theorem chains_mem (t : T) (rs : List Row) (cs : List Nat) : cs ∈ chains t rs ↔ IsChain t rs cs :=
  mem_chains t rs cs

/-- … in strictly ascending lexicographic order (hence without duplicates) -/
theorem chains_ordered (t : T) (rs : List Row) :
    (chains t rs).Pairwise (· < ·) ∧ (chains t rs).Nodup :=
  ⟨chains_sorted t rs, chains_nodup t rs⟩

/-! ### find_objects -/

/-- `find_objects` returns the ascending list of the matching lines, reversed on request;
never a duplicate, never a line outside the config. -/
theorem findObjects_spec (t : T) (r : Row) :
    (findObjects t r false).Pairwise (· < ·) ∧
    (∀ i, i ∈ findObjects t r false ↔ i < t.size ∧ hit r i = true) ∧
    findObjects t r true = (findObjects t r false).reverse ∧
    (∀ rev, (findObjects t r rev).Nodup) ∧
    (∀ rev i, i ∈ findObjects t r rev → i < t.size ∧ hit r i = true) := by
  have hs : (findObjects t r false).Pairwise (· < ·) := findLineObj_sorted t r
  have hm : ∀ i, i ∈ findObjects t r false ↔ i < t.size ∧ hit r i = true := mem_findLineObj t r
  refine ⟨hs, hm, rfl, ?_, ?_⟩
  · intro rev
    cases rev with
    | false => exact sorted_nodup hs
    | true =>
      show (findLineObj t r).reverse.Nodup
      exact List.pairwise_reverse.mpr ((sorted_nodup hs).imp (fun h => h.symm))
  · intro rev i hi
    cases rev with
    | false => exact (hm i).mp hi
    | true => exact (hm i).mp (List.mem_reverse.mp hi)

/-- the list form of `find_objects` takes exactly one expression -/
theorem findObjects_list_spec (t : T) (rs : List Row) (rev : Bool) :
    findObjectsList t rs rev =
      match rs with
      | [r] => .ok (findObjects t r rev)
      | _ => .error .invalidParameters := by
  unfold findObjectsList; rfl

/-! ### find_object_branches -/

/-- **Branch growth = chain enumeration.**  For at least two expressions,
`find_object_branches(empty_branches=False)` returns exactly the chains of direct
parent→child lines matching expression i at depth i, in lexicographic order of line numbers,
reversed on request.  (An off-by-one in the growth loop, a lost fork or a wrong `None` filter
breaks this proof.) -/
theorem branches_eq_chains (t : T) (rs : List Row) (h : 2 ≤ rs.length) (rev : Bool) :
    findObjectBranches t rs false rev =
      .ok (if rev then ((chains t rs).map (·.map some)).reverse else (chains t rs).map (·.map some)) := by
  match rs, h with
  | r0 :: r1 :: rest, _ =>
    have key : ((r1 :: rest).foldl (growStep t) ((findChildObjectBranches t none r0).map (fun k => [k]))).filter
        (fun b => !hasNone b) = (chains t (r0 :: r1 :: rest)).map (·.map some) := by
      rw [roots_seed]
      split
      · rename_i he
        rw [dead_filter t _ _ (by intro b hb; rw [List.mem_singleton] at hb; subst hb; rfl)]
        simp [chains, List.isEmpty_iff.mp he]
      · rw [foldl_growStep_flatMap, List.filter_flatMap, List.flatMap_map]
        show _ = List.map _ ((findLineObj t r0).flatMap _)
        rw [List.map_flatMap]
        congr 1
        funext c
        have := live_filter t (r1 :: rest) [] c rfl
        simp only [List.nil_append] at this
        rw [this, List.map_map]
        simp [Function.comp_def]
    simp only [findObjectBranches, Bool.false_eq_true, if_false, key]

/-- with `empty_branches=True` the result is the list of maximal partial chains padded with
`None` (`padded`), reversed on request -/
theorem branches_padded_spec (t : T) (rs : List Row) (h : 2 ≤ rs.length) (rev : Bool) :
    findObjectBranches t rs true rev =
      .ok (if rev then (padded t rs).reverse else padded t rs) := by
  match rs, h with
  | r0 :: r1 :: rest, _ =>
    have key : (r1 :: rest).foldl (growStep t) ((findChildObjectBranches t none r0).map (fun k => [k]))
        = padded t (r0 :: r1 :: rest) := by
      rw [roots_seed]
      simp only [padded]
      by_cases he : (findLineObj t r0).isEmpty = true
      · simp only [he, if_true]
        have := dead_pad t (r1 :: rest) []
        simpa using this
      · have he' : (findLineObj t r0).isEmpty = false := by simpa using he
        simp only [he', Bool.false_eq_true, if_false]
        rw [foldl_growStep_flatMap, List.flatMap_map]
        congr 1
        funext c
        have := live_pad t (r1 :: rest) [] c
        simpa using this
    simp only [findObjectBranches, if_true, key]

/-- the two results are consistent: dropping the rows that contain a `None` from the padded
list leaves the chains -/
theorem padded_complete_rows (t : T) (rs : List Row) (h : 2 ≤ rs.length) :
    (padded t rs).filter (fun b => !hasNone b) = (chains t rs).map (·.map some) := by
  have h1 := branches_eq_chains t rs h false
  have h2 := branches_padded_spec t rs h false
  match rs, h with
  | r0 :: r1 :: rest, _ =>
    simp only [findObjectBranches, Bool.false_eq_true, if_false, if_true, Except.ok.injEq] at h1 h2
    rw [← h2]; exact h1

/-- fewer than two expressions are refused -/
theorem branches_too_short (t : T) (rs : List Row) (h : rs.length < 2) (e rev : Bool) :
    findObjectBranches t rs e rev = .error .valueError := by
  match rs, h with
  | [], _ => rfl
  | [_], _ => rfl

/-! ### list forms of find_parent_objects / find_child_objects -/

/-- `find_parent_objects([r0, r1, …], reverse)` = ascending duplicate-free list of the first
components of the chains, reversed on request -/
theorem findParent_list_spec (t : T) (rs : List Row) (h : 2 ≤ rs.length) :
    ∃ l, findParentObjectsList t rs false = .ok l ∧ l.Pairwise (· < ·) ∧ l.Nodup ∧
      (∀ i, i ∈ l ↔ ∃ cs ∈ chains t rs, cs.head? = some i) ∧
      findParentObjectsList t rs true = .ok l.reverse := by
  have hb := branches_eq_chains t rs h false
  match rs, h with
  | r0 :: r1 :: rest, _ =>
    refine ⟨sortDedup (((chains t (r0 :: r1 :: rest)).map (·.map some)).filterMap firstOf),
      by simp only [findParentObjectsList, Bool.false_eq_true, if_false, hb], sortDedup_sorted _,
      sorted_nodup (sortDedup_sorted _), ?_,
      by simp only [findParentObjectsList, Bool.false_eq_true, if_false, if_true, hb]⟩
    intro i
    rw [mem_sortDedup, List.mem_filterMap]
    constructor
    · rintro ⟨b, hb, hi⟩
      obtain ⟨cs, hcs, rfl⟩ := List.mem_map.mp hb
      exact ⟨cs, hcs, by rw [← firstOf_map_some]; exact hi⟩
    · rintro ⟨cs, hcs, hi⟩
      exact ⟨cs.map some, List.mem_map.mpr ⟨cs, hcs, rfl⟩, by rw [firstOf_map_some]; exact hi⟩

/-- `find_child_objects([r0, r1, …], reverse)` = ascending duplicate-free list of the last
components of the chains, reversed on request -/
theorem findChild_list_spec (t : T) (rs : List Row) (h : 2 ≤ rs.length) :
    ∃ l, findChildObjectsList t rs false = .ok l ∧ l.Pairwise (· < ·) ∧ l.Nodup ∧
      (∀ i, i ∈ l ↔ ∃ cs ∈ chains t rs, cs.getLast? = some i) ∧
      findChildObjectsList t rs true = .ok l.reverse := by
  have hb := branches_eq_chains t rs h false
  match rs, h with
  | r0 :: r1 :: rest, _ =>
    refine ⟨sortDedup (((chains t (r0 :: r1 :: rest)).map (·.map some)).filterMap lastOf),
      by simp only [findChildObjectsList, Bool.false_eq_true, if_false, hb], sortDedup_sorted _,
      sorted_nodup (sortDedup_sorted _), ?_,
      by simp only [findChildObjectsList, Bool.false_eq_true, if_false, if_true, hb]⟩
    intro i
    rw [mem_sortDedup, List.mem_filterMap]
    constructor
    · rintro ⟨b, hb, hi⟩
      obtain ⟨cs, hcs, rfl⟩ := List.mem_map.mp hb
      exact ⟨cs, hcs, by rw [← lastOf_map_some]; exact hi⟩
    · rintro ⟨cs, hcs, hi⟩
      exact ⟨cs.map some, List.mem_map.mpr ⟨cs, hcs, rfl⟩, by rw [lastOf_map_some]; exact hi⟩

/-- a list of one expression is `find_objects` with the same `reverse` (a chain of length 1 is a
matching line); the empty list is refused -/
theorem list_form_short (t : T) (r : Row) (rev : Bool) :
    findParentObjectsList t [r] rev = .ok (findObjects t r rev) ∧
    findChildObjectsList t [r] rev = .ok (findObjects t r rev) ∧
    findParentObjectsList t [] rev = .error .valueError ∧
    findChildObjectsList t [] rev = .error .valueError :=
  ⟨rfl, rfl, rfl, rfl⟩

/-! ### two-argument forms -/

/-- `find_parent_objects(p, c, recurse)`: exactly the lines matching `p` that have some direct
(`recurse=False`) or any-depth (`recurse=True`) child matching `c`; ascending, reversed on request -/
theorem findParent_two_arg_spec (t : T) (prow crow : Row) (recurse : Bool)
    (hf : recurse = true → Forest t) :
    (findParentObjects2 t prow crow recurse false).Pairwise (· < ·) ∧
    (∀ p, p ∈ findParentObjects2 t prow crow recurse false ↔
      p < t.size ∧ hit prow p = true ∧ ∃ c, Below t recurse p c ∧ hit crow c = true) ∧
    findParentObjects2 t prow crow recurse true =
      (findParentObjects2 t prow crow recurse false).reverse := by
  refine ⟨List.Pairwise.filter _ (findLineObj_sorted t prow), ?_, ?_⟩
  · intro p
    simp only [findParentObjects2, findObjects, Bool.false_eq_true, if_false, List.mem_filter,
      mem_findLineObj, Bool.not_eq_true', reSearchChildren_nonempty t recurse hf]
    exact and_assoc
  · simp [findParentObjects2, findObjects, List.filter_reverse]

/-- `find_parent_objects_wo_child(p, c, recurse)`: exactly the lines matching `p` with **no**
direct / any-depth child matching `c` -/
theorem woChild_spec (t : T) (prow crow : Row) (recurse : Bool) (hf : recurse = true → Forest t) :
    (findParentObjectsWoChild2 t prow crow recurse false).Pairwise (· < ·) ∧
    (∀ p, p ∈ findParentObjectsWoChild2 t prow crow recurse false ↔
      p < t.size ∧ hit prow p = true ∧ ¬ ∃ c, Below t recurse p c ∧ hit crow c = true) ∧
    findParentObjectsWoChild2 t prow crow recurse true =
      (findParentObjectsWoChild2 t prow crow recurse false).reverse := by
  refine ⟨List.Pairwise.filter _ (findLineObj_sorted t prow), ?_, ?_⟩
  · intro p
    rw [← reSearchChildren_nonempty t recurse hf]
    simp only [findParentObjectsWoChild2, findObjects, Bool.false_eq_true, if_false, List.mem_filter,
      mem_findLineObj, Bool.not_eq_false]
    exact and_assoc
  · simp [findParentObjectsWoChild2, findObjects, List.filter_reverse]

/-- `find_child_objects(p, c, recurse, reverse)`: exactly the lines matching `c` that are a direct /
any-depth child of some line matching `p`; ascending and duplicate free, reversed on request -/
theorem findChild_two_arg_spec (t : T) (prow crow : Row) (recurse : Bool)
    (hf : recurse = true → Forest t) :
    (findChildObjects2 t prow crow recurse false).Pairwise (· < ·) ∧
    (findChildObjects2 t prow crow recurse false).Nodup ∧
    (∀ c, c ∈ findChildObjects2 t prow crow recurse false ↔
      hit crow c = true ∧ ∃ p, p < t.size ∧ hit prow p = true ∧ Below t recurse p c) ∧
    findChildObjects2 t prow crow recurse true =
      (findChildObjects2 t prow crow recurse false).reverse := by
  refine ⟨sortDedup_sorted _, sorted_nodup (sortDedup_sorted _), ?_, ?_⟩
  · intro c
    simp only [findChildObjects2, Bool.false_eq_true, if_false, mem_sortDedup, List.mem_flatMap,
      findObjects, mem_findLineObj, mem_reSearchChildren t recurse hf]
    constructor
    · rintro ⟨p, ⟨h1, h2⟩, h3, h4⟩; exact ⟨h4, p, h1, h2, h3⟩
    · rintro ⟨h4, p, h1, h2, h3⟩; exact ⟨p, ⟨h1, h2⟩, h3, h4⟩
  · simp only [findChildObjects2, Bool.false_eq_true, if_false, if_true, findObjects]
    congr 1
    apply sorted_ext _ _ (sortDedup_sorted _) (sortDedup_sorted _)
    intro c
    simp only [mem_sortDedup, List.mem_flatMap, List.mem_reverse]

/-! ### the list form and the two-argument form agree (at `recurse := false`) -/

/-- `find_parent_objects([p, c], reverse)` = `find_parent_objects(p, c, recurse=False, reverse)`,
for either value of `reverse` and for rows computed under any flag reading (the same
`escape_chars` / `ignore_ws` treatment is applied to the expressions in both forms, so both
consult the same rows `p`, `c`) -/
theorem list_form_agrees_parent (t : T) (p c : Row) (rev : Bool) :
    findParentObjectsList t [p, c] rev = .ok (findParentObjects2 t p c false rev) := by
  obtain ⟨l, hl, hs, _, hm, hr⟩ := findParent_list_spec t [p, c] (by simp)
  obtain ⟨hs2, hm2, hr2⟩ := findParent_two_arg_spec t p c false (by simp)
  have hEq : l = findParentObjects2 t p c false false := by
    apply sorted_ext _ _ hs hs2
    intro i
    rw [hm, hm2]
    simp only [mem_chains, isChain_pair, Below, Bool.false_eq_true, if_false]
    constructor
    · rintro ⟨cs, ⟨i', k, rfl, h1, h2, h3, h4⟩, hh⟩
      simp at hh; subst hh
      exact ⟨h1, h2, k, h3, h4⟩
    · rintro ⟨h1, h2, k, h3, h4⟩
      exact ⟨[i, k], ⟨i, k, rfl, h1, h2, h3, h4⟩, rfl⟩
  cases rev with
  | false => rw [hl, hEq]
  | true => rw [hr, hr2, hEq]

/-- `find_child_objects([p, c], reverse)` = `find_child_objects(p, c, recurse=False, reverse)` -/
theorem list_form_agrees_child (t : T) (p c : Row) (rev : Bool) :
    findChildObjectsList t [p, c] rev = .ok (findChildObjects2 t p c false rev) := by
  obtain ⟨l, hl, hs, _, hm, hr⟩ := findChild_list_spec t [p, c] (by simp)
  obtain ⟨hs2, _, hm2, hr2⟩ := findChild_two_arg_spec t p c false (by simp)
  have hEq : l = findChildObjects2 t p c false false := by
    apply sorted_ext _ _ hs hs2
    intro k
    rw [hm, hm2]
    simp only [mem_chains, isChain_pair, Below, Bool.false_eq_true, if_false]
    constructor
    · rintro ⟨cs, ⟨i, k', rfl, h1, h2, h3, h4⟩, hh⟩
      simp at hh; subst hh
      exact ⟨h4, i, h1, h2, h3⟩
    · rintro ⟨h4, i, h1, h2, h3⟩
      exact ⟨[i, k], ⟨i, k, rfl, h1, h2, h3, h4⟩, rfl⟩
  cases rev with
  | false => rw [hl, hEq]
  | true => rw [hr, hr2, hEq]

/-- a list of one expression agrees with `find_objects` under the same `reverse` -/
theorem list_form_agrees_single (t : T) (r : Row) (rev : Bool) :
    findParentObjectsList t [r] rev = findObjectsList t [r] rev ∧
    findChildObjectsList t [r] rev = findObjectsList t [r] rev := ⟨rfl, rfl⟩

/-- **Finding F07.**  Full statement (false of the code and of the model):
`∀ p c p1, findParentObjectsWoChildList t [p, c] p1 false rev = .ok (findParentObjectsWoChild2 t p c false rev)`.
What holds: the list form is the two-argument form with the child row replaced by the row `p1`
of the *second character of the parent expression*; the row of `c` is never consulted; it raises
`IndexError` when the parent expression is shorter than two characters.  So the two forms agree
exactly when `p1` happens to be the row of `c`. -/
theorem list_form_agrees_woChild_partial (t : T) (p c : Row) (recurse rev : Bool) :
    (∀ p1, findParentObjectsWoChildList t [p, c] (some p1) recurse rev =
      .ok (findParentObjectsWoChild2 t p p1 recurse rev)) ∧
    findParentObjectsWoChildList t [p, c] (some c) recurse rev =
      .ok (findParentObjectsWoChild2 t p c recurse rev) ∧
    findParentObjectsWoChildList t [p, c] none recurse rev = .error .indexError :=
  ⟨fun _ => rfl, rfl, rfl⟩

/-! ### CiscoConfParse.re_search_children, BaseCfgLine.has_child_with -/

/-- `parse.re_search_children(r, recurse)`: the matching roots, or every matching line -/
theorem rootSearch_spec (t : T) (r : Row) :
    (∀ rec_, (reSearchChildrenRoot t r rec_).Pairwise (· < ·)) ∧
    (∀ i, i ∈ reSearchChildrenRoot t r true ↔ i < t.size ∧ hit r i = true) ∧
    (∀ i, i ∈ reSearchChildrenRoot t r false ↔ i < t.size ∧ hit r i = true ∧ parentOf t i = i) := by
  refine ⟨?_, ?_, ?_⟩
  · intro rec_
    cases rec_ with
    | true => exact findLineObj_sorted t r
    | false => exact List.Pairwise.filter _ (findLineObj_sorted t r)
  · intro i; exact mem_findLineObj t r i
  · intro i
    simp only [reSearchChildrenRoot, Bool.false_eq_true, if_false, findObjects, List.mem_filter,
      mem_findLineObj, beq_iff_eq]
    exact and_assoc

/-- `obj.has_child_with(r, all_children)` is true exactly when some direct / any-depth child
matches — whatever the texts are (after the repair FC04d a matching `""` child counts) -/
theorem hasChildWith_spec (t : T) (p : Nat) (crow : Row) (allCh : Bool)
    (hf : allCh = true → Forest t) :
    hasChildWith t p crow allCh = true ↔ ∃ c, Below t allCh p c ∧ hit crow c = true := by
  rw [← reSearchChildren_nonempty t allCh hf]
  unfold hasChildWith reSearchChildren
  cases (offspring t allCh p).filter (hit crow) <;> simp

/-! ### non-vacuity: a concrete tree

```
0  a          (root)
1   b         child of 0
2    c        child of 1
3   b         child of 0 (duplicate text)
4  a          (root, no children)
5   ""        child of 4 with the empty text
```
-/
def exT : T :=
  { texts := ["a".toList, " b".toList, "  c".toList, " b".toList, "a".toList, []],
    parents := [0, 0, 1, 0, 4, 4], keep := [false, false, false, false, false, false] }

def rowA : Row := [true, false, false, false, true, false]
def rowB : Row := [false, true, false, true, false, false]
def rowC : Row := [false, false, true, false, false, false]
def rowE : Row := [false, false, false, false, false, true]   -- `^$`

example : Forest exT := by
  intro i
  match i with
  | 0 | 1 | 2 | 3 | 4 | 5 => decide
  | n + 6 => simp [parentOf, exT]

example : chains exT [rowA, rowB] = [[0, 1], [0, 3]] := by decide
example : chains exT [rowA, rowB, rowC] = [[0, 1, 2]] := by decide
example : findObjectBranches exT [rowA, rowB, rowC] false false = .ok [[some 0, some 1, some 2]] := by rfl
example : findObjectBranches exT [rowA, rowB, rowC] true false =
    .ok [[some 0, some 1, some 2], [some 0, some 3, none], [some 4, none, none]] := by rfl
example : findObjectBranches exT [rowC, rowC, rowC] true true = .ok [[some 2, none, none]] := by rfl
example : findObjectBranches exT [[], rowC, rowC] true true = .ok [[none, none, none]] := by rfl
example : findObjects exT rowB true = [3, 1] := by decide
example : findParentObjectsList exT [rowA, rowB] false = .ok [0] := by rfl
example : findChildObjectsList exT [rowA, rowB] false = .ok [1, 3] := by rfl
example : findParentObjects2 exT rowA rowC true false = [0] ∧ findParentObjects2 exT rowA rowC false false = [] := by decide
example : findChildObjects2 exT rowA rowB false true = [3, 1] := by decide
example : findChildObjectsList exT [rowA, rowB] true = .ok [3, 1] := by rfl
example : findParentObjectsWoChild2 exT rowA rowB false true = [4] := by decide
example : reSearchChildrenRoot exT rowB false = [] ∧ reSearchChildrenRoot exT rowB true = [1, 3] := by decide
/-- F07 witness: with `p1` ≠ the row of `c` the list form differs from the two-argument form -/
example : findParentObjectsWoChildList exT [rowA, rowB] (some rowC) false false = .ok [0, 4] ∧
    findParentObjectsWoChild2 exT rowA rowB false false = [4] := ⟨by rfl, by decide⟩
/-- line 4 has a child with the empty text matching `^$`; it counts -/
example : hasChildWith exT 4 rowE false = true ∧ (5 ∈ children exT 4 ∧ hit rowE 5 = true) := by decide
example : hasChildWith exT 0 rowC true = true ∧ hasChildWith exT 0 rowC false = false := by decide

end Ccp.C04
