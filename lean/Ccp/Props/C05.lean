import Ccp.Proofs.Typed
/-!
# C05 — typed value extraction returns the first match in family order, else the default

Property theorems only; helper lemmas live in `Ccp.Proofs.Typed`.  Every theorem is
stated for all parsed trees `c.t`, all regex oracles `c.g` and all IPv4 parsers `c.ip`
(the three fields of `Ctx`).
-/
namespace Ccp.C05
open Ccp.Typed Ccp.Tree Ccp.Py

/-- `j` is the first line of `l` whose text the regex matches -/
def FirstMatch (c : Ctx) (l : List Nat) (j : Nat) : Prop :=
  ∃ pre post, l = pre ++ j :: post ∧ (∀ k ∈ pre, matched (c.at k) = false) ∧ matched (c.at j) = true

/-- no line of `l` matches -/
def NoMatch (c : Ctx) (l : List Nat) : Prop := ∀ k ∈ l, matched (c.at k) = false

/-- the group text of a line whose requested group participated -/
def groupText (c : Ctx) (j : Nat) : Str :=
  match c.at j with
  | .val s => s
  | _ => []

/-- **The documented order**: the line itself, then all its descendants (`recurse`) or its
direct children, each list ascending in line number (= config order).  That `allChildren` is
exactly the set of descendants is C03's theorem about the shared tree model. -/
theorem order_spec (t : T) (i : Nat) :
    order t i true = i :: allChildren t i ∧ order t i false = i :: children t i ∧
    (allChildren t i).Pairwise (· ≤ ·) ∧ (children t i).Pairwise (· < ·) :=
  ⟨rfl, rfl, allChildren_sorted t i, children_sorted t i⟩

/-- the lines after `i` in the non-recursive order are exactly the direct children of `i`:
the other lines whose parent is `i` -/
theorem order_children_mem (t : T) (i j : Nat) :
    j ∈ (order t i false).tail ↔ j < t.size ∧ j ≠ i ∧ parentOf t j = i := by
  simp [order, children]

/-- every list of lines has a first matching line or none, never both, and the first is unique:
the two cases below (`iterTyped_first`, `iterTyped_default`) are exhaustive and exclusive -/
theorem first_or_none (c : Ctx) (l : List Nat) :
    ((∃ j, FirstMatch c l j) ∨ NoMatch c l) ∧
    (∀ j, FirstMatch c l j → ¬ NoMatch c l) ∧
    (∀ j j', FirstMatch c l j → FirstMatch c l j' → j = j') := by
  refine ⟨?_, ?_, ?_⟩
  · rcases first_cases (fun k => matched (c.at k)) l with ⟨pre, j, post, h, hp, hj⟩ | h
    · exact Or.inl ⟨j, pre, post, h, hp, hj⟩
    · exact Or.inr h
  · rintro j ⟨pre, post, h, _, hj⟩ hn
    have := hn j (by rw [h]; simp)
    rw [hj] at this; cases this
  · rintro j j' ⟨pre, post, h, hp, hj⟩ ⟨pre', post', h', hp', hj'⟩
    exact (first_unique (fun k => matched (c.at k)) (h.symm.trans h') hp hj hp' hj').2.1

/-- **First match** (`re_match_iter_typed`): when `j` is the first matching line of the family
order, the answer is `result_type(mm.group(group))` of line `j` — for every state of the
requested group (a text, `None` for a non-participating group, `IndexError` for a missing one). -/
theorem iterTyped_first (c : Ctx) (i : Nat) (ty : Ty) (d : Arg) (u r : Bool) (j : Nat)
    (h : FirstMatch c (order c.t i r) j) :
    reMatchIterTyped c i ty d u r = convGroup c.ip ty (c.at j) := by
  obtain ⟨pre, post, hl, hpre, hj⟩ := h
  rw [iter_eq_firstLoop, hl, firstLoop_split c ty pre post j hpre hj]

/-- the property's reading of `iterTyped_first`: under the hypothesis that the requested group
participated in the first matching line, the answer is that group's text converted to the
requested type.  (Without the hypothesis the code answers `result_type(None)`, see
`iterTyped_first`; the unconditional statement "the group's text, converted" has no meaning
for a group without text.) -/
theorem iterTyped_first_partial (c : Ctx) (i : Nat) (ty : Ty) (d : Arg) (u r : Bool) (j : Nat) (s : Str)
    (h : FirstMatch c (order c.t i r) j) (hs : c.at j = .val s) :
    reMatchIterTyped c i ty d u r = conv c.ip ty (.str s) := by
  rw [iterTyped_first c i ty d u r j h, hs]; rfl

/-- **Default**: when no line of the family order matches, the answer is the default, converted
to the requested type iff the caller did not ask for an untyped default. -/
theorem iterTyped_default (c : Ctx) (i : Nat) (ty : Ty) (d : Arg) (u r : Bool)
    (h : NoMatch c (order c.t i r)) :
    reMatchIterTyped c i ty d u r = (if u then .ok (Val.ofArg d) else conv c.ip ty d) := by
  rw [iter_eq_firstLoop, firstLoop_none c ty _ h]; rfl

/-- the default is returned *only* when nothing matches, in the sense that the answer is then
determined by the first matching line alone (it does not depend on `default`/`untyped_default`) -/
theorem iterTyped_ignores_default (c : Ctx) (i : Nat) (ty : Ty) (d d' : Arg) (u u' r : Bool) (j : Nat)
    (h : FirstMatch c (order c.t i r) j) :
    reMatchIterTyped c i ty d u r = reMatchIterTyped c i ty d' u' r := by
  rw [iterTyped_first c i ty d u r j h, iterTyped_first c i ty d' u' r j h]

/-- **Single line** (`re_match_typed`): the converted group when it participated; the default
(converted iff not untyped) when the line does not match *or* the group did not participate;
`IndexError` for a group the pattern does not have. -/
theorem matchTyped_spec (c : Ctx) (i : Nat) (ty : Ty) (d : Arg) (u : Bool) :
    (∀ s, c.at i = .val s → reMatchTyped c i ty d u = conv c.ip ty (.str s)) ∧
    (c.at i = .noMatch ∨ c.at i = .unset →
      reMatchTyped c i ty d u = (if u then .ok (Val.ofArg d) else conv c.ip ty d)) ∧
    (c.at i = .noGroup → reMatchTyped c i ty d u = .error .indexError) := by
  refine ⟨?_, ?_, ?_⟩
  · intro s h; simp [reMatchTyped, h]
  · rintro (h | h) <;> simp [reMatchTyped, h, typedDefault]
  · intro h; simp [reMatchTyped, h]

/-- `re_match`: the raw group (possibly `None`), or the default as given -/
theorem match_spec (c : Ctx) (i : Nat) (d : Arg) :
    (∀ s, c.at i = .val s → reMatch c i d = .ok (.str s)) ∧
    (c.at i = .noMatch → reMatch c i d = .ok (Val.ofArg d)) ∧
    (c.at i = .unset → reMatch c i d = .ok .none) ∧
    (c.at i = .noGroup → reMatch c i d = .error .indexError) := by
  refine ⟨?_, ?_, ?_, ?_⟩ <;> intros <;> simp_all [reMatch]

/-- **List variant** (`re_list_iter_typed`): the conversion of the requested group, mapped (in
the exception monad: the first failing conversion is the answer) over the matching lines of
the family order, in that order. -/
theorem listTyped_spec (c : Ctx) (i : Nat) (ty : Ty) (r : Bool) :
    reListIterTyped c i ty r =
      ((order c.t i r).filter (fun j => matched (c.at j))).mapM (fun j => convGroup c.ip ty (c.at j)) := by
  rw [← mapE_eq_mapM, ← listLoop_eq]
  cases r <;> rfl

/-- property reading of `listTyped_spec`: when the requested group participated in every
matching line of the order, the answer is the converted group text of each of them, in order;
a successful answer has one entry per matching line. -/
theorem listTyped_spec_partial (c : Ctx) (i : Nat) (ty : Ty) (r : Bool)
    (h : ∀ j ∈ order c.t i r, matched (c.at j) = true → ∃ s, c.at j = .val s) :
    reListIterTyped c i ty r =
      ((order c.t i r).filter (fun j => matched (c.at j))).mapM
        (fun j => conv c.ip ty (.str (groupText c j))) ∧
    ∀ vs, reListIterTyped c i ty r = .ok vs →
      vs.length = ((order c.t i r).filter (fun j => matched (c.at j))).length := by
  constructor
  · rw [listTyped_spec, ← mapE_eq_mapM, ← mapE_eq_mapM]
    apply mapE_congr
    intro j hj
    obtain ⟨hmem, hm⟩ := List.mem_filter.mp hj
    obtain ⟨s, hs⟩ := h j hmem hm
    simp [groupText, hs, convGroup]
  · intro vs hvs
    rw [listTyped_spec, ← mapE_eq_mapM] at hvs
    exact mapE_ok_length _ _ _ hvs

/-- **Config level** (`CiscoConfParse.re_match_iter_typed`): the lines read are exactly the root
lines (their own parent), in config order; the answer is the converted group of the first
matching root, else the default (converted iff not untyped). -/
theorem root_iter_spec (c : Ctx) (ty : Ty) (d : Arg) (u : Bool) :
    (∀ j, j ∈ roots c.t ↔ j < c.t.size ∧ parentOf c.t j = j) ∧
    (roots c.t).Pairwise (· < ·) ∧
    (∀ j, FirstMatch c (roots c.t) j → rootIterTyped c ty d u = convGroup c.ip ty (c.at j)) ∧
    (NoMatch c (roots c.t) →
      rootIterTyped c ty d u = (if u then .ok (Val.ofArg d) else conv c.ip ty d)) := by
  refine ⟨?_, ?_, ?_, ?_⟩
  · intro j; simp [roots]
  · exact List.Pairwise.filter _ List.pairwise_lt_range
  · rintro j ⟨pre, post, hl, hpre, hj⟩
    rw [root_eq_firstLoop, hl, firstLoop_split c ty pre post j hpre hj]
  · intro h
    rw [root_eq_firstLoop, firstLoop_none c ty _ h]; rfl

/-! ### non-vacuity: a concrete config, parsed by the tree model -/

def exCfg : Cfg := { ios := true, delims := ['!'], ignoreBlank := false }

def exLines : List Str :=
  ["interface A".toList, " description x".toList, "  mtu 1500".toList, " mtu 9000".toList,
   "interface B".toList, "mtu 7".toList]

/-- oracle of `re.search(r"mtu (\d+)", text).group(1)` on the texts above -/
def exG (s : Str) : GroupRes :=
  match lstrip s with
  | 'm' :: 't' :: 'u' :: ' ' :: r => .val r
  | _ => .noMatch

def exC : Ctx := { g := exG, ip := fun _ => .error (.ext []), t := parse exCfg exLines }

example : exC.t.parents = [0, 0, 1, 0, 4, 5] := by decide +kernel
example : order exC.t 0 true = [0, 1, 2, 3] ∧ order exC.t 0 false = [0, 1, 3] := by decide +kernel
-- the grandchild (line 2) comes before the later child (line 3) with recurse, not without
example : FirstMatch exC (order exC.t 0 true) 2 := ⟨[0, 1], [3], by decide +kernel, by decide +kernel, by decide +kernel⟩
example : FirstMatch exC (order exC.t 0 false) 3 := ⟨[0, 1], [], by decide +kernel, by decide +kernel, by decide +kernel⟩
example : reMatchIterTyped exC 0 .int (.int (-1)) false true = .ok (.int 1500) := by decide +kernel
example : reMatchIterTyped exC 0 .int (.int (-1)) false false = .ok (.int 9000) := by decide +kernel
-- no line of the family of line 4 matches: default, converted / untyped
example : NoMatch exC (order exC.t 4 true) := by unfold NoMatch; decide +kernel
example : reMatchIterTyped exC 4 .int (.str "0".toList) false true = .ok (.int 0) := by decide +kernel
example : reMatchIterTyped exC 4 .int (.str "0".toList) true true = .ok (.str "0".toList) := by decide +kernel
example : reListIterTyped exC 0 .str true = .ok [.str "1500".toList, .str "9000".toList] := by decide +kernel
-- roots are 0, 4, 5; the first matching root is line 5
example : roots exC.t = [0, 4, 5] ∧ FirstMatch exC (roots exC.t) 5 :=
  ⟨by decide +kernel, [0, 4], [], by decide +kernel, by decide +kernel, by decide +kernel⟩
example : rootIterTyped exC .float .none false = .ok (.float "7".toList) := by decide +kernel
-- unset group: re_match_typed answers the default, re_match_iter_typed answers str(None)
example : reMatchTyped { exC with g := fun _ => .unset } 0 .str (.str "d".toList) false = .ok (.str "d".toList) := by
  decide +kernel
example : reMatchIterTyped { exC with g := fun _ => .unset } 0 .str (.str "d".toList) false true
    = .ok (.str "None".toList) := by decide +kernel

end Ccp.C05
