import Ccp.Proofs.Typed
import Ccp.Proofs.TypedX
import Ccp.Props.C03
/-!
# C05 — typed value extraction returns the first match in family order, else the default

Property theorems only; helper lemmas live in `Ccp.Proofs.Typed`.  Every theorem is
stated for all parsed trees `c.t`, all regex oracles `c.g` and all IPv4 parsers `c.ip`
(the three fields of `Ctx`).
-/
namespace Ccp.C05
open Ccp.Typed Ccp.Tree Ccp.Py

/-- `j` is the first line of `l` whose text the regex matches -/
def FirstMatch (c : Ctx) (l : List Nat) (j : Nat) : Prop :=
  ∃ pre post, l = pre ++ j :: post ∧ (∀ k ∈ pre, matched (c.at k) = false) ∧ matched (c.at j) = true

/-- no line of `l` matches -/
def NoMatch (c : Ctx) (l : List Nat) : Prop := ∀ k ∈ l, matched (c.at k) = false

/-- the group text of a line whose requested group participated -/
def groupText (c : Ctx) (j : Nat) : Str :=
  match c.at j with
  | .val s => s
  | _ => []

/-- **The documented order**: the line itself, then all its descendants (`recurse`) or its
direct children, each list ascending in line number (= config order).  That `allChildren` is
exactly the set of descendants is C03's theorem about the shared tree model. -/
theorem order_spec (t : T) (i : Nat) :
    order t i true = i :: allChildren t i ∧ order t i false = i :: children t i ∧
    (allChildren t i).Pairwise (· ≤ ·) ∧ (children t i).Pairwise (· < ·) :=
  ⟨rfl, rfl, Ccp.Tree.sortKeep_sorted _, Ccp.Tree.children_sorted t i⟩

/-- the lines after `i` in the non-recursive order are exactly the direct children of `i`:
the other lines whose parent is `i` -/
theorem order_children_mem (t : T) (i j : Nat) :
    j ∈ (order t i false).tail ↔ j < t.size ∧ j ≠ i ∧ parentOf t j = i := by
  simp [order, children]

/-- every list of lines has a first matching line or none, never both, and the first is unique:
the two cases below (`iterTyped_first`, `iterTyped_default`) are exhaustive and exclusive -/
theorem first_or_none (c : Ctx) (l : List Nat) :
    ((∃ j, FirstMatch c l j) ∨ NoMatch c l) ∧
    (∀ j, FirstMatch c l j → ¬ NoMatch c l) ∧
    (∀ j j', FirstMatch c l j → FirstMatch c l j' → j = j') := by
  refine ⟨?_, ?_, ?_⟩
  · rcases first_cases (fun k => matched (c.at k)) l with ⟨pre, j, post, h, hp, hj⟩ | h
    · exact Or.inl ⟨j, pre, post, h, hp, hj⟩
    · exact Or.inr h
  · rintro j ⟨pre, post, h, _, hj⟩ hn
    have := hn j (by rw [h]; simp)
    rw [hj] at this; cases this
  · rintro j j' ⟨pre, post, h, hp, hj⟩ ⟨pre', post', h', hp', hj'⟩
    exact (first_unique (fun k => matched (c.at k)) (h.symm.trans h') hp hj hp' hj').2.1

/-- **First match** (`re_match_iter_typed`): when `j` is the first matching line of the family
order, the answer is `result_type(mm.group(group))` of line `j` — for every state of the
requested group (a text, `None` for a non-participating group, `IndexError` for a missing one). -/
theorem iterTyped_first (c : Ctx) (i : Nat) (ty : Ty) (d : Arg) (u r : Bool) (j : Nat)
    (h : FirstMatch c (order c.t i r) j) :
    reMatchIterTyped c i ty d u r = convGroup c.ip ty (c.at j) := by
  obtain ⟨pre, post, hl, hpre, hj⟩ := h
  rw [iter_eq_firstLoop, hl, firstLoop_split c ty pre post j hpre hj]

/-- the property's reading of `iterTyped_first`: under the hypothesis that the requested group
participated in the first matching line, the answer is that group's text converted to the
requested type.  (Without the hypothesis the code answers `result_type(None)`, see
`iterTyped_first`; the unconditional statement "the group's text, converted" has no meaning
for a group without text.) -/
theorem iterTyped_first_partial (c : Ctx) (i : Nat) (ty : Ty) (d : Arg) (u r : Bool) (j : Nat) (s : Str)
    (h : FirstMatch c (order c.t i r) j) (hs : c.at j = .val s) :
    reMatchIterTyped c i ty d u r = conv c.ip ty (.str s) := by
  rw [iterTyped_first c i ty d u r j h, hs]; rfl

/-- **Default**: when no line of the family order matches, the answer is the default, converted
to the requested type iff the caller did not ask for an untyped default. -/
theorem iterTyped_default (c : Ctx) (i : Nat) (ty : Ty) (d : Arg) (u r : Bool)
    (h : NoMatch c (order c.t i r)) :
    reMatchIterTyped c i ty d u r = (if u then .ok (Val.ofArg d) else conv c.ip ty d) := by
  rw [iter_eq_firstLoop, firstLoop_none c ty _ h]; rfl

/-- the default is returned *only* when nothing matches, in the sense that the answer is then
determined by the first matching line alone (it does not depend on `default`/`untyped_default`) -/
theorem iterTyped_ignores_default (c : Ctx) (i : Nat) (ty : Ty) (d d' : Arg) (u u' r : Bool) (j : Nat)
    (h : FirstMatch c (order c.t i r) j) :
    reMatchIterTyped c i ty d u r = reMatchIterTyped c i ty d' u' r := by
  rw [iterTyped_first c i ty d u r j h, iterTyped_first c i ty d' u' r j h]

/-- **Single line** (`re_match_typed`): the converted group when it participated; the default
(converted iff not untyped) when the line does not match *or* the group did not participate;
`IndexError` for a group the pattern does not have. -/
theorem matchTyped_spec (c : Ctx) (i : Nat) (ty : Ty) (d : Arg) (u : Bool) :
    (∀ s, c.at i = .val s → reMatchTyped c i ty d u = conv c.ip ty (.str s)) ∧
    (c.at i = .noMatch ∨ c.at i = .unset →
      reMatchTyped c i ty d u = (if u then .ok (Val.ofArg d) else conv c.ip ty d)) ∧
    (c.at i = .noGroup → reMatchTyped c i ty d u = .error .indexError) := by
  refine ⟨?_, ?_, ?_⟩
  · intro s h; simp [reMatchTyped, h]
  · rintro (h | h) <;> simp [reMatchTyped, h, typedDefault]
  · intro h; simp [reMatchTyped, h]

/-- `re_match`: the raw group (possibly `None`), or the default as given -/
theorem match_spec (c : Ctx) (i : Nat) (d : Arg) :
    (∀ s, c.at i = .val s → reMatch c i d = .ok (.str s)) ∧
    (c.at i = .noMatch → reMatch c i d = .ok (Val.ofArg d)) ∧
    (c.at i = .unset → reMatch c i d = .ok .none) ∧
    (c.at i = .noGroup → reMatch c i d = .error .indexError) := by
  refine ⟨?_, ?_, ?_, ?_⟩ <;> intros <;> simp_all [reMatch]

/-- **List variant** (`re_list_iter_typed`): the conversion of the requested group, mapped (in
the exception monad: the first failing conversion is the answer) over the matching lines of
the family order, in that order. -/
theorem listTyped_spec (c : Ctx) (i : Nat) (ty : Ty) (r : Bool) :
    reListIterTyped c i ty r =
      ((order c.t i r).filter (fun j => matched (c.at j))).mapM (fun j => convGroup c.ip ty (c.at j)) := by
  rw [← mapE_eq_mapM, ← listLoop_eq]
  cases r <;> rfl

/-- property reading of `listTyped_spec`: when the requested group participated in every
matching line of the order, the answer is the converted group text of each of them, in order;
a successful answer has one entry per matching line. -/
theorem listTyped_spec_partial (c : Ctx) (i : Nat) (ty : Ty) (r : Bool)
    (h : ∀ j ∈ order c.t i r, matched (c.at j) = true → ∃ s, c.at j = .val s) :
    reListIterTyped c i ty r =
      ((order c.t i r).filter (fun j => matched (c.at j))).mapM
        (fun j => conv c.ip ty (.str (groupText c j))) ∧
    ∀ vs, reListIterTyped c i ty r = .ok vs →
      vs.length = ((order c.t i r).filter (fun j => matched (c.at j))).length := by
  constructor
  · rw [listTyped_spec, ← mapE_eq_mapM, ← mapE_eq_mapM]
    apply mapE_congr
    intro j hj
    obtain ⟨hmem, hm⟩ := List.mem_filter.mp hj
    obtain ⟨s, hs⟩ := h j hmem hm
    simp [groupText, hs, convGroup]
  · intro vs hvs
    rw [listTyped_spec, ← mapE_eq_mapM] at hvs
    exact mapE_ok_length _ _ _ hvs

/-- **Config level** (`CiscoConfParse.re_match_iter_typed`): the lines read are exactly the root
lines (their own parent), in config order; the answer is the converted group of the first
matching root, else the default (converted iff not untyped). -/
theorem root_iter_spec (c : Ctx) (ty : Ty) (d : Arg) (u : Bool) :
    (∀ j, j ∈ roots c.t ↔ j < c.t.size ∧ parentOf c.t j = j) ∧
    (roots c.t).Pairwise (· < ·) ∧
    (∀ j, FirstMatch c (roots c.t) j → rootIterTyped c ty d u = convGroup c.ip ty (c.at j)) ∧
    (NoMatch c (roots c.t) →
      rootIterTyped c ty d u = (if u then .ok (Val.ofArg d) else conv c.ip ty d)) := by
  refine ⟨?_, ?_, ?_, ?_⟩
  · intro j; simp [roots]
  · exact List.Pairwise.filter _ List.pairwise_lt_range
  · rintro j ⟨pre, post, hl, hpre, hj⟩
    rw [root_eq_firstLoop, hl, firstLoop_split c ty pre post j hpre hj]
  · intro h
    rw [root_eq_firstLoop, firstLoop_none c ty _ h]; rfl

/-! ## parsed configs: the recursive order is "the line, then all its descendants in config order"

`Ccp.C03.parse_forest` makes every `parse cfg ls` a forest, so the statements below have no
hypothesis on the tree. -/

/-- **The recursive family order of a parsed config** is exactly line `i` followed by all its
descendants (the lines with `i` on their ancestor chain = `IsAncestor`, the transitive closure
of the parent link), in config order, each once. -/
theorem order_is_descendants (cfg : Cfg) (ls : List Str) (i : Nat) :
    let t := parse cfg ls
    order t i true = i :: (List.range t.size).filter (fun j => decide (i ∈ ancestors t j)) ∧
    (∀ j, j ∈ order t i true ↔ j = i ∨ IsAncestor t i j) ∧
    (order t i true).Pairwise (· < ·) ∧ (order t i true).Nodup := by
  intro t
  have hf : Forest t := Ccp.C03.parse_forest cfg ls
  have he := order_eq_familyLines hf i
  refine ⟨he, ?_, ?_, ?_⟩
  · intro j; rw [he]; exact mem_familyLines hf i j
  · rw [he]; exact familyLines_sorted t i
  · rw [he]; exact nodup_of_sorted (familyLines_sorted t i)

/-- the same for the non-recursive order: line `i`, then the other lines whose parent is `i`,
in config order, each once -/
theorem order_is_children (cfg : Cfg) (ls : List Str) (i : Nat) :
    let t := parse cfg ls
    (∀ j, j ∈ order t i false ↔ j = i ∨ (j < t.size ∧ parentOf t j = i ∧ j ≠ i)) ∧
    (order t i false).Pairwise (· < ·) := by
  intro t
  have hf : Forest t := Ccp.C03.parse_forest cfg ls
  refine ⟨fun j => by simp [order, mem_children], ?_⟩
  refine List.pairwise_cons.mpr ⟨fun j hj => Ccp.C03.children_after hf hj, Ccp.Tree.children_sorted t i⟩

/-- a parsed config with its oracles -/
def parsed (cfg : Cfg) (ls : List Str) (g : Str → GroupRes) (ip : Arg → Except Err Str) : Ctx :=
  { g := g, ip := ip, t := parse cfg ls }

/-- **First match, parsed configs**: `re_match_iter_typed(recurse=True)` answers with the converted
group of the first matching line among line `i` and its descendants in config order. -/
theorem iterTyped_first_parsed (cfg : Cfg) (ls : List Str) (g : Str → GroupRes) (ip : Arg → Except Err Str)
    (i : Nat) (ty : Ty) (d : Arg) (u : Bool) (j : Nat)
    (h : FirstMatch (parsed cfg ls g ip) (familyLines (parse cfg ls) i) j) :
    reMatchIterTyped (parsed cfg ls g ip) i ty d u true = convGroup ip ty ((parsed cfg ls g ip).at j) := by
  rw [← order_eq_familyLines (Ccp.C03.parse_forest cfg ls) i] at h
  exact iterTyped_first (parsed cfg ls g ip) i ty d u true j h

/-- **Default, parsed configs**: the default (converted iff not untyped) is the answer exactly when
neither line `i` nor any of its descendants matches. -/
theorem iterTyped_default_parsed (cfg : Cfg) (ls : List Str) (g : Str → GroupRes) (ip : Arg → Except Err Str)
    (i : Nat) (ty : Ty) (d : Arg) (u : Bool)
    (h : ∀ j, j = i ∨ IsAncestor (parse cfg ls) i j → matched ((parsed cfg ls g ip).at j) = false) :
    reMatchIterTyped (parsed cfg ls g ip) i ty d u true = (if u then .ok (Val.ofArg d) else conv ip ty d) := by
  apply iterTyped_default (parsed cfg ls g ip) i ty d u true
  intro k hk
  exact h k (((order_is_descendants cfg ls i).2.1 k).mp hk)

/-- **List variant, parsed configs**: the conversion mapped over the matching lines among line `i`
and its descendants, in config order. -/
theorem listTyped_spec_parsed (cfg : Cfg) (ls : List Str) (g : Str → GroupRes) (ip : Arg → Except Err Str)
    (i : Nat) (ty : Ty) :
    reListIterTyped (parsed cfg ls g ip) i ty true =
      ((familyLines (parse cfg ls) i).filter (fun j => matched ((parsed cfg ls g ip).at j))).mapM
        (fun j => convGroup ip ty ((parsed cfg ls g ip).at j)) := by
  have he : order (parsed cfg ls g ip).t i true = familyLines (parse cfg ls) i :=
    order_eq_familyLines (Ccp.C03.parse_forest cfg ls) i
  rw [listTyped_spec, he]; rfl

/-- **Config level, parsed configs**: the lines read are those without an ancestor, in config order. -/
theorem root_iter_spec_parsed (cfg : Cfg) (ls : List Str) (g : Str → GroupRes) (ip : Arg → Except Err Str)
    (ty : Ty) (d : Arg) (u : Bool) :
    let c := parsed cfg ls g ip
    (∀ j, j ∈ roots c.t ↔ j < c.t.size ∧ ancestors c.t j = []) ∧
    (∀ j, FirstMatch c (roots c.t) j → rootIterTyped c ty d u = convGroup ip ty (c.at j)) ∧
    (NoMatch c (roots c.t) → rootIterTyped c ty d u = (if u then .ok (Val.ofArg d) else conv ip ty d)) := by
  intro c
  have hf : Forest c.t := Ccp.C03.parse_forest cfg ls
  have h := root_iter_spec c ty d u
  refine ⟨fun j => ?_, h.2.2.1, h.2.2.2⟩
  rw [h.1 j, root_iff_no_ancestors hf j]

/-! ## outside the property's quantifier (the property speaks of "the requested capture group")

### the `groupdict=` path, as the code is now -/

/-- `get_regex_typed_dict` without a match: every key gets the default, unconverted. -/
theorem typedDict_nomatch (c : DCtx) (d : Arg) :
    typedDict c d none = .ok (c.keys.map (fun _ => Val.ofArg d)) := rfl

/-- `get_regex_typed_dict`, one key: a participating group is converted — unless its text *equals*
the default (the code tests `value != default`), in which case the text is returned unconverted;
a key that is no group name of the pattern gets the default; a non-participating group is `None`,
converted like any value (`str(None)`, `int(None)` raising) unless the default is `None` too. -/
theorem dictEntry_spec (ip : Arg → Except Err Str) (d : Arg) (ty : Ty) (s : Str) :
    (Arg.str s ≠ d → dictEntry ip d (some ty) (.val s) = conv ip ty (.str s)) ∧
    (dictEntry ip (.str s) (some ty) (.val s) = .ok (.str s)) ∧
    (dictEntry ip d none (.val s) = .ok (.str s)) ∧
    (dictEntry ip d (some ty) .noGroup = .ok (Val.ofArg d)) ∧
    (Arg.none ≠ d → dictEntry ip d (some ty) .unset = conv ip ty .none) ∧
    (dictEntry ip .none (some ty) .unset = .ok .none) := by
  refine ⟨fun h => by simp [dictEntry, h], by simp [dictEntry], rfl, rfl, fun h => by simp [dictEntry, h],
    by simp [dictEntry]⟩

/-- `re_match_iter_typed(groupdict=…, recurse=True)` does follow the family order: the typed dict of
the first matching line of `order t i true`, the all-default dict when none matches. -/
theorem iterDict_recurse (c : DCtx) (i : Nat) (d : Arg) :
    reMatchIterDict c i d true = typedDict c d (firstSome c (order c.t i true)) ∧
    (∀ pre j post rows, order c.t i true = pre ++ j :: post → (∀ k ∈ pre, c.at k = none) → c.at j = some rows →
      reMatchIterDict c i d true = typedDict c d (some rows)) ∧
    ((∀ k ∈ order c.t i true, c.at k = none) →
      reMatchIterDict c i d true = .ok (c.keys.map (fun _ => Val.ofArg d))) := by
  refine ⟨iterDict_recurse_eq c i d, ?_, ?_⟩
  · intro pre j post rows hl hpre hj
    rw [iterDict_recurse_eq, hl, firstSome_split c pre post j hpre, hj]
  · intro h
    rw [iterDict_recurse_eq, firstSome_none c _ h]; rfl

/-- **Defective behaviour** of `re_match_iter_typed(groupdict=…, recurse=False)`: when the line
itself does not match, the answer is computed from the *first child alone*, whether or not it
matches (the loop body returns unconditionally); later children are never read.  The statement
one would expect (first matching line of `order t i false`) is false, see the example below. -/
theorem iterDict_norecurse_partial (c : DCtx) (i : Nat) (d : Arg) :
    (∀ rows, c.at i = some rows → reMatchIterDict c i d false = typedDict c d (some rows)) ∧
    (c.at i = none → reMatchIterDict c i d false = typedDict c d ((children c.t i).head?.bind c.at)) := by
  constructor
  · intro rows h; simp [reMatchIterDict, h]
  · intro h
    simp only [reMatchIterDict, h]
    cases children c.t i <;> rfl

/-- **Defective behaviour** of `re_list_iter_typed(groupdict=…)`: it never returns.  The answer is
`NameError` (`retval` is read before it is assigned) unless the conversion of the first line it
processes raises first. -/
theorem listDict_never_returns_partial (c : DCtx) (i : Nat) (r : Bool) :
    (∀ rows, reListIterDict c i r ≠ .ok rows) ∧
    (listDictFirst c i r = none → reListIterDict c i r = .error .nameError) ∧
    (∀ mm vs, listDictFirst c i r = some mm → typedDict c .none mm = .ok vs →
      reListIterDict c i r = .error .nameError) := by
  refine ⟨?_, ?_, ?_⟩
  · intro rows h
    unfold reListIterDict at h
    split at h
    · cases h
    · split at h <;> cases h
  · intro h; simp [reListIterDict, h]
  · intro mm vs h hv; simp [reListIterDict, h, hv]

/-- the `groupdict=` ladder: `None` is the group-index path of the property, a `dict` the path above, and
anything else (a list of pairs, a str, an int, a tuple, `False`, …) is refused with `ValueError` whatever the
two paths would have answered -/
theorem gdDispatch_spec {α : Type} (plain dict : Except Err α) :
    gdDispatch .none plain dict = plain ∧ gdDispatch .dict plain dict = dict ∧
    gdDispatch .other plain dict = .error .valueError := ⟨rfl, rfl, rfl⟩

/-! ### the `search_safe` guard, on the edit states of `Ccp.Edit` -/

/-- **Stale config**: on a state whose checkpoint moved since the last commit (`S.stale`), `re_match`,
`re_match_typed`, `re_match_iter_typed` and `re_list_iter_typed` of a committed object and the config-level
`CiscoConfParse.re_match_iter_typed` all raise `NotImplementedError`; on a non-stale state they answer from the tree
of the last commit (the config-level method: from the current list, `root_on_committed`). -/
theorem stale_raises (s : Edit.S) (g : Str → GroupRes) (ip : Arg → Except Err Str)
    (h : Nat) (ty : Ty) (d : Arg) (u r : Bool) :
    (s.stale = true →
      stMatch s g ip h d = .error .notImplemented ∧ stMatchTyped s g ip h ty d u = .error .notImplemented ∧
      stIterTyped s g ip h ty d u r = .error .notImplemented ∧ stListTyped s g ip h ty r = .error .notImplemented ∧
      stRootIterTyped s g ip ty d u = .error .notImplemented) ∧
    (s.stale = false →
      stMatch s g ip h d = reMatch (onState s g ip) h d ∧
      stMatchTyped s g ip h ty d u = reMatchTyped (onState s g ip) h ty d u ∧
      stIterTyped s g ip h ty d u r = reMatchIterTyped (onState s g ip) h ty d u r ∧
      stListTyped s g ip h ty r = reListIterTyped (onState s g ip) h ty r ∧
      stRootIterTyped s g ip ty d u = rootOnItems s g ip ty d u) := by
  constructor <;> intro hs <;> simp [stMatch, stMatchTyped, stIterTyped, stListTyped, stRootIterTyped, guarded, hs]

/-- which states are stale (from `Ccp.Edit`): a fresh parse is not; `ConfigList.insert` makes the
state stale iff `auto_commit` is off; `commit` clears it; the guard of the typed helpers is the
one every search API has (`Op.probe`). -/
theorem stale_states (cfg : Cfg) (auto : Bool) (w : Nat) (ls : List Str) (s : Edit.S) (k : Int) (txt : Str) :
    (Edit.init cfg auto w ls).stale = false ∧ (Edit.init cfg auto w ls).tree = parse cfg ls ∧
    (Edit.step s (.insert k txt)).1.stale = !s.auto ∧
    (Edit.step s .commit).1.stale = false ∧
    ((Edit.step s .probe).2 = .error .notImplemented ↔ s.stale = true) := by
  refine ⟨rfl, rfl, ?_, rfl, ?_⟩
  · cases ha : s.auto <;> simp [Edit.step, Edit.autoCommit, Edit.commit, ha]
  · cases hs : s.stale <;> simp [Edit.step, hs]

/-- `CiscoConfParse.re_match_iter_typed` on a committed state (the current list is the list of the
last commit, no checkpoint moved) is the config-level extraction of `root_iter_spec` on the committed tree; whenever
the current list is the list of the last commit, the body below the guard is that extraction. -/
theorem root_on_committed (s : Edit.S) (g : Str → GroupRes) (ip : Arg → Except Err Str) (ty : Ty) (d : Arg) (u : Bool)
    (h : s.items = Edit.committedItems s.tree) :
    rootOnItems s g ip ty d u = rootIterTyped (onState s g ip) ty d u ∧
    (s.stale = false → stRootIterTyped s g ip ty d u = rootIterTyped (onState s g ip) ty d u) := by
  have hb : rootOnItems s g ip ty d u = rootIterTyped (onState s g ip) ty d u := by
    unfold rootOnItems rootIterTyped
    rw [h, Edit.committedItems, rootLoopItems_committed g ip s.tree ty s.tree.texts 0 (by simp)]
    simp [onState, T.size, List.range_eq_range']
  exact ⟨hb, fun hs => by simp [stRootIterTyped, guarded, hs, hb]⟩

/-- **The config-level method is guarded like every other search**: `CiscoConfParse.re_match_iter_typed` raises
`NotImplementedError` on every stale state, whatever the list holds (it never reads an uncommitted line), and on a
non-stale state it is the loop over the current list.
(Before the repair `fix: CiscoConfParse.re_match_iter_typed() refuses to search an uncommitted config` this was
`root_unguarded_partial`: the answer did not depend on `S.stale`, and on a stale state the method read the current
list, uncommitted lines included -- finding FC07a.) -/
theorem root_guarded (s : Edit.S) (g : Str → GroupRes) (ip : Arg → Except Err Str) (ty : Ty) (d : Arg) (u : Bool) :
    (s.stale = true → stRootIterTyped s g ip ty d u = .error .notImplemented) ∧
    (s.stale = false → stRootIterTyped s g ip ty d u = rootOnItems s g ip ty d u) := by
  constructor <;> intro hs <;> simp [stRootIterTyped, guarded, hs]

/-! ### non-vacuity: a concrete config, parsed by the tree model -/

def exCfg : Cfg := { ios := true, delims := ['!'], ignoreBlank := false }

def exLines : List Str :=
  ["interface A".toList, " description x".toList, "  mtu 1500".toList, " mtu 9000".toList,
   "interface B".toList, "mtu 7".toList]

/-- oracle of `re.search(r"mtu (\d+)", text).group(1)` on the texts above -/
def exG (s : Str) : GroupRes :=
  match lstrip s with
  | 'm' :: 't' :: 'u' :: ' ' :: r => .val r
  | _ => .noMatch

def exC : Ctx := { g := exG, ip := fun _ => .error (.ext []), t := parse exCfg exLines }

example : exC.t.parents = [0, 0, 1, 0, 4, 5] := by decide +kernel
example : order exC.t 0 true = [0, 1, 2, 3] ∧ order exC.t 0 false = [0, 1, 3] := by decide +kernel
-- the grandchild (line 2) comes before the later child (line 3) with recurse, not without
example : FirstMatch exC (order exC.t 0 true) 2 := ⟨[0, 1], [3], by decide +kernel, by decide +kernel, by decide +kernel⟩
example : FirstMatch exC (order exC.t 0 false) 3 := ⟨[0, 1], [], by decide +kernel, by decide +kernel, by decide +kernel⟩
example : reMatchIterTyped exC 0 .int (.int (-1)) false true = .ok (.int 1500) := by decide +kernel
example : reMatchIterTyped exC 0 .int (.int (-1)) false false = .ok (.int 9000) := by decide +kernel
-- no line of the family of line 4 matches: default, converted / untyped
example : NoMatch exC (order exC.t 4 true) := by unfold NoMatch; decide +kernel
example : reMatchIterTyped exC 4 .int (.str "0".toList) false true = .ok (.int 0) := by decide +kernel
example : reMatchIterTyped exC 4 .int (.str "0".toList) true true = .ok (.str "0".toList) := by decide +kernel
example : reListIterTyped exC 0 .str true = .ok [.str "1500".toList, .str "9000".toList] := by decide +kernel
-- roots are 0, 4, 5; the first matching root is line 5
example : roots exC.t = [0, 4, 5] ∧ FirstMatch exC (roots exC.t) 5 :=
  ⟨by decide +kernel, [0, 4], [], by decide +kernel, by decide +kernel, by decide +kernel⟩
example : rootIterTyped exC .float .none false = .ok (.float "7".toList) := by decide +kernel
-- unset group: re_match_typed answers the default, re_match_iter_typed answers str(None)
example : reMatchTyped { exC with g := fun _ => .unset } 0 .str (.str "d".toList) false = .ok (.str "d".toList) := by
  decide +kernel
example : reMatchIterTyped { exC with g := fun _ => .unset } 0 .str (.str "d".toList) false true
    = .ok (.str "None".toList) := by decide +kernel

/-! ### non-vacuity for the parts outside the quantifier -/

-- descendants of line 0 of the example config: 1, 2, 3 (line 2 is a grandchild)
example : familyLines exC.t 0 = [0, 1, 2, 3] ∧ IsAncestor exC.t 0 2 :=
  ⟨by decide +kernel, ((order_is_descendants exCfg exLines 0).2.1 2).mp (by decide +kernel) |>.resolve_left (by decide)⟩

/-- `mtu (?P<m>\d+)` with `groupdict={"m": int}` -/
def exD : DCtx :=
  { gd := fun s => match exG s with | .val r => some [.val r] | _ => none,
    ip := fun _ => .error (.ext []), keys := [some .int], t := parse exCfg exLines }

-- recurse=True finds the grandchild; recurse=False stops at the first child (" description x", no match)
-- and answers the default although the later child " mtu 9000" matches
example : reMatchIterDict exD 0 (.int (-1)) true = .ok [.int 1500] := by decide +kernel
example : reMatchIterDict exD 0 (.int (-1)) false = .ok [.int (-1)] := by decide +kernel
example : children exD.t 0 = [1, 3] ∧ exD.at 1 = none ∧ exD.at 3 = some [.val "9000".toList] := by decide +kernel
example : reListIterDict exD 0 true = .error .nameError := by decide +kernel
-- a group text equal to the default is returned unconverted
example : reMatchIterDict exD 5 (.str "7".toList) true = .ok [.str "7".toList] := by decide +kernel

/-- parse, then `ConfigList.insert(1, " mtu 7")` with auto_commit off: stale -/
def exS : Edit.S := (Edit.step (Edit.init exCfg false 1 exLines) (.insert 1 " mtu 7".toList)).1

example : exS.stale = true := by decide +kernel
example : stIterTyped exS exG (fun _ => .error (.ext [])) 0 .int (.int (-1)) false true = .error .notImplemented := by
  decide +kernel
-- the config-level method refuses as well (before the repair of FC07a it answered 7, from the uncommitted indented line)
example : stRootIterTyped exS exG (fun _ => .error (.ext [])) .int (.int (-1)) false = .error .notImplemented := by
  decide +kernel
example : rootOnItems exS exG (fun _ => .error (.ext [])) .int (.int (-1)) false = .ok (.int 7) := by decide +kernel
-- hypothesis of `root_on_committed`: after the commit the current list is the committed one, and the method answers
example : (Edit.step exS .commit).1.items = Edit.committedItems (Edit.step exS .commit).1.tree ∧
    (Edit.step exS .commit).1.stale = false ∧
    stRootIterTyped (Edit.step exS .commit).1 exG (fun _ => .error (.ext [])) .int (.int (-1)) false = .ok (.int 7) := by
  decide +kernel
-- after a commit the state is searchable again and the inserted line is a child of line 0
example : stIterTyped (Edit.step exS .commit).1 exG (fun _ => .error (.ext [])) 0 .int (.int (-1)) false false
    = .ok (.int 7) := by decide +kernel

end Ccp.C05


/-! ## Defaults of every type (`Ccp.Model.TypedX`: the caller's `default` may also be a `float` or a `bool`)

Python compares `0 == False == 0.0`, `1500 == 1500.0` …, but what is returned for a default depends on its TYPE. -/
namespace Ccp.C05
open Ccp.Typed Ccp.TypedX Ccp.Tree Ccp.Py

/-- **Nothing new on the old defaults**: with a default that is `None`, a `str` or an `int`, the extended helpers are
the helpers of `Ccp.Model.Typed` (whose `IPv4Obj` oracle is the extended one restricted to those arguments). -/
theorem typedX_old_defaults (x : CtxX) (i : Nat) (ty : Ty) (a : Arg) (u r : Bool) :
    reMatchIterTypedX x i ty (.base a) u r = liftV (reMatchIterTyped x.c i ty a u r) ∧
    reMatchTypedX x i ty (.base a) u = liftV (reMatchTyped x.c i ty a u) ∧
    rootIterTypedX x ty (.base a) u = liftV (rootIterTyped x.c ty a u) ∧
    reMatchX x i (.base a) = liftV (reMatch x.c i a) := by
  refine ⟨?_, ?_, ?_, ?_⟩
  · rw [iterX_eq_firstLoop, iter_eq_firstLoop, typedDefaultX_base]
    change _ = liftV (match firstLoop x.c ty (order x.t i r) with | some v => v | none => typedDefault x.c ty a u)
    generalize firstLoop x.c ty (order x.t i r) = o
    cases o <;> rfl
  · unfold reMatchTypedX reMatchTyped
    cases x.c.at i <;> simp only [typedDefaultX_base] <;> rfl
  · rw [rootX_eq_firstLoop, root_eq_firstLoop, typedDefaultX_base]
    change _ = liftV (match firstLoop x.c ty (roots x.t) with | some v => v | none => typedDefault x.c ty a u)
    generalize firstLoop x.c ty (roots x.t) = o
    cases o <;> rfl
  · unfold reMatchX reMatch
    cases x.c.at i <;> rfl

/-- **First match, any default**: when `j` is the first matching line of the family order the answer is the converted
group of line `j`; the default — whatever its type — plays no part. -/
theorem iterTypedX_first (x : CtxX) (i : Nat) (ty : Ty) (d : ArgX) (u r : Bool) (j : Nat)
    (h : FirstMatch x.c (order x.t i r) j) :
    reMatchIterTypedX x i ty d u r = liftV (convGroup x.c.ip ty (x.c.at j)) := by
  obtain ⟨pre, post, hl, hpre, hj⟩ := h
  rw [iterX_eq_firstLoop, hl, firstLoop_split x.c ty pre post j hpre hj]

/-- **Default, any type**: when no line of the family order matches, the answer is the default itself
(`untyped_default`) or `result_type(default)` computed from the default AS TYPED by the caller. -/
theorem iterTypedX_default (x : CtxX) (i : Nat) (ty : Ty) (d : ArgX) (u r : Bool)
    (h : NoMatch x.c (order x.t i r)) :
    reMatchIterTypedX x i ty d u r = (if u then .ok (ValX.ofArgX d) else convX x.ipx ty d) := by
  rw [iterX_eq_firstLoop, firstLoop_none x.c ty _ h]; rfl

/-- the same for the one-line variant and the config-level variant -/
theorem matchTypedX_default (x : CtxX) (i : Nat) (ty : Ty) (d : ArgX) (u : Bool)
    (h : x.c.at i = .noMatch ∨ x.c.at i = .unset) :
    reMatchTypedX x i ty d u = (if u then .ok (ValX.ofArgX d) else convX x.ipx ty d) := by
  rcases h with h | h <;> simp [reMatchTypedX, h, typedDefaultX]

theorem rootIterX_default (x : CtxX) (ty : Ty) (d : ArgX) (u : Bool) (h : NoMatch x.c (roots x.t)) :
    rootIterTypedX x ty d u = (if u then .ok (ValX.ofArgX d) else convX x.ipx ty d) := by
  rw [rootX_eq_firstLoop, firstLoop_none x.c ty _ h]; rfl

/-- `re_match` hands the default back as the object it is -/
theorem matchX_default (x : CtxX) (i : Nat) (d : ArgX) (h : x.c.at i = .noMatch) :
    reMatchX x i d = .ok (ValX.ofArgX d) := by
  simp [reMatchX, h]

/-- **`result_type(default)` by type of the default**: `str` is `str(default)`; `int` truncates a float towards zero and
maps `True/False` to `1/0`; `float` leaves a float alone and maps `True/False` to `1.0/0.0`; `IPv4Obj` is the oracle. -/
theorem convX_spec (ipx : ArgX → Except Err Str) :
    (∀ d, convX ipx .str d = .ok (.base (.str (pyStrX d)))) ∧
    (∀ neg ip frac, convX ipx .int (.float neg ip frac) = .ok (.base (.int (if neg then -(ip : Int) else ip)))) ∧
    (∀ b, convX ipx .int (.bool b) = .ok (.base (.int (if b then 1 else 0)))) ∧
    (∀ neg ip frac, convX ipx .float (.float neg ip frac) = .ok (.base (.float (floatRepr neg ip frac)))) ∧
    (∀ b, convX ipx .float (.bool b) = .ok (.base (.float (if b then "1.0".toList else "0.0".toList)))) := by
  refine ⟨?_, fun _ _ _ => rfl, fun _ => rfl, fun _ _ _ => rfl, fun _ => rfl⟩
  intro d
  cases d with
  | base a => rfl
  | float neg ip frac => rfl
  | bool b => rfl

/-- **A default keeps its type**: defaults of different types never have the same `str()` — an `int` has no decimal
point, a `float` has one, a `bool` starts with a letter — although `1500 == 1500.0`, `0 == False == 0.0`, `1 == True == 1.0`
in Python.  So `result_type=str` tells them apart: an answer remembered for one of them is wrong for the others. -/
theorem default_keeps_its_type (n : Int) (neg : Bool) (ip : Nat) (frac : Str) (b : Bool) :
    pyStrX (.base (.int n)) ≠ pyStrX (.float neg ip frac) ∧
    pyStrX (.bool b) ≠ pyStrX (.base (.int n)) ∧
    pyStrX (.bool b) ≠ pyStrX (.float neg ip frac) := by
  refine ⟨?_, ?_, ?_⟩
  · intro h
    have h1 := floatRepr_has_point neg ip frac
    have h2 := intToDec_no_point n
    simp only [pyStrX, pyStr] at h
    rw [← h] at h1
    exact h2 h1
  · intro h
    obtain ⟨c, cs, hc, hd⟩ := intToDec_head n
    simp only [pyStrX, pyStr] at h
    rw [hc] at h
    cases b <;> simp at h <;> (rcases hd with hd | hd <;> (rw [← h.1] at hd; revert hd; decide))
  · intro h
    obtain ⟨c, cs, hc, hd⟩ := floatRepr_head neg ip frac
    simp only [pyStrX] at h
    rw [hc] at h
    cases b <;> simp at h <;> (rcases hd with hd | hd <;> (rw [← h.1] at hd; revert hd; decide))

/-! ### examples (non-vacuity) -/

/-- a config in which no line has an `mtu`, `IPv4Obj` refusing everything -/
def exX : CtxX :=
  { g := fun _ => .noMatch, ipx := fun _ => .error (.ext "AddressValueError".toList),
    t := parse { ios := true, delims := ['!'], ignoreBlank := false } ["interface Serial1/0".toList, " description uplink".toList] }

example : NoMatch exX.c (order exX.t 0 true) := by unfold NoMatch; decide +kernel
example : reMatchIterTypedX exX 0 .str (.base (.int 1500)) false true = .ok (.base (.str "1500".toList)) := by decide +kernel
example : reMatchIterTypedX exX 0 .str (.float false 1500 "0".toList) false true = .ok (.base (.str "1500.0".toList)) := by decide +kernel
example : reMatchIterTypedX exX 0 .str (.bool false) false true = .ok (.base (.str "False".toList)) := by decide +kernel
example : reMatchIterTypedX exX 0 .int (.float true 2 "5".toList) false false = .ok (.base (.int (-2))) := by decide +kernel
example : reMatchIterTypedX exX 0 .float (.bool true) false true = .ok (.base (.float "1.0".toList)) := by decide +kernel
example : reMatchIterTypedX exX 0 .int (.bool true) true true = .ok (.bool true) := by decide +kernel
example : rootIterTypedX exX .str (.float true 0 "0".toList) false = .ok (.base (.str "-0.0".toList)) := by decide +kernel
example : reMatchTypedX exX 1 .ip (.float false 1 "0".toList) false = .error (.ext "AddressValueError".toList) := by decide +kernel
example : exX.c.at 0 = .noMatch := by decide +kernel
example : FirstMatch { exX with g := fun s => if s = " description uplink".toList then .val "7".toList else .noMatch }.c
    (order exX.t 0 true) 1 := ⟨[0], [], by decide +kernel, by decide +kernel, by decide +kernel⟩

end Ccp.C05
