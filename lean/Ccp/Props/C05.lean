import Ccp.Model.Typed
namespace Ccp.C05
open Ccp.Typed Ccp.Tree

theorem order_spec (t : T) (i : Nat) :
    order t i true = i :: allChildren t i ∧ order t i false = i :: children t i := ⟨rfl, rfl⟩

end Ccp.C05
