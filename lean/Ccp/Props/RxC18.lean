import Ccp.Gen.Tables
/-!
# RxC18 — the regex-related constants of cli_script.py that `Ccp.Model.Cli` and its harness rely on

The regex engine is a *parameter* of the C18 model (`Oracle.split` = `re.split(self.word_delimiter, s)`, `Oracle.rx` =
`re.search(rgx, s, re.I)`), so there is no hand-written scanner for a fixed pattern here.  What the model and the
correspondence harness (`harness/props/c18.py`) do hard-wire is *which* pattern and flags the code hands to the engine
by default and which literal separators it uses.  `Ccp.Gen.Tables` is regenerated from `/repo`'s source on every run
(`harness/translate.py` + `harness/rxscan.py`, AST only); the theorem states that these are unchanged.

| source (cli_script.py) | where it is hard-wired |
|---|---|
| `--word_delimiter` default `r"\s+"` (ipgrep, macgrep; argparse and the `getattr` fall-back of `CliApplication.__init__`) | `harness/props/c18.py` (`delim … else r"\s+"`: the rows of `Oracle.split` are computed with it) |
| `--regex` default `"."` (macgrep; argparse and `getattr`) | `harness/props/c18.py` (`regex … else "."`), `MacArgs.regex` in `lean/Ccp/Model/Cli.lean` |
| `--delimiter` default `","`, `--output` default `"raw_text"`, `--syntax` default `"ios"`, `--method` default `"diff"` | `FindArgs` / `DiffArgs`, `rawText`, `ios`, `mDiff` in `lean/Ccp/Model/Cli.lean`; `harness/props/c18.py` |
| `ipgrep_command`: `subnets.split(",")`, `re.split(self.word_delimiter, text)`, `text.splitlines()` | `ipgrep` (`splitOn ','`, `O.split`, `Diff.splitlines`) |
| `find_ip46_line_matches`: `re.split(self.word_delimiter, line)` | `lineScan` (`O.split`) |
| `macgrep_command`: `mac_regex.split(",")`, `re.split(self.word_delimiter, text)`, `text.splitlines()` | `macgrep` (`splitOn ','`, `O.split`, `Diff.splitlines`) |
| `find_maceui_line_matches`: `re.split(self.word_delimiter, line)` | `macLineHas` (`O.split`) |
| `MACEUISearch.search_all_formats`: `re.search(rgx, …, re.I)` on `dash`, `colon`, `cisco`, `dash.replace('-', '')` | `searchAllFormats`, `macTexts` (`O.rx` is the case-insensitive search) |

`<dynamic>` marks a pattern that is not a constant of the source (here: `self.word_delimiter`, the user's regex); the
flags of such a call are still recorded.  `rx…` are *scan sets* (`harness/rxscan.py`, `scan_closure`): for the named entry point and every helper of the same
source file it reaches, every regex call (with flags; a compiled pattern's method is reported as the `re.` function
with the pattern's text), literal `str` separator and `"lit" in …` test, as a sorted duplicate-free list of
`(what, text, flags or detail)`.  So a regex call that is added to, or removed from, the modelled code breaks the
obligation as well, while moving a test into a helper method, re-ordering tests, negating one (`!=` is reported as
`==`, `not in` as `in`), hoisting a pattern into a compiled constant or renaming a constant / local variable does not.

**Scan sets as revised.**  The lists below contain only what identifies the regex / separator a scanner was written
for: regex-engine calls (`re.*`, methods of compiled patterns, the `re_*` helpers of the package) with the pattern in
*canonical form* — canonical verbose form and no VERBOSE flag for a pattern compiled with `re.VERBOSE`; group names
removed (`(?P<n>…)` is written `(…)`, `(?P=n)` by number); redundant escapes removed (`\:` is `:`); a pattern handed to a
same-file helper as an argument, or built from a local name that ranges over a constant collection, reported once per
value; a search that cannot fail (`.*`) not reported — with the flags and, for `re.sub`, the replacement; and the
separator arguments of `str.split / rsplit / partition / rpartition / join / replace / strip / splitlines`.  The literal
tests (`"lit" in …`, comparisons with string literals and their subscripts, `str.startswith / endswith / find …`) that
earlier versions of these lists contained are now the INFORMATIONAL definitions `Gen.rx…Info`: no theorem is about
them, so reading a regex group into a local, hoisting a `.split()`, merging branches or renaming a group does not break
an obligation.  Where the text above speaks of such a test as part of a scan set, read: part of `…Info`.
-/
namespace Ccp.RxC18

/-- **regexes_as_modelled** — see the table in the module comment above: every regular expression / separator of the
source for which the model contains a hand-written scanner has the text that scanner was written for.  (The goals
are named `regexes_as_modelled__<definition>`, so that a failing build names the constant that was edited.) -/
theorem regexes_as_modelled :
    Gen.rxCliArgDefaults =
      [("branch --delimiter", ","),
       ("branch --output", "raw_text"),
       ("branch --syntax", "ios"),
       ("child --delimiter", ","),
       ("child --output", "raw_text"),
       ("child --syntax", "ios"),
       ("diff --method", "diff"),
       ("diff --syntax", "ios"),
       ("ipgrep --word_delimiter", "\\s+"),
       ("macgrep --regex", "."),
       ("macgrep --word_delimiter", "\\s+"),
       ("parent --delimiter", ","),
       ("parent --output", "raw_text"),
       ("parent --syntax", "ios")] ∧
    Gen.rxCliGetattrDefaults =
      [("method", "diff"),
       ("output", ""),
       ("regex", "."),
       ("subnets", ""),
       ("syntax", "ios"),
       ("word_delimiter", "\\s+")] ∧
    Gen.rxCliIpgrep =
      [("re.split", "<dynamic>", ""),
       ("str.split", ",", ""),
       ("str.splitlines()", "", "")] ∧
    Gen.rxCliMacgrep =
      [("re.split", "<dynamic>", ""),
       ("str.split", ",", ""),
       ("str.splitlines()", "", "")] ∧
    Gen.rxCliMacSearch =
      [("re.search", "<dynamic>", "IGNORECASE"),
       ("str.replace", "'-',''", "")] := by
  refine ⟨?regexes_as_modelled__rxCliArgDefaults, ?regexes_as_modelled__rxCliGetattrDefaults,
    ?regexes_as_modelled__rxCliIpgrep, ?regexes_as_modelled__rxCliMacgrep,
    ?regexes_as_modelled__rxCliMacSearch⟩
  all_goals rfl

end Ccp.RxC18
