import Ccp.Model.Checkpoint
/-!
# C07 — the search seatbelt at the level of the integer checkpoints

`Ccp.Edit` (C06/C07) carries a boolean `stale`.  Here the two integers the code really compares are modelled, with the
tuple hash as a parameter, and the boolean reading is derived: after any number of list inserts since the last commit
the seatbelt trips iff the hashes of the inserted fresh objects do not sum to zero.  CPython hashes are 61-bit signed
values, so "sum to zero" is the (only) way an insert can go unnoticed — the assumption the boolean model makes is
exactly `NoCancel`.
-/
namespace Ccp.C07Ck
open Ccp.Py Ccp.Checkpoint

theorem total_append (h : Item → Int) (a b : List Item) : total h (a ++ b) = total h a + total h b := by
  simp [total, List.sum_append]

theorem total_cons (h : Item → Int) (x : Item) (l : List Item) : total h (x :: l) = h x + total h l := by
  simp [total]

theorem total_insertAt (h : Item → Int) (l : List Item) (p : Nat) (x : Item) :
    total h (insertAt l p x) = total h l + h x := by
  unfold insertAt
  rw [total_append, total_cons]
  have := total_append h (l.take p) (l.drop p)
  rw [List.take_append_drop] at this
  omega

/-- `search_safe` compares the two integers -/
theorem safe_iff (s : St) : safe s = true ↔ s.current = s.commit := by
  simp [safe]

/-- a commit always leaves the seatbelt closed, and the checkpoint is the sum over the rebuilt list -/
theorem commit_safe (h : Item → Int) (keep : Str → Bool) (s : St) :
    safe (commit h keep s) = true ∧ (commit h keep s).commit = total h (commit h keep s).items := by
  simp [commit, safe]

/-- the state right after a commit, or after any edits that recompute nothing -/
def Synced (s : St) : Prop := s.current = s.commit

/-- one insert: the new current checkpoint is the sum over the new list, i.e. old sum + hash of the fresh object -/
theorem insert_current (h : Item → Int) (s : St) (p : Nat) (t : Str) :
    (lineInsert h s p t).current = total h s.items + h (-1, t) ∧ (lineInsert h s p t).commit = s.commit := by
  simp [lineInsert, total_insertAt]

/-- `pop`, `delete` and the text setter do not touch the checkpoints: such an edit alone is NOT noticed by the seatbelt
(the property only demands the refusal after an insert or a family append, which inserts) -/
theorem pop_setText_keep_checkpoints (s : St) (p : Nat) (t : Str) :
    (pop s p).current = s.current ∧ (pop s p).commit = s.commit ∧
    (setText s p t).current = s.current ∧ (setText s p t).commit = s.commit := by
  simp [pop, setText]

/-- texts inserted by a run of inserts -/
def insertMany (h : Item → Int) (s : St) : List (Nat × Str) → St
  | [] => s
  | (p, t) :: r => insertMany h (lineInsert h s p t) r

theorem insertMany_items_total (h : Item → Int) (s : St) (ins : List (Nat × Str)) :
    total h (insertMany h s ins).items = total h s.items + (ins.map (fun pt => h (-1, pt.2))).sum := by
  induction ins generalizing s with
  | nil => simp [insertMany]
  | cons pt r ih =>
    obtain ⟨p, t⟩ := pt
    simp only [insertMany, List.map_cons, List.sum_cons]
    rw [ih]
    simp only [lineInsert, total_insertAt]
    omega

/-- **the seatbelt after k ≥ 1 inserts since a commit**: with `commit = Σ h` over the committed list (true right after
`commit`), the current checkpoint exceeds the commit checkpoint by exactly the sum of the hashes of the fresh objects -/
theorem inserts_delta (h : Item → Int) (s : St) (hc : s.commit = total h s.items)
    (pt : Nat × Str) (ins : List (Nat × Str)) :
    (insertMany h s (pt :: ins)).current - (insertMany h s (pt :: ins)).commit
      = ((pt :: ins).map (fun q => h (-1, q.2))).sum := by
  have key : ∀ (l : List (Nat × Str)) (s : St) (p : Nat) (t : Str),
      (insertMany h (lineInsert h s p t) l).current = total h (insertMany h (lineInsert h s p t) l).items ∧
      (insertMany h (lineInsert h s p t) l).commit = s.commit := by
    intro l
    induction l with
    | nil => intro s p t; simp [insertMany, lineInsert]
    | cons q r ih =>
      intro s p t
      obtain ⟨p', t'⟩ := q
      have := ih (lineInsert h s p t) p' t'
      simp only [insertMany]
      refine ⟨this.1, ?_⟩
      rw [this.2]; simp [lineInsert]
  obtain ⟨p, t⟩ := pt
  have k := key ins s p t
  have tot := insertMany_items_total h s ((p, t) :: ins)
  simp only [insertMany] at tot ⊢
  rw [k.1, k.2, tot, hc]
  omega

/-- hence: searches are refused after the inserts iff the fresh hashes do not cancel -/
theorem inserts_unsafe_iff (h : Item → Int) (s : St) (hc : s.commit = total h s.items)
    (pt : Nat × Str) (ins : List (Nat × Str)) :
    safe (insertMany h s (pt :: ins)) = false ↔ ((pt :: ins).map (fun q => h (-1, q.2))).sum ≠ 0 := by
  have d := inserts_delta h s hc pt ins
  constructor
  · intro hs hz
    have : safe (insertMany h s (pt :: ins)) = true := by
      rw [safe_iff]; omega
    rw [this] at hs; exact Bool.noConfusion hs
  · intro hz
    cases hsafe : safe (insertMany h s (pt :: ins)) with
    | false => rfl
    | true =>
      rw [safe_iff] at hsafe
      exact absurd (by omega) hz

/-- the assumption under which the boolean `stale` of `Ccp.Edit` is exact: no non-empty batch of fresh objects has hashes
summing to zero (for CPython: no 61-bit cancellation) -/
def NoCancel (h : Item → Int) : Prop :=
  ∀ ts : List Str, ts ≠ [] → (ts.map (fun t => h (-1, t))).sum ≠ 0

theorem insert_sets_stale_of_noCancel (h : Item → Int) (hn : NoCancel h) (s : St)
    (hc : s.commit = total h s.items) (pt : Nat × Str) (ins : List (Nat × Str)) :
    safe (insertMany h s (pt :: ins)) = false := by
  rw [inserts_unsafe_iff h s hc]
  have := hn ((pt :: ins).map (·.2)) (by simp)
  simpa [List.map_map, Function.comp_def] using this

/-- and a commit closes it again, whatever happened before -/
theorem commit_restores (h : Item → Int) (keep : Str → Bool) (s : St) (ops : List Op) :
    safe (run h keep s (ops ++ [.commit])) = true := by
  simp [run, List.foldl_append, step, (commit_safe h keep _).1]

/-- a positive hash is one way to satisfy `NoCancel` (non-vacuity of the hypothesis) -/
example : NoCancel (fun it => (it.2.length : Int) + 1) := by
  intro ts hts
  have : ∀ l : List Str, 0 ≤ (l.map (fun t => ((t.length : Int) + 1))).sum := by
    intro l; induction l with
    | nil => simp
    | cons a r ih => simp only [List.map_cons, List.sum_cons]; omega
  cases ts with
  | nil => exact absurd rfl hts
  | cons a r =>
    simp only [List.map_cons, List.sum_cons]
    have := this r
    omega

/-- two inserts whose hashes cancel go unnoticed: the boolean abstraction needs its assumption (witness) -/
example :
    let h : Item → Int := fun it => if it.2 = ['a'] then 5 else if it.2 = ['b'] then -5 else 1
    let s : St := { items := [(0, ['x'])], current := 1, commit := 1 }
    safe (insertMany h s [(0, ['a']), (1, ['b'])]) = true ∧ safe (insertMany h s [(0, ['a'])]) = false := by
  decide

end Ccp.C07Ck
