import Ccp.Model.Edit
namespace Ccp.C06
open Ccp.Tree Ccp.Edit Ccp.Py

theorem placeholder_probe (s : S) : (step s .probe).1 = s := rfl

end Ccp.C06
