import Ccp.Proofs.Edit
import Ccp.Proofs.EditLinks
import Ccp.Proofs.EditFrame
import Ccp.Proofs.EditMulti
import Ccp.Proofs.EditPrefix
import Ccp.Proofs.EditBanner
import Ccp.Proofs.EditForms
/-!
# C06 — edits change exactly the targeted lines

Property theorems only; helper lemmas and the specification vocabulary live in
`Ccp.Proofs.Edit`:

* `NoFilter s` := `s.auto = false ∨ s.cfg.ignoreBlank = false` — the commit that may follow
  the edit does not filter blank lines.  This one hypothesis covers both cases of the text
  effect: auto-commit off (the texts are what the list operation left), and auto-commit on
  without `ignore_blank_lines` (`bootstrap` keeps the texts, `bootstrap_keeps_texts`).
  With auto-commit on *and* `ignore_blank_lines` the texts after the step are one bootstrap
  of the auto-commit-off result — the same lines minus, possibly, blank ones
  (`auto_commit_step_texts`).
* `insertPos n k` / `popPos n k` — Python's index normalisation for `list.insert` / `list.pop`;
* `expandLine after x a m` := `if m then (if after then [a, x] else [x, a]) else [a]`;
* `matchCount n row` := number of `true` among the first `n` row entries;
* `idsOf items` := the committed line numbers carried by the list elements, in order;
  `IdsDistinct items` := `(idsOf items).Nodup`; `IdsSub new old` := `(idsOf new).Sublist (idsOf old)`;
* `Plain cfg ls` := no line of `ls` starts a banner and, under syntax ios, none starts a macro
  (then the final parents are C02's `specParent`); `shiftAfter e p` := `if p ≤ e then p else p + 1`;
  `rank keep j` := number of kept positions below `j` (`Ccp.Proofs.EditLinks`);
* `Forest`, `ancestors` are the C03 vocabulary;
* the vocabulary of the second part on parent links (`PlainCommitted`, `PlainPayload`, `capturedBy`,
  `InsertFrame`, `MultiFrame`, `shiftAt`, `noIg`) is introduced where that part begins.

The last part is about `Ccp.Model.EditForms.stepX`: the other forms in which the editing calls take
their arguments (a `BaseCfgLine` for a text, a foreign line object as pattern), the rejections of
values that are neither, `ConfigList.remove`, a second `delete()` through a stale handle,
`factory=True` (`stepF`: no difference), and `classify_family_indent` called directly.

All other theorems are about `Ccp.Model.Edit.step`, for all states and payloads.  A state holds
a list of items (text + identity: the committed line number of the object, `none` for a
line created since the last commit); `s.texts` is the list of their texts.  An object
handle `h` is a committed line number.  The operations that find their object by
identity (object-level inserts, `replace_text`, `re_sub`) resolve it with `posOf` to its
current position `p` and work on states with uncommitted changes as well
(`handle_position`); `delete` and `append_to_family` index by the stored line number and
are only modelled on states without uncommitted changes.  A handle that cannot be
resolved is answered `dirtyHandle` — the harness skips such calls on both sides.  Regular
expressions are oracle data: `row[i]` says whether the regex matched line `i`, `reSub`
carries the substituted text.
-/
namespace Ccp.C06
open Ccp.Tree Ccp.Edit Ccp.Py

/-! ## what "one line added / one line changed, all others unchanged and in order" means -/

/-- A list of the form `take j ++ [x] ++ drop j` has exactly one more element, `x` sits at
`j`, removing position `j` gives back the old list, the lines before `j` keep their
position and the lines from `j` on move down by one. -/
theorem insertion_frame (old : List Str) (j : Nat) (x : Str) (hj : j ≤ old.length) :
    let new := old.take j ++ x :: old.drop j
    new.length = old.length + 1 ∧ new[j]? = some x ∧ new.eraseIdx j = old ∧
    (∀ m, m < j → new[m]? = old[m]?) ∧ (∀ m, j ≤ m → new[m + 1]? = old[m]?) :=
  inserted_frame old j x hj

/-- `List.set i x` changes position `i` only. -/
theorem replacement_frame (old : List Str) (i : Nat) (x : Str) (hi : i < old.length) :
    (old.set i x).length = old.length ∧ (old.set i x)[i]? = some x ∧
    ∀ m, m ≠ i → (old.set i x)[m]? = old[m]? := set_frame old i x hi

/-- Python's index normalisation of `list.insert(k, x)` on a list of length `n`. -/
theorem insertPos_spec (n : Nat) (k : Int) :
    insertPos n k ≤ n ∧
    (0 ≤ k → k ≤ n → (insertPos n k : Int) = k) ∧ ((n : Int) < k → insertPos n k = n) ∧
    (k < 0 → -(n : Int) ≤ k → (insertPos n k : Int) = n + k) ∧ (k < -(n : Int) → insertPos n k = 0) := by
  unfold insertPos
  refine ⟨?_, ?_, ?_, ?_, ?_⟩ <;> split <;> omega

/-- Python's index normalisation of `list.pop(k)` for an index in range. -/
theorem popPos_spec (n : Nat) (k : Int) :
    (0 ≤ k → (popPos n k : Int) = k) ∧ (k < 0 → -(n : Int) ≤ k → (popPos n k : Int) = n + k) := by
  unfold popPos
  refine ⟨?_, ?_⟩ <;> split <;> omega

/-! ## list-level insert / append / pop -/

/-- **`ConfigList.insert(k, txt)`** always succeeds and is exactly `list.insert`: one line
added at the normalised position, everything else unchanged and in order
(`insertion_frame`). -/
theorem insert_spec (s : S) (k : Int) (txt : Str) (hnf : NoFilter s) :
    (step s (.insert k txt)).2 = .ok () ∧
    (step s (.insert k txt)).1.texts
      = s.texts.take (insertPos s.texts.length k) ++ txt :: s.texts.drop (insertPos s.texts.length k) := by
  refine ⟨rfl, ?_⟩
  simp only [Edit.step, edited_texts s hnf, pyInsert_map, fresh_text, ← pyInsert_eq]
  rfl

/-- **`ConfigList.append(txt)`** always succeeds and adds the line at the end. -/
theorem append_spec (s : S) (txt : Str) (hnf : NoFilter s) :
    (step s (.append txt)).2 = .ok () ∧ (step s (.append txt)).1.texts = s.texts ++ [txt] := by
  refine ⟨rfl, ?_⟩
  simp only [Edit.step, edited_texts s hnf, List.map_append, List.map_cons, List.map_nil, fresh_text]
  rfl

/-- **`ConfigList.pop(k)`**: in range (`-n ≤ k < n`) it removes exactly the line at the
normalised position; out of range it is an `IndexError` and the state is unchanged. -/
theorem pop_spec (s : S) (k : Int) (hnf : NoFilter s) :
    (-(s.texts.length : Int) ≤ k ∧ k < s.texts.length →
      (step s (.pop k)).2 = .ok () ∧
      (step s (.pop k)).1.texts = s.texts.eraseIdx (popPos s.texts.length k) ∧
      popPos s.texts.length k < s.texts.length) ∧
    (k < -(s.texts.length : Int) ∨ (s.texts.length : Int) ≤ k →
      step s (.pop k) = (s, .error .indexError)) := by
  constructor
  · intro h
    obtain ⟨h1, h2⟩ := pyPop_in_range s.texts k h
    rw [texts_length] at h
    obtain ⟨h3, _⟩ := pyPop_in_range s.items k h
    simp only [Edit.step, h3, edited_texts s hnf, map_eraseIdx', texts_length]
    exact ⟨trivial, rfl, by rw [texts_length] at h2; exact h2⟩
  · intro h
    rw [texts_length] at h
    simp only [Edit.step, pyPop_out_of_range s.items k h]

/-! ## list-level insert_before / insert_after (regex) -/

/-- the text effect shared by both directions: an explicit `List.flatMap` characterisation
(line `a` at index `i` becomes `[x, a]` / `[a, x]` when `row[i]` is true and stays `[a]`
otherwise — missing row entries count as no match), the length grows by the number of
matching lines, the old lines survive unchanged and in order, everything that is not a
copy of the payload is untouched, and the payload occurs exactly `matchCount` more often -/
theorem insertAtMatches_spec (after : Bool) (x : Str) (l : List Str) (row : List Bool) :
    insertAtMatches after x l row
      = l.zipIdx.flatMap (fun p => expandLine after x p.1 (row.getD p.2 false)) ∧
    (insertAtMatches after x l row).length = l.length + matchCount l.length row ∧
    l.Sublist (insertAtMatches after x l row) ∧
    (insertAtMatches after x l row).filter (· ≠ x) = l.filter (· ≠ x) ∧
    (insertAtMatches after x l row).count x = l.count x + matchCount l.length row :=
  ⟨insertAtMatches_eq_flatMap after x l row, insertAtMatches_length after x l row,
   insertAtMatches_sublist after x l row, insertAtMatches_filter after x l row,
   insertAtMatches_count after x l row⟩

/-- **list-level `insert_before(regex, txt)`**: with a non-empty regex and a payload that
is not a blank line under `ignore_blank_lines`, the new text list is the old one with
exactly one copy of the payload directly before every matching line
(`insertAtMatches_spec` with `after = false`). -/
theorem listInsertBefore_spec (s : S) (row : List Bool) (txt : Str) (hnf : NoFilter s)
    (hb : ¬ (isBlank txt = true ∧ s.cfg.ignoreBlank = true)) :
    (step s (.listInsBefore false row txt)).2 = .ok () ∧
    (step s (.listInsBefore false row txt)).1.texts = insertAtMatches false txt s.texts row := by
  have hb' : (isBlank txt && s.cfg.ignoreBlank) = false := by
    cases h1 : isBlank txt <;> cases h2 : s.cfg.ignoreBlank <;> simp_all
  simp [Edit.step, hb', edited_texts s hnf, insertAtMatches_map, items_map_text]

/-- **list-level `insert_after(regex, txt)`**: one copy directly after every matching line. -/
theorem listInsertAfter_spec (s : S) (row : List Bool) (txt : Str) (hnf : NoFilter s)
    (hb : ¬ (isBlank txt = true ∧ s.cfg.ignoreBlank = true)) :
    (step s (.listInsAfter false row txt)).2 = .ok () ∧
    (step s (.listInsAfter false row txt)).1.texts = insertAtMatches true txt s.texts row := by
  have hb' : (isBlank txt && s.cfg.ignoreBlank) = false := by
    cases h1 : isBlank txt <;> cases h2 : s.cfg.ignoreBlank <;> simp_all
  simp [Edit.step, hb', edited_texts s hnf, insertAtMatches_map, items_map_text]

/-- A regex that matches no line changes nothing. -/
theorem listInsert_no_match (after : Bool) (x : Str) (l : List Str) (row : List Bool)
    (h : matchCount l.length row = 0) : insertAtMatches after x l row = l := by
  have h1 := insertAtMatches_sublist after x l row
  have h2 := insertAtMatches_length after x l row
  exact (h1.eq_of_length (by omega)).symm

/-- The refusals of the list-level inserts: a blank payload under `ignore_blank_lines` is
`InvalidParameters`, an empty regex is `ValueError`; the state is unchanged. -/
theorem listInsert_errors (s : S) (e : Bool) (row : List Bool) (txt : Str) :
    (isBlank txt = true ∧ s.cfg.ignoreBlank = true →
      step s (.listInsBefore e row txt) = (s, .error .invalidParameters) ∧
      step s (.listInsAfter e row txt) = (s, .error .invalidParameters)) ∧
    (¬ (isBlank txt = true ∧ s.cfg.ignoreBlank = true) → e = true →
      step s (.listInsBefore e row txt) = (s, .error .valueError) ∧
      step s (.listInsAfter e row txt) = (s, .error .valueError)) := by
  constructor
  · rintro ⟨h1, h2⟩; simp [Edit.step, h1, h2]
  · intro hb he
    have hb' : (isBlank txt && s.cfg.ignoreBlank) = false := by
      cases h1 : isBlank txt <;> cases h2 : s.cfg.ignoreBlank <;> simp_all
    simp [Edit.step, hb', he]

/-! ## object-level insert_before / insert_after -/

/-- How an object handle `h` (the committed line number of the object) is resolved: `posOf`
returns the first position of the current list that holds that object; on a state without
uncommitted changes that satisfies C07's invariant it is the handle itself. -/
theorem handle_position (s : S) (h : Nat) :
    (∀ p, posOf s.items h = some p →
      p < s.texts.length ∧ (s.items[p]?).map Item.id = some (some h) ∧
      ∀ q, q < p → (s.items[q]?).map Item.id ≠ some (some h)) ∧
    (s.dirty = false → FreshInv s → posOf s.items h = if h < s.texts.length then some h else none) := by
  constructor
  · intro p hp
    have := posOf_some hp
    rw [texts_length]; exact this
  · intro hd hinv
    have h3 := (hinv hd).2.2
    have h4 := (hinv hd).2.1
    rw [h3, posOf_committed, h4]

/-- **Identities are tracked**: every operation either re-commits (the list then holds the
objects `0..n-1` of the new tree) or leaves a sub-sequence of the committed objects the
list held before — list operations move objects around and add fresh lines, they never
duplicate or invent a committed object.  Hence "the committed ids in the list are
pairwise distinct" (`IdsDistinct`) is preserved by every step. -/
theorem ids_track_objects (s : S) (op : Op) :
    ((∃ t, (step s op).1.items = committedItems t) ∨ IdsSub (step s op).1.items s.items) ∧
    (IdsDistinct s.items → IdsDistinct (step s op).1.items) :=
  ⟨step_ids s op, step_idsDistinct s op⟩

/-- … it holds initially, hence in every reachable state, committed or not … -/
theorem reachable_ids_distinct (cfg : Cfg) (auto : Bool) (width : Nat) (ls : List Str) (ops : List Op) :
    IdsDistinct (run (init cfg auto width ls) ops).items :=
  run_idsDistinct _ ops (idsDistinct_committed _)

/-- … and then an object is at no more than one position: the position `posOf` returns is
the only one holding the object `h`. -/
theorem handle_unique (s : S) (hd : IdsDistinct s.items) (h p q : Nat)
    (hp : (s.items[p]?).map Item.id = some (some h)) (hq : (s.items[q]?).map Item.id = some (some h)) :
    p = q := idsDistinct_unique hd hp hq

/-- **`obj.insert_before(txt)`** on the object `h`, currently at position `p` (also on a
state with uncommitted changes — the code finds the object by identity): exactly one
line is added, at position `p`, directly before the object's line (which moves to
`p + 1`); everything else is unchanged and in order. -/
theorem objInsertBefore_spec (s : S) (h p : Nat) (txt : Str) (hnf : NoFilter s)
    (hp : posOf s.items h = some p)
    (hb : ¬ (isBlank txt = true ∧ s.cfg.ignoreBlank = true)) :
    let new := (step s (.objInsBefore h txt)).1.texts
    (step s (.objInsBefore h txt)).2 = .ok () ∧
    new = s.texts.take p ++ txt :: s.texts.drop p ∧
    new.length = s.texts.length + 1 ∧ new[p]? = some txt ∧ new[p + 1]? = s.texts[p]? ∧
    new.eraseIdx p = s.texts := by
  have hb' : (isBlank txt && s.cfg.ignoreBlank) = false := by
    cases h1 : isBlank txt <;> cases h2 : s.cfg.ignoreBlank <;> simp_all
  have hpl : p < s.texts.length := ((handle_position s h).1 p hp).1
  have ht : (step s (.objInsBefore h txt)).1.texts = s.texts.take p ++ txt :: s.texts.drop p := by
    have : (step s (.objInsBefore h txt)).1
        = autoCommit { s with items := s.items.take p ++ fresh txt :: s.items.drop p, dirty := true } := by
      simp [Edit.step, hp, hb']
    rw [this, edited_texts s hnf]; simp [S.texts]
  have hr : (step s (.objInsBefore h txt)).2 = .ok () := by simp [Edit.step, hp, hb']
  intro new
  have hf := inserted_frame s.texts p txt (by omega)
  simp only [new, ht]
  exact ⟨hr, trivial, hf.1, hf.2.1, hf.2.2.2.2 p (Nat.le_refl _), hf.2.2.1⟩

/-- **`obj.insert_after(txt)`**: exactly one line is added, at position `p + 1`, directly
after the object's line (which stays at `p`); everything else is unchanged and in order. -/
theorem objInsertAfter_spec (s : S) (h p : Nat) (txt : Str) (hnf : NoFilter s)
    (hp : posOf s.items h = some p)
    (hb : ¬ (isBlank txt = true ∧ s.cfg.ignoreBlank = true)) :
    let new := (step s (.objInsAfter h txt)).1.texts
    (step s (.objInsAfter h txt)).2 = .ok () ∧
    new = s.texts.take (p + 1) ++ txt :: s.texts.drop (p + 1) ∧
    new.length = s.texts.length + 1 ∧ new[p]? = s.texts[p]? ∧ new[p + 1]? = some txt ∧
    new.eraseIdx (p + 1) = s.texts := by
  have hb' : (isBlank txt && s.cfg.ignoreBlank) = false := by
    cases h1 : isBlank txt <;> cases h2 : s.cfg.ignoreBlank <;> simp_all
  have hpl : p < s.texts.length := ((handle_position s h).1 p hp).1
  have ht : (step s (.objInsAfter h txt)).1.texts
      = s.texts.take (p + 1) ++ txt :: s.texts.drop (p + 1) := by
    have : (step s (.objInsAfter h txt)).1
        = autoCommit { s with items := s.items.take (p + 1) ++ fresh txt :: s.items.drop (p + 1), dirty := true } := by
      simp [Edit.step, hp, hb']
    rw [this, edited_texts s hnf]; simp [S.texts]
  have hr : (step s (.objInsAfter h txt)).2 = .ok () := by simp [Edit.step, hp, hb']
  intro new
  have hf := inserted_frame s.texts (p + 1) txt (by omega)
  simp only [new, ht]
  exact ⟨hr, trivial, hf.1, hf.2.2.2.1 p (by omega), hf.2.1, hf.2.2.1⟩

/-- On a state without uncommitted changes satisfying C07's invariant (every reachable
such state) a handle below the length is its own position … -/
theorem committed_handle (s : S) (h : Nat) (hd : s.dirty = false) (hinv : FreshInv s)
    (hh : h < s.texts.length) : posOf s.items h = some h := by
  rw [(handle_position s h).2 hd hinv, if_pos hh]

/-- … so there the object-level inserts add exactly one line at `h` / `h + 1`, adjacent to
line `h`. -/
theorem objInsert_committed (s : S) (h : Nat) (txt : Str) (hnf : NoFilter s)
    (hd : s.dirty = false) (hinv : FreshInv s) (hh : h < s.texts.length)
    (hb : ¬ (isBlank txt = true ∧ s.cfg.ignoreBlank = true)) :
    (step s (.objInsBefore h txt)).1.texts = s.texts.take h ++ txt :: s.texts.drop h ∧
    (step s (.objInsAfter h txt)).1.texts = s.texts.take (h + 1) ++ txt :: s.texts.drop (h + 1) :=
  ⟨(objInsertBefore_spec s h h txt hnf (committed_handle s h hd hinv hh) hb).2.1,
   (objInsertAfter_spec s h h txt hnf (committed_handle s h hd hinv hh) hb).2.1⟩

/-- A blank payload under `ignore_blank_lines` is refused with `InvalidParameters`. -/
theorem objInsert_blank_refused (s : S) (h p : Nat) (txt : Str)
    (hp : posOf s.items h = some p)
    (hb : isBlank txt = true ∧ s.cfg.ignoreBlank = true) :
    step s (.objInsBefore h txt) = (s, .error .invalidParameters) ∧
    step s (.objInsAfter h txt) = (s, .error .invalidParameters) := by
  simp [Edit.step, hp, hb.1, hb.2]

/-! ## delete -/

/-- **`obj.delete()`** on line `i` of a committed state removes exactly the positions
`{i} ∪ all_children(i)` of the text list and nothing else: the remaining lines keep text
and order (`eraseAll` = keep the positions not listed). -/
theorem delete_spec (s : S) (i : Nat) (hnf : NoFilter s) (hd : s.dirty = false) (hi : i < s.texts.length) :
    (step s (.delete i)).2 = .ok () ∧
    (step s (.delete i)).1.texts
      = (s.texts.zipIdx.filter (fun p => !(i :: allChildren s.tree i).contains p.2)).map (·.1) ∧
    ((step s (.delete i)).1.texts).Sublist s.texts := by
  have hg : ¬ (s.dirty = true ∨ s.items.length ≤ i) := by rw [hd, ← texts_length]; simp; omega
  have ht : (step s (.delete i)).1.texts = eraseAll s.texts (descendantsAndSelf s.tree i) := by
    simp [Edit.step, hg, edited_texts s hnf, eraseAll_map, items_map_text]
  refine ⟨by simp [Edit.step, hg], ?_, ?_⟩
  · rw [ht, eraseAll_eq_filter]; rfl
  · rw [ht]; exact eraseAll_sublist _ _

/-- … and when the committed tree is a forest whose size is the number of lines (true in
every reachable committed state, `reachable_tree_ok`), the removed set is the line and
its descendants in the sense of C03 (`i` on the ancestor chain), and the list gets
shorter by exactly `1 + |all_children(i)|`. -/
theorem delete_spec_forest (s : S) (i : Nat) (hnf : NoFilter s) (hd : s.dirty = false)
    (hi : i < s.texts.length) (hf : Forest s.tree) (hsz : s.tree.size = s.texts.length) :
    (step s (.delete i)).1.texts
      = (s.texts.zipIdx.filter (fun p => decide (p.2 ≠ i ∧ i ∉ ancestors s.tree p.2))).map (·.1) ∧
    (step s (.delete i)).1.texts.length + 1 + (allChildren s.tree i).length = s.texts.length := by
  have hg : ¬ (s.dirty = true ∨ s.items.length ≤ i) := by rw [hd, ← texts_length]; simp; omega
  have ht : (step s (.delete i)).1.texts = eraseAll s.texts (descendantsAndSelf s.tree i) := by
    simp [Edit.step, hg, edited_texts s hnf, eraseAll_map, items_map_text]
  rw [ht]
  exact ⟨delete_filter_forest hf s.texts i, delete_length_forest hf s.texts i hsz hi⟩

/-- **`delete` keeps the parents of the surviving lines.**  State: no uncommitted change,
C07's invariant, auto-commit on, blank lines kept, no banner / macro start in the config.
With `dead` = line `i` and its descendants, `keep j` := `j ∉ dead` and `rank keep j` := the
number of surviving lines before `j`: after `delete i` a surviving line `j` sits at
`rank keep j` with its old text, its old parent survives too, and its new parent is the new
position of its old parent — except possibly a comment whose directly preceding line was
deleted (its attachment depends on the line above it, C02's legacy rule). -/
theorem delete_keeps_parents (s : S) (i : Nat)
    (hd : s.dirty = false) (hinv : FreshInv s) (ha : s.auto = true) (hig : s.cfg.ignoreBlank = false)
    (hp : Plain s.cfg s.texts) (hi : i < s.texts.length) :
    let dead := descendantsAndSelf s.tree i
    let keep : Nat → Bool := fun j => !dead.contains j
    let s' := (step s (.delete i)).1
    s'.texts = eraseAll s.texts dead ∧
    ∀ j, j < s.texts.length → keep j = true →
      s'.texts[rank keep j]? = s.texts[j]? ∧
      keep (parentOf s.tree j) = true ∧
      (¬ (isComment s.cfg (s.texts.getD j []) = true ∧ ∃ j', j = j' + 1 ∧ keep j' = false) →
        parentOf s'.tree (rank keep j) = rank keep (parentOf s.tree j)) := by
  intro dead keep s'
  obtain ⟨htree, _, _⟩ := hinv hd
  have hg : ¬ (s.dirty = true ∨ s.items.length ≤ i) := by rw [hd, ← texts_length]; simp; omega
  have hstep : (step s (.delete i)).1
      = autoCommit { s with items := eraseAll s.items (descendantsAndSelf s.tree i), dirty := true } := by
    simp [Edit.step, hg]
  have hnew : (eraseAll s.items (descendantsAndSelf s.tree i)).map Item.text = eraseAll s.texts dead := by
    rw [eraseAll_map, items_map_text]
  have htree' : s'.tree = parse s.cfg (eraseAll s.texts dead) := by
    show (step s (.delete i)).1.tree = _
    rw [hstep, auto_tree_after s ha, hnew]
  have htexts' : s'.texts = eraseAll s.texts dead := by
    show (step s (.delete i)).1.texts = _
    rw [hstep, edited_texts s (.inr hig), hnew]
  have hmain := parse_delete s.cfg s.texts i hp hig
  simp only at hmain
  rw [← htree] at hmain
  refine ⟨htexts', fun j hj hkj => ?_⟩
  obtain ⟨r1, r2, r3⟩ := hmain.2 j hj hkj
  rw [hmain.1] at r1
  refine ⟨by rw [htexts']; exact r1, r2, fun hex => ?_⟩
  rw [htree']; exact r3 hex

/-! ## replace_text / re_sub -/

/-- **`obj.replace_text(before, after)`** on the object `h`, currently at position `p` (also
on a state with uncommitted changes): position `p` only changes, to `str.replace` of its
text (`replacement_frame`). -/
theorem replaceText_spec (s : S) (h p : Nat) (before after : Str) (hnf : NoFilter s)
    (hp : posOf s.items h = some p) :
    (step s (.replaceText h before after)).2 = .ok () ∧
    (step s (.replaceText h before after)).1.texts
      = s.texts.set p (pyReplace before after (s.texts.getD p [])) := by
  have : step s (.replaceText h before after)
      = (autoCommit { s with items := setText s.items p (pyReplace before after (s.texts.getD p [])),
                             dirty := true }, .ok ()) := by
    simp only [Edit.step, hp]
  rw [this]
  refine ⟨rfl, ?_⟩
  show (autoCommit _).texts = _
  rw [edited_texts s hnf, setText_texts]; rfl

/-- **`obj.re_sub(regex, repl)`** (with `newText = re.sub(regex, repl, text)` computed by the
caller) on the object `h` at position `p` of a non-stale state: position `p` only
changes, to the substituted text; a substitution that leaves the text as it is changes
nothing at all (not even a commit); on a stale state it refuses with
`NotImplementedError`. -/
theorem reSub_spec (s : S) (h p : Nat) (newText : Str) (hnf : NoFilter s)
    (hp : posOf s.items h = some p) :
    (s.stale = false → newText ≠ s.texts.getD p [] →
      (step s (.reSub h newText)).2 = .ok () ∧
      (step s (.reSub h newText)).1.texts = s.texts.set p newText) ∧
    (s.stale = false → newText = s.texts.getD p [] → step s (.reSub h newText) = (s, .ok ())) ∧
    (s.stale = true → step s (.reSub h newText) = (s, .error .notImplemented)) := by
  refine ⟨fun hs hne => ?_, fun hs he => ?_, fun hs => ?_⟩
  · have : step s (.reSub h newText)
        = (autoCommit { s with items := setText s.items p newText, dirty := true }, .ok ()) := by
      simp only [Edit.step, hp, hs, Bool.false_eq_true, if_false, if_neg hne]
    rw [this]
    refine ⟨rfl, ?_⟩
    show (autoCommit _).texts = _
    rw [edited_texts s hnf, setText_texts]; rfl
  · simp only [Edit.step, hp, hs, Bool.false_eq_true, if_false, if_pos he]
  · simp only [Edit.step, hp, hs, if_true]

/-- On a committed state (`committed_handle`) `replace_text` / `re_sub` change line `h` itself. -/
theorem replaceText_committed (s : S) (h : Nat) (before after : Str) (hnf : NoFilter s)
    (hd : s.dirty = false) (hinv : FreshInv s) (hh : h < s.texts.length) :
    (step s (.replaceText h before after)).1.texts
      = s.texts.set h (pyReplace before after (s.texts.getD h [])) :=
  (replaceText_spec s h h before after hnf (committed_handle s h hd hinv hh)).2

/-! ## append_to_family -/

/-- **`obj.append_to_family(txt, indent, auto_indent)`**: whenever it succeeds, the state was
committed, the handle valid, and exactly one line — the payload after the explicit / auto
indentation of `familyText` — is inserted, at the index `appendIndex` computes (clipped to
the list length like `list.insert`); all other lines keep text and order
(`insertion_frame`).  The new line is at the target's indent level or exactly one level
deeper. -/
theorem appendToFamily_spec (s : S) (i : Nat) (txt : Str) (ind : Int) (ai : Bool) (hnf : NoFilter s)
    (hok : (step s (.appendToFamily i txt ind ai)).2 = .ok ()) :
    let txt' := familyText (indentOf s.tree i) s.width txt ind ai
    s.dirty = false ∧ i < s.texts.length ∧ ¬ (ai = true ∧ ind > 0) ∧
    ∃ idx, appendIndex s.tree s.width i txt' = .ok idx ∧
      (step s (.appendToFamily i txt ind ai)).1.texts
        = s.texts.take (min idx s.texts.length) ++ txt' :: s.texts.drop (min idx s.texts.length) ∧
      (cfi s.width (indentOf s.tree i) txt' = some 0 ∨ cfi s.width (indentOf s.tree i) txt' = some 1) := by
  intro txt'
  obtain ⟨h1, h2, h3, idx, h4, h5⟩ := step_appendToFamily_ok s i txt ind ai hok
  refine ⟨h1, by rw [texts_length]; exact h2, h3, idx, h4, ?_, appendIndex_level _ _ _ _ idx h4⟩
  rw [h5, edited_texts s hnf, pyInsert_map, items_map_text, pyInsert_eq, insertPos_natCast]
  rfl

/-- **Child-level append to a target that has children** (the new line is not at the
target's own indent): the line is one level deeper than the target and is inserted at
`familyEndpoint + 1`.  In a forest whose size is the number of lines (every reachable
committed state) that is a valid position, namely directly after the last line among the
target and its descendants. -/
theorem appendToFamily_child_level (s : S) (i : Nat) (txt : Str) (ind : Int) (ai : Bool) (hnf : NoFilter s)
    (hok : (step s (.appendToFamily i txt ind ai)).2 = .ok ())
    (hk : children s.tree i ≠ [])
    (h0 : cfi s.width (indentOf s.tree i) (familyText (indentOf s.tree i) s.width txt ind ai) ≠ some 0)
    (hf : Forest s.tree) (hsz : s.tree.size = s.texts.length) :
    let txt' := familyText (indentOf s.tree i) s.width txt ind ai
    let e := familyEndpoint s.tree i
    (step s (.appendToFamily i txt ind ai)).1.texts = s.texts.take (e + 1) ++ txt' :: s.texts.drop (e + 1) ∧
    e + 1 ≤ s.texts.length ∧ e ∈ i :: allChildren s.tree i ∧ (∀ j ∈ i :: allChildren s.tree i, j ≤ e) ∧
    cfi s.width (indentOf s.tree i) txt' = some 1 := by
  intro txt' e
  obtain ⟨_, h2, _, idx, h4, h5, _⟩ := appendToFamily_spec s i txt ind ai hnf hok
  obtain ⟨h6, h7⟩ := appendIndex_child_level _ _ _ _ idx hk h4 h0
  have h8 : e < s.tree.size := familyEndpoint_lt_size hf (by omega)
  have h9 := familyEndpoint_max hf i
  refine ⟨?_, by omega, h9.1, h9.2, h7⟩
  rw [h5, h6, Nat.min_eq_left (by omega)]

/-- **A child-level `append_to_family` keeps every existing parent and makes the new line a
child of the target.**  State: no uncommitted change, C07's invariant, auto-commit on,
blank lines kept, no line of the config (nor the payload) starts a banner or — under syntax
ios — a macro, so that the links are those of the indentation rule (C02).  Target `i` with
children; payload `txt'` (after `familyText`) not at the target's own indent, not a comment;
every direct child of `i` that is a configuration line is indented at least as deep as the
payload (automatic for indent width 1, `appendToFamily_keeps_parents_width1`).  Then, with
`e` the last line of `i`'s family: the texts are `take (e+1) ++ [txt'] ++ drop (e+1)`, the new
line's parent is `i`, every line up to `e` keeps its parent, and every line after `e` keeps
its parent, shifted by one where it lies after `e` — except possibly a comment directly
after the insertion point (its attachment depends on the line above it, C02's legacy rule;
the Python oracle excludes comments as well). -/
theorem appendToFamily_keeps_parents (s : S) (i : Nat) (txt : Str) (ind : Int) (ai : Bool)
    (hd : s.dirty = false) (hinv : FreshInv s) (ha : s.auto = true) (hig : s.cfg.ignoreBlank = false)
    (hp : Plain s.cfg s.texts)
    (hok : (step s (.appendToFamily i txt ind ai)).2 = .ok ())
    (hk : children s.tree i ≠ [])
    (h0 : cfi s.width (indentOf s.tree i) (familyText (indentOf s.tree i) s.width txt ind ai) ≠ some 0)
    (hb : isBannerStart (familyText (indentOf s.tree i) s.width txt ind ai) = false)
    (hm : s.cfg.ios = true → isMacroStart (familyText (indentOf s.tree i) s.width txt ind ai) = false)
    (hxc : isComment s.cfg (familyText (indentOf s.tree i) s.width txt ind ai) = false)
    (Hc : ∀ c, c ∈ children s.tree i → isConfigLine s.cfg (s.texts.getD c []) = true →
      indent (familyText (indentOf s.tree i) s.width txt ind ai) ≤ indent (s.texts.getD c [])) :
    let txt' := familyText (indentOf s.tree i) s.width txt ind ai
    let e := familyEndpoint s.tree i
    let s' := (step s (.appendToFamily i txt ind ai)).1
    i ≤ e ∧ e < s.texts.length ∧
    s'.texts = s.texts.take (e + 1) ++ txt' :: s.texts.drop (e + 1) ∧
    parentOf s'.tree (e + 1) = i ∧
    (∀ j, j ≤ e → parentOf s'.tree j = parentOf s.tree j) ∧
    (∀ j, e < j → j < s.texts.length → ¬ (j = e + 1 ∧ isComment s.cfg (s.texts.getD j []) = true) →
      parentOf s'.tree (j + 1) = shiftAfter e (parentOf s.tree j)) := by
  intro txt' e s'
  obtain ⟨htree, htexts, _⟩ := hinv hd
  obtain ⟨_, h2, _, idx, h4, h5⟩ := step_appendToFamily_ok s i txt ind ai hok
  obtain ⟨h6, h7⟩ := appendIndex_child_level _ _ _ _ idx hk h4 h0
  have hforest : Forest s.tree := by rw [htree]; exact bootstrap_forest _ _
  have hsz : s.tree.size = s.texts.length := by rw [T.size, ← htexts]
  have he : e < s.tree.size := familyEndpoint_lt_size hforest (by rw [hsz, texts_length]; exact h2)
  have hnew : (pyInsert s.items idx (fresh txt')).map Item.text
      = s.texts.take (e + 1) ++ txt' :: s.texts.drop (e + 1) := by
    rw [pyInsert_map, items_map_text, pyInsert_eq, insertPos_natCast, h6, Nat.min_eq_left (by omega)]
    rfl
  have htree' : s'.tree = parse s.cfg (s.texts.take (e + 1) ++ txt' :: s.texts.drop (e + 1)) := by
    show (step s (.appendToFamily i txt ind ai)).1.tree = _
    rw [h5, auto_tree_after s ha, hnew]
  have hlt : indent (s.texts.getD i []) < indent txt' := by
    have := cfi_one_lt _ _ _ h7
    have hio : indentOf s.tree i = indent (s.texts.getD i []) := by rw [indentOf, ← htexts]
    show indent (s.texts.getD i []) < indent (familyText (indentOf s.tree i) s.width txt ind ai)
    omega
  have hmain := parse_insert_child s.cfg s.texts i txt' hp hig hb hm (by rw [← htree]; exact hk) hxc hlt
    (by rw [← htree]; exact Hc)
  simp only at hmain
  rw [← htree] at hmain
  obtain ⟨r0, r1, r2, r3, r4, r5⟩ := hmain
  refine ⟨r0, r1, ?_, ?_, ?_, ?_⟩
  · show (step s (.appendToFamily i txt ind ai)).1.texts = _
    rw [h5, edited_texts s (.inr hig), hnew]
  · rw [htree']; exact r3
  · intro j hj; rw [htree']; exact r4 j hj
  · intro j h1 h2' h3; rw [htree']; exact r5 j h1 h2' h3

/-- For indent width 1 (every syntax but nxos) the hypothesis on the children is automatic:
a child-level payload is indented exactly one deeper than the target, and every
configuration-line child of the target is indented deeper than the target. -/
theorem appendToFamily_children_width1 (s : S) (i : Nat) (txt' : Str)
    (hd : s.dirty = false) (hinv : FreshInv s) (hig : s.cfg.ignoreBlank = false) (hp : Plain s.cfg s.texts)
    (hw : s.width = 1) (h1 : cfi s.width (indentOf s.tree i) txt' = some 1) :
    ∀ c, c ∈ children s.tree i → isConfigLine s.cfg (s.texts.getD c []) = true →
      indent txt' ≤ indent (s.texts.getD c []) := by
  intro c hc _
  obtain ⟨htree, htexts, _⟩ := hinv hd
  have hst := parse_specTree s.cfg s.texts hp hig
  rw [← htree] at hst
  obtain ⟨hcs, hpc, hci⟩ := mem_children.mp hc
  obtain ⟨lp, lj, e1, e2, _, _, e5, _⟩ := specTree_parent hst hcs (by omega)
  rw [hpc] at e1
  have g : ∀ (j : Nat) (l : Info), (s.texts.map (info s.cfg))[j]? = some l → l.indent = indent (s.texts.getD j []) := by
    intro j l hl
    simp only [List.getElem?_map, Option.map_eq_some_iff] at hl
    obtain ⟨x, hx, rfl⟩ := hl
    rw [List.getD_eq_getElem?_getD, hx]; rfl
  rw [g i lp e1, g c lj e2] at e5
  -- the payload is indented exactly one deeper than the target
  have hx : indent txt' = indent (s.texts.getD i []) + 1 := by
    have hlt := cfi_one_lt _ _ _ h1
    unfold cfi at h1
    rw [hw] at h1
    dsimp only at h1
    rw [indentOf, ← htexts] at h1 hlt
    split at h1
    · cases h1
    · split at h1
      · cases h1
      · split at h1
        · cases h1
        · injection h1 with h1
          have h11 : ((1 : Nat) : Int) = 1 := rfl
          rw [h11, Int.tdiv_one] at h1
          omega
  omega

/-- `appendToFamily_keeps_parents` for indent width 1, without the hypothesis on the children. -/
theorem appendToFamily_keeps_parents_width1 (s : S) (i : Nat) (txt : Str) (ind : Int) (ai : Bool)
    (hd : s.dirty = false) (hinv : FreshInv s) (ha : s.auto = true) (hig : s.cfg.ignoreBlank = false)
    (hp : Plain s.cfg s.texts) (hw : s.width = 1)
    (hok : (step s (.appendToFamily i txt ind ai)).2 = .ok ())
    (hk : children s.tree i ≠ [])
    (h0 : cfi s.width (indentOf s.tree i) (familyText (indentOf s.tree i) s.width txt ind ai) ≠ some 0)
    (hb : isBannerStart (familyText (indentOf s.tree i) s.width txt ind ai) = false)
    (hm : s.cfg.ios = true → isMacroStart (familyText (indentOf s.tree i) s.width txt ind ai) = false)
    (hxc : isComment s.cfg (familyText (indentOf s.tree i) s.width txt ind ai) = false) :
    let txt' := familyText (indentOf s.tree i) s.width txt ind ai
    let e := familyEndpoint s.tree i
    let s' := (step s (.appendToFamily i txt ind ai)).1
    i ≤ e ∧ e < s.texts.length ∧
    s'.texts = s.texts.take (e + 1) ++ txt' :: s.texts.drop (e + 1) ∧
    parentOf s'.tree (e + 1) = i ∧
    (∀ j, j ≤ e → parentOf s'.tree j = parentOf s.tree j) ∧
    (∀ j, e < j → j < s.texts.length → ¬ (j = e + 1 ∧ isComment s.cfg (s.texts.getD j []) = true) →
      parentOf s'.tree (j + 1) = shiftAfter e (parentOf s.tree j)) := by
  obtain ⟨_, _, _, idx, h4, _⟩ := step_appendToFamily_ok s i txt ind ai hok
  have h1 := (appendIndex_child_level _ _ _ _ idx hk h4 h0).2
  exact appendToFamily_keeps_parents s i txt ind ai hd hinv ha hig hp hok hk h0 hb hm hxc
    (appendToFamily_children_width1 s i _ hd hinv hig hp hw h1)

/-- **Same-indent append to a target that has children — known finding F10b.**  Intended
(and what the property asks for): the line goes after the whole family, i.e. at
`familyEndpoint + 1`.  What the code does, and what is proved here: it is inserted at
`i + |children(i)|`, which lies inside the family as soon as the target has a grandchild
(see the example below). -/
theorem appendToFamily_same_indent_partial (s : S) (i : Nat) (txt : Str) (ind : Int) (ai : Bool)
    (hnf : NoFilter s) (hok : (step s (.appendToFamily i txt ind ai)).2 = .ok ())
    (hk : children s.tree i ≠ [])
    (h0 : cfi s.width (indentOf s.tree i) (familyText (indentOf s.tree i) s.width txt ind ai) = some 0) :
    let txt' := familyText (indentOf s.tree i) s.width txt ind ai
    let j := min (i + (children s.tree i).length) s.texts.length
    (step s (.appendToFamily i txt ind ai)).1.texts = s.texts.take j ++ txt' :: s.texts.drop j := by
  intro txt' j
  obtain ⟨_, _, _, idx, h4, h5, _⟩ := appendToFamily_spec s i txt ind ai hnf hok
  rw [h5, appendIndex_same_indent _ _ _ _ idx hk h4 h0]

/-- **Append to a childless target**, as the code does it: a line at the target's indent
goes after the target's last sibling (or, without siblings, after the last line of that
level found by `last_family_linenum`); a line one level deeper goes after
`last_parent_linenums[0]`. -/
theorem appendToFamily_childless (s : S) (i : Nat) (txt : Str) (ind : Int) (ai : Bool)
    (hok : (step s (.appendToFamily i txt ind ai)).2 = .ok ()) (hk : children s.tree i = []) :
    let txt' := familyText (indentOf s.tree i) s.width txt ind ai
    ∃ idx, appendIndex s.tree s.width i txt' = .ok idx ∧
    ((cfi s.width (indentOf s.tree i) txt' = some 0 ∧
      ((siblings s.tree i ≠ [] ∧ idx = ((siblings s.tree i).getLast?).getD i + 1) ∨
       (siblings s.tree i = [] ∧ ∃ l, lastFamilyLinenum s.tree s.width i = some l ∧ idx = l + 1))) ∨
     (cfi s.width (indentOf s.tree i) txt' = some 1 ∧
      ∃ lp, lastParentLinenum0 s.tree s.width i = some lp ∧ idx = lp + 1)) := by
  intro txt'
  obtain ⟨_, _, _, idx, h4, _⟩ := step_appendToFamily_ok s i txt ind ai hok
  exact ⟨idx, h4, appendIndex_childless _ _ _ _ idx hk h4⟩

/-! ## errors and frame -/

/-- **Every refused operation leaves the whole state unchanged** (texts, tree, flags). -/
theorem errors_leave_state (s : S) (op : Op) (e : Err) (h : (step s op).2 = .error e) :
    (step s op).1 = s := step_error_unchanged s op e h

/-- A handle whose object is no longer in the list (deleted or popped since the last
commit), and — for `delete` / `append_to_family`, which index by the object's stored line
number — any handle on a state with uncommitted changes, is not executed (the model's
`dirtyHandle`; the harness skips the call on both sides). -/
theorem unresolved_handle_skipped (s : S) (h : Nat) (txt before after : Str) (ind : Int) (ai : Bool) :
    (posOf s.items h = none →
      step s (.objInsBefore h txt) = (s, .error .dirtyHandle) ∧
      step s (.objInsAfter h txt) = (s, .error .dirtyHandle) ∧
      step s (.replaceText h before after) = (s, .error .dirtyHandle) ∧
      step s (.reSub h txt) = (s, .error .dirtyHandle)) ∧
    (s.dirty = true ∨ s.texts.length ≤ h →
      step s (.delete h) = (s, .error .dirtyHandle) ∧
      step s (.appendToFamily h txt ind ai) = (s, .error .dirtyHandle)) := by
  constructor
  · intro hp
    simp only [Edit.step, hp, and_self]
  · intro hd
    rw [texts_length] at hd
    have hg : (s.dirty || decide (h ≥ s.items.length)) = true := by
      rcases hd with hd | hd <;> simp [hd]
    simp only [Edit.step, hg, if_true, and_self]

/-- **Frame**: no operation changes the options; with auto-commit off only `commit`
replaces the committed tree; `probe` changes nothing. -/
theorem others_unchanged (s : S) (op : Op) :
    (step s op).1.cfg = s.cfg ∧ (step s op).1.auto = s.auto ∧ (step s op).1.width = s.width ∧
    (s.auto = false → op ≠ .commit → (step s op).1.tree = s.tree) ∧
    (step s .probe).1 = s :=
  ⟨(step_frame s op).1, (step_frame s op).2.1, (step_frame s op).2.2,
   fun ha hop => step_tree_unchanged s op ha hop, rfl⟩

/-- The hypotheses `Forest s.tree` and `s.tree.size = s.texts.length` used above hold in
every state reached from a parse that has no uncommitted change (C07's invariant). -/
theorem reachable_tree_ok (cfg : Cfg) (auto : Bool) (width : Nat) (ls : List Str) (ops : List Op) :
    let s := run (init cfg auto width ls) ops
    s.dirty = false → Forest s.tree ∧ s.tree.size = s.texts.length := by
  intro s hd
  have h := run_fresh _ ops (init_fresh cfg auto width ls) hd
  refine ⟨?_, by rw [T.size, ← h.2.1]⟩
  rw [h.1]
  exact bootstrap_forest _ _

/-- The second case of `NoFilter`, spelled out: with auto-commit on and
`ignore_blank_lines` off, the commit after the edit keeps the texts. -/
theorem auto_commit_keeps_texts (s : S) (h : s.cfg.ignoreBlank = false) :
    (commit s).texts = s.texts ∧ NoFilter s := ⟨commit_texts_noignore s h, .inr h⟩

/-- **The remaining case: auto-commit on, any `ignore_blank_lines`.**  From a committed
state satisfying C07's invariant (every state reached with auto-commit on), an operation
answers as it does with auto-commit off, and leaves the texts that one bootstrap makes of
the texts the same operation leaves with auto-commit off (to which the theorems above
apply with `NoFilter` by its first case): a sublist of them in which every non-blank line
survives — only blank lines can disappear, and none does without `ignore_blank_lines`. -/
theorem auto_commit_step_texts (s : S) (op : Op) (ha : s.auto = true) (hd : s.dirty = false)
    (hinv : FreshInv s) :
    let manual := (step { s with auto := false } op).1.texts
    NoFilter { s with auto := false } ∧
    (step s op).2 = (step { s with auto := false } op).2 ∧
    (step s op).1.texts = (bootstrap s.cfg manual).texts ∧
    (step s op).1.texts.Sublist manual ∧
    (step s op).1.texts.filter (fun x => !isBlank x) = manual.filter (fun x => !isBlank x) ∧
    (s.cfg.ignoreBlank = false → (step s op).1.texts = manual) := by
  intro manual
  have h := auto_step_texts s op ha hd hinv
  have hb := bootstrap_texts s.cfg manual
  refine ⟨.inl rfl, h.2, h.1, ?_, ?_, ?_⟩
  · rw [h.1]; exact hb.1
  · rw [h.1]; exact hb.2
  · intro hi; rw [h.1]; exact bootstrap_texts_noignore s.cfg manual hi

/-! ## non-vacuity: a concrete 5-line config with a grandchild and a prefix pair -/

def exCfg : Cfg := { ios := true, delims := ['!'], ignoreBlank := false }

def exLines : List Str :=
  ["interface Eth1".toList, " ip address 1.1.1.1".toList, "  secondary".toList, " shutdown".toList,
   "interface Eth10".toList]

/-- auto-commit off / on -/
def exOff : S := init exCfg false 1 exLines
def exOn : S := init exCfg true 1 exLines

example : NoFilter exOff ∧ NoFilter exOn := ⟨.inl rfl, .inr rfl⟩
example : exOn.dirty = false ∧ exOn.tree.parents = [0, 0, 1, 0, 4] ∧ exOn.texts = exLines := by decide
example : Forest exOn.tree ∧ exOn.tree.size = exOn.texts.length :=
  reachable_tree_ok exCfg true 1 exLines [] rfl

/-- `insert(-1, "x")` lands at position 4 of 5 -/
example : insertPos 5 (-1) = 4 ∧
    (step exOff (.insert (-1) "x".toList)).1.texts =
      ["interface Eth1".toList, " ip address 1.1.1.1".toList, "  secondary".toList, " shutdown".toList,
       "x".toList, "interface Eth10".toList] := by decide
/-- `pop(-2)` is in range and removes position 3; `pop(5)` is out of range -/
example : (-(exOff.texts.length : Int) ≤ -2 ∧ (-2 : Int) < exOff.texts.length) ∧ popPos 5 (-2) = 3 ∧
    (step exOff (.pop (-2))).1.texts.length = 4 ∧ (step exOff (.pop 5)).2 = .error .indexError := by decide
/-- list-level insert_before on the rows of `^interface` : two copies -/
example : ¬ (isBlank "!".toList = true ∧ exOff.cfg.ignoreBlank = true) ∧
    matchCount 5 [true, false, false, false, true] = 2 ∧
    (step exOff (.listInsBefore false [true, false, false, false, true] "!".toList)).1.texts =
      ["!".toList, "interface Eth1".toList, " ip address 1.1.1.1".toList, "  secondary".toList,
       " shutdown".toList, "!".toList, "interface Eth10".toList] := by decide
/-- the refusals are reachable: `ignore_blank_lines` with a blank payload, an empty regex -/
example : (step (init { exCfg with ignoreBlank := true } true 1 exLines) (.listInsAfter false [true] " ".toList)).2
      = .error .invalidParameters ∧
    (step exOff (.listInsAfter true [] "x".toList)).2 = .error .valueError := by decide
/-- object-level insert next to `Eth1` does not touch `Eth10` (hypotheses of `objInsert*_spec`) -/
example : posOf exOn.items 0 = some 0 ∧
    (step exOn (.objInsAfter 0 " description x".toList)).1.texts =
      ["interface Eth1".toList, " description x".toList, " ip address 1.1.1.1".toList, "  secondary".toList,
       " shutdown".toList, "interface Eth10".toList] := by decide
/-- deleting line 1 removes it and its child (line 2) -/
example : allChildren exOn.tree 1 = [2] ∧ allChildren exOn.tree 0 = [1, 2, 3] ∧
    (step exOn (.delete 1)).1.texts =
      ["interface Eth1".toList, " shutdown".toList, "interface Eth10".toList] := by decide
/-- `delete_keeps_parents` on an example: deleting line 1 (and its child 2) — `shutdown`
moves from 3 to 1 and keeps parent 0, `Eth10` moves from 4 to 2 and stays a root -/
example : rank (fun j => !(descendantsAndSelf exOn.tree 1).contains j) 3 = 1 ∧
    rank (fun j => !(descendantsAndSelf exOn.tree 1).contains j) 4 = 2 ∧
    (step exOn (.delete 1)).1.tree.parents = [0, 0, 2] := by decide
/-- the exclusion is needed: a comment that was a root because it sat under a deeper line
gets attached when that line is deleted -/
example : let s := init exCfg true 1 ["r".toList, " a".toList, "  b".toList, " !x".toList]
    s.tree.parents = [0, 0, 1, 3] ∧ (step s (.delete 2)).1.tree.parents = [0, 0, 0] := by decide
/-- replace_text / re_sub on line 4; an unchanged substitution is a no-op -/
example : (step exOn (.replaceText 4 "Eth1".toList "Po".toList)).1.texts[4]? = some "interface Po0".toList ∧
    (step exOn (.reSub 4 "interface Po1".toList)).1.texts[4]? = some "interface Po1".toList ∧
    (step exOn (.reSub 4 "interface Eth10".toList)).2 = .ok () := by decide
/-- child-level append to line 0 (children 1 and 3, grandchild 2): after the family end 3 -/
example : children exOn.tree 0 = [1, 3] ∧ familyEndpoint exOn.tree 0 = 3 ∧
    cfi 1 (indentOf exOn.tree 0) (familyText (indentOf exOn.tree 0) 1 " mtu 9000".toList (-1) false) = some 1 ∧
    (step exOn (.appendToFamily 0 " mtu 9000".toList (-1) false)).2 = .ok () ∧
    (step exOn (.appendToFamily 0 " mtu 9000".toList (-1) false)).1.texts =
      ["interface Eth1".toList, " ip address 1.1.1.1".toList, "  secondary".toList, " shutdown".toList,
       " mtu 9000".toList, "interface Eth10".toList] := by decide
/-- the hypotheses of `appendToFamily_keeps_parents_width1` hold for this append, and its
conclusion read off: new line 4 is a child of 0, `Eth10` (old 4, new 5) is still a root -/
example : Plain exOn.cfg exOn.texts ∧ exOn.width = 1 ∧
    isBannerStart " mtu 9000".toList = false ∧ isMacroStart " mtu 9000".toList = false ∧
    isComment exOn.cfg " mtu 9000".toList = false ∧
    (step exOn (.appendToFamily 0 " mtu 9000".toList (-1) false)).1.tree.parents = [0, 0, 1, 0, 0, 5] ∧
    exOn.tree.parents = [0, 0, 1, 0, 4] := by
  refine ⟨⟨by decide, fun _ => by decide⟩, by decide⟩
/-- the exclusion is needed: a comment directly after the insertion point that was a root
(it sat under a deeper line) becomes a child of the target when the new line is put above it -/
example : let s := init exCfg true 1 ["a".toList, " b".toList, "  c".toList, " !x".toList, "d".toList]
    s.tree.parents = [0, 0, 1, 3, 4] ∧ familyEndpoint s.tree 0 = 2 ∧
    (step s (.appendToFamily 0 " n".toList (-1) false)).1.texts
      = ["a".toList, " b".toList, "  c".toList, " n".toList, " !x".toList, "d".toList] ∧
    (step s (.appendToFamily 0 " n".toList (-1) false)).1.tree.parents = [0, 0, 1, 0, 0, 5] := by decide
/-- **F10b**: a same-indent append to line 0 lands at `0 + |children| = 2`, between
` ip address` and its child `  secondary`, which is thereby re-parented by the commit -/
example : cfi 1 (indentOf exOn.tree 0) (familyText (indentOf exOn.tree 0) 1 "interface Eth2".toList (-1) false) = some 0 ∧
    (step exOn (.appendToFamily 0 "interface Eth2".toList (-1) false)).2 = .ok () ∧
    (step exOn (.appendToFamily 0 "interface Eth2".toList (-1) false)).1.texts =
      ["interface Eth1".toList, " ip address 1.1.1.1".toList, "interface Eth2".toList, "  secondary".toList,
       " shutdown".toList, "interface Eth10".toList] ∧
    (step exOn (.appendToFamily 0 "interface Eth2".toList (-1) false)).1.tree.parents = [0, 0, 2, 2, 2, 5] := by
  decide
/-- childless target (line 3): same level goes after the last sibling, auto-indent one deeper -/
example : children exOn.tree 3 = [] ∧ siblings exOn.tree 3 = [1, 3] ∧
    (step exOn (.appendToFamily 3 " x".toList (-1) false)).1.texts[4]? = some " x".toList ∧
    (step exOn (.appendToFamily 3 "x".toList (-1) true)).1.texts[4]? = some "  x".toList := by decide
/-- `auto_commit_step_texts` with `ignore_blank_lines`: appending a blank line is filtered
away by the commit, a non-blank one survives -/
example : let s := init { exCfg with ignoreBlank := true } true 1 exLines
    s.auto = true ∧ s.dirty = false ∧
    (step { s with auto := false } (.append "  ".toList)).1.texts.length = 6 ∧
    (step s (.append "  ".toList)).1.texts = exLines ∧
    (step s (.append "end".toList)).1.texts = exLines ++ ["end".toList] := by decide
/-- object operations on a state with uncommitted changes (auto-commit off): after
`insert(0, "x")` the object with handle 0 sits at position 1 and is found there; after
it is popped, its handle no longer resolves -/
def exDirty : S := (step exOff (.insert 0 "x".toList)).1
example : exDirty.dirty = true ∧ posOf exDirty.items 0 = some 1 ∧ posOf exDirty.items 4 = some 5 ∧
    (step exDirty (.objInsBefore 0 "y".toList)).1.texts.take 3 = ["x".toList, "y".toList, "interface Eth1".toList] ∧
    (step exDirty (.replaceText 4 "Eth1".toList "Po".toList)).1.texts[5]? = some "interface Po0".toList ∧
    posOf (step exDirty (.pop 1)).1.items 0 = none ∧
    (step (step exDirty (.pop 1)).1 (.objInsAfter 0 "y".toList)).2 = .error .dirtyHandle := by decide
/-- identities after uncommitted edits: the fresh line has none, the others keep theirs -/
example : idsOf exDirty.items = [0, 1, 2, 3, 4] ∧ exDirty.items.map Item.id = [none, some 0, some 1, some 2, some 3, some 4] ∧
    idsOf (step exDirty (.pop 1)).1.items = [1, 2, 3, 4] := by decide
/-- `handle_position`, second part: on a committed state a handle is its own position -/
example : posOf exOn.items 3 = some 3 ∧ posOf exOn.items 5 = none := by decide
/-- refused: two levels deeper; `delete` through a handle on a dirty state -/
example : (step exOn (.appendToFamily 0 "   x".toList (-1) false)).2 = .error .notImplemented ∧
    (step (step exOff (.append "x".toList)).1 (.delete 0)).2 = .error .dirtyHandle := by decide

/-! ## parent links, second part: the exact frame of an insertion, childless appends,
`ignore_blank_lines`, list-level inserts, `replace_text` / `re_sub`

Vocabulary (`Ccp.Proofs.EditFrame`, `Ccp.Proofs.EditMulti`):

* `PlainCommitted s` := no uncommitted change, C07's invariant `FreshInv`, auto-commit on, no
  line of the config starts a banner or (syntax ios) a macro — *with or without*
  `ignore_blank_lines` (such a state holds no blank line when the option is on,
  `committed_no_blank`);
* `PlainPayload s txt` := `txt` starts no banner / macro and is not blank under
  `ignore_blank_lines` (a blank one is dropped by the commit: `blank_payload_ignored`);
* `shiftAt c p` := `if p < c then p else p + 1`, the index shift of an insertion at `c`
  (`shiftAfter e = shiftAt (e + 1)`);
* `capturedBy infos x c j` : the old line `j ≥ c` is adopted by the line `x` inserted at `c`
  (read without reference to the tree by `captured_iff`);
* `InsertFrame s s' c txt` := the texts of `s'` are those of `s` with `txt` added at `c`; lines
  above `c` keep their parents; an old line `j ≥ c` (now at `j + 1`), other than a comment
  directly behind the new line, has parent `c` when captured and `shiftAt c (old parent)`
  otherwise;
* `insertMarks after n row` / `markFn` : which positions of the list after a list-level
  insert hold old lines; `sel keep 0` keeps those positions, `rank keep q` is the old
  position of the old line at new position `q`; `MultiFrame` is the corresponding frame.
-/

/-- **Who is captured** (tree-free reading of `capturedBy`): the old line `j` is adopted by
the line `x` inserted at `c` exactly when `x` is a configuration line indented less than `j`,
`j` is not a comment left unattached under a deeper line, and no configuration line between
the insertion point and `j` is indented less than `j` — i.e. `j` lies in the stretch
directly behind the new line, is deeper than it, and was attached above it (or nowhere). -/
theorem captured_iff (infos : List Info) (x : Info) (c j : Nat) (l : Info) (hl : infos[j]? = some l) :
    capturedBy infos x c j = true ↔
      x.isCfg = true ∧ x.indent < l.indent ∧ commentUnderDeeper infos j = false ∧
      ∀ m lm, c ≤ m → m < j → infos[m]? = some lm → lm.isCfg = true → l.indent ≤ lm.indent :=
  capturedBy_iff infos x c j l hl

/-- a committed state over a config without banner / macro starts holds no blank line when
`ignore_blank_lines` is on, and its tree is the parse, with the option off, of its texts -/
theorem committed_no_blank (s : S) (h : PlainCommitted s) :
    (s.cfg.ignoreBlank = true → ∀ x ∈ s.texts, isBlank x = false) ∧
    s.tree = parse (noIg s.cfg) s.texts := by
  have hnb : s.cfg.ignoreBlank = true → ∀ x ∈ s.texts, nonBlank x = true :=
    fresh_nonblank s h.clean h.fresh h.plain
  refine ⟨fun hi x hx => ?_, ?_⟩
  · have := hnb hi x hx
    rw [nonBlank_eq] at this
    cases hb : isBlank x
    · rfl
    · rw [hb] at this; cases this
  · rw [(h.fresh h.clean).1]; exact parse_noIg s.cfg s.texts h.plain hnb

/-- **what the commit does under `ignore_blank_lines`** on a config without banner / macro
starts: the tree is the one obtained, with the option off, from the non-blank lines -/
theorem commit_ignore_blank (cfg : Cfg) (ls : List Str) (hi : cfg.ignoreBlank = true) (hp : Plain cfg ls) :
    parse cfg ls = parse (noIg cfg) (ls.filter (fun x => !isBlank x)) :=
  parse_ignore_plain cfg ls hi hp

/-- **`ConfigList.insert(k, txt)`**: the parent frame of the insertion at the normalised
position. -/
theorem insert_parents (s : S) (k : Int) (txt : Str) (h : PlainCommitted s) (hx : PlainPayload s txt) :
    InsertFrame s (step s (.insert k txt)).1 (insertPos s.texts.length k) txt := by
  refine insertFrame_of_step s _ txt true _ h hx (by exact insertPos_le _ _) ?_
  simp only [Edit.step]
  rw [pyInsert_eq, texts_length]

/-- **`obj.insert_before(txt)`**: the parent frame of the insertion at the object's position
`p` — the lines above `p` keep their parents; the object's line and the lines behind it keep
theirs (shifted) unless they are captured by the new line (`captured_iff`). -/
theorem objInsertBefore_parents (s : S) (h p : Nat) (txt : Str) (hc : PlainCommitted s) (hx : PlainPayload s txt)
    (hp : posOf s.items h = some p) :
    InsertFrame s (step s (.objInsBefore h txt)).1 p txt := by
  have hpl : p < s.texts.length := ((handle_position s h).1 p hp).1
  have hb' : (isBlank txt && s.cfg.ignoreBlank) = false := by
    cases h2 : s.cfg.ignoreBlank
    · simp
    · simp [hx.2.2 h2]
  refine insertFrame_of_step s p txt s.stale _ hc hx (by omega) ?_
  simp [Edit.step, hp, hb']

/-- **`obj.insert_after(txt)`**: the parent frame of the insertion at `p + 1`. -/
theorem objInsertAfter_parents (s : S) (h p : Nat) (txt : Str) (hc : PlainCommitted s) (hx : PlainPayload s txt)
    (hp : posOf s.items h = some p) :
    InsertFrame s (step s (.objInsAfter h txt)).1 (p + 1) txt := by
  have hpl : p < s.texts.length := ((handle_position s h).1 p hp).1
  have hb' : (isBlank txt && s.cfg.ignoreBlank) = false := by
    cases h2 : s.cfg.ignoreBlank
    · simp
    · simp [hx.2.2 h2]
  refine insertFrame_of_step s (p + 1) txt s.stale _ hc hx (by omega) ?_
  simp [Edit.step, hp, hb']

/-- **`obj.insert_before(txt)` above a configuration line that is not indented deeper than the
payload** (in particular: same indent) changes no parent at all — every old line keeps its
parent, index-shifted; and when both are at the same indent and the payload is not a
comment, the new line gets the parent of the object (it is a root when the object is). -/
theorem objInsertBefore_same_indent (s : S) (h p : Nat) (txt : Str) (hc : PlainCommitted s)
    (hx : PlainPayload s txt) (hp : posOf s.items h = some p)
    (hcfg : isConfigLine s.cfg (s.texts.getD p []) = true) (hle : indent (s.texts.getD p []) ≤ indent txt) :
    let s' := (step s (.objInsBefore h txt)).1
    (∀ j, j < p → parentOf s'.tree j = parentOf s.tree j) ∧
    (∀ j, p ≤ j → j < s.texts.length → parentOf s'.tree (j + 1) = shiftAt p (parentOf s.tree j)) ∧
    (indent txt = indent (s.texts.getD p []) → isComment s.cfg txt = false →
      parentOf s'.tree p = parentOf s.tree p) := by
  have hpl : p < s.texts.length := ((handle_position s h).1 p hp).1
  have hb' : (isBlank txt && s.cfg.ignoreBlank) = false := by
    cases h2 : s.cfg.ignoreBlank
    · simp
    · simp [hx.2.2 h2]
  exact insert_above_cfg s p txt s.stale _ hc hx hpl (by simp [Edit.step, hp, hb']) hcfg hle

/-- **`obj.insert_after(txt)` with a configuration line at the indent of the object's line**
(a configuration line too): the lines that change parent are exactly the children of the
object — they become children of the new line; the new line is a sibling of the object (a
root when the object is one); every other line keeps its parent (a comment directly behind
the new line excepted). -/
theorem objInsertAfter_same_indent (s : S) (h p : Nat) (txt : Str) (hc : PlainCommitted s)
    (hx : PlainPayload s txt) (hp : posOf s.items h = some p)
    (hcfg : isConfigLine s.cfg (s.texts.getD p []) = true) (heq : indent txt = indent (s.texts.getD p []))
    (hxc : isConfigLine s.cfg txt = true) :
    let s' := (step s (.objInsAfter h txt)).1
    (∀ j, j ≤ p → parentOf s'.tree j = parentOf s.tree j) ∧
    (∀ j, p < j → j < s.texts.length → ¬ (j = p + 1 ∧ isComment s.cfg (s.texts.getD j []) = true) →
      parentOf s'.tree (j + 1) = if parentOf s.tree j = p then p + 1 else shiftAt (p + 1) (parentOf s.tree j)) ∧
    parentOf s'.tree (p + 1) = if parentOf s.tree p = p then p + 1 else parentOf s.tree p := by
  have hpl : p < s.texts.length := ((handle_position s h).1 p hp).1
  have hb' : (isBlank txt && s.cfg.ignoreBlank) = false := by
    cases h2 : s.cfg.ignoreBlank
    · simp
    · simp [hx.2.2 h2]
  exact insert_below_cfg_same s p txt s.stale _ hc hx hpl (by simp [Edit.step, hp, hb']) hcfg heq hxc

/-- **list-level `insert_before(regex, txt)`**: the parent frame of a multiple insertion
(`MultiFrame`): the inserted copies removed, the old list is back; an old line at new
position `q` was at `rank keep q`; unless it is a comment directly behind a copy, or its new
parent is a copy, its old parent is the old position of its new parent. -/
theorem listInsertBefore_parents (s : S) (row : List Bool) (txt : Str) (hc : PlainCommitted s)
    (hx : PlainPayload s txt) :
    MultiFrame s (step s (.listInsBefore false row txt)).1 false row txt := by
  have hb' : (isBlank txt && s.cfg.ignoreBlank) = false := by
    cases h2 : s.cfg.ignoreBlank
    · simp
    · simp [hx.2.2 h2]
  exact multiFrame_of_step s false row txt _ hc hx (by simp [Edit.step, hb'])

/-- **list-level `insert_after(regex, txt)`**: the same frame. -/
theorem listInsertAfter_parents (s : S) (row : List Bool) (txt : Str) (hc : PlainCommitted s)
    (hx : PlainPayload s txt) :
    MultiFrame s (step s (.listInsAfter false row txt)).1 true row txt := by
  have hb' : (isBlank txt && s.cfg.ignoreBlank) = false := by
    cases h2 : s.cfg.ignoreBlank
    · simp
    · simp [hx.2.2 h2]
  exact multiFrame_of_step s true row txt _ hc hx (by simp [Edit.step, hb'])

/-- **list-level `insert_before` whose regex matches only configuration lines that are not
indented deeper than the payload** (in particular: same indent): no old line is adopted by a
copy — every old line's new parent is an old line, and its old parent is that line's old
position.  No exclusion: a line directly behind a copy is a matched line, not a comment. -/
theorem listInsertBefore_same_indent (s : S) (row : List Bool) (txt : Str) (hc : PlainCommitted s)
    (hx : PlainPayload s txt)
    (hQ : ∀ i, i < s.texts.length → row.getD i false = true →
      isConfigLine s.cfg (s.texts.getD i []) = true ∧ indent (s.texts.getD i []) ≤ indent txt) :
    let s' := (step s (.listInsBefore false row txt)).1
    let keep := markFn (insertMarks false s.texts.length row)
    ∀ q, q < s'.texts.length → keep q = true →
      keep (parentOf s'.tree q) = true ∧ parentOf s.tree (rank keep q) = rank keep (parentOf s'.tree q) := by
  have hb' : (isBlank txt && s.cfg.ignoreBlank) = false := by
    cases h2 : s.cfg.ignoreBlank
    · simp
    · simp [hx.2.2 h2]
  exact multi_insert_before_same s row txt _ hc hx (by simp [Edit.step, hb']) hQ

/-- **`obj.replace_text(before, after)`**: the lines above the object's position keep their
parents whatever the new text is; when the new text has the indentation and the kind
(configuration line / comment / blank) of the old one, no line changes parent at all. -/
theorem replaceText_parents (s : S) (h p : Nat) (before after : Str) (hc : PlainCommitted s)
    (hp : posOf s.items h = some p)
    (hx : PlainPayload s (pyReplace before after (s.texts.getD p []))) :
    let new := pyReplace before after (s.texts.getD p [])
    let s' := (step s (.replaceText h before after)).1
    s'.texts = s.texts.set p new ∧
    (∀ j, j < p → parentOf s'.tree j = parentOf s.tree j) ∧
    (info s.cfg new = info s.cfg (s.texts.getD p []) → s'.tree.parents = s.tree.parents) := by
  have hpl : p < s.texts.length := ((handle_position s h).1 p hp).1
  exact replace_parents s p _ _ hc hx hpl (by simp only [Edit.step, hp])

/-- **`obj.re_sub(regex, repl)`** that changes the text (non-stale state): the same frame. -/
theorem reSub_parents (s : S) (h p : Nat) (newText : Str) (hc : PlainCommitted s)
    (hp : posOf s.items h = some p) (hs : s.stale = false) (hne : newText ≠ s.texts.getD p [])
    (hx : PlainPayload s newText) :
    let s' := (step s (.reSub h newText)).1
    s'.texts = s.texts.set p newText ∧
    (∀ j, j < p → parentOf s'.tree j = parentOf s.tree j) ∧
    (info s.cfg newText = info s.cfg (s.texts.getD p []) → s'.tree.parents = s.tree.parents) := by
  have hpl : p < s.texts.length := ((handle_position s h).1 p hp).1
  exact replace_parents s p _ _ hc hx hpl
    (by simp only [Edit.step, hp, hs, Bool.false_eq_true, if_false, if_neg hne])

/-- **every successful `append_to_family`**, whatever branch of the index arithmetic it took
(child level, same indent — F10b —, childless target): exactly the captured lines change
parent (`InsertFrame` at the index `appendIndex` computed). -/
theorem appendToFamily_parents (s : S) (i : Nat) (txt : Str) (ind : Int) (ai : Bool) (hc : PlainCommitted s)
    (hx : PlainPayload s (familyText (indentOf s.tree i) s.width txt ind ai))
    (hok : (step s (.appendToFamily i txt ind ai)).2 = .ok ()) :
    ∃ idx, appendIndex s.tree s.width i (familyText (indentOf s.tree i) s.width txt ind ai) = .ok idx ∧
      InsertFrame s (step s (.appendToFamily i txt ind ai)).1 (min idx s.texts.length)
        (familyText (indentOf s.tree i) s.width txt ind ai) := by
  obtain ⟨_, _, _, idx, h4, h5⟩ := step_appendToFamily_ok s i txt ind ai hok
  refine ⟨idx, h4, insertFrame_of_step s _ _ true _ hc hx (Nat.min_le_right _ _) ?_⟩
  rw [h5, pyInsert_eq, insertPos_natCast, texts_length]

/-- **A child-level `append_to_family` to a childless target**: the line goes directly below
the target and becomes its only child; no old line changes parent — with or without
`ignore_blank_lines`, for every payload one level deeper than the target (comment payloads
included), the one exclusion being, as before, a comment directly behind the insertion point.
The target has to be a configuration line: a comment or a blank line heads no family (the
new line is then attached to the nearest shallower configuration line above, and may capture
following lines — `appendToFamily_parents` says which). -/
theorem appendToFamily_childless_keeps_parents (s : S) (i : Nat) (txt : Str) (ind : Int) (ai : Bool)
    (hc : PlainCommitted s)
    (hx : PlainPayload s (familyText (indentOf s.tree i) s.width txt ind ai))
    (hok : (step s (.appendToFamily i txt ind ai)).2 = .ok ())
    (hk : children s.tree i = [])
    (h0 : cfi s.width (indentOf s.tree i) (familyText (indentOf s.tree i) s.width txt ind ai) ≠ some 0)
    (hcfg : isConfigLine s.cfg (s.texts.getD i []) = true) :
    let txt' := familyText (indentOf s.tree i) s.width txt ind ai
    let s' := (step s (.appendToFamily i txt ind ai)).1
    i < s.texts.length ∧
    s'.texts = s.texts.take (i + 1) ++ txt' :: s.texts.drop (i + 1) ∧
    parentOf s'.tree (i + 1) = i ∧
    (∀ q, q ∈ children s'.tree i ↔ q = i + 1) ∧
    (∀ j, j ≤ i → parentOf s'.tree j = parentOf s.tree j) ∧
    (∀ j, i < j → j < s.texts.length → ¬ (j = i + 1 ∧ isComment s.cfg (s.texts.getD j []) = true) →
      parentOf s'.tree (j + 1) = shiftAfter i (parentOf s.tree j)) := by
  intro txt' s'
  obtain ⟨hd, hinv, ha, hp⟩ := hc
  obtain ⟨hb, hm, hnb⟩ := hx
  obtain ⟨htree, htexts, _⟩ := hinv hd
  obtain ⟨_, h2, _, idx, h4, h5⟩ := step_appendToFamily_ok s i txt ind ai hok
  have hil : i < s.texts.length := by rw [texts_length]; exact h2
  have hforest : Forest s.tree := by rw [htree]; exact bootstrap_forest _ _
  have hsz : s.tree.size = s.texts.length := by rw [T.size, ← htexts]
  -- the index is `i + 1`, the payload is one level deeper
  have hidx : idx = i + 1 ∧ cfi s.width (indentOf s.tree i) txt' = some 1 := by
    rcases appendIndex_childless _ _ _ _ idx hk h4 with h | ⟨h1, lp, hlp, hlp'⟩
    · exact absurd h.1 h0
    · rw [lastParentLinenum0_childless hforest _ _ _ (by omega) hk hlp] at hlp'
      exact ⟨hlp', h1⟩
  have hlt : indent (s.texts.getD i []) < indent txt' := by
    have := cfi_one_lt _ _ _ hidx.2
    have hio : indentOf s.tree i = indent (s.texts.getD i []) := by rw [indentOf, ← htexts]
    omega
  have hins : pyInsert s.items idx (fresh txt') = s.items.take (i + 1) ++ fresh txt' :: s.items.drop (i + 1) := by
    rw [pyInsert_eq, hidx.1, insertPos_natCast, Nat.min_eq_left (by rw [← texts_length]; omega)]
  rw [hins] at h5
  obtain ⟨f1, f2, f3, f4, f5, f6⟩ := auto_insert_frame s (i + 1) txt' true hd hinv ha hp (by omega) hb hm hnb
  rw [← h5] at f1 f2 f3 f5 f6
  -- specification-level facts about the target
  have hli : (s.texts.map (info s.cfg))[i]? = some (info s.cfg (s.texts.getD i [])) := info_getD s.cfg s.texts i hil
  have hnochild : ∀ j, i < j → j < s.texts.length → specParent (s.texts.map (info s.cfg)) j ≠ i := by
    intro j hij hjl hsp
    have : j ∈ children s.tree i := mem_children.mpr ⟨by omega, by rw [f4 j hjl]; exact hsp, by omega⟩
    rw [hk] at this; cases this
  refine ⟨hil, f1, ?_, ?_, ?_, ?_⟩
  · rw [f3 (i + 1) (by omega)]
    exact specParent_insert_new_child _ _ i _ hli hcfg hlt
  · intro q
    have hsz' : (step s (.appendToFamily i txt ind ai)).1.tree.size = s.texts.length + 1 := by
      rw [T.size, f2, f1]; simp; omega
    constructor
    · intro hq
      obtain ⟨q1, q2, q3⟩ := mem_children.mp hq
      rw [hsz'] at q1
      rw [f3 q q1] at q2
      exact specParent_insert_only_child _ (info s.cfg txt') i _ hli hcfg hlt
        (fun j a b => hnochild j a (by simpa using b)) q q3 (by simpa using q1) q2
    · rintro rfl
      refine mem_children.mpr ⟨by rw [hsz']; omega, ?_, by omega⟩
      rw [f3 (i + 1) (by omega)]
      exact specParent_insert_new_child _ _ i _ hli hcfg hlt
  · intro j hj; exact f5 j (by omega)
  · intro j h1 h2' h3
    rw [f6 j (by omega) h2' (by omega)]
    have hcap : capturedBy (s.texts.map (info s.cfg)) (info s.cfg txt') (i + 1) j = false := by
      cases hc : capturedBy (s.texts.map (info s.cfg)) (info s.cfg txt') (i + 1) j with
      | false => rfl
      | true =>
        have := (capturedBy_below _ (info s.cfg txt') i j _ _ hli hcfg (Nat.le_of_lt hlt) (by omega)
          (info_getD s.cfg s.texts j h2')).mp hc
        exact absurd this.2.2 (hnochild j h1 h2')
    rw [hcap, shiftAfter_eq_shiftAt]
    simp

/-- **The hypothesis of `appendToFamily_keeps_parents` on the children is automatic for every
indent width** (it was proved for width 1 in `appendToFamily_children_width1`): a successful
child-level append has classified the target and its last child against the width, and the
configuration-line children of a line are indented in non-increasing order, so none of them
is shallower than the payload.  (With width 2, `a` / ` b` + `  n` is refused.) -/
theorem appendToFamily_children_anywidth (s : S) (i : Nat) (txt : Str) (ind : Int) (ai : Bool)
    (hc : PlainCommitted s) (hok : (step s (.appendToFamily i txt ind ai)).2 = .ok ())
    (hk : children s.tree i ≠ [])
    (h0 : cfi s.width (indentOf s.tree i) (familyText (indentOf s.tree i) s.width txt ind ai) ≠ some 0) :
    ∀ c, c ∈ children s.tree i → isConfigLine s.cfg (s.texts.getD c []) = true →
      indent (familyText (indentOf s.tree i) s.width txt ind ai) ≤ indent (s.texts.getD c []) := by
  obtain ⟨_, _, _, idx, h4, _⟩ := step_appendToFamily_ok s i txt ind ai hok
  exact appendToFamily_children_deep s i _ idx hc hk h4 h0

/-- **A child-level `append_to_family` to a target with children, in full**: with or without
`ignore_blank_lines`, for every indent width and every payload (comments included) the line
goes to `familyEndpoint + 1` and *no old line changes parent* (the comment directly behind the
insertion point excepted); a payload that is not a comment becomes a child of the target.
The hypothesis of `appendToFamily_keeps_parents` on the children of the target is gone: it
follows from the success of the call (`appendToFamily_children_anywidth`). -/
theorem appendToFamily_keeps_parents_full (s : S) (i : Nat) (txt : Str) (ind : Int) (ai : Bool)
    (hc : PlainCommitted s)
    (hx : PlainPayload s (familyText (indentOf s.tree i) s.width txt ind ai))
    (hok : (step s (.appendToFamily i txt ind ai)).2 = .ok ())
    (hk : children s.tree i ≠ [])
    (h0 : cfi s.width (indentOf s.tree i) (familyText (indentOf s.tree i) s.width txt ind ai) ≠ some 0) :
    let txt' := familyText (indentOf s.tree i) s.width txt ind ai
    let e := familyEndpoint s.tree i
    let s' := (step s (.appendToFamily i txt ind ai)).1
    i ≤ e ∧ e < s.texts.length ∧
    s'.texts = s.texts.take (e + 1) ++ txt' :: s.texts.drop (e + 1) ∧
    (∀ j, j ≤ e → parentOf s'.tree j = parentOf s.tree j) ∧
    (∀ j, e < j → j < s.texts.length → ¬ (j = e + 1 ∧ isComment s.cfg (s.texts.getD j []) = true) →
      parentOf s'.tree (j + 1) = shiftAfter e (parentOf s.tree j)) ∧
    (isComment s.cfg txt' = false → parentOf s'.tree (e + 1) = i) := by
  intro txt' e s'
  have Hc := fun idx h4 => appendToFamily_children_deep s i txt' idx hc hk h4 h0
  obtain ⟨hd, hinv, ha, hp⟩ := hc
  obtain ⟨hb, hm, hnb⟩ := hx
  obtain ⟨htree, htexts, _⟩ := hinv hd
  obtain ⟨_, h2, _, idx, h4, h5⟩ := step_appendToFamily_ok s i txt ind ai hok
  obtain ⟨h6, h7⟩ := appendIndex_child_level _ _ _ _ idx hk h4 h0
  have hil : i < s.texts.length := by rw [texts_length]; exact h2
  have hforest : Forest s.tree := by rw [htree]; exact bootstrap_forest _ _
  have hsz : s.tree.size = s.texts.length := by rw [T.size, ← htexts]
  have he : e < s.tree.size := familyEndpoint_lt_size hforest (by omega)
  have hmax := familyEndpoint_max hforest i
  have hie : i ≤ e := hmax.2 i (List.mem_cons_self ..)
  have hnbt : s.cfg.ignoreBlank = true → ∀ x ∈ s.texts, nonBlank x = true := fresh_nonblank s hd hinv hp
  have hst : SpecTree s.tree (s.texts.map (info s.cfg)) := by rw [htree]; exact parse_specTree' s.cfg s.texts hp hnbt
  have hlt : indent (s.texts.getD i []) < indent txt' := by
    have := cfi_one_lt _ _ _ h7
    have hio : indentOf s.tree i = indent (s.texts.getD i []) := by rw [indentOf, ← htexts]
    show indent (s.texts.getD i []) < indent (familyText (indentOf s.tree i) s.width txt ind ai)
    omega
  have hins : pyInsert s.items idx (fresh txt') = s.items.take (e + 1) ++ fresh txt' :: s.items.drop (e + 1) := by
    rw [pyInsert_eq, h6, insertPos_natCast, Nat.min_eq_left (by rw [← texts_length]; omega)]
  rw [hins] at h5
  obtain ⟨f1, f2, f3, f4, f5, f6⟩ := auto_insert_frame s (e + 1) txt' true hd hinv ha hp (by omega) hb hm hnb
  rw [← h5] at f1 f2 f3 f5 f6
  have hli : (s.texts.map (info s.cfg))[i]? = some (info s.cfg (s.texts.getD i [])) := info_getD s.cfg s.texts i hil
  -- the target has a child, so it is a configuration line
  have hcfg : (info s.cfg (s.texts.getD i [])).isCfg = true := by
    obtain ⟨c, hc⟩ := List.exists_mem_of_ne_nil _ hk
    obtain ⟨hcs, hpc, hci⟩ := mem_children.mp hc
    obtain ⟨lp, _, e1, _, _, e4, _, _⟩ := specTree_parent hst hcs (by omega)
    rw [hpc, hli] at e1; cases e1; exact e4
  have H3 := specTree_family_closed hst i _ hli hcfg
  refine ⟨hie, by omega, f1, fun j hj => f5 j (by omega), ?_, ?_⟩
  · intro j h1 h2' h3
    rw [f6 j (by omega) h2' (by omega),
      capturedBy_closed _ (info s.cfg txt') i e j _ hli hcfg (Nat.le_of_lt hlt) hie H3 h1, shiftAfter_eq_shiftAt]
    simp
  · intro hxc
    replace Hc := Hc idx h4
    rw [f3 (e + 1) (by omega)]
    have hget : ∀ (j : Nat) (l : Info), (s.texts.map (info s.cfg))[j]? = some l → l = info s.cfg (s.texts.getD j []) := by
      intro j l hl
      have hj : j < s.texts.length := by simpa using (List.getElem?_eq_some_iff.mp hl).1
      rw [info_getD s.cfg s.texts j hj] at hl; cases hl; rfl
    exact (specTree_insert_child hst i (info s.cfg txt') hk hxc
      (by intro li hli'; rw [hget i li hli']; exact hlt)
      (by intro c l hc hl hcf; rw [hget c l hl] at hcf ⊢; exact Hc c hc hcf)).2.2.1

/-- **A blank payload under `ignore_blank_lines`** (the point excluded by `PlainPayload`): the
append succeeds, the commit drops the line again — texts and tree are what they were. -/
theorem blank_payload_ignored (s : S) (i : Nat) (txt : Str) (ind : Int) (ai : Bool) (hc : PlainCommitted s)
    (hi : s.cfg.ignoreBlank = true)
    (hok : (step s (.appendToFamily i txt ind ai)).2 = .ok ())
    (hbl : isBlank (familyText (indentOf s.tree i) s.width txt ind ai) = true)
    (hb : isBannerStart (familyText (indentOf s.tree i) s.width txt ind ai) = false)
    (hm : s.cfg.ios = true → isMacroStart (familyText (indentOf s.tree i) s.width txt ind ai) = false) :
    (step s (.appendToFamily i txt ind ai)).1.texts = s.texts ∧
    (step s (.appendToFamily i txt ind ai)).1.tree = s.tree := by
  obtain ⟨_, _, _, idx, _, h5⟩ := step_appendToFamily_ok s i txt ind ai hok
  rw [h5, pyInsert_eq]
  exact auto_insert_blank_noop s _ _ true hc hi hbl hb hm

/-- **`delete` keeps the parents of the surviving lines — with or without
`ignore_blank_lines`** (`delete_keeps_parents` without its `ignoreBlank = false`). -/
theorem delete_keeps_parents_full (s : S) (i : Nat) (hc : PlainCommitted s) (hi : i < s.texts.length) :
    let dead := descendantsAndSelf s.tree i
    let keep : Nat → Bool := fun j => !dead.contains j
    let s' := (step s (.delete i)).1
    s'.texts = eraseAll s.texts dead ∧
    ∀ j, j < s.texts.length → keep j = true →
      s'.texts[rank keep j]? = s.texts[j]? ∧
      keep (parentOf s.tree j) = true ∧
      (¬ (isComment s.cfg (s.texts.getD j []) = true ∧ ∃ j', j = j' + 1 ∧ keep j' = false) →
        parentOf s'.tree (rank keep j) = rank keep (parentOf s.tree j)) := by
  intro dead keep s'
  obtain ⟨hd, hinv, ha, hp⟩ := hc
  obtain ⟨htree, _, _⟩ := hinv hd
  have hnb : s.cfg.ignoreBlank = true → ∀ x ∈ s.texts, nonBlank x = true := fresh_nonblank s hd hinv hp
  have hg : ¬ (s.dirty = true ∨ s.items.length ≤ i) := by rw [hd, ← texts_length]; simp; omega
  have hstep : (step s (.delete i)).1
      = autoCommit { s with items := eraseAll s.items (descendantsAndSelf s.tree i), stale := s.stale, dirty := true } := by
    simp [Edit.step, hg]
  have hnew : (eraseAll s.items (descendantsAndSelf s.tree i)).map Item.text = eraseAll s.texts dead := by
    rw [eraseAll_map, items_map_text]
  obtain ⟨h1, h2⟩ := auto_commit_plain s ha (eraseAll s.items (descendantsAndSelf s.tree i)) s.stale
    (by rw [hnew]; exact plain_sublist s.cfg (eraseAll_sublist _ _) hp)
    (by rw [hnew]; exact fun hi x hx => hnb hi x ((eraseAll_sublist _ _).subset hx))
  rw [hnew, ← hstep] at h1 h2
  have hmain := parse_delete' s.cfg s.texts i hp hnb
  simp only at hmain
  rw [← htree] at hmain
  refine ⟨h1, fun j hj hkj => ?_⟩
  obtain ⟨r1, r2, r3⟩ := hmain.2 j hj hkj
  rw [hmain.1] at r1
  refine ⟨by rw [h1]; exact r1, r2, fun hex => ?_⟩
  rw [h2]; exact r3 hex

/-! ## non-vacuity of the second part -/

/-- the example config under `ignore_blank_lines` -/
def exIb : S := init { exCfg with ignoreBlank := true } true 1 exLines

/-- the bundled hypotheses hold in the example states, with and without `ignore_blank_lines` -/
example : PlainCommitted exOn ∧ PlainCommitted exIb :=
  ⟨⟨rfl, init_fresh _ _ _ _, rfl, ⟨by decide, fun _ => by decide⟩⟩,
   ⟨rfl, init_fresh _ _ _ _, rfl, ⟨by decide, fun _ => by decide⟩⟩⟩
example : PlainPayload exOn "interface Eth2".toList ∧ PlainPayload exIb "  x".toList ∧
    ¬ PlainPayload exIb " ".toList :=
  ⟨⟨by decide, fun _ => by decide, fun _ => by decide⟩, ⟨by decide, fun _ => by decide, fun _ => by decide⟩,
   fun h => absurd (h.2.2 rfl) (by decide)⟩
/-- `committed_no_blank` / `commit_ignore_blank`: blank input lines are gone after the parse,
and the tree is that of the non-blank lines -/
example : let s := init { exCfg with ignoreBlank := true } true 1 ["a".toList, "".toList, " b".toList, "  ".toList]
    s.texts = ["a".toList, " b".toList] ∧ s.tree.parents = [0, 0] ∧
    s.tree = parse (noIg s.cfg) ["a".toList, " b".toList] := by decide
/-- `insert_parents` / `captured_iff`: `insert(1, "x")` puts an unindented line between
`interface Eth1` and its children — lines 1 and 3 (old numbering) are captured, line 2 (whose
parent, line 1, lies behind the insertion point) and line 4 (a root) are not -/
example : (List.range 5).map (capturedBy (exLines.map (info exCfg)) (info exCfg "x".toList) 1)
      = [false, true, false, true, false] ∧
    (step exOn (.insert 1 "x".toList)).1.tree.parents = [0, 1, 1, 2, 1, 5] ∧
    shiftAt 1 1 = 2 ∧ shiftAt 1 0 = 0 := by decide
/-- `objInsertAfter_same_indent`: `interface Eth2` placed directly below `interface Eth1` takes
over its children (old lines 1 and 3), the grandchild (old 2) and `Eth10` keep their parents -/
example : posOf exOn.items 0 = some 0 ∧ isConfigLine exOn.cfg "interface Eth2".toList = true ∧
    indent "interface Eth2".toList = indent (exOn.texts.getD 0 []) ∧
    (step exOn (.objInsAfter 0 "interface Eth2".toList)).1.tree.parents = [0, 1, 1, 2, 1, 5] := by decide
/-- `objInsertBefore_same_indent`: `interface Eth9` placed directly above `interface Eth10`
changes no parent -/
example : posOf exOn.items 4 = some 4 ∧ isConfigLine exOn.cfg (exOn.texts.getD 4 []) = true ∧
    indent (exOn.texts.getD 4 []) ≤ indent "interface Eth9".toList ∧
    (step exOn (.objInsBefore 4 "interface Eth9".toList)).1.tree.parents = [0, 0, 1, 0, 4, 5] := by decide
/-- `listInsertBefore_same_indent` on the rows of `^interface` with the payload `!`: positions
0 and 5 of the new list hold the copies, the old lines keep their parents -/
example : insertMarks false 5 [true, false, false, false, true] = [false, true, true, true, true, false, true] ∧
    rank (markFn (insertMarks false 5 [true, false, false, false, true])) 6 = 4 ∧
    (step exOn (.listInsBefore false [true, false, false, false, true] "!".toList)).1.tree.parents
      = [0, 1, 1, 2, 1, 5, 6] := by decide
/-- `listInsertAfter_parents`: `insert_after(^interface, " x")` — no old line is adopted here
either (the copies are as deep as the children) -/
example : (step exOn (.listInsAfter false [true, false, false, false, true] " x".toList)).1.tree.parents
      = [0, 0, 0, 2, 0, 5, 5] := by decide
/-- `replaceText_parents` / `reSub_parents`: same indentation and kind, same parents -/
example : info exCfg "interface Po0".toList = info exCfg "interface Eth10".toList ∧
    (step exOn (.replaceText 4 "Eth1".toList "Po".toList)).1.tree.parents = exOn.tree.parents ∧
    (step exOn (.reSub 1 " no ip address".toList)).1.tree.parents = exOn.tree.parents := by decide
/-- `appendToFamily_childless_keeps_parents`: line 3 (` shutdown`) has no children and is a
configuration line; the auto-indented payload lands at 4 and is its only child — also under
`ignore_blank_lines` -/
example : children exOn.tree 3 = [] ∧ isConfigLine exOn.cfg (exOn.texts.getD 3 []) = true ∧
    (step exOn (.appendToFamily 3 "x".toList (-1) true)).2 = .ok () ∧
    (step exOn (.appendToFamily 3 "x".toList (-1) true)).1.tree.parents = [0, 0, 1, 0, 3, 5] ∧
    children (step exOn (.appendToFamily 3 "x".toList (-1) true)).1.tree 3 = [4] ∧
    (step exIb (.appendToFamily 3 "x".toList (-1) true)).1.tree.parents = [0, 0, 1, 0, 3, 5] := by decide
/-- the target must be a configuration line: below a comment the new line is attached to the
line above the comment, and captures what follows (`appendToFamily_parents`) -/
example : let s := init exCfg true 1 ["!y".toList, "  c".toList]
    s.tree.parents = [0, 1] ∧ (step s (.appendToFamily 0 " n".toList (-1) false)).2 = .ok () ∧
    (step s (.appendToFamily 0 " n".toList (-1) false)).1.tree.parents = [0, 1, 1] ∧
    capturedBy (s.texts.map (info exCfg)) (info exCfg " n".toList) 1 1 = true := by decide
/-- `appendToFamily_keeps_parents_full` / `appendToFamily_children_anywidth` with indent
width 2: a child at an odd indent makes the call fail, otherwise the new line is a child -/
example : let s := init { exCfg with ios := false } true 2 ["a".toList, " b".toList, "c".toList]
    children s.tree 0 = [1] ∧
    (step s (.appendToFamily 0 "  n".toList (-1) false)).2 = .error .notImplemented := by decide
example : let s := init { exCfg with ios := false } true 2 ["a".toList, "  b".toList, "    d".toList, "c".toList]
    (step s (.appendToFamily 0 "  n".toList (-1) false)).2 = .ok () ∧
    (step s (.appendToFamily 0 "  n".toList (-1) false)).1.tree.parents = [0, 0, 1, 0, 4] := by decide
/-- … and under `ignore_blank_lines`; a comment payload behind a deeper line stays unattached
while no old line moves -/
example : (step exIb (.appendToFamily 0 " mtu 9000".toList (-1) false)).1.tree.parents = [0, 0, 1, 0, 0, 5] ∧
    (let s := init exCfg true 1 ["a".toList, " b".toList, "  c".toList, "d".toList]
     (step s (.appendToFamily 0 " !n".toList (-1) false)).1.tree.parents = [0, 0, 1, 3, 4]) := by decide
/-- `blank_payload_ignored` -/
example : isBlank (familyText (indentOf exIb.tree 0) 1 " ".toList (-1) false) = true ∧
    (step exIb (.appendToFamily 0 " ".toList (-1) false)).2 = .ok () ∧
    (step exIb (.appendToFamily 0 " ".toList (-1) false)).1.texts = exIb.texts := by decide
/-- `delete_keeps_parents_full` under `ignore_blank_lines` -/
example : (step exIb (.delete 1)).1.tree.parents = [0, 0, 2] := by decide


/-! ## configs with banner / macro families: the lines above the edit -/

/-- **No edit changes the parent of a line above the edited position — in any config, banner
and macro families included.**  State: no uncommitted change, C07's invariant, auto-commit
on, blank lines kept; *no* restriction on the lines of the config or on the payload.  If the
step leaves the first `n` lines as they were (for an insertion at `c`: `n = c`; for
`append_to_family` at `familyEndpoint + 1`: the whole family; for `delete i` / a replacement
at `i`: `n = i`), these lines keep their parents: pass 1 looks backwards and a banner / macro
walk runs forwards from its start line. -/
theorem lines_above_keep_parents (s : S) (op : Op) (hd : s.dirty = false) (hinv : FreshInv s)
    (ha : s.auto = true) (hig : s.cfg.ignoreBlank = false) (n : Nat) (hn : n ≤ s.texts.length)
    (hpre : (step s op).1.texts.take n = s.texts.take n) :
    ∀ j, j < n → parentOf (step s op).1.tree j = parentOf s.tree j :=
  above_edit_parents s op hd hinv ha hig n hn hpre

/-- a config with a banner family (line 0 with body 1, 2 and closing line 3): an insertion
below it leaves its links alone, and so does an insertion in the middle of the banner for the
lines above -/
def exBanner : S :=
  init exCfg true 1 ["banner motd ^".toList, " hi".toList, "x".toList, "^".toList, "interface X".toList, " shutdown".toList]
example : exBanner.tree.parents = [0, 0, 0, 0, 4, 4] ∧
    (step exBanner (.appendToFamily 4 " mtu 9000".toList (-1) false)).1.tree.parents = [0, 0, 0, 0, 4, 4, 4] ∧
    (step exBanner (.objInsBefore 2 "y".toList)).1.texts.take 2 = exBanner.texts.take 2 ∧
    (step exBanner (.objInsBefore 2 "y".toList)).1.tree.parents = [0, 0, 0, 0, 0, 5, 5] := by decide


/-! ## configs with banner / macro families: the lines below an insertion at a closed position -/

/-- **One line inserted into a config with banner / macro families** (`InsertFrameW`).  State:
no uncommitted change, C07's invariant, auto-commit on, blank lines kept; the insertion point
is not inside a family body (`ClosedAt`: every banner / macro start above it finds its
terminator above it) and the payload starts no family.  Then the lines above keep their
parents, and an old line at or below the insertion point keeps its parent (index-shifted) or
is adopted by the new line — only when captured in the sense of `captured_iff`.  For
`ConfigList.insert(k, txt)`: -/
theorem insert_parents_families (s : S) (k : Int) (txt : Str)
    (hd : s.dirty = false) (hinv : FreshInv s) (ha : s.auto = true) (hig : s.cfg.ignoreBlank = false)
    (hcl : ClosedAt s.cfg s.texts (insertPos s.texts.length k))
    (hb : isBannerStart txt = false) (hm : s.cfg.ios = true → isMacroStart txt = false) :
    InsertFrameW s (step s (.insert k txt)).1 (insertPos s.texts.length k) txt := by
  refine insertFrameW_of_step s _ txt true _ hd hinv ha hig (insertPos_le _ _) hcl hb hm ?_
  simp only [Edit.step]
  rw [pyInsert_eq, texts_length]

/-- … for `obj.insert_before(txt)` / `obj.insert_after(txt)` on the object at position `p`: -/
theorem objInsert_parents_families (s : S) (h p : Nat) (txt : Str)
    (hd : s.dirty = false) (hinv : FreshInv s) (ha : s.auto = true) (hig : s.cfg.ignoreBlank = false)
    (hp : posOf s.items h = some p)
    (hb : isBannerStart txt = false) (hm : s.cfg.ios = true → isMacroStart txt = false) :
    (ClosedAt s.cfg s.texts p → InsertFrameW s (step s (.objInsBefore h txt)).1 p txt) ∧
    (ClosedAt s.cfg s.texts (p + 1) → InsertFrameW s (step s (.objInsAfter h txt)).1 (p + 1) txt) := by
  have hpl : p < s.texts.length := ((handle_position s h).1 p hp).1
  have hb' : (isBlank txt && s.cfg.ignoreBlank) = false := by simp [hig]
  constructor
  · intro hcl
    exact insertFrameW_of_step s p txt s.stale _ hd hinv ha hig (by omega) hcl hb hm (by simp [Edit.step, hp, hb'])
  · intro hcl
    exact insertFrameW_of_step s (p + 1) txt s.stale _ hd hinv ha hig (by omega) hcl hb hm (by simp [Edit.step, hp, hb'])

/-- … and for every successful `append_to_family`: -/
theorem appendToFamily_parents_families (s : S) (i : Nat) (txt : Str) (ind : Int) (ai : Bool)
    (hd : s.dirty = false) (hinv : FreshInv s) (ha : s.auto = true) (hig : s.cfg.ignoreBlank = false)
    (hok : (step s (.appendToFamily i txt ind ai)).2 = .ok ())
    (hb : isBannerStart (familyText (indentOf s.tree i) s.width txt ind ai) = false)
    (hm : s.cfg.ios = true → isMacroStart (familyText (indentOf s.tree i) s.width txt ind ai) = false) :
    ∃ idx, appendIndex s.tree s.width i (familyText (indentOf s.tree i) s.width txt ind ai) = .ok idx ∧
      (ClosedAt s.cfg s.texts (min idx s.texts.length) →
        InsertFrameW s (step s (.appendToFamily i txt ind ai)).1 (min idx s.texts.length)
          (familyText (indentOf s.tree i) s.width txt ind ai)) := by
  obtain ⟨_, _, _, idx, h4, h5⟩ := step_appendToFamily_ok s i txt ind ai hok
  refine ⟨idx, h4, fun hcl => insertFrameW_of_step s _ _ true _ hd hinv ha hig (Nat.min_le_right _ _) hcl hb hm ?_⟩
  rw [h5, pyInsert_eq, insertPos_natCast, texts_length]

/-- the banner example: positions 4, 5, 6 (below the banner family 0–3) are closed, position 2
(inside the body) is not; a child appended to `interface X` and a line inserted above it
change no parent -/
example : closedAtB exBanner.cfg exBanner.texts 4 = true ∧ closedAtB exBanner.cfg exBanner.texts 6 = true ∧
    closedAtB exBanner.cfg exBanner.texts 2 = false ∧
    (step exBanner (.appendToFamily 4 " mtu 9000".toList (-1) false)).1.tree.parents = [0, 0, 0, 0, 4, 4, 4] ∧
    (step exBanner (.objInsBefore 4 "hostname r".toList)).1.tree.parents = [0, 0, 0, 0, 4, 5, 5] := by decide
example : ClosedAt exBanner.cfg exBanner.texts 4 := closedAt_of_check _ _ _ (by decide)
/-- inside the body the hypothesis fails and so does the conclusion: a line holding the
delimiter ends the banner early, the lines behind it leave the family -/
example : (step exBanner (.objInsBefore 2 "^".toList)).1.tree.parents = [0, 0, 0, 3, 4, 5, 5] := by decide

/-! ## the other input forms of the editing calls, their rejections, `remove`, a stale handle

`Ccp.Model.EditForms`: `stepX` takes the arguments in the forms the code accepts — a line text
as a `str` (`Arg.str`) or as a `BaseCfgLine` that is not an element of the list (`Arg.line`), any
other value (`Arg.other`) — and mirrors the order of the checks of each entry point.  The theorems
say how every form reduces to `step`, so that everything proved above carries over. -/

/-- **A `BaseCfgLine` payload is its text**: `ConfigList.insert`, `obj.insert_before/after` and
`append_to_family` do with a line object exactly what they do with the `str` of its text. -/
theorem line_payload_is_text (s : S) (t : Str) (k : Int) (h : Nat) (ind : Int) (ai : Bool) :
    stepX s (.insertA (some k) (.line t)) = liftR (step s (.insert k t)) ∧
    stepX s (.insertA (some k) (.str t)) = liftR (step s (.insert k t)) ∧
    stepX s (.objInsBeforeA h (.line t)) = liftR (step s (.objInsBefore h t)) ∧
    stepX s (.objInsBeforeA h (.str t)) = liftR (step s (.objInsBefore h t)) ∧
    stepX s (.objInsAfterA h (.line t)) = liftR (step s (.objInsAfter h t)) ∧
    stepX s (.objInsAfterA h (.str t)) = liftR (step s (.objInsAfter h t)) ∧
    stepX s (.appendToFamilyL h t ind ai) = liftR (step s (.appendToFamily h t ind ai)) :=
  ⟨rfl, rfl, rfl, rfl, rfl, rfl, rfl⟩

/-- **list-level `insert_before/after`, both arguments as `str`**: the operation of the first part
(`listInsertBefore_spec`, `listInsertAfter_spec`, `listInsert_errors`), the empty-regex flag being
"the pattern is the empty string". -/
theorem listInsert_str_forms (s : S) (p : Str) (row : List Bool) (t : Str) :
    stepX s (.listInsBeforeA (.str p) row (.str t)) = liftR (step s (.listInsBefore p.isEmpty row t)) ∧
    stepX s (.listInsAfterA (.str p) row (.str t)) = liftR (step s (.listInsAfter p.isEmpty row t)) := by
  constructor <;>
  · simp only [stepX, listInsA, Edit.step, Arg.text?, listInsCore, liftR]
    by_cases h1 : (isBlank t && s.cfg.ignoreBlank) = true
    · simp [h1]
    · by_cases h2 : p.isEmpty = true <;> simp [h1, h2]

/-- **a `BaseCfgLine` that is not in the list as `exist_val`**: its text is the regular expression
(`row` = the lines it matches) — also when that text is empty, which a `str` pattern may not be. -/
theorem listInsert_foreign_pattern (s : S) (p : Str) (row : List Bool) (t : Str) :
    stepX s (.listInsBeforeA (.line p) row (.str t)) = liftR (step s (.listInsBefore false row t)) ∧
    stepX s (.listInsAfterA (.line p) row (.str t)) = liftR (step s (.listInsAfter false row t)) := by
  constructor <;>
  · simp only [stepX, listInsA, Edit.step, Arg.text?, listInsCore, liftR]
    by_cases h1 : (isBlank t && s.cfg.ignoreBlank) = true <;> simp [h1]

/-- **a `BaseCfgLine` as `new_val` of a list-level insert**: the same as the `str` of its text,
whatever the pattern form — unless it is a blank line under `ignore_blank_lines`: the guard that
refuses such a `str` (`InvalidParameters`) looks at `str` payloads only, the line object is
inserted … -/
theorem listInsert_line_payload (s : S) (after : Bool) (pat : Arg) (row : List Bool) (t : Str) :
    (¬ (isBlank t = true ∧ s.cfg.ignoreBlank = true) →
      listInsA after s pat row (.line t) = listInsA after s pat row (.str t)) ∧
    (isBlank t = true ∧ s.cfg.ignoreBlank = true →
      listInsA after s pat row (.str t) = (s, .error (.base .invalidParameters)) ∧
      (pat = .line [] ∨ (∃ p, pat = .line p) ∨ (∃ p, pat = .str p ∧ p ≠ []) →
        listInsA after s pat row (.line t) = listInsCore after s row t)) := by
  constructor
  · intro hb
    have hb' : (isBlank t && s.cfg.ignoreBlank) = false := by
      cases h1 : isBlank t <;> cases h2 : s.cfg.ignoreBlank <;> simp_all
    simp only [listInsA, hb', Arg.text?]
  · rintro ⟨h1, h2⟩
    refine ⟨by simp [listInsA, h1, h2], ?_⟩
    rintro (rfl | ⟨p, rfl⟩ | ⟨p, rfl, hp⟩)
    · simp [listInsA, Arg.text?]
    · simp [listInsA, Arg.text?]
    · cases p with
      | nil => exact absurd rfl hp
      | cons c cs => simp [listInsA, Arg.text?]

/-- … and on a committed state over a config without banner / macro starts (auto-commit on) the
commit that follows drops every copy again: texts and tree are what they were. -/
theorem listInsert_blank_line_dropped (s : S) (after : Bool) (row : List Bool) (t : Str) (hc : PlainCommitted s)
    (hi : s.cfg.ignoreBlank = true) (hbl : isBlank t = true)
    (hb : isBannerStart t = false) (hm : s.cfg.ios = true → isMacroStart t = false) :
    (listInsCore after s row t).1.texts = s.texts ∧ (listInsCore after s row t).1.tree = s.tree :=
  auto_listIns_blank_noop s after row t hc hi hbl hb hm

/-- **Rejections**: a value that is neither a `str` nor a `BaseCfgLine` where a line text is
expected, an index that is not an `int`, a pattern that is neither — each is refused with the
exception class of its entry point (`ConfigList.insert`: `ValueError` for the index, checked
first, `TypeError` for the value; `obj.insert_before/after`: `NotImplementedError`; list-level
`insert_before/after`: `ValueError`; `ConfigList.remove`: `InvalidParameters` for a non-line,
`ValueError` for a line that is not in the list) and the whole state is unchanged. -/
theorem malformed_rejected (s : S) (k : Int) (v pat : Arg) (h p : Nat) (row : List Bool) (after : Bool) :
    stepX s (.insertA none v) = (s, .error (.base .valueError)) ∧
    stepX s (.insertA (some k) .other) = (s, .error .typeError) ∧
    (posOf s.items h = some p →
      stepX s (.objInsBeforeA h .other) = (s, .error (.base .notImplemented)) ∧
      stepX s (.objInsAfterA h .other) = (s, .error (.base .notImplemented))) ∧
    listInsA after s pat row .other = (s, .error (.base .valueError)) ∧
    ((∀ t, v = .str t → ¬ (isBlank t = true ∧ s.cfg.ignoreBlank = true)) →
      listInsA after s .other row v = (s, .error (.base .valueError)) ∧
      listInsA after s (.str []) row v = (s, .error (.base .valueError))) ∧
    stepX s (.remove .foreign) = (s, .error (.base .valueError)) ∧
    stepX s (.remove .other) = (s, .error (.base .invalidParameters)) := by
  refine ⟨rfl, rfl, fun hp => ?_, ?_, fun hv => ?_, rfl, rfl⟩
  · simp [stepX, Arg.text?, hp]
  · cases pat with
    | str q => cases q <;> simp [listInsA, Arg.text?]
    | line q => simp [listInsA, Arg.text?]
    | other => simp [listInsA]
  · cases v with
    | str t =>
      have hb' : (isBlank t && s.cfg.ignoreBlank) = false := by
        have := hv t rfl
        cases h1 : isBlank t <;> cases h2 : s.cfg.ignoreBlank <;> simp_all
      simp [listInsA, hb']
    | line t => simp [listInsA]
    | other => simp [listInsA]

/-- **Every refused call leaves the whole state unchanged** — for the extended calls too; the one
exception is the double delete, whose first `delete()` has happened when the second is refused. -/
theorem errorsX_leave_state (s : S) (op : OpX) (e : ErrX) (h : (stepX s op).2 = .error e) :
    (stepX s op).1 = s ∨ ∃ i, op = .deleteTwice i ∧ (stepX s op).1 = (step s (.delete i)).1 := by
  have lift : ∀ o : Op, (liftR (step s o)).2 = .error e → (liftR (step s o)).1 = s := by
    intro o ho
    cases hr : (step s o).2 with
    | ok u => simp [liftR, hr] at ho
    | error e' => exact step_error_unchanged s o e' hr
  cases op with
  | base o => exact .inl (lift o h)
  | insertA k v =>
    cases k with
    | none => exact .inl rfl
    | some k => cases v with
      | str t => exact .inl (lift _ h)
      | line t => exact .inl (lift _ h)
      | other => exact .inl rfl
  | objInsBeforeA i v =>
    cases v with
    | str t => exact .inl (lift _ h)
    | line t => exact .inl (lift _ h)
    | other => left; simp only [stepX, Arg.text?]; split <;> rfl
  | objInsAfterA i v =>
    cases v with
    | str t => exact .inl (lift _ h)
    | line t => exact .inl (lift _ h)
    | other => left; simp only [stepX, Arg.text?]; split <;> rfl
  | listInsBeforeA pat row v =>
    left; revert h; simp only [stepX, listInsA, listInsCore]
    repeat' split
    all_goals first | exact fun _ => rfl | (intro h; cases h)
  | listInsAfterA pat row v =>
    left; revert h; simp only [stepX, listInsA, listInsCore]
    repeat' split
    all_goals first | exact fun _ => rfl | (intro h; cases h)
  | appendToFamilyL i t ind ai => exact .inl (lift _ h)
  | remove v =>
    cases v with
    | member i => exact .inl (lift _ h)
    | foreign => exact .inl rfl
    | other => exact .inl rfl
  | deleteTwice i =>
    right; refine ⟨i, rfl, ?_⟩
    revert h; simp only [stepX]
    repeat' split
    all_goals first | exact fun _ => rfl | (intro h; cases h)

/-- **`ConfigList.remove(obj)`** for an object of the list is `obj.delete()` at list level: the
line and all its descendants go, nothing else — `delete_spec`, `delete_spec_forest` and
`delete_keeps_parents_full` read for `remove`. -/
theorem remove_is_delete (s : S) (i : Nat) :
    stepX s (.remove (.member i)) = liftR (step s (.delete i)) := rfl

theorem remove_spec (s : S) (i : Nat) (hnf : NoFilter s) (hd : s.dirty = false) (hi : i < s.texts.length)
    (hf : Forest s.tree) (hsz : s.tree.size = s.texts.length) :
    (stepX s (.remove (.member i))).2 = .ok () ∧
    (stepX s (.remove (.member i))).1.texts
      = (s.texts.zipIdx.filter (fun p => decide (p.2 ≠ i ∧ i ∉ ancestors s.tree p.2))).map (·.1) ∧
    (stepX s (.remove (.member i))).1.texts.length + 1 + (allChildren s.tree i).length = s.texts.length ∧
    ((stepX s (.remove (.member i))).1.texts).Sublist s.texts := by
  obtain ⟨h1, _, h3⟩ := delete_spec s i hnf hd hi
  obtain ⟨h4, h5⟩ := delete_spec_forest s i hnf hd hi hf hsz
  refine ⟨?_, h4, h5, h3⟩
  show (liftR (step s (.delete i))).2 = .ok ()
  simp [liftR, h1]

/-- **`delete()` twice through the same handle** (the handle keeps its old line number, text and
descendants).  `s`: no uncommitted change, C07's invariant, `i` a line.  With `s1` the state after
the first delete and `dead` = `i` and its old descendants:
* auto-commit off: the second call is always refused (`ConfigListItemDoesNotExist`), `s1` stays;
* auto-commit on: it is refused in the same way unless the line now at number `i` has the text
  the deleted line had; if it has, the stale line numbers `dead` are deleted once more — or, when
  one of them is past the end, the call is an `IndexError` and `s1` stays. -/
theorem deleteTwice_spec (s : S) (i : Nat) (hd : s.dirty = false) (hinv : FreshInv s) (hi : i < s.texts.length) :
    let s1 := (step s (.delete i)).1
    let dead := descendantsAndSelf s.tree i
    (s.auto = false → stepX s (.deleteTwice i) = (s1, .error (.base .doesNotExist))) ∧
    (s.auto = true → s1.texts[i]? ≠ some (s.texts.getD i []) →
      stepX s (.deleteTwice i) = (s1, .error (.base .doesNotExist))) ∧
    (s.auto = true → s1.texts[i]? = some (s.texts.getD i []) →
      (dead.any (fun j => j ≥ s1.texts.length) = true →
        stepX s (.deleteTwice i) = (s1, .error (.base .indexError))) ∧
      (dead.any (fun j => j ≥ s1.texts.length) = false →
        stepX s (.deleteTwice i)
          = (autoCommit { s1 with items := eraseAll s1.items dead, dirty := true }, .ok ()))) := by
  intro s1 dead
  have hg : ¬ (s.dirty = true ∨ s.items.length ≤ i) := by rw [hd, ← texts_length]; simp; omega
  have hok : (step s (.delete i)).2 = .ok () := by simp [Edit.step, hg]
  have hs1 : s1 = autoCommit { s with items := eraseAll s.items dead, dirty := true } := by
    simp [s1, dead, Edit.step, hg]
  have hitems : s.items = committedItems s.tree := (hinv hd).2.2
  have hunf : stepX s (.deleteTwice i)
      = if !presentEq s1.items i (s.texts.getD i []) then (s1, .error (.base .doesNotExist))
        else if dead.any (fun j => j ≥ s1.items.length) then (s1, .error (.base .indexError))
        else (autoCommit { s1 with items := eraseAll s1.items dead, dirty := true }, .ok ()) := by
    simp only [stepX, hok]; rfl
  have hcom : s.auto = true → s1.items = committedItems s1.tree := by
    intro ha
    have hon : s1 = commit { s with items := eraseAll s.items dead, dirty := true } := by
      rw [hs1]; exact autoCommit_on _ ha
    rw [hon]; rfl
  refine ⟨fun ha => ?_, fun ha hne => ?_, fun ha heq => ?_⟩
  · have : s1.items = eraseAll (committedItems s.tree) dead := by
      have hoff : s1 = { s with items := eraseAll s.items dead, dirty := true } := by
        rw [hs1]; exact autoCommit_off _ ha
      rw [hoff, hitems]
    rw [hunf, this, presentEq_eraseAll_committed s.tree dead i _ (by simp [dead, descendantsAndSelf])]
    rfl
  · have hc := hcom ha
    have ht : s1.texts = s1.tree.texts := by
      rw [S.texts, hc, committedItems_texts]
    rw [hunf, hc, presentEq_committed, ← ht]
    have : (s1.texts[i]? == some (s.texts.getD i [])) = false := by simpa using hne
    rw [this]; rfl
  · have hc := hcom ha
    have ht : s1.texts = s1.tree.texts := by
      rw [S.texts, hc, committedItems_texts]
    have hp : presentEq s1.items i (s.texts.getD i []) = true := by
      rw [hc, presentEq_committed, ← ht]; simpa using heq
    rw [hunf, hp, ← texts_length]
    constructor
    · intro h; simp [h]
    · intro h; simp [h]

/-- **The typed-model factory changes no editing call** (`stepF f` for a configuration parsed with `factory=f`): every
operation -- in every input form -- has the outcome and the effect it has without the factory, and so has every
history; everything proved about `step` / `stepX` above holds under `factory=True`.
(Before the repair `fix: ConfigList.insert() passes all_lines to config_line_factory() under factory=True` this was
`factory_insert_refused`: under the factory `ConfigList.insert` was refused with `InvalidParameters`, after the index
check and before the value check, and `append_to_family`, which inserts through it, never changed the list -- finding
F10e.) -/
theorem factory_neutral (f : Bool) (s : S) (op : OpX) (ops : List OpX) :
    stepF f s op = stepX s op ∧ runX f s ops = runX false s ops := by
  refine ⟨rfl, ?_⟩
  induction ops generalizing s with
  | nil => rfl
  | cons o os ih => simp only [runX, stepF]; exact ih _

/-- **`ConfigList.insert` under `factory=True`** -- with a `str` or a line object -- always succeeds and is exactly
`list.insert`: one line added at the normalised position, everything else unchanged and in order (`insert_spec`,
`insertion_frame`); an index that is not an `int` is still a `ValueError`, a value that is no text a `TypeError`. -/
theorem factory_insert_spec (s : S) (k : Int) (t : Str) (v : Arg) (hnf : NoFilter s) :
    (stepF true s (.base (.insert k t))).2 = .ok () ∧
    (stepF true s (.insertA (some k) (.str t))).2 = .ok () ∧
    (stepF true s (.insertA (some k) (.line t))).2 = .ok () ∧
    (stepF true s (.base (.insert k t))).1.texts
      = s.texts.take (insertPos s.texts.length k) ++ t :: s.texts.drop (insertPos s.texts.length k) ∧
    (stepF true s (.insertA (some k) (.str t))).1 = (stepF true s (.base (.insert k t))).1 ∧
    (stepF true s (.insertA (some k) (.line t))).1 = (stepF true s (.base (.insert k t))).1 ∧
    stepF true s (.insertA none v) = (s, .error (.base .valueError)) ∧
    stepF true s (.insertA (some k) .other) = (s, .error .typeError) :=
  ⟨rfl, rfl, rfl, (insert_spec s k t hnf).2, rfl, rfl, rfl, rfl⟩

/-- **`append_to_family` under `factory=True`** (payload a `str` or a line object) is the operation of
`appendToFamily_spec`: whenever it succeeds exactly one line -- the payload after the explicit / auto indentation --
is inserted at the index `appendIndex` computes, all other lines keep text and order; a refused call changes nothing. -/
theorem factory_appendToFamily_spec (s : S) (i : Nat) (txt : Str) (ind : Int) (ai : Bool) (hnf : NoFilter s) :
    stepF true s (.base (.appendToFamily i txt ind ai)) = liftR (step s (.appendToFamily i txt ind ai)) ∧
    stepF true s (.appendToFamilyL i txt ind ai) = liftR (step s (.appendToFamily i txt ind ai)) ∧
    ((stepF true s (.base (.appendToFamily i txt ind ai))).2 = .ok () →
      let txt' := familyText (indentOf s.tree i) s.width txt ind ai
      ∃ idx, appendIndex s.tree s.width i txt' = .ok idx ∧
        (stepF true s (.base (.appendToFamily i txt ind ai))).1.texts
          = s.texts.take (min idx s.texts.length) ++ txt' :: s.texts.drop (min idx s.texts.length)) ∧
    (∀ e, (stepF true s (.base (.appendToFamily i txt ind ai))).2 = .error e →
      (stepF true s (.base (.appendToFamily i txt ind ai))).1 = s) := by
  refine ⟨rfl, rfl, fun hok => ?_, fun e he => ?_⟩
  · have hok' : (step s (.appendToFamily i txt ind ai)).2 = .ok () := by
      have : (liftR (step s (.appendToFamily i txt ind ai))).2 = .ok () := hok
      revert this; simp only [liftR]; split <;> simp_all
    obtain ⟨_, _, _, idx, h4, h5, _⟩ := appendToFamily_spec s i txt ind ai hnf hok'
    exact ⟨idx, h4, h5⟩
  · rcases errorsX_leave_state s (.base (.appendToFamily i txt ind ai)) e he with h | ⟨j, hj, _⟩
    · exact h
    · cases hj

/-- **`classify_family_indent(arg)` called directly** on a line of indent `si`, indent width `w`:
only a `str` is accepted (a line object too is `InvalidParameters`); a text whose indent is no
multiple of the width is `NotImplementedError`; otherwise the answer `k` is the number of indent
levels between the two: `k * w = indent(text) - si` whenever that difference is a multiple of the
width (in general the quotient truncated towards zero). -/
theorem classify_direct (w si : Nat) (t : Str) :
    cfiArg w si (.line t) = .error (.base .invalidParameters) ∧
    cfiArg w si .other = .error (.base .invalidParameters) ∧
    (w = 0 ∨ indent t % w ≠ 0 → cfiArg w si (.str t) = .error (.base .notImplemented)) ∧
    (w ≠ 0 → indent t % w = 0 →
      cfiArg w si (.str t) = .ok (Int.tdiv ((indent t : Int) - si) w) ∧
      (((w : Int) ∣ (indent t : Int) - si) → Int.tdiv ((indent t : Int) - si) w * w = (indent t : Int) - si)) := by
  refine ⟨rfl, rfl, fun h => ?_, fun hw hm => ⟨?_, fun hdvd => ?_⟩⟩
  · simp [cfiArg, cfi_none w si t h]
  · simp [cfiArg, cfi_eq w si t hw hm]
  · exact Int.tdiv_mul_cancel hdvd

/-- **`replace_text` / `re_sub` on a line object that belongs to no configuration** change that
object's text with the same functions as inside a list (`replaceText_spec`, `reSub_spec`). -/
theorem detached_edit (t b a new : Str) :
    detStep t (.replaceText b a) = pyReplace b a t ∧ detStep t (.reSub new) = new := ⟨rfl, rfl⟩

/-! ### non-vacuity of this part -/

/-- line-object payloads on the example config: `insert(1, <line>)`, `insert_after(<line>)` on
line 1, a child appended to line 0 as a line object -/
example : (stepX exOn (.insertA (some 1) (.line "x".toList))).1.texts
      = ["interface Eth1".toList, "x".toList, " ip address 1.1.1.1".toList, "  secondary".toList,
         " shutdown".toList, "interface Eth10".toList] ∧
    (stepX exOn (.objInsAfterA 1 (.line " mtu 9".toList))).1.texts
      = ["interface Eth1".toList, " ip address 1.1.1.1".toList, " mtu 9".toList, "  secondary".toList,
         " shutdown".toList, "interface Eth10".toList] ∧
    (stepX exOn (.appendToFamilyL 0 " mtu 9".toList (-1) false)).1.texts
      = ["interface Eth1".toList, " ip address 1.1.1.1".toList, "  secondary".toList, " shutdown".toList,
         " mtu 9".toList, "interface Eth10".toList] := by decide
/-- a foreign line object with the text `Eth1` as pattern matches lines 0 and 4; with an empty text
it matches every line, while the empty `str` pattern is refused -/
example : (stepX exOn (.listInsBeforeA (.line "Eth1".toList) [true, false, false, false, true] (.str "!".toList))).1.texts
      = ["!".toList, "interface Eth1".toList, " ip address 1.1.1.1".toList, "  secondary".toList,
         " shutdown".toList, "!".toList, "interface Eth10".toList] ∧
    ((stepX exOn (.listInsAfterA (.line []) [true, true, true, true, true] (.str "!".toList))).1.texts).length = 10 ∧
    (stepX exOn (.listInsAfterA (.str []) [] (.str "!".toList))).2 = .error (.base .valueError) := ⟨by decide, by decide, rfl⟩
/-- `listInsert_line_payload` / `listInsert_blank_line_dropped` under `ignore_blank_lines`: the blank
`str` is refused, the blank line object is accepted and dropped by the commit -/
example : (stepX exIb (.listInsBeforeA (.str "Eth".toList) [true, false, false, false, true] (.str " ".toList))).2
      = .error (.base .invalidParameters) ∧
    (stepX exIb (.listInsBeforeA (.str "Eth".toList) [true, false, false, false, true] (.line " ".toList))).2 = .ok () ∧
    (stepX exIb (.listInsBeforeA (.str "Eth".toList) [true, false, false, false, true] (.line " ".toList))).1.texts
      = exIb.texts := ⟨rfl, rfl, by decide⟩
example : isBlank " ".toList = true ∧ isBannerStart " ".toList = false ∧ isMacroStart " ".toList = false := by decide
/-- `malformed_rejected`: the hypothesis `posOf = some p` holds for every line of a committed state -/
example : posOf exOn.items 3 = some 3 ∧
    stepX exOn (.objInsBeforeA 3 .other) = (exOn, .error (.base .notImplemented)) := ⟨by decide, rfl⟩
/-- `remove` of line 1 takes its child with it -/
example : (stepX exOn (.remove (.member 1))).1.texts
      = ["interface Eth1".toList, " shutdown".toList, "interface Eth10".toList] := by decide
/-- `deleteTwice_spec`, all four outcomes: on `a, a` the second line moves to number 0 and is deleted
by the second call; on `a, _b, a` the stale child number 1 is past the end (`IndexError`); a handle
whose place is taken by another text, and every handle with auto-commit off, is refused -/
example :
    (stepX (init exCfg true 1 ["a".toList, "a".toList]) (.deleteTwice 0)).1.texts = [] ∧
    (stepX (init exCfg true 1 ["a".toList, "a".toList]) (.deleteTwice 0)).2 = .ok () ∧
    (stepX (init exCfg true 1 ["a".toList, " b".toList, "a".toList]) (.deleteTwice 0)).2
      = .error (.base .indexError) ∧
    (stepX (init exCfg true 1 ["a".toList, " b".toList, "a".toList]) (.deleteTwice 0)).1.texts = ["a".toList] ∧
    (stepX exOn (.deleteTwice 1)).2 = .error (.base .doesNotExist) ∧
    (stepX (init exCfg false 1 ["a".toList, "a".toList]) (.deleteTwice 0)).2 = .error (.base .doesNotExist) ∧
    (stepX (init exCfg false 1 ["a".toList, "a".toList]) (.deleteTwice 0)).1.texts = ["a".toList] :=
  ⟨by decide, rfl, rfl, by decide, rfl, rfl, by decide⟩
example : FreshInv exOn ∧ exOn.dirty = false := ⟨init_fresh _ _ _ _, rfl⟩
/-- `factory_insert_spec` / `factory_appendToFamily_spec` on the example config (`NoFilter exOn` holds, see above):
under `factory=True` `insert(1, "x")` and a child appended to line 0 do what they do without the factory (before the
repair of F10e both were refused with `InvalidParameters` and the list stayed as it was) -/
example : (stepF true exOn (.base (.insert 1 "x".toList))).2 = .ok () ∧
    (stepF true exOn (.base (.insert 1 "x".toList))).1.texts
      = ["interface Eth1".toList, "x".toList, " ip address 1.1.1.1".toList, "  secondary".toList,
         " shutdown".toList, "interface Eth10".toList] ∧
    (stepF true exOn (.base (.appendToFamily 0 " mtu 9".toList (-1) false))).2 = .ok () ∧
    (stepF true exOn (.appendToFamilyL 0 " mtu 9".toList (-1) false)).1.texts
      = ["interface Eth1".toList, " ip address 1.1.1.1".toList, "  secondary".toList, " shutdown".toList,
         " mtu 9".toList, "interface Eth10".toList] ∧
    stepF true exOn (.base (.appendToFamily 0 " mtu 9".toList 1 true)) = (exOn, .error (.base .notImplemented)) :=
  ⟨rfl, by decide, rfl, by decide, rfl⟩
/-- `classify_direct`: from a line of indent 1, width 1: three levels deeper, one level shallower;
width 2: an odd indent is refused, 4 against 2 is one level -/
example : cfiArg 1 1 (.str "    x".toList) = .ok 3 ∧ cfiArg 1 1 (.str "x".toList) = .ok (-1) ∧
    cfiArg 2 2 (.str "   x".toList) = .error (.base .notImplemented) ∧ cfiArg 2 2 (.str "    x".toList) = .ok 1 ∧
    cfiArg 1 1 (.line "x".toList) = .error (.base .invalidParameters) := ⟨rfl, rfl, rfl, rfl, rfl⟩

end Ccp.C06
