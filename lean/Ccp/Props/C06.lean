import Ccp.Proofs.Edit
/-!
# C06 — edits change exactly the targeted lines

Property theorems only; helper lemmas and the specification vocabulary live in
`Ccp.Proofs.Edit`:

* `NoFilter s` := `s.auto = false ∨ s.cfg.ignoreBlank = false` — the commit that may follow
  the edit does not filter blank lines.  This one hypothesis covers both cases of the text
  effect: auto-commit off (the texts are what the list operation left), and auto-commit on
  without `ignore_blank_lines` (`bootstrap` keeps the texts, `bootstrap_keeps_texts`).
  With auto-commit on *and* `ignore_blank_lines` the texts after the step are the
  blank-filtered ones of the same list (`C07`), which is not a C06 statement.
* `insertPos n k` / `popPos n k` — Python's index normalisation for `list.insert` / `list.pop`;
* `expandLine after x a m` := `if m then (if after then [a, x] else [x, a]) else [a]`;
* `matchCount n row` := number of `true` among the first `n` row entries;
* `Forest`, `ancestors` are the C03 vocabulary.

All theorems are about `Ccp.Model.Edit.step`, for all states and payloads.  Object handles
(`i`) are line numbers of the committed tree and the model only accepts them on a state
without uncommitted changes (`dirty = false`) — the harness skips such calls on both
sides (`dirtyHandle`).  Regular expressions are oracle data: `row[i]` says whether the
regex matched line `i`, `reSub` carries the substituted text.
-/
namespace Ccp.C06
open Ccp.Tree Ccp.Edit Ccp.Py

/-! ## what "one line added / one line changed, all others unchanged and in order" means -/

/-- A list of the form `take j ++ [x] ++ drop j` has exactly one more element, `x` sits at
`j`, removing position `j` gives back the old list, the lines before `j` keep their
position and the lines from `j` on move down by one. -/
theorem insertion_frame (old : List Str) (j : Nat) (x : Str) (hj : j ≤ old.length) :
    let new := old.take j ++ x :: old.drop j
    new.length = old.length + 1 ∧ new[j]? = some x ∧ new.eraseIdx j = old ∧
    (∀ m, m < j → new[m]? = old[m]?) ∧ (∀ m, j ≤ m → new[m + 1]? = old[m]?) :=
  inserted_frame old j x hj

/-- `List.set i x` changes position `i` only. -/
theorem replacement_frame (old : List Str) (i : Nat) (x : Str) (hi : i < old.length) :
    (old.set i x).length = old.length ∧ (old.set i x)[i]? = some x ∧
    ∀ m, m ≠ i → (old.set i x)[m]? = old[m]? := set_frame old i x hi

/-- Python's index normalisation of `list.insert(k, x)` on a list of length `n`. -/
theorem insertPos_spec (n : Nat) (k : Int) :
    insertPos n k ≤ n ∧
    (0 ≤ k → k ≤ n → (insertPos n k : Int) = k) ∧ ((n : Int) < k → insertPos n k = n) ∧
    (k < 0 → -(n : Int) ≤ k → (insertPos n k : Int) = n + k) ∧ (k < -(n : Int) → insertPos n k = 0) := by
  unfold insertPos
  refine ⟨?_, ?_, ?_, ?_, ?_⟩ <;> split <;> omega

/-- Python's index normalisation of `list.pop(k)` for an index in range. -/
theorem popPos_spec (n : Nat) (k : Int) :
    (0 ≤ k → (popPos n k : Int) = k) ∧ (k < 0 → -(n : Int) ≤ k → (popPos n k : Int) = n + k) := by
  unfold popPos
  refine ⟨?_, ?_⟩ <;> split <;> omega

/-! ## list-level insert / append / pop -/

/-- **`ConfigList.insert(k, txt)`** always succeeds and is exactly `list.insert`: one line
added at the normalised position, everything else unchanged and in order
(`insertion_frame`). -/
theorem insert_spec (s : S) (k : Int) (txt : Str) (hnf : NoFilter s) :
    (step s (.insert k txt)).2 = .ok () ∧
    (step s (.insert k txt)).1.texts
      = s.texts.take (insertPos s.texts.length k) ++ txt :: s.texts.drop (insertPos s.texts.length k) := by
  refine ⟨rfl, ?_⟩
  simp only [Edit.step, edited_texts s hnf, pyInsert_eq]

/-- **`ConfigList.append(txt)`** always succeeds and adds the line at the end. -/
theorem append_spec (s : S) (txt : Str) (hnf : NoFilter s) :
    (step s (.append txt)).2 = .ok () ∧ (step s (.append txt)).1.texts = s.texts ++ [txt] := by
  refine ⟨rfl, ?_⟩
  simp only [Edit.step, edited_texts s hnf]

/-- **`ConfigList.pop(k)`**: in range (`-n ≤ k < n`) it removes exactly the line at the
normalised position; out of range it is an `IndexError` and the state is unchanged. -/
theorem pop_spec (s : S) (k : Int) (hnf : NoFilter s) :
    (-(s.texts.length : Int) ≤ k ∧ k < s.texts.length →
      (step s (.pop k)).2 = .ok () ∧
      (step s (.pop k)).1.texts = s.texts.eraseIdx (popPos s.texts.length k) ∧
      popPos s.texts.length k < s.texts.length) ∧
    (k < -(s.texts.length : Int) ∨ (s.texts.length : Int) ≤ k →
      step s (.pop k) = (s, .error .indexError)) := by
  constructor
  · intro h
    obtain ⟨h1, h2⟩ := pyPop_in_range s.texts k h
    simp only [Edit.step, h1, edited_texts s hnf]
    exact ⟨trivial, trivial, h2⟩
  · intro h
    simp only [Edit.step, pyPop_out_of_range s.texts k h]

/-! ## list-level insert_before / insert_after (regex) -/

/-- the text effect shared by both directions: an explicit `List.flatMap` characterisation
(line `a` at index `i` becomes `[x, a]` / `[a, x]` when `row[i]` is true and stays `[a]`
otherwise — missing row entries count as no match), the length grows by the number of
matching lines, the old lines survive unchanged and in order, everything that is not a
copy of the payload is untouched, and the payload occurs exactly `matchCount` more often -/
theorem insertAtMatches_spec (after : Bool) (x : Str) (l : List Str) (row : List Bool) :
    insertAtMatches after x l row
      = l.zipIdx.flatMap (fun p => expandLine after x p.1 (row.getD p.2 false)) ∧
    (insertAtMatches after x l row).length = l.length + matchCount l.length row ∧
    l.Sublist (insertAtMatches after x l row) ∧
    (insertAtMatches after x l row).filter (· ≠ x) = l.filter (· ≠ x) ∧
    (insertAtMatches after x l row).count x = l.count x + matchCount l.length row :=
  ⟨insertAtMatches_eq_flatMap after x l row, insertAtMatches_length after x l row,
   insertAtMatches_sublist after x l row, insertAtMatches_filter after x l row,
   insertAtMatches_count after x l row⟩

/-- **list-level `insert_before(regex, txt)`**: with a non-empty regex and a payload that
is not a blank line under `ignore_blank_lines`, the new text list is the old one with
exactly one copy of the payload directly before every matching line
(`insertAtMatches_spec` with `after = false`). -/
theorem listInsertBefore_spec (s : S) (row : List Bool) (txt : Str) (hnf : NoFilter s)
    (hb : ¬ (isBlank txt = true ∧ s.cfg.ignoreBlank = true)) :
    (step s (.listInsBefore false row txt)).2 = .ok () ∧
    (step s (.listInsBefore false row txt)).1.texts = insertAtMatches false txt s.texts row := by
  have hb' : (isBlank txt && s.cfg.ignoreBlank) = false := by
    cases h1 : isBlank txt <;> cases h2 : s.cfg.ignoreBlank <;> simp_all
  simp [Edit.step, hb', edited_texts s hnf]

/-- **list-level `insert_after(regex, txt)`**: one copy directly after every matching line. -/
theorem listInsertAfter_spec (s : S) (row : List Bool) (txt : Str) (hnf : NoFilter s)
    (hb : ¬ (isBlank txt = true ∧ s.cfg.ignoreBlank = true)) :
    (step s (.listInsAfter false row txt)).2 = .ok () ∧
    (step s (.listInsAfter false row txt)).1.texts = insertAtMatches true txt s.texts row := by
  have hb' : (isBlank txt && s.cfg.ignoreBlank) = false := by
    cases h1 : isBlank txt <;> cases h2 : s.cfg.ignoreBlank <;> simp_all
  simp [Edit.step, hb', edited_texts s hnf]

/-- A regex that matches no line changes nothing. -/
theorem listInsert_no_match (after : Bool) (x : Str) (l : List Str) (row : List Bool)
    (h : matchCount l.length row = 0) : insertAtMatches after x l row = l := by
  have h1 := insertAtMatches_sublist after x l row
  have h2 := insertAtMatches_length after x l row
  exact (h1.eq_of_length (by omega)).symm

/-- The refusals of the list-level inserts: a blank payload under `ignore_blank_lines` is
`InvalidParameters`, an empty regex is `ValueError`; the state is unchanged. -/
theorem listInsert_errors (s : S) (e : Bool) (row : List Bool) (txt : Str) :
    (isBlank txt = true ∧ s.cfg.ignoreBlank = true →
      step s (.listInsBefore e row txt) = (s, .error .invalidParameters) ∧
      step s (.listInsAfter e row txt) = (s, .error .invalidParameters)) ∧
    (¬ (isBlank txt = true ∧ s.cfg.ignoreBlank = true) → e = true →
      step s (.listInsBefore e row txt) = (s, .error .valueError) ∧
      step s (.listInsAfter e row txt) = (s, .error .valueError)) := by
  constructor
  · rintro ⟨h1, h2⟩; simp [Edit.step, h1, h2]
  · intro hb he
    have hb' : (isBlank txt && s.cfg.ignoreBlank) = false := by
      cases h1 : isBlank txt <;> cases h2 : s.cfg.ignoreBlank <;> simp_all
    simp [Edit.step, hb', he]

/-! ## object-level insert_before / insert_after -/

/-- **`obj.insert_before(txt)`** on the object at line `i` of a committed state: exactly one
line is added, at position `i`, directly before the object's line (which moves to
`i + 1`); everything else is unchanged and in order. -/
theorem objInsertBefore_spec (s : S) (i : Nat) (txt : Str) (hnf : NoFilter s)
    (hd : s.dirty = false) (hi : i < s.texts.length)
    (hb : ¬ (isBlank txt = true ∧ s.cfg.ignoreBlank = true)) :
    let new := (step s (.objInsBefore i txt)).1.texts
    (step s (.objInsBefore i txt)).2 = .ok () ∧
    new = s.texts.take i ++ txt :: s.texts.drop i ∧
    new.length = s.texts.length + 1 ∧ new[i]? = some txt ∧ new[i + 1]? = s.texts[i]? ∧
    new.eraseIdx i = s.texts := by
  have hb' : (isBlank txt && s.cfg.ignoreBlank) = false := by
    cases h1 : isBlank txt <;> cases h2 : s.cfg.ignoreBlank <;> simp_all
  have hg : ¬ (s.dirty = true ∨ s.texts.length ≤ i) := by rw [hd]; simp; omega
  have ht : (step s (.objInsBefore i txt)).1.texts = s.texts.take i ++ txt :: s.texts.drop i := by
    simp [Edit.step, hg, hb', edited_texts s hnf]
  have hr : (step s (.objInsBefore i txt)).2 = .ok () := by simp [Edit.step, hg, hb']
  intro new
  have hf := inserted_frame s.texts i txt (by omega)
  simp only [new, ht]
  exact ⟨hr, trivial, hf.1, hf.2.1, hf.2.2.2.2 i (Nat.le_refl _), hf.2.2.1⟩

/-- **`obj.insert_after(txt)`**: exactly one line is added, at position `i + 1`, directly
after the object's line (which stays at `i`); everything else is unchanged and in order. -/
theorem objInsertAfter_spec (s : S) (i : Nat) (txt : Str) (hnf : NoFilter s)
    (hd : s.dirty = false) (hi : i < s.texts.length)
    (hb : ¬ (isBlank txt = true ∧ s.cfg.ignoreBlank = true)) :
    let new := (step s (.objInsAfter i txt)).1.texts
    (step s (.objInsAfter i txt)).2 = .ok () ∧
    new = s.texts.take (i + 1) ++ txt :: s.texts.drop (i + 1) ∧
    new.length = s.texts.length + 1 ∧ new[i]? = s.texts[i]? ∧ new[i + 1]? = some txt ∧
    new.eraseIdx (i + 1) = s.texts := by
  have hb' : (isBlank txt && s.cfg.ignoreBlank) = false := by
    cases h1 : isBlank txt <;> cases h2 : s.cfg.ignoreBlank <;> simp_all
  have hg : ¬ (s.dirty = true ∨ s.texts.length ≤ i) := by rw [hd]; simp; omega
  have ht : (step s (.objInsAfter i txt)).1.texts
      = s.texts.take (i + 1) ++ txt :: s.texts.drop (i + 1) := by
    simp [Edit.step, hg, hb', edited_texts s hnf]
  have hr : (step s (.objInsAfter i txt)).2 = .ok () := by simp [Edit.step, hg, hb']
  intro new
  have hf := inserted_frame s.texts (i + 1) txt (by omega)
  simp only [new, ht]
  exact ⟨hr, trivial, hf.1, hf.2.2.2.1 i (by omega), hf.2.1, hf.2.2.1⟩

/-- A blank payload under `ignore_blank_lines` is refused with `InvalidParameters`. -/
theorem objInsert_blank_refused (s : S) (i : Nat) (txt : Str)
    (hd : s.dirty = false) (hi : i < s.texts.length)
    (hb : isBlank txt = true ∧ s.cfg.ignoreBlank = true) :
    step s (.objInsBefore i txt) = (s, .error .invalidParameters) ∧
    step s (.objInsAfter i txt) = (s, .error .invalidParameters) := by
  have hg : ¬ (s.dirty = true ∨ s.texts.length ≤ i) := by rw [hd]; simp; omega
  simp [Edit.step, hg, hb.1, hb.2]

end Ccp.C06
