import Ccp.Proofs.Edit
import Ccp.Proofs.EditLinks
/-!
# C06 — edits change exactly the targeted lines

Property theorems only; helper lemmas and the specification vocabulary live in
`Ccp.Proofs.Edit`:

* `NoFilter s` := `s.auto = false ∨ s.cfg.ignoreBlank = false` — the commit that may follow
  the edit does not filter blank lines.  This one hypothesis covers both cases of the text
  effect: auto-commit off (the texts are what the list operation left), and auto-commit on
  without `ignore_blank_lines` (`bootstrap` keeps the texts, `bootstrap_keeps_texts`).
  With auto-commit on *and* `ignore_blank_lines` the texts after the step are one bootstrap
  of the auto-commit-off result — the same lines minus, possibly, blank ones
  (`auto_commit_step_texts`).
* `insertPos n k` / `popPos n k` — Python's index normalisation for `list.insert` / `list.pop`;
* `expandLine after x a m` := `if m then (if after then [a, x] else [x, a]) else [a]`;
* `matchCount n row` := number of `true` among the first `n` row entries;
* `idsOf items` := the committed line numbers carried by the list elements, in order;
  `IdsDistinct items` := `(idsOf items).Nodup`; `IdsSub new old` := `(idsOf new).Sublist (idsOf old)`;
* `Plain cfg ls` := no line of `ls` starts a banner and, under syntax ios, none starts a macro
  (then the final parents are C02's `specParent`); `shiftAfter e p` := `if p ≤ e then p else p + 1`;
  `rank keep j` := number of kept positions below `j` (`Ccp.Proofs.EditLinks`);
* `Forest`, `ancestors` are the C03 vocabulary.

All theorems are about `Ccp.Model.Edit.step`, for all states and payloads.  A state holds
a list of items (text + identity: the committed line number of the object, `none` for a
line created since the last commit); `s.texts` is the list of their texts.  An object
handle `h` is a committed line number.  The operations that find their object by
identity (object-level inserts, `replace_text`, `re_sub`) resolve it with `posOf` to its
current position `p` and work on states with uncommitted changes as well
(`handle_position`); `delete` and `append_to_family` index by the stored line number and
are only modelled on states without uncommitted changes.  A handle that cannot be
resolved is answered `dirtyHandle` — the harness skips such calls on both sides.  Regular
expressions are oracle data: `row[i]` says whether the regex matched line `i`, `reSub`
carries the substituted text.
-/
namespace Ccp.C06
open Ccp.Tree Ccp.Edit Ccp.Py

/-! ## what "one line added / one line changed, all others unchanged and in order" means -/

/-- A list of the form `take j ++ [x] ++ drop j` has exactly one more element, `x` sits at
`j`, removing position `j` gives back the old list, the lines before `j` keep their
position and the lines from `j` on move down by one. -/
theorem insertion_frame (old : List Str) (j : Nat) (x : Str) (hj : j ≤ old.length) :
    let new := old.take j ++ x :: old.drop j
    new.length = old.length + 1 ∧ new[j]? = some x ∧ new.eraseIdx j = old ∧
    (∀ m, m < j → new[m]? = old[m]?) ∧ (∀ m, j ≤ m → new[m + 1]? = old[m]?) :=
  inserted_frame old j x hj

/-- `List.set i x` changes position `i` only. -/
theorem replacement_frame (old : List Str) (i : Nat) (x : Str) (hi : i < old.length) :
    (old.set i x).length = old.length ∧ (old.set i x)[i]? = some x ∧
    ∀ m, m ≠ i → (old.set i x)[m]? = old[m]? := set_frame old i x hi

/-- Python's index normalisation of `list.insert(k, x)` on a list of length `n`. -/
theorem insertPos_spec (n : Nat) (k : Int) :
    insertPos n k ≤ n ∧
    (0 ≤ k → k ≤ n → (insertPos n k : Int) = k) ∧ ((n : Int) < k → insertPos n k = n) ∧
    (k < 0 → -(n : Int) ≤ k → (insertPos n k : Int) = n + k) ∧ (k < -(n : Int) → insertPos n k = 0) := by
  unfold insertPos
  refine ⟨?_, ?_, ?_, ?_, ?_⟩ <;> split <;> omega

/-- Python's index normalisation of `list.pop(k)` for an index in range. -/
theorem popPos_spec (n : Nat) (k : Int) :
    (0 ≤ k → (popPos n k : Int) = k) ∧ (k < 0 → -(n : Int) ≤ k → (popPos n k : Int) = n + k) := by
  unfold popPos
  refine ⟨?_, ?_⟩ <;> split <;> omega

/-! ## list-level insert / append / pop -/

/-- **`ConfigList.insert(k, txt)`** always succeeds and is exactly `list.insert`: one line
added at the normalised position, everything else unchanged and in order
(`insertion_frame`). -/
theorem insert_spec (s : S) (k : Int) (txt : Str) (hnf : NoFilter s) :
    (step s (.insert k txt)).2 = .ok () ∧
    (step s (.insert k txt)).1.texts
      = s.texts.take (insertPos s.texts.length k) ++ txt :: s.texts.drop (insertPos s.texts.length k) := by
  refine ⟨rfl, ?_⟩
  simp only [Edit.step, edited_texts s hnf, pyInsert_map, fresh_text, ← pyInsert_eq]
  rfl

/-- **`ConfigList.append(txt)`** always succeeds and adds the line at the end. -/
theorem append_spec (s : S) (txt : Str) (hnf : NoFilter s) :
    (step s (.append txt)).2 = .ok () ∧ (step s (.append txt)).1.texts = s.texts ++ [txt] := by
  refine ⟨rfl, ?_⟩
  simp only [Edit.step, edited_texts s hnf, List.map_append, List.map_cons, List.map_nil, fresh_text]
  rfl

/-- **`ConfigList.pop(k)`**: in range (`-n ≤ k < n`) it removes exactly the line at the
normalised position; out of range it is an `IndexError` and the state is unchanged. -/
theorem pop_spec (s : S) (k : Int) (hnf : NoFilter s) :
    (-(s.texts.length : Int) ≤ k ∧ k < s.texts.length →
      (step s (.pop k)).2 = .ok () ∧
      (step s (.pop k)).1.texts = s.texts.eraseIdx (popPos s.texts.length k) ∧
      popPos s.texts.length k < s.texts.length) ∧
    (k < -(s.texts.length : Int) ∨ (s.texts.length : Int) ≤ k →
      step s (.pop k) = (s, .error .indexError)) := by
  constructor
  · intro h
    obtain ⟨h1, h2⟩ := pyPop_in_range s.texts k h
    rw [texts_length] at h
    obtain ⟨h3, _⟩ := pyPop_in_range s.items k h
    simp only [Edit.step, h3, edited_texts s hnf, map_eraseIdx', texts_length]
    exact ⟨trivial, rfl, by rw [texts_length] at h2; exact h2⟩
  · intro h
    rw [texts_length] at h
    simp only [Edit.step, pyPop_out_of_range s.items k h]

/-! ## list-level insert_before / insert_after (regex) -/

/-- the text effect shared by both directions: an explicit `List.flatMap` characterisation
(line `a` at index `i` becomes `[x, a]` / `[a, x]` when `row[i]` is true and stays `[a]`
otherwise — missing row entries count as no match), the length grows by the number of
matching lines, the old lines survive unchanged and in order, everything that is not a
copy of the payload is untouched, and the payload occurs exactly `matchCount` more often -/
theorem insertAtMatches_spec (after : Bool) (x : Str) (l : List Str) (row : List Bool) :
    insertAtMatches after x l row
      = l.zipIdx.flatMap (fun p => expandLine after x p.1 (row.getD p.2 false)) ∧
    (insertAtMatches after x l row).length = l.length + matchCount l.length row ∧
    l.Sublist (insertAtMatches after x l row) ∧
    (insertAtMatches after x l row).filter (· ≠ x) = l.filter (· ≠ x) ∧
    (insertAtMatches after x l row).count x = l.count x + matchCount l.length row :=
  ⟨insertAtMatches_eq_flatMap after x l row, insertAtMatches_length after x l row,
   insertAtMatches_sublist after x l row, insertAtMatches_filter after x l row,
   insertAtMatches_count after x l row⟩

/-- **list-level `insert_before(regex, txt)`**: with a non-empty regex and a payload that
is not a blank line under `ignore_blank_lines`, the new text list is the old one with
exactly one copy of the payload directly before every matching line
(`insertAtMatches_spec` with `after = false`). -/
theorem listInsertBefore_spec (s : S) (row : List Bool) (txt : Str) (hnf : NoFilter s)
    (hb : ¬ (isBlank txt = true ∧ s.cfg.ignoreBlank = true)) :
    (step s (.listInsBefore false row txt)).2 = .ok () ∧
    (step s (.listInsBefore false row txt)).1.texts = insertAtMatches false txt s.texts row := by
  have hb' : (isBlank txt && s.cfg.ignoreBlank) = false := by
    cases h1 : isBlank txt <;> cases h2 : s.cfg.ignoreBlank <;> simp_all
  simp [Edit.step, hb', edited_texts s hnf, insertAtMatches_map, items_map_text]

/-- **list-level `insert_after(regex, txt)`**: one copy directly after every matching line. -/
theorem listInsertAfter_spec (s : S) (row : List Bool) (txt : Str) (hnf : NoFilter s)
    (hb : ¬ (isBlank txt = true ∧ s.cfg.ignoreBlank = true)) :
    (step s (.listInsAfter false row txt)).2 = .ok () ∧
    (step s (.listInsAfter false row txt)).1.texts = insertAtMatches true txt s.texts row := by
  have hb' : (isBlank txt && s.cfg.ignoreBlank) = false := by
    cases h1 : isBlank txt <;> cases h2 : s.cfg.ignoreBlank <;> simp_all
  simp [Edit.step, hb', edited_texts s hnf, insertAtMatches_map, items_map_text]

/-- A regex that matches no line changes nothing. -/
theorem listInsert_no_match (after : Bool) (x : Str) (l : List Str) (row : List Bool)
    (h : matchCount l.length row = 0) : insertAtMatches after x l row = l := by
  have h1 := insertAtMatches_sublist after x l row
  have h2 := insertAtMatches_length after x l row
  exact (h1.eq_of_length (by omega)).symm

/-- The refusals of the list-level inserts: a blank payload under `ignore_blank_lines` is
`InvalidParameters`, an empty regex is `ValueError`; the state is unchanged. -/
theorem listInsert_errors (s : S) (e : Bool) (row : List Bool) (txt : Str) :
    (isBlank txt = true ∧ s.cfg.ignoreBlank = true →
      step s (.listInsBefore e row txt) = (s, .error .invalidParameters) ∧
      step s (.listInsAfter e row txt) = (s, .error .invalidParameters)) ∧
    (¬ (isBlank txt = true ∧ s.cfg.ignoreBlank = true) → e = true →
      step s (.listInsBefore e row txt) = (s, .error .valueError) ∧
      step s (.listInsAfter e row txt) = (s, .error .valueError)) := by
  constructor
  · rintro ⟨h1, h2⟩; simp [Edit.step, h1, h2]
  · intro hb he
    have hb' : (isBlank txt && s.cfg.ignoreBlank) = false := by
      cases h1 : isBlank txt <;> cases h2 : s.cfg.ignoreBlank <;> simp_all
    simp [Edit.step, hb', he]

/-! ## object-level insert_before / insert_after -/

/-- How an object handle `h` (the committed line number of the object) is resolved: `posOf`
returns the first position of the current list that holds that object; on a state without
uncommitted changes that satisfies C07's invariant it is the handle itself. -/
theorem handle_position (s : S) (h : Nat) :
    (∀ p, posOf s.items h = some p →
      p < s.texts.length ∧ (s.items[p]?).map Item.id = some (some h) ∧
      ∀ q, q < p → (s.items[q]?).map Item.id ≠ some (some h)) ∧
    (s.dirty = false → FreshInv s → posOf s.items h = if h < s.texts.length then some h else none) := by
  constructor
  · intro p hp
    have := posOf_some hp
    rw [texts_length]; exact this
  · intro hd hinv
    have h3 := (hinv hd).2.2
    have h4 := (hinv hd).2.1
    rw [h3, posOf_committed, h4]

/-- **Identities are tracked**: every operation either re-commits (the list then holds the
objects `0..n-1` of the new tree) or leaves a sub-sequence of the committed objects the
list held before — list operations move objects around and add fresh lines, they never
duplicate or invent a committed object.  Hence "the committed ids in the list are
pairwise distinct" (`IdsDistinct`) is preserved by every step. -/
theorem ids_track_objects (s : S) (op : Op) :
    ((∃ t, (step s op).1.items = committedItems t) ∨ IdsSub (step s op).1.items s.items) ∧
    (IdsDistinct s.items → IdsDistinct (step s op).1.items) :=
  ⟨step_ids s op, step_idsDistinct s op⟩

/-- … it holds initially, hence in every reachable state, committed or not … -/
theorem reachable_ids_distinct (cfg : Cfg) (auto : Bool) (width : Nat) (ls : List Str) (ops : List Op) :
    IdsDistinct (run (init cfg auto width ls) ops).items :=
  run_idsDistinct _ ops (idsDistinct_committed _)

/-- … and then an object is at no more than one position: the position `posOf` returns is
the only one holding the object `h`. -/
theorem handle_unique (s : S) (hd : IdsDistinct s.items) (h p q : Nat)
    (hp : (s.items[p]?).map Item.id = some (some h)) (hq : (s.items[q]?).map Item.id = some (some h)) :
    p = q := idsDistinct_unique hd hp hq

/-- **`obj.insert_before(txt)`** on the object `h`, currently at position `p` (also on a
state with uncommitted changes — the code finds the object by identity): exactly one
line is added, at position `p`, directly before the object's line (which moves to
`p + 1`); everything else is unchanged and in order. -/
theorem objInsertBefore_spec (s : S) (h p : Nat) (txt : Str) (hnf : NoFilter s)
    (hp : posOf s.items h = some p)
    (hb : ¬ (isBlank txt = true ∧ s.cfg.ignoreBlank = true)) :
    let new := (step s (.objInsBefore h txt)).1.texts
    (step s (.objInsBefore h txt)).2 = .ok () ∧
    new = s.texts.take p ++ txt :: s.texts.drop p ∧
    new.length = s.texts.length + 1 ∧ new[p]? = some txt ∧ new[p + 1]? = s.texts[p]? ∧
    new.eraseIdx p = s.texts := by
  have hb' : (isBlank txt && s.cfg.ignoreBlank) = false := by
    cases h1 : isBlank txt <;> cases h2 : s.cfg.ignoreBlank <;> simp_all
  have hpl : p < s.texts.length := ((handle_position s h).1 p hp).1
  have ht : (step s (.objInsBefore h txt)).1.texts = s.texts.take p ++ txt :: s.texts.drop p := by
    have : (step s (.objInsBefore h txt)).1
        = autoCommit { s with items := s.items.take p ++ fresh txt :: s.items.drop p, dirty := true } := by
      simp [Edit.step, hp, hb']
    rw [this, edited_texts s hnf]; simp [S.texts]
  have hr : (step s (.objInsBefore h txt)).2 = .ok () := by simp [Edit.step, hp, hb']
  intro new
  have hf := inserted_frame s.texts p txt (by omega)
  simp only [new, ht]
  exact ⟨hr, trivial, hf.1, hf.2.1, hf.2.2.2.2 p (Nat.le_refl _), hf.2.2.1⟩

/-- **`obj.insert_after(txt)`**: exactly one line is added, at position `p + 1`, directly
after the object's line (which stays at `p`); everything else is unchanged and in order. -/
theorem objInsertAfter_spec (s : S) (h p : Nat) (txt : Str) (hnf : NoFilter s)
    (hp : posOf s.items h = some p)
    (hb : ¬ (isBlank txt = true ∧ s.cfg.ignoreBlank = true)) :
    let new := (step s (.objInsAfter h txt)).1.texts
    (step s (.objInsAfter h txt)).2 = .ok () ∧
    new = s.texts.take (p + 1) ++ txt :: s.texts.drop (p + 1) ∧
    new.length = s.texts.length + 1 ∧ new[p]? = s.texts[p]? ∧ new[p + 1]? = some txt ∧
    new.eraseIdx (p + 1) = s.texts := by
  have hb' : (isBlank txt && s.cfg.ignoreBlank) = false := by
    cases h1 : isBlank txt <;> cases h2 : s.cfg.ignoreBlank <;> simp_all
  have hpl : p < s.texts.length := ((handle_position s h).1 p hp).1
  have ht : (step s (.objInsAfter h txt)).1.texts
      = s.texts.take (p + 1) ++ txt :: s.texts.drop (p + 1) := by
    have : (step s (.objInsAfter h txt)).1
        = autoCommit { s with items := s.items.take (p + 1) ++ fresh txt :: s.items.drop (p + 1), dirty := true } := by
      simp [Edit.step, hp, hb']
    rw [this, edited_texts s hnf]; simp [S.texts]
  have hr : (step s (.objInsAfter h txt)).2 = .ok () := by simp [Edit.step, hp, hb']
  intro new
  have hf := inserted_frame s.texts (p + 1) txt (by omega)
  simp only [new, ht]
  exact ⟨hr, trivial, hf.1, hf.2.2.2.1 p (by omega), hf.2.1, hf.2.2.1⟩

/-- On a state without uncommitted changes satisfying C07's invariant (every reachable
such state) a handle below the length is its own position … -/
theorem committed_handle (s : S) (h : Nat) (hd : s.dirty = false) (hinv : FreshInv s)
    (hh : h < s.texts.length) : posOf s.items h = some h := by
  rw [(handle_position s h).2 hd hinv, if_pos hh]

/-- … so there the object-level inserts add exactly one line at `h` / `h + 1`, adjacent to
line `h`. -/
theorem objInsert_committed (s : S) (h : Nat) (txt : Str) (hnf : NoFilter s)
    (hd : s.dirty = false) (hinv : FreshInv s) (hh : h < s.texts.length)
    (hb : ¬ (isBlank txt = true ∧ s.cfg.ignoreBlank = true)) :
    (step s (.objInsBefore h txt)).1.texts = s.texts.take h ++ txt :: s.texts.drop h ∧
    (step s (.objInsAfter h txt)).1.texts = s.texts.take (h + 1) ++ txt :: s.texts.drop (h + 1) :=
  ⟨(objInsertBefore_spec s h h txt hnf (committed_handle s h hd hinv hh) hb).2.1,
   (objInsertAfter_spec s h h txt hnf (committed_handle s h hd hinv hh) hb).2.1⟩

/-- A blank payload under `ignore_blank_lines` is refused with `InvalidParameters`. -/
theorem objInsert_blank_refused (s : S) (h p : Nat) (txt : Str)
    (hp : posOf s.items h = some p)
    (hb : isBlank txt = true ∧ s.cfg.ignoreBlank = true) :
    step s (.objInsBefore h txt) = (s, .error .invalidParameters) ∧
    step s (.objInsAfter h txt) = (s, .error .invalidParameters) := by
  simp [Edit.step, hp, hb.1, hb.2]

/-! ## delete -/

/-- **`obj.delete()`** on line `i` of a committed state removes exactly the positions
`{i} ∪ all_children(i)` of the text list and nothing else: the remaining lines keep text
and order (`eraseAll` = keep the positions not listed). -/
theorem delete_spec (s : S) (i : Nat) (hnf : NoFilter s) (hd : s.dirty = false) (hi : i < s.texts.length) :
    (step s (.delete i)).2 = .ok () ∧
    (step s (.delete i)).1.texts
      = (s.texts.zipIdx.filter (fun p => !(i :: allChildren s.tree i).contains p.2)).map (·.1) ∧
    ((step s (.delete i)).1.texts).Sublist s.texts := by
  have hg : ¬ (s.dirty = true ∨ s.items.length ≤ i) := by rw [hd, ← texts_length]; simp; omega
  have ht : (step s (.delete i)).1.texts = eraseAll s.texts (descendantsAndSelf s.tree i) := by
    simp [Edit.step, hg, edited_texts s hnf, eraseAll_map, items_map_text]
  refine ⟨by simp [Edit.step, hg], ?_, ?_⟩
  · rw [ht, eraseAll_eq_filter]; rfl
  · rw [ht]; exact eraseAll_sublist _ _

/-- … and when the committed tree is a forest whose size is the number of lines (true in
every reachable committed state, `reachable_tree_ok`), the removed set is the line and
its descendants in the sense of C03 (`i` on the ancestor chain), and the list gets
shorter by exactly `1 + |all_children(i)|`. -/
theorem delete_spec_forest (s : S) (i : Nat) (hnf : NoFilter s) (hd : s.dirty = false)
    (hi : i < s.texts.length) (hf : Forest s.tree) (hsz : s.tree.size = s.texts.length) :
    (step s (.delete i)).1.texts
      = (s.texts.zipIdx.filter (fun p => decide (p.2 ≠ i ∧ i ∉ ancestors s.tree p.2))).map (·.1) ∧
    (step s (.delete i)).1.texts.length + 1 + (allChildren s.tree i).length = s.texts.length := by
  have hg : ¬ (s.dirty = true ∨ s.items.length ≤ i) := by rw [hd, ← texts_length]; simp; omega
  have ht : (step s (.delete i)).1.texts = eraseAll s.texts (descendantsAndSelf s.tree i) := by
    simp [Edit.step, hg, edited_texts s hnf, eraseAll_map, items_map_text]
  rw [ht]
  exact ⟨delete_filter_forest hf s.texts i, delete_length_forest hf s.texts i hsz hi⟩

/-- **`delete` keeps the parents of the surviving lines.**  State: no uncommitted change,
C07's invariant, auto-commit on, blank lines kept, no banner / macro start in the config.
With `dead` = line `i` and its descendants, `keep j` := `j ∉ dead` and `rank keep j` := the
number of surviving lines before `j`: after `delete i` a surviving line `j` sits at
`rank keep j` with its old text, its old parent survives too, and its new parent is the new
position of its old parent — except possibly a comment whose directly preceding line was
deleted (its attachment depends on the line above it, C02's legacy rule). -/
theorem delete_keeps_parents (s : S) (i : Nat)
    (hd : s.dirty = false) (hinv : FreshInv s) (ha : s.auto = true) (hig : s.cfg.ignoreBlank = false)
    (hp : Plain s.cfg s.texts) (hi : i < s.texts.length) :
    let dead := descendantsAndSelf s.tree i
    let keep : Nat → Bool := fun j => !dead.contains j
    let s' := (step s (.delete i)).1
    s'.texts = eraseAll s.texts dead ∧
    ∀ j, j < s.texts.length → keep j = true →
      s'.texts[rank keep j]? = s.texts[j]? ∧
      keep (parentOf s.tree j) = true ∧
      (¬ (isComment s.cfg (s.texts.getD j []) = true ∧ ∃ j', j = j' + 1 ∧ keep j' = false) →
        parentOf s'.tree (rank keep j) = rank keep (parentOf s.tree j)) := by
  intro dead keep s'
  obtain ⟨htree, _, _⟩ := hinv hd
  have hg : ¬ (s.dirty = true ∨ s.items.length ≤ i) := by rw [hd, ← texts_length]; simp; omega
  have hstep : (step s (.delete i)).1
      = autoCommit { s with items := eraseAll s.items (descendantsAndSelf s.tree i), dirty := true } := by
    simp [Edit.step, hg]
  have hnew : (eraseAll s.items (descendantsAndSelf s.tree i)).map Item.text = eraseAll s.texts dead := by
    rw [eraseAll_map, items_map_text]
  have htree' : s'.tree = parse s.cfg (eraseAll s.texts dead) := by
    show (step s (.delete i)).1.tree = _
    rw [hstep, auto_tree_after s ha, hnew]
  have htexts' : s'.texts = eraseAll s.texts dead := by
    show (step s (.delete i)).1.texts = _
    rw [hstep, edited_texts s (.inr hig), hnew]
  have hmain := parse_delete s.cfg s.texts i hp hig
  simp only at hmain
  rw [← htree] at hmain
  refine ⟨htexts', fun j hj hkj => ?_⟩
  obtain ⟨r1, r2, r3⟩ := hmain.2 j hj hkj
  rw [hmain.1] at r1
  refine ⟨by rw [htexts']; exact r1, r2, fun hex => ?_⟩
  rw [htree']; exact r3 hex

/-! ## replace_text / re_sub -/

/-- **`obj.replace_text(before, after)`** on the object `h`, currently at position `p` (also
on a state with uncommitted changes): position `p` only changes, to `str.replace` of its
text (`replacement_frame`). -/
theorem replaceText_spec (s : S) (h p : Nat) (before after : Str) (hnf : NoFilter s)
    (hp : posOf s.items h = some p) :
    (step s (.replaceText h before after)).2 = .ok () ∧
    (step s (.replaceText h before after)).1.texts
      = s.texts.set p (pyReplace before after (s.texts.getD p [])) := by
  have : step s (.replaceText h before after)
      = (autoCommit { s with items := setText s.items p (pyReplace before after (s.texts.getD p [])),
                             dirty := true }, .ok ()) := by
    simp only [Edit.step, hp]
  rw [this]
  refine ⟨rfl, ?_⟩
  show (autoCommit _).texts = _
  rw [edited_texts s hnf, setText_texts]; rfl

/-- **`obj.re_sub(regex, repl)`** (with `newText = re.sub(regex, repl, text)` computed by the
caller) on the object `h` at position `p` of a non-stale state: position `p` only
changes, to the substituted text; a substitution that leaves the text as it is changes
nothing at all (not even a commit); on a stale state it refuses with
`NotImplementedError`. -/
theorem reSub_spec (s : S) (h p : Nat) (newText : Str) (hnf : NoFilter s)
    (hp : posOf s.items h = some p) :
    (s.stale = false → newText ≠ s.texts.getD p [] →
      (step s (.reSub h newText)).2 = .ok () ∧
      (step s (.reSub h newText)).1.texts = s.texts.set p newText) ∧
    (s.stale = false → newText = s.texts.getD p [] → step s (.reSub h newText) = (s, .ok ())) ∧
    (s.stale = true → step s (.reSub h newText) = (s, .error .notImplemented)) := by
  refine ⟨fun hs hne => ?_, fun hs he => ?_, fun hs => ?_⟩
  · have : step s (.reSub h newText)
        = (autoCommit { s with items := setText s.items p newText, dirty := true }, .ok ()) := by
      simp only [Edit.step, hp, hs, Bool.false_eq_true, if_false, if_neg hne]
    rw [this]
    refine ⟨rfl, ?_⟩
    show (autoCommit _).texts = _
    rw [edited_texts s hnf, setText_texts]; rfl
  · simp only [Edit.step, hp, hs, Bool.false_eq_true, if_false, if_pos he]
  · simp only [Edit.step, hp, hs, if_true]

/-- On a committed state (`committed_handle`) `replace_text` / `re_sub` change line `h` itself. -/
theorem replaceText_committed (s : S) (h : Nat) (before after : Str) (hnf : NoFilter s)
    (hd : s.dirty = false) (hinv : FreshInv s) (hh : h < s.texts.length) :
    (step s (.replaceText h before after)).1.texts
      = s.texts.set h (pyReplace before after (s.texts.getD h [])) :=
  (replaceText_spec s h h before after hnf (committed_handle s h hd hinv hh)).2

/-! ## append_to_family -/

/-- **`obj.append_to_family(txt, indent, auto_indent)`**: whenever it succeeds, the state was
committed, the handle valid, and exactly one line — the payload after the explicit / auto
indentation of `familyText` — is inserted, at the index `appendIndex` computes (clipped to
the list length like `list.insert`); all other lines keep text and order
(`insertion_frame`).  The new line is at the target's indent level or exactly one level
deeper. -/
theorem appendToFamily_spec (s : S) (i : Nat) (txt : Str) (ind : Int) (ai : Bool) (hnf : NoFilter s)
    (hok : (step s (.appendToFamily i txt ind ai)).2 = .ok ()) :
    let txt' := familyText (indentOf s.tree i) s.width txt ind ai
    s.dirty = false ∧ i < s.texts.length ∧ ¬ (ai = true ∧ ind > 0) ∧
    ∃ idx, appendIndex s.tree s.width i txt' = .ok idx ∧
      (step s (.appendToFamily i txt ind ai)).1.texts
        = s.texts.take (min idx s.texts.length) ++ txt' :: s.texts.drop (min idx s.texts.length) ∧
      (cfi s.width (indentOf s.tree i) txt' = some 0 ∨ cfi s.width (indentOf s.tree i) txt' = some 1) := by
  intro txt'
  obtain ⟨h1, h2, h3, idx, h4, h5⟩ := step_appendToFamily_ok s i txt ind ai hok
  refine ⟨h1, by rw [texts_length]; exact h2, h3, idx, h4, ?_, appendIndex_level _ _ _ _ idx h4⟩
  rw [h5, edited_texts s hnf, pyInsert_map, items_map_text, pyInsert_eq, insertPos_natCast]
  rfl

/-- **Child-level append to a target that has children** (the new line is not at the
target's own indent): the line is one level deeper than the target and is inserted at
`familyEndpoint + 1`.  In a forest whose size is the number of lines (every reachable
committed state) that is a valid position, namely directly after the last line among the
target and its descendants. -/
theorem appendToFamily_child_level (s : S) (i : Nat) (txt : Str) (ind : Int) (ai : Bool) (hnf : NoFilter s)
    (hok : (step s (.appendToFamily i txt ind ai)).2 = .ok ())
    (hk : children s.tree i ≠ [])
    (h0 : cfi s.width (indentOf s.tree i) (familyText (indentOf s.tree i) s.width txt ind ai) ≠ some 0)
    (hf : Forest s.tree) (hsz : s.tree.size = s.texts.length) :
    let txt' := familyText (indentOf s.tree i) s.width txt ind ai
    let e := familyEndpoint s.tree i
    (step s (.appendToFamily i txt ind ai)).1.texts = s.texts.take (e + 1) ++ txt' :: s.texts.drop (e + 1) ∧
    e + 1 ≤ s.texts.length ∧ e ∈ i :: allChildren s.tree i ∧ (∀ j ∈ i :: allChildren s.tree i, j ≤ e) ∧
    cfi s.width (indentOf s.tree i) txt' = some 1 := by
  intro txt' e
  obtain ⟨_, h2, _, idx, h4, h5, _⟩ := appendToFamily_spec s i txt ind ai hnf hok
  obtain ⟨h6, h7⟩ := appendIndex_child_level _ _ _ _ idx hk h4 h0
  have h8 : e < s.tree.size := familyEndpoint_lt_size hf (by omega)
  have h9 := familyEndpoint_max hf i
  refine ⟨?_, by omega, h9.1, h9.2, h7⟩
  rw [h5, h6, Nat.min_eq_left (by omega)]

/-- **A child-level `append_to_family` keeps every existing parent and makes the new line a
child of the target.**  State: no uncommitted change, C07's invariant, auto-commit on,
blank lines kept, no line of the config (nor the payload) starts a banner or — under syntax
ios — a macro, so that the links are those of the indentation rule (C02).  Target `i` with
children; payload `txt'` (after `familyText`) not at the target's own indent, not a comment;
every direct child of `i` that is a configuration line is indented at least as deep as the
payload (automatic for indent width 1, `appendToFamily_keeps_parents_width1`).  Then, with
`e` the last line of `i`'s family: the texts are `take (e+1) ++ [txt'] ++ drop (e+1)`, the new
line's parent is `i`, every line up to `e` keeps its parent, and every line after `e` keeps
its parent, shifted by one where it lies after `e` — except possibly a comment directly
after the insertion point (its attachment depends on the line above it, C02's legacy rule;
the Python oracle excludes comments as well). -/
theorem appendToFamily_keeps_parents (s : S) (i : Nat) (txt : Str) (ind : Int) (ai : Bool)
    (hd : s.dirty = false) (hinv : FreshInv s) (ha : s.auto = true) (hig : s.cfg.ignoreBlank = false)
    (hp : Plain s.cfg s.texts)
    (hok : (step s (.appendToFamily i txt ind ai)).2 = .ok ())
    (hk : children s.tree i ≠ [])
    (h0 : cfi s.width (indentOf s.tree i) (familyText (indentOf s.tree i) s.width txt ind ai) ≠ some 0)
    (hb : isBannerStart (familyText (indentOf s.tree i) s.width txt ind ai) = false)
    (hm : s.cfg.ios = true → isMacroStart (familyText (indentOf s.tree i) s.width txt ind ai) = false)
    (hxc : isComment s.cfg (familyText (indentOf s.tree i) s.width txt ind ai) = false)
    (Hc : ∀ c, c ∈ children s.tree i → isConfigLine s.cfg (s.texts.getD c []) = true →
      indent (familyText (indentOf s.tree i) s.width txt ind ai) ≤ indent (s.texts.getD c [])) :
    let txt' := familyText (indentOf s.tree i) s.width txt ind ai
    let e := familyEndpoint s.tree i
    let s' := (step s (.appendToFamily i txt ind ai)).1
    i ≤ e ∧ e < s.texts.length ∧
    s'.texts = s.texts.take (e + 1) ++ txt' :: s.texts.drop (e + 1) ∧
    parentOf s'.tree (e + 1) = i ∧
    (∀ j, j ≤ e → parentOf s'.tree j = parentOf s.tree j) ∧
    (∀ j, e < j → j < s.texts.length → ¬ (j = e + 1 ∧ isComment s.cfg (s.texts.getD j []) = true) →
      parentOf s'.tree (j + 1) = shiftAfter e (parentOf s.tree j)) := by
  intro txt' e s'
  obtain ⟨htree, htexts, _⟩ := hinv hd
  obtain ⟨_, h2, _, idx, h4, h5⟩ := step_appendToFamily_ok s i txt ind ai hok
  obtain ⟨h6, h7⟩ := appendIndex_child_level _ _ _ _ idx hk h4 h0
  have hforest : Forest s.tree := by rw [htree]; exact bootstrap_forest _ _
  have hsz : s.tree.size = s.texts.length := by rw [T.size, ← htexts]
  have he : e < s.tree.size := familyEndpoint_lt_size hforest (by rw [hsz, texts_length]; exact h2)
  have hnew : (pyInsert s.items idx (fresh txt')).map Item.text
      = s.texts.take (e + 1) ++ txt' :: s.texts.drop (e + 1) := by
    rw [pyInsert_map, items_map_text, pyInsert_eq, insertPos_natCast, h6, Nat.min_eq_left (by omega)]
    rfl
  have htree' : s'.tree = parse s.cfg (s.texts.take (e + 1) ++ txt' :: s.texts.drop (e + 1)) := by
    show (step s (.appendToFamily i txt ind ai)).1.tree = _
    rw [h5, auto_tree_after s ha, hnew]
  have hlt : indent (s.texts.getD i []) < indent txt' := by
    have := cfi_one_lt _ _ _ h7
    have hio : indentOf s.tree i = indent (s.texts.getD i []) := by rw [indentOf, ← htexts]
    show indent (s.texts.getD i []) < indent (familyText (indentOf s.tree i) s.width txt ind ai)
    omega
  have hmain := parse_insert_child s.cfg s.texts i txt' hp hig hb hm (by rw [← htree]; exact hk) hxc hlt
    (by rw [← htree]; exact Hc)
  simp only at hmain
  rw [← htree] at hmain
  obtain ⟨r0, r1, r2, r3, r4, r5⟩ := hmain
  refine ⟨r0, r1, ?_, ?_, ?_, ?_⟩
  · show (step s (.appendToFamily i txt ind ai)).1.texts = _
    rw [h5, edited_texts s (.inr hig), hnew]
  · rw [htree']; exact r3
  · intro j hj; rw [htree']; exact r4 j hj
  · intro j h1 h2' h3; rw [htree']; exact r5 j h1 h2' h3

/-- For indent width 1 (every syntax but nxos) the hypothesis on the children is automatic:
a child-level payload is indented exactly one deeper than the target, and every
configuration-line child of the target is indented deeper than the target. -/
theorem appendToFamily_children_width1 (s : S) (i : Nat) (txt' : Str)
    (hd : s.dirty = false) (hinv : FreshInv s) (hig : s.cfg.ignoreBlank = false) (hp : Plain s.cfg s.texts)
    (hw : s.width = 1) (h1 : cfi s.width (indentOf s.tree i) txt' = some 1) :
    ∀ c, c ∈ children s.tree i → isConfigLine s.cfg (s.texts.getD c []) = true →
      indent txt' ≤ indent (s.texts.getD c []) := by
  intro c hc _
  obtain ⟨htree, htexts, _⟩ := hinv hd
  have hst := parse_specTree s.cfg s.texts hp hig
  rw [← htree] at hst
  obtain ⟨hcs, hpc, hci⟩ := mem_children.mp hc
  obtain ⟨lp, lj, e1, e2, _, _, e5, _⟩ := specTree_parent hst hcs (by omega)
  rw [hpc] at e1
  have g : ∀ (j : Nat) (l : Info), (s.texts.map (info s.cfg))[j]? = some l → l.indent = indent (s.texts.getD j []) := by
    intro j l hl
    simp only [List.getElem?_map, Option.map_eq_some_iff] at hl
    obtain ⟨x, hx, rfl⟩ := hl
    rw [List.getD_eq_getElem?_getD, hx]; rfl
  rw [g i lp e1, g c lj e2] at e5
  -- the payload is indented exactly one deeper than the target
  have hx : indent txt' = indent (s.texts.getD i []) + 1 := by
    have hlt := cfi_one_lt _ _ _ h1
    unfold cfi at h1
    rw [hw] at h1
    dsimp only at h1
    rw [indentOf, ← htexts] at h1 hlt
    split at h1
    · cases h1
    · split at h1
      · cases h1
      · split at h1
        · cases h1
        · injection h1 with h1
          have h11 : ((1 : Nat) : Int) = 1 := rfl
          rw [h11, Int.tdiv_one] at h1
          omega
  omega

/-- `appendToFamily_keeps_parents` for indent width 1, without the hypothesis on the children. -/
theorem appendToFamily_keeps_parents_width1 (s : S) (i : Nat) (txt : Str) (ind : Int) (ai : Bool)
    (hd : s.dirty = false) (hinv : FreshInv s) (ha : s.auto = true) (hig : s.cfg.ignoreBlank = false)
    (hp : Plain s.cfg s.texts) (hw : s.width = 1)
    (hok : (step s (.appendToFamily i txt ind ai)).2 = .ok ())
    (hk : children s.tree i ≠ [])
    (h0 : cfi s.width (indentOf s.tree i) (familyText (indentOf s.tree i) s.width txt ind ai) ≠ some 0)
    (hb : isBannerStart (familyText (indentOf s.tree i) s.width txt ind ai) = false)
    (hm : s.cfg.ios = true → isMacroStart (familyText (indentOf s.tree i) s.width txt ind ai) = false)
    (hxc : isComment s.cfg (familyText (indentOf s.tree i) s.width txt ind ai) = false) :
    let txt' := familyText (indentOf s.tree i) s.width txt ind ai
    let e := familyEndpoint s.tree i
    let s' := (step s (.appendToFamily i txt ind ai)).1
    i ≤ e ∧ e < s.texts.length ∧
    s'.texts = s.texts.take (e + 1) ++ txt' :: s.texts.drop (e + 1) ∧
    parentOf s'.tree (e + 1) = i ∧
    (∀ j, j ≤ e → parentOf s'.tree j = parentOf s.tree j) ∧
    (∀ j, e < j → j < s.texts.length → ¬ (j = e + 1 ∧ isComment s.cfg (s.texts.getD j []) = true) →
      parentOf s'.tree (j + 1) = shiftAfter e (parentOf s.tree j)) := by
  obtain ⟨_, _, _, idx, h4, _⟩ := step_appendToFamily_ok s i txt ind ai hok
  have h1 := (appendIndex_child_level _ _ _ _ idx hk h4 h0).2
  exact appendToFamily_keeps_parents s i txt ind ai hd hinv ha hig hp hok hk h0 hb hm hxc
    (appendToFamily_children_width1 s i _ hd hinv hig hp hw h1)

/-- **Same-indent append to a target that has children — known finding F10b.**  Intended
(and what the property asks for): the line goes after the whole family, i.e. at
`familyEndpoint + 1`.  What the code does, and what is proved here: it is inserted at
`i + |children(i)|`, which lies inside the family as soon as the target has a grandchild
(see the example below). -/
theorem appendToFamily_same_indent_partial (s : S) (i : Nat) (txt : Str) (ind : Int) (ai : Bool)
    (hnf : NoFilter s) (hok : (step s (.appendToFamily i txt ind ai)).2 = .ok ())
    (hk : children s.tree i ≠ [])
    (h0 : cfi s.width (indentOf s.tree i) (familyText (indentOf s.tree i) s.width txt ind ai) = some 0) :
    let txt' := familyText (indentOf s.tree i) s.width txt ind ai
    let j := min (i + (children s.tree i).length) s.texts.length
    (step s (.appendToFamily i txt ind ai)).1.texts = s.texts.take j ++ txt' :: s.texts.drop j := by
  intro txt' j
  obtain ⟨_, _, _, idx, h4, h5, _⟩ := appendToFamily_spec s i txt ind ai hnf hok
  rw [h5, appendIndex_same_indent _ _ _ _ idx hk h4 h0]

/-- **Append to a childless target**, as the code does it: a line at the target's indent
goes after the target's last sibling (or, without siblings, after the last line of that
level found by `last_family_linenum`); a line one level deeper goes after
`last_parent_linenums[0]`. -/
theorem appendToFamily_childless (s : S) (i : Nat) (txt : Str) (ind : Int) (ai : Bool)
    (hok : (step s (.appendToFamily i txt ind ai)).2 = .ok ()) (hk : children s.tree i = []) :
    let txt' := familyText (indentOf s.tree i) s.width txt ind ai
    ∃ idx, appendIndex s.tree s.width i txt' = .ok idx ∧
    ((cfi s.width (indentOf s.tree i) txt' = some 0 ∧
      ((siblings s.tree i ≠ [] ∧ idx = ((siblings s.tree i).getLast?).getD i + 1) ∨
       (siblings s.tree i = [] ∧ ∃ l, lastFamilyLinenum s.tree s.width i = some l ∧ idx = l + 1))) ∨
     (cfi s.width (indentOf s.tree i) txt' = some 1 ∧
      ∃ lp, lastParentLinenum0 s.tree s.width i = some lp ∧ idx = lp + 1)) := by
  intro txt'
  obtain ⟨_, _, _, idx, h4, _⟩ := step_appendToFamily_ok s i txt ind ai hok
  exact ⟨idx, h4, appendIndex_childless _ _ _ _ idx hk h4⟩

/-! ## errors and frame -/

/-- **Every refused operation leaves the whole state unchanged** (texts, tree, flags). -/
theorem errors_leave_state (s : S) (op : Op) (e : Err) (h : (step s op).2 = .error e) :
    (step s op).1 = s := step_error_unchanged s op e h

/-- A handle whose object is no longer in the list (deleted or popped since the last
commit), and — for `delete` / `append_to_family`, which index by the object's stored line
number — any handle on a state with uncommitted changes, is not executed (the model's
`dirtyHandle`; the harness skips the call on both sides). -/
theorem unresolved_handle_skipped (s : S) (h : Nat) (txt before after : Str) (ind : Int) (ai : Bool) :
    (posOf s.items h = none →
      step s (.objInsBefore h txt) = (s, .error .dirtyHandle) ∧
      step s (.objInsAfter h txt) = (s, .error .dirtyHandle) ∧
      step s (.replaceText h before after) = (s, .error .dirtyHandle) ∧
      step s (.reSub h txt) = (s, .error .dirtyHandle)) ∧
    (s.dirty = true ∨ s.texts.length ≤ h →
      step s (.delete h) = (s, .error .dirtyHandle) ∧
      step s (.appendToFamily h txt ind ai) = (s, .error .dirtyHandle)) := by
  constructor
  · intro hp
    simp only [Edit.step, hp, and_self]
  · intro hd
    rw [texts_length] at hd
    have hg : (s.dirty || decide (h ≥ s.items.length)) = true := by
      rcases hd with hd | hd <;> simp [hd]
    simp only [Edit.step, hg, if_true, and_self]

/-- **Frame**: no operation changes the options; with auto-commit off only `commit`
replaces the committed tree; `probe` changes nothing. -/
theorem others_unchanged (s : S) (op : Op) :
    (step s op).1.cfg = s.cfg ∧ (step s op).1.auto = s.auto ∧ (step s op).1.width = s.width ∧
    (s.auto = false → op ≠ .commit → (step s op).1.tree = s.tree) ∧
    (step s .probe).1 = s :=
  ⟨(step_frame s op).1, (step_frame s op).2.1, (step_frame s op).2.2,
   fun ha hop => step_tree_unchanged s op ha hop, rfl⟩

/-- The hypotheses `Forest s.tree` and `s.tree.size = s.texts.length` used above hold in
every state reached from a parse that has no uncommitted change (C07's invariant). -/
theorem reachable_tree_ok (cfg : Cfg) (auto : Bool) (width : Nat) (ls : List Str) (ops : List Op) :
    let s := run (init cfg auto width ls) ops
    s.dirty = false → Forest s.tree ∧ s.tree.size = s.texts.length := by
  intro s hd
  have h := run_fresh _ ops (init_fresh cfg auto width ls) hd
  refine ⟨?_, by rw [T.size, ← h.2.1]⟩
  rw [h.1]
  exact bootstrap_forest _ _

/-- The second case of `NoFilter`, spelled out: with auto-commit on and
`ignore_blank_lines` off, the commit after the edit keeps the texts. -/
theorem auto_commit_keeps_texts (s : S) (h : s.cfg.ignoreBlank = false) :
    (commit s).texts = s.texts ∧ NoFilter s := ⟨commit_texts_noignore s h, .inr h⟩

/-- **The remaining case: auto-commit on, any `ignore_blank_lines`.**  From a committed
state satisfying C07's invariant (every state reached with auto-commit on), an operation
answers as it does with auto-commit off, and leaves the texts that one bootstrap makes of
the texts the same operation leaves with auto-commit off (to which the theorems above
apply with `NoFilter` by its first case): a sublist of them in which every non-blank line
survives — only blank lines can disappear, and none does without `ignore_blank_lines`. -/
theorem auto_commit_step_texts (s : S) (op : Op) (ha : s.auto = true) (hd : s.dirty = false)
    (hinv : FreshInv s) :
    let manual := (step { s with auto := false } op).1.texts
    NoFilter { s with auto := false } ∧
    (step s op).2 = (step { s with auto := false } op).2 ∧
    (step s op).1.texts = (bootstrap s.cfg manual).texts ∧
    (step s op).1.texts.Sublist manual ∧
    (step s op).1.texts.filter (fun x => !isBlank x) = manual.filter (fun x => !isBlank x) ∧
    (s.cfg.ignoreBlank = false → (step s op).1.texts = manual) := by
  intro manual
  have h := auto_step_texts s op ha hd hinv
  have hb := bootstrap_texts s.cfg manual
  refine ⟨.inl rfl, h.2, h.1, ?_, ?_, ?_⟩
  · rw [h.1]; exact hb.1
  · rw [h.1]; exact hb.2
  · intro hi; rw [h.1]; exact bootstrap_texts_noignore s.cfg manual hi

/-! ## non-vacuity: a concrete 5-line config with a grandchild and a prefix pair -/

def exCfg : Cfg := { ios := true, delims := ['!'], ignoreBlank := false }

def exLines : List Str :=
  ["interface Eth1".toList, " ip address 1.1.1.1".toList, "  secondary".toList, " shutdown".toList,
   "interface Eth10".toList]

/-- auto-commit off / on -/
def exOff : S := init exCfg false 1 exLines
def exOn : S := init exCfg true 1 exLines

example : NoFilter exOff ∧ NoFilter exOn := ⟨.inl rfl, .inr rfl⟩
example : exOn.dirty = false ∧ exOn.tree.parents = [0, 0, 1, 0, 4] ∧ exOn.texts = exLines := by decide
example : Forest exOn.tree ∧ exOn.tree.size = exOn.texts.length :=
  reachable_tree_ok exCfg true 1 exLines [] rfl

/-- `insert(-1, "x")` lands at position 4 of 5 -/
example : insertPos 5 (-1) = 4 ∧
    (step exOff (.insert (-1) "x".toList)).1.texts =
      ["interface Eth1".toList, " ip address 1.1.1.1".toList, "  secondary".toList, " shutdown".toList,
       "x".toList, "interface Eth10".toList] := by decide
/-- `pop(-2)` is in range and removes position 3; `pop(5)` is out of range -/
example : (-(exOff.texts.length : Int) ≤ -2 ∧ (-2 : Int) < exOff.texts.length) ∧ popPos 5 (-2) = 3 ∧
    (step exOff (.pop (-2))).1.texts.length = 4 ∧ (step exOff (.pop 5)).2 = .error .indexError := by decide
/-- list-level insert_before on the rows of `^interface` : two copies -/
example : ¬ (isBlank "!".toList = true ∧ exOff.cfg.ignoreBlank = true) ∧
    matchCount 5 [true, false, false, false, true] = 2 ∧
    (step exOff (.listInsBefore false [true, false, false, false, true] "!".toList)).1.texts =
      ["!".toList, "interface Eth1".toList, " ip address 1.1.1.1".toList, "  secondary".toList,
       " shutdown".toList, "!".toList, "interface Eth10".toList] := by decide
/-- the refusals are reachable: `ignore_blank_lines` with a blank payload, an empty regex -/
example : (step (init { exCfg with ignoreBlank := true } true 1 exLines) (.listInsAfter false [true] " ".toList)).2
      = .error .invalidParameters ∧
    (step exOff (.listInsAfter true [] "x".toList)).2 = .error .valueError := by decide
/-- object-level insert next to `Eth1` does not touch `Eth10` (hypotheses of `objInsert*_spec`) -/
example : posOf exOn.items 0 = some 0 ∧
    (step exOn (.objInsAfter 0 " description x".toList)).1.texts =
      ["interface Eth1".toList, " description x".toList, " ip address 1.1.1.1".toList, "  secondary".toList,
       " shutdown".toList, "interface Eth10".toList] := by decide
/-- deleting line 1 removes it and its child (line 2) -/
example : allChildren exOn.tree 1 = [2] ∧ allChildren exOn.tree 0 = [1, 2, 3] ∧
    (step exOn (.delete 1)).1.texts =
      ["interface Eth1".toList, " shutdown".toList, "interface Eth10".toList] := by decide
/-- `delete_keeps_parents` on an example: deleting line 1 (and its child 2) — `shutdown`
moves from 3 to 1 and keeps parent 0, `Eth10` moves from 4 to 2 and stays a root -/
example : rank (fun j => !(descendantsAndSelf exOn.tree 1).contains j) 3 = 1 ∧
    rank (fun j => !(descendantsAndSelf exOn.tree 1).contains j) 4 = 2 ∧
    (step exOn (.delete 1)).1.tree.parents = [0, 0, 2] := by decide
/-- the exclusion is needed: a comment that was a root because it sat under a deeper line
gets attached when that line is deleted -/
example : let s := init exCfg true 1 ["r".toList, " a".toList, "  b".toList, " !x".toList]
    s.tree.parents = [0, 0, 1, 3] ∧ (step s (.delete 2)).1.tree.parents = [0, 0, 0] := by decide
/-- replace_text / re_sub on line 4; an unchanged substitution is a no-op -/
example : (step exOn (.replaceText 4 "Eth1".toList "Po".toList)).1.texts[4]? = some "interface Po0".toList ∧
    (step exOn (.reSub 4 "interface Po1".toList)).1.texts[4]? = some "interface Po1".toList ∧
    (step exOn (.reSub 4 "interface Eth10".toList)).2 = .ok () := by decide
/-- child-level append to line 0 (children 1 and 3, grandchild 2): after the family end 3 -/
example : children exOn.tree 0 = [1, 3] ∧ familyEndpoint exOn.tree 0 = 3 ∧
    cfi 1 (indentOf exOn.tree 0) (familyText (indentOf exOn.tree 0) 1 " mtu 9000".toList (-1) false) = some 1 ∧
    (step exOn (.appendToFamily 0 " mtu 9000".toList (-1) false)).2 = .ok () ∧
    (step exOn (.appendToFamily 0 " mtu 9000".toList (-1) false)).1.texts =
      ["interface Eth1".toList, " ip address 1.1.1.1".toList, "  secondary".toList, " shutdown".toList,
       " mtu 9000".toList, "interface Eth10".toList] := by decide
/-- the hypotheses of `appendToFamily_keeps_parents_width1` hold for this append, and its
conclusion read off: new line 4 is a child of 0, `Eth10` (old 4, new 5) is still a root -/
example : Plain exOn.cfg exOn.texts ∧ exOn.width = 1 ∧
    isBannerStart " mtu 9000".toList = false ∧ isMacroStart " mtu 9000".toList = false ∧
    isComment exOn.cfg " mtu 9000".toList = false ∧
    (step exOn (.appendToFamily 0 " mtu 9000".toList (-1) false)).1.tree.parents = [0, 0, 1, 0, 0, 5] ∧
    exOn.tree.parents = [0, 0, 1, 0, 4] := by
  refine ⟨⟨by decide, fun _ => by decide⟩, by decide⟩
/-- the exclusion is needed: a comment directly after the insertion point that was a root
(it sat under a deeper line) becomes a child of the target when the new line is put above it -/
example : let s := init exCfg true 1 ["a".toList, " b".toList, "  c".toList, " !x".toList, "d".toList]
    s.tree.parents = [0, 0, 1, 3, 4] ∧ familyEndpoint s.tree 0 = 2 ∧
    (step s (.appendToFamily 0 " n".toList (-1) false)).1.texts
      = ["a".toList, " b".toList, "  c".toList, " n".toList, " !x".toList, "d".toList] ∧
    (step s (.appendToFamily 0 " n".toList (-1) false)).1.tree.parents = [0, 0, 1, 0, 0, 5] := by decide
/-- **F10b**: a same-indent append to line 0 lands at `0 + |children| = 2`, between
` ip address` and its child `  secondary`, which is thereby re-parented by the commit -/
example : cfi 1 (indentOf exOn.tree 0) (familyText (indentOf exOn.tree 0) 1 "interface Eth2".toList (-1) false) = some 0 ∧
    (step exOn (.appendToFamily 0 "interface Eth2".toList (-1) false)).2 = .ok () ∧
    (step exOn (.appendToFamily 0 "interface Eth2".toList (-1) false)).1.texts =
      ["interface Eth1".toList, " ip address 1.1.1.1".toList, "interface Eth2".toList, "  secondary".toList,
       " shutdown".toList, "interface Eth10".toList] ∧
    (step exOn (.appendToFamily 0 "interface Eth2".toList (-1) false)).1.tree.parents = [0, 0, 2, 2, 2, 5] := by
  decide
/-- childless target (line 3): same level goes after the last sibling, auto-indent one deeper -/
example : children exOn.tree 3 = [] ∧ siblings exOn.tree 3 = [1, 3] ∧
    (step exOn (.appendToFamily 3 " x".toList (-1) false)).1.texts[4]? = some " x".toList ∧
    (step exOn (.appendToFamily 3 "x".toList (-1) true)).1.texts[4]? = some "  x".toList := by decide
/-- `auto_commit_step_texts` with `ignore_blank_lines`: appending a blank line is filtered
away by the commit, a non-blank one survives -/
example : let s := init { exCfg with ignoreBlank := true } true 1 exLines
    s.auto = true ∧ s.dirty = false ∧
    (step { s with auto := false } (.append "  ".toList)).1.texts.length = 6 ∧
    (step s (.append "  ".toList)).1.texts = exLines ∧
    (step s (.append "end".toList)).1.texts = exLines ++ ["end".toList] := by decide
/-- object operations on a state with uncommitted changes (auto-commit off): after
`insert(0, "x")` the object with handle 0 sits at position 1 and is found there; after
it is popped, its handle no longer resolves -/
def exDirty : S := (step exOff (.insert 0 "x".toList)).1
example : exDirty.dirty = true ∧ posOf exDirty.items 0 = some 1 ∧ posOf exDirty.items 4 = some 5 ∧
    (step exDirty (.objInsBefore 0 "y".toList)).1.texts.take 3 = ["x".toList, "y".toList, "interface Eth1".toList] ∧
    (step exDirty (.replaceText 4 "Eth1".toList "Po".toList)).1.texts[5]? = some "interface Po0".toList ∧
    posOf (step exDirty (.pop 1)).1.items 0 = none ∧
    (step (step exDirty (.pop 1)).1 (.objInsAfter 0 "y".toList)).2 = .error .dirtyHandle := by decide
/-- identities after uncommitted edits: the fresh line has none, the others keep theirs -/
example : idsOf exDirty.items = [0, 1, 2, 3, 4] ∧ exDirty.items.map Item.id = [none, some 0, some 1, some 2, some 3, some 4] ∧
    idsOf (step exDirty (.pop 1)).1.items = [1, 2, 3, 4] := by decide
/-- `handle_position`, second part: on a committed state a handle is its own position -/
example : posOf exOn.items 3 = some 3 ∧ posOf exOn.items 5 = none := by decide
/-- refused: two levels deeper; `delete` through a handle on a dirty state -/
example : (step exOn (.appendToFamily 0 "   x".toList (-1) false)).2 = .error .notImplemented ∧
    (step (step exOff (.append "x".toList)).1 (.delete 0)).2 = .error .dirtyHandle := by decide

end Ccp.C06
