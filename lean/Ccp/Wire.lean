import Ccp.Py.Basic
/-!
Line protocol between the Python harness and the model driver.

* a request is one line; fields are separated by TAB
* a string is `s` followed by its code points in decimal, separated by `.`
  (`"hi"` = `s104.105`, `""` = `s`)
* a list of strings is its items separated by one blank (an empty field is the
  empty list)
* numbers are decimal, lists of numbers are separated by `,`
-/
namespace Ccp.Wire
open Ccp.Py

def encStr (s : Str) : String :=
  "s" ++ ".".intercalate (s.map (fun c => toString c.toNat))

def decStr (w : String) : Option Str :=
  match w.toList with
  | 's' :: rest =>
    if rest = [] then some [] else
    (splitOn '.' rest).mapM (fun ds => (ofDigits ds).map Char.ofNat)
  | _ => none

def encStrs (l : List Str) : String := " ".intercalate (l.map encStr)

def decStrs (w : String) : Option (List Str) :=
  if w = "" then some [] else (splitOn ' ' w.toList).mapM (fun x => decStr (String.ofList x))

def encNats (l : List Nat) : String := ",".intercalate (l.map toString)

def decNat (w : String) : Option Nat := ofDigits w.toList

def decInt (w : String) : Option Int := pyInt w.toList

def decNats (w : String) : Option (List Nat) :=
  if w = "" then some [] else (splitOn ',' w.toList).mapM ofDigits

def encInts (l : List Int) : String := ",".intercalate (l.map toString)

def decInts (w : String) : Option (List Int) :=
  if w = "" then some [] else (splitOn ',' w.toList).mapM pyInt

def fields (line : String) : List String :=
  (splitOn '\t' line.toList).map String.ofList

end Ccp.Wire
