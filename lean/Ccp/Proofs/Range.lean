import Ccp.Model.Range
/-! Helper lemmas for C14. Core Lean only. -/
namespace Ccp.Range

theorem mem_insertAsc (x y : Nat) (l : List Nat) : y ∈ insertAsc x l ↔ y = x ∨ y ∈ l := by
  induction l with
  | nil => simp [insertAsc]
  | cons a as ih =>
    unfold insertAsc
    split
    · simp
    · split
      · rename_i h; subst h; simp
      · simp [ih]; constructor <;> (intro h; rcases h with h | h | h <;> simp [h])

theorem insertAsc_sorted (x : Nat) (l : List Nat) (h : l.Pairwise (· < ·)) :
    (insertAsc x l).Pairwise (· < ·) := by
  induction l with
  | nil => simp [insertAsc]
  | cons a as ih =>
    unfold insertAsc
    have ha := List.pairwise_cons.mp h
    split
    · rename_i hx
      refine List.pairwise_cons.mpr ⟨?_, h⟩
      intro b hb
      rcases List.mem_cons.mp hb with hb | hb
      · omega
      · have := ha.1 b hb; omega
    · split
      · exact h
      · rename_i h1 h2
        refine List.pairwise_cons.mpr ⟨?_, ih ha.2⟩
        intro b hb
        rcases (mem_insertAsc x b as).mp hb with hb | hb
        · omega
        · exact ha.1 b hb

theorem sortedSet_sorted (l : List Nat) : (sortedSet l).Pairwise (· < ·) := by
  induction l with
  | nil => simp [sortedSet]
  | cons a as ih => exact insertAsc_sorted a _ ih

theorem mem_sortedSet (l : List Nat) (y : Nat) : y ∈ sortedSet l ↔ y ∈ l := by
  induction l with
  | nil => simp [sortedSet]
  | cons a as ih =>
    show y ∈ insertAsc a (sortedSet as) ↔ _
    rw [mem_insertAsc, ih]; simp

/-- on an ascending duplicate-free list `sortedSet` is the identity -/
theorem insertAsc_of_lt_all (x : Nat) (l : List Nat) (h : ∀ y ∈ l, x < y) :
    insertAsc x l = x :: l := by
  cases l with
  | nil => rfl
  | cons a as => simp [insertAsc, h a (by simp)]

theorem sortedSet_of_sorted (l : List Nat) (h : l.Pairwise (· < ·)) : sortedSet l = l := by
  induction l with
  | nil => rfl
  | cons a as ih =>
    have ha := List.pairwise_cons.mp h
    show insertAsc a (sortedSet as) = _
    rw [ih ha.2, insertAsc_of_lt_all a as ha.1]

theorem mem_upto (lo hi n : Nat) : n ∈ upto lo hi ↔ lo ≤ n ∧ n ≤ hi := by
  unfold upto
  simp only [List.mem_map, List.mem_range]
  constructor
  · rintro ⟨k, hk, rfl⟩; omega
  · intro h; exact ⟨n - lo, by omega, by omega⟩

end Ccp.Range
