import Ccp.Model.IPTextX
import Ccp.Proofs.IPText
/-!
Helper lemmas for the factories and the remaining value properties of C11 (`Ccp.Model.IPTextX`).
Core Lean only.
-/
namespace Ccp.IPTextX
open Ccp.Py Ccp.IPText

instance {α : Type} [DecidableEq α] : DecidableEq (Except Err α) := fun a b =>
  match a, b with
  | .ok x, .ok y => if h : x = y then isTrue (by rw [h]) else isFalse (by intro e; cases e; exact h rfl)
  | .error x, .error y => if h : x = y then isTrue (by rw [h]) else isFalse (by intro e; cases e; exact h rfl)
  | .ok _, .error _ => isFalse (by intro e; cases e)
  | .error _, .ok _ => isFalse (by intro e; cases e)

theorem wrapAVE_error {α : Type} (r : Except Err α) (e : Err) (h : wrapAVE r = .error e) :
    e = .addressValueError := by
  cases r with
  | ok a => simp [wrapAVE] at h
  | error e' => simp [wrapAVE] at h; exact h.symm

theorem wrapAVE_ok {α : Type} (r : Except Err α) (a : α) : wrapAVE r = .ok a ↔ r = .ok a := by
  cases r <;> simp [wrapAVE]

theorem wrapAVE_idem {α : Type} (r : Except Err α) : wrapAVE (wrapAVE r) = wrapAVE r := by
  cases r <;> rfl

/-- the body of `_get_ipv4` before the handler -/
def getBody4 (val : Val) (stdlib : Bool) : Except Err Ret := do
  stdNet4 val
  let o ← ctor4 val
  if !stdlib then pure (.obj4 o)
  else if o.len = Gen.ipv4MaxPrefixlen then pure (.addr4 o.ip)
  else do
    let n ← V4.network o
    pure (.net4 n)

def getBody6 (val : Val) (stdlib : Bool) : Except Err Ret := do
  stdNet6 val
  let o ← ctor6 val
  if !stdlib then pure (.obj6 o)
  else if o.len = Gen.ipv6MaxPrefixlen then pure (.addr6 o.ip)
  else do
    let n ← V6.network o
    pure (.net6 n)

theorem getIpv4_eq (val : Val) (stdlib : Bool) : getIpv4 val stdlib = wrapAVE (getBody4 val stdlib) := rfl
theorem getIpv6_eq (val : Val) (stdlib : Bool) : getIpv6 val stdlib = wrapAVE (getBody6 val stdlib) := rfl

theorem getBody4_ok (val : Val) (stdlib : Bool) (r : Ret) :
    getBody4 val stdlib = .ok r ↔
      stdNet4 val = .ok () ∧ ∃ o, ctor4 val = .ok o ∧
        ((stdlib = false ∧ r = .obj4 o) ∨
         (stdlib = true ∧ o.len = Gen.ipv4MaxPrefixlen ∧ r = .addr4 o.ip) ∨
         (stdlib = true ∧ o.len ≠ Gen.ipv4MaxPrefixlen ∧ ∃ n, V4.network o = .ok n ∧ r = .net4 n)) := by
  unfold getBody4
  cases h1 : stdNet4 val with
  | error e => simp [bind, Except.bind]
  | ok u =>
    cases h2 : ctor4 val with
    | error e => simp [bind, Except.bind]
    | ok o =>
      cases stdlib
      · simp [bind, Except.bind, pure, Except.pure, eq_comm]
      · by_cases hl : o.len = Gen.ipv4MaxPrefixlen
        · simp [bind, Except.bind, pure, Except.pure, hl, eq_comm]
        · cases h3 : V4.network o with
          | error e => simp [bind, Except.bind, pure, Except.pure, hl, h3]
          | ok n =>
            have hl' : ¬ Gen.ipv4MaxPrefixlen = o.len := fun h => hl h.symm
            simp only [bind, Except.bind, pure, Except.pure, hl, h3, Bool.not_true, Bool.false_eq_true, if_false,
              Except.ok.injEq, true_and, reduceCtorEq, false_and, false_or, ne_eq, not_false_eq_true, exists_eq_left', and_true]
            exact eq_comm

theorem getBody6_ok (val : Val) (stdlib : Bool) (r : Ret) :
    getBody6 val stdlib = .ok r ↔
      stdNet6 val = .ok () ∧ ∃ o, ctor6 val = .ok o ∧
        ((stdlib = false ∧ r = .obj6 o) ∨
         (stdlib = true ∧ o.len = Gen.ipv6MaxPrefixlen ∧ r = .addr6 o.ip) ∨
         (stdlib = true ∧ o.len ≠ Gen.ipv6MaxPrefixlen ∧ ∃ n, V6.network o = .ok n ∧ r = .net6 n)) := by
  unfold getBody6
  cases h1 : stdNet6 val with
  | error e => simp [bind, Except.bind]
  | ok u =>
    cases h2 : ctor6 val with
    | error e => simp [bind, Except.bind]
    | ok o =>
      cases stdlib
      · simp [bind, Except.bind, pure, Except.pure, eq_comm]
      · by_cases hl : o.len = Gen.ipv6MaxPrefixlen
        · simp [bind, Except.bind, pure, Except.pure, hl, eq_comm]
        · cases h3 : V6.network o with
          | error e => simp [bind, Except.bind, pure, Except.pure, hl, h3]
          | ok n =>
            have hl' : ¬ Gen.ipv6MaxPrefixlen = o.len := fun h => hl h.symm
            simp only [bind, Except.bind, pure, Except.pure, hl, h3, Bool.not_true, Bool.false_eq_true, if_false,
              Except.ok.injEq, true_and, reduceCtorEq, false_and, false_or, ne_eq, not_false_eq_true, exists_eq_left', and_true]
            exact eq_comm

end Ccp.IPTextX
