import Ccp.Model.EditForms
import Ccp.Proofs.Edit
import Ccp.Proofs.EditLinks
import Ccp.Proofs.EditFrame
/-!
Helper lemmas for the part of C06 about the other input forms of the editing API
(`Ccp.Model.EditForms`): list-level inserts of a blank line under `ignore_blank_lines`,
equality of a stale handle with the elements of the list, `classify_family_indent`.
-/
namespace Ccp.Edit
open Ccp.Py Ccp.Tree

/-! ### `insertAtMatches` and predicates the payload fails -/

theorem mem_insertAtMatches {α} (after : Bool) (x : α) (l : List α) (row : List Bool) (y : α)
    (h : y ∈ insertAtMatches after x l row) : y = x ∨ y ∈ l := by
  induction l generalizing row with
  | nil => simp [insertAtMatches] at h
  | cons a as ih =>
    cases row with
    | nil => simp only [insertAtMatches] at h; exact Or.inr h
    | cons b bs =>
      simp only [insertAtMatches] at h
      cases b <;> cases after <;> simp only [if_true, if_false, Bool.false_eq_true, List.mem_cons] at h
      all_goals
        have ih' := ih bs
        grind

theorem insertAtMatches_filter_out {α} (p : α → Bool) (after : Bool) (x : α) (l : List α) (row : List Bool)
    (hx : p x = false) : (insertAtMatches after x l row).filter p = l.filter p := by
  induction l generalizing row with
  | nil => simp [insertAtMatches]
  | cons a as ih =>
    cases row with
    | nil => simp only [insertAtMatches]
    | cons b bs =>
      simp only [insertAtMatches]
      cases b <;> cases after <;>
        simp only [if_true, if_false, Bool.false_eq_true, List.filter_cons, hx, ih bs]

/-! ### a commit that drops every inserted line again -/

/-- **blank lines put into a committed plain config under `ignore_blank_lines` are dropped by the
auto-commit**: when the non-blank lines of the edited list are the old lines, texts and tree are
what they were -/
theorem auto_edit_blank_noop (s : S) (its : List Item) (st : Bool) (h : PlainCommitted s)
    (hi : s.cfg.ignoreBlank = true) (hp' : Plain s.cfg (its.map Item.text))
    (hfil : (its.map Item.text).filter nonBlank = s.texts) :
    let s' := autoCommit { s with items := its, stale := st, dirty := true }
    s'.texts = s.texts ∧ s'.tree = s.tree := by
  intro s'
  obtain ⟨htree, _, _⟩ := h.fresh h.clean
  have hnb := fresh_nonblank s h.clean h.fresh h.plain hi
  have hparse : parse s.cfg (its.map Item.text) = s.tree := by
    rw [parse_ignore_plain s.cfg _ hi hp', hfil, htree, parse_noIg s.cfg s.texts h.plain (fun _ => hnb)]
  have ht : s'.tree = s.tree := by
    show (autoCommit _).tree = _
    rw [auto_tree_after s h.auto, hparse]
  refine ⟨?_, ht⟩
  show (autoCommit _).texts = _
  rw [autoCommit_on { s with items := its, stale := st, dirty := true } h.auto, commit_texts]
  show (bootstrap s.cfg (its.map Item.text)).texts = _
  rw [← parse_eq_bootstrap, hparse, htree, parse_texts' s.cfg s.texts h.plain (fun _ => hnb)]

theorem auto_listIns_blank_noop (s : S) (after : Bool) (row : List Bool) (txt : Str) (h : PlainCommitted s)
    (hi : s.cfg.ignoreBlank = true) (hbl : isBlank txt = true)
    (hb : isBannerStart txt = false) (hm : s.cfg.ios = true → isMacroStart txt = false) :
    (listInsCore after s row txt).1.texts = s.texts ∧ (listInsCore after s row txt).1.tree = s.tree := by
  have hnb := fresh_nonblank s h.clean h.fresh h.plain hi
  have hmap : (insertAtMatches after (fresh txt) s.items row).map Item.text
      = insertAtMatches after txt s.texts row := by
    rw [insertAtMatches_map]; rfl
  have h3 : nonBlank txt = false := by rw [nonBlank_eq, hbl]; rfl
  have hs : listInsCore after s row txt
      = (autoCommit { s with items := insertAtMatches after (fresh txt) s.items row, stale := s.stale, dirty := true },
         .ok ()) := rfl
  rw [hs]
  refine auto_edit_blank_noop s _ s.stale h hi ?_ ?_
  · rw [hmap]
    constructor
    · intro x hx
      rcases mem_insertAtMatches after txt s.texts row x hx with e | e
      · rw [e]; exact hb
      · exact h.plain.1 x e
    · intro hios x hx
      rcases mem_insertAtMatches after txt s.texts row x hx with e | e
      · rw [e]; exact hm hios
      · exact h.plain.2 hios x e
  · rw [hmap, insertAtMatches_filter_out nonBlank after txt s.texts row h3]
    exact List.filter_eq_self.mpr hnb

/-! ### a stale handle against the elements of the list -/

theorem presentEq_committed (t : T) (i : Nat) (txt : Str) :
    presentEq (committedItems t) i txt = (t.texts[i]? == some txt) := by
  unfold presentEq committedItems
  generalize t.texts = l
  rw [List.any_map]
  rw [Bool.eq_iff_iff]
  simp only [List.any_eq_true, Function.comp, Bool.and_eq_true, beq_iff_eq, Option.some.injEq]
  constructor
  · rintro ⟨⟨a, k⟩, hm, hk, ha⟩
    have := List.mem_zipIdx hm
    simp only at hk ha
    subst hk; subst ha
    simp only [Nat.zero_add, Nat.zero_le, true_and] at this
    rw [List.getElem?_eq_getElem this.1]
    simp [this.2]
  · intro h
    have h' : l[i]? = some txt := by simpa using h
    obtain ⟨hl, he⟩ := List.getElem?_eq_some_iff.mp h'
    refine ⟨(txt, i), ?_, rfl, rfl⟩
    rw [List.mem_zipIdx_iff_getElem?]
    simpa using h'

/-- after the elements at the positions `dead` (with `i` among them) have been taken out of a
freshly committed list, no element carries the line number `i` -/
theorem presentEq_eraseAll_committed (t : T) (dead : List Nat) (i : Nat) (txt : Str) (hi : i ∈ dead) :
    presentEq (eraseAll (committedItems t) dead) i txt = false := by
  rw [Bool.eq_false_iff]
  intro h
  unfold presentEq at h
  rw [List.any_eq_true] at h
  obtain ⟨it, hm, hit⟩ := h
  rw [eraseAll_eq_filter] at hm
  simp only [List.mem_map, List.mem_filter] at hm
  obtain ⟨⟨a, k⟩, ⟨hk1, hk2⟩, rfl⟩ := hm
  simp only [Bool.and_eq_true, beq_iff_eq] at hit
  have hz := List.mem_zipIdx hk1
  simp only [Nat.zero_add, Nat.zero_le, true_and] at hz
  obtain ⟨hlt, ha⟩ := hz
  have hid : a.id = some k := by
    rw [ha]
    have := congrArg (fun l => l[k]?) (committedItems_ids t)
    simp only [List.getElem?_map] at this
    rw [List.getElem?_eq_getElem hlt] at this
    have hk' : k < t.texts.length := by rw [← committedItems_length]; exact hlt
    rw [List.getElem?_range hk'] at this
    simpa using this
  rw [hid] at hit
  have : k = i := by simpa using hit.1
  subst this
  simp only [Bool.not_eq_true', List.contains_eq_mem, decide_eq_false_iff_not] at hk2
  exact hk2 hi

/-! ### `classify_family_indent` -/

theorem cfi_eq (w si : Nat) (txt : Str) (hw : w ≠ 0) (hm : indent txt % w = 0) :
    cfi w si txt = some (Int.tdiv ((indent txt : Int) - (si : Int)) (w : Int)) := by
  unfold cfi
  dsimp only
  rw [if_neg hw]
  have : (indent txt % w != 0) = false := by simp [hm]
  rw [this]
  simp only [Bool.false_eq_true, if_false]
  split
  · next h => rw [h]; simp
  · rfl

theorem cfi_none (w si : Nat) (txt : Str) (h : w = 0 ∨ indent txt % w ≠ 0) : cfi w si txt = none := by
  unfold cfi
  dsimp only
  rcases h with h | h
  · rw [if_pos h]
  · by_cases hw : w = 0
    · rw [if_pos hw]
    · rw [if_neg hw]
      have : (indent txt % w != 0) = true := by simp [h]
      rw [this]; rfl

end Ccp.Edit
