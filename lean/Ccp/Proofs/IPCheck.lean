import Ccp.Model.IPTextX
import Ccp.Proofs.IPText
import Ccp.Proofs.IPSpell
import Ccp.Spec.IP
/-!
Helper lemmas for `check_valid_ipaddress` (C11, `Ccp.IPTextX.checkValid`): a character that is not white space
survives `strip`; a text with at least two colon-separated fields holds a colon; every RFC 4291 spelling of an IPv6
address holds a colon.
-/
namespace Ccp.IPCheck
open Ccp.Py Ccp.IPText Ccp.Spec

theorem mem_dropWhile_of_not (p : Char → Bool) (c : Char) (hp : p c = false) :
    ∀ l : Str, c ∈ l → c ∈ l.dropWhile p
  | [], h => by cases h
  | a :: l, h => by
    by_cases ha : p a = true
    · simp only [List.dropWhile_cons, ha, if_true]
      rcases List.mem_cons.mp h with rfl | h'
      · rw [hp] at ha; cases ha
      · exact mem_dropWhile_of_not p c hp l h'
    · simp only [List.dropWhile_cons, ha]; exact h

/-- a character that is not white space is not removed by `strip` -/
theorem mem_strip_of_nonspace (c : Char) (l : Str) (hc : c ∈ l) (hs : isSpace c = false) : c ∈ strip l := by
  unfold strip rstrip lstrip
  rw [List.mem_reverse]
  apply mem_dropWhile_of_not isSpace c hs
  rw [List.mem_reverse]
  exact mem_dropWhile_of_not isSpace c hs l hc

theorem dropWhile_idem (p : Char → Bool) (l : Str) : (l.dropWhile p).dropWhile p = l.dropWhile p := by
  induction l with
  | nil => rfl
  | cons a l ih =>
    by_cases ha : p a = true
    · simp only [List.dropWhile_cons, ha, if_true]; exact ih
    · simp [ha]

theorem rstrip_idem (l : Str) : rstrip (rstrip l) = rstrip l := by
  unfold rstrip; rw [List.reverse_reverse, dropWhile_idem]

theorem rstrip_prefix (l : Str) : rstrip l <+: l := by
  unfold rstrip
  have h := (List.dropWhile_suffix isSpace (l := l.reverse))
  have := List.reverse_prefix.mpr h
  rwa [List.reverse_reverse] at this

theorem lstrip_of_head (l : Str) (h : ∀ c, l.head? = some c → isSpace c = false) : lstrip l = l := by
  cases l with
  | nil => rfl
  | cons a t => simp [lstrip, h a rfl]

/-- `strip` is idempotent -/
theorem strip_strip (l : Str) : strip (strip l) = strip l := by
  have hh : ∀ c, (strip l).head? = some c → isSpace c = false := by
    intro c hc
    unfold strip at hc
    obtain ⟨t, ht⟩ := rstrip_prefix (lstrip l)
    have hl : (lstrip l).head? = some c := by
      cases hr : rstrip (lstrip l) with
      | nil => rw [hr] at hc; cases hc
      | cons a r => rw [hr] at hc ht; rw [← ht]; simpa using hc
    have := List.head?_dropWhile_not isSpace l
    unfold lstrip at hl
    rw [hl] at this
    simpa using this
  show rstrip (lstrip (strip l)) = strip l
  rw [lstrip_of_head _ hh]
  unfold strip
  exact rstrip_idem _

theorem colon_mem_join (f g : Str) (fs : List Str) : ':' ∈ join [':'] (f :: g :: fs) := by
  simp [join]

/-- every RFC 4291 spelling of an IPv6 address holds a colon -/
theorem colon_mem_spelling (addr : Str) (n : Nat) (h : IP.IsV6Spelling addr n) : ':' ∈ addr := by
  rcases h with ⟨fs, gs, hf, h8, rfl, _⟩ | ⟨hi, lo, ghi, glo, _, _, _, rfl, _⟩
  · have hl : 2 ≤ fs.length := by
      rcases hf with hh | ⟨fs', gs', v, _, hh, rfl, rfl⟩
      · rw [hextets_length fs gs hh, h8]; omega
      · have := hextets_length fs' gs' hh
        simp only [List.length_append, List.length_cons, List.length_nil] at h8 ⊢
        omega
    match fs, hl with
    | f :: g :: rest, _ => exact colon_mem_join f g rest
  · simp

end Ccp.IPCheck
