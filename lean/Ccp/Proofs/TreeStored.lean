import Ccp.Model.TreeStored
import Ccp.Proofs.TreeForest
/-!
Helper lemmas for the stored child lists (`Ccp.Model.TreeStored`). Core Lean only.

* part A: forgetting the stored child lists turns every operation / pass of
  `Ccp.TreeStored` into the corresponding one of `Ccp.Tree` (so the parent arrays agree);
* part B: the invariant `Ok` — every stored child list is strictly ascending and holds
  exactly the other lines whose parent index is that line — is established by `newLine`
  and kept by `addChild`, `reparent` and hence by all passes;
* part C: under `Ok` the stored lists are the derived `Ccp.Tree.children`.
-/
namespace Ccp.TreeStored
open Ccp.Py Ccp.Tree

/-! ## list helpers -/

theorem getD_set_eq {α : Type} {l : List α} {c : Nat} (h : c < l.length) (x d : α) : (l.set c x).getD c d = x := by
  simp [List.getD_eq_getElem?_getD, h]

theorem getD_set_ne {α : Type} {l : List α} {c j : Nat} (h : c ≠ j) (x d : α) : (l.set c x).getD j d = l.getD j d := by
  simp [List.getD_eq_getElem?_getD, h]

theorem getD_modify_eq {l : List (List Nat)} {q : Nat} (h : q < l.length) (f : List Nat → List Nat) :
    (l.modify q f).getD q [] = f (l.getD q []) := by
  simp [List.getD_eq_getElem?_getD, List.getElem?_eq_getElem h]

theorem getD_modify_ne {l : List (List Nat)} {i q : Nat} (h : i ≠ q) (f : List Nat → List Nat) :
    (l.modify i f).getD q [] = l.getD q [] := by
  simp only [List.getD_eq_getElem?_getD, List.getElem?_modify]
  cases l[q]? <;> simp [h]

theorem getD_append_left {α : Type} {l : List α} {j : Nat} (h : j < l.length) (m : List α) (d : α) :
    (l ++ m).getD j d = l.getD j d := by
  simp [List.getD_eq_getElem?_getD, List.getElem?_append_left h]

theorem getD_append_singleton {α : Type} (l : List α) (x d : α) : (l ++ [x]).getD l.length d = x := by
  simp [List.getD_eq_getElem?_getD]


/-! ## part A: forgetting the stored lists gives the parent-only model -/

theorem reparent_toT (s : S) (p c : Nat) : (TreeStored.reparent s p c).toT = Tree.reparent s.toT p c := rfl
theorem setKeep_toT (s : S) (i : Nat) : (TreeStored.setKeep s i).toT = Tree.setKeep s.toT i := rfl

theorem bannerWalk_toT (d : Char) (p : Nat) (idx : Nat) (rest : List Str) (s : S) :
    (TreeStored.bannerWalk d p idx rest s).toT = Tree.bannerWalk d p idx rest s.toT := by
  induction rest generalizing idx s with
  | nil => rfl
  | cons txt rest ih =>
    simp only [TreeStored.bannerWalk, Tree.bannerWalk]
    split
    · rfl
    · rw [ih]; rfl

theorem markBanner_toT (s : S) (p : Nat) (txt : Str) :
    (TreeStored.markBanner s p txt).toT = Tree.markBanner s.toT p txt := by
  unfold TreeStored.markBanner Tree.markBanner
  cases bannerDelim txt with
  | none => rfl
  | some d =>
    simp only []
    split
    · rfl
    · rw [bannerWalk_toT]; rfl

theorem markBannersFrom_toT (i : Nat) (l : List Str) (s : S) :
    (TreeStored.markBannersFrom i l s).toT = Tree.markBannersFrom i l s.toT := by
  induction l generalizing i s with
  | nil => rfl
  | cons txt rest ih =>
    simp only [TreeStored.markBannersFrom, Tree.markBannersFrom]
    rw [ih]
    split
    · rw [markBanner_toT]
    · rfl

theorem markBanners_toT (s : S) : (TreeStored.markBanners s).toT = Tree.markBanners s.toT :=
  markBannersFrom_toT 0 _ s

theorem macroWalk_toT (p : Nat) (idx : Nat) (rest : List Str) (s : S) :
    (TreeStored.macroWalk p idx rest s).toT = Tree.macroWalk p idx rest s.toT := by
  induction rest generalizing idx s with
  | nil => rfl
  | cons txt rest ih =>
    simp only [TreeStored.macroWalk, Tree.macroWalk]
    split
    · rfl
    · rw [ih]; rfl

theorem markMacrosFrom_toT (i : Nat) (l : List Str) (s : S) :
    (TreeStored.markMacrosFrom i l s).toT = Tree.markMacrosFrom i l s.toT := by
  induction l generalizing i s with
  | nil => rfl
  | cons txt rest ih =>
    simp only [TreeStored.markMacrosFrom, Tree.markMacrosFrom]
    rw [ih]
    split
    · rw [macroWalk_toT]; rfl
    · rfl

theorem markMacros_toT (cfg : Cfg) (s : S) : (TreeStored.markMacros cfg s).toT = Tree.markMacros cfg s.toT := by
  unfold TreeStored.markMacros Tree.markMacros
  split
  · exact markMacrosFrom_toT 0 _ s
  · rfl

theorem attach_some_cons (a : Nat × Info) (r : List (Nat × Info)) (i : Nat) (l : Info) (p : Nat) :
    attach (a :: r) i l (some p) = if l.isCmt && aboveIndent (a :: r) > l.indent then i else p := rfl

theorem attach_some_nil (i : Nat) (l : Info) (p : Nat) : attach [] i l (some p) = p := rfl

/-- `_add_child_to_parent` on a fresh object sets exactly the parent `Tree.attach` computes -/
theorem addChild_newLine_toT (rp : List (Nat × Info)) (s : S) (l : Info) (cand : Option Nat) :
    (addChild rp (newLine s s.parents.length) s.parents.length l cand).toT =
      { s.toT with parents := s.parents ++ [attach rp s.parents.length l cand] } := by
  have hself : (parentOf (newLine s s.parents.length).toT s.parents.length == s.parents.length) = true := by
    simp [parentOf, newLine]
  cases cand with
  | none => rfl
  | some p =>
    have hset : (newLine s s.parents.length).parents.set s.parents.length p = s.parents ++ [p] := by
      simp [newLine]
    unfold addChild
    simp only []
    cases rp with
    | nil =>
      have h0 : (l.isCmt && decide (aboveIndent [] > l.indent)) = false := by simp [aboveIndent]
      rw [attach_some_nil, h0, if_neg (by simp), if_pos hself, hset]; rfl
    | cons a r =>
      rw [attach_some_cons]
      by_cases hcm : (l.isCmt && decide (aboveIndent (a :: r) > l.indent)) = true
      · rw [if_pos hcm, if_pos hcm]; rfl
      · rw [if_neg hcm, if_neg hcm, if_pos hself, hset]; rfl

theorem linkLoop_toT (st : St) (s : S) (ls : List Info) :
    (TreeStored.linkLoop st s s.parents.length ls).toT =
      { s.toT with parents := s.parents ++ Tree.linkLoop st s.parents.length ls } := by
  induction ls generalizing st s with
  | nil => simp [TreeStored.linkLoop, Tree.linkLoop]
  | cons l ls ih =>
    simp only [TreeStored.linkLoop, Tree.linkLoop, TreeStored.step]
    have h1 := addChild_newLine_toT st.revPre s l (build st.revPre (maintain st.cache st.mx l) l).2
    have hlen : (addChild st.revPre (newLine s s.parents.length) s.parents.length l
        (build st.revPre (maintain st.cache st.mx l) l).2).parents.length = s.parents.length + 1 := by
      have := congrArg (fun t => t.parents.length) h1
      simpa using this
    have h2 := ih { cache := (build st.revPre (maintain st.cache st.mx l) l).1, mx := newMax st.mx l,
                    revPre := (s.parents.length, l) :: st.revPre }
      (addChild st.revPre (newLine s s.parents.length) s.parents.length l
        (build st.revPre (maintain st.cache st.mx l) l).2)
    rw [hlen] at h2
    rw [h2, h1]
    simp [Tree.step]

theorem linkByIndent_toT (cfg : Cfg) (ls : List Str) :
    (TreeStored.linkByIndent cfg ls).toT =
      { texts := ls, parents := Tree.linkByIndent cfg ls, keep := ls.map (fun _ => false) } := by
  have := linkLoop_toT St.init
    { texts := ls, parents := [], keep := ls.map (fun _ => false), children := [] } (ls.map (info cfg))
  simpa [TreeStored.linkByIndent, Tree.linkByIndent] using this

theorem link_toT (cfg : Cfg) (ls : List Str) : (TreeStored.link cfg ls).toT = Tree.link cfg ls := by
  unfold TreeStored.link Tree.link
  rw [markMacros_toT, markBanners_toT, linkByIndent_toT]

theorem bootstrapFuel_toT (cfg : Cfg) (fuel : Nat) (ls : List Str) :
    (TreeStored.bootstrapFuel cfg fuel ls).toT = Tree.bootstrapFuel cfg fuel ls := by
  induction fuel generalizing ls with
  | zero => exact link_toT cfg ls
  | succ fuel ih =>
    simp only [TreeStored.bootstrapFuel, Tree.bootstrapFuel, link_toT]
    split
    · split
      · exact ih _
      · exact link_toT cfg ls
    · exact link_toT cfg ls

theorem bootstrap_toT (cfg : Cfg) (ls : List Str) : (TreeStored.bootstrap cfg ls).toT = Tree.bootstrap cfg ls :=
  bootstrapFuel_toT cfg _ ls

theorem parse_toT (cfg : Cfg) (ls : List Str) : (TreeStored.parse cfg ls).toT = Tree.parse cfg ls := by
  unfold TreeStored.parse Tree.parse
  rw [bootstrap_toT]
  have : (TreeStored.bootstrap cfg ls).texts = (Tree.bootstrap cfg ls).texts := by
    rw [← bootstrap_toT]
  rw [this]


/-! ## part B: the invariant of the stored lists -/

/-- `k` objects exist; every parent index is ≤ the line's own index; the stored child list
of every line is strictly ascending and holds exactly the other lines naming it as parent -/
def Ok (k : Nat) (ps : List Nat) (ch : List (List Nat)) : Prop :=
  ps.length = k ∧ ch.length = k ∧ Below ps 0 ∧
  ∀ q, q < k → (ch.getD q []).Pairwise (· < ·) ∧
    ∀ j, j ∈ ch.getD q [] ↔ j < k ∧ ps.getD j j = q ∧ j ≠ q

theorem ok_nil : Ok 0 [] [] := ⟨rfl, rfl, fun k hk => by simp at hk, fun q hq => by omega⟩

theorem Ok.getD_le {k : Nat} {ps : List Nat} {ch : List (List Nat)} (h : Ok k ps ch) (j : Nat) :
    ps.getD j j ≤ j := by
  by_cases hj : j < ps.length
  · have := h.2.2.1 j hj
    simp only [List.getD_eq_getElem?_getD, List.getElem?_eq_getElem hj, Option.getD_some]
    omega
  · simp [List.getD_eq_getElem?_getD, List.getElem?_eq_none (Nat.le_of_not_lt hj)]

/-- the effect of "make `c` a child of `p`" on the membership of every list determines `Ok` -/
theorem ok_move {k : Nat} {ps : List Nat} {ch ch' : List (List Nat)} (h : Ok k ps ch) {p c : Nat}
    (hc : c < k) (hpc : p < c) (hlen : ch'.length = k)
    (hch : ∀ q, q < k → (ch'.getD q []).Pairwise (· < ·) ∧
      ∀ j, j ∈ ch'.getD q [] ↔ (j ∈ ch.getD q [] ∧ j ≠ c) ∨ (j = c ∧ q = p)) :
    Ok k (ps.set c p) ch' := by
  obtain ⟨h1, h2, h3, h4⟩ := h
  refine ⟨by simp [h1], hlen, ?_, ?_⟩
  · intro i hi
    simp only [List.getElem_set]
    split
    · omega
    · exact h3 i (by simpa using hi)
  · intro q hq
    refine ⟨(hch q hq).1, fun j => ?_⟩
    rw [(hch q hq).2, (h4 q hq).2]
    by_cases hj : j = c
    · subst hj
      rw [getD_set_eq (by omega)]
      constructor
      · rintro (⟨_, h⟩ | ⟨_, h⟩)
        · exact absurd rfl h
        · exact ⟨hc, h.symm, by omega⟩
      · rintro ⟨_, h, _⟩; exact .inr ⟨rfl, h.symm⟩
    · rw [getD_set_ne (fun e => hj e.symm)]
      constructor
      · rintro (⟨h, _⟩ | ⟨h, _⟩)
        · exact h
        · exact absurd h hj
      · intro h; exact .inl ⟨h, hj⟩

/-- a new object (its own parent, no children) -/
theorem ok_newLine {k : Nat} {ps : List Nat} {ch : List (List Nat)} (h : Ok k ps ch) :
    Ok (k + 1) (ps ++ [k]) (ch ++ [[]]) := by
  obtain ⟨h1, h2, h3, h4⟩ := h
  have hle := Ok.getD_le ⟨h1, h2, h3, h4⟩
  refine ⟨by simp [h1], by simp [h2], ?_, ?_⟩
  · intro i hi
    by_cases hik : i < ps.length
    · rw [List.getElem_append_left hik]; exact h3 i hik
    · have : i = ps.length := by simp at hi; omega
      subst this; simp [h1]
  · intro q hq
    have hself : (ps ++ [k]).getD k k = k := by rw [← h1]; exact getD_append_singleton ps _ _
    by_cases hqk : q < k
    · rw [getD_append_left (by omega)]
      refine ⟨(h4 q hqk).1, fun j => ?_⟩
      rw [(h4 q hqk).2]
      by_cases hjk : j < k
      · rw [getD_append_left (by omega)]
        constructor
        · rintro ⟨_, b, c⟩; exact ⟨by omega, b, c⟩
        · rintro ⟨_, b, c⟩; exact ⟨hjk, b, c⟩
      · constructor
        · rintro ⟨a, _, _⟩; omega
        · rintro ⟨a, b, c⟩
          have : j = k := by omega
          subst this; rw [hself] at b; omega
    · have hq' : q = k := by omega
      subst hq'
      have : (ch ++ [[]]).getD q [] = [] := by rw [← h2]; exact getD_append_singleton ch _ _
      rw [this]
      refine ⟨List.Pairwise.nil, fun j => ?_⟩
      constructor
      · intro hj; cases hj
      · rintro ⟨a, b, c⟩
        have hjk : j < q := by omega
        rw [getD_append_left (by omega)] at b
        have := hle j; omega

/-- a line that is in range and its own parent is in no stored list -/
theorem Ok.not_mem_of_root {k : Nat} {ps : List Nat} {ch : List (List Nat)} (h : Ok k ps ch) {c q : Nat}
    (hq : q < k) (hroot : ps.getD c c = c) : c ∉ ch.getD q [] := by
  intro hm
  obtain ⟨_, b, c'⟩ := ((h.2.2.2 q hq).2 c).mp hm
  omega

/-- `_add_child_to_parent` for a fresh object `k` (the last one) and a parent before it -/
theorem ok_append {k : Nat} {ps : List Nat} {ch : List (List Nat)} (h : Ok (k + 1) ps ch) {p : Nat}
    (hp : p < k) (hroot : ps.getD k k = k) :
    Ok (k + 1) (ps.set k p) (ch.modify p (fun c => c ++ [k])) := by
  apply ok_move h (by omega) hp (by simp [h.2.1])
  intro q hq
  have hnot := fun q hq => h.not_mem_of_root (q := q) hq hroot
  by_cases hqp : q = p
  · subst hqp
    rw [getD_modify_eq (by rw [h.2.1]; omega)]
    have hs := (h.2.2.2 q hq).1
    have hm := (h.2.2.2 q hq).2
    refine ⟨?_, fun j => ?_⟩
    · rw [List.pairwise_append]
      refine ⟨hs, by simp, ?_⟩
      intro a ha b hb
      have h1 := ((hm a).mp ha).1
      have h2 : a ≠ k := fun e => hnot q hq (e ▸ ha)
      simp at hb; omega
    · simp only [List.mem_append, List.mem_singleton]
      constructor
      · rintro (hj | hj)
        · exact .inl ⟨hj, fun e => hnot q hq (e ▸ hj)⟩
        · exact .inr ⟨hj, trivial⟩
      · rintro (⟨hj, _⟩ | ⟨hj, _⟩)
        · exact .inl hj
        · exact .inr hj
  · rw [getD_modify_ne (fun e => hqp e.symm)]
    refine ⟨(h.2.2.2 q hq).1, fun j => ?_⟩
    constructor
    · intro hj; exact .inl ⟨hj, fun e => hnot q hq (e ▸ hj)⟩
    · rintro (⟨hj, _⟩ | ⟨_, e⟩)
      · exact hj
      · exact absurd e hqp


/-! ### `_reparent_child` -/

/-- first half of `_reparent_child`: remove `c` from the list of its former parent `f` -/
def detach (ch : List (List Nat)) (f c p : Nat) : List (List Nat) :=
  if f != c && f != p then ch.modify f (fun l => l.filter (fun j => j != c)) else ch

/-- second half: append `c` to the list of `p` unless it is there, and sort that list -/
def adopt (ch : List (List Nat)) (p c : Nat) : List (List Nat) :=
  if (ch.getD p []).contains c then ch else ch.modify p (fun l => sortKeep (l ++ [c]))

theorem reparent_children (s : S) (p c : Nat) :
    (TreeStored.reparent s p c).children = adopt (detach s.children (parentOf s.toT c) c p) p c := rfl

theorem reparent_parents (s : S) (p c : Nat) : (TreeStored.reparent s p c).parents = s.parents.set c p := rfl

theorem detach_length (ch : List (List Nat)) (f c p : Nat) : (detach ch f c p).length = ch.length := by
  unfold detach; split <;> simp

theorem adopt_length (ch : List (List Nat)) (p c : Nat) : (adopt ch p c).length = ch.length := by
  unfold adopt; split <;> simp

/-- after the removal `c` is in no list except possibly the one of `p` -/
theorem detach_spec {k : Nat} {ps : List Nat} {ch : List (List Nat)} (h : Ok k ps ch) {p c : Nat} (hc : c < k)
    {q : Nat} (hq : q < k) :
    ((detach ch (ps.getD c c) c p).getD q []).Pairwise (· < ·) ∧
    ∀ j, j ∈ (detach ch (ps.getD c c) c p).getD q [] ↔ j ∈ ch.getD q [] ∧ (j ≠ c ∨ q = p) := by
  have hF : ∀ q, q < k → c ∈ ch.getD q [] → ps.getD c c = q ∧ c ≠ q := by
    intro q hq hm
    have := ((h.2.2.2 q hq).2 c).mp hm
    exact ⟨this.2.1, this.2.2⟩
  have hfk : ps.getD c c < k := by have := h.getD_le c; omega
  unfold detach
  split
  · rename_i hcond
    simp only [Bool.and_eq_true, bne_iff_ne] at hcond
    by_cases hqf : q = ps.getD c c
    · rw [← hqf, getD_modify_eq (by rw [h.2.1]; exact hq)]
      refine ⟨List.Pairwise.filter _ (h.2.2.2 q hq).1, fun j => ?_⟩
      simp only [List.mem_filter, bne_iff_ne]
      constructor
      · rintro ⟨a, b⟩; exact ⟨a, .inl b⟩
      · rintro ⟨a, b | b⟩
        · exact ⟨a, b⟩
        · exact absurd (hqf ▸ b) (fun e => hcond.2 e)
    · rw [getD_modify_ne (fun e => hqf e.symm)]
      refine ⟨(h.2.2.2 q hq).1, fun j => ?_⟩
      constructor
      · intro hj
        refine ⟨hj, .inl ?_⟩
        intro e; subst e
        exact hqf (hF q hq hj).1.symm
      · exact fun hj => hj.1
  · rename_i hcond
    simp only [Bool.and_eq_true, bne_iff_ne, not_and, Classical.not_not] at hcond
    refine ⟨(h.2.2.2 q hq).1, fun j => ?_⟩
    constructor
    · intro hj
      refine ⟨hj, ?_⟩
      by_cases e : j = c
      · subst e
        obtain ⟨a, b⟩ := hF q hq hj
        by_cases hfc : ps.getD j j = j
        · exact absurd (hfc.symm.trans a) b
        · exact .inr ((hcond hfc) ▸ a.symm)
      · exact .inl e
    · exact fun hj => hj.1

/-- the second half on lists that satisfy the conclusion of `detach_spec` -/
theorem adopt_spec {k : Nat} {ch ch1 : List (List Nat)} {p c : Nat} (hlen : ch1.length = k) (hp : p < k)
    (h1 : ∀ q, q < k → (ch1.getD q []).Pairwise (· < ·) ∧
      ∀ j, j ∈ ch1.getD q [] ↔ j ∈ ch.getD q [] ∧ (j ≠ c ∨ q = p))
    {q : Nat} (hq : q < k) :
    ((adopt ch1 p c).getD q []).Pairwise (· < ·) ∧
    ∀ j, j ∈ (adopt ch1 p c).getD q [] ↔ (j ∈ ch.getD q [] ∧ j ≠ c) ∨ (j = c ∧ q = p) := by
  unfold adopt
  split
  · rename_i hin
    have hin' : c ∈ ch1.getD p [] := by simpa using hin
    refine ⟨(h1 q hq).1, fun j => ?_⟩
    rw [(h1 q hq).2]
    constructor
    · rintro ⟨a, b | b⟩
      · exact .inl ⟨a, b⟩
      · by_cases e : j = c
        · exact .inr ⟨e, b⟩
        · exact .inl ⟨a, e⟩
    · rintro (⟨a, b⟩ | ⟨a, b⟩)
      · exact ⟨a, .inl b⟩
      · subst a; subst b
        exact ⟨(((h1 q hq).2 j).mp hin').1, .inr rfl⟩
  · rename_i hin
    have hin' : c ∉ ch1.getD p [] := by simpa using hin
    by_cases hqp : q = p
    · subst hqp
      rw [getD_modify_eq (by omega)]
      have hnd : (ch1.getD q [] ++ [c]).Nodup := by
        rw [List.nodup_append]
        refine ⟨nodup_of_sorted (h1 q hq).1, by simp, ?_⟩
        intro a ha b hb
        simp at hb; subst hb
        exact fun e => hin' (e ▸ ha)
      refine ⟨sortKeep_strict hnd, fun j => ?_⟩
      rw [mem_sortKeep, List.mem_append, List.mem_singleton, (h1 q hq).2]
      constructor
      · rintro (⟨a, _⟩ | a)
        · by_cases e : j = c
          · exact .inr ⟨e, rfl⟩
          · exact .inl ⟨a, e⟩
        · exact .inr ⟨a, rfl⟩
      · rintro (⟨a, b⟩ | ⟨a, _⟩)
        · exact .inl ⟨a, .inl b⟩
        · exact .inr a
    · rw [getD_modify_ne (fun e => hqp e.symm)]
      refine ⟨(h1 q hq).1, fun j => ?_⟩
      rw [(h1 q hq).2]
      constructor
      · rintro ⟨a, b | b⟩
        · exact .inl ⟨a, b⟩
        · exact absurd b hqp
      · rintro (⟨a, b⟩ | ⟨_, b⟩)
        · exact ⟨a, .inl b⟩
        · exact absurd b hqp

/-- `_reparent_child(parent, child)` with `parent` before `child` keeps the invariant -/
theorem ok_reparent {k : Nat} {s : S} (h : Ok k s.parents s.children) {p c : Nat} (hc : c < k) (hpc : p < c) :
    Ok k (TreeStored.reparent s p c).parents (TreeStored.reparent s p c).children := by
  rw [reparent_parents, reparent_children]
  apply ok_move h hc hpc
  · rw [adopt_length, detach_length, h.2.1]
  · intro q hq
    exact adopt_spec (by rw [detach_length, h.2.1]) (by omega) (fun q hq => detach_spec h hc hq) hq


/-! ### pass 1 -/

/-- `_add_child_to_parent` either does nothing or links a line that was its own parent -/
theorem addChild_cases (rp : List (Nat × Info)) (s : S) (i : Nat) (l : Info) (cand : Option Nat) :
    addChild rp s i l cand = s ∨ ∃ p, cand = some p ∧ parentOf s.toT i = i ∧
      addChild rp s i l cand =
        { s with children := s.children.modify p (fun c => c ++ [i]), parents := s.parents.set i p } := by
  unfold addChild
  cases cand with
  | none => exact .inl rfl
  | some p =>
    simp only []
    split
    · exact .inl rfl
    · split
      · rename_i h; exact .inr ⟨p, rfl, by simpa using h, rfl⟩
      · exact .inl rfl

theorem ok_addChild {k : Nat} {s : S} (rp : List (Nat × Info)) (l : Info) {cand : Option Nat}
    (h : Ok k s.parents s.children) (hcand : ∀ p, cand = some p → p < k) :
    Ok (k + 1) (addChild rp (newLine s k) k l cand).parents (addChild rp (newLine s k) k l cand).children := by
  have h1 : Ok (k + 1) (newLine s k).parents (newLine s k).children := ok_newLine h
  rcases addChild_cases rp (newLine s k) k l cand with e | ⟨p, hp, hroot, e⟩
  · rw [e]; exact h1
  · rw [e]
    exact ok_append h1 (hcand p hp) hroot

theorem step_fst (st : St) (s : S) (i : Nat) (l : Info) : (TreeStored.step st s i l).1 = (Tree.step st i l).1 := rfl

theorem ok_linkLoop {st : St} {s : S} {i : Nat} (ls : List Info) (hst : StOk st i) (h : Ok i s.parents s.children) :
    Ok (i + ls.length) (TreeStored.linkLoop st s i ls).parents (TreeStored.linkLoop st s i ls).children := by
  induction ls generalizing st s i with
  | nil => exact h
  | cons l ls ih =>
    simp only [TreeStored.linkLoop, List.length_cons]
    have hm := maintain_ok hst l
    have hb := build_ok (rp := st.revPre) (cp := maintain st.cache st.mx l) l hst.2 hm.1 hm.2
    have h1 : Ok (i + 1) (TreeStored.step st s i l).2.parents (TreeStored.step st s i l).2.children :=
      ok_addChild st.revPre l h hb.2
    have hst' : StOk (TreeStored.step st s i l).1 (i + 1) := by rw [step_fst]; exact (step_ok hst l).1
    have := ih hst' h1
    rw [show i + (ls.length + 1) = i + 1 + ls.length by omega]
    exact this

/-! ### the walks -/

/-- `k` lines, and the stored links of all of them satisfy `Ok` -/
def Good (k : Nat) (s : S) : Prop := s.texts.length = k ∧ Ok k s.parents s.children

theorem good_setKeep {k : Nat} {s : S} (h : Good k s) (i : Nat) : Good k (TreeStored.setKeep s i) := h

theorem good_reparent {k : Nat} {s : S} (h : Good k s) {p c : Nat} (hc : c < k) (hpc : p < c) :
    Good k (TreeStored.reparent s p c) := ⟨h.1, ok_reparent h.2 hc hpc⟩

theorem good_bannerWalk {k : Nat} (d : Char) (p : Nat) (idx : Nat) (rest : List Str) {s : S}
    (h : Good k s) (hp : p < idx) (hidx : rest ≠ [] → idx + rest.length ≤ k) :
    Good k (TreeStored.bannerWalk d p idx rest s) := by
  induction rest generalizing idx s with
  | nil => exact h
  | cons txt rest ih =>
    have hlt : idx < k := by have := hidx (by simp); simp at this; omega
    simp only [TreeStored.bannerWalk]
    split
    · exact good_reparent h hlt hp
    · refine ih (idx + 1) (good_setKeep (good_reparent h hlt hp) idx) (by omega) ?_
      intro _
      have := hidx (by simp); simp at this; omega

theorem good_markBanner {k : Nat} {s : S} (h : Good k s) (p : Nat) (txt : Str) :
    Good k (TreeStored.markBanner s p txt) := by
  unfold TreeStored.markBanner
  cases bannerDelim txt with
  | none => exact good_setKeep h p
  | some d =>
    simp only []
    split
    · exact good_setKeep h p
    · refine good_bannerWalk d p (p + 1) _ (good_setKeep h p) (by omega) ?_
      intro hne
      have hl : (TreeStored.setKeep s p).texts.length = k := h.1
      have hpos : 0 < ((TreeStored.setKeep s p).texts.drop (p + 1)).length := List.length_pos_iff.mpr hne
      rw [List.length_drop] at hpos ⊢
      omega

theorem good_markBannersFrom {k : Nat} (i : Nat) (l : List Str) {s : S} (h : Good k s) :
    Good k (TreeStored.markBannersFrom i l s) := by
  induction l generalizing i s with
  | nil => exact h
  | cons txt rest ih =>
    simp only [TreeStored.markBannersFrom]
    apply ih
    split
    · exact good_markBanner h i txt
    · exact h

theorem good_macroWalk {k : Nat} (p : Nat) (idx : Nat) (rest : List Str) {s : S}
    (h : Good k s) (hp : p < idx) (hidx : rest ≠ [] → idx + rest.length ≤ k) :
    Good k (TreeStored.macroWalk p idx rest s) := by
  induction rest generalizing idx s with
  | nil => exact h
  | cons txt rest ih =>
    have hlt : idx < k := by have := hidx (by simp); simp at this; omega
    simp only [TreeStored.macroWalk]
    have h1 : Good k (TreeStored.reparent (TreeStored.setKeep s idx) p idx) :=
      good_reparent (good_setKeep h idx) hlt hp
    split
    · exact h1
    · refine ih (idx + 1) h1 (by omega) ?_
      intro _
      have := hidx (by simp); simp at this; omega

theorem good_markMacrosFrom {k : Nat} (i : Nat) (l : List Str) {s : S} (h : Good k s) :
    Good k (TreeStored.markMacrosFrom i l s) := by
  induction l generalizing i s with
  | nil => exact h
  | cons txt rest ih =>
    simp only [TreeStored.markMacrosFrom]
    apply ih
    split
    · refine good_macroWalk i (i + 1) _ (good_setKeep h i) (by omega) ?_
      intro hne
      have hl : s.texts.length = k := h.1
      have hpos : 0 < (s.texts.drop (i + 1)).length := List.length_pos_iff.mpr hne
      rw [List.length_drop] at hpos ⊢
      omega
    · exact h

theorem good_linkByIndent (cfg : Cfg) (ls : List Str) : Good ls.length (TreeStored.linkByIndent cfg ls) := by
  constructor
  · have := congrArg (fun t => t.texts.length) (linkByIndent_toT cfg ls)
    simpa using this
  · have := ok_linkLoop (st := St.init)
      (s := { texts := ls, parents := [], keep := ls.map (fun _ => false), children := [] }) (i := 0)
      (ls.map (info cfg)) (by simp [StOk, St.init]) ok_nil
    simpa [TreeStored.linkByIndent] using this

theorem good_link (cfg : Cfg) (ls : List Str) : Good ls.length (TreeStored.link cfg ls) := by
  unfold TreeStored.link TreeStored.markMacros TreeStored.markBanners
  have h1 := good_markBannersFrom 0 (TreeStored.linkByIndent cfg ls).texts (good_linkByIndent cfg ls)
  split
  · exact good_markMacrosFrom 0 _ h1
  · exact h1

/-- the invariant for a finished state, whatever its number of lines -/
def GoodS (s : S) : Prop := Good s.texts.length s

theorem goodS_link (cfg : Cfg) (ls : List Str) : GoodS (TreeStored.link cfg ls) := by
  have h := good_link cfg ls
  unfold GoodS; rw [h.1]; exact h

theorem goodS_bootstrapFuel (cfg : Cfg) (fuel : Nat) (ls : List Str) : GoodS (TreeStored.bootstrapFuel cfg fuel ls) := by
  induction fuel generalizing ls with
  | zero => exact goodS_link cfg ls
  | succ fuel ih =>
    simp only [TreeStored.bootstrapFuel]
    split
    · split
      · exact ih _
      · exact goodS_link cfg ls
    · exact goodS_link cfg ls

theorem goodS_bootstrap (cfg : Cfg) (ls : List Str) : GoodS (TreeStored.bootstrap cfg ls) :=
  goodS_bootstrapFuel cfg _ ls

theorem goodS_parse (cfg : Cfg) (ls : List Str) : GoodS (TreeStored.parse cfg ls) :=
  goodS_bootstrap cfg _

/-! ## part C: stored = derived -/

/-- under the invariant the stored list of EVERY index is the derived child list -/
theorem stored_eq_children {s : S} (h : GoodS s) (q : Nat) : s.stored q = Tree.children s.toT q := by
  obtain ⟨_, h1, h2, h3, h4⟩ := h
  by_cases hq : q < s.texts.length
  · apply sorted_ext (h4 q hq).1 (children_sorted _ _)
    intro j
    rw [(h4 q hq).2, mem_children]
    rfl
  · have hs : s.stored q = [] := by
      simp [S.stored, List.getD_eq_getElem?_getD, List.getElem?_eq_none (by omega : s.children.length ≤ q)]
    rw [hs]
    symm
    rw [Tree.children, List.filter_eq_nil_iff]
    intro j hj
    have hj' : j < s.texts.length := by simpa [T.size] using hj
    have : s.parents.getD j j ≤ j := Ok.getD_le ⟨h1, h2, h3, h4⟩ j
    simp only [parentOf, Bool.and_eq_true, bne_iff_ne, beq_iff_eq, not_and]
    intro _ ; omega

/-- the whole table of stored lists is the table of derived lists -/
theorem children_eq_map {s : S} (h : GoodS s) :
    s.children = (List.range s.toT.size).map (Tree.children s.toT) := by
  apply List.ext_getElem
  · simp [T.size, h.2.2.1]
  · intro q h1 h2
    have := stored_eq_children h q
    simp only [S.stored, List.getD_eq_getElem?_getD, List.getElem?_eq_getElem h1, Option.getD_some] at this
    simp [this]

/-! ## all stored lists together -/

theorem sum_indicator (a v n : Nat) :
    ((List.range n).map (fun i => if i = a then v else 0)).sum = if a < n then v else 0 := by
  induction n with
  | zero => simp
  | succ n ih =>
    rw [List.range_succ, List.map_append, List.sum_append, ih]
    by_cases h1 : a < n
    · have : ¬ n = a := by omega
      have h3 : a < n + 1 := by omega
      simp [h1, this, h3]
    · by_cases h2 : n = a
      · subst h2; simp
      · have : ¬ a < n + 1 := by omega
        simp [h1, h2, this]

/-- over ALL stored lists together a line occurs once if it has a parent, otherwise never -/
theorem flatten_count {s : S} (h : GoodS s) (j : Nat) :
    s.children.flatten.count j = if j < s.toT.size ∧ parentOf s.toT j ≠ j then 1 else 0 := by
  have hle : parentOf s.toT j ≤ j := Ok.getD_le h.2 j
  rw [children_eq_map h, List.count_flatten, List.map_map]
  have : (List.count j ∘ Tree.children s.toT) =
      fun i => if i = parentOf s.toT j then (if j < s.toT.size ∧ parentOf s.toT j ≠ j then 1 else 0) else 0 := by
    funext i
    simp only [Function.comp, Tree.children_count]
    by_cases hi : i = parentOf s.toT j
    · subst hi
      have : (j ≠ parentOf s.toT j) = (parentOf s.toT j ≠ j) := propext ⟨fun a e => a e.symm, fun a e => a e.symm⟩
      simp [this]
    · have : ¬ (j < s.toT.size ∧ parentOf s.toT j = i ∧ j ≠ i) := fun e => hi e.2.1.symm
      simp [hi, this]
  rw [this, sum_indicator]
  by_cases hc : j < s.toT.size ∧ parentOf s.toT j ≠ j
  · have : parentOf s.toT j < s.toT.size := by omega
    simp [this]
  · simp [hc]

end Ccp.TreeStored
