import Ccp.Proofs.Diff
import Ccp.Model.DiffCli
/-! helper lemmas about `Ccp.Model.DiffCli` for `Ccp.Props.C10` -/
namespace Ccp.Diff
open Ccp.Py

theorem normalise_str_ok (fs : Str → Option Str) (s : Str) : ∃ t, normalise fs (.str s) = .ok t := by
  simp only [normalise]
  split
  · cases fs s <;> exact ⟨_, rfl⟩
  · exact ⟨_, rfl⟩

theorem init_str_swap (fs : Str → Option Str) (a b syn : Str) :
    (init fs (.str b) (.str a) syn) = (init fs (.str a) (.str b) syn).map (fun c => (c.2, c.1)) := by
  obtain ⟨ta, ha⟩ := normalise_str_ok fs a
  obtain ⟨tb, hb⟩ := normalise_str_ok fs b
  simp only [init, ha, hb, bind, Except.bind]
  split <;> rfl

end Ccp.Diff
