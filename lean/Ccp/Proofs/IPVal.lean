import Ccp.Model.IPVal
/-!
Helper lemmas for C12 / C13 (core Lean only).
-/
namespace Ccp.IPVal

/-- what the theorems need to know about the family constants (checked for `v4`, `v6` by `decide`
over the generated tables) -/
structure Fam.Ok (f : Fam) : Prop where
  maxInt_eq : f.maxInt = 2 ^ f.w - 1
  nhC_eq : f.nhC = f.w
  nhB_eq : f.nhB + 1 = f.w
  nhA_eq : f.nhA + 2 = f.w

theorem v4_ok : v4.Ok := ⟨by decide, by decide, by decide, by decide⟩
theorem v6_ok : v6.Ok := ⟨by decide, by decide, by decide, by decide⟩

/-- the class invariant: address and prefix length in range, `network_object` is the network of
`ip_object` -/
structure Valid (f : Fam) (x : Obj) : Prop where
  ip_lt : x.ip < 2 ^ f.w
  len_le : x.len ≤ f.w
  net_eq : x.net = netOf f x.ip x.len

instance (f : Fam) (x : Obj) : Decidable (Valid f x) :=
  if h : x.ip < 2 ^ f.w ∧ x.len ≤ f.w ∧ x.net = netOf f x.ip x.len
  then isTrue ⟨h.1, h.2.1, h.2.2⟩ else isFalse (fun v => h ⟨v.1, v.2, v.3⟩)

/-- decidable equality of results, for the `decide`d examples -/
instance {α : Type} [DecidableEq α] : DecidableEq (Except Err α) := fun a b =>
  match a, b with
  | .ok x, .ok y => if h : x = y then isTrue (by rw [h]) else isFalse (fun e => h (by cases e; rfl))
  | .error x, .error y => if h : x = y then isTrue (by rw [h]) else isFalse (fun e => h (by cases e; rfl))
  | .ok _, .error _ => isFalse (fun e => by cases e)
  | .error _, .ok _ => isFalse (fun e => by cases e)

/-- number of host bits -/
def hb (f : Fam) (x : Obj) : Nat := f.w - x.len

/-! ### bit masks ↔ division -/

theorem testBit_div_mul (a h i : Nat) :
    (a / 2 ^ h * 2 ^ h).testBit i = (decide (h ≤ i) && a.testBit i) := by
  rw [Nat.testBit_mul_two_pow]
  by_cases hi : h ≤ i
  · simp [hi, Nat.testBit_div_two_pow, Nat.sub_add_cancel hi]
  · simp [hi]

/-- `ip & (ALL_ONES ^ (ALL_ONES >> len))` clears the `w - len` low bits -/
theorem netOf_eq (f : Fam) (ip len : Nat) (hip : ip < 2 ^ f.w) (hl : len ≤ f.w) :
    netOf f ip len = ip / 2 ^ (f.w - len) * 2 ^ (f.w - len) := by
  apply Nat.eq_of_testBit_eq
  intro i
  rw [testBit_div_mul]
  unfold netOf netmask allOnes
  rw [Nat.testBit_and, Nat.testBit_xor, Nat.testBit_shiftRight, Nat.testBit_two_pow_sub_one,
    Nat.testBit_two_pow_sub_one]
  by_cases hi : i < f.w
  · by_cases h2 : f.w - len ≤ i
    · have : ¬ (len + i < f.w) := by omega
      simp [hi, h2, this]
    · have : (len + i < f.w) := by omega
      simp [hi, h2, this]
  · have : ip.testBit i = false :=
      Nat.testBit_lt_two_pow (Nat.lt_of_lt_of_le hip (Nat.pow_le_pow_right (by decide) (by omega)))
    simp [this]

theorem Valid.net_div {f : Fam} {x : Obj} (v : Valid f x) :
    x.net = x.ip / 2 ^ hb f x * 2 ^ hb f x := by
  rw [v.net_eq, netOf_eq f _ _ v.ip_lt v.len_le]; rfl

theorem valid_ofIpLen (f : Fam) (ip len : Nat) (hip : ip < 2 ^ f.w) (hl : len ≤ f.w) :
    Valid f (ofIpLen f ip len) := ⟨hip, hl, rfl⟩

/-! ### block arithmetic (from notes/spikes/SubnetContainment.lean) -/

theorem lt_net_add (x h : Nat) : x < x / 2 ^ h * 2 ^ h + 2 ^ h := by
  have hQ : 0 < 2 ^ h := Nat.two_pow_pos h
  have h1 := Nat.div_add_mod x (2 ^ h)
  have hm := Nat.mod_lt x hQ
  rw [Nat.mul_comm] at h1; omega

theorem net_le (x h : Nat) : x / 2 ^ h * 2 ^ h ≤ x := Nat.div_mul_le_self x (2 ^ h)

theorem net_dvd (a p q : Nat) (hqp : q ≤ p) : ∃ k, a / 2 ^ p * 2 ^ p = k * 2 ^ q := by
  refine ⟨a / 2 ^ p * 2 ^ (p - q), ?_⟩
  rw [Nat.mul_assoc, ← Nat.pow_add, Nat.sub_add_cancel hqp]

/-- the arithmetic heart of containment: comparing the two aligned blocks is the same as comparing
the leading bits -/
theorem contains_core (y p x q : Nat) :
    ((q ≤ p ∧ y / 2 ^ p * 2 ^ p ≤ x / 2 ^ q * 2 ^ q) ∧
      x / 2 ^ q * 2 ^ q + (2 ^ q - 1) ≤ y / 2 ^ p * 2 ^ p + (2 ^ p - 1)) ↔
    (q ≤ p ∧ x / 2 ^ p = y / 2 ^ p) := by
  have hP : 0 < 2 ^ p := Nat.two_pow_pos p
  have hQ : 0 < 2 ^ q := Nat.two_pow_pos q
  have hx1 := net_le x q
  have hx2 := lt_net_add x q
  constructor
  · rintro ⟨⟨hqp, h1⟩, h2⟩
    refine ⟨hqp, ?_⟩
    have hlo : y / 2 ^ p * 2 ^ p ≤ x := by omega
    have hhi : x < y / 2 ^ p * 2 ^ p + 2 ^ p := by omega
    apply Nat.div_eq_of_lt_le
    · exact hlo
    · rw [Nat.add_mul, Nat.one_mul]; exact hhi
  · rintro ⟨hqp, heq⟩
    have hlo : y / 2 ^ p * 2 ^ p ≤ x := by rw [← heq]; exact net_le x p
    have hhi : x < y / 2 ^ p * 2 ^ p + 2 ^ p := by rw [← heq]; exact lt_net_add x p
    obtain ⟨k, hk⟩ := net_dvd y p q hqp
    obtain ⟨m, hm⟩ : ∃ m, y / 2 ^ p * 2 ^ p + 2 ^ p = m * 2 ^ q := by
      refine ⟨k + 2 ^ (p - q), ?_⟩
      rw [Nat.add_mul, ← hk, ← Nat.pow_add, Nat.sub_add_cancel hqp]
    refine ⟨⟨hqp, ?_⟩, ?_⟩
    · rw [hk] at hlo ⊢
      have : k ≤ x / 2 ^ q := (Nat.le_div_iff_mul_le hQ).mpr hlo
      exact Nat.mul_le_mul_right _ this
    · rw [hm] at hhi
      have hlt : x / 2 ^ q < m := (Nat.div_lt_iff_lt_mul hQ).mpr hhi
      have : (x / 2 ^ q + 1) * 2 ^ q ≤ m * 2 ^ q := Nat.mul_le_mul_right _ hlt
      rw [Nat.add_mul, Nat.one_mul] at this
      omega

/-! ### membership -/

/-- spec: the leading `y.len` bits of `x.ip` and `y.ip` agree and `y`'s prefix is not longer -/
def PrefixOf (f : Fam) (y x : Obj) : Prop :=
  y.len ≤ x.len ∧ x.ip >>> (f.w - y.len) = y.ip >>> (f.w - y.len)

/-- spec: `a` is an address of `x`'s network -/
def InNet (f : Fam) (x : Obj) (a : Nat) : Prop := x.net ≤ a ∧ a ≤ asDecimalBroadcast f x

/-- spec: interval inclusion -/
def IntervalIn (f : Fam) (y x : Obj) : Prop :=
  y.net ≤ x.net ∧ asDecimalBroadcast f x ≤ asDecimalBroadcast f y

theorem interval_iff_prefix (f : Fam) (y x : Obj) (vy : Valid f y) (vx : Valid f x) :
    (y.len ≤ x.len ∧ IntervalIn f y x) ↔ PrefixOf f y x := by
  have hy := vy.net_div
  have hx := vx.net_div
  have hyl := vy.len_le
  have hxl := vx.len_le
  have core := contains_core y.ip (hb f y) x.ip (hb f x)
  unfold IntervalIn PrefixOf asDecimalBroadcast
  rw [Nat.shiftRight_eq_div_pow, Nat.shiftRight_eq_div_pow, hy, hx]
  unfold hb at *
  constructor
  · rintro ⟨h1, h2, h3⟩
    exact ⟨h1, (core.mp ⟨⟨by omega, h2⟩, h3⟩).2⟩
  · rintro ⟨h1, h2⟩
    have := core.mpr ⟨by omega, h2⟩
    exact ⟨h1, this.1.2, this.2⟩

theorem prefix_len_zero (f : Fam) (y x : Obj) (vy : Valid f y) (vx : Valid f x) (h0 : y.len = 0) :
    PrefixOf f y x := by
  refine ⟨by omega, ?_⟩
  rw [h0, Nat.sub_zero, Nat.shiftRight_eq_div_pow, Nat.shiftRight_eq_div_pow,
    Nat.div_eq_of_lt vx.ip_lt, Nat.div_eq_of_lt vy.ip_lt]

theorem contains4_iff_prefix (f : Fam) (y x : Obj) (vy : Valid f y) (vx : Valid f x) :
    contains4 f y x = true ↔ PrefixOf f y x := by
  unfold contains4
  split
  · rename_i h0; simp [prefix_len_zero f y x vy vx h0]
  · split
    · rename_i h1; simp only [Bool.false_eq_true, false_iff]; intro h; exact absurd h.1 (by omega)
    · rw [← interval_iff_prefix f y x vy vx]
      simp only [Bool.and_eq_true, decide_eq_true_eq]
      simp only [asDecimalNetwork, IntervalIn, ge_iff_le]
      constructor
      · rintro ⟨⟨a, b⟩, c⟩; exact ⟨c, a, b⟩
      · rintro ⟨c, a, b⟩; exact ⟨⟨a, b⟩, c⟩

theorem contains6_iff_prefix (f : Fam) (y x : Obj) (vy : Valid f y) (vx : Valid f x) :
    contains6 f y x = true ↔ PrefixOf f y x := by
  unfold contains6
  split
  · rename_i h0; simp [prefix_len_zero f y x vy vx h0]
  · split
    · rename_i h1; simp only [Bool.false_eq_true, false_iff]; intro h; exact absurd h.1 (by omega)
    · rename_i h1
      rw [← interval_iff_prefix f y x vy vx]
      simp only [Bool.and_eq_true, decide_eq_true_eq]
      simp only [asDecimalNetwork, IntervalIn, ge_iff_le]
      constructor
      · rintro ⟨a, b⟩; exact ⟨by omega, a, b⟩
      · rintro ⟨c, a, b⟩; exact ⟨a, b⟩

/-- the two families compute the same relation -/
theorem contains6_eq_contains4 (f : Fam) (y x : Obj) (vy : Valid f y) (vx : Valid f x) :
    contains6 f y x = contains4 f y x := by
  rw [Bool.eq_iff_iff, contains4_iff_prefix f y x vy vx, contains6_iff_prefix f y x vy vx]

theorem net_le_bcast (f : Fam) (x : Obj) : x.net ≤ asDecimalBroadcast f x := by
  unfold asDecimalBroadcast; omega

/-- inclusion of the address sets is inclusion of the intervals -/
theorem subset_iff_interval (f : Fam) (y x : Obj) :
    (∀ a, InNet f x a → InNet f y a) ↔ IntervalIn f y x := by
  unfold InNet IntervalIn
  have hx := net_le_bcast f x
  constructor
  · intro h
    have h1 := h x.net ⟨Nat.le_refl _, hx⟩
    have h2 := h (asDecimalBroadcast f x) ⟨hx, Nat.le_refl _⟩
    exact ⟨h1.1, h2.2⟩
  · rintro ⟨h1, h2⟩ a ⟨h3, h4⟩; exact ⟨by omega, by omega⟩

/-- the addresses of a network are exactly those sharing its leading bits -/
theorem inNet_iff (f : Fam) (x : Obj) (vx : Valid f x) (a : Nat) :
    InNet f x a ↔ a >>> (f.w - x.len) = x.ip >>> (f.w - x.len) := by
  unfold InNet asDecimalBroadcast
  rw [vx.net_div, Nat.shiftRight_eq_div_pow, Nat.shiftRight_eq_div_pow]
  unfold hb
  have hP : 0 < 2 ^ (f.w - x.len) := Nat.two_pow_pos _
  constructor
  · rintro ⟨h1, h2⟩
    apply Nat.div_eq_of_lt_le h1
    rw [Nat.add_mul, Nat.one_mul]; omega
  · intro h
    rw [← h]
    have := net_le a (f.w - x.len)
    have := lt_net_add a (f.w - x.len)
    constructor <;> omega

/-! ### order and equality -/

/-- the lexicographic order on `(network, prefix length, address)` -/
def LexLt (x y : Obj) : Prop :=
  x.net < y.net ∨ (x.net = y.net ∧ (x.len < y.len ∨ (x.len = y.len ∧ x.ip < y.ip)))

theorem lt_iff_lex (x y : Obj) : lt x y = true ↔ LexLt x y := by
  unfold lt LexLt
  split
  · rename_i h; simp only [decide_eq_true_eq]; omega
  · split
    · rename_i h1 h2; simp only [decide_eq_true_eq]; omega
    · rename_i h1 h2; simp only [decide_eq_true_eq]; omega

theorem gt_eq_lt_flip (x y : Obj) : gt x y = lt y x := by
  unfold gt lt
  by_cases h1 : x.net = y.net <;> by_cases h2 : x.len = y.len <;>
    simp [h1, h2, eq_comm, gt_iff_lt] <;> (try omega)

theorem eq_iff_fields (x y : Obj) : eq x y = true ↔ x.ip = y.ip ∧ x.len = y.len := by
  unfold eq; split <;> simp_all

theorem eq_iff_same (f : Fam) (x y : Obj) (vx : Valid f x) (vy : Valid f y) :
    eq x y = true ↔ x = y := by
  rw [eq_iff_fields]
  constructor
  · rintro ⟨h1, h2⟩
    have := vx.net_eq; have := vy.net_eq
    cases x; cases y; simp_all
  · rintro rfl; exact ⟨rfl, rfl⟩

theorem lex_irrefl (x : Obj) : ¬ LexLt x x := by unfold LexLt; omega
theorem lex_asymm (x y : Obj) : LexLt x y → ¬ LexLt y x := by unfold LexLt; omega
theorem lex_trans (x y z : Obj) : LexLt x y → LexLt y z → LexLt x z := by unfold LexLt; omega
theorem lex_negtrans (x y z : Obj) : LexLt x z → LexLt x y ∨ LexLt y z := by unfold LexLt; omega
theorem lex_tri (x y : Obj) :
    LexLt x y ∨ (x.net = y.net ∧ x.len = y.len ∧ x.ip = y.ip) ∨ LexLt y x := by unfold LexLt; omega


/-! ### setters and arithmetic -/

theorem setLen_ok (f : Fam) (x : Obj) (l : Nat) (hl : l ≤ f.w) :
    setLen f x (l : Int) = .ok (ofIpLen f x.ip l) := by
  unfold setLen ofIpLen
  have : (0:Int) ≤ (l:Int) ∧ (l:Int) ≤ (f.w : Int) := ⟨by omega, by omega⟩
  simp [this]

theorem setLen_spec (f : Fam) (x : Obj) (arg : Int) :
    (0 ≤ arg ∧ arg ≤ (f.w : Int) → setLen f x arg = .ok (ofIpLen f x.ip arg.toNat)) ∧
    (¬ (0 ≤ arg ∧ arg ≤ (f.w : Int)) → setLen f x arg = .error .netmaskValueError) := by
  unfold setLen ofIpLen
  constructor <;> intro h <;> simp [h]

theorem ofInt_ok (f : Fam) (n : Nat) (hn : n ≤ f.maxInt) :
    ofInt f (n : Int) = .ok (ofIpLen f n f.w) := by
  unfold ofInt
  have : (0:Int) ≤ (n:Int) ∧ (n:Int) ≤ (f.maxInt : Int) := ⟨by omega, by omega⟩
  simp [this]

/-- `x + val` succeeds exactly when the sum is inside the address space, and then it is the
object with that address and the same prefix length -/
theorem add_spec (f : Fam) (x : Obj) (val : Int) (hl : x.len ≤ f.w) :
    (0 ≤ (x.ip : Int) + val ∧ (x.ip : Int) + val ≤ (f.maxInt : Int) →
      add f x val = .ok (ofIpLen f ((x.ip : Int) + val).toNat x.len)) ∧
    (¬ (0 ≤ (x.ip : Int) + val ∧ (x.ip : Int) + val ≤ (f.maxInt : Int)) →
      add f x val = .error .requirementFailure) := by
  constructor
  · rintro ⟨h0, h1⟩
    unfold add asDecimal
    have e : (x.ip : Int) + val = (((x.ip : Int) + val).toNat : Int) := by omega
    simp only [show ¬ ((x.ip : Int) + val > (f.maxInt : Int)) by omega,
      show ¬ ((x.ip : Int) + val < 0) by omega, if_false]
    rw [e, ofInt_ok f _ (by omega)]
    simp only [bind, Except.bind]
    rw [setLen_ok f _ _ hl]; rfl
  · intro h
    unfold add asDecimal
    by_cases h1 : (x.ip : Int) + val > (f.maxInt : Int)
    · simp [h1]
    · have h2 : (x.ip : Int) + val < 0 := by omega
      simp [h1, h2]

theorem sub_eq_add_neg (f : Fam) (x : Obj) (val : Int) : sub f x val = add f x (-val) := by
  unfold sub add
  simp only [Int.sub_eq_add_neg]



theorem Valid.ip_le_maxInt {f : Fam} (ok : f.Ok) {x : Obj} (v : Valid f x) : x.ip ≤ f.maxInt := by
  have := v.ip_lt; have := ok.maxInt_eq; omega

theorem Valid.eq_ofIpLen {f : Fam} {x : Obj} (v : Valid f x) : ofIpLen f x.ip x.len = x := by
  cases x; simp only [ofIpLen, Obj.mk.injEq, true_and, and_true]; exact v.net_eq.symm

theorem add_sub_cancel' (f : Fam) (ok : f.Ok) (x y : Obj) (n : Int) (vx : Valid f x)
    (h : add f x n = .ok y) : sub f y n = .ok x ∧ y.len = x.len ∧ Valid f y := by
  have sp := add_spec f x n vx.len_le
  by_cases hr : 0 ≤ (x.ip : Int) + n ∧ (x.ip : Int) + n ≤ (f.maxInt : Int)
  · rw [sp.1 hr] at h
    cases h
    have hm := ok.maxInt_eq
    have hp : 0 < 2 ^ f.w := Nat.two_pow_pos _
    refine ⟨?_, rfl, valid_ofIpLen f _ _ (by omega) vx.len_le⟩
    rw [sub_eq_add_neg]
    have sp2 := add_spec f (ofIpLen f ((x.ip : Int) + n).toNat x.len) (-n) vx.len_le
    have hip := vx.ip_le_maxInt ok
    have e : (((ofIpLen f ((x.ip : Int) + n).toNat x.len).ip : Nat) : Int) + -n = (x.ip : Int) := by
      simp only [ofIpLen]; omega
    rw [e] at sp2
    rw [sp2.1 ⟨by omega, by omega⟩]
    simp only [Int.toNat_natCast]
    exact congrArg Except.ok vx.eq_ofIpLen
  · rw [sp.2 hr] at h; cases h

/-- the whole block of a valid object is inside the address space -/
theorem Valid.block_le {f : Fam} {x : Obj} (v : Valid f x) : x.net + 2 ^ hb f x ≤ 2 ^ f.w := by
  rw [v.net_div]
  have hl := v.len_le
  have hw : 2 ^ f.w = 2 ^ x.len * 2 ^ hb f x := by
    unfold hb; rw [← Nat.pow_add]; congr 1; omega
  have hP : 0 < 2 ^ hb f x := Nat.two_pow_pos _
  have : x.ip / 2 ^ hb f x < 2 ^ x.len := by
    rw [Nat.div_lt_iff_lt_mul hP, ← hw]; exact v.ip_lt
  have : (x.ip / 2 ^ hb f x + 1) * 2 ^ hb f x ≤ 2 ^ x.len * 2 ^ hb f x := Nat.mul_le_mul_right _ this
  rw [Nat.add_mul, Nat.one_mul] at this
  omega

theorem Valid.ip_in_block {f : Fam} {x : Obj} (v : Valid f x) :
    x.net ≤ x.ip ∧ x.ip < x.net + 2 ^ hb f x := by
  rw [v.net_div]; exact ⟨net_le _ _, lt_net_add _ _⟩

/-- replacing the address by another one of the same block keeps the invariant -/
theorem valid_same_block (f : Fam) (x : Obj) (v : Valid f x) (k : Nat) (hk : k < 2 ^ hb f x) :
    Valid f { x with ip := x.net + k } := by
  have hb1 := v.block_le
  refine ⟨by simp only; omega, v.len_le, ?_⟩
  simp only
  rw [netOf_eq f _ _ (by omega) v.len_le]
  have hP : 0 < 2 ^ hb f x := Nat.two_pow_pos _
  obtain ⟨m, hm⟩ : ∃ m, x.net = m * 2 ^ hb f x := ⟨_, v.net_div⟩
  show x.net = (x.net + k) / 2 ^ hb f x * 2 ^ hb f x
  rw [hm, Nat.mul_comm m, Nat.mul_add_div hP, Nat.div_eq_of_lt hk, Nat.add_zero, Nat.mul_comm]



theorem bcast_eq (f : Fam) (x : Obj) : asDecimalBroadcast f x = x.net + (2 ^ hb f x - 1) := rfl

/-- `network_offset = k` with `0 ≤ k`: accepted exactly up to the last address of the block;
only the address changes -/
theorem setOffset_nonneg (f : Fam) (x : Obj) (v : Valid f x) (k : Nat) :
    (k < 2 ^ hb f x → setOffset f x (k : Int) = .ok { x with ip := x.net + k }) ∧
    (¬ k < 2 ^ hb f x → setOffset f x (k : Int) = .error .addressValueError) := by
  have hP : 0 < 2 ^ hb f x := Nat.two_pow_pos _
  have hb1 := v.block_le
  have hw : 0 < 2 ^ f.w := Nat.two_pow_pos _
  constructor
  · intro hk
    unfold setOffset addressOfInt allOnes
    rw [bcast_eq]
    simp only [asDecimalNetwork]
    have c1 : (k : Int) ≤ ((x.net + (2 ^ hb f x - 1) : Nat) : Int) - (x.net : Int) := by omega
    have c2 : 0 ≤ (x.net : Int) + (k : Int) ∧ (x.net : Int) + (k : Int) ≤ ((2 ^ f.w - 1 : Nat) : Int) := by
      omega
    simp only [c1, c2, if_true, and_self, bind, Except.bind]
    congr 2
  · intro hk
    unfold setOffset
    rw [bcast_eq]
    simp only [asDecimalNetwork]
    have c1 : ¬ ((k : Int) ≤ ((x.net + (2 ^ hb f x - 1) : Nat) : Int) - (x.net : Int)) := by omega
    simp only [c1, if_false]

/-- as written, a negative offset is accepted whenever `net + k` is still a legal address -/
theorem setOffset_neg (f : Fam) (x : Obj) (k : Int) (hk : k < 0) :
    (0 ≤ (x.net : Int) + k → x.net ≤ allOnes f →
      setOffset f x k = .ok { x with ip := ((x.net : Int) + k).toNat }) ∧
    ((x.net : Int) + k < 0 → setOffset f x k = .error .addressValueError) := by
  have c1 : k ≤ ((asDecimalBroadcast f x : Nat) : Int) - (asDecimalNetwork x : Int) := by
    rw [bcast_eq]; simp only [asDecimalNetwork]; omega
  constructor
  · intro h0 h1
    unfold setOffset addressOfInt
    simp only [asDecimalNetwork] at c1 ⊢
    have c2 : 0 ≤ (x.net : Int) + k ∧ (x.net : Int) + k ≤ (allOnes f : Int) := by omega
    simp only [c1, c2, if_true, and_self, bind, Except.bind]
  · intro h0
    unfold setOffset addressOfInt
    simp only [asDecimalNetwork] at c1 ⊢
    have c2 : ¬ (0 ≤ (x.net : Int) + k ∧ (x.net : Int) + k ≤ (allOnes f : Int)) := by omega
    simp only [c1, c2, if_true, if_false, bind, Except.bind]

theorem numhosts_spec (f : Fam) (ok : f.Ok) (x : Obj) (v : Valid f x) :
    numhosts f x = .ok (if x.len + 2 ≤ f.w then 2 ^ hb f x - 2 else if x.len + 1 = f.w then 2 else 1) := by
  have := ok.nhA_eq; have := ok.nhB_eq; have := ok.nhC_eq; have := v.len_le
  unfold numhosts hb
  by_cases h1 : x.len + 2 ≤ f.w
  · rw [if_pos (show x.len ≤ f.nhA by omega), if_pos h1]
  · rw [if_neg (show ¬ x.len ≤ f.nhA by omega), if_neg h1]
    by_cases h2 : x.len + 1 = f.w
    · rw [if_pos (show x.len = f.nhB by omega), if_pos h2]
    · rw [if_neg (show ¬ x.len = f.nhB by omega), if_pos (show x.len = f.nhC by omega), if_neg h2]

/-- the getter returns `ip - net`, except that it raises for the last address of a block of
four or more addresses (`offset > numhosts` with `numhosts = size - 2`) -/
theorem getOffset_spec (f : Fam) (ok : f.Ok) (x : Obj) (v : Valid f x) :
    getOffset f x =
      if x.len + 2 ≤ f.w ∧ x.ip = asDecimalBroadcast f x then .error .requirementFailure
      else .ok ((x.ip : Int) - (x.net : Int)) := by
  have hin := v.ip_in_block
  have hl := v.len_le
  unfold getOffset
  rw [numhosts_spec f ok x v, bcast_eq]
  simp only [bind, Except.bind, asDecimal, asDecimalNetwork]
  by_cases h1 : x.len + 2 ≤ f.w
  · have h4 : 4 ≤ 2 ^ hb f x := by
      have : 2 ^ 2 ≤ 2 ^ hb f x := Nat.pow_le_pow_right (by decide) (by unfold hb; omega)
      simpa using this
    by_cases h2 : x.ip = x.net + (2 ^ hb f x - 1)
    · have : (x.ip : Int) - (x.net : Int) > ((2 ^ hb f x - 2 : Nat) : Int) := by omega
      simp only [h1, if_true, this, true_and]
      simp [← h2]
    · have : ¬ ((x.ip : Int) - (x.net : Int) > ((2 ^ hb f x - 2 : Nat) : Int)) := by omega
      simp only [h1, if_true, this, if_false, true_and, h2]
  · by_cases h3 : x.len + 1 = f.w
    · have e : hb f x = 1 := by unfold hb; omega
      rw [e] at hin
      have : ¬ ((x.ip : Int) - (x.net : Int) > ((2 : Nat) : Int)) := by omega
      simp only [h1, h3, if_false, if_true, this, false_and]
    · have e : hb f x = 0 := by unfold hb; omega
      rw [e] at hin
      have : ¬ ((x.ip : Int) - (x.net : Int) > ((1 : Nat) : Int)) := by omega
      simp only [h1, h3, if_false, this, false_and]


/-! ### sorting and longest match -/

theorem lt_false_iff (x y : Obj) : lt x y = false ↔ ¬ LexLt x y := by
  rw [← lt_iff_lex]; simp

/-- `sorted` returns a permutation in which no later element is less than an earlier one -/
theorem sorted_spec (l : List Obj) :
    (sorted l).Perm l ∧ (sorted l).Pairwise (fun a b => lt b a = false) := by
  refine ⟨List.mergeSort_perm l _, ?_⟩
  have := List.pairwise_mergeSort (le := fun a b => !(lt b a))
    (fun a b c h1 h2 => by
      simp only [Bool.not_eq_eq_eq_not, Bool.not_true] at h1 h2 ⊢
      rw [lt_false_iff] at h1 h2 ⊢
      intro h; rcases lex_negtrans c b a h with h' | h'
      · exact h2 h'
      · exact h1 h')
    (fun a b => by
      simp only [Bool.or_eq_true, Bool.not_eq_eq_eq_not, Bool.not_true]
      rw [lt_false_iff, lt_false_iff]
      by_cases h : LexLt b a
      · right; exact lex_asymm b a h
      · left; exact h) l
  refine this.imp ?_
  intro a b h; simpa using h

/-- a strictly more specific prefix of the same or an inner network sorts after its container -/
theorem specific_after (f : Fam) (y x : Obj) (vy : Valid f y) (vx : Valid f x)
    (hc : PrefixOf f y x) (hl : y.len < x.len) : LexLt y x := by
  have := (interval_iff_prefix f y x vy vx).mpr hc
  unfold IntervalIn at this
  unfold LexLt
  omega

/-- two networks containing a common object are nested -/
theorem nested_of_common (f : Fam) (r r' x : Obj) (h : PrefixOf f r x) (h' : PrefixOf f r' x)
    (hl : r.len ≤ r'.len) (hr' : r'.len ≤ f.w) : PrefixOf f r r' := by
  refine ⟨hl, ?_⟩
  have h1 := h.2; have h2 := h'.2
  simp only [Nat.shiftRight_eq_div_pow] at h1 h2 ⊢
  -- drop further bits from the agreement at r'.len
  have e : f.w - r.len = (f.w - r'.len) + (r'.len - r.len) := by omega
  rw [← h1, e, Nat.pow_add, ← Nat.div_div_eq_div_mul, ← Nat.div_div_eq_div_mul, h2]

/-- the longest-match idiom of the class docstring: in a list sorted in descending order the first
route containing `x` has the longest prefix among all routes containing `x` -/
theorem longest_match_first' (f : Fam) (rt : List Obj) (x r : Obj)
    (hv : ∀ q ∈ rt, Valid f q) (vx : Valid f x)
    (hs : rt.Pairwise (fun a b => lt a b = false))
    (hf : rt.find? (fun q => contains4 f q x) = some r) :
    ∀ r' ∈ rt, contains4 f r' x = true → r'.len ≤ r.len := by
  induction rt with
  | nil => simp at hf
  | cons a t ih =>
    rw [List.pairwise_cons] at hs
    intro r' hr' hc'
    by_cases ha : contains4 f a x = true
    · simp only [List.find?_cons, ha, Option.some.injEq] at hf
      subst hf
      rcases List.mem_cons.mp hr' with rfl | hmem
      · exact Nat.le_refl _
      · apply Nat.le_of_not_lt
        intro hlt
        have va := hv a (List.mem_cons_self ..)
        have vr' := hv r' hr'
        have p1 := (contains4_iff_prefix f a x va vx).mp ha
        have p2 := (contains4_iff_prefix f r' x vr' vx).mp hc'
        have nest := nested_of_common f a r' x p1 p2 (Nat.le_of_lt hlt) vr'.len_le
        have := specific_after f a r' va vr' nest hlt
        have h2 := hs.1 r' hmem
        rw [lt_false_iff] at h2
        exact h2 this
    · have ha' : contains4 f a x = false := by simpa using ha
      simp only [List.find?_cons, ha'] at hf
      rcases List.mem_cons.mp hr' with rfl | hmem
      · exact absurd hc' ha
      · exact ih (fun q hq => hv q (List.mem_cons_of_mem _ hq)) hs.2 hf r' hmem hc'

end Ccp.IPVal
