import Ccp.Proofs.Input
import Ccp.Model.InputArgs
/-! helper lemmas about `Ccp.Model.InputArgs` (rejection side of the input forms) for `Ccp.Props.C09` -/
namespace Ccp.Input
open Ccp.Py

theorem readConfigFileN_nodesOf (fs : Path → Option Text) (p : Path) :
    readConfigFileN (nodesOf fs) p = (readConfigFile fs p).mapError Exc.ofErr := by
  unfold readConfigFileN nodesOf readConfigFile
  cases fs p <;> rfl

theorem readStrN_nodesOf (fs : Path → Option Text) (s : Str) :
    readStrN (nodesOf fs) s = (readStr fs s).mapError Exc.ofErr := by
  unfold readStrN readStr
  simp only [readConfigFileN_nodesOf]
  split
  · cases readConfigFile fs s <;> rfl
  · split <;> rfl

theorem initLinesArg_conservative (fs : Path → Option Text) (i : Input) :
    initLinesArg (nodesOf fs) (.input i) = (initLines fs i).mapError Exc.ofErr := by
  cases i with
  | none => rfl
  | list ls => rfl
  | tuple ls => rfl
  | str s =>
    simp only [initLinesArg, initLines, readConfig, readStrN_nodesOf]
    cases readStr fs s <;> rfl
  | path s =>
    simp only [initLinesArg, initLines, readConfig, readStrN_nodesOf]
    cases readStr fs s <;> rfl

theorem mapM_str (ls : List Str) : (ls.map Item.str).mapM Item.str? = some ls := by
  induction ls with
  | nil => rfl
  | cons l ls ih => simp [List.mapM_cons, Item.str?, ih]

theorem all_accepted_str (ls : List Str) : (ls.map Item.str).all Item.accepted = true := by
  simp [Item.accepted]

theorem initLinesArg_strs (fs : Path → Node) (k : Kind) (hk : k = .list ∨ k = .tuple) (ls : List Str) :
    initLinesArg fs (.coll k (ls.map .str)) = .ok ls := by
  have h1 : readColl (.coll k (ls.map .str)) = .ok (k, ls.map .str) := by
    unfold readColl
    cases ls with
    | nil => rcases hk with e | e <;> subst e <;> rfl
    | cons l ls =>
      have : elementsHaveLen (.coll k ((l :: ls).map Item.str)) = some true := by
        simp only [List.map_cons, elementsHaveLen]
        rw [← List.map_cons, all_accepted_str]
      rw [this]
      rcases hk with e | e <;> subst e <;> rfl
  simp only [initLinesArg]
  rw [h1]
  rcases hk with e | e <;> subst e <;> simp only [initColl, bind, Except.bind, mapM_str]


theorem mapM_str_inv : ∀ (items : List Item) (ls : List Str), items.mapM Item.str? = some ls → items = ls.map .str
  | [], ls, h => by simp at h; subst h; rfl
  | it :: items, ls, h => by
    cases it with
    | str s =>
      simp only [List.mapM_cons, Item.str?, Option.pure_def, Option.bind_eq_bind, Option.bind_some] at h
      cases hm : items.mapM Item.str? with
      | none => simp [hm] at h
      | some l' =>
        simp [hm] at h
        subst h
        simp [mapM_str_inv items l' hm]
    | cfgLine => simp [List.mapM_cons, Item.str?] at h
    | other => simp [List.mapM_cons, Item.str?] at h

theorem initColl_ok (k : Kind) (items : List Item) (ls : List Str) (h : initColl (k, items) = .ok ls) :
    (k = .list ∨ k = .tuple) ∧ items = ls.map .str := by
  cases k <;> simp only [initColl] at h
  · refine ⟨Or.inl rfl, ?_⟩
    cases hm : items.mapM Item.str? with
    | none => simp [hm] at h
    | some l' => simp [hm] at h; subst h; exact mapM_str_inv _ _ hm
  · refine ⟨Or.inr rfl, ?_⟩
    cases hm : items.mapM Item.str? with
    | none => simp [hm] at h
    | some l' => simp [hm] at h; subst h; exact mapM_str_inv _ _ hm
  · cases h
  · cases h

theorem readColl_ok (a : Arg) (k : Kind) (items : List Item) (h : readColl a = .ok (k, items)) :
    a = .coll k items := by
  unfold readColl at h
  split at h
  · cases h
  · split at h
    · cases h
    · cases h; rfl
    · cases h

theorem initLinesArg_coll_ok (fs : Path → Node) (k : Kind) (items : List Item) (ls : List Str)
    (h : initLinesArg fs (.coll k items) = .ok ls) : (k = .list ∨ k = .tuple) ∧ items = ls.map .str := by
  simp only [initLinesArg, bind, Except.bind] at h
  cases hr : readColl (.coll k items) with
  | error e => simp [hr] at h
  | ok v =>
    obtain ⟨k', items'⟩ := v
    have := readColl_ok _ _ _ hr
    cases this
    simp only [hr] at h
    exact initColl_ok _ _ _ h

end Ccp.Input
