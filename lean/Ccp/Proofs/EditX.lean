import Ccp.Model.EditX
import Ccp.Proofs.Edit
/-!
Helper lemmas for the extended edit alphabet `Ccp.EditX` (C07): every extended step has one
of the three shapes of a base step (nothing happens / a commit / a text change followed by
the auto-commit), so the invariants of `Ccp.Proofs.Edit` carry over.
-/
namespace Ccp.EditX
open Ccp.Py Ccp.Tree Ccp.Edit

/-- step results can be compared (used by the `decide` examples) -/
instance : DecidableEq (Except Err Unit) := fun a b =>
  match a, b with
  | .ok (), .ok () => isTrue rfl
  | .error e, .error e' =>
    if h : e = e' then isTrue (h ▸ rfl) else isFalse (fun h' => by cases h'; exact h rfl)
  | .ok _, .error _ => isFalse (fun h => by cases h)
  | .error _, .ok _ => isFalse (fun h => by cases h)

theorem liftRes_fst (r : S × Except Edit.Err Unit) : (liftRes r).1 = r.1 := rfl

theorem liftRes_ok (r : S × Except Edit.Err Unit) : (liftRes r).2 = .ok () ↔ r.2 = .ok () := by
  rcases r with ⟨s, _ | _⟩ <;> simp [liftRes]

theorem liftRes_err (r : S × Except Edit.Err Unit) (e : Edit.Err) :
    (liftRes r).2 = .error (.base e) ↔ r.2 = .error e := by
  rcases r with ⟨s, _ | _⟩ <;> simp [liftRes]

/-- shape of every extended step -/
theorem step_cases (s : S) (op : Op) :
    (step s op).1 = s ∨ (step s op).1 = commit s ∨
    ∃ its st, (step s op).1 = autoCommit { s with items := its, stale := st, dirty := true } ∧
      (st = true ∨ st = s.stale) := by
  have base : ∀ o : Edit.Op, (liftRes (Edit.step s o)).1 = s ∨ (liftRes (Edit.step s o)).1 = commit s ∨
      ∃ its st, (liftRes (Edit.step s o)).1 = autoCommit { s with items := its, stale := st, dirty := true } ∧
        (st = true ∨ st = s.stale) := by
    intro o
    rcases Edit.step_cases s o with h | h | ⟨its, st, h, hs, _⟩
    · exact .inl h
    · exact .inr (.inl h)
    · exact .inr (.inr ⟨its, st, h, hs⟩)
  cases op with
  | base o => exact base o
  | remove h => exact base _
  | deleteAny h =>
    by_cases hh : h ≥ s.tree.size
    · left; simp [step, hh]
    · cases hp : posOf s.items h with
      | none => left; simp [step, hp, hh]
      | some p => simp only [step, hp, hh, if_false]; exact base _
  | search k => exact base _
  | listInsObj after emptyRx row txt =>
    cases emptyRx with
    | true => left; simp [step]
    | false =>
      right; right
      exact ⟨insertAtMatches after (fresh txt) s.items row, s.stale, by simp [step], .inr rfl⟩
  | insertBadIndex _ => exact .inl rfl
  | insertBadValue _ => exact .inl rfl
  | listInsBadValue _ => exact .inl rfl
  | removeBadValue => exact .inl rfl

theorem step_frame (s : S) (op : Op) :
    (step s op).1.cfg = s.cfg ∧ (step s op).1.auto = s.auto ∧ (step s op).1.width = s.width := by
  rcases step_cases s op with h | h | ⟨txts, st, h, _⟩ <;> rw [h]
  · exact ⟨rfl, rfl, rfl⟩
  · exact commit_frame s
  · exact autoCommit_frame _

theorem run_frame (s : S) (ops : List Op) :
    (run s ops).cfg = s.cfg ∧ (run s ops).auto = s.auto ∧ (run s ops).width = s.width := by
  induction ops generalizing s with
  | nil => exact ⟨rfl, rfl, rfl⟩
  | cons op ops ih =>
    have h1 := ih (step s op).1
    have h2 := step_frame s op
    simp only [run]
    exact ⟨h1.1.trans h2.1, h1.2.1.trans h2.2.1, h1.2.2.trans h2.2.2⟩

theorem run_append (s : S) (ops ops' : List Op) : run s (ops ++ ops') = run (run s ops) ops' := by
  induction ops generalizing s with
  | nil => rfl
  | cons op ops ih => simp only [List.cons_append, run]; exact ih _

theorem step_fresh (s : S) (op : Op) (h : FreshInv s) : FreshInv (step s op).1 := by
  rcases step_cases s op with e | e | ⟨txts, st, e, _⟩ <;> rw [e]
  · exact h
  · exact fun _ => commit_fresh s
  · unfold autoCommit
    split
    · exact fun _ => commit_fresh _
    · intro hd; cases hd

theorem step_autoInv (s : S) (op : Op) (h : AutoInv s) : AutoInv (step s op).1 := by
  rcases step_cases s op with e | e | ⟨txts, st, e, _⟩ <;> rw [e]
  · exact h
  · exact fun _ => commit_clean s
  · unfold autoCommit
    split
    · exact fun _ => commit_clean _
    · rename_i hna; intro ha; exact absurd ha hna

theorem run_fresh (s : S) (ops : List Op) (h : FreshInv s) : FreshInv (run s ops) := by
  induction ops generalizing s with
  | nil => exact h
  | cons op ops ih => exact ih _ (step_fresh s op h)

theorem run_autoInv (s : S) (ops : List Op) (h : AutoInv s) : AutoInv (run s ops) := by
  induction ops generalizing s with
  | nil => exact h
  | cons op ops ih => exact ih _ (step_autoInv s op h)

/-- with auto-commit off staleness survives every extended operation except `commit` -/
theorem step_stale_keeps (s : S) (op : Op) (ha : s.auto = false) (hs : s.stale = true) (hop : op ≠ .base .commit) :
    (step s op).1.stale = true := by
  have base : ∀ o : Edit.Op, o ≠ .commit → (liftRes (Edit.step s o)).1.stale = true :=
    fun o ho => Edit.step_stale_keeps s o ha hs ho
  cases op with
  | base o => exact base o (fun h => hop (by rw [h]))
  | remove h => exact base _ (by simp)
  | deleteAny h =>
    by_cases hh : h ≥ s.tree.size
    · simp [step, hh, hs]
    · cases hp : posOf s.items h with
      | none => simp [step, hp, hh, hs]
      | some p => simp only [step, hp, hh, if_false]; exact base _ (by simp)
  | search k => exact base _ (by simp)
  | listInsObj after emptyRx row txt =>
    cases emptyRx with
    | true => simp [step, hs]
    | false => simp [step, autoCommit, ha, hs]
  | insertBadIndex _ => exact hs
  | insertBadValue _ => exact hs
  | listInsBadValue _ => exact hs
  | removeBadValue => exact hs

theorem run_stale_keeps (s : S) (ops : List Op) (ha : s.auto = false) (hs : s.stale = true)
    (hno : ∀ op ∈ ops, op ≠ .base .commit) : (run s ops).stale = true := by
  induction ops generalizing s with
  | nil => exact hs
  | cons op ops ih =>
    simp only [run]
    refine ih _ ?_ (step_stale_keeps s op ha hs (hno op (by simp))) (fun o ho => hno o (by simp [ho]))
    rw [(step_frame s op).2.1, ha]

end Ccp.EditX
