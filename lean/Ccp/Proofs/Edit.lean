import Ccp.Model.Edit
import Ccp.Proofs.TreeForest
/-!
Helper lemmas and specification vocabulary for C06 (edits change exactly the targeted
lines) and C07 (after commit the tree is that of a fresh parse).  Core Lean only.

* `bootstrap`: the re-bootstrapping loop ends in a fixed point of the blank-line filter
  (`FixPt`), hence `bootstrap_idempotent`, `parse_eq_bootstrap`; without
  `ignore_blank_lines` the texts are kept; in general only blank lines are dropped
  (`bootstrap_texts`).
* the state machine: `step_cases` (shape of every step), frame lemmas, the invariants
  `FreshInv` / `AutoInv`, `commit_idempotent`, staleness lemmas.
* list primitives with Python's index conventions (`insertPos`, `popPos`, `pyInsert_eq`,
  `pyPop_in_range`, …), `insertAtMatches` (`expandLine`, `matchCount`), `eraseAll`, all
  polymorphic, and their commutation with `List.map` (texts of a list of items).
* `NoFilter`, `edited_texts`: text effect of the auto-commit.
* `appendIndex` case lemmas (child level / same indent / childless).
* object handles (`posOf_some`, `posOf_committed`) and identities (`idsOf`, `IdsDistinct`,
  `IdsSub`, `step_ids`).
-/
namespace Ccp.Edit
open Ccp.Py Ccp.Tree

theorem keptTexts_length_le (t : T) : (keptTexts t).length ≤ t.texts.length := by
  unfold keptTexts
  refine Nat.le_trans (List.length_filterMap_le _ _) ?_
  rw [List.length_zip]; exact Nat.min_le_left _ _

/-- the blank-line filter drops nothing from the result of passes 1–3 on `ls` -/
def FixPt (cfg : Cfg) (ls : List Str) : Prop := (keptTexts (link cfg ls)).length = ls.length

theorem bootstrapFuel_of_fix (cfg : Cfg) (fuel : Nat) (ls : List Str)
    (h : cfg.ignoreBlank = false ∨ FixPt cfg ls) : bootstrapFuel cfg fuel ls = link cfg ls := by
  cases fuel with
  | zero => rfl
  | succ f =>
    simp only [bootstrapFuel]
    rcases h with h | h
    · simp [h]
    · simp only [FixPt] at h; simp [h]

theorem bootstrapFuel_fix (cfg : Cfg) (fuel : Nat) (ls : List Str) (hf : ls.length ≤ fuel) :
    ∃ ls', bootstrapFuel cfg fuel ls = link cfg ls' ∧ (cfg.ignoreBlank = false ∨ FixPt cfg ls') := by
  induction fuel generalizing ls with
  | zero =>
    refine ⟨ls, rfl, .inr ?_⟩
    have h := keptTexts_length_le (link cfg ls)
    rw [link_texts_eq] at h
    simp only [FixPt]; omega
  | succ f ih =>
    simp only [bootstrapFuel]
    by_cases hig : cfg.ignoreBlank = true
    case neg => exact ⟨ls, by simp [hig], .inl (by simpa using hig)⟩
    case pos =>
      rw [if_pos hig]
      split
      · rename_i hne
        have h := keptTexts_length_le (link cfg ls)
        rw [link_texts_eq] at h
        have hne' : (keptTexts (link cfg ls)).length ≠ ls.length := by simpa using hne
        exact ih (keptTexts (link cfg ls)) (by omega)
      · rename_i hne
        exact ⟨ls, rfl, .inr (by simpa [FixPt] using hne)⟩

theorem bootstrap_eq_link (cfg : Cfg) (ls : List Str) :
    ∃ ls', bootstrap cfg ls = link cfg ls' ∧ (cfg.ignoreBlank = false ∨ FixPt cfg ls') :=
  bootstrapFuel_fix cfg _ ls (Nat.le_refl _)

theorem bootstrap_idempotent (cfg : Cfg) (ls : List Str) :
    bootstrap cfg (bootstrap cfg ls).texts = bootstrap cfg ls := by
  obtain ⟨ls', h1, h2⟩ := bootstrap_eq_link cfg ls
  rw [h1, link_texts_eq]
  exact bootstrapFuel_of_fix cfg _ ls' h2

theorem parse_eq_bootstrap (cfg : Cfg) (ls : List Str) : parse cfg ls = bootstrap cfg ls :=
  bootstrap_idempotent cfg ls

theorem bootstrap_noignore (cfg : Cfg) (ls : List Str) (h : cfg.ignoreBlank = false) :
    bootstrap cfg ls = link cfg ls := bootstrapFuel_of_fix cfg _ ls (.inl h)

theorem bootstrap_texts_noignore (cfg : Cfg) (ls : List Str) (h : cfg.ignoreBlank = false) :
    (bootstrap cfg ls).texts = ls := by rw [bootstrap_noignore cfg ls h, link_texts_eq]

/-! ## the state machine -/

/-- step results can be compared (used by the `decide` examples) -/
instance : DecidableEq (Except Err Unit) := fun a b =>
  match a, b with
  | .ok (), .ok () => isTrue rfl
  | .error e, .error e' =>
    if h : e = e' then isTrue (h ▸ rfl) else isFalse (fun h' => by cases h'; exact h rfl)
  | .ok _, .error _ => isFalse (fun h => by cases h)
  | .error _, .ok _ => isFalse (fun h => by cases h)

/-! ### items and texts -/

theorem committedItems_texts (t : T) : (committedItems t).map Item.text = t.texts := by
  simp only [committedItems, List.map_map]
  have : (Item.text ∘ fun p : Str × Nat => ({ text := p.1, id := some p.2 } : Item)) = Prod.fst := rfl
  rw [this, List.zipIdx_map_fst]

theorem committedItems_ids (t : T) :
    (committedItems t).map Item.id = (List.range t.texts.length).map some := by
  simp only [committedItems, List.map_map]
  have : (Item.id ∘ fun p : Str × Nat => ({ text := p.1, id := some p.2 } : Item)) = some ∘ Prod.snd := rfl
  rw [this, ← List.map_map, List.zipIdx_map_snd, List.range_eq_range']

theorem committedItems_length (t : T) : (committedItems t).length = t.texts.length := by
  simp [committedItems]

theorem commit_texts (s : S) : (commit s).texts = (bootstrap s.cfg s.texts).texts :=
  committedItems_texts _

@[simp] theorem fresh_text (txt : Str) : (fresh txt).text = txt := rfl

theorem items_map_text (s : S) : s.items.map Item.text = s.texts := rfl

theorem texts_length (s : S) : s.texts.length = s.items.length := by simp [S.texts]

/-- shape of every step: nothing happens, a commit, or a text change followed by the
auto-commit -/
theorem step_cases (s : S) (op : Op) :
    (step s op).1 = s ∨ (step s op).1 = commit s ∨
    ∃ its st, (step s op).1 = autoCommit { s with items := its, stale := st, dirty := true } ∧
      (st = true ∨ st = s.stale) ∧ (step s op).2 = .ok () := by
  cases op <;> unfold step <;> dsimp only
  all_goals repeat' split
  all_goals first
    | exact .inl rfl
    | exact .inr (.inl rfl)
    | exact .inr (.inr ⟨_, _, rfl, .inl rfl, rfl⟩)
    | exact .inr (.inr ⟨_, _, rfl, .inr rfl, rfl⟩)

/-! ### frame: configuration, auto-commit flag and width never change -/

theorem commit_frame (s : S) : (commit s).cfg = s.cfg ∧ (commit s).auto = s.auto ∧ (commit s).width = s.width :=
  ⟨rfl, rfl, rfl⟩

theorem autoCommit_frame (s : S) :
    (autoCommit s).cfg = s.cfg ∧ (autoCommit s).auto = s.auto ∧ (autoCommit s).width = s.width := by
  unfold autoCommit; split <;> exact ⟨rfl, rfl, rfl⟩

theorem step_frame (s : S) (op : Op) :
    (step s op).1.cfg = s.cfg ∧ (step s op).1.auto = s.auto ∧ (step s op).1.width = s.width := by
  rcases step_cases s op with h | h | ⟨txts, st, h, _⟩ <;> rw [h]
  · exact ⟨rfl, rfl, rfl⟩
  · exact commit_frame s
  · exact autoCommit_frame _

theorem run_frame (s : S) (ops : List Op) :
    (run s ops).cfg = s.cfg ∧ (run s ops).auto = s.auto ∧ (run s ops).width = s.width := by
  induction ops generalizing s with
  | nil => exact ⟨rfl, rfl, rfl⟩
  | cons op ops ih =>
    have h1 := ih (step s op).1
    have h2 := step_frame s op
    simp only [run]
    exact ⟨h1.1.trans h2.1, h1.2.1.trans h2.2.1, h1.2.2.trans h2.2.2⟩

theorem run_append (s : S) (ops ops' : List Op) : run s (ops ++ ops') = run (run s ops) ops' := by
  induction ops generalizing s with
  | nil => rfl
  | cons op ops ih => simp only [List.cons_append, run]; exact ih _

/-! ### the C07 invariant -/

/-- a state without uncommitted changes holds the tree of a from-scratch parse of its
texts, and its texts are the tree's -/
def FreshInv (s : S) : Prop :=
  s.dirty = false →
    s.tree = parse s.cfg s.texts ∧ s.texts = s.tree.texts ∧ s.items = committedItems s.tree

/-- with auto-commit on there is never an uncommitted change nor a moved checkpoint -/
def AutoInv (s : S) : Prop := s.auto = true → s.dirty = false ∧ s.stale = false

theorem commit_fresh (s : S) :
    (commit s).tree = parse s.cfg (commit s).texts ∧ (commit s).texts = (commit s).tree.texts ∧
    (commit s).items = committedItems (commit s).tree := by
  refine ⟨?_, commit_texts s, rfl⟩
  rw [commit_texts]
  show bootstrap s.cfg s.texts = parse s.cfg (bootstrap s.cfg s.texts).texts
  rw [parse_eq_bootstrap, bootstrap_idempotent]

theorem commit_clean (s : S) : (commit s).dirty = false ∧ (commit s).stale = false := ⟨rfl, rfl⟩

theorem commit_idempotent (s : S) : commit (commit s) = commit s := by
  have h : bootstrap s.cfg (commit s).texts = bootstrap s.cfg s.texts := by
    rw [commit_texts, bootstrap_idempotent]
  have h2 : commit (commit s) = S.mk s.cfg s.auto s.width
      (committedItems (bootstrap s.cfg (commit s).texts)) (bootstrap s.cfg (commit s).texts) false false := rfl
  rw [h2, h]; rfl

theorem init_fresh (cfg : Cfg) (auto : Bool) (width : Nat) (ls : List Str) :
    FreshInv (init cfg auto width ls) := by
  intro _
  have ht : (init cfg auto width ls).texts = (parse cfg ls).texts := committedItems_texts _
  refine ⟨?_, ht, rfl⟩
  rw [ht]
  show parse cfg ls = parse cfg (parse cfg ls).texts
  rw [parse_eq_bootstrap, parse_eq_bootstrap, bootstrap_idempotent]

theorem init_auto (cfg : Cfg) (auto : Bool) (width : Nat) (ls : List Str) :
    AutoInv (init cfg auto width ls) := fun _ => ⟨rfl, rfl⟩

theorem step_fresh (s : S) (op : Op) (h : FreshInv s) : FreshInv (step s op).1 := by
  rcases step_cases s op with e | e | ⟨txts, st, e, _⟩ <;> rw [e]
  · exact h
  · exact fun _ => commit_fresh s
  · unfold autoCommit
    split
    · exact fun _ => commit_fresh _
    · intro hd; cases hd

theorem step_autoInv (s : S) (op : Op) (h : AutoInv s) : AutoInv (step s op).1 := by
  rcases step_cases s op with e | e | ⟨txts, st, e, _⟩ <;> rw [e]
  · exact h
  · exact fun _ => commit_clean s
  · unfold autoCommit
    split
    · exact fun _ => commit_clean _
    · rename_i hna; intro ha; exact absurd ha hna

theorem run_fresh (s : S) (ops : List Op) (h : FreshInv s) : FreshInv (run s ops) := by
  induction ops generalizing s with
  | nil => exact h
  | cons op ops ih => exact ih _ (step_fresh s op h)

theorem run_autoInv (s : S) (ops : List Op) (h : AutoInv s) : AutoInv (run s ops) := by
  induction ops generalizing s with
  | nil => exact h
  | cons op ops ih => exact ih _ (step_autoInv s op h)


/-! ## list primitives -/

/-- where Python's `list.insert(k, x)` puts `x` in a list of length `n`: `k` itself when
`0 ≤ k ≤ n`, the end when `k > n`, `n + k` when `-n ≤ k < 0`, the front when `k < -n` -/
def insertPos (n : Nat) (k : Int) : Nat := if 0 ≤ k then min k.toNat n else (k + n).toNat

theorem insertPos_le (n : Nat) (k : Int) : insertPos n k ≤ n := by
  unfold insertPos; split <;> omega

theorem pyInsert_eq (l : List α) (k : Int) (x : α) :
    pyInsert l k x = l.take (insertPos l.length k) ++ x :: l.drop (insertPos l.length k) := by
  have h : (if k < 0 then (if k + (l.length : Int) < 0 then 0 else k + (l.length : Int))
      else (if k > (l.length : Int) then (l.length : Int) else k)).toNat = insertPos l.length k := by
    unfold insertPos; split <;> split <;> (try split) <;> omega
  simp only [pyInsert, h]

/-- `new` is `old` with exactly one element `x` added at position `j` -/
theorem inserted_frame (old : List α) (j : Nat) (x : α) (hj : j ≤ old.length) :
    let new := old.take j ++ x :: old.drop j
    new.length = old.length + 1 ∧ new[j]? = some x ∧ new.eraseIdx j = old ∧
    (∀ m, m < j → new[m]? = old[m]?) ∧ (∀ m, j ≤ m → new[m + 1]? = old[m]?) := by
  intro new
  have hl : (old.take j).length = j := by simp; omega
  refine ⟨?_, ?_, ?_, ?_, ?_⟩
  · simp [new]; omega
  · simp [new, hl]
  · simp only [new]
    rw [List.eraseIdx_append_of_length_le (by omega)]
    simp [hl]
  · intro m hm
    simp only [new]
    rw [List.getElem?_append_left (by omega), List.getElem?_take_of_lt hm]
  · intro m hm
    simp only [new]
    rw [List.getElem?_append_right (by omega), hl]
    have : m + 1 - j = (m - j) + 1 := by omega
    rw [this, List.getElem?_cons_succ, List.getElem?_drop]
    congr 1; omega

/-- the position Python's `list.pop(k)` removes from a list of length `n` (in range:
`-n ≤ k < n`) -/
def popPos (n : Nat) (k : Int) : Nat := if 0 ≤ k then k.toNat else (k + n).toNat

theorem pyPop_in_range (l : List α) (k : Int) (h : -(l.length : Int) ≤ k ∧ k < l.length) :
    pyPop l k = some (l.eraseIdx (popPos l.length k)) ∧ popPos l.length k < l.length := by
  have h1 : (if k < 0 then k + (l.length : Int) else k).toNat = popPos l.length k := by
    unfold popPos; split <;> split <;> omega
  have h2 : ¬ ((if k < 0 then k + (l.length : Int) else k) < 0 ∨
      (if k < 0 then k + (l.length : Int) else k) ≥ (l.length : Int)) := by
    split <;> omega
  refine ⟨?_, by unfold popPos; split <;> omega⟩
  simp only [pyPop, h1, if_neg h2]

theorem pyPop_out_of_range (l : List α) (k : Int) (h : k < -(l.length : Int) ∨ (l.length : Int) ≤ k) :
    pyPop l k = none := by
  have h2 : ((if k < 0 then k + (l.length : Int) else k) < 0 ∨
      (if k < 0 then k + (l.length : Int) else k) ≥ (l.length : Int)) := by
    split <;> omega
  simp only [pyPop, if_pos h2]


/-- what a list-level `insert_before` / `insert_after` turns one line into: the line
alone when it does not match, otherwise the line with one copy of `x` before / after -/
def expandLine (after : Bool) (x a : α) (m : Bool) : List α :=
  if m then (if after then [a, x] else [x, a]) else [a]

theorem insertAtMatches_nil_row (after : Bool) (x : α) (l : List α) :
    insertAtMatches after x l [] = l := by cases l <;> rfl

theorem insertAtMatches_eq_mapIdx (after : Bool) (x : α) (l : List α) (row : List Bool) :
    insertAtMatches after x l row
      = (l.mapIdx (fun i a => expandLine after x a (row.getD i false))).flatten := by
  induction l generalizing row with
  | nil => simp [insertAtMatches]
  | cons a as ih =>
    cases row with
    | nil =>
      have h := ih []
      rw [insertAtMatches_nil_row] at h
      simp only [List.getD_nil] at h
      simp only [insertAtMatches, List.mapIdx_cons, List.flatten_cons, List.getD_nil, ← h]
      simp [expandLine]
    | cons b bs =>
      simp only [insertAtMatches, List.mapIdx_cons, List.flatten_cons, List.getD_cons_zero,
        List.getD_cons_succ, ih bs]
      cases b <;> cases after <;> simp [expandLine]

/-- the `List.flatMap` reading: line `a` at index `i` becomes `expandLine … a row[i]` -/
theorem insertAtMatches_eq_flatMap (after : Bool) (x : α) (l : List α) (row : List Bool) :
    insertAtMatches after x l row
      = l.zipIdx.flatMap (fun p => expandLine after x p.1 (row.getD p.2 false)) := by
  rw [insertAtMatches_eq_mapIdx, List.mapIdx_eq_zipIdx_map, List.flatMap_def]

/-- number of lines of `l` whose row entry is true -/
def matchCount (n : Nat) (row : List Bool) : Nat := (row.take n).count true

theorem insertAtMatches_length (after : Bool) (x : α) (l : List α) (row : List Bool) :
    (insertAtMatches after x l row).length = l.length + matchCount l.length row := by
  induction l generalizing row with
  | nil => simp [insertAtMatches, matchCount]
  | cons a as ih =>
    cases row with
    | nil => simp [insertAtMatches, matchCount]
    | cons b bs =>
      have := ih bs
      simp only [matchCount] at this ⊢
      cases b <;> cases after <;> simp [insertAtMatches, this] <;> omega

/-- the old lines survive, unchanged and in order -/
theorem insertAtMatches_sublist (after : Bool) (x : α) (l : List α) (row : List Bool) :
    l.Sublist (insertAtMatches after x l row) := by
  induction l generalizing row with
  | nil => simp [insertAtMatches]
  | cons a as ih =>
    cases row with
    | nil => simp [insertAtMatches]
    | cons b bs =>
      have := ih bs
      cases b <;> cases after <;> simp only [insertAtMatches, if_true, if_false, Bool.false_eq_true]
      · exact this.cons_cons a
      · exact this.cons_cons a
      · exact (this.cons_cons a).cons x
      · exact (this.cons x).cons_cons a

/-- everything that is not a copy of the payload is untouched -/
theorem insertAtMatches_filter [DecidableEq α] (after : Bool) (x : α) (l : List α) (row : List Bool) :
    (insertAtMatches after x l row).filter (· ≠ x) = l.filter (· ≠ x) := by
  induction l generalizing row with
  | nil => simp [insertAtMatches]
  | cons a as ih =>
    cases row with
    | nil => simp [insertAtMatches]
    | cons b bs =>
      have := ih bs
      simp only [ne_eq, decide_not] at this
      cases b <;> cases after <;> simp [insertAtMatches, List.filter_cons, this]

theorem insertAtMatches_count [BEq α] [LawfulBEq α] (after : Bool) (x : α) (l : List α) (row : List Bool) :
    (insertAtMatches after x l row).count x = l.count x + matchCount l.length row := by
  induction l generalizing row with
  | nil => simp [insertAtMatches, matchCount]
  | cons a as ih =>
    cases row with
    | nil => simp [insertAtMatches, matchCount]
    | cons b bs =>
      have := ih bs
      simp only [matchCount] at this ⊢
      cases b <;> cases after <;> simp [insertAtMatches, List.count_cons, this] <;> omega


/-- `eraseAll` keeps exactly the positions that are not listed, in order -/
theorem eraseAll_eq_filter (l : List α) (idxs : List Nat) :
    eraseAll l idxs = (l.zipIdx.filter (fun p => !idxs.contains p.2)).map (·.1) := by
  unfold eraseAll
  generalize l.zipIdx = z
  induction z with
  | nil => rfl
  | cons p ps ih =>
    simp only [List.filterMap_cons, List.filter_cons]
    cases h : idxs.contains p.2 <;> simp only [if_true, if_false, Bool.not_true, Bool.not_false,
      Bool.false_eq_true, List.map_cons, ih]

theorem eraseAll_sublist (l : List α) (idxs : List Nat) : (eraseAll l idxs).Sublist l := by
  rw [eraseAll_eq_filter]
  have h : ((l.zipIdx.filter (fun p => !idxs.contains p.2)).map (·.1)).Sublist (l.zipIdx.map (·.1)) :=
    (List.filter_sublist).map _
  simpa using h

/-- erasing a duplicate-free set of valid positions shortens the list by their number -/
theorem eraseAll_length (l : List α) (idxs : List Nat) (hn : idxs.Nodup) (hb : ∀ j ∈ idxs, j < l.length) :
    (eraseAll l idxs).length + idxs.length = l.length := by
  rw [eraseAll_eq_filter, List.length_map]
  have h1 : (l.zipIdx.filter (fun p => !idxs.contains p.2)).length
      = ((List.range' 0 l.length).filter (fun j => !idxs.contains j)).length := by
    rw [← List.zipIdx_map_snd 0 l, List.filter_map, List.length_map]; rfl
  have h2 : ((List.range' 0 l.length).filter (fun j => idxs.contains j)).Perm idxs := by
    apply (List.perm_ext_iff_of_nodup ((List.nodup_range' (step := 1)).filter _) hn).mpr
    intro j
    simp only [List.mem_filter, List.mem_range'_1, List.contains_iff_mem]
    constructor
    · exact fun h => h.2
    · exact fun h => ⟨⟨Nat.zero_le _, by have := hb j h; omega⟩, h⟩
  have h3 := List.length_eq_countP_add_countP (l := List.range' 0 l.length) (fun j => idxs.contains j)
  rw [h1, ← h2.length_eq]
  simp only [List.length_range', List.countP_eq_length_filter] at h3
  simp only [Bool.not_eq_true, Bool.decide_eq_false] at h3
  omega


/-! ## text effect of the auto-commit -/

/-- the commit that may follow an edit does not filter lines: auto-commit is off, or
`ignore_blank_lines` is off -/
def NoFilter (s : S) : Prop := s.auto = false ∨ s.cfg.ignoreBlank = false

theorem commit_texts_noignore (s : S) (h : s.cfg.ignoreBlank = false) : (commit s).texts = s.texts := by
  rw [commit_texts]; exact bootstrap_texts_noignore s.cfg s.texts h

theorem autoCommit_texts (s : S) (h : NoFilter s) : (autoCommit s).texts = s.texts := by
  unfold autoCommit
  split
  · rename_i ha
    rcases h with h | h
    · rw [h] at ha; cases ha
    · exact commit_texts_noignore s h
  · rfl

theorem autoCommit_off (s : S) (h : s.auto = false) : autoCommit s = s := by
  simp [autoCommit, h]

theorem autoCommit_on (s : S) (h : s.auto = true) : autoCommit s = commit s := by
  simp [autoCommit, h]

/-! ## errors -/

theorem step_error_unchanged (s : S) (op : Op) (e : Err) (h : (step s op).2 = .error e) :
    (step s op).1 = s := by
  revert h
  cases op <;> unfold step <;> dsimp only
  all_goals repeat' split
  all_goals first
    | exact fun _ => rfl
    | (intro h; cases h)

/-- with auto-commit off the committed tree is only replaced by `commit` -/
theorem step_tree_unchanged (s : S) (op : Op) (ha : s.auto = false) (hop : op ≠ .commit) :
    (step s op).1.tree = s.tree := by
  cases op <;> unfold step <;> dsimp only
  all_goals repeat' split
  all_goals first
    | rfl
    | (simp [autoCommit, ha]; done)
    | exact absurd rfl hop

/-! ## stale -/

theorem step_stale_keeps (s : S) (op : Op) (ha : s.auto = false) (hs : s.stale = true) (hop : op ≠ .commit) :
    (step s op).1.stale = true := by
  cases op <;> unfold step <;> dsimp only
  all_goals repeat' split
  all_goals first
    | exact hs
    | (simp [autoCommit, ha, hs]; done)
    | exact absurd rfl hop

theorem run_stale_keeps (s : S) (ops : List Op) (ha : s.auto = false) (hs : s.stale = true)
    (hop : ∀ op ∈ ops, op ≠ .commit) : (run s ops).stale = true := by
  induction ops generalizing s with
  | nil => exact hs
  | cons op ops ih =>
    simp only [run]
    apply ih
    · rw [(step_frame s op).2.1, ha]
    · exact step_stale_keeps s op ha hs (hop op (by simp))
    · exact fun o ho => hop o (by simp [ho])


/-! ## append_to_family: where the line goes -/

/-- a line classified against its own indent is at level 0 -/
theorem cfi_self (w : Nat) (t : T) (i : Nat) (c : Int)
    (h : cfi w (indentOf t i) (t.texts.getD i []) = some c) : c = 0 := by
  unfold cfi indentOf at h
  dsimp only at h
  split at h
  · cases h
  · split at h
    · cases h
    · simp at h; exact h.symm

/-- target with children, new line not at the target's own indent: success means the
line is one level deeper and goes directly after the last descendant -/
theorem appendIndex_child_level (t : T) (w self : Nat) (s : Str) (idx : Nat)
    (hk : children t self ≠ []) (h : appendIndex t w self s = .ok idx)
    (h0 : cfi w (indentOf t self) s ≠ some 0) :
    idx = familyEndpoint t self + 1 ∧ cfi w (indentOf t self) s = some 1 := by
  unfold appendIndex at h
  dsimp only at h
  rw [if_neg (by simpa using hk)] at h
  split at h
  · rename_i c ifi hc hifi
    split at h
    · rename_i hz; rw [hifi, hz] at h0; exact absurd rfl h0
    · split at h
      · cases h
      · rename_i selfc hselfc
        have := cfi_self w t self selfc hselfc
        subst this
        split at h
        · split at h
          · cases h
          · rename_i h1 h2
            injection h with h
            refine ⟨h.symm, ?_⟩
            rw [hifi]; congr 1; omega
        · cases h
  · cases h

/-- target with children, new line at the target's own indent (known finding F10b):
the code inserts at `self + |children|` -/
theorem appendIndex_same_indent (t : T) (w self : Nat) (s : Str) (idx : Nat)
    (hk : children t self ≠ []) (h : appendIndex t w self s = .ok idx)
    (h0 : cfi w (indentOf t self) s = some 0) :
    idx = self + (children t self).length := by
  unfold appendIndex at h
  dsimp only at h
  rw [if_neg (by simpa using hk)] at h
  split at h
  · rename_i c ifi hc hifi
    rw [h0] at hifi
    injection hifi with hifi
    subst hifi
    simp at h
    exact h.symm
  · cases h

/-- childless target: the new line is at the target's indent (after the last sibling, or
after the last line of the same level when there is no sibling) or one level deeper
(after `last_parent_linenums[0]`) -/
theorem appendIndex_childless (t : T) (w self : Nat) (s : Str) (idx : Nat)
    (hk : children t self = []) (h : appendIndex t w self s = .ok idx) :
    (cfi w (indentOf t self) s = some 0 ∧
      ((siblings t self ≠ [] ∧ idx = ((siblings t self).getLast?).getD self + 1) ∨
       (siblings t self = [] ∧ ∃ l, lastFamilyLinenum t w self = some l ∧ idx = l + 1))) ∨
    (cfi w (indentOf t self) s = some 1 ∧ ∃ lp, lastParentLinenum0 t w self = some lp ∧ idx = lp + 1) := by
  unfold appendIndex at h
  dsimp only at h
  rw [if_pos (by simp [hk])] at h
  split at h
  · rename_i lp this nfi hlp hthis hnfi
    have := cfi_self w t self this hthis
    subst this
    split at h
    · rename_i heq
      left
      refine ⟨by rw [hnfi, ← heq], ?_⟩
      split at h
      · rename_i hs
        left
        injection h with h
        exact ⟨by simpa using hs, h.symm⟩
      · rename_i hs
        right
        refine ⟨by simpa using hs, ?_⟩
        split at h
        · rename_i l hl
          injection h with h
          exact ⟨l, hl, h.symm⟩
        · cases h
    · split at h
      · rename_i h1
        right
        injection h with h
        refine ⟨by rw [hnfi, ← h1]; rfl, lp, hlp, h.symm⟩
      · cases h
  · cases h

/-- on success the new line sits at the target's indent or exactly one level deeper -/
theorem appendIndex_level (t : T) (w self : Nat) (s : Str) (idx : Nat)
    (h : appendIndex t w self s = .ok idx) :
    cfi w (indentOf t self) s = some 0 ∨ cfi w (indentOf t self) s = some 1 := by
  by_cases hk : children t self = []
  · rcases appendIndex_childless t w self s idx hk h with h | h
    · exact .inl h.1
    · exact .inr h.1
  · by_cases h0 : cfi w (indentOf t self) s = some 0
    · exact .inl h0
    · exact .inr (appendIndex_child_level t w self s idx hk h h0).2

/-- the last line of a family lies inside the config -/
theorem familyEndpoint_lt_size {t : T} (hf : Forest t) {i : Nat} (hi : i < t.size) :
    familyEndpoint t i < t.size := by
  rcases List.mem_cons.mp (familyEndpoint_max hf i).1 with h | h
  · rw [h]; exact hi
  · exact ancestors_lt_size hf ((mem_allChildren hf).mp h)

/-! ## helpers for the C06 statements -/

/-- texts after a successful edit when the following auto-commit does not filter -/
theorem edited_texts (s : S) (hnf : NoFilter s) (its : List Item) (st : Bool) :
    (autoCommit { s with items := its, stale := st, dirty := true }).texts = its.map Item.text :=
  autoCommit_texts _ hnf

theorem insertPos_natCast (n idx : Nat) : insertPos n (idx : Int) = min idx n := by
  unfold insertPos; split <;> omega

theorem set_frame (old : List α) (i : Nat) (x : α) (hi : i < old.length) :
    (old.set i x).length = old.length ∧ (old.set i x)[i]? = some x ∧
    ∀ m, m ≠ i → (old.set i x)[m]? = old[m]? := by
  refine ⟨by simp, by simp [hi], ?_⟩
  intro m hm
  rw [List.getElem?_set_ne (Ne.symm hm)]

/-- the removed set of `delete`, under `Forest`: the line and the lines below it -/
theorem delete_filter_forest {t : T} (hf : Forest t) (l : List Str) (i : Nat) :
    eraseAll l (descendantsAndSelf t i)
      = (l.zipIdx.filter (fun p => decide (p.2 ≠ i ∧ i ∉ ancestors t p.2))).map (·.1) := by
  rw [eraseAll_eq_filter]
  congr 1
  apply List.filter_congr
  intro p _
  have h3 := mem_allChildren hf (i := i) (j := p.2)
  by_cases h1 : p.2 = i <;> by_cases h2 : i ∈ ancestors t p.2 <;>
    simp [descendantsAndSelf, h1, h2, h3]

theorem delete_length_forest {t : T} (hf : Forest t) (l : List Str) (i : Nat) (hsz : t.size = l.length)
    (hi : i < l.length) :
    (eraseAll l (descendantsAndSelf t i)).length + 1 + (allChildren t i).length = l.length := by
  have h := eraseAll_length l (descendantsAndSelf t i) ?_ ?_
  · simp only [descendantsAndSelf, List.length_cons] at h ⊢; omega
  · refine List.nodup_cons.mpr ⟨?_, nodup_of_sorted (allChildren_sorted hf i)⟩
    intro hm
    have := ancestors_lt ((mem_allChildren hf).mp hm); omega
  · intro j hj
    rcases List.mem_cons.mp hj with rfl | hj
    · exact hi
    · have := ancestors_lt_size hf ((mem_allChildren hf).mp hj); omega

/-- what a successful `append_to_family` step did -/
theorem step_appendToFamily_ok (s : S) (i : Nat) (txt : Str) (ind : Int) (ai : Bool)
    (hok : (step s (.appendToFamily i txt ind ai)).2 = .ok ()) :
    s.dirty = false ∧ i < s.items.length ∧ ¬ (ai = true ∧ ind > 0) ∧
    ∃ idx, appendIndex s.tree s.width i (familyText (indentOf s.tree i) s.width txt ind ai) = .ok idx ∧
      (step s (.appendToFamily i txt ind ai)).1
        = autoCommit { s with items := pyInsert s.items idx (fresh (familyText (indentOf s.tree i) s.width txt ind ai)),
                              stale := true, dirty := true } := by
  revert hok
  unfold step; dsimp only
  split
  · intro h; cases h
  · rename_i hg
    split
    · intro h; cases h
    · rename_i hai
      split
      · intro h; cases h
      · rename_i idx hidx
        intro _
        refine ⟨?_, ?_, ?_, idx, hidx, rfl⟩
        · cases hd : s.dirty
          · rfl
          · simp [hd] at hg
        · simp at hg; omega
        · simpa using hai

/-! ## what the blank-line filter of `bootstrap` can remove -/

theorem bannerWalk_keep_length (d : Char) (p idx : Nat) (rest : List Str) (t : T) :
    (bannerWalk d p idx rest t).keep.length = t.keep.length := by
  induction rest generalizing idx t with
  | nil => rfl
  | cons x xs ih =>
    simp only [bannerWalk]
    split
    · rfl
    · rw [ih]; simp [setKeep, reparent]

theorem markBanner_keep_length (t : T) (p : Nat) (txt : Str) :
    (markBanner t p txt).keep.length = t.keep.length := by
  unfold markBanner
  split
  · simp [setKeep]
  · split
    · simp [setKeep]
    · rw [bannerWalk_keep_length]; simp [setKeep]

theorem markBannersFrom_keep_length (i : Nat) (l : List Str) (t : T) :
    (markBannersFrom i l t).keep.length = t.keep.length := by
  induction l generalizing i t with
  | nil => rfl
  | cons x xs ih =>
    simp only [markBannersFrom]
    rw [ih]
    split
    · exact markBanner_keep_length t i x
    · rfl

theorem macroWalk_keep_length (p idx : Nat) (rest : List Str) (t : T) :
    (macroWalk p idx rest t).keep.length = t.keep.length := by
  induction rest generalizing idx t with
  | nil => rfl
  | cons x xs ih =>
    simp only [macroWalk]
    split
    · simp [setKeep, reparent]
    · rw [ih]; simp [setKeep, reparent]

theorem markMacrosFrom_keep_length (i : Nat) (l : List Str) (t : T) :
    (markMacrosFrom i l t).keep.length = t.keep.length := by
  induction l generalizing i t with
  | nil => rfl
  | cons x xs ih =>
    simp only [markMacrosFrom]
    rw [ih]
    split
    · rw [macroWalk_keep_length]; simp [setKeep]
    · rfl

theorem link_keep_length (cfg : Cfg) (ls : List Str) : (link cfg ls).keep.length = ls.length := by
  unfold link markMacros markBanners
  split
  · rw [markMacrosFrom_keep_length, markBannersFrom_keep_length]; simp
  · rw [markBannersFrom_keep_length]; simp

theorem keptTexts_aux_sublist (texts : List Str) (keep : List Bool) :
    ((texts.zip keep).filterMap
      (fun tk => if !(strip tk.1).isEmpty || tk.2 then some tk.1 else none)).Sublist texts := by
  induction texts generalizing keep with
  | nil => simp
  | cons a as ih =>
    cases keep with
    | nil => simp
    | cons b bs =>
      simp only [List.zip_cons_cons, List.filterMap_cons]
      split
      · exact (ih bs).cons a
      · rename_i x hx
        split at hx
        · cases hx; exact (ih bs).cons_cons a
        · cases hx

theorem keptTexts_aux_nonblank (texts : List Str) (keep : List Bool) (h : keep.length = texts.length) :
    ((texts.zip keep).filterMap
      (fun tk => if !(strip tk.1).isEmpty || tk.2 then some tk.1 else none)).filter (fun x => !isBlank x)
      = texts.filter (fun x => !isBlank x) := by
  induction texts generalizing keep with
  | nil => simp
  | cons a as ih =>
    cases keep with
    | nil => simp at h
    | cons b bs =>
      have := ih bs (by simpa using h)
      simp [isBlank] at this
      simp only [List.zip_cons_cons, List.filterMap_cons, List.filter_cons]
      cases hb : (strip a).isEmpty <;> cases b <;> simp [isBlank, hb, this]

/-- **what a bootstrap does to the texts**: it can only drop lines, and only blank ones
— every non-blank line survives, with its text, in order -/
theorem bootstrapFuel_texts (cfg : Cfg) (fuel : Nat) (ls : List Str) :
    (bootstrapFuel cfg fuel ls).texts.Sublist ls ∧
    (bootstrapFuel cfg fuel ls).texts.filter (fun x => !isBlank x) = ls.filter (fun x => !isBlank x) := by
  induction fuel generalizing ls with
  | zero => simp only [bootstrapFuel, link_texts_eq]; exact ⟨List.Sublist.refl _, trivial⟩
  | succ f ih =>
    simp only [bootstrapFuel]
    have hk1 : (keptTexts (link cfg ls)).Sublist ls := by
      have : (keptTexts (link cfg ls)).Sublist (link cfg ls).texts :=
        keptTexts_aux_sublist (link cfg ls).texts (link cfg ls).keep
      rw [link_texts_eq] at this; exact this
    have hk2 : (keptTexts (link cfg ls)).filter (fun x => !isBlank x) = ls.filter (fun x => !isBlank x) := by
      have : (keptTexts (link cfg ls)).filter (fun x => !isBlank x)
          = (link cfg ls).texts.filter (fun x => !isBlank x) :=
        keptTexts_aux_nonblank (link cfg ls).texts (link cfg ls).keep
          (by rw [link_keep_length, link_texts_eq])
      rw [link_texts_eq] at this; exact this
    split
    · split
      · have := ih (keptTexts (link cfg ls))
        exact ⟨this.1.trans hk1, this.2.trans hk2⟩
      · rw [link_texts_eq]; exact ⟨List.Sublist.refl _, rfl⟩
    · rw [link_texts_eq]; exact ⟨List.Sublist.refl _, rfl⟩

theorem bootstrap_texts (cfg : Cfg) (ls : List Str) :
    (bootstrap cfg ls).texts.Sublist ls ∧
    (bootstrap cfg ls).texts.filter (fun x => !isBlank x) = ls.filter (fun x => !isBlank x) :=
  bootstrapFuel_texts cfg _ ls

theorem fresh_texts_fixed (s : S) (hd : s.dirty = false) (hinv : FreshInv s) :
    s.texts = (bootstrap s.cfg s.texts).texts := by
  have h := hinv hd
  have h2 := h.2.1
  rw [h.1, parse_eq_bootstrap] at h2
  exact h2

/-- with auto-commit on, a step from a committed state leaves the texts that one bootstrap
makes of what the same step leaves with auto-commit off -/
theorem auto_step_texts (s : S) (op : Op) (ha : s.auto = true) (hd : s.dirty = false) (hinv : FreshInv s) :
    (step s op).1.texts = (bootstrap s.cfg (step { s with auto := false } op).1.texts).texts ∧
    (step s op).2 = (step { s with auto := false } op).2 := by
  have hfix := fresh_texts_fixed s hd hinv
  have htx : ({ s with auto := false } : S).texts = s.texts := rfl
  cases op <;> simp only [step, htx]
  all_goals repeat' split
  all_goals first
    | exact ⟨hfix, rfl⟩
    | exact ⟨hfix, trivial⟩
    | (simp only [autoCommit, ha, if_true, Bool.false_eq_true, if_false, commit_texts, bootstrap_idempotent,
        and_self]; done)
    | (simp only [autoCommit, ha, if_true, Bool.false_eq_true, if_false, commit_texts, bootstrap_idempotent,
        and_true]; rfl)

/-! ## the list primitives commute with `List.map` (texts of a list of items) -/

theorem pyInsert_map (f : α → β) (l : List α) (k : Int) (x : α) :
    (pyInsert l k x).map f = pyInsert (l.map f) k (f x) := by
  simp [pyInsert_eq, List.map_take, List.map_drop]

theorem map_eraseIdx' (f : α → β) (l : List α) (i : Nat) :
    (l.eraseIdx i).map f = (l.map f).eraseIdx i := by
  induction l generalizing i with
  | nil => rfl
  | cons a as ih => cases i <;> simp [List.eraseIdx, ih]

theorem pyPop_map (f : α → β) (l : List α) (k : Int) :
    (pyPop l k).map (List.map f) = pyPop (l.map f) k := by
  unfold pyPop
  simp only [List.length_map]
  split <;> split <;> simp [map_eraseIdx']

theorem insertAtMatches_map (f : α → β) (after : Bool) (x : α) (l : List α) (row : List Bool) :
    (insertAtMatches after x l row).map f = insertAtMatches after (f x) (l.map f) row := by
  induction l generalizing row with
  | nil => simp [insertAtMatches]
  | cons a as ih =>
    cases row with
    | nil => simp [insertAtMatches]
    | cons b bs => cases b <;> cases after <;> simp [insertAtMatches, ih]

theorem eraseAll_map (f : α → β) (l : List α) (idxs : List Nat) :
    (eraseAll l idxs).map f = eraseAll (l.map f) idxs := by
  rw [eraseAll_eq_filter, eraseAll_eq_filter, List.zipIdx_map, List.filter_map, List.map_map, List.map_map]
  rfl

/-! ## object handles -/

/-- `posOf` finds the first list element that is the committed object `h` -/
theorem posOf_some {items : List Item} {h p : Nat} (hp : posOf items h = some p) :
    p < items.length ∧ (items[p]?).map Item.id = some (some h) ∧
    ∀ q, q < p → (items[q]?).map Item.id ≠ some (some h) := by
  unfold posOf at hp
  rw [List.findIdx?_eq_some_iff_getElem] at hp
  obtain ⟨hlt, h1, h2⟩ := hp
  refine ⟨hlt, ?_, ?_⟩
  · simp only [List.getElem?_eq_getElem hlt, Option.map_some]
    simpa using h1
  · intro q hq
    have := h2 q hq
    simp only [List.getElem?_eq_getElem (show q < items.length by omega), Option.map_some]
    simpa using this

theorem findIdx?_committed (l : List Str) (k h : Nat) :
    (l.zipIdx k |>.map (fun p => ({ text := p.1, id := some p.2 } : Item))).findIdx? (fun it => it.id == some h)
      = if k ≤ h ∧ h < k + l.length then some (h - k) else none := by
  induction l generalizing k with
  | nil => simp
  | cons a as ih =>
    simp only [List.zipIdx_cons, List.map_cons, List.findIdx?_cons, ih (k + 1)]
    by_cases hk : k = h
    · subst hk; simp
    · have : ((some k : Option Nat) == some h) = false := by simpa using hk
      simp only [this]
      by_cases h1 : k + 1 ≤ h ∧ h < k + 1 + as.length
      · have h2 : k ≤ h ∧ h < k + (as.length + 1) := by omega
        simp only [h1, h2, and_self, if_true, List.length_cons, Option.map_some]
        simp only [Bool.false_eq_true, if_false]; congr 1; omega
      · have h2 : ¬ (k ≤ h ∧ h < k + (as.length + 1)) := by omega
        simp [h1, h2]

/-- on a freshly committed list every handle below the length is at its own position -/
theorem posOf_committed (t : T) (h : Nat) :
    posOf (committedItems t) h = if h < t.texts.length then some h else none := by
  unfold posOf committedItems
  rw [findIdx?_committed]
  simp

theorem setText_texts (items : List Item) (p : Nat) (txt : Str) :
    (setText items p txt).map Item.text = (items.map Item.text).set p txt := by
  unfold setText
  induction items generalizing p with
  | nil => simp
  | cons a as ih =>
    cases p with
    | zero => simp
    | succ p => simp [ih]

/-! ## identities: the committed ids in the list stay pairwise distinct -/

/-- the committed line numbers carried by the list elements, in list order -/
def idsOf (items : List Item) : List Nat := items.filterMap Item.id

/-- no two list elements are the same committed object -/
def IdsDistinct (items : List Item) : Prop := (idsOf items).Nodup

/-- the new list holds a sub-sequence of the old list's committed objects (none is
duplicated, none appears from nowhere, their order is kept) -/
def IdsSub (new old : List Item) : Prop := (idsOf new).Sublist (idsOf old)

theorem idsOf_committed (t : T) : idsOf (committedItems t) = List.range t.texts.length := by
  have h := committedItems_ids t
  unfold idsOf
  have h2 : (committedItems t).filterMap Item.id = ((committedItems t).map Item.id).filterMap id := by
    rw [List.filterMap_map]; rfl
  rw [h2, h, List.filterMap_map]
  simp

theorem idsDistinct_committed (t : T) : IdsDistinct (committedItems t) := by
  unfold IdsDistinct; rw [idsOf_committed]; exact List.nodup_range

theorem idsOf_insert_fresh (l : List Item) (j : Nat) (x : Str) :
    idsOf (l.take j ++ fresh x :: l.drop j) = idsOf l := by
  unfold idsOf
  rw [List.filterMap_append, List.filterMap_cons]
  show List.filterMap Item.id (List.take j l) ++ List.filterMap Item.id (List.drop j l) = _
  rw [← List.filterMap_append, List.take_append_drop]

theorem idsSub_takeDrop (l : List Item) (j : Nat) (x : Str) : IdsSub (l.take j ++ fresh x :: l.drop j) l := by
  unfold IdsSub; rw [idsOf_insert_fresh]; exact List.Sublist.refl _

theorem idsSub_pyInsert (l : List Item) (k : Int) (x : Str) : IdsSub (pyInsert l k (fresh x)) l := by
  rw [pyInsert_eq]; exact idsSub_takeDrop l _ x

theorem idsSub_append (l : List Item) (x : Str) : IdsSub (l ++ [fresh x]) l := by
  unfold IdsSub idsOf
  rw [List.filterMap_append]
  show (List.filterMap Item.id l ++ []).Sublist _
  rw [List.append_nil]; exact List.Sublist.refl _

theorem idsSub_of_sublist {new old : List Item} (h : new.Sublist old) : IdsSub new old :=
  h.filterMap _

theorem idsSub_pyPop {l l' : List Item} {k : Int} (h : pyPop l k = some l') : IdsSub l' l := by
  unfold pyPop at h
  dsimp only at h
  split at h <;> split at h <;> cases h <;> exact idsSub_of_sublist (List.eraseIdx_sublist _ _)

theorem idsSub_eraseAll (l : List Item) (idxs : List Nat) : IdsSub (eraseAll l idxs) l :=
  idsSub_of_sublist (eraseAll_sublist l idxs)

@[simp] theorem fresh_id (x : Str) : (fresh x).id = none := rfl

theorem idsOf_insertAtMatches (after : Bool) (x : Str) (l : List Item) (row : List Bool) :
    idsOf (insertAtMatches after (fresh x) l row) = idsOf l := by
  unfold idsOf
  induction l generalizing row with
  | nil => simp [insertAtMatches]
  | cons a as ih =>
    cases row with
    | nil => simp [insertAtMatches]
    | cons b bs =>
      have := ih bs
      cases b <;> cases after <;> simp [insertAtMatches, List.filterMap_cons, this]

theorem idsSub_insertAtMatches (after : Bool) (x : Str) (l : List Item) (row : List Bool) :
    IdsSub (insertAtMatches after (fresh x) l row) l := by
  unfold IdsSub; rw [idsOf_insertAtMatches]; exact List.Sublist.refl _

theorem idsOf_setText (l : List Item) (p : Nat) (x : Str) : idsOf (setText l p x) = idsOf l := by
  unfold idsOf setText
  induction l generalizing p with
  | nil => simp
  | cons a as ih =>
    cases p with
    | zero => simp [List.filterMap_cons]
    | succ p => simp [List.filterMap_cons, ih]

theorem idsSub_setText (l : List Item) (p : Nat) (x : Str) : IdsSub (setText l p x) l := by
  unfold IdsSub; rw [idsOf_setText]; exact List.Sublist.refl _

/-- every step either re-commits (fresh identities `0..n-1`) or keeps a sub-sequence of the
committed objects of the list -/
theorem step_ids (s : S) (op : Op) :
    (∃ t, (step s op).1.items = committedItems t) ∨ IdsSub (step s op).1.items s.items := by
  cases op <;> unfold step <;> dsimp only
  all_goals repeat' split
  all_goals first
    | exact .inr (List.Sublist.refl _)
    | exact .inl ⟨_, rfl⟩
    | (unfold autoCommit
       split
       · exact .inl ⟨_, rfl⟩
       · first
         | exact .inr (idsSub_pyInsert _ _ _)
         | exact .inr (idsSub_append _ _)
         | exact .inr (idsSub_pyPop ‹_›)
         | exact .inr (idsSub_insertAtMatches _ _ _ _)
         | exact .inr (idsSub_takeDrop _ _ _)
         | exact .inr (idsSub_eraseAll _ _)
         | exact .inr (idsSub_setText _ _ _))

theorem step_idsDistinct (s : S) (op : Op) (h : IdsDistinct s.items) : IdsDistinct (step s op).1.items := by
  rcases step_ids s op with ⟨t, ht⟩ | hs
  · rw [ht]; exact idsDistinct_committed t
  · exact List.Nodup.sublist hs h

theorem run_idsDistinct (s : S) (ops : List Op) (h : IdsDistinct s.items) : IdsDistinct (run s ops).items := by
  induction ops generalizing s with
  | nil => exact h
  | cons op ops ih => exact ih _ (step_idsDistinct s op h)

/-- with distinct identities an object is at no more than one position -/
theorem idsDistinct_unique {items : List Item} (hd : IdsDistinct items) {h p q : Nat}
    (hp : (items[p]?).map Item.id = some (some h)) (hq : (items[q]?).map Item.id = some (some h)) :
    p = q := by
  unfold IdsDistinct idsOf at hd
  induction items generalizing p q with
  | nil => simp at hp
  | cons a as ih =>
    have hmem : ∀ r : Nat, (as[r]?).map Item.id = some (some h) → h ∈ as.filterMap Item.id := by
      intro r hr
      cases har : as[r]? with
      | none => simp [har] at hr
      | some it =>
        simp [har] at hr
        exact List.mem_filterMap.mpr ⟨it, List.mem_of_getElem? har, hr⟩
    cases p with
    | zero =>
      cases q with
      | zero => rfl
      | succ q =>
        simp at hp hq
        have := hmem q (by simpa using hq)
        rw [List.filterMap_cons, hp] at hd
        exact absurd this (List.nodup_cons.mp hd).1
    | succ p =>
      cases q with
      | zero =>
        simp at hp hq
        have := hmem p (by simpa using hp)
        rw [List.filterMap_cons, hq] at hd
        exact absurd this (List.nodup_cons.mp hd).1
      | succ q =>
        have hd' : (as.filterMap Item.id).Nodup := by
          rw [List.filterMap_cons] at hd
          split at hd
          · exact hd
          · exact (List.nodup_cons.mp hd).2
        simp only [List.getElem?_cons_succ] at hp hq
        rw [ih hd' hp hq]

end Ccp.Edit
