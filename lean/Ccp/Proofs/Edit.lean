import Ccp.Model.Edit
import Ccp.Proofs.TreeForest
namespace Ccp.Edit
open Ccp.Py Ccp.Tree

theorem keptTexts_length_le (t : T) : (keptTexts t).length ≤ t.texts.length := by
  unfold keptTexts
  refine Nat.le_trans (List.length_filterMap_le _ _) ?_
  rw [List.length_zip]; exact Nat.min_le_left _ _

/-- the blank-line filter drops nothing from the result of passes 1–3 on `ls` -/
def FixPt (cfg : Cfg) (ls : List Str) : Prop := (keptTexts (link cfg ls)).length = ls.length

theorem bootstrapFuel_of_fix (cfg : Cfg) (fuel : Nat) (ls : List Str)
    (h : cfg.ignoreBlank = false ∨ FixPt cfg ls) : bootstrapFuel cfg fuel ls = link cfg ls := by
  cases fuel with
  | zero => rfl
  | succ f =>
    simp only [bootstrapFuel]
    rcases h with h | h
    · simp [h]
    · simp only [FixPt] at h; simp [h]

theorem bootstrapFuel_fix (cfg : Cfg) (fuel : Nat) (ls : List Str) (hf : ls.length ≤ fuel) :
    ∃ ls', bootstrapFuel cfg fuel ls = link cfg ls' ∧ (cfg.ignoreBlank = false ∨ FixPt cfg ls') := by
  induction fuel generalizing ls with
  | zero =>
    refine ⟨ls, rfl, .inr ?_⟩
    have h := keptTexts_length_le (link cfg ls)
    rw [link_texts_eq] at h
    simp only [FixPt]; omega
  | succ f ih =>
    simp only [bootstrapFuel]
    by_cases hig : cfg.ignoreBlank = true
    case neg => exact ⟨ls, by simp [hig], .inl (by simpa using hig)⟩
    case pos =>
      rw [if_pos hig]
      split
      · rename_i hne
        have h := keptTexts_length_le (link cfg ls)
        rw [link_texts_eq] at h
        have hne' : (keptTexts (link cfg ls)).length ≠ ls.length := by simpa using hne
        exact ih (keptTexts (link cfg ls)) (by omega)
      · rename_i hne
        exact ⟨ls, rfl, .inr (by simpa [FixPt] using hne)⟩

theorem bootstrap_eq_link (cfg : Cfg) (ls : List Str) :
    ∃ ls', bootstrap cfg ls = link cfg ls' ∧ (cfg.ignoreBlank = false ∨ FixPt cfg ls') :=
  bootstrapFuel_fix cfg _ ls (Nat.le_refl _)

theorem bootstrap_idempotent (cfg : Cfg) (ls : List Str) :
    bootstrap cfg (bootstrap cfg ls).texts = bootstrap cfg ls := by
  obtain ⟨ls', h1, h2⟩ := bootstrap_eq_link cfg ls
  rw [h1, link_texts_eq]
  exact bootstrapFuel_of_fix cfg _ ls' h2

theorem parse_eq_bootstrap (cfg : Cfg) (ls : List Str) : parse cfg ls = bootstrap cfg ls :=
  bootstrap_idempotent cfg ls

theorem bootstrap_noignore (cfg : Cfg) (ls : List Str) (h : cfg.ignoreBlank = false) :
    bootstrap cfg ls = link cfg ls := bootstrapFuel_of_fix cfg _ ls (.inl h)

theorem bootstrap_texts_noignore (cfg : Cfg) (ls : List Str) (h : cfg.ignoreBlank = false) :
    (bootstrap cfg ls).texts = ls := by rw [bootstrap_noignore cfg ls h, link_texts_eq]

/-! ## the state machine -/

/-- shape of every step: nothing happens, a commit, or a text change followed by the
auto-commit -/
theorem step_cases (s : S) (op : Op) :
    (step s op).1 = s ∨ (step s op).1 = commit s ∨
    ∃ txts st, (step s op).1 = autoCommit { s with texts := txts, stale := st, dirty := true } ∧
      (st = true ∨ st = s.stale) ∧ (step s op).2 = .ok () := by
  cases op <;> unfold step <;> dsimp only
  all_goals repeat' split
  all_goals first
    | exact .inl rfl
    | exact .inr (.inl rfl)
    | exact .inr (.inr ⟨_, _, rfl, .inl rfl, rfl⟩)
    | exact .inr (.inr ⟨_, _, rfl, .inr rfl, rfl⟩)

/-! ### frame: configuration, auto-commit flag and width never change -/

theorem commit_frame (s : S) : (commit s).cfg = s.cfg ∧ (commit s).auto = s.auto ∧ (commit s).width = s.width :=
  ⟨rfl, rfl, rfl⟩

theorem autoCommit_frame (s : S) :
    (autoCommit s).cfg = s.cfg ∧ (autoCommit s).auto = s.auto ∧ (autoCommit s).width = s.width := by
  unfold autoCommit; split <;> exact ⟨rfl, rfl, rfl⟩

theorem step_frame (s : S) (op : Op) :
    (step s op).1.cfg = s.cfg ∧ (step s op).1.auto = s.auto ∧ (step s op).1.width = s.width := by
  rcases step_cases s op with h | h | ⟨txts, st, h, _⟩ <;> rw [h]
  · exact ⟨rfl, rfl, rfl⟩
  · exact commit_frame s
  · exact autoCommit_frame _

theorem run_frame (s : S) (ops : List Op) :
    (run s ops).cfg = s.cfg ∧ (run s ops).auto = s.auto ∧ (run s ops).width = s.width := by
  induction ops generalizing s with
  | nil => exact ⟨rfl, rfl, rfl⟩
  | cons op ops ih =>
    have h1 := ih (step s op).1
    have h2 := step_frame s op
    simp only [run]
    exact ⟨h1.1.trans h2.1, h1.2.1.trans h2.2.1, h1.2.2.trans h2.2.2⟩

theorem run_append (s : S) (ops ops' : List Op) : run s (ops ++ ops') = run (run s ops) ops' := by
  induction ops generalizing s with
  | nil => rfl
  | cons op ops ih => simp only [List.cons_append, run]; exact ih _

/-! ### the C07 invariant -/

/-- a state without uncommitted changes holds the tree of a from-scratch parse of its
texts, and its texts are the tree's -/
def FreshInv (s : S) : Prop :=
  s.dirty = false → s.tree = parse s.cfg s.texts ∧ s.texts = s.tree.texts

/-- with auto-commit on there is never an uncommitted change nor a moved checkpoint -/
def AutoInv (s : S) : Prop := s.auto = true → s.dirty = false ∧ s.stale = false

theorem commit_fresh (s : S) :
    (commit s).tree = parse s.cfg (commit s).texts ∧ (commit s).texts = (commit s).tree.texts := by
  refine ⟨?_, rfl⟩
  show bootstrap s.cfg s.texts = parse s.cfg (bootstrap s.cfg s.texts).texts
  rw [parse_eq_bootstrap, bootstrap_idempotent]

theorem commit_clean (s : S) : (commit s).dirty = false ∧ (commit s).stale = false := ⟨rfl, rfl⟩

theorem commit_idempotent (s : S) : commit (commit s) = commit s := by
  simp only [commit, bootstrap_idempotent]

theorem init_fresh (cfg : Cfg) (auto : Bool) (width : Nat) (ls : List Str) :
    FreshInv (init cfg auto width ls) := by
  intro _
  refine ⟨?_, rfl⟩
  show parse cfg ls = parse cfg (parse cfg ls).texts
  rw [parse_eq_bootstrap, parse_eq_bootstrap, bootstrap_idempotent]

theorem init_auto (cfg : Cfg) (auto : Bool) (width : Nat) (ls : List Str) :
    AutoInv (init cfg auto width ls) := fun _ => ⟨rfl, rfl⟩

theorem step_fresh (s : S) (op : Op) (h : FreshInv s) : FreshInv (step s op).1 := by
  rcases step_cases s op with e | e | ⟨txts, st, e, _⟩ <;> rw [e]
  · exact h
  · exact fun _ => commit_fresh s
  · unfold autoCommit
    split
    · exact fun _ => commit_fresh _
    · intro hd; cases hd

theorem step_autoInv (s : S) (op : Op) (h : AutoInv s) : AutoInv (step s op).1 := by
  rcases step_cases s op with e | e | ⟨txts, st, e, _⟩ <;> rw [e]
  · exact h
  · exact fun _ => commit_clean s
  · unfold autoCommit
    split
    · exact fun _ => commit_clean _
    · rename_i hna; intro ha; exact absurd ha hna

theorem run_fresh (s : S) (ops : List Op) (h : FreshInv s) : FreshInv (run s ops) := by
  induction ops generalizing s with
  | nil => exact h
  | cons op ops ih => exact ih _ (step_fresh s op h)

theorem run_autoInv (s : S) (ops : List Op) (h : AutoInv s) : AutoInv (run s ops) := by
  induction ops generalizing s with
  | nil => exact h
  | cons op ops ih => exact ih _ (step_autoInv s op h)

end Ccp.Edit
