import Ccp.Spec.BlankKeep
import Ccp.Proofs.TreeLossless
/-!
Helper lemmas for the `ignore_blank_lines` part of C01: which lines carry `blank_line_keep`
after passes 1–3 (pointwise, from the index walks of the model), the same flags as one
forward scan with a countdown, idempotence of that scan (so one round of the restart loop is
enough), and the position-by-position reading `keepSpec`.  Core Lean only.
-/
namespace Ccp.Tree
open Ccp.Py

/-! ## which lines carry `blank_line_keep` -/

def flag (k : List Bool) (j : Nat) : Bool := k.getD j false

theorem flag_set (k : List Bool) (i j : Nat) :
    flag (k.set i true) j = true ↔ flag k j = true ∨ (i = j ∧ j < k.length) := by
  unfold flag
  simp only [List.getD_eq_getElem?_getD, List.getElem?_set]
  by_cases h : i = j
  · subst h
    by_cases h2 : i < k.length
    · simp [h2]
    · simp [h2]
  · simp [h]

theorem bannerBodyLen_le (d : Char) (body : List Str) : bannerBodyLen d body ≤ body.length := by
  induction body with
  | nil => simp [bannerBodyLen]
  | cons y rest ih => unfold bannerBodyLen; split <;> simp <;> omega

theorem macroBodyLen_le (body : List Str) : macroBodyLen body ≤ body.length := by
  induction body with
  | nil => simp [macroBodyLen]
  | cons y rest ih => unfold macroBodyLen; split <;> simp <;> omega

theorem bannerWalk_flag (d : Char) (p : Nat) (body : List Str) :
    ∀ (idx : Nat) (t : T), idx + body.length ≤ t.keep.length → ∀ j,
      (flag (bannerWalk d p idx body t).keep j = true ↔
        flag t.keep j = true ∨ (idx ≤ j ∧ j - idx < bannerBodyLen d body)) := by
  induction body with
  | nil => intro idx t _ j; simp [bannerWalk, bannerBodyLen]
  | cons y rest ih =>
    intro idx t hlen j
    unfold bannerWalk bannerBodyLen
    split
    · simp [reparent]
    · have hlen' : idx + 1 + rest.length ≤ (setKeep (reparent t p idx) idx).keep.length := by
        simp [setKeep, reparent] at hlen ⊢; omega
      rw [ih (idx + 1) _ hlen' j]
      simp only [setKeep, reparent, flag_set]
      simp at hlen
      constructor
      · rintro ((h | h) | h)
        · exact Or.inl h
        · right; omega
        · right; omega
      · rintro (h | h)
        · exact Or.inl (Or.inl h)
        · by_cases hij : idx = j
          · left; right; omega
          · right; omega

theorem macroWalk_flag (p : Nat) (body : List Str) :
    ∀ (idx : Nat) (t : T), idx + body.length ≤ t.keep.length → ∀ j,
      (flag (macroWalk p idx body t).keep j = true ↔
        flag t.keep j = true ∨ (idx ≤ j ∧ j - idx < macroBodyLen body)) := by
  induction body with
  | nil => intro idx t _ j; simp [macroWalk, macroBodyLen]
  | cons y rest ih =>
    intro idx t hlen j
    unfold macroWalk macroBodyLen
    simp only
    simp at hlen
    split
    · simp only [setKeep, reparent, flag_set]
      constructor
      · rintro (h | h)
        · exact Or.inl h
        · right; omega
      · rintro (h | h)
        · exact Or.inl h
        · right; omega
    · have hlen' : idx + 1 + rest.length ≤ (reparent (setKeep t idx) p idx).keep.length := by
        simp [setKeep, reparent]; omega
      rw [ih (idx + 1) _ hlen' j]
      simp only [setKeep, reparent, flag_set]
      constructor
      · rintro ((h | h) | h)
        · exact Or.inl h
        · right; omega
        · right; omega
      · rintro (h | h)
        · exact Or.inl (Or.inl h)
        · by_cases hij : idx = j
          · left; right; omega
          · right; omega


theorem markBanner_flag (t : T) (p : Nat) (x : Str) (hwf : t.WF) (hp : p < t.size)
    (hx : isBannerStart x = true) (j : Nat) :
    flag (markBanner t p x).keep j = true ↔
      flag t.keep j = true ∨ (p ≤ j ∧ j - p < protB x (t.texts.drop (p + 1))) := by
  have hk : t.keep.length = t.texts.length := hwf.2
  have hp' : p < t.texts.length := hp
  unfold markBanner protB
  simp only [hx, if_true]
  have hself : flag (setKeep t p).keep j = true ↔ flag t.keep j = true ∨ (p ≤ j ∧ j - p < 1 + 0) := by
    simp only [setKeep, flag_set]
    constructor
    · rintro (h | h)
      · exact Or.inl h
      · right; omega
    · rintro (h | h)
      · exact Or.inl h
      · right; omega
  cases hd : bannerDelim x with
  | none => simpa using hself
  | some d =>
    by_cases hc : countChar d x ≥ 2
    · simpa [hc] using hself
    · simp only [hc, if_false]
      have hlen : p + 1 + ((setKeep t p).texts.drop (p + 1)).length ≤ (setKeep t p).keep.length := by
        simp [setKeep]; omega
      rw [bannerWalk_flag _ _ _ _ _ hlen j]
      simp only [setKeep, flag_set]
      constructor
      · rintro ((h | h) | h)
        · exact Or.inl h
        · right; omega
        · right; omega
      · rintro (h | h)
        · exact Or.inl (Or.inl h)
        · by_cases hij : p = j
          · left; right; omega
          · right; omega

/-- the lines protected by some start at a position in `[i, j]` -/
def CovFrom (prot : Str → List Str → Nat) (ls : List Str) (i j : Nat) : Prop :=
  ∃ q, i ≤ q ∧ q ≤ j ∧ ∃ x, ls[q]? = some x ∧ j - q < prot x (ls.drop (q + 1))

theorem covFrom_split (prot : Str → List Str → Nat) (ls : List Str) (i j : Nat) (x : Str)
    (hx : ls[i]? = some x) :
    CovFrom prot ls i j ↔ (i ≤ j ∧ j - i < prot x (ls.drop (i + 1))) ∨ CovFrom prot ls (i + 1) j := by
  constructor
  · rintro ⟨q, h1, h2, y, hy, h3⟩
    by_cases hq : q = i
    · subst hq; rw [hx] at hy; cases hy; exact Or.inl ⟨h2, h3⟩
    · exact Or.inr ⟨q, by omega, h2, y, hy, h3⟩
  · rintro (⟨h1, h2⟩ | ⟨q, h1, h2, y, hy, h3⟩)
    · exact ⟨i, Nat.le_refl _, h1, x, hx, h2⟩
    · exact ⟨q, by omega, h2, y, hy, h3⟩

theorem covFrom_end (prot : Str → List Str → Nat) (ls : List Str) (i j : Nat) (h : ls.drop i = []) :
    ¬ CovFrom prot ls i j := by
  rintro ⟨q, h1, _, y, hy, _⟩
  have : ls.length ≤ i := by simpa using h
  have := (List.getElem?_eq_some_iff.mp hy).1
  omega

theorem drop_cons_getElem? {α} (l : List α) (i : Nat) (x : α) (rest : List α) (h : l.drop i = x :: rest) :
    l[i]? = some x ∧ l.drop (i + 1) = rest ∧ i < l.length := by
  have h1 : l[i]? = some x := by
    have := congrArg List.head? h
    simpa [List.head?_drop] using this
  have h2 : l.drop (i + 1) = rest := by
    have := congrArg List.tail h
    simpa [List.tail_drop] using this
  exact ⟨h1, h2, (List.getElem?_eq_some_iff.mp h1).1⟩

theorem markBannersFrom_flag (suffix : List Str) :
    ∀ (i : Nat) (t : T), t.WF → t.texts.drop i = suffix → ∀ j,
      (flag (markBannersFrom i suffix t).keep j = true ↔
        flag t.keep j = true ∨ CovFrom protB t.texts i j) := by
  induction suffix with
  | nil =>
    intro i t _ hd j
    simp [markBannersFrom, covFrom_end protB t.texts i j hd]
  | cons x rest ih =>
    intro i t hwf hd j
    obtain ⟨hx, hrest, hi⟩ := drop_cons_getElem? _ _ _ _ hd
    unfold markBannersFrom
    rw [covFrom_split protB t.texts i j x hx]
    by_cases hb : isBannerStart x = true
    · simp only [hb, if_true]
      rw [ih (i + 1) _ (markBanner_wf _ _ _ hwf) (by rw [markBanner_texts]; exact hrest) j,
        markBanner_flag t i x hwf hi hb j, markBanner_texts, or_assoc]
    · simp only [hb, Bool.false_eq_true, if_false]
      rw [ih (i + 1) _ hwf hrest j]
      have : protB x (List.drop (i + 1) t.texts) = 0 := by simp [protB, hb]
      simp [this]

theorem markMacrosFrom_flag (suffix : List Str) :
    ∀ (i : Nat) (t : T), t.WF → t.texts.drop i = suffix → ∀ j,
      (flag (markMacrosFrom i suffix t).keep j = true ↔
        flag t.keep j = true ∨ CovFrom protM t.texts i j) := by
  induction suffix with
  | nil =>
    intro i t _ hd j
    simp [markMacrosFrom, covFrom_end protM t.texts i j hd]
  | cons x rest ih =>
    intro i t hwf hd j
    obtain ⟨hx, hrest, hi⟩ := drop_cons_getElem? _ _ _ _ hd
    have hk : t.keep.length = t.texts.length := hwf.2
    unfold markMacrosFrom
    rw [covFrom_split protM t.texts i j x hx]
    by_cases hb : isMacroStart x = true
    · simp only [hb, if_true]
      have hwf' : (macroWalk i (i + 1) (t.texts.drop (i + 1)) (setKeep t i)).WF :=
        macroWalk_wf _ _ _ _ (setKeep_wf _ _ hwf)
      have hlen : i + 1 + (t.texts.drop (i + 1)).length ≤ (setKeep t i).keep.length := by
        simp [setKeep]; omega
      rw [ih (i + 1) _ hwf' (by rw [macroWalk_texts]; exact hrest) j,
        macroWalk_flag _ _ _ _ hlen j, macroWalk_texts]
      simp only [setKeep, flag_set, protM, hb, if_true]
      constructor
      · rintro (((h | h) | h) | h)
        · exact Or.inl h
        · right; left; omega
        · right; left; omega
        · exact Or.inr (Or.inr h)
      · rintro (h | h | h)
        · exact Or.inl (Or.inl (Or.inl h))
        · by_cases hij : i = j
          · left; left; right; omega
          · left; right; omega
        · exact Or.inr h
    · simp only [hb, Bool.false_eq_true, if_false]
      rw [ih (i + 1) _ hwf hrest j]
      have : protM x (List.drop (i + 1) t.texts) = 0 := by simp [protM, hb]
      simp [this]


theorem covFrom_prot (cfg : Cfg) (ls : List Str) (i j : Nat) :
    CovFrom (prot cfg) ls i j ↔ CovFrom protB ls i j ∨ (cfg.ios = true ∧ CovFrom protM ls i j) := by
  constructor
  · rintro ⟨q, h1, h2, x, hx, h3⟩
    unfold prot at h3
    by_cases hb : j - q < protB x (ls.drop (q + 1))
    · exact Or.inl ⟨q, h1, h2, x, hx, hb⟩
    · cases hi : cfg.ios with
      | false => simp [hi] at h3; omega
      | true => simp [hi] at h3; exact Or.inr ⟨rfl, q, h1, h2, x, hx, by omega⟩
  · rintro (⟨q, h1, h2, x, hx, h3⟩ | ⟨hi, q, h1, h2, x, hx, h3⟩)
    · exact ⟨q, h1, h2, x, hx, by unfold prot; omega⟩
    · exact ⟨q, h1, h2, x, hx, by unfold prot; simp [hi]; omega⟩

theorem flag_allFalse (ls : List Str) (j : Nat) : flag (ls.map (fun _ => false)) j = false := by
  unfold flag
  simp only [List.getD_eq_getElem?_getD, List.getElem?_map]
  cases ls[j]? <;> rfl

/-- **which lines carry `blank_line_keep` after passes 1–3** -/
theorem link_flag (cfg : Cfg) (ls : List Str) (j : Nat) :
    flag (link cfg ls).keep j = true ↔ CovFrom (prot cfg) ls 0 j := by
  rw [covFrom_prot]
  unfold link
  let t0 : T := { texts := ls, parents := linkByIndent cfg ls, keep := ls.map (fun _ => false) }
  have hwf0 : t0.WF := by simp [t0, T.WF, linkByIndent_length_ll]
  have hB : ∀ j, flag (markBanners t0).keep j = true ↔ CovFrom protB ls 0 j := by
    intro j
    unfold markBanners
    rw [markBannersFrom_flag _ 0 t0 hwf0 (by simp) j]
    simp [t0, flag_allFalse]
  show flag (markMacros cfg (markBanners t0)).keep j = true ↔ _
  unfold markMacros
  cases hi : cfg.ios with
  | false => simp [hB]
  | true =>
    simp only [if_true]
    rw [markMacrosFrom_flag _ 0 _ (markBanners_wf _ hwf0) (by simp) j, hB, markBanners_texts]
    simp [t0]


/-! ## the same flags, computed by one forward scan with a countdown -/

/-- `c` = how many of the coming lines are still protected by an earlier start -/
def flagsScan (cfg : Cfg) : Nat → List Str → List Bool
  | _, [] => []
  | c, x :: rest => decide (0 < max c (prot cfg x rest)) :: flagsScan cfg (max c (prot cfg x rest) - 1) rest

def keptScan (cfg : Cfg) : Nat → List Str → List Str
  | _, [] => []
  | c, x :: rest =>
    if nonBlank x || decide (0 < max c (prot cfg x rest)) then x :: keptScan cfg (max c (prot cfg x rest) - 1) rest
    else keptScan cfg (max c (prot cfg x rest) - 1) rest

theorem covFrom_shift (prot : Str → List Str → Nat) (x : Str) (rest : List Str) (i j : Nat) :
    CovFrom prot (x :: rest) (i + 1) (j + 1) ↔ CovFrom prot rest i j := by
  constructor
  · rintro ⟨q, h1, h2, y, hy, h3⟩
    obtain ⟨q', rfl⟩ : ∃ q', q = q' + 1 := ⟨q - 1, by omega⟩
    refine ⟨q', by omega, by omega, y, by simpa using hy, ?_⟩
    simpa using h3
  · rintro ⟨q, h1, h2, y, hy, h3⟩
    exact ⟨q + 1, by omega, by omega, y, by simpa using hy, by simpa using h3⟩

theorem covFrom_gt (prot : Str → List Str → Nat) (ls : List Str) (i j : Nat) (h : j < i) :
    ¬ CovFrom prot ls i j := by
  rintro ⟨q, h1, h2, _⟩; omega

theorem flagsScan_length (cfg : Cfg) (ls : List Str) : ∀ c, (flagsScan cfg c ls).length = ls.length := by
  induction ls with
  | nil => intro c; rfl
  | cons x rest ih => intro c; simp [flagsScan, ih]

theorem flagsScan_flag (cfg : Cfg) (ls : List Str) : ∀ (c j : Nat),
    (flag (flagsScan cfg c ls) j = true ↔ j < ls.length ∧ (j < c ∨ CovFrom (prot cfg) ls 0 j)) := by
  induction ls with
  | nil => intro c j; simp [flagsScan, flag]
  | cons x rest ih =>
    intro c j
    rw [covFrom_split (prot cfg) (x :: rest) 0 j x rfl]
    cases j with
    | zero =>
      have := covFrom_gt (prot cfg) (x :: rest) 1 0 (by omega)
      simp [flagsScan, flag, this]
      omega
    | succ j =>
      have hf : flag (flagsScan cfg c (x :: rest)) (j + 1) =
          flag (flagsScan cfg (max c (prot cfg x rest) - 1) rest) j := by
        simp [flagsScan, flag]
      rw [hf, ih, covFrom_shift]
      simp only [List.length_cons, List.drop_succ_cons, List.drop_zero]
      constructor
      · rintro ⟨h1, h2 | h2⟩
        · refine ⟨by omega, ?_⟩
          by_cases hc : j + 1 < c
          · exact Or.inl hc
          · right; left; omega
        · exact ⟨by omega, Or.inr (Or.inr h2)⟩
      · rintro ⟨h1, h2 | h2 | h2⟩
        · exact ⟨by omega, Or.inl (by omega)⟩
        · exact ⟨by omega, Or.inl (by omega)⟩
        · exact ⟨by omega, Or.inr h2⟩

theorem protB_le (x : Str) (rest : List Str) : protB x rest ≤ 1 + rest.length := by
  unfold protB
  split
  · split
    · split
      · omega
      · have := bannerBodyLen_le ‹_› rest; omega
    · omega
  · omega

theorem protM_le (x : Str) (rest : List Str) : protM x rest ≤ 1 + rest.length := by
  unfold protM
  split
  · have := macroBodyLen_le rest; omega
  · omega

theorem prot_le (cfg : Cfg) (x : Str) (rest : List Str) : prot cfg x rest ≤ 1 + rest.length := by
  unfold prot
  have := protB_le x rest
  have := protM_le x rest
  split <;> omega

theorem covFrom_lt_length (cfg : Cfg) (ls : List Str) (i j : Nat) (h : CovFrom (prot cfg) ls i j) :
    j < ls.length := by
  obtain ⟨q, h1, h2, x, hx, h3⟩ := h
  have := prot_le cfg x (ls.drop (q + 1))
  have := (List.getElem?_eq_some_iff.mp hx).1
  simp at *
  omega

theorem eq_of_flag (a b : List Bool) (hl : a.length = b.length) (h : ∀ j, flag a j = flag b j) : a = b := by
  apply List.ext_getElem hl
  intro i h1 h2
  have := h i
  simpa [flag, h1, h2] using this

theorem link_keep_eq_scan (cfg : Cfg) (ls : List Str) : (link cfg ls).keep = flagsScan cfg 0 ls := by
  apply eq_of_flag
  · rw [(link_wf cfg ls).2, link_texts_ll, flagsScan_length]
  · intro j
    rw [Bool.eq_iff_iff, link_flag, flagsScan_flag]
    constructor
    · intro h; exact ⟨covFrom_lt_length cfg ls 0 j h, Or.inr h⟩
    · rintro ⟨_, h | h⟩
      · omega
      · exact h

theorem keptAux_flagsScan (cfg : Cfg) (ls : List Str) : ∀ c, keptAux ls (flagsScan cfg c ls) = keptScan cfg c ls := by
  induction ls with
  | nil => intro c; rfl
  | cons x rest ih => intro c; simp only [flagsScan, keptAux, keptScan, ih]

theorem keptTexts_link_eq_scan (cfg : Cfg) (ls : List Str) : keptTexts (link cfg ls) = keptScan cfg 0 ls := by
  rw [keptTexts_eq, link_texts_ll, link_keep_eq_scan, keptAux_flagsScan]


/-! ## the scan is idempotent: one round of the filter is enough -/

theorem nonBlank_of_contains (y : Str) (d : Char) (h : (strip y).contains d = true) : nonBlank y = true := by
  unfold nonBlank
  cases hs : strip y with
  | nil => rw [hs] at h; simp at h
  | cons a b => rfl

theorem bannerBodyLen_stop (d : Char) (y : Str) (rest : List Str) (h : (strip y).contains d = true) :
    bannerBodyLen d (y :: rest) = 0 := by
  rw [bannerBodyLen, if_pos h]

theorem bannerBodyLen_go (d : Char) (y : Str) (rest : List Str) (h : ¬ (strip y).contains d = true) :
    bannerBodyLen d (y :: rest) = 1 + bannerBodyLen d rest := by
  rw [bannerBodyLen, if_neg h]

theorem macroBodyLen_stop (y : Str) (rest : List Str) (h : (rstrip y == ['@']) = true) :
    macroBodyLen (y :: rest) = 1 := by
  rw [macroBodyLen, if_pos h]

theorem macroBodyLen_go (y : Str) (rest : List Str) (h : ¬ (rstrip y == ['@']) = true) :
    macroBodyLen (y :: rest) = 1 + macroBodyLen rest := by
  rw [macroBodyLen, if_neg h]

theorem keptScan_cons_pos (cfg : Cfg) (c : Nat) (x : Str) (rest : List Str)
    (h : (nonBlank x || decide (0 < max c (prot cfg x rest))) = true) :
    keptScan cfg c (x :: rest) = x :: keptScan cfg (max c (prot cfg x rest) - 1) rest := by
  rw [keptScan, if_pos h]

theorem keptScan_cons_neg (cfg : Cfg) (c : Nat) (x : Str) (rest : List Str)
    (h : ¬ (nonBlank x || decide (0 < max c (prot cfg x rest))) = true) :
    keptScan cfg c (x :: rest) = keptScan cfg (max c (prot cfg x rest) - 1) rest := by
  rw [keptScan, if_neg h]

theorem bannerBodyLen_kept (cfg : Cfg) (d : Char) (rest : List Str) :
    ∀ k, bannerBodyLen d rest ≤ k → bannerBodyLen d (keptScan cfg k rest) = bannerBodyLen d rest := by
  induction rest with
  | nil => intro k _; rfl
  | cons y rest ih =>
    intro k hk
    by_cases hc : (strip y).contains d = true
    · rw [keptScan_cons_pos cfg k y rest (by simp [nonBlank_of_contains y d hc]),
        bannerBodyLen_stop d y _ hc, bannerBodyLen_stop d y _ hc]
    · rw [bannerBodyLen_go d y rest hc] at hk ⊢
      have hpos : 0 < max k (prot cfg y rest) := by omega
      rw [keptScan_cons_pos cfg k y rest (by simp [hpos]), bannerBodyLen_go d y _ hc, ih _ (by omega)]

theorem macroBodyLen_kept (cfg : Cfg) (rest : List Str) :
    ∀ k, macroBodyLen rest ≤ k → macroBodyLen (keptScan cfg k rest) = macroBodyLen rest := by
  induction rest with
  | nil => intro k _; rfl
  | cons y rest ih =>
    intro k hk
    by_cases hc : (rstrip y == ['@']) = true
    · rw [macroBodyLen_stop y rest hc] at hk ⊢
      have hpos : 0 < max k (prot cfg y rest) := by omega
      rw [keptScan_cons_pos cfg k y rest (by simp [hpos]), macroBodyLen_stop y _ hc]
    · rw [macroBodyLen_go y rest hc] at hk ⊢
      have hpos : 0 < max k (prot cfg y rest) := by omega
      rw [keptScan_cons_pos cfg k y rest (by simp [hpos]), macroBodyLen_go y _ hc, ih _ (by omega)]

theorem prot_kept (cfg : Cfg) (x : Str) (rest : List Str) (k : Nat) (h : prot cfg x rest ≤ k + 1) :
    prot cfg x (keptScan cfg k rest) = prot cfg x rest := by
  unfold prot at h ⊢
  have hB : protB x (keptScan cfg k rest) = protB x rest := by
    have hb : protB x rest ≤ k + 1 := by omega
    unfold protB at hb ⊢
    split
    · rename_i hs
      simp only [hs, if_true] at hb
      cases hd : bannerDelim x with
      | none => rfl
      | some d =>
        simp only [hd] at hb ⊢
        by_cases hc : countChar d x ≥ 2
        · simp [hc]
        · simp only [hc, if_false] at hb ⊢
          rw [bannerBodyLen_kept cfg d rest k (by omega)]
    · rfl
  rw [hB]
  cases hi : cfg.ios with
  | false => simp
  | true =>
    simp only [hi, if_true] at h ⊢
    have hM : protM x (keptScan cfg k rest) = protM x rest := by
      have hm : protM x rest ≤ k + 1 := by omega
      unfold protM at hm ⊢
      split
      · rename_i hs
        simp only [hs, if_true] at hm
        rw [macroBodyLen_kept cfg rest k (by omega)]
      · rfl
    rw [hM]

theorem keptScan_idem (cfg : Cfg) (ls : List Str) :
    ∀ c, keptScan cfg c (keptScan cfg c ls) = keptScan cfg c ls := by
  induction ls with
  | nil => intro c; rfl
  | cons x rest ih =>
    intro c
    by_cases hk : (nonBlank x || decide (0 < max c (prot cfg x rest))) = true
    · rw [keptScan_cons_pos cfg c x rest hk]
      have hp : prot cfg x (keptScan cfg (max c (prot cfg x rest) - 1) rest) = prot cfg x rest :=
        prot_kept cfg x rest _ (by omega)
      rw [keptScan_cons_pos cfg c x _ (by rw [hp]; exact hk), hp, ih]
    · rw [keptScan_cons_neg cfg c x rest hk]
      have h0 : max c (prot cfg x rest) = 0 := by
        simp at hk; omega
      have hc : c = 0 := by omega
      rw [h0, hc]
      exact ih 0

/-! ## the bootstrap with `ignore_blank_lines` -/

theorem bootstrapFuel_scan_stable (cfg : Cfg) (hi : cfg.ignoreBlank = true) (ls : List Str) (fuel : Nat) :
    (bootstrapFuel cfg fuel (keptScan cfg 0 ls)).texts = keptScan cfg 0 ls := by
  cases fuel with
  | zero => simp [bootstrapFuel, link_texts_ll]
  | succ fuel =>
    unfold bootstrapFuel
    simp only [hi, if_true, keptTexts_link_eq_scan, keptScan_idem, bne_self_eq_false]
    simp [link_texts_ll]

theorem bootstrap_texts_eq_scan (cfg : Cfg) (hi : cfg.ignoreBlank = true) (ls : List Str) :
    (bootstrap cfg ls).texts = keptScan cfg 0 ls := by
  unfold bootstrap
  cases ls with
  | nil => simp [bootstrapFuel, link_texts_ll, keptScan]
  | cons x rest =>
    show (bootstrapFuel cfg (rest.length + 1) (x :: rest)).texts = _
    generalize x :: rest = ls
    unfold bootstrapFuel
    simp only [hi, if_true, keptTexts_link_eq_scan]
    split
    · exact bootstrapFuel_scan_stable cfg hi ls _
    · rename_i heq
      simp at heq
      rw [link_texts_ll]
      have hs := keptTexts_sublist (link cfg ls)
      rw [keptTexts_link_eq_scan, link_texts_ll] at hs
      exact (hs.eq_of_length heq).symm


/-- without any start line the filter is just "drop the blank lines" -/
theorem keptScan_plain (cfg : Cfg) (ls : List Str)
    (hb : ∀ x ∈ ls, isBannerStart x = false)
    (hm : cfg.ios = true → ∀ x ∈ ls, isMacroStart x = false) :
    keptScan cfg 0 ls = ls.filter nonBlank := by
  induction ls with
  | nil => rfl
  | cons x rest ih =>
    have hp : prot cfg x rest = 0 := by
      unfold prot protB protM
      rw [hb x (List.mem_cons_self ..)]
      cases hi : cfg.ios with
      | false => simp
      | true => simp [hm hi x (List.mem_cons_self ..)]
    have ih' := ih (fun y hy => hb y (List.mem_cons_of_mem _ hy))
      (fun hi y hy => hm hi y (List.mem_cons_of_mem _ hy))
    by_cases hn : nonBlank x = true
    · rw [keptScan_cons_pos cfg 0 x rest (by simp [hn]), hp]
      simp [hn, ih']
    · rw [keptScan_cons_neg cfg 0 x rest (by simp [hn, hp]), hp]
      simp [hn, ih']

/-! ## the declarative reading -/

theorem inBody_iff (cfg : Cfg) (ls : List Str) (j : Nat) (hj : j < ls.length) :
    inBody cfg ls j = true ↔ CovFrom (prot cfg) ls 0 j := by
  unfold inBody CovFrom
  simp only [List.any_eq_true, List.mem_range, decide_eq_true_eq]
  constructor
  · rintro ⟨q, hq, h⟩
    have hq' : q < ls.length := by omega
    refine ⟨q, Nat.zero_le _, by omega, ls[q], List.getElem?_eq_getElem hq', ?_⟩
    simpa [List.getD_eq_getElem?_getD, List.getElem?_eq_getElem hq'] using h
  · rintro ⟨q, _, hq, x, hx, h⟩
    refine ⟨q, by omega, ?_⟩
    simpa [List.getD_eq_getElem?_getD, hx] using h

theorem flagsScan_eq_inBody (cfg : Cfg) (ls : List Str) :
    flagsScan cfg 0 ls = (List.range' 0 ls.length).map (inBody cfg ls) := by
  apply List.ext_getElem (by simp [flagsScan_length])
  intro j h0 h2
  have h1 : j < ls.length := by rwa [flagsScan_length] at h0
  have := flagsScan_flag cfg ls 0 j
  rw [← inBody_iff cfg ls j h1] at this
  simp only [flag, List.getD_eq_getElem?_getD, List.getElem?_eq_getElem h0, Option.getD_some] at this
  rw [Bool.eq_iff_iff, this]
  simp [h1]

theorem keptAux_zipIdx (f : Nat → Bool) (ls : List Str) : ∀ n,
    keptAux ls ((List.range' n ls.length).map f) =
      ((ls.zipIdx n).filter (fun xj => nonBlank xj.1 || f xj.2)).map Prod.fst := by
  induction ls with
  | nil => intro n; rfl
  | cons x rest ih =>
    intro n
    simp only [List.length_cons, List.range'_succ, List.map_cons, keptAux, List.zipIdx_cons, List.filter_cons]
    rw [ih (n + 1)]
    split <;> simp

/-- the scan, read position by position: line `j` is kept iff `keepSpec cfg ls j` -/
theorem keptScan_eq_filter (cfg : Cfg) (ls : List Str) :
    keptScan cfg 0 ls = (ls.zipIdx.filter (fun xj => keepSpec cfg ls xj.2)).map Prod.fst := by
  rw [← keptAux_flagsScan, flagsScan_eq_inBody, keptAux_zipIdx]
  congr 1
  apply List.filter_congr
  rintro ⟨x, j⟩ hm
  have := List.mem_zipIdx hm
  simp only [keepSpec]
  have hx : ls.getD j [] = x := by
    obtain ⟨_, h2, h3⟩ := this
    simp at h2 h3
    simp [List.getD_eq_getElem?_getD, List.getElem?_eq_getElem h2, h3]
  rw [hx]

end Ccp.Tree
