import Ccp.Proofs.Range
/-!
Helper lemmas for the harder C14 theorems: decimal strings, `split`/`join`, reading back a
text written without blanks, the index loop of `as_compressed_str` characterised by a
structural recursion (`emit`), and the maximal runs of an ascending list.  Core Lean only.
-/
namespace Ccp.Range
open Ccp.Py

/-! ### decimal strings -/

theorem toDecRev_lt (n : Nat) (h : n < 10) : toDecRev n = [Nat.digitChar n] := by
  rw [toDecRev]; simp [h]
theorem toDecRev_ge (n : Nat) (h : ¬ n < 10) :
    toDecRev n = Nat.digitChar (n % 10) :: toDecRev (n / 10) := by
  rw [toDecRev]; simp [h]

theorem digitChar_fin : ∀ d : Fin 10,
    isDigit (Nat.digitChar d.val) = true ∧ digitVal (Nat.digitChar d.val) = d.val := by decide

theorem isDigit_digitChar (d : Nat) (h : d < 10) : isDigit (Nat.digitChar d) = true :=
  (digitChar_fin ⟨d, h⟩).1
theorem digitVal_digitChar (d : Nat) (h : d < 10) : digitVal (Nat.digitChar d) = d :=
  (digitChar_fin ⟨d, h⟩).2

theorem toDecRev_digits (n : Nat) : ∀ c ∈ toDecRev n, isDigit c = true := by
  induction n using Nat.strongRecOn with
  | _ n ih =>
    by_cases h : n < 10
    · rw [toDecRev_lt n h]; intro c hc; simp at hc; subst hc; exact isDigit_digitChar n h
    · rw [toDecRev_ge n h]; intro c hc
      rcases List.mem_cons.mp hc with hc | hc
      · subst hc; exact isDigit_digitChar _ (by omega)
      · exact ih (n / 10) (by omega) c hc

/-- `str(n)` consists of ASCII digits only -/
theorem toDec_digits (n : Nat) : ∀ c ∈ toDec n, isDigit c = true := by
  intro c hc; exact toDecRev_digits n c (by simpa [toDec] using hc)

theorem toDec_ne_nil (n : Nat) : toDec n ≠ [] := by
  unfold toDec
  by_cases h : n < 10
  · simp [toDecRev_lt n h]
  · simp [toDecRev_ge n h]

theorem ofDigitsAux_append (xs ys : List Char) (acc : Nat) :
    ofDigitsAux (xs ++ ys) acc = (ofDigitsAux xs acc).bind (fun a => ofDigitsAux ys a) := by
  induction xs generalizing acc with
  | nil => simp [ofDigitsAux]
  | cons c cs ih =>
    simp only [List.cons_append, ofDigitsAux]
    split
    · exact ih _
    · rfl

theorem ofDigitsAux_toDec (n : Nat) : ofDigitsAux (toDec n) 0 = some n := by
  induction n using Nat.strongRecOn with
  | _ n ih =>
    unfold toDec
    by_cases h : n < 10
    · simp [toDecRev_lt n h, ofDigitsAux, isDigit_digitChar n h, digitVal_digitChar n h]
    · have := ih (n / 10) (by omega)
      unfold toDec at this
      rw [toDecRev_ge n h]
      simp only [List.reverse_cons, ofDigitsAux_append, this, Option.bind_some]
      simp [ofDigitsAux, isDigit_digitChar (n % 10) (by omega), digitVal_digitChar (n % 10) (by omega)]
      omega

/-- `int(str(n)) = n` on the digit level -/
theorem ofDigits_toDec (n : Nat) : ofDigits (toDec n) = some n := by
  unfold ofDigits; simp [toDec_ne_nil, ofDigitsAux_toDec]

/-! ### digits are not separators, signs or blanks -/

theorem digit_range : ∀ k : Fin 10, Gen.whitespace.contains (48 + k.val) = false := by decide

theorem isSpace_of_isDigit (c : Char) (h : isDigit c = true) : isSpace c = false := by
  unfold isDigit at h
  simp only [Bool.and_eq_true, decide_eq_true_eq] at h
  have := digit_range ⟨c.toNat - 48, by omega⟩
  unfold isSpace
  have e : 48 + (c.toNat - 48) = c.toNat := by omega
  simpa [e] using this

theorem ne_of_isDigit (c d : Char) (h : isDigit c = true) (hd : isDigit d = false) : c ≠ d := by
  intro e; subst e; simp [h] at hd

theorem not_mem_of_digits (s : Str) (hs : ∀ c ∈ s, isDigit c = true) (d : Char)
    (hd : isDigit d = false) : d ∉ s := by
  intro hm; have := hs d hm; simp [this] at hd

theorem lstrip_digits (s : Str) (hs : ∀ c ∈ s, isDigit c = true) : lstrip s = s := by
  cases s with
  | nil => rfl
  | cons c cs => simp [lstrip, List.dropWhile, isSpace_of_isDigit c (hs c (by simp))]

theorem rstrip_digits (s : Str) (hs : ∀ c ∈ s, isDigit c = true) : rstrip s = s := by
  unfold rstrip
  have : lstrip s.reverse = s.reverse := lstrip_digits _ (by simpa using hs)
  unfold lstrip at this
  rw [this]; simp

/-- `s.strip()` of a digit string is the string itself -/
theorem strip_digits (s : Str) (hs : ∀ c ∈ s, isDigit c = true) : strip s = s := by
  unfold strip; rw [lstrip_digits s hs, rstrip_digits s hs]

theorem filter_digits (s : Str) (hs : ∀ c ∈ s, isDigit c = true) : s.filter isDigit = s :=
  List.filter_eq_self.mpr hs

theorem pyInt_toDec (n : Nat) : pyInt (toDec n) = some (Int.ofNat n) := by
  unfold pyInt
  rw [strip_digits _ (toDec_digits n)]
  have hd := toDec_digits n
  have ho := ofDigits_toDec n
  generalize toDec n = s at hd ho
  split
  · exact absurd (hd '-' (by simp)) (by decide)
  · exact absurd (hd '+' (by simp)) (by decide)
  · simp [ho]

theorem pyNat_toDec (n : Nat) : pyNat (toDec n) = some n := by
  unfold pyNat; rw [pyInt_toDec]

/-! ### `split` / `join` -/

theorem splitOn_ne_nil (sep : Char) (s : Str) : splitOn sep s ≠ [] := by
  induction s with
  | nil => simp [splitOn]
  | cons c cs ih =>
    unfold splitOn
    split
    · simp
    · split <;> simp

theorem splitOn_not_mem (sep : Char) (w : Str) (h : sep ∉ w) : splitOn sep w = [w] := by
  induction w with
  | nil => rfl
  | cons c cs ih =>
    have hc : c ≠ sep := fun e => h (by simp [e])
    have := ih (fun hm => h (by simp [hm]))
    simp [splitOn, this, hc]

theorem splitOn_append (sep : Char) (w rest : Str) (h : sep ∉ w) :
    splitOn sep (w ++ sep :: rest) = w :: splitOn sep rest := by
  induction w with
  | nil =>
    simp only [List.nil_append, splitOn]
    split
    · rename_i e; exact absurd e (splitOn_ne_nil _ _)
    · rename_i e; simp [e]
  | cons c cs ih =>
    have hc : c ≠ sep := fun e => h (by simp [e])
    have := ih (fun hm => h (by simp [hm]))
    simp [splitOn, this, hc]

/-- `",".join(ws).split(",") == ws` when no piece contains the separator -/
theorem splitOn_join (sep : Char) (ws : List Str) (hne : ws ≠ []) (h : ∀ w ∈ ws, sep ∉ w) :
    splitOn sep (join [sep] ws) = ws := by
  induction ws with
  | nil => exact absurd rfl hne
  | cons w ws ih =>
    cases ws with
    | nil => simpa [join] using splitOn_not_mem sep w (h w (by simp))
    | cons w2 ws =>
      have := ih (by simp) (fun x hx => h x (by simp [hx]))
      simp only [join, List.append_assoc, List.singleton_append]
      rw [splitOn_append sep w _ (h w (by simp))]
      rw [this]

theorem splitOn_cons_sep (sep : Char) (cs : Str) :
    splitOn sep (sep :: cs) = [] :: splitOn sep cs := by
  simp only [splitOn]
  split
  · rename_i e; exact absurd e (splitOn_ne_nil _ _)
  · rename_i e; simp [e]

theorem tail_splitOn_cons (sep c : Char) (cs : Str) (x : Str) (hx : x ∈ (splitOn sep cs).tail) :
    x ∈ (splitOn sep (c :: cs)).tail := by
  simp only [splitOn]
  split
  · rename_i e; exact absurd e (splitOn_ne_nil _ _)
  · rename_i w ws e
    rw [e] at hx
    split <;> simp_all

/-- a text with `,,` has an empty piece after the first one -/
theorem hasDoubleComma_tail (s : Str) (h : hasDoubleComma s = true) :
    [] ∈ (splitOn ',' s).tail := by
  fun_induction hasDoubleComma s with
  | case1 t => simp [splitOn_cons_sep]
  | case2 c cs hn ih => exact tail_splitOn_cons _ _ _ _ (ih h)
  | case3 => simp at h

theorem hasDoubleComma_false (s : Str) (h : ∀ w ∈ splitOn ',' s, w ≠ []) :
    hasDoubleComma s = false := by
  cases hd : hasDoubleComma s with
  | false => rfl
  | true => exact absurd rfl (h [] (List.mem_of_mem_tail (hasDoubleComma_tail s hd)))

/-! ### one part, written without blanks -/

/-- the text of one part: `lo` or `lo-hi` -/
def renderPart : Nat × Option Nat → Str
  | (lo, none) => toDec lo
  | (lo, some hi) => toDec lo ++ '-' :: toDec hi

theorem dash_not_mem_toDec (n : Nat) : '-' ∉ toDec n :=
  not_mem_of_digits _ (toDec_digits n) '-' (by decide)
theorem comma_not_mem_toDec (n : Nat) : ',' ∉ toDec n :=
  not_mem_of_digits _ (toDec_digits n) ',' (by decide)

theorem splitOn_dash (a b : Nat) : splitOn '-' (toDec a ++ '-' :: toDec b) = [toDec a, toDec b] := by
  rw [splitOn_append _ _ _ (dash_not_mem_toDec a), splitOn_not_mem _ _ (dash_not_mem_toDec b)]

theorem parsePart_single (n : Nat) : parsePart (toDec n) = .ok (n, none) := by
  unfold parsePart
  simp [dash_not_mem_toDec, pyNat_toDec]

theorem parsePart_interval (a b : Nat) : parsePart (toDec a ++ '-' :: toDec b) = .ok (a, some b) := by
  unfold parsePart
  have : (toDec a ++ '-' :: toDec b).contains '-' = true := by simp
  simp only [this, if_true, splitOn_dash, strip_digits _ (toDec_digits _), pyNat_toDec,
    filter_digits _ (toDec_digits _), ofDigits_toDec]

/-- every part written without blanks is read back as itself -/
theorem parsePart_renderPart (p : Nat × Option Nat) : parsePart (renderPart p) = .ok p := by
  obtain ⟨lo, _ | hi⟩ := p
  · exact parsePart_single lo
  · exact parsePart_interval lo hi

theorem renderPart_ne_nil (p : Nat × Option Nat) : renderPart p ≠ [] := by
  obtain ⟨lo, _ | hi⟩ := p
  · exact toDec_ne_nil lo
  · simp [renderPart]

theorem comma_not_mem_renderPart (p : Nat × Option Nat) : ',' ∉ renderPart p := by
  obtain ⟨lo, _ | hi⟩ := p
  · exact comma_not_mem_toDec lo
  · simp [renderPart, comma_not_mem_toDec]

theorem mapM_of_left_inverse {α β ε} (f : α → Except ε β) (g : β → α) (h : ∀ y, f (g y) = .ok y)
    (l : List β) : (l.map g).mapM f = .ok l := by
  induction l with
  | nil => rfl
  | cons y ys ih => simp [List.mapM_cons, h, ih]; rfl

theorem join_ne_nil (sep : Str) (ws : List Str) (hne : ws ≠ []) (h : ∀ w ∈ ws, w ≠ []) :
    join sep ws ≠ [] := by
  match ws, hne with
  | [w], _ => simpa [join] using h w (by simp)
  | w :: w2 :: ws, _ => simp [join, h w (by simp)]

/-- the text of a list of parts -/
def renderParts (ps : List (Nat × Option Nat)) : Str := join [','] (ps.map renderPart)

theorem parseParts_renderParts (ps : List (Nat × Option Nat)) (hne : ps ≠ []) :
    parseParts (renderParts ps) = .ok ps := by
  unfold parseParts renderParts
  rw [splitOn_join ',' _ (by simpa using hne)
    (by intro w hw; obtain ⟨p, _, rfl⟩ := List.mem_map.mp hw; exact comma_not_mem_renderPart p)]
  exact mapM_of_left_inverse _ _ parsePart_renderPart ps

/-- **String level**: any non-empty list of parts, written without blanks and joined by
commas, is accepted and denotes the sorted union of its parts. -/
theorem parse_renderParts (ps : List (Nat × Option Nat)) (hne : ps ≠ []) :
    parse (renderParts ps) = .ok (sortedSet (ps.flatMap expandPart)) := by
  have hmem : ∀ w ∈ ps.map renderPart, w ≠ [] := by
    intro w hw; obtain ⟨p, _, rfl⟩ := List.mem_map.mp hw; exact renderPart_ne_nil p
  have h1 : renderParts ps ≠ [] := join_ne_nil _ _ (by simpa using hne) hmem
  have h2 : hasDoubleComma (renderParts ps) = false := by
    apply hasDoubleComma_false
    unfold renderParts
    rw [splitOn_join ',' _ (by simpa using hne)
      (by intro w hw; obtain ⟨p, _, rfl⟩ := List.mem_map.mp hw; exact comma_not_mem_renderPart p)]
    exact hmem
  unfold parse
  simp [h1, h2, parseParts_renderParts ps hne]

/-! ### maximal runs -/

/-- maximal runs `(first, last)` of consecutive values of a strictly ascending list -/
def runs : List Nat → List (Nat × Nat)
  | [] => []
  | x :: xs =>
    match runs xs with
    | (a, b) :: rs => if x + 1 = a then (x, b) :: rs else (x, x) :: (a, b) :: rs
    | [] => [(x, x)]

def renderRun : Nat × Nat → Str
  | (a, b) => if a = b then toDec a else if a + 1 = b then toDec a ++ ',' :: toDec b
              else toDec a ++ '-' :: toDec b

def renderRuns (rs : List (Nat × Nat)) : Str := join [','] (rs.map renderRun)

theorem runs_cons_head (x : Nat) (xs : List Nat) :
    ∃ b rs, runs (x :: xs) = (x, b) :: rs ∧ x ≤ b := by
  induction xs generalizing x with
  | nil => exact ⟨x, [], rfl, Nat.le_refl _⟩
  | cons y ys ih =>
    obtain ⟨b, rs, e, hb⟩ := ih y
    by_cases h : x + 1 = y
    · exact ⟨b, rs, by rw [runs, e]; simp [h], by omega⟩
    · exact ⟨x, (y, b) :: rs, by rw [runs, e]; simp [h], Nat.le_refl _⟩

theorem runs_cons_adj (x y : Nat) (rest : List Nat) (b : Nat) (rs : List (Nat × Nat))
    (e : runs (y :: rest) = (y, b) :: rs) (h : x + 1 = y) :
    runs (x :: y :: rest) = (x, b) :: rs := by
  rw [runs, e]; simp [h]

theorem runs_cons_gap (x y : Nat) (rest : List Nat) (h : x + 1 ≠ y) :
    runs (x :: y :: rest) = (x, x) :: runs (y :: rest) := by
  obtain ⟨b, rs, e, _⟩ := runs_cons_head y rest
  rw [runs, e]; simp [h]

theorem join_cons_cons (sep w : Str) (ws : List Str) (h : ws ≠ []) :
    join sep (w :: ws) = w ++ sep ++ join sep ws := by
  cases ws with
  | nil => exact absurd rfl h
  | cons a as => rfl

/-- the text after the first run -/
def moreRuns (rs : List (Nat × Nat)) : Str := rs.flatMap (fun r => ',' :: renderRun r)

theorem renderRuns_cons (r : Nat × Nat) (rs : List (Nat × Nat)) :
    renderRuns (r :: rs) = renderRun r ++ moreRuns rs := by
  induction rs generalizing r with
  | nil => simp [renderRuns, moreRuns, join]
  | cons s rs ih =>
    have := ih s
    unfold renderRuns at this ⊢
    simp only [List.map_cons] at this ⊢
    rw [join_cons_cons _ _ _ (by simp), this]
    simp [moreRuns]

/-! ### the index loop, token level -/

/-- the tokens appended by `windowLoop`, in order; `d` = the last token so far is a dash -/
def emit : Bool → Nat → List Nat → List Tok
  | d, prev, x :: y :: rest =>
    if x - prev = 1 ∧ prev < x ∧ y - x = 1 ∧ x < y then
      (if d then emit true x (y :: rest) else Tok.dash :: emit true x (y :: rest))
    else Tok.num x :: emit false x (y :: rest)
  | _, _, _ => []

theorem windowLoop_eq (prev : Nat) (l : List Nat) (acc : List Tok) :
    windowLoop prev l acc = (emit (decide (acc.head? = some Tok.dash)) prev l).reverse ++ acc := by
  induction l generalizing prev acc with
  | nil => simp [windowLoop, emit]
  | cons x xs ih =>
    cases xs with
    | nil => simp [windowLoop, emit]
    | cons y rest =>
      rw [windowLoop, emit, ih]
      by_cases hm : x - prev = 1 ∧ prev < x ∧ y - x = 1 ∧ x < y
      · by_cases hd : acc.head? = some Tok.dash
        · simp [hm, hd]
        · simp [hm, hd]
      · simp [hm]

theorem compressToks_eq (a b : Nat) (rest : List Nat) :
    compressToks (a :: b :: rest) =
      Tok.num a :: (emit false a (b :: rest) ++ [Tok.num ((b :: rest).getLast?.getD 0)]) := by
  simp [compressToks, windowLoop_eq, List.getLast?_cons]

theorem renderFrom_num_cons (p n : Nat) (ts : List Tok) :
    renderFrom (Tok.num p) (Tok.num n :: ts) = ',' :: toDec n ++ renderFrom (Tok.num n) ts := by
  simp [renderFrom, sameKind, renderTok]
theorem renderFrom_dash_num (n : Nat) (ts : List Tok) :
    renderFrom Tok.dash (Tok.num n :: ts) = toDec n ++ renderFrom (Tok.num n) ts := by
  simp [renderFrom, sameKind, renderTok]
theorem renderFrom_num_dash (p : Nat) (ts : List Tok) :
    renderFrom (Tok.num p) (Tok.dash :: ts) = '-' :: renderFrom Tok.dash ts := by
  simp [renderFrom, sameKind, renderTok]

/-- the rendering of what the loop emits after `prev`, in both loop states -/
theorem render_emit (l : List Nat) : ∀ prev, l ≠ [] → (prev :: l).Pairwise (· < ·) →
    (toDec prev ++ renderFrom (Tok.num prev) (emit false prev l ++ [Tok.num (l.getLast?.getD 0)])
        = renderRuns (runs (prev :: l))) ∧
    (∀ b rs, l.head? = some (prev + 1) → runs (prev :: l) = (prev, b) :: rs →
      renderFrom Tok.dash (emit true prev l ++ [Tok.num (l.getLast?.getD 0)])
        = toDec b ++ moreRuns rs) := by
  induction l with
  | nil => intro _ h; exact absurd rfl h
  | cons x xs ih =>
    intro prev _ hs
    have hpx : prev < x := (List.pairwise_cons.mp hs).1 x (by simp)
    cases xs with
    | nil =>
      constructor
      · by_cases h : prev + 1 = x
        · simp [emit, renderFrom_num_cons, renderFrom, runs, h, renderRuns, join, renderRun]
          omega
        · simp [emit, renderFrom_num_cons, renderFrom, runs, h, renderRuns, join, renderRun]
      · intro b rs hh hr
        simp at hh
        simp [runs, hh] at hr
        obtain ⟨rfl, rfl⟩ := hr
        simp [emit, renderFrom_dash_num, renderFrom, hh, moreRuns]
    | cons y rest =>
      have hs' : (x :: y :: rest).Pairwise (· < ·) := (List.pairwise_cons.mp hs).2
      have hxy : x < y := (List.pairwise_cons.mp hs').1 y (by simp)
      obtain ⟨ihA, ihB⟩ := ih x (by simp) hs'
      obtain ⟨b', rs', e', hb'⟩ := runs_cons_head y rest
      simp only [List.getLast?_cons_cons] at ihA ihB ⊢
      by_cases hm : x - prev = 1 ∧ prev < x ∧ y - x = 1 ∧ x < y
      · -- interior of a run
        have h1 : prev + 1 = x := by omega
        have h2 : x + 1 = y := by omega
        have ex := runs_cons_adj x y rest b' rs' e' h2
        have ep := runs_cons_adj prev x (y :: rest) b' rs' ex h1
        have hB := ihB b' rs' (by simp [h2]) ex
        constructor
        · rw [emit]; simp only [hm, and_self, if_true, Bool.false_eq_true, if_false]
          rw [List.cons_append, renderFrom_num_dash, hB, ep, renderRuns_cons]
          have n1 : ¬ prev = b' := by omega
          have n2 : ¬ prev + 1 = b' := by omega
          simp [renderRun, n1, n2]
        · intro b rs _ hr
          rw [ep] at hr
          simp at hr
          rw [emit]; simp only [hm, and_self, if_true]
          rw [hB, hr.1, hr.2]
      · -- `x` ends or starts a run: its number is written
        rw [emit, emit]; simp only [hm, if_false]
        simp only [List.cons_append, renderFrom_num_cons, renderFrom_dash_num]
        constructor
        · rw [ihA]
          by_cases h1 : prev + 1 = x
          · have h2 : x + 1 ≠ y := by omega
            have ex := runs_cons_gap x y rest h2
            have ep := runs_cons_adj prev x (y :: rest) x _ ex h1
            rw [ex, ep, renderRuns_cons, renderRuns_cons]
            have n1 : ¬ prev = x := by omega
            simp [renderRun, n1, h1]
          · rw [runs_cons_gap prev x (y :: rest) h1, renderRuns_cons (prev, prev)]
            obtain ⟨bx, rsx, ex, _⟩ := runs_cons_head x (y :: rest)
            rw [ex, renderRuns_cons (x, bx)]
            simp [renderRun, moreRuns]
        · intro b rs hh hr
          simp at hh
          have h2 : x + 1 ≠ y := by omega
          have ex := runs_cons_gap x y rest h2
          have ep := runs_cons_adj prev x (y :: rest) x _ ex hh.symm
          rw [ep] at hr
          simp at hr
          rw [ihA, ex, renderRuns_cons, ← hr.1, ← hr.2]
          simp [renderRun]

/-- the index loop with its window and the type-switch comma logic writes the maximal runs -/
theorem renderToks_compressToks (s : List Nat) (h : s.Pairwise (· < ·)) :
    renderToks (compressToks s) = renderRuns (runs s) := by
  match s, h with
  | [], _ => rfl
  | [a], _ => simp [compressToks, renderToks, renderFrom, renderTok, runs, renderRuns, join, renderRun]
  | a :: b :: rest, h =>
    rw [compressToks_eq, renderToks, renderTok]
    exact (render_emit (b :: rest) a (by simp) h).1

theorem compress_eq (s : List Nat) (h : s.Pairwise (· < ·)) : compress s = renderRuns (runs s) := by
  unfold compress; rw [sortedSet_of_sorted s h, renderToks_compressToks s h]

/-! ### what makes the runs canonical -/

theorem upto_cons (lo hi : Nat) (h : lo ≤ hi) : upto lo hi = lo :: upto (lo + 1) hi := by
  unfold upto
  have e : hi + 1 - lo = (hi + 1 - (lo + 1)) + 1 := by omega
  rw [e, List.range_succ_eq_map]
  simp [List.map_map, Function.comp_def]
  intro a _; omega

theorem upto_self (a : Nat) : upto a a = [a] := by simp [upto]

/-- the runs, expanded, are the list itself: they cover exactly `S`, in order -/
theorem runs_cover (s : List Nat) : (runs s).flatMap (fun r => upto r.1 r.2) = s := by
  induction s with
  | nil => rfl
  | cons x xs ih =>
    cases xs with
    | nil => simp [runs, upto_self]
    | cons y rest =>
      obtain ⟨b, rs, e, hb⟩ := runs_cons_head y rest
      by_cases h : x + 1 = y
      · rw [runs_cons_adj x y rest b rs e h]
        rw [e] at ih
        simp only [List.flatMap_cons] at ih ⊢
        rw [upto_cons x b (by omega), h, List.cons_append, ih]
      · rw [runs_cons_gap x y rest h]
        simp only [List.flatMap_cons, upto_self, ih]; rfl

theorem runs_le (s : List Nat) : ∀ r ∈ runs s, r.1 ≤ r.2 := by
  induction s with
  | nil => simp [runs]
  | cons x xs ih =>
    cases xs with
    | nil => simp [runs]
    | cons y rest =>
      obtain ⟨b, rs, e, hb⟩ := runs_cons_head y rest
      rw [e] at ih
      by_cases h : x + 1 = y
      · rw [runs_cons_adj x y rest b rs e h]
        intro r hr
        rcases List.mem_cons.mp hr with rfl | hr
        · simp; omega
        · exact ih r (by simp [hr])
      · rw [runs_cons_gap x y rest h, e]
        intro r hr
        rcases List.mem_cons.mp hr with rfl | hr
        · simp
        · exact ih r hr

/-- consecutive runs are separated by a gap: the runs are maximal and ascending -/
theorem runs_separated (s : List Nat) (hs : s.Pairwise (· < ·)) :
    (runs s).Pairwise (fun r t => r.2 + 2 ≤ t.1) := by
  induction s with
  | nil => simp [runs]
  | cons x xs ih =>
    have hs' := (List.pairwise_cons.mp hs).2
    cases xs with
    | nil => simp [runs]
    | cons y rest =>
      have hxy : x < y := (List.pairwise_cons.mp hs).1 y (by simp)
      obtain ⟨b, rs, e, hb⟩ := runs_cons_head y rest
      have ih := ih hs'
      by_cases h : x + 1 = y
      · rw [runs_cons_adj x y rest b rs e h]
        rw [e] at ih
        exact List.pairwise_cons.mpr ⟨(List.pairwise_cons.mp ih).1, (List.pairwise_cons.mp ih).2⟩
      · rw [runs_cons_gap x y rest h]
        refine List.pairwise_cons.mpr ⟨?_, ih⟩
        intro t ht
        rw [e] at ht ih
        have hle := runs_le (y :: rest)
        rw [e] at hle
        rcases List.mem_cons.mp ht with rfl | ht
        · simp; omega
        · have := (List.pairwise_cons.mp ih).1 t ht
          simp at this ⊢; omega

/-! ### the canonical text, as a list of parts -/

/-- the parts written for one run -/
def partsOfRun : Nat × Nat → List (Nat × Option Nat)
  | (a, b) => if a = b then [(a, none)] else if a + 1 = b then [(a, none), (b, none)]
              else [(a, some b)]

theorem join_append (ws vs : List Str) (hw : ws ≠ []) (hv : vs ≠ []) :
    join [','] (ws ++ vs) = join [','] ws ++ ',' :: join [','] vs := by
  induction ws with
  | nil => exact absurd rfl hw
  | cons w ws ih =>
    cases ws with
    | nil =>
      simp only [List.singleton_append]
      rw [join_cons_cons _ _ _ hv]; simp [join]
    | cons w2 ws =>
      have := ih (by simp)
      rw [List.cons_append, join_cons_cons [','] w (w2 :: ws ++ vs) (by simp), this,
        join_cons_cons [','] w (w2 :: ws) (by simp)]
      simp

theorem partsOfRun_ne_nil (r : Nat × Nat) : partsOfRun r ≠ [] := by
  obtain ⟨a, b⟩ := r
  simp only [partsOfRun]; split
  · simp
  · split <;> simp

theorem renderParts_partsOfRun (r : Nat × Nat) : renderParts (partsOfRun r) = renderRun r := by
  obtain ⟨a, b⟩ := r
  simp only [partsOfRun, renderRun, renderParts]; split
  · simp [join, renderPart]
  · split <;> simp [join, renderPart]

theorem renderRuns_eq_renderParts (rs : List (Nat × Nat)) :
    renderRuns rs = renderParts (rs.flatMap partsOfRun) := by
  induction rs with
  | nil => rfl
  | cons r rs ih =>
    cases rs with
    | nil => simp [renderRuns, join, renderParts_partsOfRun]
    | cons r2 rs =>
      rw [renderRuns_cons, List.flatMap_cons]
      unfold renderParts at ih ⊢
      rw [List.map_append, join_append _ _ (by simpa using partsOfRun_ne_nil r)
        (by simp [partsOfRun_ne_nil]), ← ih]
      have := renderParts_partsOfRun r
      unfold renderParts at this
      rw [this, renderRuns_cons]
      simp [moreRuns]

theorem expand_partsOfRun (r : Nat × Nat) (h : r.1 ≤ r.2) :
    (partsOfRun r).flatMap expandPart = upto r.1 r.2 := by
  obtain ⟨a, b⟩ := r
  simp only at h
  simp only [partsOfRun]; split
  · rename_i e; subst e; simp [expandPart, upto_self]
  · split
    · rename_i e; subst e
      rw [upto_cons a (a + 1) (by omega), upto_self]; simp [expandPart]
    · simp [expandPart]

theorem flatMap_congr' {α β} (l : List α) (f g : α → List β) (h : ∀ x ∈ l, f x = g x) :
    l.flatMap f = l.flatMap g := by
  induction l with
  | nil => rfl
  | cons a as ih =>
    simp only [List.flatMap_cons]
    rw [h a (by simp), ih (fun x hx => h x (by simp [hx]))]

theorem expand_parts_runs (s : List Nat) :
    ((runs s).flatMap partsOfRun).flatMap expandPart = s := by
  rw [List.flatMap_assoc]
  have : ∀ r ∈ runs s, (partsOfRun r).flatMap expandPart = upto r.1 r.2 :=
    fun r hr => expand_partsOfRun r (runs_le s r hr)
  rw [flatMap_congr' _ _ _ this]
  exact runs_cover s

theorem runs_ne_nil (s : List Nat) (h : s ≠ []) : runs s ≠ [] := by
  cases s with
  | nil => exact absurd rfl h
  | cons x xs => obtain ⟨b, rs, e, _⟩ := runs_cons_head x xs; simp [e]

/-- the canonical text of a strictly ascending list is read back as that list -/
theorem parse_renderRuns (s : List Nat) (h : s.Pairwise (· < ·)) :
    parse (renderRuns (runs s)) = .ok s := by
  cases s with
  | nil => rfl
  | cons x xs =>
    rw [renderRuns_eq_renderParts, parse_renderParts, expand_parts_runs, sortedSet_of_sorted _ h]
    obtain ⟨b, rs, e, _⟩ := runs_cons_head x xs
    rw [e, List.flatMap_cons]
    simp [partsOfRun_ne_nil]

end Ccp.Range
