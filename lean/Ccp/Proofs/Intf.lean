import Ccp.Model.Intf
import Ccp.Proofs.Range
/-! Helper lemmas for C15. Core Lean only. -/
namespace Ccp.Intf
open Ccp.Py

theorem listLt_self (l : List Cell) : listLt l l = .ok false := by
  induction l with
  | nil => rfl
  | cons a as ih => simp [listLt, ih]

theorem strLt_irrefl (u : Str) : strLt u u = false := by
  induction u with
  | nil => rfl
  | cons a as ih => simp [strLt, ih]

/-- which optional components are present -/
def shape (i : Intf) : Bool × Bool × Bool × Bool × Bool :=
  (i.slot.isSome, i.card.isSome, i.sub.isSome, i.chan.isSome, i.cls.isSome)

/-- the numeric components in the order slot, card, port, subinterface, channel -/
def key (i : Intf) : List Nat :=
  i.slot.toList ++ i.card.toList ++ [i.port] ++ i.sub.toList ++ i.chan.toList

def lexLt : List Nat → List Nat → Bool
  | [], [] => false
  | [], _ :: _ => true
  | _ :: _, [] => false
  | a :: as, b :: bs => if a = b then lexLt as bs else a < b

def clsLt : Option Str → Option Str → Bool
  | some u, some v => strLt u v
  | _, _ => false

theorem lt_same_shape (a b : Intf) (h : shape a = shape b) :
    lt a b = .ok (if key a = key b then clsLt a.cls b.cls else lexLt (key a) (key b)) := by
  obtain ⟨pa, sa, sla, ca, pta, sua, cha, cla⟩ := a
  obtain ⟨pb, sb, slb, cb, ptb, sub, chb, clb⟩ := b
  simp only [shape, Prod.mk.injEq] at h
  obtain ⟨h1, h2, h3, h4, h5⟩ := h
  cases sla <;> cases slb <;> simp at h1 <;>
  cases ca <;> cases cb <;> simp at h2 <;>
  cases sua <;> cases sub <;> simp at h3 <;>
  cases cha <;> cases chb <;> simp at h4 <;>
  cases cla <;> cases clb <;> simp at h5 <;>
  simp [lt, sortList, cellOf, listLt, cellLt, key, lexLt, clsLt] <;>
  grind [strLt_irrefl]

/-! ### ranges -/

/-- the member with the iterated attribute set to `n` -/
def vary (b : Intf) (a : Attr) (n : Nat) : Intf := setAttr b a (some n)

theorem lt_vary (b : Intf) (a : Attr) (x y : Nat) : lt (vary b a x) (vary b a y) = .ok (decide (x < y)) := by
  cases a <;> simp [vary, setAttr, lt, sortList, listLt, cellLt, cellOf] <;>
  intro h <;> simp [h]

theorem eq_vary (b : Intf) (a : Attr) (x y : Nat) : eq (vary b a x) (vary b a y) = decide (x = y) := by
  cases a <;> simp [vary, setAttr, eq, sortList, cellOf] <;>
  by_cases h : x = y <;> simp [h]

theorem insertMember_vary (b : Intf) (a : Attr) (x : Nat) (l : List Nat) :
    insertMember (vary b a x) (l.map (vary b a)) = .ok ((Ccp.Range.insertAsc x l).map (vary b a)) := by
  induction l with
  | nil => rfl
  | cons y ys ih =>
    simp only [List.map_cons, insertMember, eq_vary, lt_vary, Ccp.Range.insertAsc]
    by_cases h1 : x = y
    · subst h1; simp
    · by_cases h2 : x < y
      · simp [h1, h2]
      · simp [h1, h2, ih]

theorem sortedMembers_vary (b : Intf) (a : Attr) (ns : List Nat) :
    sortedMembers (ns.map (vary b a)) = .ok ((Ccp.Range.sortedSet ns).map (vary b a)) := by
  induction ns with
  | nil => rfl
  | cons n ns ih =>
    simp only [List.map_cons, sortedMembers, ih]
    exact insertMember_vary b a n _

theorem pairwise_vary (b : Intf) (a : Attr) (l : List Nat) (h : l.Pairwise (· < ·)) :
    (l.map (vary b a)).Pairwise (fun x y => lt x y = .ok true) := by
  rw [List.pairwise_map]
  exact h.imp (fun {x y} hxy => by simp [lt_vary, hxy])


theorem plan_attr (text : Str) (b : Intf) (a : Attr) (ps : List (Option Nat × Option Nat))
    (h : plan text = .ok (b, a, ps)) : a = iterAttr b := by
  unfold plan at h
  split at h
  · cases h
  · split at h
    · cases h
    · simp only at h
      split at h
      · cases h
      · simp only [Except.ok.injEq, Prod.mk.injEq] at h
        obtain ⟨h1, h2, _⟩ := h
        rw [← h1, ← h2]


/-! ## name round trip -/

/-! ### digits -/
theorem digitChar_isDigit : ∀ k : Fin 10, isDigit (Nat.digitChar k.val) = true ∧ digitVal (Nat.digitChar k.val) = k.val := by decide

theorem toDecRev_digits (n : Nat) : ∀ c ∈ toDecRev n, isDigit c = true := by
  induction n using Nat.strongRecOn with
  | _ n ih =>
    rw [toDecRev]
    by_cases h : n < 10
    · simp [h]; exact (digitChar_isDigit ⟨n, h⟩).1
    · simp only [h, dite_false, List.mem_cons]
      rintro c (rfl | hc)
      · exact (digitChar_isDigit ⟨n % 10, by omega⟩).1
      · exact ih (n / 10) (by omega) c hc

theorem toDec_digits (n : Nat) : ∀ c ∈ toDec n, isDigit c = true := by
  intro c hc; exact toDecRev_digits n c (by simpa [toDec] using hc)

theorem toDecRev_ne_nil (n : Nat) : toDecRev n ≠ [] := by
  rw [toDecRev]; by_cases h : n < 10 <;> simp [h]

theorem toDec_ne_nil (n : Nat) : toDec n ≠ [] := by
  simp [toDec, toDecRev_ne_nil]

theorem natOf_append_one (xs : Str) (c : Char) : natOf (xs ++ [c]) = natOf xs * 10 + digitVal c := by
  simp [natOf, List.foldl_append]

theorem natOf_toDec (n : Nat) : natOf (toDec n) = n := by
  induction n using Nat.strongRecOn with
  | _ n ih =>
    unfold toDec
    rw [toDecRev]
    by_cases h : n < 10
    · simp [h, natOf]; exact (digitChar_isDigit ⟨n, h⟩).2
    · simp only [h, dite_false, List.reverse_cons]
      rw [natOf_append_one]
      have := ih (n / 10) (by omega)
      unfold toDec at this
      have hd := (digitChar_isDigit ⟨n % 10, by omega⟩).2
      simp only at hd
      rw [this, hd]
      omega

/-- the head of `t` is not a digit -/
def NDH (t : Str) : Prop := ∀ c, t.head? = some c → isDigit c = false

theorem takeWhile_append_stop (p : Char → Bool) (l t : Str) (hl : ∀ c ∈ l, p c = true)
    (ht : ∀ c, t.head? = some c → p c = false) :
    (l ++ t).takeWhile p = l ∧ (l ++ t).dropWhile p = t := by
  induction l with
  | nil =>
    cases t with
    | nil => simp
    | cons c cs => simp [ht c rfl]
  | cons a as ih =>
    have ha := hl a (by simp)
    have := ih (fun c hc => hl c (by simp [hc]))
    simp [ha, this]

theorem digits_take (n : Nat) (t : Str) (ht : NDH t) :
    (toDec n ++ t).takeWhile isDigit = toDec n ∧ (toDec n ++ t).dropWhile isDigit = t :=
  takeWhile_append_stop isDigit _ t (toDec_digits n) ht


/-! ### character facts -/
theorem isSpace_iff (c : Char) : isSpace c = true ↔ c.toNat ∈ Gen.whitespace := by
  simp [isSpace]

theorem word_cases (c : Char) (h : isWordCh c = true) :
    c = '-' ∨ (97 ≤ c.toNat ∧ c.toNat ≤ 122) ∨ (65 ≤ c.toNat ∧ c.toNat ≤ 90) := by
  simp only [isWordCh, isAlpha, Bool.or_eq_true, Bool.and_eq_true, decide_eq_true_eq, beq_iff_eq] at h
  rcases h with (h | h) | h
  · exact Or.inr (Or.inl h)
  · exact Or.inr (Or.inr h)
  · exact Or.inl h

theorem not_space_of_range (c : Char) (lo hi : Nat) (h : lo ≤ c.toNat ∧ c.toNat ≤ hi) (h1 : 33 ≤ lo) (h2 : hi ≤ 132) :
    isSpace c = false := by
  cases hs : isSpace c with
  | false => rfl
  | true =>
    have := (isSpace_iff c).mp hs
    simp [Gen.whitespace] at this
    omega

theorem word_facts (c : Char) (h : isWordCh c = true) :
    isDigit c = false ∧ isSpace c = false ∧ c ≠ '.' ∧ c ≠ ':' ∧ c ≠ '/' ∧ c ≠ ',' ∧ c ≠ ' ' := by
  rcases word_cases c h with rfl | h | h
  · decide
  · refine ⟨by simp [isDigit]; omega, not_space_of_range c _ _ h (by omega) (by omega), ?_, ?_, ?_, ?_, ?_⟩ <;>
      (intro e; subst e; simp at h)
  · refine ⟨by simp [isDigit]; omega, not_space_of_range c _ _ h (by omega) (by omega), ?_, ?_, ?_, ?_, ?_⟩ <;>
      (intro e; subst e; simp at h)

theorem digit_facts (c : Char) (h : isDigit c = true) :
    isWordCh c = false ∧ isSpace c = false ∧ isPfxCh c = false ∧ isShortCh c = true ∧
    c ≠ '.' ∧ c ≠ ':' ∧ c ≠ '/' ∧ c ≠ ',' := by
  have hr : 48 ≤ c.toNat ∧ c.toNat ≤ 57 := by simpa [isDigit] using h
  have hsp := not_space_of_range c _ _ hr (by omega) (by omega)
  have hw : isWordCh c = false := by
    cases hw : isWordCh c with
    | false => rfl
    | true =>
      rcases word_cases c hw with rfl | h' | h'
      · simp at hr
      · omega
      · omega
  refine ⟨hw, hsp, by simp [isPfxCh, hw, hsp], by simp [isShortCh, h], ?_, ?_, ?_, ?_⟩ <;>
    (intro e; subst e; simp at hr)


/-! ### scanners on rendered pieces -/
theorem searchAfter_digits (ch : Char) (hch : isDigit ch = false) (ds t : Str)
    (hds : ∀ c ∈ ds, isDigit c = true) : searchAfter ch (ds ++ t) = searchAfter ch t := by
  induction ds with
  | nil => rfl
  | cons c cs ih =>
    have hc : c ≠ ch := by
      intro e; subst e; have := hds c (by simp); simp [hch] at this
    simp only [List.cons_append, searchAfter, hc, decide_false, Bool.false_and]
    exact ih (fun c hc => hds c (by simp [hc]))

theorem searchAfter_skip (ch c : Char) (h : c ≠ ch) (t : Str) : searchAfter ch (c :: t) = searchAfter ch t := by
  simp [searchAfter, h]

theorem searchAfter_hit (ch : Char) (n : Nat) (t : Str) (ht : NDH t) :
    searchAfter ch (ch :: (toDec n ++ t)) = some n := by
  simp [searchAfter, (digits_take n t ht).1, toDec_ne_nil, natOf_toDec]

theorem searchAfter_none (ch : Char) (l : Str) (h : ∀ c ∈ l, c ≠ ch) : searchAfter ch l = none := by
  induction l with
  | nil => rfl
  | cons c cs ih =>
    rw [searchAfter_skip ch c (h c (by simp))]
    exact ih (fun c hc => h c (by simp [hc]))

/-- a class word as the grammar has it: non-empty, over `[A-Za-z-]` -/
def GoodCls (cls : Option Str) : Prop := ∀ w, cls = some w → w ≠ [] ∧ ∀ c ∈ w, isWordCh c = true

/-- what `render` puts after the number -/
def tl (sub chan : Option Nat) (cls : Option Str) : Str := optNum '.' sub ++ (optNum ':' chan ++ clsStr cls)

theorem ndh_cls (cls : Option Str) : NDH (clsStr cls) := by
  cases cls with
  | none => intro c h; simp [clsStr] at h
  | some w => intro c h; simp [clsStr] at h; subst h; decide

theorem ndh_optNum (m : Char) (hm : isDigit m = false) (x : Option Nat) (t : Str) (ht : NDH t) :
    NDH (optNum m x ++ t) := by
  cases x with
  | none => simpa [optNum] using ht
  | some n => intro c h; simp [optNum] at h; subst h; exact hm

theorem ndh_tl (sub chan : Option Nat) (cls : Option Str) : NDH (tl sub chan cls) :=
  ndh_optNum '.' (by decide) _ _ (ndh_optNum ':' (by decide) _ _ (ndh_cls cls))

theorem cls_chars (cls : Option Str) (hg : GoodCls cls) : ∀ c ∈ clsStr cls, c = ' ' ∨ isWordCh c = true := by
  cases cls with
  | none => simp [clsStr]
  | some w =>
    intro c hc
    simp only [clsStr, List.mem_cons] at hc
    rcases hc with rfl | hc
    · exact Or.inl rfl
    · exact Or.inr ((hg w rfl).2 c hc)

theorem optNum_chars (m : Char) (x : Option Nat) : ∀ c ∈ optNum m x, c = m ∨ isDigit c = true := by
  cases x with
  | none => simp [optNum]
  | some n =>
    intro c hc
    simp only [optNum, List.mem_cons] at hc
    rcases hc with rfl | hc
    · exact Or.inl rfl
    · exact Or.inr (toDec_digits n c hc)

theorem sub_of_tl (sub chan : Option Nat) (cls : Option Str) (hg : GoodCls cls) :
    searchAfter '.' (tl sub chan cls) = sub := by
  cases sub with
  | some su =>
    exact searchAfter_hit '.' su _ (ndh_optNum ':' (by decide) _ _ (ndh_cls cls))
  | none =>
    apply searchAfter_none
    intro c hc
    simp only [tl, optNum, List.nil_append, List.mem_append] at hc
    rcases hc with hc | hc
    · rcases optNum_chars ':' chan c hc with rfl | h
      · decide
      · exact (digit_facts c h).2.2.2.2.1
    · rcases cls_chars cls hg c hc with rfl | h
      · decide
      · exact (word_facts c h).2.2.1

theorem chan_of_tl (sub chan : Option Nat) (cls : Option Str) (hg : GoodCls cls) :
    searchAfter ':' (tl sub chan cls) = chan := by
  have h2 : searchAfter ':' (optNum ':' chan ++ clsStr cls) = chan := by
    cases chan with
    | some ch => exact searchAfter_hit ':' ch _ (ndh_cls cls)
    | none =>
      apply searchAfter_none
      intro c hc
      simp only [optNum, List.nil_append] at hc
      rcases cls_chars cls hg c hc with rfl | h
      · decide
      · exact (word_facts c h).2.2.2.1
  cases sub with
  | none => simpa [tl, optNum] using h2
  | some su =>
    simp only [tl, optNum, List.cons_append]
    rw [searchAfter_skip ':' '.' (by decide), searchAfter_digits ':' (by decide) _ _ (toDec_digits su)]
    exact h2

theorem toDec_snoc (n : Nat) : ∃ ds d, toDec n = ds ++ [d] ∧ isDigit d = true := by
  have hne := toDecRev_ne_nil n
  have hd := toDecRev_digits n
  unfold toDec
  cases h : toDecRev n with
  | nil => exact absurd h hne
  | cons d rest => exact ⟨rest.reverse, d, by simp, hd d (by simp [h])⟩

theorem classWord_snoc_digit (r : Str) (d : Char) (hd : isDigit d = true) : classWord (r ++ [d]) = none := by
  have hw := (digit_facts d hd).1
  have hs := (digit_facts d hd).2.1
  simp [classWord, hw, hs]

theorem classWord_tl (y : Str) (dg : Char) (hd : isDigit dg = true) (sub chan : Option Nat) (cls : Option Str)
    (hg : GoodCls cls) : classWord (y ++ [dg] ++ tl sub chan cls) = cls := by
  cases cls with
  | some w =>
    obtain ⟨hne, hw⟩ := hg w rfl
    have hrev : (y ++ [dg] ++ tl sub chan (some w)).reverse
        = w.reverse ++ (' ' :: (y ++ [dg] ++ optNum '.' sub ++ optNum ':' chan).reverse) := by
      simp [tl, clsStr]
    have hst := takeWhile_append_stop isWordCh w.reverse
      (' ' :: (y ++ [dg] ++ optNum '.' sub ++ optNum ':' chan).reverse)
      (fun c hc => hw c (by simpa using hc)) (by intro c h; simp at h; subst h; decide)
    unfold classWord
    rw [hrev, hst.1, hst.2]
    have : (' ' : Char) = Char.ofNat 32 := rfl
    simp [hne, isSpace, Gen.whitespace]
  | none =>
    have : ∃ r d, y ++ [dg] ++ tl sub chan none = r ++ [d] ∧ isDigit d = true := by
      cases chan with
      | some ch =>
        obtain ⟨ds, d, h1, h2⟩ := toDec_snoc ch
        exact ⟨y ++ [dg] ++ optNum '.' sub ++ (':' :: ds), d, by simp [tl, optNum, clsStr, h1], h2⟩
      | none =>
        cases sub with
        | some su =>
          obtain ⟨ds, d, h1, h2⟩ := toDec_snoc su
          exact ⟨y ++ [dg] ++ ('.' :: ds), d, by simp [tl, optNum, clsStr, h1], h2⟩
        | none => exact ⟨y, dg, by simp [tl, optNum, clsStr], hd⟩
    obtain ⟨r, d, h1, h2⟩ := this
    rw [h1]
    exact classWord_snoc_digit r d h2


/-! ### the rendered name -/
theorem dropWhile_head (p : Char → Bool) (l : Str) (h : ∀ c, l.head? = some c → p c = false) :
    l.dropWhile p = l := by
  cases l with
  | nil => rfl
  | cons a as => simp [List.dropWhile, h a rfl]

theorem takeWhile_head (p : Char → Bool) (l : Str) (h : ∀ c, l.head? = some c → p c = false) :
    l.takeWhile p = [] := by
  cases l with
  | nil => rfl
  | cons a as => simp [List.takeWhile, h a rfl]

theorem strip_id (s : Str) (h1 : ∀ c, s.head? = some c → isSpace c = false)
    (h2 : ∀ c, s.getLast? = some c → isSpace c = false) : strip s = s := by
  unfold strip lstrip rstrip
  rw [dropWhile_head isSpace s h1, dropWhile_head isSpace s.reverse (by simpa using h2)]
  simp

theorem strip_word (w : Str) (h : ∀ c ∈ w, isWordCh c = true) : strip w = w := by
  apply strip_id
  · intro c hc; exact (word_facts c (h c (List.mem_of_mem_head? hc))).2.1
  · intro c hc; exact (word_facts c (h c (List.mem_of_getLast? hc))).2.1

theorem tl_chars (sub chan : Option Nat) (cls : Option Str) (hg : GoodCls cls) :
    ∀ c ∈ tl sub chan cls, c = '.' ∨ c = ':' ∨ c = ' ' ∨ isDigit c = true ∨ isWordCh c = true := by
  intro c hc
  simp only [tl, List.mem_append] at hc
  rcases hc with hc | hc | hc
  · rcases optNum_chars '.' sub c hc with h | h <;> simp [h]
  · rcases optNum_chars ':' chan c hc with h | h <;> simp [h]
  · rcases cls_chars cls hg c hc with h | h <;> simp [h]

/-- every character `render` can emit, except the separator -/
def Plain (c : Char) : Prop := c = '.' ∨ c = ':' ∨ isSpace c = true ∨ isDigit c = true ∨ isWordCh c = true

theorem space_facts (c : Char) (h : isSpace c = true) : isShortCh c = true ∧ c ≠ ',' ∧ c ≠ '/' := by
  refine ⟨by simp [isShortCh, isPfxCh, h], ?_, ?_⟩ <;> (intro e; subst e; exact absurd h (by decide))

theorem plain_short (c : Char) (h : Plain c) : isShortCh c = true ∧ c ≠ ',' ∧ c ≠ '/' := by
  rcases h with rfl | rfl | h | h | h
  · decide
  · decide
  · exact space_facts c h
  · exact ⟨(digit_facts c h).2.2.2.1, (digit_facts c h).2.2.2.2.2.2.2, (digit_facts c h).2.2.2.2.2.2.1⟩
  · exact ⟨by simp [isShortCh, isPfxCh, h], (word_facts c h).2.2.2.2.2.1, (word_facts c h).2.2.2.2.1⟩

theorem last_ok (y : Str) (dg : Char) (hd : isDigit dg = true) (sub chan : Option Nat) (cls : Option Str)
    (hg : GoodCls cls) : ∃ r c, y ++ [dg] ++ tl sub chan cls = r ++ [c] ∧ isSpace c = false := by
  cases cls with
  | some w =>
    obtain ⟨hne, hw⟩ := hg w rfl
    refine ⟨y ++ [dg] ++ optNum '.' sub ++ optNum ':' chan ++ (' ' :: w.dropLast), w.getLast hne, ?_, ?_⟩
    · have := List.dropLast_concat_getLast hne
      simp only [tl, clsStr, List.append_assoc, List.cons_append]
      rw [this]
    · exact (word_facts _ (hw _ (List.getLast_mem hne))).2.1
  | none =>
    cases chan with
    | some ch =>
      obtain ⟨ds, d, h1, h2⟩ := toDec_snoc ch
      exact ⟨y ++ [dg] ++ optNum '.' sub ++ (':' :: ds), d, by simp [tl, optNum, clsStr, h1], (digit_facts d h2).2.1⟩
    | none =>
      cases sub with
      | some su =>
        obtain ⟨ds, d, h1, h2⟩ := toDec_snoc su
        exact ⟨y ++ [dg] ++ ('.' :: ds), d, by simp [tl, optNum, clsStr, h1], (digit_facts d h2).2.1⟩
      | none => exact ⟨y, dg, by simp [tl, optNum, clsStr], (digit_facts dg hd).2.1⟩

/-- a text that `strip` leaves alone does not begin with whitespace -/
theorem head_of_strip_fix (p : Str) (h : strip p = p) : ∀ c, p.head? = some c → isSpace c = false := by
  intro c hc
  cases hs : isSpace c with
  | false => rfl
  | true =>
    exfalso
    cases p with
    | nil => simp at hc
    | cons a as =>
      simp at hc; subst hc
      have h1 : (strip (a :: as)).length ≤ (lstrip (a :: as)).length := by
        unfold strip rstrip
        simp only [List.length_reverse]
        exact Nat.le_trans (List.dropWhile_sublist _).length_le (by simp)
      have h2 : (lstrip (a :: as)).length ≤ as.length := by
        simp only [lstrip, List.dropWhile, hs]
        exact (List.dropWhile_sublist _).length_le
      rw [h] at h1
      simp at h1; omega

/-- facts shared by the three shapes: `s = pfx ++ r`, `r` starts with a digit, ends as `last_ok` says -/
theorem head_of_render (cls : Char → Bool) (pfx r : Str) (hp : ∀ c ∈ pfx, isPfxCh c = true)
    (hstrip : strip pfx = pfx)
    (d0 : Char) (t : Str) (hr : r = d0 :: t) (hd0 : isDigit d0 = true)
    (hlast : ∃ y c, pfx ++ r = y ++ [c] ∧ isSpace c = false)
    (hall : ∀ c ∈ pfx ++ r, cls c = true) (hcomma : ∀ c ∈ pfx ++ r, c ≠ ',') :
    (pfx ++ r).contains ',' = false ∧ strip (pfx ++ r) = pfx ++ r ∧
    matchHead cls (pfx ++ r) = some (pfx, r) := by
  refine ⟨?_, ?_, ?_⟩
  · cases h : (pfx ++ r).contains ',' with
    | false => rfl
    | true => exact absurd rfl (hcomma ',' (by simpa using h))
  · apply strip_id
    · intro c hc
      cases pfx with
      | nil => simp [hr] at hc; subst hc; exact (digit_facts _ hd0).2.1
      | cons a as => exact head_of_strip_fix _ hstrip c (by simpa using hc)
    · obtain ⟨y, c, h1, h2⟩ := hlast
      intro c' hc'
      rw [h1] at hc'
      simp at hc'
      subst hc'; exact h2
  · have hst := takeWhile_append_stop isPfxCh pfx r
      hp
      (by intro c hc; simp [hr] at hc; subst hc; exact (digit_facts _ hd0).2.2.1)
    have hne : pfx ++ r ≠ [] := by simp [hr]
    have hall' : (pfx ++ r).all cls = true := List.all_eq_true.mpr hall
    unfold matchHead
    simp only [hst.1, hst.2, hall']
    simp [hne, hr]


/-! ### parse ∘ render on the three shapes -/

theorem plain_tl (sub chan : Option Nat) (cls : Option Str) (hg : GoodCls cls) :
    ∀ c ∈ tl sub chan cls, Plain c := by
  intro c hc
  rcases tl_chars sub chan cls hg c hc with h | h | h | h | h
  · exact Or.inl h
  · exact Or.inr (Or.inl h)
  · subst h; exact Or.inr (Or.inr (Or.inl (by decide)))
  · exact Or.inr (Or.inr (Or.inr (Or.inl h)))
  · exact Or.inr (Or.inr (Or.inr (Or.inr h)))

theorem plain_dec (n : Nat) : ∀ c ∈ toDec n, Plain c :=
  fun c hc => Or.inr (Or.inr (Or.inr (Or.inl (toDec_digits n c hc))))

theorem plain_word (w : Str) (h : ∀ c ∈ w, isPfxCh c = true) : ∀ c ∈ w, Plain c := by
  intro c hc
  have := h c hc
  simp only [isPfxCh, Bool.or_eq_true] at this
  rcases this with h | h
  · exact Or.inr (Or.inr (Or.inr (Or.inr h)))
  · exact Or.inr (Or.inr (Or.inl h))


theorem firstDigits_dec (n : Nat) (t : Str) (ht : NDH t) : firstDigits (toDec n ++ t) = some (toDec n) := by
  obtain ⟨ds, d, h1, h2⟩ := toDec_snoc n
  have hhead : ∀ c, (toDec n ++ t).head? = some c → (!isDigit c) = false := by
    intro c hc
    have : c ∈ toDec n := by
      cases h : toDec n with
      | nil => exact absurd h (toDec_ne_nil n)
      | cons a as => simp [h] at hc; subst hc; simp
    simp [toDec_digits n c this]
  unfold firstDigits
  rw [dropWhile_head _ _ hhead, (digits_take n t ht).1]
  simp [toDec_ne_nil]

theorem roundtrip_short (pfx : Str) (p : Nat) (sub chan : Option Nat) (cls : Option Str)
    (hp : ∀ c ∈ pfx, isPfxCh c = true) (hstrip : strip pfx = pfx) (hg : GoodCls cls) :
    parse (pfx ++ (toDec p ++ tl sub chan cls)) =
      .ok { pfx := pfx, sep := none, slot := none, card := none, port := p, sub := sub, chan := chan, cls := cls } := by
  obtain ⟨ds, dg, h1, h2⟩ := toDec_snoc p
  have hne := toDec_ne_nil p
  obtain ⟨d0, t0, h0⟩ : ∃ d0 t0, toDec p = d0 :: t0 := by
    cases h : toDec p with
    | nil => exact absurd h hne
    | cons a as => exact ⟨a, as, rfl⟩
  have hd0 : isDigit d0 = true := toDec_digits p d0 (by simp [h0])
  have hplain : ∀ c ∈ pfx ++ (toDec p ++ tl sub chan cls), Plain c := by
    intro c hc
    simp only [List.mem_append] at hc
    rcases hc with hc | hc | hc
    · exact plain_word pfx hp c hc
    · exact plain_dec p c hc
    · exact plain_tl sub chan cls hg c hc
  have hlast : ∃ y c, pfx ++ (toDec p ++ tl sub chan cls) = y ++ [c] ∧ isSpace c = false := by
    obtain ⟨r, c, e1, e2⟩ := last_ok (pfx ++ ds) dg h2 sub chan cls hg
    exact ⟨r, c, by rw [← e1, h1]; simp, e2⟩
  obtain ⟨hc, hs, hm⟩ := head_of_render isShortCh pfx (toDec p ++ tl sub chan cls) hp hstrip d0 (t0 ++ tl sub chan cls)
    (by simp [h0]) hd0 hlast (fun c hc => (plain_short c (hplain c hc)).1) (fun c hc => (plain_short c (hplain c hc)).2.1)
  have hcw : classWord (toDec p ++ tl sub chan cls) = cls := by
    rw [h1]; exact classWord_tl ds dg h2 sub chan cls hg
  unfold parse parseSingle
  simp only [hc, hs, hm]
  simp only [Bool.false_eq_true, if_false, parseShort, firstDigits_dec p _ (ndh_tl sub chan cls), natOf_toDec,
    searchAfter_digits '.' (by decide) _ _ (toDec_digits p), searchAfter_digits ':' (by decide) _ _ (toDec_digits p),
    sub_of_tl sub chan cls hg, chan_of_tl sub chan cls hg, hcw, updateInternalState, hstrip]


theorem long_of_plain (c : Char) (h : Plain c ∨ c = '/') : isLongCh c = true ∧ c ≠ ',' := by
  rcases h with h | rfl
  · exact ⟨by simp [isLongCh, (plain_short c h).1], (plain_short c h).2.1⟩
  · decide

theorem matchHead_short_none (s : Str) (h : '/' ∈ s) : matchHead isShortCh s = none := by
  have : s.all isShortCh = false := by
    cases hh : s.all isShortCh with
    | false => rfl
    | true => exact absurd (List.all_eq_true.mp hh '/' h) (by decide)
  simp [matchHead, this]

theorem nsep_tl (sub chan : Option Nat) (cls : Option Str) :
    ∀ c, (tl sub chan cls).head? = some c → isSepCh c = false := by
  intro c hc
  cases sub with
  | some su => simp [tl, optNum] at hc; subst hc; decide
  | none =>
    cases chan with
    | some ch => simp [tl, optNum] at hc; subst hc; decide
    | none =>
      cases cls with
      | some w => simp [tl, optNum, clsStr] at hc; subst hc; decide
      | none => simp [tl, optNum, clsStr] at hc

theorem optSep_tl (sub chan : Option Nat) (cls : Option Str) :
    optSep (tl sub chan cls) = (none, tl sub chan cls) := by
  have := nsep_tl sub chan cls
  cases h : tl sub chan cls with
  | nil => rfl
  | cons a as => rw [h] at this; simp [optSep, this a rfl]

theorem optDigits_none (t : Str) (ht : NDH t) : optDigits t = (none, t) := by
  simp [optDigits, takeWhile_head isDigit t ht]

theorem optDigits_dec (n : Nat) (t : Str) (ht : NDH t) : optDigits (toDec n ++ t) = (some n, t) := by
  simp [optDigits, (digits_take n t ht).1, (digits_take n t ht).2, toDec_ne_nil, natOf_toDec]

theorem ndh_slash (t : Str) : NDH ('/' :: t) := by
  intro c hc; simp at hc; subst hc; decide

theorem optSep_slash (t : Str) : optSep ('/' :: t) = (some '/', t) := by
  simp [optSep, show isSepCh '/' = true by decide]

theorem scan2 (s p : Nat) (sub chan : Option Nat) (cls : Option Str) :
    scanSlotCardPort (toDec s ++ '/' :: (toDec p ++ tl sub chan cls)) = some (s, some '/', some p, none) := by
  unfold scanSlotCardPort
  simp only [(digits_take s _ (ndh_slash _)).1, (digits_take s _ (ndh_slash _)).2, toDec_ne_nil, if_false,
    natOf_toDec, optSep_slash,
    optDigits_dec p _ (ndh_tl sub chan cls), optSep_tl, optDigits_none _ (ndh_tl sub chan cls)]

theorem scan3 (s c p : Nat) (sub chan : Option Nat) (cls : Option Str) :
    scanSlotCardPort (toDec s ++ '/' :: (toDec c ++ '/' :: (toDec p ++ tl sub chan cls)))
      = some (s, some '/', some c, some p) := by
  unfold scanSlotCardPort
  simp only [(digits_take s _ (ndh_slash _)).1, (digits_take s _ (ndh_slash _)).2, toDec_ne_nil, if_false,
    natOf_toDec, optSep_slash,
    optDigits_dec c _ (ndh_slash _), optDigits_dec p _ (ndh_tl sub chan cls)]

/-- the number part of a long name: `slot/port` or `slot/card/port`, and what precedes its last digit -/
theorem roundtrip_long (pfx : Str) (num : Str) (s : Nat) (card : Option Nat) (p : Nat)
    (sub chan : Option Nat) (cls : Option Str)
    (hnum : num = toDec s ++ '/' :: (match card with | some c => toDec c ++ '/' :: toDec p | none => toDec p))
    (hp : ∀ c ∈ pfx, isPfxCh c = true) (hstrip : strip pfx = pfx) (hg : GoodCls cls) :
    parse (pfx ++ (num ++ tl sub chan cls)) =
      .ok { pfx := pfx, sep := some '/', slot := some s, card := card, port := p, sub := sub, chan := chan, cls := cls } := by
  obtain ⟨ds, dg, h1, h2⟩ := toDec_snoc p
  obtain ⟨d0, t0, h0⟩ : ∃ d0 t0, toDec s = d0 :: t0 := by
    cases h : toDec s with
    | nil => exact absurd h (toDec_ne_nil s)
    | cons a as => exact ⟨a, as, rfl⟩
  have hd0 : isDigit d0 = true := toDec_digits s d0 (by simp [h0])
  -- the number is `y ++ [dg]`, all of it digits and '/'
  obtain ⟨y, hy⟩ : ∃ y, num = y ++ [dg] := by
    cases card with
    | some c => exact ⟨toDec s ++ '/' :: (toDec c ++ '/' :: ds), by simp [hnum, h1]⟩
    | none => exact ⟨toDec s ++ '/' :: ds, by simp [hnum, h1]⟩
  have hnumch : ∀ c ∈ num, Plain c ∨ c = '/' := by
    intro c hc
    cases card with
    | some cd =>
      simp only [hnum, List.mem_append, List.mem_cons] at hc
      rcases hc with hc | rfl | hc | rfl | hc
      · exact Or.inl (plain_dec s c hc)
      · exact Or.inr rfl
      · exact Or.inl (plain_dec cd c hc)
      · exact Or.inr rfl
      · exact Or.inl (plain_dec p c hc)
    | none =>
      simp only [hnum, List.mem_append, List.mem_cons] at hc
      rcases hc with hc | rfl | hc
      · exact Or.inl (plain_dec s c hc)
      · exact Or.inr rfl
      · exact Or.inl (plain_dec p c hc)
  have hslash : '/' ∈ pfx ++ (num ++ tl sub chan cls) := by
    cases card <;> simp [hnum]
  have hch : ∀ c ∈ pfx ++ (num ++ tl sub chan cls), Plain c ∨ c = '/' := by
    intro c hc
    simp only [List.mem_append] at hc
    rcases hc with hc | hc | hc
    · exact Or.inl (plain_word pfx hp c hc)
    · exact hnumch c hc
    · exact Or.inl (plain_tl sub chan cls hg c hc)
  have hlast : ∃ y' c, pfx ++ (num ++ tl sub chan cls) = y' ++ [c] ∧ isSpace c = false := by
    obtain ⟨r, c, e1, e2⟩ := last_ok (pfx ++ y) dg h2 sub chan cls hg
    exact ⟨r, c, by rw [← e1, hy]; simp, e2⟩
  obtain ⟨hc, hs, hm⟩ := head_of_render isLongCh pfx (num ++ tl sub chan cls) hp hstrip d0
    (t0 ++ (match card with | some c => '/' :: (toDec c ++ '/' :: toDec p) | none => '/' :: toDec p) ++ tl sub chan cls)
    (by cases card <;> simp [hnum, h0]) hd0 hlast
    (fun c hc => (long_of_plain c (hch c hc)).1) (fun c hc => (long_of_plain c (hch c hc)).2)
  have hcw : classWord (num ++ tl sub chan cls) = cls := by
    rw [hy]; exact classWord_tl y dg h2 sub chan cls hg
  have hsub : searchAfter '.' (num ++ tl sub chan cls) = sub := by
    refine Eq.trans ?_ (sub_of_tl sub chan cls hg)
    cases card with
    | some cd =>
      simp only [hnum, List.append_assoc, List.cons_append]
      rw [searchAfter_digits '.' (by decide) _ _ (toDec_digits s), searchAfter_skip '.' '/' (by decide),
        searchAfter_digits '.' (by decide) _ _ (toDec_digits cd), searchAfter_skip '.' '/' (by decide),
        searchAfter_digits '.' (by decide) _ _ (toDec_digits p)]
    | none =>
      simp only [hnum, List.append_assoc, List.cons_append]
      rw [searchAfter_digits '.' (by decide) _ _ (toDec_digits s), searchAfter_skip '.' '/' (by decide),
        searchAfter_digits '.' (by decide) _ _ (toDec_digits p)]
  have hchan : searchAfter ':' (num ++ tl sub chan cls) = chan := by
    refine Eq.trans ?_ (chan_of_tl sub chan cls hg)
    cases card with
    | some cd =>
      simp only [hnum, List.append_assoc, List.cons_append]
      rw [searchAfter_digits ':' (by decide) _ _ (toDec_digits s), searchAfter_skip ':' '/' (by decide),
        searchAfter_digits ':' (by decide) _ _ (toDec_digits cd), searchAfter_skip ':' '/' (by decide),
        searchAfter_digits ':' (by decide) _ _ (toDec_digits p)]
    | none =>
      simp only [hnum, List.append_assoc, List.cons_append]
      rw [searchAfter_digits ':' (by decide) _ _ (toDec_digits s), searchAfter_skip ':' '/' (by decide),
        searchAfter_digits ':' (by decide) _ _ (toDec_digits p)]
  have hscan : scanSlotCardPort (num ++ tl sub chan cls) =
      some (s, some '/', (match card with | some c => some c | none => some p), (match card with | some _ => some p | none => none)) := by
    cases card with
    | some cd => simp only [hnum, List.append_assoc, List.cons_append]; exact scan3 s cd p sub chan cls
    | none => simp only [hnum, List.append_assoc, List.cons_append]; exact scan2 s p sub chan cls
  unfold parse parseSingle
  simp only [hc, hs, hm, matchHead_short_none _ hslash]
  cases card with
  | some cd => simp [parseLong, hscan, hsub, hchan, hcw, updateInternalState, hstrip]
  | none => simp [parseLong, hscan, hsub, hchan, hcw, updateInternalState, hstrip]



/-! ## every constructed interface is canonical; canonical descriptions round-trip -/

/-- what every constructed interface looks like -/
structure Canon (d : Intf) : Prop where
  pfxch : ∀ c ∈ d.pfx, isPfxCh c = true
  pfxstrip : strip d.pfx = d.pfx
  shape : (d.slot = none ∧ d.card = none ∧ d.sep = none) ∨ (d.slot.isSome = true ∧ d.sep = some '/')
  cls : GoodCls d.cls

theorem canon_roundtrip (d : Intf) (h : Canon d) : ∃ s, render d = .ok s ∧ parse s = .ok d := by
  obtain ⟨pfx, sep, slot, card, port, sub, chan, cls⟩ := d
  obtain ⟨hp, hst, hshape, hc⟩ := h
  simp only at hp hst hshape hc
  rcases hshape with ⟨rfl, rfl, rfl⟩ | ⟨hs, rfl⟩
  · refine ⟨pfx ++ (toDec port ++ tl sub chan cls), by simp [render, number, tl], ?_⟩
    exact roundtrip_short pfx port sub chan cls hp hst hc
  · cases slot with
    | none => simp at hs
    | some s =>
      cases card with
      | none =>
        refine ⟨pfx ++ ((toDec s ++ '/' :: toDec port) ++ tl sub chan cls), by simp [render, number, tl, sepStr], ?_⟩
        exact roundtrip_long pfx _ s none port sub chan cls rfl hp hst hc
      | some c =>
        refine ⟨pfx ++ ((toDec s ++ '/' :: (toDec c ++ '/' :: toDec port)) ++ tl sub chan cls),
          by simp [render, number, tl, sepStr], ?_⟩
        exact roundtrip_long pfx _ s (some c) port sub chan cls rfl hp hst hc

theorem mem_takeWhile_imp' (p : Char → Bool) (l : Str) (c : Char) (h : c ∈ l.takeWhile p) : p c = true := by
  induction l with
  | nil => simp at h
  | cons a as ih =>
    by_cases ha : p a = true
    · simp only [List.takeWhile, ha, List.mem_cons] at h
      rcases h with rfl | h
      · exact ha
      · exact ih h
    · simp [List.takeWhile, ha] at h

theorem all_of_dropWhile_nil (p : Char → Bool) (l : Str) (h : l.dropWhile p = []) : ∀ c ∈ l, p c = true := by
  induction l with
  | nil => simp
  | cons a as ih =>
    by_cases ha : p a = true
    · simp only [List.dropWhile, ha] at h
      intro c hc
      rcases List.mem_cons.mp hc with rfl | hc
      · exact ha
      · exact ih h c hc
    · simp [List.dropWhile, ha] at h

theorem rstrip_prefix (l : Str) : rstrip l <+: l := by
  unfold rstrip
  have := (List.dropWhile_suffix isSpace (l := l.reverse))
  simpa using List.reverse_prefix.mpr this

theorem strip_mem (l : Str) (c : Char) (h : c ∈ strip l) : c ∈ l := by
  unfold strip at h
  have h1 := (rstrip_prefix (lstrip l)).sublist.mem h
  exact (List.dropWhile_sublist _).mem h1

theorem lstrip_head (l : Str) : ∀ c, (lstrip l).head? = some c → isSpace c = false := by
  intro c hc
  unfold lstrip at hc
  have := List.head?_dropWhile_not isSpace l
  rw [hc] at this
  simpa using this

theorem strip_strip (l : Str) : strip (strip l) = strip l := by
  apply strip_id
  · intro c hc
    -- the head of a prefix of `lstrip l` is the head of `lstrip l`
    obtain ⟨t, ht⟩ := rstrip_prefix (lstrip l)
    unfold strip at hc
    cases hr : rstrip (lstrip l) with
    | nil => rw [hr] at hc; simp at hc
    | cons a as =>
      rw [hr] at hc ht
      simp at hc; subst hc
      exact lstrip_head l a (by rw [← ht]; simp)
  · intro c hc
    unfold strip rstrip at hc
    rw [List.getLast?_reverse] at hc
    have := List.head?_dropWhile_not isSpace (lstrip l).reverse
    rw [hc] at this
    simpa using this

theorem classWord_good (r : Str) : GoodCls (classWord r) := by
  intro w hw
  unfold classWord at hw
  simp only at hw
  split at hw
  · split at hw
    · rename_i hcond
      simp only [Option.some.injEq] at hw
      subst hw
      simp only [Bool.and_eq_true, bne_iff_ne, ne_eq] at hcond
      refine ⟨hcond.2, ?_⟩
      intro c hc
      have : c ∈ r.reverse.takeWhile isWordCh := by simpa using hc
      exact mem_takeWhile_imp' _ _ _ this
    · cases hw
  · cases hw

theorem matchHead_spec (cls : Char → Bool) (t : Str) (g : Str × Str) (h : matchHead cls t = some g) :
    (∀ c ∈ g.1, isPfxCh c = true) ∧ (∀ c ∈ g.2, cls c = true) := by
  unfold matchHead at h
  split at h
  · cases h
  · rename_i hcond
    simp only [Bool.or_eq_true, decide_eq_true_eq, Bool.not_eq_true', not_or, Bool.not_eq_false] at hcond
    have hall : ∀ c ∈ t, cls c = true := List.all_eq_true.mp hcond.2
    simp only at h
    split at h
    · rename_i hnil
      simp only [Option.some.injEq] at h
      subst h
      have hp : ∀ c ∈ t, isPfxCh c = true := by
        intro c hc
        exact all_of_dropWhile_nil _ _ hnil c hc
      exact ⟨fun c hc => hp c (List.dropLast_subset t hc), fun c hc => hall c (List.drop_subset _ t hc)⟩
    · simp only [Option.some.injEq] at h
      subst h
      exact ⟨fun c hc => mem_takeWhile_imp' _ _ _ hc, fun c hc => hall c ((List.dropWhile_sublist _).mem hc)⟩

theorem optSep_mem (r : Str) (sp : Char) (h : (optSep r).1 = some sp) : sp ∈ r ∧ isSepCh sp = true := by
  cases r with
  | nil => simp [optSep] at h
  | cons c cs =>
    by_cases hc : isSepCh c = true
    · simp [optSep, hc] at h; subst h; exact ⟨by simp, hc⟩
    · simp [optSep, hc] at h

theorem scan_sep (r : Str) (sl : Nat) (sp : Char) (c p : Option Nat)
    (h : scanSlotCardPort r = some (sl, some sp, c, p)) : sp ∈ r ∧ isSepCh sp = true := by
  unfold scanSlotCardPort at h
  simp only at h
  split at h
  · cases h
  · simp only [Option.some.injEq, Prod.mk.injEq] at h
    obtain ⟨_, h2, _⟩ := h
    obtain ⟨hm, hs⟩ := optSep_mem _ sp h2
    exact ⟨(List.dropWhile_sublist _).mem hm, hs⟩

theorem sep_is_slash (c : Char) (h1 : isLongCh c = true) (h2 : isSepCh c = true) : c = '/' := by
  simp only [isSepCh, Bool.not_eq_true'] at h2
  simpa [isLongCh, h2] using h1


def RawOK (r : Raw) : Prop :=
  (∀ c ∈ r.pfx, isPfxCh c = true) ∧ strip r.pfx = r.pfx ∧ GoodCls r.cls ∧
  ((r.slot = none ∧ r.card = none ∧ r.sep = none) ∨ (r.slot.isSome = true ∧ r.sep = some '/'))

theorem parseShort_ok (g : Str × Str) (r : Raw) (hg : ∀ c ∈ g.1, isPfxCh c = true)
    (h : parseShort g = .ok r) : RawOK r := by
  unfold parseShort at h
  split at h
  · cases h
  · simp only [Except.ok.injEq] at h
    subst h
    exact ⟨fun c hc => hg c (strip_mem _ _ hc), strip_strip _, classWord_good _, Or.inl ⟨rfl, rfl, rfl⟩⟩

theorem parseLong_ok (g : Str × Str) (r : Raw) (hg : ∀ c ∈ g.1, isPfxCh c = true)
    (hl : ∀ c ∈ g.2, isLongCh c = true) (h : parseLong g = .ok r) : RawOK r := by
  unfold parseLong at h
  split at h
  · cases h
  · rename_i slot sep1 card port hscan
    simp only at h
    split at h
    · cases h
    · rename_i sp
      simp only [Except.ok.injEq] at h
      subst h
      obtain ⟨hm, hs⟩ := scan_sep _ _ _ _ _ hscan
      have : sp = '/' := sep_is_slash sp (hl sp hm) hs
      subst this
      exact ⟨fun c hc => hg c (strip_mem _ _ hc), strip_strip _, classWord_good _, Or.inr ⟨rfl, rfl⟩⟩

theorem parseSingle_ok (s : Str) (r : Raw) (h : parseSingle s = .ok r) : RawOK r := by
  unfold parseSingle at h
  split at h
  · cases h
  · simp only at h
    split at h
    · rename_i g hm
      exact parseShort_ok g r (matchHead_spec _ _ g hm).1 h
    · split at h
      · rename_i g hm
        exact parseLong_ok g r (matchHead_spec _ _ g hm).1 (matchHead_spec _ _ g hm).2 h
      · cases h

/-- every constructed interface is canonical -/
theorem parse_canon (s : Str) (d : Intf) (h : parse s = .ok d) : Canon d := by
  unfold parse at h
  split at h
  · rename_i r hr
    obtain ⟨h1, h2, h3, h4⟩ := parseSingle_ok s r hr
    unfold updateInternalState at h
    split at h
    · rename_i sl p hsl hp
      simp only [Except.ok.injEq] at h
      subst h
      refine ⟨by simpa [h2] using h1, by simp [h2], ?_, h3⟩
      rcases h4 with ⟨h5, _, _⟩ | ⟨_, h6⟩
      · rw [hsl] at h5; cases h5
      · exact Or.inr ⟨rfl, h6⟩
    · rename_i p hsl hp
      simp only [Except.ok.injEq] at h
      subst h
      refine ⟨by simpa [h2] using h1, by simp [h2], ?_, h3⟩
      rcases h4 with ⟨_, _, h7⟩ | ⟨h5, _⟩
      · exact Or.inl ⟨rfl, rfl, h7⟩
      · rw [hsl] at h5; simp at h5
    · cases h
  · cases h


end Ccp.Intf
