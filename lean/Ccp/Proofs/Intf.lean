import Ccp.Model.Intf
import Ccp.Proofs.Range
/-! Helper lemmas for C15. Core Lean only. -/
namespace Ccp.Intf
open Ccp.Py

theorem listLt_self (l : List Cell) : listLt l l = .ok false := by
  induction l with
  | nil => rfl
  | cons a as ih => simp [listLt, ih]

theorem strLt_irrefl (u : Str) : strLt u u = false := by
  induction u with
  | nil => rfl
  | cons a as ih => simp [strLt, ih]

/-- which optional components are present -/
def shape (i : Intf) : Bool × Bool × Bool × Bool × Bool :=
  (i.slot.isSome, i.card.isSome, i.sub.isSome, i.chan.isSome, i.cls.isSome)

/-- the numeric components in the order slot, card, port, subinterface, channel -/
def key (i : Intf) : List Nat :=
  i.slot.toList ++ i.card.toList ++ [i.port] ++ i.sub.toList ++ i.chan.toList

def lexLt : List Nat → List Nat → Bool
  | [], [] => false
  | [], _ :: _ => true
  | _ :: _, [] => false
  | a :: as, b :: bs => if a = b then lexLt as bs else a < b

def clsLt : Option Str → Option Str → Bool
  | some u, some v => strLt u v
  | _, _ => false

theorem lt_same_shape (a b : Intf) (h : shape a = shape b) :
    lt a b = .ok (if key a = key b then clsLt a.cls b.cls else lexLt (key a) (key b)) := by
  obtain ⟨pa, sa, sla, ca, pta, sua, cha, cla⟩ := a
  obtain ⟨pb, sb, slb, cb, ptb, sub, chb, clb⟩ := b
  simp only [shape, Prod.mk.injEq] at h
  obtain ⟨h1, h2, h3, h4, h5⟩ := h
  cases sla <;> cases slb <;> simp at h1 <;>
  cases ca <;> cases cb <;> simp at h2 <;>
  cases sua <;> cases sub <;> simp at h3 <;>
  cases cha <;> cases chb <;> simp at h4 <;>
  cases cla <;> cases clb <;> simp at h5 <;>
  simp [lt, sortList, cellOf, listLt, cellLt, key, lexLt, clsLt] <;>
  grind [strLt_irrefl]

/-! ### ranges -/

/-- the member with the iterated attribute set to `n` -/
def vary (b : Intf) (a : Attr) (n : Nat) : Intf := setAttr b a (some n)

theorem lt_vary (b : Intf) (a : Attr) (x y : Nat) : lt (vary b a x) (vary b a y) = .ok (decide (x < y)) := by
  cases a <;> simp [vary, setAttr, lt, sortList, listLt, cellLt, cellOf] <;>
  intro h <;> simp [h]

theorem eq_vary (b : Intf) (a : Attr) (x y : Nat) : eq (vary b a x) (vary b a y) = decide (x = y) := by
  cases a <;> simp [vary, setAttr, eq, sortList, cellOf] <;>
  by_cases h : x = y <;> simp [h]

theorem insertMember_vary (b : Intf) (a : Attr) (x : Nat) (l : List Nat) :
    insertMember (vary b a x) (l.map (vary b a)) = .ok ((Ccp.Range.insertAsc x l).map (vary b a)) := by
  induction l with
  | nil => rfl
  | cons y ys ih =>
    simp only [List.map_cons, insertMember, eq_vary, lt_vary, Ccp.Range.insertAsc]
    by_cases h1 : x = y
    · subst h1; simp
    · by_cases h2 : x < y
      · simp [h1, h2]
      · simp [h1, h2, ih]

theorem sortedMembers_vary (b : Intf) (a : Attr) (ns : List Nat) :
    sortedMembers (ns.map (vary b a)) = .ok ((Ccp.Range.sortedSet ns).map (vary b a)) := by
  induction ns with
  | nil => rfl
  | cons n ns ih =>
    simp only [List.map_cons, sortedMembers, ih]
    exact insertMember_vary b a n _

theorem pairwise_vary (b : Intf) (a : Attr) (l : List Nat) (h : l.Pairwise (· < ·)) :
    (l.map (vary b a)).Pairwise (fun x y => lt x y = .ok true) := by
  rw [List.pairwise_map]
  exact h.imp (fun {x y} hxy => by simp [lt_vary, hxy])


theorem plan_attr (text : Str) (b : Intf) (a : Attr) (ps : List (Option Nat × Option Nat))
    (h : plan text = .ok (b, a, ps)) : a = iterAttr b := by
  unfold plan at h
  split at h
  · cases h
  · split at h
    · cases h
    · simp only at h
      split at h
      · cases h
      · simp only [Except.ok.injEq, Prod.mk.injEq] at h
        obtain ⟨h1, h2, _⟩ := h
        rw [← h1, ← h2]

end Ccp.Intf
