import Ccp.Model.Intf
import Ccp.Proofs.Range
/-! Helper lemmas for C15. Core Lean only. -/
namespace Ccp.Intf
open Ccp.Py

end Ccp.Intf
