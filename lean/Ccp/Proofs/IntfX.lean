import Ccp.Model.IntfX
import Ccp.Proofs.Intf
/-! Helpers for the further entry points of `CiscoIOSInterface` / `CiscoRange` (`Ccp.Model.IntfX`). -/
namespace Ccp.IntfX
open Ccp.Py Ccp.Intf

-- so that closed examples about `Except` values are decided by evaluation
deriving instance DecidableEq for Except

end Ccp.IntfX
