import Ccp.Model.Cli
import Ccp.Proofs.Mac
/-!
Helper definitions (the spec side of C18) and lemmas for `Ccp.Props.C18`.
-/
namespace Ccp.Cli
open Ccp.Py

/-! ### first occurrences -/

section FirstOccs
variable {α : Type} [BEq α] [LawfulBEq α]

/-- `if x not in retval: retval.append(x)` -/
def insNew (acc : List α) (x : α) : List α := if acc.contains x then acc else acc ++ [x]

/-- the first occurrence of every element, in order of appearance -/
def firstOccs (l : List α) : List α := l.foldl insNew []

omit [LawfulBEq α] in
theorem insNew_pos {acc : List α} {x : α} (h : acc.contains x = true) : insNew acc x = acc := by
  unfold insNew; rw [if_pos h]

omit [LawfulBEq α] in
theorem insNew_neg {acc : List α} {x : α} (h : ¬ acc.contains x = true) : insNew acc x = acc ++ [x] := by
  unfold insNew; rw [if_neg h]

theorem contains_append_self (acc : List α) (x : α) : (acc ++ [x]).contains x = true := by
  rw [List.contains_iff_mem]; simp

theorem insNew_idem (acc : List α) (x : α) : insNew (insNew acc x) x = insNew acc x := by
  by_cases h : acc.contains x = true
  · rw [insNew_pos h, insNew_pos h]
  · rw [insNew_neg h, insNew_pos (contains_append_self acc x)]

theorem mem_foldl_insNew (l acc : List α) (x : α) :
    x ∈ l.foldl insNew acc ↔ x ∈ acc ∨ x ∈ l := by
  induction l generalizing acc with
  | nil => simp
  | cons y ys ih =>
    rw [List.foldl_cons, ih]
    by_cases h : acc.contains y = true
    · have hy : y ∈ acc := List.contains_iff_mem.mp h
      rw [insNew_pos h, List.mem_cons]
      constructor
      · rintro (a | a)
        · exact Or.inl a
        · exact Or.inr (Or.inr a)
      · rintro (a | a | a)
        · exact Or.inl a
        · exact Or.inl (a ▸ hy)
        · exact Or.inr a
    · rw [insNew_neg h, List.mem_append, List.mem_singleton, List.mem_cons]
      constructor
      · rintro ((a | a) | a)
        · exact Or.inl a
        · exact Or.inr (Or.inl a)
        · exact Or.inr (Or.inr a)
      · rintro (a | a | a)
        · exact Or.inl (Or.inl a)
        · exact Or.inl (Or.inr a)
        · exact Or.inr a

theorem nodup_foldl_insNew (l acc : List α) (h : acc.Nodup) : (l.foldl insNew acc).Nodup := by
  induction l generalizing acc with
  | nil => simpa
  | cons y ys ih =>
    rw [List.foldl_cons]
    apply ih
    by_cases hc : acc.contains y = true
    · rw [insNew_pos hc]; exact h
    · have hy : y ∉ acc := fun hm => hc (List.contains_iff_mem.mpr hm)
      rw [insNew_neg hc, List.nodup_append]
      refine ⟨h, by simp, ?_⟩
      intro a ha b hb
      rw [List.mem_singleton] at hb
      subst hb
      intro hab
      exact hy (hab ▸ ha)

omit [LawfulBEq α] in
theorem foldl_insNew_sublist (l acc : List α) :
    ∃ t, l.foldl insNew acc = acc ++ t ∧ t.Sublist l := by
  induction l generalizing acc with
  | nil => exact ⟨[], by simp, List.Sublist.refl _⟩
  | cons y ys ih =>
    rw [List.foldl_cons]
    by_cases hc : acc.contains y = true
    · obtain ⟨t, h1, h2⟩ := ih acc
      exact ⟨t, by rw [insNew_pos hc]; exact h1, h2.cons y⟩
    · obtain ⟨t, h1, h2⟩ := ih (acc ++ [y])
      refine ⟨y :: t, ?_, h2.cons_cons y⟩
      rw [insNew_neg hc, h1]; simp

/-- elements already in `acc` can be dropped from the input first -/
theorem foldl_insNew_filter (n : Nat) (l acc : List α) (hn : l.length ≤ n) :
    l.foldl insNew acc = acc ++ firstOccs (l.filter (fun x => !acc.contains x)) := by
  induction n generalizing l acc with
  | zero =>
    have : l = [] := List.length_eq_zero_iff.mp (Nat.le_zero.mp hn)
    subst this
    simp [firstOccs]
  | succ n ih =>
    cases l with
    | nil => simp [firstOccs]
    | cons y ys =>
      have hys : ys.length ≤ n := by simpa using hn
      rw [List.foldl_cons]
      by_cases hc : acc.contains y
      · simp only [insNew, hc, if_true, List.filter_cons, Bool.not_true, Bool.false_eq_true, if_false]
        exact ih ys acc hys
      · have hc' : acc.contains y = false := by simpa using hc
        simp only [insNew, hc', Bool.false_eq_true, if_false, List.filter_cons, Bool.not_false, if_true]
        rw [ih ys (acc ++ [y]) hys]
        unfold firstOccs
        rw [List.foldl_cons]
        have e1 : insNew ([] : List α) y = [y] := by simp [insNew]
        rw [e1, ih (ys.filter fun x => !acc.contains x) [y]
          (Nat.le_trans (List.length_filter_le _ _) hys)]
        rw [List.filter_filter, List.append_assoc]
        congr 2
        unfold firstOccs
        congr 1
        apply List.filter_congr
        intro x _
        by_cases hxy : x = y <;> by_cases hxa : x ∈ acc <;> simp [hxy, hxa]

/-- `firstOccs` keeps the head and then the first occurrences of the rest without it -/
theorem firstOccs_cons (x : α) (xs : List α) :
    firstOccs (x :: xs) = x :: firstOccs (xs.filter (fun b => !b == x)) := by
  unfold firstOccs
  rw [List.foldl_cons]
  have e1 : insNew ([] : List α) x = [x] := by simp [insNew]
  rw [e1, foldl_insNew_filter xs.length xs [x] (Nat.le_refl _)]
  simp only [List.singleton_append, List.cons.injEq, true_and]
  unfold firstOccs
  congr 1
  apply List.filter_congr
  intro y _
  simp

/-- `firstOccs` is core's `eraseDups` -/
theorem firstOccs_eq_eraseDups (n : Nat) (l : List α) (hn : l.length ≤ n) :
    firstOccs l = l.eraseDups := by
  induction n generalizing l with
  | zero =>
    have : l = [] := List.length_eq_zero_iff.mp (Nat.le_zero.mp hn)
    subst this
    simp [firstOccs]
  | succ n ih =>
    cases l with
    | nil => simp [firstOccs]
    | cons y ys =>
      rw [firstOccs_cons, List.eraseDups_cons, ih]
      exact Nat.le_trans (List.length_filter_le _ _) (by simpa using hn)

omit [BEq α] [LawfulBEq α] in
theorem foldl_append_toList {β : Type} (f : β → Option α) (l : List β) (init : List α) :
    l.foldl (fun acc w => acc ++ (f w).toList) init = init ++ l.filterMap f := by
  induction l generalizing init with
  | nil => simp
  | cons y ys ih =>
    rw [List.foldl_cons, ih, List.filterMap_cons]
    cases f y <;> simp

theorem foldl_append_if {β : Type} (p : β → Bool) (l : List β) (init : List β) :
    l.foldl (fun acc x => if p x then acc ++ [x] else acc) init = init ++ l.filter p := by
  induction l generalizing init with
  | nil => simp
  | cons y ys ih =>
    rw [List.foldl_cons, ih, List.filter_cons]
    cases p y <;> simp

end FirstOccs

/-! ### ipgrep, word mode -/

/-- the words `IPv4Obj` accepts and the words `IPv6Obj` accepts are disjoint -/
def Disjoint (O : Oracle) : Prop := ∀ w, O.ip4 w = none ∨ O.ip6 w = none

/-- what one (word, subnet) pair contributes: the rendering of a kept hit -/
def hitRender (O : Oracle) (o : Opts) (w : Str) (s : Addr) : Option Str :=
  match mkAddr O s.ver w with
  | some a => if hitA s a && !netExcluded o a && !hostExcluded O o a then some (render O o a) else none
  | none => none

/-- the address a word denotes, if any -/
def addrOf (O : Oracle) (w : Str) : Option Addr :=
  match mkAddr O .v4 w with
  | some a => some a
  | none => mkAddr O .v6 w

/-- `--exclude-hosts` (and the never-set `exclude_networks`) -/
def excluded (O : Oracle) (o : Opts) (a : Addr) : Bool := netExcluded o a || hostExcluded O o a

/-- the address lies in at least one requested subnet of its own family -/
def inSome (subnets : List Addr) (a : Addr) : Bool := subnets.any (fun s => hitA s a)

/-- the filter: a valid word inside some requested subnet and not excluded gives its rendering -/
def wordOut (O : Oracle) (o : Opts) (subnets : List Addr) (w : Str) : Option Str :=
  match addrOf O w with
  | some a => if inSome subnets a && !excluded O o a then some (render O o a) else none
  | none => none

theorem uniqueKey_eq_render' (O : Oracle) (o : Opts) (a : Addr) : uniqueKey O o a = render O o a := by
  unfold uniqueKey render
  cases o.showCidr <;> cases o.showNetworks <;> simp

theorem mkAddr_ver (O : Oracle) (v : Ver) (w : Str) (a : Addr) (h : mkAddr O v w = some a) :
    a.ver = v := by
  unfold mkAddr at h
  cases v with
  | v4 =>
    simp only [Option.map_eq_some_iff] at h
    obtain ⟨p, _, rfl⟩ := h
    rfl
  | v6 =>
    simp only [Option.map_eq_some_iff] at h
    obtain ⟨p, _, rfl⟩ := h
    rfl

theorem wordPlain_cons (O : Oracle) (o : Opts) (w : Str) (s : Addr) (rest : List Addr) :
    wordPlain O o w (s :: rest) =
      (match hitRender O o w s with
       | some r => some r
       | none => wordPlain O o w rest) := by
  rw [wordPlain]
  unfold hitRender
  cases mkAddr O s.ver w with
  | none => rfl
  | some a =>
    simp only
    cases hitA s a <;> cases netExcluded o a <;> cases hostExcluded O o a <;> simp

theorem wordPlain_eq (O : Oracle) (o : Opts) (w : Str) (subnets : List Addr) :
    wordPlain O o w subnets = subnets.findSome? (hitRender O o w) := by
  induction subnets with
  | nil => rfl
  | cons s rest ih =>
    rw [List.findSome?_cons, wordPlain_cons, ih]
    cases hitRender O o w s <;> rfl

theorem addrMatches_plain (O : Oracle) (o : Opts) (subnets : List Addr) (words : List Str)
    (hu : o.unique = false) :
    addrMatches O o subnets words = words.filterMap (fun w => subnets.findSome? (hitRender O o w)) := by
  unfold addrMatches
  simp only [hu, Bool.false_eq_true, if_false]
  rw [foldl_append_toList]
  simp only [List.nil_append]
  congr 1
  funext w
  exact wordPlain_eq O o w subnets

theorem wordUnique_cons (O : Oracle) (o : Opts) (w : Str) (s : Addr) (rest : List Addr) (acc : List Str) :
    wordUnique O o w (s :: rest) acc =
      wordUnique O o w rest (match hitRender O o w s with
       | some r => insNew acc r
       | none => acc) := by
  rw [wordUnique]
  unfold hitRender
  cases mkAddr O s.ver w with
  | none => rfl
  | some a =>
    simp only [uniqueKey_eq_render']
    cases hitA s a
    · simp
    · by_cases hm : render O o a ∈ acc
      · cases netExcluded o a <;> cases hostExcluded O o a <;>
          simp [hm, insNew_pos (List.contains_iff_mem.mpr hm)]
      · cases netExcluded o a <;> cases hostExcluded O o a <;>
          simp [hm, insNew_neg (fun h => hm (List.contains_iff_mem.mp h))]

theorem wordUnique_eq (O : Oracle) (o : Opts) (w : Str) (subnets : List Addr) (acc : List Str) :
    wordUnique O o w subnets acc = (subnets.filterMap (hitRender O o w)).foldl insNew acc := by
  induction subnets generalizing acc with
  | nil => rfl
  | cons s rest ih =>
    rw [wordUnique_cons, ih, List.filterMap_cons]
    cases hitRender O o w s <;> simp

theorem addrMatches_unique (O : Oracle) (o : Opts) (subnets : List Addr) (words : List Str)
    (hu : o.unique = true) :
    addrMatches O o subnets words =
      firstOccs (words.flatMap (fun w => subnets.filterMap (hitRender O o w))) := by
  unfold addrMatches firstOccs
  simp only [hu, if_true]
  rw [List.foldl_flatMap]
  congr 1
  funext acc w
  exact wordUnique_eq O o w subnets acc

/-- under `Disjoint`, a (word, subnet) pair contributes the word's own rendering or nothing -/
theorem hitRender_of_addr (O : Oracle) (o : Opts) (hd : Disjoint O) (w : Str) (a : Addr)
    (ha : addrOf O w = some a) (s : Addr) :
    hitRender O o w s = if hitA s a && !excluded O o a then some (render O o a) else none := by
  have hver : ∀ v b, mkAddr O v w = some b → b = a := by
    intro v b hb
    unfold addrOf at ha
    cases v with
    | v4 => rw [hb] at ha; exact Option.some.inj ha
    | v6 =>
      cases h4 : mkAddr O .v4 w with
      | some c =>
        exfalso
        rcases hd w with h | h
        · simp [mkAddr, h] at h4
        · simp [mkAddr, h] at hb
      | none => rw [h4] at ha; simp only at ha; rw [hb] at ha; exact Option.some.inj ha
  unfold hitRender
  cases hm : mkAddr O s.ver w with
  | some b =>
    have := hver _ _ hm
    subst this
    simp only [excluded, Bool.not_or, Bool.and_assoc]
  | none =>
    -- `a` belongs to the other family, so it cannot be a hit
    have hne : a.ver ≠ s.ver := by
      intro he
      unfold addrOf at ha
      cases h4 : mkAddr O .v4 w with
      | some c =>
        rw [h4] at ha
        have hc : c = a := Option.some.inj ha
        subst hc
        have := mkAddr_ver O .v4 w _ h4
        rw [← he, this, h4] at hm
        cases hm
      | none =>
        rw [h4] at ha
        simp only at ha
        have := mkAddr_ver O .v6 w _ ha
        rw [← he, this, ha] at hm
        cases hm
    have : hitA s a = false := by
      unfold hitA
      have : (a.ver == s.ver) = false := by simpa using hne
      simp [this]
    simp [this]

theorem hitRender_of_none (O : Oracle) (o : Opts) (w : Str) (ha : addrOf O w = none) (s : Addr) :
    hitRender O o w s = none := by
  unfold addrOf at ha
  cases h4 : mkAddr O .v4 w with
  | some c => rw [h4] at ha; cases ha
  | none =>
    rw [h4] at ha
    simp only at ha
    unfold hitRender
    cases hv : s.ver with
    | v4 => simp [h4]
    | v6 => simp [ha]

theorem filterMap_none' {β γ : Type} (l : List β) : l.filterMap (fun _ => (none : Option γ)) = [] := by
  induction l with
  | nil => rfl
  | cons s rest ih => rw [List.filterMap_cons]; exact ih

theorem findSome_none' {β γ : Type} (l : List β) : l.findSome? (fun _ => (none : Option γ)) = none := by
  induction l with
  | nil => rfl
  | cons s rest ih => rw [List.findSome?_cons]; exact ih

theorem findSome_if {β γ : Type} (p : β → Bool) (c : Bool) (r : γ) (l : List β) :
    l.findSome? (fun s => if p s && c then some r else none) = if l.any p && c then some r else none := by
  cases c with
  | false => simp
  | true =>
    simp only [Bool.and_true]
    induction l with
    | nil => rfl
    | cons s rest ih =>
      rw [List.findSome?_cons, List.any_cons]
      cases hp : p s
      · simpa using ih
      · simp

theorem foldl_insNew_if {β : Type} (p : β → Bool) (c : Bool) (r : Str) (l : List β) (acc : List Str) :
    (l.filterMap (fun s => if p s && c then some r else none)).foldl insNew acc
      = if l.any p && c then insNew acc r else acc := by
  cases c with
  | false => simpa using congrArg (List.foldl insNew acc) (filterMap_none' (γ := Str) l)
  | true =>
    simp only [Bool.and_true]
    induction l generalizing acc with
    | nil => rfl
    | cons s rest ih =>
      rw [List.filterMap_cons, List.any_cons]
      cases hp : p s
      · simpa using ih acc
      · simp only [if_true, List.foldl_cons, Bool.true_or]
        rw [ih]
        split
        · exact insNew_idem acc r
        · rfl

theorem findSome_hitRender (O : Oracle) (o : Opts) (hd : Disjoint O) (subnets : List Addr) (w : Str) :
    subnets.findSome? (hitRender O o w) = wordOut O o subnets w := by
  unfold wordOut inSome
  cases ha : addrOf O w with
  | none =>
    have : hitRender O o w = fun _ => none := funext (hitRender_of_none O o w ha)
    rw [this]
    exact findSome_none' subnets
  | some a =>
    have : hitRender O o w = fun s => if hitA s a && !excluded O o a then some (render O o a) else none :=
      funext (hitRender_of_addr O o hd w a ha)
    rw [this]
    exact findSome_if _ _ _ _

theorem foldl_hitRender (O : Oracle) (o : Opts) (hd : Disjoint O) (subnets : List Addr) (w : Str)
    (acc : List Str) :
    (subnets.filterMap (hitRender O o w)).foldl insNew acc
      = (match wordOut O o subnets w with
         | some r => insNew acc r
         | none => acc) := by
  unfold wordOut inSome
  cases ha : addrOf O w with
  | none =>
    have : hitRender O o w = fun _ => none := funext (hitRender_of_none O o w ha)
    rw [this, filterMap_none']
    rfl
  | some a =>
    have : hitRender O o w = fun s => if hitA s a && !excluded O o a then some (render O o a) else none :=
      funext (hitRender_of_addr O o hd w a ha)
    rw [this, foldl_insNew_if]
    simp only
    split <;> simp_all

theorem foldl_match_filterMap (f : Str → Option Str) (words : List Str) (acc : List Str) :
    words.foldl (fun acc w => match f w with
      | some r => insNew acc r
      | none => acc) acc = (words.filterMap f).foldl insNew acc := by
  induction words generalizing acc with
  | nil => rfl
  | cons w ws ih =>
    rw [List.foldl_cons, List.filterMap_cons, ih]
    cases f w <;> simp

/-! ### ipgrep, line mode -/

/-- what a (word, subnet) pair means for a line: `none` = no hit, `some true` = a hit that is
excluded, `some false` = a hit that counts -/
def lineEv (O : Oracle) (o : Opts) (w : Str) (s : Addr) : Option Bool :=
  match mkAddr O s.ver w with
  | some a => if hitA s a then some (excluded O o a) else none
  | none => none

def evStep (st : LineSt) (e : Option Bool) : LineSt :=
  match e with
  | none => st
  | some ex => if st.exclude then st else if ex then ⟨false, true⟩ else ⟨true, st.exclude⟩

theorem lineStep_eq (O : Oracle) (o : Opts) (w : Str) (st : LineSt) (s : Addr) :
    lineStep O o w st s = evStep st (lineEv O o w s) := by
  unfold lineStep lineEv evStep excluded
  cases mkAddr O s.ver w with
  | none => rfl
  | some a =>
    simp only
    cases hitA s a <;> cases st.exclude <;> cases netExcluded o a <;> cases hostExcluded O o a <;> simp

theorem evScan_excl (es : List (Option Bool)) (st : LineSt) (h : st.exclude = true) :
    es.foldl evStep st = st := by
  induction es with
  | nil => rfl
  | cons e rest ih =>
    rw [List.foldl_cons]
    have : evStep st e = st := by
      unfold evStep
      cases e <;> simp [h]
    rw [this, ih]

theorem evScan_append (es : List (Option Bool)) (a : Bool) :
    (es.foldl evStep ⟨a, false⟩).append
      = ((a || es.any (· == some false)) && !(es.any (· == some true))) := by
  induction es generalizing a with
  | nil => simp
  | cons e rest ih =>
    rw [List.foldl_cons]
    cases e with
    | none => simpa [evStep] using ih a
    | some ex =>
      cases ex
      · simp only [evStep, Bool.false_eq_true, if_false]
        rw [ih true]
        simp
      · simp only [evStep, Bool.false_eq_true, if_false, if_true]
        rw [evScan_excl _ _ rfl]
        simp

theorem lineScan_eq (O : Oracle) (o : Opts) (subnets : List Addr) (line : Str) :
    lineScan O o subnets line =
      ((O.split line).flatMap (fun w => subnets.map (lineEv O o w))).foldl evStep ⟨false, false⟩ := by
  unfold lineScan
  rw [List.foldl_flatMap]
  congr 1
  funext st w
  rw [List.foldl_map]
  congr 1
  funext st s
  exact lineStep_eq O o w st s

/-! ### macgrep -/

theorem macLineHas_eq (O : Oracle) (regexes : List Str) (line : Str) :
    macLineHas O regexes line = (O.split line).any (macWordMatches O regexes) := by
  unfold macLineHas
  generalize O.split line = ws
  have : ∀ (b : Bool), ws.foldl (fun appended w =>
      if appended then appended else macWordMatches O regexes w) b
      = (b || ws.any (macWordMatches O regexes)) := by
    induction ws with
    | nil => simp
    | cons w rest ih =>
      intro b
      rw [List.foldl_cons, ih, List.any_cons]
      cases b <;> simp
  simpa using this false

section MacLemmas
open Ccp.Mac

/-- the class reported by `macaddress.parse(s, cls)` is `cls` -/
theorem parse_single_cls (k : Kind) (s : Str) (v : Nat) (c : Cls)
    (h : Mac.parse [k.cls] s = .ok (v, c)) : c = k.cls := by
  have ok := candsOK k s.length
  unfold Mac.parse at h
  by_cases hs : s.length < 1
  · simp [hs] at h
  simp only [hs, if_false] at h
  by_cases hC : candidates [k.cls] s.length = []
  · match s, hs with
    | c0 :: cs, _ => rw [hC, loop_nil_cands] at h; cases h
  · have inv : Inv (candidates [k.cls] s.length) s.length :=
      ⟨ok.sorted, fun c hc => (ok.sound c hc).1⟩
    have sp := loop_spec s 0 _ inv hC
    by_cases hF : (candidates [k.cls] s.length).filter (fun c => tmatch c.rest s) = []
    · rw [sp.1 hF] at h; cases h
    · obtain ⟨out, ho, hid⟩ := sp.2 hF
      rw [ho] at h
      cases out with
      | nil => cases h
      | cons k0 rest =>
        simp only [Except.ok.injEq, Prod.mk.injEq] at h
        have hmem : k0.id ∈ ((candidates [k.cls] s.length).filter (fun c => tmatch c.rest s)).map Cand.id := by
          rw [← hid]; simp
        obtain ⟨c', hc', hid'⟩ := List.mem_map.mp hmem
        have hc'' := (List.mem_filter.mp hc').1
        have := (ok.sound c' hc'').2.2
        have e : c'.cls = k0.cls := by
          have := congrArg Prod.snd hid'
          simpa [Cand.id] using this
        rw [← h.2, ← e, this]

theorem cands_both (k : Kind) (t : Str) (ht : t ∈ k.cls.formats) :
    candidates [eui48, eui64] t.length = candidates [k.cls] t.length := by
  cases k with
  | mac =>
    simp only [Kind.cls, eui48, List.mem_cons, List.mem_nil_iff, or_false] at ht
    rcases ht with rfl | rfl | rfl | rfl <;> decide
  | eui64 =>
    simp only [Kind.cls, eui64, List.mem_cons, List.mem_nil_iff, or_false] at ht
    rcases ht with rfl | rfl | rfl | rfl <;> decide

/-- `MACEUISearch` classifies a word as kind `k` with value `v` exactly when C16's constructor of
that kind accepts it with that value -/
theorem macOf_iff (w : Str) (k : Kind) (v : Nat) :
    macOf w = some (k, v) ↔ Mac.parseObj k w = .ok v := by
  constructor
  · intro h
    unfold macOf at h
    split at h
    · cases h
    · split at h
      · split at h
        · cases h; assumption
        · cases h
      · split at h
        · split at h
          · cases h; assumption
          · cases h
        · cases h
  · intro h
    have h' := h
    rw [parseObj_eq] at h'
    by_cases hany : k.cls.formats.any (fun t => tmatch t w) = true
    · obtain ⟨t, ht, hm⟩ := List.any_eq_true.mp hany
      have hlen := tmatch_length t w hm
      have hc := cands_both k t ht
      rw [hlen] at hc
      have hp : Mac.parse [eui48, eui64] w = Mac.parse [k.cls] w := by
        unfold Mac.parse
        rw [hc]
      -- what `parse [k.cls] w` is
      unfold Mac.parseObj at h
      cases hq : Mac.parse [k.cls] w with
      | error e => rw [hq] at h; cases h
      | ok r =>
        obtain ⟨v', c⟩ := r
        have hcls := parse_single_cls k w v' c hq
        subst hcls
        unfold macOf
        rw [hp, hq]
        have hobj : Mac.parseObj k w = .ok v := by unfold Mac.parseObj; rw [hq]; rw [hq] at h; exact h
        cases k with
        | mac =>
          simp only [Kind.cls, if_true]
          rw [hobj]
        | eui64 =>
          have hne : Mac.eui64 ≠ Mac.eui48 := by decide
          simp only [Kind.cls, hne, if_false, if_true]
          rw [hobj]
    · rw [if_neg hany] at h'; cases h'

end MacLemmas

/-! ### sub-commands -/

theorem forFiles_eq_aux (files : List Str) (body : Str → Except Err (List Str)) (acc : List Str) :
    files.foldlM (fun acc f => do let out ← body f; pure (acc ++ out)) acc
      = (files.mapM body).map (fun outs => acc ++ outs.flatten) := by
  induction files generalizing acc with
  | nil => simp [Except.map, pure, Except.pure]
  | cons f fs ih =>
    rw [List.foldlM_cons, List.mapM_cons]
    cases hb : body f with
    | error e => rfl
    | ok out =>
      show List.foldlM _ (acc ++ out) fs = _
      rw [ih]
      cases List.mapM body fs with
      | error e => rfl
      | ok outs => simp [Except.map, bind, Except.bind, pure, Except.pure]

/-- the file loop: outputs concatenated in file order; the first exception ends the run -/
theorem forFiles_eq (files : List Str) (body : Str → Except Err (List Str)) :
    forFiles files body = (files.mapM body).map List.flatten := by
  unfold forFiles
  rw [forFiles_eq_aux]
  simp

end Ccp.Cli
