import Ccp.Model.Cli
namespace Ccp.Cli
end Ccp.Cli
