import Ccp.Spec.BannerLinks
import Ccp.Proofs.TreeLink
import Ccp.Proofs.TreeLossless
import Ccp.Proofs.TreeKeep
/-!
Helper lemmas for the banner / macro part of C02 and C03: what the index walks of passes 2
and 3 do to the parent of every line (pointwise), the "last start wins" reading of running
the walks in line order, and the final parents of `link` / `parse` as `specParentFull`.
Core Lean only.
-/
namespace Ccp.Tree
open Ccp.Py

/-! ## the specification vocabulary -/

theorem covers_iff (cov : Str → List Str → Nat) (ls : List Str) (q j : Nat) :
    covers cov ls q j = true ↔ q < j ∧ j - q ≤ cov (ls.getD q []) (ls.drop (q + 1)) := by
  simp [covers]

theorem lastCover_eq_some (cov : Str → List Str → Nat) (ls : List Str) (j n q : Nat) :
    lastCover cov ls j n = some q ↔
      q < n ∧ covers cov ls q j = true ∧ ∀ m, q < m → m < n → covers cov ls m j = false := by
  induction n with
  | zero => simp [lastCover]
  | succ n ih =>
    unfold lastCover
    by_cases hc : covers cov ls n j = true
    · simp only [hc, if_true, Option.some.injEq]
      constructor
      · rintro rfl
        exact ⟨by omega, hc, fun m h1 h2 => by omega⟩
      · rintro ⟨h1, _, h3⟩
        by_cases hq : q = n
        · exact hq.symm
        · have := h3 n (by omega) (by omega)
          rw [hc] at this; cases this
    · simp only [hc, Bool.false_eq_true, if_false]
      rw [ih]
      have hc' : covers cov ls n j = false := by simpa using hc
      constructor
      · rintro ⟨h1, h2, h3⟩
        refine ⟨by omega, h2, fun m hm1 hm2 => ?_⟩
        by_cases hm : m = n
        · subst hm; exact hc'
        · exact h3 m hm1 (by omega)
      · rintro ⟨h1, h2, h3⟩
        have hq : q ≠ n := by rintro rfl; rw [h2] at hc'; cases hc'
        exact ⟨by omega, h2, fun m hm1 hm2 => h3 m hm1 (by omega)⟩

theorem lastCover_eq_none (cov : Str → List Str → Nat) (ls : List Str) (j n : Nat) :
    lastCover cov ls j n = none ↔ ∀ m, m < n → covers cov ls m j = false := by
  induction n with
  | zero => simp [lastCover]
  | succ n ih =>
    unfold lastCover
    by_cases hc : covers cov ls n j = true
    · simp only [hc, if_true]
      constructor
      · intro h; cases h
      · intro h; have := h n (by omega); rw [hc] at this; cases this
    · simp only [hc, Bool.false_eq_true, if_false]
      rw [ih]
      have hc' : covers cov ls n j = false := by simpa using hc
      constructor
      · intro h m hm
        by_cases hmn : m = n
        · subst hmn; exact hc'
        · exact h m (by omega)
      · intro h m hm; exact h m (by omega)

theorem lastCover_lt (cov : Str → List Str → Nat) (ls : List Str) (j n q : Nat)
    (h : lastCover cov ls j n = some q) : q < n :=
  ((lastCover_eq_some cov ls j n q).mp h).1

/-- the stretch of a banner start = its body (`Spec/BlankKeep.lean`) and, when there is one,
the closing line -/
theorem bannerLinkLen_eq (d : Char) (rest : List Str) :
    bannerLinkLen d rest = min (bannerBodyLen d rest + 1) rest.length := by
  induction rest with
  | nil => simp [bannerLinkLen, bannerBodyLen]
  | cons y rest ih =>
    unfold bannerLinkLen bannerBodyLen
    split
    · simp
    · rw [ih]; simp only [List.length_cons]; omega

theorem bannerLinkLen_le (d : Char) (rest : List Str) : bannerLinkLen d rest ≤ rest.length := by
  rw [bannerLinkLen_eq]; omega

theorem coverB_le (x : Str) (rest : List Str) : coverB x rest ≤ rest.length := by
  unfold coverB
  split
  · split
    · split
      · omega
      · exact bannerLinkLen_le _ _
    · omega
  · omega

theorem coverM_le (x : Str) (rest : List Str) : coverM x rest ≤ rest.length := by
  unfold coverM
  split
  · exact macroBodyLen_le rest
  · omega

/-- a start whose stretch reaches `j` implies that `j` is a line of the config -/
theorem covers_lt_length (cov : Str → List Str → Nat) (hcov : ∀ x rest, cov x rest ≤ rest.length)
    (ls : List Str) (q j : Nat) (h : covers cov ls q j = true) : j < ls.length := by
  obtain ⟨h1, h2⟩ := (covers_iff cov ls q j).mp h
  have := hcov (ls.getD q []) (ls.drop (q + 1))
  simp only [List.length_drop] at this
  omega

/-! ## `pick`: the last start at or after `i`, else a default -/

/-- the owner found by `lastCover` if it is one of the starts processed so far (`≥ i`), else `dflt` -/
def pick (i : Nat) (o : Option Nat) (dflt : Nat) : Nat :=
  match o with
  | some q => if i ≤ q then q else dflt
  | none => dflt

theorem pick_zero (o : Option Nat) (dflt : Nat) : pick 0 o dflt = o.getD dflt := by
  cases o <;> simp [pick]

/-- processing start `i` first and the later starts afterwards = "the last one wins" -/
theorem pick_step (cov : Str → List Str → Nat) (ls : List Str) (i j P : Nat) :
    pick (i + 1) (lastCover cov ls j j) (if covers cov ls i j = true then i else P) =
      pick i (lastCover cov ls j j) P := by
  cases ho : lastCover cov ls j j with
  | none =>
    have h0 := (lastCover_eq_none cov ls j j).mp ho
    have hi : covers cov ls i j = false := by
      by_cases hij : i < j
      · exact h0 i hij
      · cases hc : covers cov ls i j with
        | false => rfl
        | true => have := ((covers_iff cov ls i j).mp hc).1; omega
    simp [pick, hi]
  | some q =>
    obtain ⟨hq, hc, hmax⟩ := (lastCover_eq_some cov ls j j q).mp ho
    simp only [pick]
    by_cases h1 : i + 1 ≤ q
    · have : i ≤ q := by omega
      simp [h1, this]
    · by_cases h2 : i = q
      · subst h2; simp [hc]
      · have h3 : ¬ i ≤ q := by omega
        have hi : covers cov ls i j = false := by
          by_cases hij : i < j
          · exact hmax i (by omega) hij
          · cases hc' : covers cov ls i j with
            | false => rfl
            | true => have := ((covers_iff cov ls i j).mp hc').1; omega
        simp [h1, h3, hi]

/-! ## what one walk does to the parents -/

theorem parentOf_reparent (t : T) (p c j : Nat) :
    parentOf (reparent t p c) j = if c = j ∧ j < t.parents.length then p else parentOf t j := by
  unfold parentOf reparent
  simp only [List.getD_eq_getElem?_getD, List.getElem?_set]
  by_cases h : c = j
  · subst h
    by_cases h2 : c < t.parents.length
    · simp [h2]
    · simp [h2]
  · simp [h]

theorem parentOf_setKeep (t : T) (i j : Nat) : parentOf (setKeep t i) j = parentOf t j := rfl

theorem bannerWalk_parent (d : Char) (p : Nat) (body : List Str) :
    ∀ (idx : Nat) (t : T), idx + body.length ≤ t.parents.length → ∀ j,
      parentOf (bannerWalk d p idx body t) j =
        if idx ≤ j ∧ j - idx < bannerLinkLen d body then p else parentOf t j := by
  induction body with
  | nil => intro idx t _ j; simp [bannerWalk, bannerLinkLen]
  | cons y rest ih =>
    intro idx t hlen j
    simp only [List.length_cons] at hlen
    unfold bannerWalk bannerLinkLen
    split
    · rw [parentOf_reparent]
      by_cases h : idx = j
      · subst h
        rw [if_pos ⟨rfl, by omega⟩, if_pos ⟨Nat.le_refl _, by omega⟩]
      · have : ¬ (idx ≤ j ∧ j - idx < 1) := by omega
        rw [if_neg this, if_neg (fun hh => h hh.1)]
    · have hlen' : idx + 1 + rest.length ≤ (setKeep (reparent t p idx) idx).parents.length := by
        simp [setKeep, reparent]; omega
      rw [ih (idx + 1) _ hlen' j, parentOf_setKeep, parentOf_reparent]
      by_cases h1 : idx + 1 ≤ j ∧ j - (idx + 1) < bannerLinkLen d rest
      · have : idx ≤ j ∧ j - idx < 1 + bannerLinkLen d rest := by omega
        rw [if_pos h1, if_pos this]
      · by_cases h2 : idx = j
        · subst h2
          have h3 : idx < t.parents.length := by omega
          rw [if_neg h1, if_pos ⟨rfl, h3⟩, if_pos ⟨Nat.le_refl _, by omega⟩]
        · have : ¬ (idx ≤ j ∧ j - idx < 1 + bannerLinkLen d rest) := by omega
          rw [if_neg h1, if_neg (fun hh => h2 hh.1), if_neg this]

theorem macroWalk_parent (p : Nat) (body : List Str) :
    ∀ (idx : Nat) (t : T), idx + body.length ≤ t.parents.length → ∀ j,
      parentOf (macroWalk p idx body t) j =
        if idx ≤ j ∧ j - idx < macroBodyLen body then p else parentOf t j := by
  induction body with
  | nil => intro idx t _ j; simp [macroWalk, macroBodyLen]
  | cons y rest ih =>
    intro idx t hlen j
    simp only [List.length_cons] at hlen
    unfold macroWalk macroBodyLen
    simp only
    have hset : (setKeep t idx).parents.length = t.parents.length := rfl
    split
    · rw [parentOf_reparent, hset, parentOf_setKeep]
      by_cases h : idx = j
      · subst h
        rw [if_pos ⟨rfl, by omega⟩, if_pos ⟨Nat.le_refl _, by omega⟩]
      · have : ¬ (idx ≤ j ∧ j - idx < 1) := by omega
        rw [if_neg this, if_neg (fun hh => h hh.1)]
    · have hlen' : idx + 1 + rest.length ≤ (reparent (setKeep t idx) p idx).parents.length := by
        simp [setKeep, reparent]; omega
      rw [ih (idx + 1) _ hlen' j, parentOf_reparent, hset, parentOf_setKeep]
      by_cases h1 : idx + 1 ≤ j ∧ j - (idx + 1) < macroBodyLen rest
      · have : idx ≤ j ∧ j - idx < 1 + macroBodyLen rest := by omega
        rw [if_pos h1, if_pos this]
      · by_cases h2 : idx = j
        · subst h2
          have h3 : idx < t.parents.length := by omega
          rw [if_neg h1, if_pos ⟨rfl, h3⟩, if_pos ⟨Nat.le_refl _, by omega⟩]
        · have : ¬ (idx ≤ j ∧ j - idx < 1 + macroBodyLen rest) := by omega
          rw [if_neg h1, if_neg (fun hh => h2 hh.1), if_neg this]

/-- one banner start: the lines of its stretch get it as parent, nothing else changes -/
theorem markBanner_parent (t : T) (p : Nat) (x : Str) (hwf : t.WF) (hx : t.texts[p]? = some x)
    (hb : isBannerStart x = true) (j : Nat) :
    parentOf (markBanner t p x) j = if covers coverB t.texts p j = true then p else parentOf t j := by
  have hp : p < t.texts.length := (List.getElem?_eq_some_iff.mp hx).1
  have hpl : t.parents.length = t.texts.length := hwf.1
  have hgd : t.texts.getD p [] = x := by simp [List.getD_eq_getElem?_getD, hx]
  simp only [covers_iff, hgd]
  unfold markBanner coverB
  simp only [hb, if_true]
  cases hd : bannerDelim x with
  | none => simp [parentOf_setKeep]; omega
  | some d =>
    by_cases hc : countChar d x ≥ 2
    · simp [hc, parentOf_setKeep]; omega
    · simp only [hc, if_false]
      have hlen : p + 1 + ((setKeep t p).texts.drop (p + 1)).length ≤ (setKeep t p).parents.length := by
        simp [setKeep]; omega
      rw [bannerWalk_parent _ _ _ _ _ hlen j, parentOf_setKeep]
      show (if p + 1 ≤ j ∧ j - (p + 1) < bannerLinkLen d (t.texts.drop (p + 1)) then p else parentOf t j) = _
      by_cases h : p + 1 ≤ j ∧ j - (p + 1) < bannerLinkLen d (t.texts.drop (p + 1))
      · have : p < j ∧ j - p ≤ bannerLinkLen d (t.texts.drop (p + 1)) := by omega
        rw [if_pos h, if_pos (by simpa using this)]
      · have : ¬ (p < j ∧ j - p ≤ bannerLinkLen d (t.texts.drop (p + 1))) := by omega
        rw [if_neg h, if_neg (by simpa using this)]

/-- a line that is not a banner start has an empty banner stretch -/
theorem covers_coverB_of_not_start (ls : List Str) (p j : Nat) (x : Str) (hx : ls[p]? = some x)
    (hb : ¬ isBannerStart x = true) : covers coverB ls p j = false := by
  have hgd : ls.getD p [] = x := by simp [List.getD_eq_getElem?_getD, hx]
  cases h : covers coverB ls p j with
  | false => rfl
  | true =>
    have := (covers_iff coverB ls p j).mp h
    rw [hgd] at this
    simp [coverB, hb] at this
    omega

theorem covers_coverM_of_not_start (ls : List Str) (p j : Nat) (x : Str) (hx : ls[p]? = some x)
    (hb : ¬ isMacroStart x = true) : covers coverM ls p j = false := by
  have hgd : ls.getD p [] = x := by simp [List.getD_eq_getElem?_getD, hx]
  cases h : covers coverM ls p j with
  | false => rfl
  | true =>
    have := (covers_iff coverM ls p j).mp h
    rw [hgd] at this
    simp [coverM, hb] at this
    omega

/-- one macro start -/
theorem markMacro_parent (t : T) (p : Nat) (x : Str) (hwf : t.WF) (hx : t.texts[p]? = some x)
    (hb : isMacroStart x = true) (j : Nat) :
    parentOf (macroWalk p (p + 1) (t.texts.drop (p + 1)) (setKeep t p)) j =
      if covers coverM t.texts p j = true then p else parentOf t j := by
  have hp : p < t.texts.length := (List.getElem?_eq_some_iff.mp hx).1
  have hpl : t.parents.length = t.texts.length := hwf.1
  have hgd : t.texts.getD p [] = x := by simp [List.getD_eq_getElem?_getD, hx]
  simp only [covers_iff, hgd]
  unfold coverM
  simp only [hb, if_true]
  have hlen : p + 1 + (t.texts.drop (p + 1)).length ≤ (setKeep t p).parents.length := by
    simp [setKeep]; omega
  rw [macroWalk_parent _ _ _ _ hlen j, parentOf_setKeep]
  by_cases h : p + 1 ≤ j ∧ j - (p + 1) < macroBodyLen (t.texts.drop (p + 1))
  · have : p < j ∧ j - p ≤ macroBodyLen (t.texts.drop (p + 1)) := by omega
    rw [if_pos h, if_pos (by simpa using this)]
  · have : ¬ (p < j ∧ j - p ≤ macroBodyLen (t.texts.drop (p + 1))) := by omega
    rw [if_neg h, if_neg (by simpa using this)]

/-! ## the passes: the last start wins -/

theorem markBannersFrom_parent (suffix : List Str) :
    ∀ (i : Nat) (t : T), t.WF → t.texts.drop i = suffix → ∀ j,
      parentOf (markBannersFrom i suffix t) j =
        pick i (lastCover coverB t.texts j j) (parentOf t j) := by
  induction suffix with
  | nil =>
    intro i t _ hd j
    have hlen : t.texts.length ≤ i := by simpa using hd
    simp only [markBannersFrom]
    cases ho : lastCover coverB t.texts j j with
    | none => rfl
    | some q =>
      obtain ⟨hq, hc, _⟩ := (lastCover_eq_some coverB t.texts j j q).mp ho
      have := covers_lt_length coverB coverB_le t.texts q j hc
      have : ¬ i ≤ q := by omega
      simp [pick, this]
  | cons x rest ih =>
    intro i t hwf hd j
    obtain ⟨hx, hrest, hi⟩ := drop_cons_getElem? _ _ _ _ hd
    unfold markBannersFrom
    by_cases hb : isBannerStart x = true
    · simp only [hb, if_true]
      rw [ih (i + 1) _ (markBanner_wf _ _ _ hwf) (by rw [markBanner_texts]; exact hrest) j,
        markBanner_texts, markBanner_parent t i x hwf hx hb j, pick_step]
    · simp only [hb, Bool.false_eq_true, if_false]
      rw [ih (i + 1) _ hwf hrest j, ← pick_step coverB t.texts i j,
        covers_coverB_of_not_start t.texts i j x hx hb]
      simp

theorem markMacrosFrom_parent (suffix : List Str) :
    ∀ (i : Nat) (t : T), t.WF → t.texts.drop i = suffix → ∀ j,
      parentOf (markMacrosFrom i suffix t) j =
        pick i (lastCover coverM t.texts j j) (parentOf t j) := by
  induction suffix with
  | nil =>
    intro i t _ hd j
    have hlen : t.texts.length ≤ i := by simpa using hd
    simp only [markMacrosFrom]
    cases ho : lastCover coverM t.texts j j with
    | none => rfl
    | some q =>
      obtain ⟨hq, hc, _⟩ := (lastCover_eq_some coverM t.texts j j q).mp ho
      have := covers_lt_length coverM coverM_le t.texts q j hc
      have : ¬ i ≤ q := by omega
      simp [pick, this]
  | cons x rest ih =>
    intro i t hwf hd j
    obtain ⟨hx, hrest, hi⟩ := drop_cons_getElem? _ _ _ _ hd
    unfold markMacrosFrom
    by_cases hb : isMacroStart x = true
    · simp only [hb, if_true]
      have hwf' : (macroWalk i (i + 1) (t.texts.drop (i + 1)) (setKeep t i)).WF :=
        macroWalk_wf _ _ _ _ (setKeep_wf _ _ hwf)
      rw [ih (i + 1) _ hwf' (by rw [macroWalk_texts]; exact hrest) j,
        macroWalk_texts, markMacro_parent t i x hwf hx hb j]
      exact pick_step coverM t.texts i j _
    · simp only [hb, Bool.false_eq_true, if_false]
      rw [ih (i + 1) _ hwf hrest j, ← pick_step coverM t.texts i j,
        covers_coverM_of_not_start t.texts i j x hx hb]
      simp

/-! ## passes 1–3 -/

theorem parentOf_pass1 (cfg : Cfg) (ls : List Str) (keep : List Bool) (j : Nat) (hj : j < ls.length) :
    parentOf { texts := ls, parents := linkByIndent cfg ls, keep := keep } j =
      specParent (ls.map (info cfg)) j := by
  simp [parentOf, linkByIndent_eq_map, List.getD_eq_getElem?_getD, hj]

/-- **the parent of every line after passes 1–3** -/
theorem link_parentOf (cfg : Cfg) (ls : List Str) (j : Nat) (hj : j < ls.length) :
    parentOf (link cfg ls) j = specParentFull cfg ls j := by
  unfold link specParentFull macroOwner bannerOwner
  let t0 : T := { texts := ls, parents := linkByIndent cfg ls, keep := ls.map (fun _ => false) }
  have hwf0 : t0.WF := by simp [t0, T.WF, linkByIndent_length_ll]
  have hB : parentOf (markBanners t0) j =
      (lastCover coverB ls j j).getD (specParent (ls.map (info cfg)) j) := by
    unfold markBanners
    rw [markBannersFrom_parent _ 0 t0 hwf0 (by simp) j, pick_zero]
    show (lastCover coverB ls j j).getD (parentOf t0 j) = _
    rw [parentOf_pass1 cfg ls _ j hj]
  show parentOf (markMacros cfg (markBanners t0)) j = _
  unfold markMacros
  cases hi : cfg.ios with
  | false =>
    simp only [Bool.false_eq_true, if_false]
    rw [hB]
    cases lastCover coverB ls j j <;> rfl
  | true =>
    simp only [if_true]
    rw [markMacrosFrom_parent _ 0 _ (markBanners_wf _ hwf0) (by simp) j, pick_zero, hB,
      markBanners_texts]
    show (lastCover coverM ls j j).getD _ = _
    cases lastCover coverM ls j j with
    | some m => rfl
    | none => cases lastCover coverB ls j j <;> rfl

theorem link_parents_eq_spec (cfg : Cfg) (ls : List Str) :
    (link cfg ls).parents = (List.range ls.length).map (specParentFull cfg ls) := by
  have hlen : (link cfg ls).parents.length = ls.length := by
    rw [(link_wf cfg ls).1, link_texts_ll]
  apply List.ext_getElem (by simp [hlen])
  intro j h1 h2
  have hj : j < ls.length := by omega
  have := link_parentOf cfg ls j hj
  simp only [parentOf, List.getD_eq_getElem?_getD, List.getElem?_eq_getElem h1, Option.getD_some] at this
  simp [this]

theorem link_children_eq_spec (cfg : Cfg) (ls : List Str) (p : Nat) :
    children (link cfg ls) p = specChildrenFull cfg ls p := by
  unfold children specChildrenFull
  have hs : (link cfg ls).size = ls.length := by simp [T.size, link_texts_ll]
  rw [hs]
  apply List.filter_congr
  intro j hj
  rw [link_parentOf cfg ls j (List.mem_range.mp hj)]

/-! ## the whole parse -/

theorem parse_is_link (cfg : Cfg) (ls : List Str) : parse cfg ls = link cfg (parse cfg ls).texts := by
  rw [parse_eq_bootstrap]; exact bootstrapFuel_is_link cfg _ _

theorem parse_texts_noIgnore (cfg : Cfg) (ls : List Str) (hi : cfg.ignoreBlank = false) :
    (parse cfg ls).texts = ls := by
  rw [parse_eq_bootstrap, bootstrap, bootstrapFuel_noIgnore cfg hi, link_texts_ll]

theorem parse_texts_ignore (cfg : Cfg) (ls : List Str) (hi : cfg.ignoreBlank = true) :
    (parse cfg ls).texts = (ls.zipIdx.filter (fun xj => keepSpec cfg ls xj.2)).map Prod.fst := by
  rw [parse_eq_bootstrap, bootstrap_texts_eq_scan cfg hi, keptScan_eq_filter]

/-! ## without starts the full specification is the indentation rule -/

theorem lastCover_none_of_no_cover (cov : Str → List Str → Nat) (ls : List Str) (j n : Nat)
    (h : ∀ q x, ls[q]? = some x → cov x (ls.drop (q + 1)) = 0) (hn : n ≤ ls.length) :
    lastCover cov ls j n = none := by
  rw [lastCover_eq_none]
  intro m hm
  cases hc : covers cov ls m j with
  | false => rfl
  | true =>
    have hml : m < ls.length := by omega
    have := (covers_iff cov ls m j).mp hc
    rw [show ls.getD m [] = ls[m] by simp [List.getD_eq_getElem?_getD, List.getElem?_eq_getElem hml],
      h m ls[m] (List.getElem?_eq_getElem hml)] at this
    omega

theorem specParentFull_plain (cfg : Cfg) (ls : List Str)
    (hb : ∀ x ∈ ls, isBannerStart x = false)
    (hm : cfg.ios = true → ∀ x ∈ ls, isMacroStart x = false) (i : Nat) (hi : i < ls.length) :
    specParentFull cfg ls i = specParent (ls.map (info cfg)) i := by
  unfold specParentFull macroOwner bannerOwner
  have hB : lastCover coverB ls i i = none :=
    lastCover_none_of_no_cover coverB ls i i (fun q x hx => by
      simp [coverB, hb x (List.mem_of_getElem? hx)]) (by omega)
  rw [hB]
  cases hios : cfg.ios with
  | false => simp
  | true =>
    have hM : lastCover coverM ls i i = none :=
      lastCover_none_of_no_cover coverM ls i i (fun q x hx => by
        simp [coverM, hm hios x (List.mem_of_getElem? hx)]) (by omega)
    simp [hM]

/-! ## the stretches, read position by position -/

/-- the `k`-th line after a banner start (`k ≥ 1`) is in its stretch iff it exists and none
of the `k - 1` lines before it contains the delimiter -/
theorem bannerLinkLen_spec (d : Char) (rest : List Str) (k : Nat) :
    k + 1 ≤ bannerLinkLen d rest ↔
      k < rest.length ∧ ∀ m y, m < k → rest[m]? = some y → (strip y).contains d = false := by
  induction rest generalizing k with
  | nil => simp [bannerLinkLen]
  | cons y rest ih =>
    unfold bannerLinkLen
    cases k with
    | zero =>
      split <;> simp
    | succ k =>
      by_cases hc : (strip y).contains d = true
      · simp only [hc, if_true]
        constructor
        · intro h; omega
        · rintro ⟨_, h⟩
          have := h 0 y (by omega) rfl
          rw [hc] at this; cases this
      · simp only [hc, Bool.false_eq_true, if_false]
        have : k + 1 + 1 ≤ 1 + bannerLinkLen d rest ↔ k + 1 ≤ bannerLinkLen d rest := by omega
        rw [this, ih]
        simp only [List.length_cons]
        constructor
        · rintro ⟨h1, h2⟩
          refine ⟨by omega, fun m z hm hz => ?_⟩
          cases m with
          | zero => simp at hz; subst hz; simpa using hc
          | succ m => exact h2 m z (by omega) (by simpa using hz)
        · rintro ⟨h1, h2⟩
          exact ⟨by omega, fun m z hm hz => h2 (m + 1) z (by omega) (by simpa using hz)⟩

/-- the `k`-th line after a macro start (`k ≥ 1`) is in its stretch iff it exists and none of
the `k - 1` lines before it is `@` -/
theorem macroBodyLen_spec (rest : List Str) (k : Nat) :
    k + 1 ≤ macroBodyLen rest ↔
      k < rest.length ∧ ∀ m y, m < k → rest[m]? = some y → (rstrip y == ['@']) = false := by
  induction rest generalizing k with
  | nil => simp [macroBodyLen]
  | cons y rest ih =>
    unfold macroBodyLen
    cases k with
    | zero =>
      split <;> simp
    | succ k =>
      by_cases hc : (rstrip y == ['@']) = true
      · simp only [hc, if_true]
        constructor
        · intro h; omega
        · rintro ⟨_, h⟩
          have := h 0 y (by omega) rfl
          rw [hc] at this; cases this
      · simp only [hc, Bool.false_eq_true, if_false]
        have : k + 1 + 1 ≤ 1 + macroBodyLen rest ↔ k + 1 ≤ macroBodyLen rest := by omega
        rw [this, ih]
        simp only [List.length_cons]
        constructor
        · rintro ⟨h1, h2⟩
          refine ⟨by omega, fun m z hm hz => ?_⟩
          cases m with
          | zero => simp at hz; subst hz; simpa using hc
          | succ m => exact h2 m z (by omega) (by simpa using hz)
        · rintro ⟨h1, h2⟩
          exact ⟨by omega, fun m z hm hz => h2 (m + 1) z (by omega) (by simpa using hz)⟩

/-- the parent of every line of the final tree -/
theorem parse_parentOf_full (cfg : Cfg) (ls : List Str) (j : Nat) (hj : j < (parse cfg ls).size) :
    parentOf (parse cfg ls) j = specParentFull cfg (parse cfg ls).texts j := by
  have h := parse_is_link cfg ls
  conv => lhs; rw [h]
  exact link_parentOf cfg _ j hj

theorem specParentFull_of_owner (cfg : Cfg) (ls : List Str) (i s : Nat)
    (hs : macroOwner cfg ls i = some s ∨ (macroOwner cfg ls i = none ∧ bannerOwner ls i = some s)) :
    specParentFull cfg ls i = s ∧ s < i := by
  unfold specParentFull
  rcases hs with hm | ⟨hm, hb⟩
  · rw [hm]
    refine ⟨rfl, ?_⟩
    unfold macroOwner at hm
    split at hm
    · exact lastCover_lt _ _ _ _ _ hm
    · cases hm
  · rw [hm, hb]
    exact ⟨rfl, lastCover_lt _ _ _ _ _ hb⟩

end Ccp.Tree
