import Ccp.Model.AsaX
import Ccp.Proofs.Asa
/-! Helpers for the further entry points behind C20 (`Ccp.Model.AsaX`). -/
namespace Ccp.AsaX
open Ccp.Py Ccp.Asa

/-- two strictly ascending lists with the same members are the same list -/
theorem asc_ext : ∀ (l1 l2 : List Nat), l1.Pairwise (· < ·) → l2.Pairwise (· < ·) →
    (∀ k, k ∈ l1 ↔ k ∈ l2) → l1 = l2
  | [], [], _, _, _ => rfl
  | [], b :: l2, _, _, h => by have := (h b).mpr (by simp); simp at this
  | a :: l1, [], _, _, h => by have := (h a).mp (by simp); simp at this
  | a :: l1, b :: l2, h1, h2, h => by
    rw [List.pairwise_cons] at h1 h2
    have hab : a = b := by
      have ha := (h a).mp (by simp)
      have hb := (h b).mpr (by simp)
      rcases List.mem_cons.mp ha with e | ha
      · exact e
      · rcases List.mem_cons.mp hb with e | hb
        · exact e.symm
        · have := h1.1 b hb; have := h2.1 a ha; omega
    subst hab
    have : l1 = l2 := by
      apply asc_ext l1 l2 h1.2 h2.2
      intro k
      constructor
      · intro hk
        have hk2 := (h k).mp (List.mem_cons_of_mem _ hk)
        rcases List.mem_cons.mp hk2 with e | hk2
        · have := h1.1 k hk; omega
        · exact hk2
      · intro hk
        have hk2 := (h k).mpr (List.mem_cons_of_mem _ hk)
        rcases List.mem_cons.mp hk2 with e | hk2
        · have := h2.1 k hk; omega
        · exact hk2
    rw [this]

/-- line numbers reported by `groupObjs i` start at `i` -/
theorem groupObjs_ge (i : Nat) (ls : List Str) : ∀ t ∈ groupObjs i ls, i ≤ t.1 := by
  induction ls generalizing i with
  | nil => simp [groupObjs]
  | cons l ls ih =>
    intro t ht
    unfold groupObjs at ht
    split at ht
    · rcases List.mem_cons.mp ht with rfl | ht
      · exact Nat.le_refl _
      · have := ih (i + 1) t ht; omega
    · have := ih (i + 1) t ht; omega

/-- … and are strictly increasing -/
theorem groupObjs_increasing (i : Nat) (ls : List Str) :
    (groupObjs i ls).Pairwise (fun s t => s.1 < t.1) := by
  induction ls generalizing i with
  | nil => simp [groupObjs]
  | cons l ls ih =>
    unfold groupObjs
    split
    · refine List.pairwise_cons.mpr ⟨?_, ih (i + 1)⟩
      intro t ht
      have := groupObjs_ge (i + 1) ls t ht
      simp only; omega
    · exact ih (i + 1)

-- so that closed examples about `Except` values are decided by evaluation
deriving instance DecidableEq for Except

end Ccp.AsaX
