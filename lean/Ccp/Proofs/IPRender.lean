import Ccp.Proofs.IPSpell
import Ccp.Spec.IP
/-!
C11: the renderings.  (1) the bridges from the zero-pattern statement `strV6_choice` to RFC 5952 as written
in `Ccp.Spec.IP` (`IsShortened`, `hexShort`, `IsRfc5952`) and uniqueness of the canonical text;
(2) the zero-padded / hex / binary renderings against the positional-numeral reading of the Spec
(`IsFixed`, `IsShortest`).
-/
namespace Ccp.IPText
open Ccp.Py Ccp.Spec

/-! ## 1. RFC 5952 -/

theorem hextets_eq_groups (n : Nat) : hextets n = IP.groups n := by
  simp [hextets, IP.groups, IP.group, List.range, List.range.loop]

theorem groups_length (n : Nat) : (IP.groups n).length = 8 := by simp [IP.groups]

theorem groups_lt (n : Nat) : ∀ g ∈ IP.groups n, g < 65536 := by
  rw [← hextets_eq_groups]; exact hextets_lt n

theorem digitChar_hexDigit : ∀ d : Fin 16, Nat.digitChar d.val = IP.hexDigit d.val := by decide

theorem hex4_eq_spec (g : Nat) : IPText.hex4 g = IP.hex4 g := by
  have hd : ∀ d, d < 16 → Nat.digitChar d = IP.hexDigit d := fun d h => digitChar_hexDigit ⟨d, h⟩
  simp only [IPText.hex4, IP.hex4]
  rw [hd _ (Nat.mod_lt _ (by omega)), hd _ (Nat.mod_lt _ (by omega)), hd _ (Nat.mod_lt _ (by omega)),
    hd _ (Nat.mod_lt _ (by omega))]

theorem digitChar_zero_iff : ∀ d : Fin 16, (Nat.digitChar d.val == '0') = decide (d.val = 0) := by decide

theorem digitChar_eq_zero' (d : Nat) (h : d < 16) : (Nat.digitChar d == '0') = decide (d = 0) :=
  digitChar_zero_iff ⟨d, h⟩

/-- bridge A: `'%x' % g` is the group text of RFC 5952 §4.1/§4.3 -/
theorem toHex_eq_hexShort (g : Nat) (h : g < 65536) : toHex g = IP.hexShort g := by
  unfold IP.hexShort
  rw [← hex4_eq_spec]
  unfold IPText.hex4
  have z := fun d (hd : d < 16) => digitChar_eq_zero' d hd
  have z0 : (Nat.digitChar 0 == '0') = true := by decide
  rcases toHex_cases g h with ⟨h1, e⟩ | ⟨h1, h2, e⟩ | ⟨h1, h2, e⟩ | ⟨h1, e⟩ <;> rw [e]
  · have e3 : g / 4096 % 16 = 0 := by omega
    have e2 : g / 256 % 16 = 0 := by omega
    have e1 : g / 16 % 16 = 0 := by omega
    have e0 : g % 16 = g := by omega
    rw [e3, e2, e1, e0]
    by_cases hg : g = 0
    · subst hg; rfl
    · have : (Nat.digitChar g == '0') = false := by rw [z g h1]; simp [hg]
      simp [List.dropWhile, this, z0]
  · have e3 : g / 4096 % 16 = 0 := by omega
    have e2 : g / 256 % 16 = 0 := by omega
    have e1 : g / 16 % 16 = g / 16 := by omega
    rw [e3, e2, e1]
    have : (Nat.digitChar (g / 16) == '0') = false := by rw [z _ (by omega)]; simp; omega
    simp [List.dropWhile, this, z0]
  · have e3 : g / 4096 % 16 = 0 := by omega
    have e2 : g / 256 % 16 = g / 256 := by omega
    rw [e3, e2]
    have : (Nat.digitChar (g / 256) == '0') = false := by rw [z _ (by omega)]; simp; omega
    simp [List.dropWhile, this, z0]
  · have e3 : g / 4096 % 16 = g / 4096 := by omega
    rw [e3]
    have : (Nat.digitChar (g / 4096) == '0') = false := by rw [z _ (by omega)]; simp; omega
    simp [List.dropWhile, this]

theorem toHex_zero_iff (g : Nat) (h : g < 65536) : (toHex g == ['0']) = true ↔ g = 0 := by
  constructor
  · exact toHex_eq_zero g h
  · intro e; subst e; unfold toHex; rw [toHexRev_lt 0 (by omega)]; decide

/-- the zero pattern the loop of `_compress_hextets` sees is the zero pattern of the group values -/
theorem zs_getD (gs : List Nat) (hlt : ∀ g ∈ gs, g < 65536) (i : Nat) :
    (((gs.map toHex).map (· == ['0'])).getD i false = true) ↔ gs.getD i 1 = 0 := by
  induction gs generalizing i with
  | nil => simp
  | cons g gs ih =>
    cases i with
    | zero => simpa using toHex_zero_iff g (hlt g (by simp))
    | succ i => simpa using ih (fun g hg => hlt g (by simp [hg])) i

theorem zeroRun_iff (gs : List Nat) (hlt : ∀ g ∈ gs, g < 65536) (s k : Nat) :
    zeroRun ((gs.map toHex).map (· == ['0'])) s k = true ↔
      2 ≤ k ∧ s + k ≤ 8 ∧ ∀ i, s ≤ i → i < s + k → gs.getD i 1 = 0 := by
  unfold zeroRun
  simp only [Bool.and_eq_true, decide_eq_true_eq, List.all_eq_true, List.mem_range, Bool.or_eq_true,
    Bool.not_eq_true', Bool.and_eq_false_iff, decide_eq_false_iff_not]
  constructor
  · rintro ⟨⟨h1, h2⟩, h3⟩
    refine ⟨h1, h2, fun i hi1 hi2 => ?_⟩
    rcases h3 i (by omega) with h | h
    · omega
    · exact (zs_getD gs hlt i).mp h
  · rintro ⟨h1, h2, h3⟩
    refine ⟨⟨h1, h2⟩, fun i _ => ?_⟩
    by_cases hi : s ≤ i ∧ i < s + k
    · exact Or.inr ((zs_getD gs hlt i).mpr (h3 i hi.1 hi.2))
    · left; omega

/-- bridge B: the bounded Boolean statement on the zero pattern is RFC 5952 §4.2 on the group values -/
theorem shortenedB_iff (gs : List Nat) (hlen : gs.length = 8) (hlt : ∀ g ∈ gs, g < 65536) (s l : Nat) :
    shortenedB ((gs.map toHex).map (· == ['0'])) s l = true ↔ IP.IsShortened gs s l := by
  unfold shortenedB IP.IsShortened
  simp only [Bool.and_eq_true, zeroRun_iff gs hlt, List.all_eq_true, List.mem_range, Bool.or_eq_true,
    Bool.not_eq_true', decide_eq_true_eq, hlen]
  constructor
  · rintro ⟨⟨h1, h2, h3⟩, h4⟩
    refine ⟨h1, h2, h3, fun s' k hk hs' hz => ?_⟩
    rcases h4 s' (by omega) k (by omega) with (h | h) | h
    · exfalso
      have := (zeroRun_iff gs hlt s' k).mpr ⟨hk, hs', hz⟩
      rw [this] at h; cases h
    · exact Or.inl h
    · exact Or.inr h
  · rintro ⟨h1, h2, h3, h4⟩
    refine ⟨⟨h1, h2, h3⟩, fun s' _ k _ => ?_⟩
    cases hz : zeroRun ((gs.map toHex).map (· == ['0'])) s' k with
    | false => exact Or.inl (Or.inl rfl)
    | true =>
      obtain ⟨a, b, c⟩ := (zeroRun_iff gs hlt s' k).mp hz
      rcases h4 s' k a b c with h | h
      · exact Or.inl (Or.inr h)
      · exact Or.inr h

/-- the run that `::` replaces is determined by the groups -/
theorem isShortened_unique (gs : List Nat) (s l s' l' : Nat) (h : IP.IsShortened gs s l) (h' : IP.IsShortened gs s' l') :
    s = s' ∧ l = l' := by
  obtain ⟨a1, a2, a3, a4⟩ := h
  obtain ⟨b1, b2, b3, b4⟩ := h'
  have x := a4 s' l' b1 b2 b3
  have y := b4 s l a1 a2 a3
  omega

theorem map_toHex_eq (gs : List Nat) (hlt : ∀ g ∈ gs, g < 65536) : gs.map toHex = gs.map IP.hexShort :=
  List.map_congr_left (fun g hg => toHex_eq_hexShort g (hlt g hg))

/-- **`str(IPv6Address(n))` is the RFC 5952 text of `n`** -/
theorem strV6_rfc5952 (n : Nat) : IP.IsRfc5952 (strV6 n) n := by
  obtain ⟨hA, hB⟩ := strV6_choice n
  rw [hextets_eq_groups] at hA hB
  have hlt := groups_lt n
  have hlen := groups_length n
  have hX := map_toHex_eq (IP.groups n) hlt
  by_cases hgt : (runLoop {} 0 (((IP.groups n).map toHex).map (· == ['0']))).bestLen > 1
  · obtain ⟨s, _, hsh, hstr⟩ := hA hgt
    refine Or.inl ⟨s, _, (shortenedB_iff (IP.groups n) hlen hlt s _).mp hsh, ?_⟩
    rw [hstr, hX]
    unfold IP.compressedAt
    rw [List.map_take, List.map_drop]
  · obtain ⟨hz, hstr⟩ := hB hgt
    refine Or.inr ⟨fun s l hsl => ?_, by rw [hstr, hX]⟩
    obtain ⟨h1, h2, h3, _⟩ := hsl
    rw [hlen] at h2
    have := (zeroRun_iff (IP.groups n) hlt s l).mpr ⟨h1, h2, h3⟩
    rw [hz s l (by omega) (by omega)] at this
    cases this

/-- RFC 5952 leaves no choice: the predicate determines the text -/
theorem rfc5952_unique' (s t : Str) (n : Nat) (hs : IP.IsRfc5952 s n) (ht : IP.IsRfc5952 t n) : s = t := by
  rcases hs with ⟨a, l, h1, e1⟩ | ⟨h1, e1⟩ <;> rcases ht with ⟨a', l', h2, e2⟩ | ⟨h2, e2⟩
  · obtain ⟨rfl, rfl⟩ := isShortened_unique _ _ _ _ _ h1 h2
    rw [e1, e2]
  · exact absurd h1 (h2 a l)
  · exact absurd h2 (h1 a' l')
  · rw [e1, e2]

/-- `::` is used exactly when two adjacent groups are zero -/
theorem shortened_iff_adjacent (n : Nat) :
    (∃ s l, IP.IsShortened (IP.groups n) s l) ↔
      ∃ i, i + 1 < 8 ∧ (IP.groups n).getD i 1 = 0 ∧ (IP.groups n).getD (i + 1) 1 = 0 := by
  have hlt := groups_lt n
  have hlen := groups_length n
  constructor
  · rintro ⟨s, l, h1, h2, h3, _⟩
    rw [hlen] at h2
    exact ⟨s, by omega, h3 s (by omega) (by omega), h3 (s + 1) (by omega) (by omega)⟩
  · rintro ⟨i, hi, z0, z1⟩
    obtain ⟨hA, hB⟩ := strV6_choice n
    rw [hextets_eq_groups] at hA hB
    by_cases hgt : (runLoop {} 0 (((IP.groups n).map toHex).map (· == ['0']))).bestLen > 1
    · obtain ⟨s, _, hsh, _⟩ := hA hgt
      exact ⟨s, _, (shortenedB_iff (IP.groups n) hlen hlt s _).mp hsh⟩
    · exfalso
      have hz := (hB hgt).1 i 2 (by omega) (by omega)
      have : zeroRun (((IP.groups n).map toHex).map (· == ['0'])) i 2 = true := by
        refine (zeroRun_iff (IP.groups n) hlt i 2).mpr ⟨by omega, by omega, fun j h1 h2 => ?_⟩
        rcases (show j = i ∨ j = i + 1 by omega) with rfl | rfl
        · exact z0
        · exact z1
      rw [hz] at this; cases this

/-! ## 2. positional numerals -/

theorem digitOf_digitChar_fin : ∀ b : Fin 17, ∀ d : Fin 16, d.val < b.val →
    IP.digitOf b.val (Nat.digitChar d.val) = some d.val := by decide

theorem digitOf_digitChar (b d : Nat) (hb : b ≤ 16) (hd : d < b) : IP.digitOf b (Nat.digitChar d) = some d :=
  digitOf_digitChar_fin ⟨b, by omega⟩ ⟨d, by omega⟩ hd

theorem digitOf_lt (b : Nat) (c : Char) (d : Nat) (h : IP.digitOf b c = some d) : d < b := by
  unfold IP.digitOf at h
  split at h
  · cases h; omega
  · split at h
    · cases h; omega
    · cases h

theorem digitOf_inj (b : Nat) (c c' : Char) (d : Nat) (h : IP.digitOf b c = some d) (h' : IP.digitOf b c' = some d) :
    c = c' := by
  unfold IP.digitOf at h h'
  apply Char.toNat_inj.mp
  split at h <;> split at h'
  · have := Option.some.inj h; have := Option.some.inj h'; omega
  · split at h'
    · have := Option.some.inj h; have := Option.some.inj h'; omega
    · cases h'
  · split at h
    · have := Option.some.inj h; have := Option.some.inj h'; omega
    · cases h
  · split at h
    · split at h'
      · have := Option.some.inj h; have := Option.some.inj h'; omega
      · cases h'
    · cases h

theorem digitOf_zero (b : Nat) (hb : 1 ≤ b) : IP.digitOf b '0' = some 0 := by
  unfold IP.digitOf
  have : ('0' : Char).toNat = 48 := by decide
  simp [this]; omega

theorem digitOf_eq_zero (b : Nat) (c : Char) (h : IP.digitOf b c = some 0) : c = '0' := by
  unfold IP.digitOf at h
  apply Char.toNat_inj.mp
  have : ('0' : Char).toNat = 48 := by decide
  rw [this]
  split at h
  · have := Option.some.inj h; omega
  · split at h
    · have := Option.some.inj h; omega
    · cases h

theorem numFrom_acc (b : Nat) (s : Str) (acc : Nat) :
    IP.numFrom b acc s = (IP.numFrom b 0 s).map (fun r => acc * b ^ s.length + r) := by
  induction s generalizing acc with
  | nil => simp [IP.numFrom]
  | cons c cs ih =>
    unfold IP.numFrom
    cases hd : IP.digitOf b c with
    | none => simp
    | some d =>
      simp only
      rw [ih (acc * b + d), ih (0 * b + d)]
      cases IP.numFrom b 0 cs with
      | none => simp
      | some r => simp only [Option.map_some, List.length_cons]; congr 1; grind

theorem numFrom_cons (b : Nat) (c : Char) (cs : Str) (v : Nat) (h : IP.numFrom b 0 (c :: cs) = some v) :
    ∃ d r, IP.digitOf b c = some d ∧ IP.numFrom b 0 cs = some r ∧ v = d * b ^ cs.length + r := by
  unfold IP.numFrom at h
  cases hd : IP.digitOf b c with
  | none => rw [hd] at h; cases h
  | some d =>
    rw [hd] at h
    simp only at h
    rw [numFrom_acc] at h
    cases hr : IP.numFrom b 0 cs with
    | none => rw [hr] at h; cases h
    | some r =>
      rw [hr] at h
      simp only [Option.map_some, Option.some.injEq, Nat.zero_mul, Nat.zero_add] at h
      exact ⟨d, r, rfl, rfl, h.symm⟩

theorem numFrom_lt (b : Nat) (s : Str) (v : Nat) (h : IP.numFrom b 0 s = some v) : v < b ^ s.length := by
  induction s generalizing v with
  | nil => simp [IP.numFrom] at h; subst h; simp
  | cons c cs ih =>
    obtain ⟨d, r, h1, h2, rfl⟩ := numFrom_cons b c cs v h
    have hr := ih r h2
    have hd := digitOf_lt b c d h1
    have : (d + 1) * b ^ cs.length ≤ b * b ^ cs.length := Nat.mul_le_mul_right _ (by omega)
    rw [List.length_cons, Nat.pow_succ, Nat.mul_comm (b ^ cs.length) b]
    rw [Nat.add_mul] at this
    omega

theorem mul_add_cancel (B d d' r r' : Nat) (hr : r < B) (hr' : r' < B) (h : d * B + r = d' * B + r') :
    d = d' ∧ r = r' := by
  have hB : 0 < B := by omega
  have e1 : (d * B + r) / B = d := by
    rw [Nat.add_comm, Nat.add_mul_div_right _ _ hB, Nat.div_eq_of_lt hr]; omega
  have e2 : (d' * B + r') / B = d' := by
    rw [Nat.add_comm, Nat.add_mul_div_right _ _ hB, Nat.div_eq_of_lt hr']; omega
  have : d = d' := by rw [← e1, ← e2, h]
  subst this
  exact ⟨rfl, by omega⟩

/-- width, digits and value determine the text -/
theorem numFrom_inj (b : Nat) (s t : Str) (v : Nat) (hl : s.length = t.length)
    (hs : IP.numFrom b 0 s = some v) (ht : IP.numFrom b 0 t = some v) : s = t := by
  induction s generalizing t v with
  | nil =>
    cases t with
    | nil => rfl
    | cons _ _ => simp at hl
  | cons c cs ih =>
    cases t with
    | nil => simp at hl
    | cons c' cs' =>
      have hl' : cs.length = cs'.length := by simpa using hl
      obtain ⟨d, r, h1, h2, e⟩ := numFrom_cons b c cs v hs
      obtain ⟨d', r', h1', h2', e'⟩ := numFrom_cons b c' cs' v ht
      have hr := numFrom_lt b cs r h2
      have hr' := numFrom_lt b cs' r' h2'
      rw [← hl'] at hr' e'
      obtain ⟨rfl, rfl⟩ := mul_add_cancel _ d d' r r' hr hr' (by omega)
      rw [digitOf_inj b c c' d h1 h1', ih cs' r hl' h2 h2']

theorem isFixed_unique (b w : Nat) (s t : Str) (v : Nat) (hs : IP.IsFixed b w s v) (ht : IP.IsFixed b w t v) :
    s = t :=
  numFrom_inj b s t v (by rw [hs.1, ht.1]) hs.2 ht.2

/-- a numeral without leading zero of length `L+1` lies in `[b^L, b^(L+1))` -/
theorem shortest_bounds (b : Nat) (c : Char) (cs : Str) (v : Nat) (hc : c ≠ '0')
    (h : IP.numFrom b 0 (c :: cs) = some v) : b ^ cs.length ≤ v ∧ v < b ^ (cs.length + 1) := by
  refine ⟨?_, numFrom_lt b (c :: cs) v h⟩
  obtain ⟨d, r, h1, _, rfl⟩ := numFrom_cons b c cs v h
  have : d ≠ 0 := fun e => hc (digitOf_eq_zero b c (e ▸ h1))
  have : 1 * b ^ cs.length ≤ d * b ^ cs.length := Nat.mul_le_mul_right _ (by omega)
  omega

theorem isShortest_unique (b : Nat) (s t : Str) (v : Nat) (hs : IP.IsShortest b s v) (ht : IP.IsShortest b t v) :
    s = t := by
  obtain ⟨s1, s2, s3⟩ := hs
  obtain ⟨t1, t2, t3⟩ := ht
  cases s with
  | nil => exact absurd rfl s1
  | cons c cs =>
  cases t with
  | nil => exact absurd rfl t1
  | cons c' cs' =>
  have hb : 1 ≤ b := by
    obtain ⟨d, _, h1, _⟩ := numFrom_cons b c cs v s3
    have := digitOf_lt b c d h1
    omega
  have zero_case : ∀ (x : Char) (xs : Str) (y : Char) (ys : Str), IP.numFrom b 0 (x :: xs) = some v →
      IP.numFrom b 0 (y :: ys) = some v → ((x :: xs).head? = some '0' → x :: xs = ['0']) → x = '0' → y ≠ '0' → False := by
    intro x xs y ys hx hy hx0 ex ey
    have := hx0 (by simp [ex])
    rw [this] at hx
    have hv : v = 0 := by
      have : IP.numFrom b 0 ['0'] = some 0 := by simp [IP.numFrom, digitOf_zero b hb]
      rw [this] at hx; cases hx; rfl
    have := (shortest_bounds b y ys v ey hy).1
    have := Nat.pow_pos (n := ys.length) (show 0 < b by omega)
    omega
  by_cases hc : c = '0' <;> by_cases hc' : c' = '0'
  · rw [s2 (by simp [hc]), t2 (by simp [hc'])]
  · exact (zero_case c cs c' cs' s3 t3 s2 hc hc').elim
  · exact (zero_case c' cs' c cs t3 s3 t2 hc' hc).elim
  · have bs := shortest_bounds b c cs v hc s3
    have bt := shortest_bounds b c' cs' v hc' t3
    have hl : cs.length = cs'.length := by
      rcases Nat.lt_trichotomy cs.length cs'.length with h | h | h
      · have : b ^ (cs.length + 1) ≤ b ^ cs'.length := Nat.pow_le_pow_right (by omega) (by omega)
        omega
      · exact h
      · have : b ^ (cs'.length + 1) ≤ b ^ cs.length := Nat.pow_le_pow_right (by omega) (by omega)
        omega
    exact numFrom_inj b _ _ v (by simp [hl]) s3 t3

theorem numFrom_append (b : Nat) (xs ys : Str) (acc : Nat) :
    IP.numFrom b acc (xs ++ ys) = (IP.numFrom b acc xs).bind (fun a => IP.numFrom b a ys) := by
  induction xs generalizing acc with
  | nil => simp [IP.numFrom]
  | cons c cs ih =>
    simp only [List.cons_append, IP.numFrom]
    cases IP.digitOf b c with
    | none => simp
    | some d => simp only; exact ih _

/-- the shape shared by `toDecRev`, `toHexRev`, `toBinRev`: least significant digit first -/
structure RevNumeral (b : Nat) (f : Nat → List Char) : Prop where
  lt : ∀ n, n < b → f n = [Nat.digitChar n]
  ge : ∀ n, ¬ n < b → f n = Nat.digitChar (n % b) :: f (n / b)

theorem RevNumeral.num {b : Nat} {f : Nat → List Char} (hf : RevNumeral b f) (h2 : 2 ≤ b) (h16 : b ≤ 16) (n : Nat) :
    IP.numFrom b 0 (f n).reverse = some n := by
  induction n using Nat.strongRecOn with
  | _ n ih =>
    by_cases hn : n < b
    · rw [hf.lt n hn]
      simp [IP.numFrom, digitOf_digitChar b n h16 hn]
    · rw [hf.ge n hn, List.reverse_cons, numFrom_append, ih (n / b) (Nat.div_lt_self (by omega) (by omega))]
      simp only [Option.bind_some, IP.numFrom, digitOf_digitChar b (n % b) h16 (Nat.mod_lt _ (by omega))]
      congr 1
      have := Nat.div_add_mod n b
      rw [Nat.mul_comm] at this
      exact this

theorem RevNumeral.ne_nil {b : Nat} {f : Nat → List Char} (hf : RevNumeral b f) (n : Nat) : (f n).reverse ≠ [] := by
  by_cases hn : n < b
  · rw [hf.lt n hn]; simp
  · rw [hf.ge n hn]; simp

theorem RevNumeral.head {b : Nat} {f : Nat → List Char} (hf : RevNumeral b f) (h2 : 2 ≤ b) (h16 : b ≤ 16) (n : Nat) :
    (f n).reverse.head? = some '0' → n = 0 := by
  induction n using Nat.strongRecOn with
  | _ n ih =>
    by_cases hn : n < b
    · rw [hf.lt n hn]
      intro h
      have h : Nat.digitChar n = '0' := by simpa using h
      have := digitChar_eq_zero' n (by omega)
      rw [h] at this
      simpa using this
    · rw [hf.ge n hn, List.reverse_cons]
      intro h
      have hne := hf.ne_nil (n / b)
      have hh : ((f (n / b)).reverse ++ [Nat.digitChar (n % b)]).head? = (f (n / b)).reverse.head? := by
        cases hx : (f (n / b)).reverse with
        | nil => exact absurd hx hne
        | cons x xs => rfl
      rw [hh] at h
      have e0 := ih (n / b) (Nat.div_lt_self (by omega) (by omega)) h
      have e1 := Nat.div_add_mod n b
      have e2 := Nat.mod_lt n (show 0 < b by omega)
      rw [e0, Nat.mul_zero] at e1
      omega

theorem RevNumeral.length {b : Nat} {f : Nat → List Char} (hf : RevNumeral b f) (k n : Nat) (hk : 1 ≤ k)
    (h : n < b ^ k) : (f n).length ≤ k := by
  induction k generalizing n with
  | zero => omega
  | succ k ih =>
    by_cases hn : n < b
    · rw [hf.lt n hn]; simp
    · rw [hf.ge n hn, List.length_cons]
      have hk0 : 1 ≤ k := by
        rcases Nat.eq_zero_or_pos k with e | e
        · subst e; simp at h; omega
        · exact e
      have : n / b < b ^ k := by
        apply Nat.div_lt_of_lt_mul
        rw [Nat.pow_succ, Nat.mul_comm] at h
        exact h
      have := ih (n / b) hk0 this
      omega

/-- `(f n).reverse` is `n` written in base `b` without leading zeros -/
theorem RevNumeral.shortest {b : Nat} {f : Nat → List Char} (hf : RevNumeral b f) (h2 : 2 ≤ b) (h16 : b ≤ 16) (n : Nat) :
    IP.IsShortest b (f n).reverse n := by
  refine ⟨hf.ne_nil n, fun h => ?_, hf.num h2 h16 n⟩
  have := hf.head h2 h16 n h
  subst this
  rw [hf.lt 0 (by omega)]; rfl

theorem toBinRev_lt (n : Nat) (h : n < 2) : toBinRev n = [Nat.digitChar n] := by
  rw [toBinRev]; simp [h]
theorem toBinRev_ge (n : Nat) (h : ¬ n < 2) : toBinRev n = Nat.digitChar (n % 2) :: toBinRev (n / 2) := by
  rw [toBinRev]; simp [h]

theorem revNumeral_dec : RevNumeral 10 toDecRev := ⟨toDecRev_lt, toDecRev_ge⟩
theorem revNumeral_hex : RevNumeral 16 toHexRev := ⟨toHexRev_lt, toHexRev_ge⟩
theorem revNumeral_bin : RevNumeral 2 toBinRev := ⟨toBinRev_lt, toBinRev_ge⟩

/-- `str(n)`, `'%x' % n`, `'%b' % n` are the shortest decimal / lower-case hex / binary writings of `n` -/
theorem toDec_shortest (n : Nat) : IP.IsShortest 10 (toDec n) n := revNumeral_dec.shortest (by omega) (by omega) n
theorem toHex_shortest (n : Nat) : IP.IsShortest 16 (toHex n) n := revNumeral_hex.shortest (by omega) (by omega) n
theorem toBin_shortest (n : Nat) : IP.IsShortest 2 (toBin n) n := revNumeral_bin.shortest (by omega) (by omega) n

theorem numFrom_replicate_zero (b : Nat) (hb : 1 ≤ b) (m : Nat) (s : Str) :
    IP.numFrom b 0 (List.replicate m '0' ++ s) = IP.numFrom b 0 s := by
  induction m with
  | zero => rfl
  | succ m ih => simp only [List.replicate_succ, List.cons_append, IP.numFrom, digitOf_zero b hb, Nat.zero_mul, Nat.add_zero]; exact ih

/-- `'%0kd'`-style padding: the shortest writing of `v`, padded with zeros to width `k`, is the `k`-digit writing -/
theorem padLeft_fixed (b k : Nat) (hb : 1 ≤ b) (s : Str) (v : Nat) (h : IP.IsShortest b s v) (hl : s.length ≤ k) :
    IP.IsFixed b k (padLeft k '0' s) v := by
  unfold padLeft
  refine ⟨by simp; omega, ?_⟩
  rw [numFrom_replicate_zero b hb]; exact h.2.2

theorem pad_dec3 (v : Nat) (h : v < 1000) : IP.IsFixed 10 3 (padLeft 3 '0' (toDec v)) v :=
  padLeft_fixed 10 3 (by omega) _ v (toDec_shortest v)
    (by unfold toDec; rw [List.length_reverse]; exact revNumeral_dec.length 3 v (by omega) (by omega))
theorem pad_hex2 (v : Nat) (h : v < 256) : IP.IsFixed 16 2 (padLeft 2 '0' (toHex v)) v :=
  padLeft_fixed 16 2 (by omega) _ v (toHex_shortest v)
    (by unfold toHex; rw [List.length_reverse]; exact revNumeral_hex.length 2 v (by omega) (by omega))
theorem pad_bin8 (v : Nat) (h : v < 256) : IP.IsFixed 2 8 (padLeft 8 '0' (toBin v)) v :=
  padLeft_fixed 2 8 (by omega) _ v (toBin_shortest v)
    (by unfold toBin; rw [List.length_reverse]; exact revNumeral_bin.length 8 v (by omega) (by omega))
theorem pad_bin16 (v : Nat) (h : v < 65536) : IP.IsFixed 2 16 (padLeft 16 '0' (toBin v)) v :=
  padLeft_fixed 2 16 (by omega) _ v (toBin_shortest v)
    (by unfold toBin; rw [List.length_reverse]; exact revNumeral_bin.length 16 v (by omega) (by omega))

theorem hex4_fixed (g : Nat) (h : g < 65536) : IP.IsFixed 16 4 (IP.hex4 g) g := by
  rw [← hex4_eq_spec]
  refine ⟨rfl, ?_⟩
  have hd : ∀ d, d < 16 → IP.digitOf 16 (Nat.digitChar d) = some d := fun d h => digitOf_digitChar 16 d (by omega) h
  simp only [IPText.hex4, IP.numFrom, hd _ (Nat.mod_lt _ (show 0 < 16 by omega))]
  congr 1; omega

/-- the group text of RFC 5952 is the shortest lower-case hex writing of the group -/
theorem hexShort_shortest (g : Nat) (h : g < 65536) : IP.IsShortest 16 (IP.hexShort g) g := by
  rw [← toHex_eq_hexShort g h]; exact toHex_shortest g

/-! ## 3. the renderings of the classes -/

theorem areFixed_map (b w : Nat) (f : Nat → Str) (vs : List Nat) (h : ∀ v ∈ vs, IP.IsFixed b w (f v) v) :
    IP.AreFixed b w (vs.map f) vs := by
  induction vs with
  | nil => trivial
  | cons v vs ih =>
    exact ⟨h v (by simp), ih (fun x hx => h x (by simp [hx]))⟩

theorem areFixed_unique (b w : Nat) (ts ts' : List Str) (vs : List Nat)
    (h : IP.AreFixed b w ts vs) (h' : IP.AreFixed b w ts' vs) : ts = ts' := by
  induction ts generalizing ts' vs with
  | nil =>
    cases vs with
    | nil =>
      cases ts' with
      | nil => rfl
      | cons _ _ => exact h'.elim
    | cons _ _ => exact h.elim
  | cons t ts ih =>
    cases vs with
    | nil => exact h.elim
    | cons v vs =>
      cases ts' with
      | nil => exact h'.elim
      | cons t' ts' =>
        rw [isFixed_unique b w t t' v h.1 h'.1, ih ts' vs h.2 h'.2]

theorem areFixed_length (b w : Nat) (ts : List Str) (vs : List Nat) (h : IP.AreFixed b w ts vs) :
    ts.length = vs.length ∧ ∀ t ∈ ts, t.length = w := by
  induction ts generalizing vs with
  | nil =>
    cases vs with
    | nil => simp
    | cons _ _ => exact h.elim
  | cons t ts ih =>
    cases vs with
    | nil => exact h.elim
    | cons v vs =>
      have := ih vs h.2
      refine ⟨by simp [this.1], ?_⟩
      intro x hx
      rcases List.mem_cons.mp hx with rfl | hx
      · exact h.1.1
      · exact this.2 x hx

theorem toBytes4_eq_octets (n : Nat) : toBytes4 n = IP.octets n := by
  simp [toBytes4, IP.octets, IP.octet, List.range, List.range.loop]

theorem octets_lt (n : Nat) : ∀ v ∈ IP.octets n, v < 256 := by
  rw [← toBytes4_eq_octets]; intro v hv; have := toBytes4_lt n v hv; omega

theorem mapM_pyNat_strV4 (n : Nat) : (splitOn '.' (strV4 n)).mapM pyNat = some (IP.octets n) := by
  rw [splitOn_strV4, ← toBytes4_eq_octets]
  simp [toBytes4, pyNat_toDec]

theorem V4.asZeropadded_mk4 (ip len : Nat) :
    V4.asZeropadded (mk4 ip len) = .ok (join ['.'] ((IP.octets ip).map (fun v => padLeft 3 '0' (toDec v)))) := by
  unfold V4.asZeropadded V4.ipStr
  rw [show (mk4 ip len).ip = ip from rfl, mapM_pyNat_strV4]; rfl

theorem V4.asZeropaddedNetwork_mk4 (ip len : Nat) (hip : ip < 4294967296) (hlen : len ≤ 32) :
    V4.asZeropaddedNetwork (mk4 ip len) =
      .ok (join ['.'] ((IP.octets (mk4 ip len).net).map (fun v => padLeft 3 '0' (toDec v))) ++ '/' :: toDec len) := by
  unfold V4.asZeropaddedNetwork
  rw [V4.asCidrNet_mk4 ip len hip hlen]
  simp only [bind, Except.bind]
  rw [splitOn_slash _ _ (strV4_ne _ '/' (by decide) (by decide)) (toDec_ne len '/' (by decide))]
  simp only [List.headD]
  rw [mapM_pyNat_strV4]; rfl

theorem V4.asHex_mk4 (ip len : Nat) (hip : ip < 4294967296) :
    V4.asHex (mk4 ip len) = .ok ('0' :: 'x' :: toHex ip) := by
  unfold V4.asHex
  rw [V4.asDecimal_mk4 ip len hip]; rfl

theorem V4.asHexTuple_mk4 (ip len : Nat) :
    V4.asHexTuple (mk4 ip len) = .ok ((IP.octets ip).map (fun v => padLeft 2 '0' (toHex v))) := by
  unfold V4.asHexTuple V4.ipStr
  rw [show (mk4 ip len).ip = ip from rfl, mapM_pyNat_strV4]; rfl

theorem V4.asBinaryTuple_mk4 (ip len : Nat) :
    V4.asBinaryTuple (mk4 ip len) = .ok ((IP.octets ip).map (fun v => padLeft 8 '0' (toBin v))) := by
  unfold V4.asBinaryTuple V4.ipStr
  rw [show (mk4 ip len).ip = ip from rfl, mapM_pyNat_strV4]; rfl

theorem V6.asHex_mk6 (ip len : Nat) (hip : ip < 2 ^ 128) :
    V6.asHex (mk6 ip len) = .ok ('0' :: 'x' :: toHex ip) := by
  unfold V6.asHex
  rw [V6.asDecimal_mk6 ip len hip]; rfl

theorem V6.asHexTuple_mk6 (ip len : Nat) : V6.asHexTuple (mk6 ip len) = (IP.groups ip).map IP.hex4 := by
  show splitOn ':' (explodedV6 ip) = _
  rw [splitOn_exploded, hextets_eq_groups]
  exact List.map_congr_left (fun g _ => hex4_eq_spec g)

theorem mapM_ofHex_groups (gs : List Nat) (h : ∀ g ∈ gs, g < 65536) : (gs.map IP.hex4).mapM ofHex = some gs := by
  induction gs with
  | nil => rfl
  | cons g gs ih =>
    have hg := h g (by simp)
    have := ih (fun x hx => h x (by simp [hx]))
    have e : ofHex (IP.hex4 g) = some g := by rw [← hex4_eq_spec]; exact ofHex_hex4 g hg
    simp [e, this]

theorem V6.asBinaryTuple_mk6 (ip len : Nat) :
    V6.asBinaryTuple (mk6 ip len) = .ok ((IP.groups ip).map (fun v => padLeft 16 '0' (toBin v))) := by
  unfold V6.asBinaryTuple
  rw [V6.asHexTuple_mk6, mapM_ofHex_groups _ (groups_lt ip)]; rfl

end Ccp.IPText
