import Ccp.Spec.Brace
/-!
Helper lemmas for C08 (`Ccp.Props.C08`): the tokenizer on rendered statements, the
recursive descent with enough fuel, `cleanTok` on a statement token, the round trip by
mutual induction over the statement tree (stated for the tab-free renderings `RendStmt`),
tab expansion of a rendering (`expand_stmt`: it is such a tab-free rendering), the
indentation parents of a flattening, and the balance / no-quoted-token argument for a
missing closing brace.
-/
namespace Ccp.Brace
open Ccp.Py

/-! ### characters -/

/-- blank, LF, CR: the white space left after tab expansion -/
def AllWs0 (w : Str) : Prop := ∀ c ∈ w, c = ' ' ∨ c = '\n' ∨ c = '\r'

theorem ws_isSkip {c : Char} (h : c = ' ' ∨ c = '\n' ∨ c = '\r') : isSkip c = true := by
  rcases h with h | h | h <;> subst h <;> decide

theorem ws_not_run {c : Char} (h : c = '\n' ∨ c = '\r') : isRunChar c = false := by
  rcases h with h | h <;> subst h <;> decide

theorem printable_not_space_tbl : ∀ n : Fin 127, 33 ≤ n.val → Gen.whitespace.contains n.val = false := by
  decide

theorem printable_not_isSpace {c : Char} (h : isPrintable c = true) : isSpace c = false := by
  simp only [isPrintable, Bool.and_eq_true, decide_eq_true_eq] at h
  have := printable_not_space_tbl ⟨c.toNat, by omega⟩ h.1
  simpa [isSpace] using this

theorem printable_not_skip {c : Char} (h : isPrintable c = true) : isSkip c = false := by
  simp only [isPrintable, Bool.and_eq_true, decide_eq_true_eq] at h
  have h1 : c ≠ ' ' := by rintro rfl; revert h; decide
  have h2 : c ≠ '\n' := by rintro rfl; revert h; decide
  have h3 : c ≠ '\r' := by rintro rfl; revert h; decide
  have h4 : c ≠ '\t' := by rintro rfl; revert h; decide
  simp [isSkip, h1, h2, h3, h4]

theorem dropWhile_skip_ws {w : Str} (hw : AllWs0 w) (s : Str) :
    (w ++ s).dropWhile isSkip = s.dropWhile isSkip := by
  induction w with
  | nil => rfl
  | cons c w ih =>
    have hc := ws_isSkip (hw c (by simp))
    simp only [List.cons_append, List.dropWhile_cons, hc, if_true]
    exact ih (fun x hx => hw x (by simp [hx]))

theorem nextTok_ws {w : Str} (hw : AllWs0 w) (s : Str) : nextTok (w ++ s) = nextTok s := by
  simp only [nextTok, dropWhile_skip_ws hw]

theorem nextTok_close (k : Str) : nextTok ('}' :: k) = .close k := by
  simp [nextTok, lexHead, isSkip]

theorem nextTok_open (k : Str) : nextTok ('{' :: k) = .opn k := by
  simp [nextTok, lexHead, isSkip]

/-- a visible first character that is neither a quote nor a brace, a run of content
characters, then something that is not a content character -/
theorem nextTok_text (c : Char) (t Z : Str) (hc : isPrintable c = true)
    (hq : c ≠ '"' ∧ c ≠ '\'') (hb : c ≠ '{' ∧ c ≠ '}')
    (ht : ∀ x ∈ t, isRunChar x = true) (hZ : ∀ x ∈ Z.head?, isRunChar x = false) :
    nextTok (c :: t ++ Z) = .text (c :: t) Z := by
  have hrun : isRunChar c = true := by simp [isRunChar, hc, hb.1, hb.2]
  have hall : ∀ x ∈ c :: t, isRunChar x = true := by
    intro x hx; rcases List.mem_cons.mp hx with rfl | hx
    · exact hrun
    · exact ht x hx
  have hZt : Z.takeWhile isRunChar = [] := by
    cases Z with
    | nil => rfl
    | cons z Z => simp [hZ z (by simp)]
  have hZd : Z.dropWhile isRunChar = Z := by
    cases Z with
    | nil => rfl
    | cons z Z => simp [hZ z (by simp)]
  have htk : ((c :: t) ++ Z).takeWhile isRunChar = c :: t := by
    rw [List.takeWhile_append_of_pos hall, hZt, List.append_nil]
  have hdr : ((c :: t) ++ Z).dropWhile isRunChar = Z := by
    rw [List.dropWhile_append_of_pos hall, hZd]
  have hsk : ((c :: t) ++ Z).dropWhile isSkip = (c :: t) ++ Z := by
    simp [printable_not_skip hc]
  show lexHead (((c :: t) ++ Z).dropWhile isSkip) = _
  rw [hsk]
  show lexHead (c :: (t ++ Z)) = _
  unfold lexHead
  simp only [hq.1, hq.2, or_self, if_false, hb.1, hb.2, hrun, if_true]
  rw [show c :: (t ++ Z) = (c :: t) ++ Z from rfl, htk, hdr]

/-! ### the recursive descent with enough fuel -/

/-- with any fuel above the input length the group items are `items` and `r` remains -/
def Parses (s : Str) (items : List Item) (r : Str) : Prop :=
  ∀ f, s.length < f → parseItems f s = .ok (items, r)

theorem parseItems_congr {s s' : Str} (h : nextTok s = nextTok s') (f : Nat) :
    parseItems f s = parseItems f s' := by
  cases f with
  | zero => rfl
  | succ f => simp only [parseItems, h]

theorem parses_ws {w s : Str} {items : List Item} {r : Str} (hw : AllWs0 w)
    (h : Parses s items r) : Parses (w ++ s) items r := by
  intro f hf
  rw [parseItems_congr (nextTok_ws hw s)]
  exact h f (by simp at hf; omega)

theorem parses_close (k : Str) : Parses ('}' :: k) [] k := by
  intro f hf
  cases f with
  | zero => omega
  | succ f => simp only [parseItems, nextTok_close]

theorem parses_text {s t r0 : Str} {items : List Item} {r : Str}
    (ht : nextTok s = .text t r0) (hl : r0.length < s.length)
    (h : Parses r0 items r) : Parses s (.tok t :: items) r := by
  intro f hf
  cases f with
  | zero => omega
  | succ f => simp only [parseItems, ht, h f (by omega)]

theorem parses_open {s r0 r1 : Str} {g items : List Item} {r : Str}
    (ho : nextTok s = .opn r0) (hl0 : r0.length < s.length) (hg : Parses r0 g r1)
    (hl1 : r1.length < s.length) (h : Parses r1 items r) : Parses s (.grp g :: items) r := by
  intro f hf
  cases f with
  | zero => omega
  | succ f => simp only [parseItems, ho, hg f (by omega), h f (by omega)]

/-! ### statement texts -/

/-- what the tokenizer and `cleanTok` need to know about a statement text -/
structure TextOk (t : Str) : Prop where
  head : ∃ c t', t = c :: t' ∧ isPrintable c = true ∧ (c ≠ '"' ∧ c ≠ '\'') ∧ (c ≠ '{' ∧ c ≠ '}')
  run : ∀ x ∈ t, isRunChar x = true
  nobrace : ∀ x ∈ t, x ≠ '{' ∧ x ≠ '}'
  last : ∃ ini l, t = ini ++ [l] ∧ isPrintable l = true ∧ l ≠ ';'

theorem wordOk_run {w : Str} (hw : WordOk w) : ∀ x ∈ w, isRunChar x = true ∧ (x ≠ '{' ∧ x ≠ '}') := by
  intro x hx
  have := hw.2 x hx
  simp [isRunChar, this.1, this.2.1, this.2.2]

theorem join_cons_cons (w v : Str) (ws : List Str) :
    join [' '] (w :: v :: ws) = w ++ [' '] ++ join [' '] (v :: ws) := rfl

theorem join_run : ∀ (ws : List Str), (∀ w ∈ ws, WordOk w) →
    ∀ x ∈ join [' '] ws, isRunChar x = true ∧ (x ≠ '{' ∧ x ≠ '}')
  | [], _ => by simp [join]
  | [w], h => by simpa [join] using wordOk_run (h w (by simp))
  | w :: v :: ws, h => by
    intro x hx
    rw [join_cons_cons] at hx
    rcases List.mem_append.mp hx with hx | hx
    · rcases List.mem_append.mp hx with hx | hx
      · exact wordOk_run (h w (by simp)) x hx
      · have : x = ' ' := by simpa using hx
        subst this; decide
    · exact join_run (v :: ws) (fun u hu => h u (by simp [hu])) x hx

theorem join_head (w : Str) (ws : List Str) : ∃ rest, join [' '] (w :: ws) = w ++ rest := by
  cases ws with
  | nil => exact ⟨[], by simp [join]⟩
  | cons v ws => exact ⟨[' '] ++ join [' '] (v :: ws), by rw [join_cons_cons]; simp⟩

theorem join_last : ∀ (ws : List Str) (lw : Str), ws.getLast? = some lw →
    ∃ ini, join [' '] ws = ini ++ lw
  | [], _, h => by simp at h
  | [w], lw, h => by
    have : w = lw := by simpa using h
    subst this; exact ⟨[], by simp [join]⟩
  | w :: v :: ws, lw, h => by
    have h' : (v :: ws).getLast? = some lw := by simpa [List.getLast?_cons_cons] using h
    obtain ⟨ini, hi⟩ := join_last (v :: ws) lw h'
    exact ⟨w ++ [' '] ++ ini, by rw [join_cons_cons, hi]; simp⟩

theorem words_textOk {ws : List Str} (h : WordsOk ws) : TextOk (stmtText ws) := by
  obtain ⟨hne, hall, hfirst, hlast⟩ := h
  have hr := join_run ws hall
  refine ⟨?_, fun x hx => (hr x hx).1, fun x hx => (hr x hx).2, ?_⟩
  · cases ws with
    | nil => exact absurd rfl hne
    | cons w ws =>
      obtain ⟨rest, hrest⟩ := join_head w ws
      have hw := hall w (by simp)
      cases w with
      | nil => exact absurd rfl hw.1
      | cons c w' =>
        have hc := hw.2 c (by simp)
        have hq := hfirst (c :: w') (by simp)
        refine ⟨c, w' ++ rest, by simp [stmtText, hrest], hc.1, ?_, hc.2⟩
        constructor
        · intro e; exact hq.1 (by simp [e])
        · intro e; exact hq.2 (by simp [e])
  · have : ∃ lw, ws.getLast? = some lw := by
      cases h : ws.getLast? with
      | none => exact absurd (List.getLast?_eq_none_iff.mp h) hne
      | some lw => exact ⟨lw, rfl⟩
    obtain ⟨lw, hlw⟩ := this
    obtain ⟨ini, hi⟩ := join_last ws lw hlw
    have hmem : lw ∈ ws := List.mem_of_getLast? hlw
    have hw := hall lw hmem
    have hsemi := hlast lw (by simp [hlw])
    obtain ⟨ini2, l, hl⟩ : ∃ ini2 l, lw = ini2 ++ [l] := by
      refine ⟨lw.dropLast, lw.getLast hw.1, ?_⟩
      exact (List.dropLast_concat_getLast hw.1).symm
    refine ⟨ini ++ ini2, l, by simp [stmtText, hi, hl], (hw.2 l (by simp [hl])).1, ?_⟩
    intro e; apply hsemi; simp [hl, e]

/-! ### `cleanTok` -/

theorem lstrip_cons_printable {c : Char} (t : Str) (hc : isPrintable c = true) : lstrip (c :: t) = c :: t := by
  simp [lstrip, printable_not_isSpace hc]

theorem rstrip_blanks (ini : Str) (l : Char) (j : Nat) (hl : isPrintable l = true) :
    rstrip (ini ++ [l] ++ List.replicate j ' ') = ini ++ [l] := by
  have hsp : ∀ j, (List.replicate j ' ' ++ l :: ini.reverse).dropWhile isSpace = l :: ini.reverse := by
    intro j
    induction j with
    | zero => simp [printable_not_isSpace hl]
    | succ j ih =>
      have : isSpace ' ' = true := by decide
      simp only [List.replicate_succ, List.cons_append, List.dropWhile_cons, this, if_true]
      exact ih
  simp only [rstrip, List.reverse_append, List.reverse_replicate, List.reverse_cons, List.reverse_nil,
    List.nil_append, List.singleton_append]
  rw [hsp]; simp

theorem strip_text {t : Str} (h : TextOk t) (extra : Str) (j : Nat)
    (hx : extra = [] ∨ extra = [';']) :
    strip (t ++ extra ++ List.replicate j ' ') = t ++ extra := by
  obtain ⟨c, t', rfl, hc, -, -⟩ := h.head
  obtain ⟨ini, l, hl, hlp, -⟩ := h.last
  have h1 : lstrip (c :: t' ++ extra ++ List.replicate j ' ') = c :: t' ++ extra ++ List.replicate j ' ' :=
    lstrip_cons_printable _ hc
  unfold strip
  rw [h1]
  rcases hx with rfl | rfl
  · rw [List.append_nil, hl]; exact rstrip_blanks ini l j hlp
  · rw [hl, show ini ++ [l] ++ [';'] = (ini ++ [l]) ++ [';'] from rfl]
    exact rstrip_blanks (ini ++ [l]) ';' j (by decide)

theorem cleanTok_text {t : Str} (h : TextOk t) (semi : Bool) (j : Nat) :
    cleanTok (t ++ (if semi then [';'] else []) ++ List.replicate j ' ') = t := by
  have h0 : strip t = t := by simpa using strip_text h [] 0 (Or.inl rfl)
  unfold cleanTok
  cases semi with
  | true =>
    simp only [if_true]
    rw [strip_text h [';'] j (Or.inr rfl)]
    simp [h0]
  | false =>
    have := strip_text h [] j (Or.inl rfl)
    simp only [List.append_nil] at this
    simp only [Bool.false_eq_true, if_false, List.append_nil, this]
    obtain ⟨ini, l, hl, -, hls⟩ := h.last
    have : t.getLast? ≠ some ';' := by
      rw [hl]; simp; exact hls
    simp [this, h0]

/-! ### round trip -/

theorem allWs_append {a b : Str} (ha : AllWs0 a) (hb : AllWs0 b) : AllWs0 (a ++ b) := by
  intro c hc; rcases List.mem_append.mp hc with h | h
  · exact ha c h
  · exact hb c h

theorem parses_congr {s s' : Str} {items : List Item} {r : Str} (h : nextTok s = nextTok s')
    (hl : s'.length ≤ s.length) (hp : Parses s' items r) : Parses s items r := by
  intro f hf
  rw [parseItems_congr h]
  exact hp f (by omega)

/-- blanks after a statement text belong to its token; the first line break ends it -/
theorem absorb {w : Str} (hw : AllWs0 w) (c : Char) (Y : Str) (hc : isRunChar c = false) :
    ∃ j Z, w ++ c :: Y = List.replicate j ' ' ++ Z ∧ (∀ x ∈ Z.head?, isRunChar x = false) ∧
      nextTok Z = nextTok (c :: Y) ∧ (c :: Y).length ≤ Z.length := by
  induction w with
  | nil => exact ⟨0, c :: Y, by simp, by simpa using hc, rfl, Nat.le_refl _⟩
  | cons a w ih =>
    have hw' : AllWs0 w := fun x hx => hw x (by simp [hx])
    rcases hw a (by simp) with ha | ha
    · obtain ⟨j, Z, h1, h2, h3, h4⟩ := ih hw'
      exact ⟨j + 1, Z, by simp [ha, List.replicate_succ, h1], h2, h3, h4⟩
    · refine ⟨0, a :: w ++ c :: Y, by simp, ?_, ?_, by simp; omega⟩
      · simpa using ws_not_run ha
      · exact nextTok_ws (w := a :: w) hw (c :: Y)

/-- the continuation of the last statement of a block: white space, then the closing brace -/
def EndsBlock (k : Str) : Prop := ∃ w k', k = w ++ '}' :: k' ∧ AllWs0 w

theorem endsBlock_parses {w k' : Str} (hw : AllWs0 w) {items : List Item} {r : Str}
    (h : Parses (w ++ '}' :: k') items r) : items = [] ∧ r = k' := by
  have h1 := h ((w ++ '}' :: k').length + 1) (by omega)
  have h2 := parses_ws hw (parses_close k') ((w ++ '}' :: k').length + 1) (by omega)
  rw [h1] at h2
  injection h2 with h2
  injection h2 with h3 h4
  exact ⟨h3, h4⟩

/-- one statement text with what follows it is one token whose cleaned form is the text -/
theorem text_token {t : Str} (ht : TextOk t) (semi : Bool) {w : Str} (hw : AllWs0 w) (c : Char) (Y : Str)
    (hc : isRunChar c = false) {items : List Item} {r : Str} (hp : Parses (c :: Y) items r) :
    ∃ T, Parses (t ++ ((if semi then [';'] else []) ++ (w ++ c :: Y))) (.tok T :: items) r ∧ cleanTok T = t := by
  obtain ⟨j, Z, h1, h2, h3, h4⟩ := absorb hw c Y hc
  obtain ⟨a, t', rfl, ha, hq, hb⟩ := ht.head
  let tail := t' ++ (if semi then [';'] else []) ++ List.replicate j ' '
  refine ⟨a :: tail, ?_, ?_⟩
  · have hs : (a :: t') ++ ((if semi then [';'] else []) ++ (w ++ c :: Y)) = a :: tail ++ Z := by
      rw [h1]; simp [tail]
    rw [hs]
    refine parses_text (nextTok_text a tail Z ha hq hb ?_ h2) (by simp; omega) (parses_congr h3 h4 hp)
    intro x hx
    simp only [tail, List.mem_append, List.mem_replicate] at hx
    rcases hx with (hx | hx) | hx
    · exact ht.run x (by simp [hx])
    · cases semi <;> simp at hx
      subst hx; decide
    · rw [hx.2]; decide
  · have := cleanTok_text ht semi j
    simpa [tail] using this

theorem unpack_tok (d : Nat) (T : Str) (rest : List Item) :
    unpackList 4 d (.tok T :: rest) = (List.replicate (d * 4) ' ' ++ cleanTok T) :: unpackList 4 d rest := by
  simp [unpackList, unpackItem]

theorem unpack_grp (d : Nat) (g rest : List Item) :
    unpackList 4 d (.grp g :: rest) = unpackList 4 (d + 1) g ++ unpackList 4 d rest := by
  simp [unpackList, unpackItem]

theorem unpack_append (d : Nat) : ∀ (a b : List Item),
    unpackList 4 d (a ++ b) = unpackList 4 d a ++ unpackList 4 d b
  | [], b => by simp [unpackList]
  | x :: a, b => by simp [unpackList, unpack_append d a b]

mutual
/-- `R` is a rendering of the statement whose white space is blank / LF / CR only -/
def RendStmt (more : Bool) : Stmt → Str → Prop
  | .node ws cs, R => ∃ (pre post close after : Str) (semi blk : Bool) (Rc : Str),
      AllWs0 pre ∧ AllWs0 post ∧ AllWs0 close ∧ AllWs0 after ∧ RendList cs Rc ∧
      R = pre ++ (stmtText ws ++ ((if semi then [';'] else []) ++ (post ++
        (if (!cs.isEmpty || blk) = true then '{' :: (Rc ++ (close ++ '}' :: after))
         else if more = true then ['\n'] else []))))
def RendList : List Stmt → Str → Prop
  | [], R => R = []
  | s :: ss, R => ∃ R1 R2, RendStmt (!ss.isEmpty) s R1 ∧ RendList ss R2 ∧ R = R1 ++ R2
end

mutual
theorem stmt_rt : ∀ (s : Stmt) (more : Bool) (R k : Str)
    (items : List Item) (r : Str), StmtOk s → RendStmt more s R → (more = false → EndsBlock k) → Parses k items r →
    ∃ its, Parses (R ++ k) (its ++ items) r ∧ ∀ d, unpackList 4 d its = flattenStmt d s
  | .node ws cs, more, R, k, items, r, hs, hR, hk, hp => by
    unfold RendStmt at hR
    obtain ⟨pre, post, close, after, semi, blk, Rc, hpre, hpost, hclose, hafter, hRc, rfl⟩ := hR
    have hws : WordsOk ws := by unfold StmtOk at hs; exact hs.1
    have hcs : ListOk cs := by unfold StmtOk at hs; exact hs.2
    have ht := words_textOk hws
    by_cases hblk : (!cs.isEmpty || blk) = true
    · -- a block
      simp only [hblk, if_true]
      have hkin : EndsBlock (close ++ '}' :: (after ++ k)) := ⟨_, _, rfl, hclose⟩
      obtain ⟨g, hg, hgu⟩ := list_rt cs Rc (close ++ '}' :: (after ++ k)) [] (after ++ k)
        hcs hRc hkin (parses_ws hclose (parses_close _))
      rw [List.append_nil] at hg
      have hY : Parses ('{' :: (Rc ++ (close ++ '}' :: (after ++ k))))
          (.grp g :: items) r :=
        parses_open (nextTok_open _) (by simp) hg (by simp; omega) (parses_ws hafter hp)
      obtain ⟨T, hT, hTc⟩ := text_token ht semi hpost '{' _ (by decide) hY
      refine ⟨[.tok T, .grp g], ?_, ?_⟩
      · simp only [List.append_assoc, List.cons_append, List.nil_append]
        apply parses_ws hpre
        simpa [List.append_assoc] using hT
      · intro d
        rw [unpack_tok, unpack_grp, hTc, hgu]
        simp [flattenStmt, unpackList, Nat.mul_comm]
    · -- a leaf
      simp only [hblk, Bool.false_eq_true, if_false]
      have hcs0 : cs = [] := by
        cases cs with
        | nil => rfl
        | cons a b => simp at hblk
      cases more with
      | true =>
        simp only [if_true]
        have hY : Parses ('\n' :: k) items r := parses_ws (w := ['\n']) (by intro c hc; simp at hc; simp [hc]) hp
        obtain ⟨T, hT, hTc⟩ := text_token ht semi hpost '\n' k (by decide) hY
        refine ⟨[.tok T], ?_, ?_⟩
        · simp only [List.append_assoc, List.cons_append, List.nil_append]
          apply parses_ws hpre
          simpa [List.append_assoc] using hT
        · intro d
          rw [unpack_tok, hTc, hcs0]
          simp [flattenStmt, flattenList, unpackList, Nat.mul_comm]
      | false =>
        simp only [Bool.false_eq_true, if_false, List.append_nil]
        obtain ⟨wk, k', rfl, hwk⟩ := hk rfl
        obtain ⟨rfl, rfl⟩ := endsBlock_parses hwk hp
        obtain ⟨T, hT, hTc⟩ := text_token ht semi (allWs_append hpost hwk) '}' r (by decide) (parses_close r)
        refine ⟨[.tok T], ?_, ?_⟩
        · simp only [List.append_assoc, List.cons_append, List.nil_append]
          apply parses_ws hpre
          simpa [List.append_assoc] using hT
        · intro d
          rw [unpack_tok, hTc, hcs0]
          simp [flattenStmt, flattenList, unpackList, Nat.mul_comm]
theorem list_rt : ∀ (ss : List Stmt) (R k : Str)
    (items : List Item) (r : Str), ListOk ss → RendList ss R → EndsBlock k → Parses k items r →
    ∃ its, Parses (R ++ k) (its ++ items) r ∧ ∀ d, unpackList 4 d its = flattenList d ss
  | [], R, k, items, r, _, hR, _, hp => by
    unfold RendList at hR; subst hR
    exact ⟨[], by simpa using hp, by intro d; simp [unpackList, flattenList]⟩
  | s :: ss, R, k, items, r, hs, hR, hk, hp => by
    have hs1 : StmtOk s := by unfold ListOk at hs; exact hs.1
    have hs2 : ListOk ss := by unfold ListOk at hs; exact hs.2
    unfold RendList at hR
    obtain ⟨R1, R2, hR1, hR2, rfl⟩ := hR
    obtain ⟨its2, h2, h2u⟩ := list_rt ss R2 k items r hs2 hR2 hk hp
    have hk2 : (!ss.isEmpty) = false → EndsBlock (R2 ++ k) := by
      intro h
      cases ss with
      | nil => unfold RendList at hR2; subst hR2; simpa using hk
      | cons a b => simp at h
    obtain ⟨its1, h1, h1u⟩ := stmt_rt s (!ss.isEmpty) R1 _ _ r hs1 hR1 hk2 h2
    refine ⟨its1 ++ its2, ?_, ?_⟩
    · simpa [List.append_assoc] using h1
    · intro d
      rw [unpack_append, h1u, h2u]; simp [flattenList]
end

/-! ### tab expansion of a rendering -/

/-- text without tabs is copied; only the column moves -/
theorem expand_notab : ∀ (x : Str), (∀ c ∈ x, c ≠ '\t') → ∀ col, ∃ col', ∀ k,
    expandTabsFrom col (x ++ k) = x ++ expandTabsFrom col' k
  | [], _, col => ⟨col, fun _ => rfl⟩
  | c :: x, h, col => by
    have hc : c ≠ '\t' := h c (by simp)
    have ih := expand_notab x (fun z hz => h z (by simp [hz]))
    by_cases hn : c = '\n' ∨ c = '\r'
    · obtain ⟨col', h'⟩ := ih 0
      exact ⟨col', fun k => by simp only [List.cons_append, expandTabsFrom, hc, hn, if_false, if_true, h' k]⟩
    · obtain ⟨col', h'⟩ := ih (col + 1)
      exact ⟨col', fun k => by simp only [List.cons_append, expandTabsFrom, hc, hn, if_false, h' k]⟩

/-- layout white space expands to blanks and line breaks -/
theorem expand_ws : ∀ (w : Str), AllWs w → ∀ col, ∃ w' col', AllWs0 w' ∧ ∀ k,
    expandTabsFrom col (w ++ k) = w' ++ expandTabsFrom col' k
  | [], _, col => ⟨[], col, by intro c hc; simp at hc, fun _ => rfl⟩
  | c :: w, h, col => by
    have ih := expand_ws w (fun z hz => h z (by simp [hz]))
    rcases h c (by simp) with hc | hc | hc | hc
    · obtain ⟨w', col', hw', h'⟩ := ih (col + 1)
      refine ⟨' ' :: w', col', ?_, fun k => ?_⟩
      · intro z hz; rcases List.mem_cons.mp hz with rfl | hz
        · exact Or.inl rfl
        · exact hw' z hz
      · subst hc
        have h1 : ¬ (' ' = '\t') := by decide
        have h2 : ¬ (' ' = '\n' ∨ ' ' = '\r') := by decide
        simp only [List.cons_append, expandTabsFrom, h1, h2, if_false, h' k]
    · obtain ⟨w', col', hw', h'⟩ := ih (col + (8 - col % 8))
      refine ⟨List.replicate (8 - col % 8) ' ' ++ w', col', ?_, fun k => ?_⟩
      · intro z hz; rcases List.mem_append.mp hz with hz | hz
        · exact Or.inl (List.eq_of_mem_replicate hz)
        · exact hw' z hz
      · subst hc
        simp only [List.cons_append, expandTabsFrom, if_true, h' k, List.append_assoc]
    · obtain ⟨w', col', hw', h'⟩ := ih 0
      refine ⟨'\n' :: w', col', ?_, fun k => ?_⟩
      · intro z hz; rcases List.mem_cons.mp hz with rfl | hz
        · exact Or.inr (Or.inl rfl)
        · exact hw' z hz
      · subst hc
        have h1 : ¬ ('\n' = '\t') := by decide
        simp only [List.cons_append, expandTabsFrom, h1, if_false, true_or, if_true, h' k]
    · obtain ⟨w', col', hw', h'⟩ := ih 0
      refine ⟨'\r' :: w', col', ?_, fun k => ?_⟩
      · intro z hz; rcases List.mem_cons.mp hz with rfl | hz
        · exact Or.inr (Or.inr rfl)
        · exact hw' z hz
      · subst hc
        have h1 : ¬ ('\r' = '\t') := by decide
        simp only [List.cons_append, expandTabsFrom, h1, if_false, or_true, if_true, h' k]

theorem run_notab {x : Char} (h : isRunChar x = true) : x ≠ '\t' := by
  rintro rfl; revert h; decide

mutual
theorem expand_stmt (L : Layout) (hL : LayoutOk L) : ∀ (s : Stmt) (p : List Nat) (more : Bool),
    StmtOk s → ∀ col, ∃ R col', RendStmt more s R ∧ ∀ k,
      expandTabsFrom col (renderStmt L p more s ++ k) = R ++ expandTabsFrom col' k
  | .node ws cs, p, more, hs, col => by
    obtain ⟨hpre, hpost, hclose, hafter⟩ := hL p
    have hws : WordsOk ws := by unfold StmtOk at hs; exact hs.1
    have hcs : ListOk cs := by unfold StmtOk at hs; exact hs.2
    have ht := words_textOk hws
    have hsemi : ∀ c ∈ (if (L p).semi then [';'] else []), c ≠ '\t' := by
      intro c hc; cases h : (L p).semi <;> simp [h] at hc
      subst hc; decide
    obtain ⟨pre', c1, hpre', e1⟩ := expand_ws _ hpre col
    obtain ⟨c2, e2⟩ := expand_notab (stmtText ws) (fun c hc => run_notab (ht.run c hc)) c1
    obtain ⟨c3, e3⟩ := expand_notab _ hsemi c2
    obtain ⟨post', c4, hpost', e4⟩ := expand_ws _ hpost c3
    by_cases hblk : writtenAsBlock (L p) cs = true
    · obtain ⟨c5, e5⟩ := expand_notab ['{'] (by intro c hc; simp at hc; subst hc; decide) c4
      obtain ⟨Rc, c6, hRc, e6⟩ := expand_list L hL cs p 0 hcs c5
      obtain ⟨close', c7, hclose', e7⟩ := expand_ws _ hclose c6
      obtain ⟨c8, e8⟩ := expand_notab ['}'] (by intro c hc; simp at hc; subst hc; decide) c7
      obtain ⟨after', c9, hafter', e9⟩ := expand_ws _ hafter c8
      refine ⟨pre' ++ (stmtText ws ++ ((if (L p).semi then [';'] else []) ++ (post' ++
        '{' :: (Rc ++ (close' ++ '}' :: after'))))), c9, ?_, fun k => ?_⟩
      · unfold RendStmt
        refine ⟨pre', post', close', after', (L p).semi, (L p).block, Rc, hpre', hpost', hclose', hafter', hRc, ?_⟩
        have : (!cs.isEmpty || (L p).block) = true := hblk
        simp only [this, if_true]
      · unfold renderStmt
        simp only [hblk, if_true, List.append_assoc, List.cons_append]
        have e5' := fun k => e5 k
        have e8' := fun k => e8 k
        simp only [List.cons_append, List.nil_append] at e5' e8'
        rw [e1, e2, e3, e4, e5', e6, e7, e8', e9]
    · by_cases hm : more = true
      · obtain ⟨c5, e5⟩ := expand_notab ['\n'] (by intro c hc; simp at hc; subst hc; decide) c4
        refine ⟨pre' ++ (stmtText ws ++ ((if (L p).semi then [';'] else []) ++ (post' ++ ['\n']))), c5, ?_, fun k => ?_⟩
        · unfold RendStmt
          refine ⟨pre', post', [], [], (L p).semi, (L p).block, [], hpre', hpost',
            by intro c hc; simp at hc, by intro c hc; simp at hc, ?_, ?_⟩
          · have : cs = [] := by
              cases cs with
              | nil => rfl
              | cons a b => simp [writtenAsBlock] at hblk
            subst this; unfold RendList; rfl
          · have : ¬ ((!cs.isEmpty || (L p).block) = true) := hblk
            simp [this, hm]
        · unfold renderStmt
          simp only [hblk, hm, if_true, Bool.false_eq_true, if_false, List.append_assoc]
          rw [e1, e2, e3, e4, e5]
      · refine ⟨pre' ++ (stmtText ws ++ ((if (L p).semi then [';'] else []) ++ (post' ++ []))), c4, ?_, fun k => ?_⟩
        · unfold RendStmt
          refine ⟨pre', post', [], [], (L p).semi, (L p).block, [], hpre', hpost',
            by intro c hc; simp at hc, by intro c hc; simp at hc, ?_, ?_⟩
          · have : cs = [] := by
              cases cs with
              | nil => rfl
              | cons a b => simp [writtenAsBlock] at hblk
            subst this; unfold RendList; rfl
          · have : ¬ ((!cs.isEmpty || (L p).block) = true) := hblk
            simp [this, hm]
        · unfold renderStmt
          simp only [hblk, hm, Bool.false_eq_true, if_false, List.append_assoc, List.nil_append]
          rw [e1, e2, e3, e4]
theorem expand_list (L : Layout) (hL : LayoutOk L) : ∀ (ss : List Stmt) (p : List Nat) (i : Nat),
    ListOk ss → ∀ col, ∃ R col', RendList ss R ∧ ∀ k,
      expandTabsFrom col (renderList L p i ss ++ k) = R ++ expandTabsFrom col' k
  | [], _, _, _, col => ⟨[], col, by unfold RendList; rfl, fun _ => by simp [renderList]⟩
  | s :: ss, p, i, hs, col => by
    have hs1 : StmtOk s := by unfold ListOk at hs; exact hs.1
    have hs2 : ListOk ss := by unfold ListOk at hs; exact hs.2
    obtain ⟨R1, c1, hR1, e1⟩ := expand_stmt L hL s (p ++ [i]) (!ss.isEmpty) hs1 col
    obtain ⟨R2, c2, hR2, e2⟩ := expand_list L hL ss p (i + 1) hs2 c1
    refine ⟨R1 ++ R2, c2, ?_, fun k => ?_⟩
    · unfold RendList; exact ⟨R1, R2, hR1, hR2, rfl⟩
    · unfold renderList
      rw [List.append_assoc, e1, e2, List.append_assoc]
end

/-! ### the wrapper: leading brace, closing brace -/

theorem head_ws_text {pre : Str} (hpre : AllWs pre) (c : Char) (hb : c ≠ '{' ∧ c ≠ '}') (rest : Str) :
    ∀ x ∈ (pre ++ c :: rest).head?, x ≠ '{' ∧ x ≠ '}' := by
  intro x hx
  cases pre with
  | nil =>
    have : x = c := by simpa using hx.symm
    subst this; exact hb
  | cons a w =>
    have : x = a := by simpa using hx.symm
    subst this
    rcases hpre x (by simp) with h | h | h | h <;> subst h <;> decide

theorem render_head (L : Layout) (hL : LayoutOk L) (T : List Stmt) (hT : ListOk T) :
    ∀ x ∈ (render L T).head?, x ≠ '{' ∧ x ≠ '}' := by
  cases T with
  | nil => simp [render, renderList]
  | cons s ss =>
    cases s with
    | node ws cs =>
      have hs1 : StmtOk (.node ws cs) := by unfold ListOk at hT; exact hT.1
      have hws : WordsOk ws := by unfold StmtOk at hs1; exact hs1.1
      obtain ⟨c, t', htx, -, -, hb⟩ := (words_textOk hws).head
      have hpre := (hL [0]).1
      have := head_ws_text hpre c hb
      simp only [render, renderList, renderStmt, htx, List.nil_append, List.append_assoc, List.cons_append]
      exact this _

theorem braceText_of_head (stop : Nat) (txt : Str) (h : ∀ x ∈ txt.head?, x ≠ '{' ∧ x ≠ '}') :
    braceText stop txt =
      match parseItems ((expandTabsFrom 1 (txt ++ ['}'])).length + 1) (expandTabsFrom 1 (txt ++ ['}'])) with
      | .ok (items, _) => .ok (unpackList stop 0 items)
      | .error e => .error e := by
  unfold braceText
  split
  · exact absurd rfl (h '{' (by simp)).1
  · exact absurd rfl (h '}' (by simp)).2
  · rfl

theorem expand_close (col : Nat) : expandTabsFrom col ['}'] = ['}'] := by
  have h1 : ¬ ('}' = '\t') := by decide
  simp [expandTabsFrom, h1]

theorem braceText_render (L : Layout) (hL : LayoutOk L) (T : List Stmt) (hT : ListOk T) :
    braceText 4 (render L T) = .ok (flatten T) := by
  rw [braceText_of_head 4 _ (render_head L hL T hT)]
  obtain ⟨R, c', hR, he⟩ := expand_list L hL T [] 0 hT 1
  have hs : expandTabsFrom 1 (render L T ++ ['}']) = R ++ ['}'] := by
    unfold render; rw [he, expand_close]
  rw [hs]
  obtain ⟨its, hp, hu⟩ := list_rt T R ['}'] [] [] hT hR ⟨[], [], rfl, by intro c hc; simp at hc⟩
    (parses_close [])
  rw [hp ((R ++ ['}']).length + 1) (by omega)]
  simp [hu, flatten]

/-! ### the indentation parent of a flattened tree -/

mutual
def depthsStmt (d : Nat) : Stmt → List Nat
  | .node _ cs => d :: depthsList (d + 1) cs
def depthsList (d : Nat) : List Stmt → List Nat
  | [] => []
  | s :: ss => depthsStmt d s ++ depthsList d ss
end

theorem indent_line {t : Str} (ht : TextOk t) (n : Nat) : indent (List.replicate n ' ' ++ t) = n := by
  obtain ⟨c, t', rfl, hc, -, -⟩ := ht.head
  have h : ∀ n, lstrip (List.replicate n ' ' ++ c :: t') = c :: t' := by
    intro n
    induction n with
    | zero => simpa using lstrip_cons_printable t' hc
    | succ n ih =>
      have hs : isSpace ' ' = true := by decide
      simpa [lstrip, List.replicate_succ, hs] using ih
  simp only [indent, h n]
  simp

mutual
theorem indents_stmt : ∀ (s : Stmt) (d : Nat), StmtOk s →
    (flattenStmt d s).map indent = (depthsStmt d s).map (4 * ·)
  | .node ws cs, d, hs => by
    have hws : WordsOk ws := by unfold StmtOk at hs; exact hs.1
    have hcs : ListOk cs := by unfold StmtOk at hs; exact hs.2
    simp [flattenStmt, depthsStmt, indent_line (words_textOk hws), indents_list cs (d + 1) hcs]
theorem indents_list : ∀ (ss : List Stmt) (d : Nat), ListOk ss →
    (flattenList d ss).map indent = (depthsList d ss).map (4 * ·)
  | [], _, _ => by simp [flattenList, depthsList]
  | s :: ss, d, hs => by
    have hs1 : StmtOk s := by unfold ListOk at hs; exact hs.1
    have hs2 : ListOk ss := by unfold ListOk at hs; exact hs.2
    simp [flattenList, depthsList, indents_stmt s d hs1, indents_list ss d hs2]
end

mutual
theorem depths_stmt_ge : ∀ (s : Stmt) (d : Nat), ∀ x ∈ depthsStmt d s, d ≤ x
  | .node _ cs, d => by
    intro x hx
    simp only [depthsStmt, List.mem_cons] at hx
    rcases hx with rfl | hx
    · exact Nat.le_refl _
    · have := depths_list_ge cs (d + 1) x hx; omega
theorem depths_list_ge : ∀ (ss : List Stmt) (d : Nat), ∀ x ∈ depthsList d ss, d ≤ x
  | [], _ => by simp [depthsList]
  | s :: ss, d => by
    intro x hx
    simp only [depthsList, List.mem_append] at hx
    rcases hx with hx | hx
    · exact depths_stmt_ge s d x hx
    · exact depths_list_ge ss d x hx
end

mutual
theorem depths_stmt_length : ∀ (s : Stmt) (d : Nat), (depthsStmt d s).length = sizeStmt s
  | .node _ cs, d => by simp [depthsStmt, sizeStmt, depths_list_length cs (d + 1)]; omega
theorem depths_list_length : ∀ (ss : List Stmt) (d : Nat), (depthsList d ss).length = sizeList ss
  | [], _ => by simp [depthsList, sizeList]
  | s :: ss, d => by simp [depthsList, sizeList, depths_stmt_length s d, depths_list_length ss d]
end

theorem lastSmaller_append_ge (x : Nat) : ∀ (a b : List Nat), (∀ y ∈ b, x ≤ y) →
    lastSmaller x (a ++ b) = lastSmaller x a
  | a, [], _ => by simp
  | [], y :: b, h => by
    have h1 := lastSmaller_append_ge x [] b (fun z hz => h z (by simp [hz]))
    have hy := h y (by simp)
    simp only [List.nil_append] at h1 ⊢
    simp [lastSmaller, h1, Nat.not_lt.mpr hy]
  | c :: a, b, h => by
    simp [lastSmaller, lastSmaller_append_ge x a b h]

theorem lastSmaller_snoc_lt (x y : Nat) (a : List Nat) (h : y < x) :
    lastSmaller x (a ++ [y]) = some a.length := by
  induction a with
  | nil => simp [lastSmaller, h]
  | cons c a ih => simp [lastSmaller, ih]

mutual
theorem parents_stmt : ∀ (s : Stmt) (d : Nat) (pre rest : List Nat) (par : Option Nat),
    lastSmaller (4 * d) pre = par →
    parentsFrom pre ((depthsStmt d s).map (4 * ·) ++ rest) =
      treeParentsStmt pre.length par s ++ parentsFrom (pre ++ (depthsStmt d s).map (4 * ·)) rest
  | .node _ cs, d, pre, rest, par, h => by
    have ih := parents_list cs (d + 1) (pre ++ [4 * d]) rest (some pre.length)
      (lastSmaller_snoc_lt _ _ pre (by omega))
    simp only [depthsStmt, List.map_cons, List.cons_append, parentsFrom, h, treeParentsStmt]
    rw [ih]
    simp
theorem parents_list : ∀ (ss : List Stmt) (d : Nat) (pre rest : List Nat) (par : Option Nat),
    lastSmaller (4 * d) pre = par →
    parentsFrom pre ((depthsList d ss).map (4 * ·) ++ rest) =
      treeParentsList pre.length par ss ++ parentsFrom (pre ++ (depthsList d ss).map (4 * ·)) rest
  | [], _, _, _, _, _ => by simp [depthsList, treeParentsList]
  | s :: ss, d, pre, rest, par, h => by
    have h2 : lastSmaller (4 * d) (pre ++ (depthsStmt d s).map (4 * ·)) = par := by
      rw [lastSmaller_append_ge _ _ _ ?_, h]
      intro y hy
      obtain ⟨z, hz, rfl⟩ := List.mem_map.mp hy
      have := depths_stmt_ge s d z hz
      omega
    have e1 := parents_stmt s d pre ((depthsList d ss).map (4 * ·) ++ rest) par h
    have e2 := parents_list ss d (pre ++ (depthsStmt d s).map (4 * ·)) rest par h2
    simp only [depthsList, List.map_append, List.append_assoc, treeParentsList]
    rw [e1, e2]
    simp [depths_stmt_length]
end

theorem indentParents_flatten (T : List Stmt) (hT : ListOk T) : indentParents (flatten T) = treeParents T := by
  unfold indentParents flatten treeParents
  rw [indents_list T 0 hT]
  have := parents_list T 0 [] [] none rfl
  simpa [parentsFrom] using this

/-! ### a missing closing brace -/

/-- brace depth after reading the text from depth `n`; `none` when a closing brace
arrives at depth 0 -/
def bal : Nat → Str → Option Nat
  | n, [] => some n
  | n, c :: cs =>
    if c = '{' then bal (n + 1) cs
    else if c = '}' then (match n with | 0 => none | m + 1 => bal m cs)
    else bal n cs

def NoBrace (x : Str) : Prop := ∀ c ∈ x, c ≠ '{' ∧ c ≠ '}'

theorem bal_skip {x : Str} (hx : NoBrace x) (n : Nat) (y : Str) : bal n (x ++ y) = bal n y := by
  induction x with
  | nil => rfl
  | cons c x ih =>
    have hc := hx c (by simp)
    simp only [List.cons_append, bal, hc.1, hc.2, if_false]
    exact ih (fun z hz => hx z (by simp [hz]))

theorem bal_nobrace {x : Str} (hx : NoBrace x) (n : Nat) : bal n x = some n := by
  simpa [bal] using bal_skip hx n []

theorem bal_append : ∀ (x y : Str) (n : Nat), bal n (x ++ y) = (bal n x).bind (fun m => bal m y)
  | [], y, n => by simp [bal]
  | c :: x, y, n => by
    simp only [List.cons_append, bal]
    split
    · exact bal_append x y (n + 1)
    · split
      · cases n with
        | zero => simp
        | succ m => exact bal_append x y m
      · exact bal_append x y n

theorem bal_shift : ∀ (s : Str) (n m : Nat), bal n s = some m → bal (n + 1) s = some (m + 1)
  | [], n, m, h => by simp [bal] at h ⊢; omega
  | c :: s, n, m, h => by
    simp only [bal] at h ⊢
    split
    · rename_i hc; simp only [hc, if_true] at h; exact bal_shift s (n + 1) m h
    · rename_i hc
      simp only [hc, if_false] at h
      split
      · rename_i hc2
        simp only [hc2, if_true] at h
        cases n with
        | zero => simp at h
        | succ k => exact bal_shift s k m h
      · rename_i hc2
        simp only [hc2, if_false] at h
        exact bal_shift s n m h

theorem ws_nobrace {w : Str} (hw : AllWs0 w) : NoBrace w := by
  intro c hc; rcases hw c hc with h | h | h <;> subst h <;> decide

theorem mem_takeWhile_true (p : Char → Bool) : ∀ (l : Str) (c : Char), c ∈ l.takeWhile p → p c = true
  | [], _, h => by simp at h
  | a :: l, c, h => by
    by_cases ha : p a = true
    · simp only [List.takeWhile_cons, ha, if_true, List.mem_cons] at h
      rcases h with rfl | h
      · exact ha
      · exact mem_takeWhile_true p l c h
    · simp [ha] at h

theorem skip_nobrace (s : Str) : NoBrace (s.takeWhile isSkip) := by
  intro c hc
  have := mem_takeWhile_true _ _ _ hc
  constructor <;> (rintro rfl; revert this; decide)

theorem run_nobrace (s : Str) : NoBrace (s.takeWhile isRunChar) := by
  intro c hc
  have := mem_takeWhile_true _ _ _ hc
  constructor <;> (rintro rfl; revert this; decide)

/-! ### no token starts with a quote -/

def isQuote (c : Char) : Bool := c == '"' || c == '\''

/-- scanning the text the way the tokenizer does (`inRun` = inside a content run, which
blanks do not end), no quote character is met outside a run — so `quoted_string` never
gets a chance and every brace is structural -/
def safe : Bool → Str → Bool
  | _, [] => true
  | inRun, c :: cs =>
    if isRunChar c then
      if c = ' ' then safe inRun cs
      else if !inRun && isQuote c then false else safe true cs
    else safe false cs

theorem safe_mono : ∀ (s : Str), safe false s = true → safe true s = true
  | [], _ => rfl
  | c :: cs, h => by
    unfold safe at h ⊢
    by_cases hr : isRunChar c = true
    · simp only [hr, if_true] at h ⊢
      by_cases hb : c = ' '
      · simp only [hb, if_true] at h ⊢; exact safe_mono cs h
      · simp only [hb, if_false] at h ⊢
        by_cases hq : isQuote c = true
        · simp [hq] at h
        · simpa [hq] using h
    · simpa [hr] using h

theorem safe_any {st : Bool} {s : Str} (h : safe false s = true) : safe st s = true := by
  cases st
  · exact h
  · exact safe_mono s h

theorem safe_skip : ∀ (x : Str), (∀ c ∈ x, isSkip c = true) → ∀ y, safe false (x ++ y) = safe false y
  | [], _, _ => rfl
  | c :: x, h, y => by
    have ih := safe_skip x (fun z hz => h z (by simp [hz])) y
    have hc := h c (by simp)
    simp only [List.cons_append]
    unfold safe
    by_cases hb : c = ' '
    · subst hb
      have : isRunChar ' ' = true := by decide
      simp only [this, if_true]; exact ih.trans (by unfold safe; rfl) |>.trans (by rfl)
    · have : isRunChar c = false := by
        simp only [isSkip, Bool.or_eq_true, beq_iff_eq] at hc
        rcases hc with ((hc | hc) | hc) | hc
        · exact absurd hc hb
        all_goals (subst hc; decide)
      simp only [this, Bool.false_eq_true, if_false]; exact ih.trans (by unfold safe; rfl) |>.trans (by rfl)

theorem safe_true_run : ∀ (x : Str), (∀ c ∈ x, isRunChar c = true) → ∀ y, safe true (x ++ y) = safe true y
  | [], _, _ => rfl
  | c :: x, h, y => by
    have ih := safe_true_run x (fun z hz => h z (by simp [hz])) y
    have hc := h c (by simp)
    simp only [List.cons_append]
    rw [safe]
    simp only [hc, if_true, Bool.not_true, Bool.false_and, Bool.false_eq_true, if_false]
    split <;> exact ih

theorem safe_true_stop (r : Str) (h : ∀ x ∈ r.head?, isRunChar x = false) : safe true r = safe false r := by
  cases r with
  | nil => rfl
  | cons c r => rw [safe, safe]; simp [h c (by simp)]

theorem takeWhile_all (p : Char → Bool) (l : Str) : ∀ c ∈ l.takeWhile p, p c = true :=
  fun c hc => mem_takeWhile_true p l c hc

theorem dropWhile_head (p : Char → Bool) : ∀ (l : Str), ∀ x ∈ (l.dropWhile p).head?, p x = false
  | [], x, h => by simp at h
  | a :: l, x, h => by
    by_cases ha : p a = true
    · simp only [List.dropWhile_cons, ha, if_true] at h; exact dropWhile_head p l x h
    · simp only [List.dropWhile_cons, ha] at h
      have : x = a := by simpa using h.symm
      subst this; simpa using ha

theorem safe_suffix_brace {st : Bool} (c : Char) (hc : isRunChar c = false) (r : Str) :
    safe st (c :: r) = safe false r := by
  rw [safe]; simp [hc]

/-- when no token starts with a quote the tokenizer splits the input at braces only, and
the rest of the input has the same property -/
theorem nextTok_split_safe {s : Str} (hq : safe false s = true) :
    match nextTok s with
    | .bad => True
    | .close r => ∃ sk, s = sk ++ '}' :: r ∧ NoBrace sk ∧ safe false r = true
    | .opn r => ∃ sk, s = sk ++ '{' :: r ∧ NoBrace sk ∧ safe false r = true
    | .text t r => ∃ sk, s = sk ++ (t ++ r) ∧ NoBrace sk ∧ NoBrace t ∧ safe false r = true := by
  have hs : s = s.takeWhile isSkip ++ s.dropWhile isSkip := (List.takeWhile_append_dropWhile).symm
  have hsk := skip_nobrace s
  have hq' : safe false (s.dropWhile isSkip) = true := by
    rw [hs, safe_skip _ (takeWhile_all isSkip s)] at hq; exact hq
  unfold nextTok
  generalize hu : s.dropWhile isSkip = u at hs hq'
  cases u with
  | nil => simp [lexHead]
  | cons c cs =>
    have hns : isSkip c = false := by
      have := dropWhile_head isSkip s c (by rw [hu]; simp)
      exact this
    by_cases h1 : c = '{'
    · subst h1
      have : lexHead ('{' :: cs) = Lex.opn cs := by simp [lexHead]
      rw [this]
      refine ⟨_, hs, hsk, ?_⟩
      rw [safe_suffix_brace _ (by decide)] at hq'; exact hq'
    · by_cases h2 : c = '}'
      · subst h2
        have : lexHead ('}' :: cs) = Lex.close cs := by simp [lexHead]
        rw [this]
        refine ⟨_, hs, hsk, ?_⟩
        rw [safe_suffix_brace _ (by decide)] at hq'; exact hq'
      · by_cases h3 : isRunChar c = true
        · have hb : c ≠ ' ' := by rintro rfl; revert hns; decide
          have hcq : isQuote c = false := by
            rw [safe] at hq'
            simp only [h3, if_true, hb, if_false, Bool.not_false, Bool.true_and] at hq'
            cases h : isQuote c with
            | false => rfl
            | true => simp [h] at hq'
          have hc : c ≠ '"' ∧ c ≠ '\'' := by
            simp only [isQuote, Bool.or_eq_false_iff, beq_eq_false_iff_ne] at hcq
            exact hcq
          have hl : lexHead (c :: cs) =
              Lex.text ((c :: cs).takeWhile isRunChar) ((c :: cs).dropWhile isRunChar) := by
            simp [lexHead, hc.1, hc.2, h1, h2, h3]
          rw [hl]
          refine ⟨_, ?_, hsk, run_nobrace _, ?_⟩
          · rw [List.takeWhile_append_dropWhile]; exact hs
          · have hsplit : c :: cs = (c :: cs).takeWhile isRunChar ++ (c :: cs).dropWhile isRunChar :=
              (List.takeWhile_append_dropWhile).symm
            have h4 : safe true (c :: cs) = true := safe_mono _ hq'
            rw [hsplit, safe_true_run _ (takeWhile_all isRunChar _)] at h4
            rw [← safe_true_stop _ (dropWhile_head isRunChar _)]; exact h4
        · have hcq : c ≠ '"' ∧ c ≠ '\'' := by
            constructor <;> (rintro rfl; revert h3; decide)
          have : lexHead (c :: cs) = Lex.bad := by simp [lexHead, hcq.1, hcq.2, h1, h2, h3]
          rw [this]; trivial

/-- a successful group parse has consumed a balanced text and the closing brace -/
theorem parseItems_balanced_safe : ∀ (f : Nat) (s : Str) (items : List Item) (r : Str), safe false s = true →
    parseItems f s = .ok (items, r) → ∃ c, s = c ++ '}' :: r ∧ bal 0 c = some 0 ∧ safe false r = true
  | 0, _, _, _, _, h => by simp [parseItems] at h
  | f + 1, s, items, r, hq, h => by
    have hsplit := nextTok_split_safe hq
    unfold parseItems at h
    cases ht : nextTok s with
    | bad => simp [ht] at h
    | close r0 =>
      simp only [ht] at h hsplit
      obtain ⟨sk, hs, hsk, hq0⟩ := hsplit
      have : r0 = r := by injection h with h; injection h
      subst this
      exact ⟨sk, hs, bal_nobrace hsk 0, hq0⟩
    | text t r0 =>
      simp only [ht] at h hsplit
      obtain ⟨sk, hs, hsk, htk, hq0⟩ := hsplit
      cases h1 : parseItems f r0 with
      | error e => simp [h1] at h
      | ok v =>
        obtain ⟨its, r1⟩ := v
        simp only [h1] at h
        have : r1 = r := by injection h with h; injection h
        subst this
        obtain ⟨c1, hc1, hb1, hq1⟩ := parseItems_balanced_safe f r0 its r1 hq0 h1
        refine ⟨sk ++ (t ++ c1), by rw [hs, hc1]; simp, ?_, hq1⟩
        rw [bal_skip hsk, bal_skip htk]; exact hb1
    | opn r0 =>
      simp only [ht] at h hsplit
      obtain ⟨sk, hs, hsk, hq0⟩ := hsplit
      cases h1 : parseItems f r0 with
      | error e => simp [h1] at h
      | ok v =>
        obtain ⟨g, r1⟩ := v
        simp only [h1] at h
        cases h2 : parseItems f r1 with
        | error e => simp [h2] at h
        | ok v2 =>
          obtain ⟨its, r2⟩ := v2
          simp only [h2] at h
          have : r2 = r := by injection h with h; injection h
          subst this
          obtain ⟨c1, hc1, hb1, hq1⟩ := parseItems_balanced_safe f r0 g r1 hq0 h1
          obtain ⟨c2, hc2, hb2, hq2⟩ := parseItems_balanced_safe f r1 its r2 hq1 h2
          refine ⟨sk ++ '{' :: (c1 ++ '}' :: c2), by rw [hs, hc1, hc2]; simp, ?_, hq2⟩
          rw [bal_skip hsk]
          have e1 : bal 1 c1 = some 1 := bal_shift c1 0 0 hb1
          simp only [bal, if_true]
          rw [bal_append, e1]
          simp [bal, hb2]

/-! ### a missing closing brace: the rendering side -/

theorem wsT_nobrace {w : Str} (hw : AllWs w) : NoBrace w := by
  intro c hc; rcases hw c hc with h | h | h | h <;> subst h <;> decide

theorem wsT_isSkip {w : Str} (hw : AllWs w) : ∀ c ∈ w, isSkip c = true := by
  intro c hc; rcases hw c hc with h | h | h | h <;> subst h <;> decide

mutual
theorem renderStmt_bal (L : Layout) (hL : LayoutOk L) : ∀ (s : Stmt) (p : List Nat) (more : Bool),
    StmtOk s → ∀ (n : Nat) (k : Str), bal n (renderStmt L p more s ++ k) = bal n k
  | .node ws cs, p, more, hs => by
    obtain ⟨hpre, hpost, hclose, hafter⟩ := hL p
    have hws : WordsOk ws := by unfold StmtOk at hs; exact hs.1
    have hcs : ListOk cs := by unfold StmtOk at hs; exact hs.2
    have ht := words_textOk hws
    have ih := renderList_bal L hL cs p 0 hcs
    have hsemi : NoBrace (if (L p).semi then [';'] else []) := by
      intro c hc; cases h : (L p).semi <;> simp [h] at hc
      subst hc; decide
    intro n k
    unfold renderStmt
    simp only [List.append_assoc]
    rw [bal_skip (wsT_nobrace hpre), bal_skip ht.nobrace, bal_skip hsemi, bal_skip (wsT_nobrace hpost)]
    split
    · simp only [List.cons_append, List.append_assoc, bal, if_true]
      rw [ih, bal_skip (wsT_nobrace hclose)]
      simp only [bal, if_true]
      have : ¬ ('}' = '{') := by decide
      simp only [this, if_false]
      exact bal_skip (wsT_nobrace hafter) n k
    · split
      · exact bal_skip (x := ['\n']) (by intro c hc; simp at hc; subst hc; decide) n k
      · rfl
theorem renderList_bal (L : Layout) (hL : LayoutOk L) : ∀ (ss : List Stmt) (p : List Nat) (i : Nat),
    ListOk ss → ∀ (n : Nat) (k : Str), bal n (renderList L p i ss ++ k) = bal n k
  | [], _, _, _ => by simp [renderList]
  | s :: ss, p, i, hs => by
    have hs1 : StmtOk s := by unfold ListOk at hs; exact hs.1
    have hs2 : ListOk ss := by unfold ListOk at hs; exact hs.2
    intro n k
    unfold renderList
    rw [List.append_assoc, renderStmt_bal L hL s _ _ hs1, renderList_bal L hL ss p (i + 1) hs2]
end

/-- the text with one closing brace removed leaves the outermost group open -/
theorem bal_delete {a b : Str} (h : bal 0 (a ++ '}' :: b) = some 0) : bal 0 (a ++ b) = some 1 := by
  rw [bal_append] at h
  rw [bal_append]
  cases ha : bal 0 a with
  | none => simp [ha] at h
  | some m =>
    simp only [ha, Option.bind_some] at h ⊢
    have : ¬ ('}' = '{') := by decide
    simp only [bal, this, if_false, if_true] at h
    cases m with
    | zero => simp at h
    | succ m => exact bal_shift b m 0 h

theorem parseItems_err : ∀ (f : Nat) (s : Str) (e : Err), parseItems f s = .error e → e = .parseException
  | 0, _, e, h => by simp [parseItems] at h; exact h.symm
  | f + 1, s, e, h => by
    unfold parseItems at h
    cases ht : nextTok s with
    | bad => simp [ht] at h; exact h.symm
    | close r0 => simp [ht] at h
    | text t r0 =>
      simp only [ht] at h
      cases h1 : parseItems f r0 with
      | error e1 =>
        simp only [h1] at h
        have := parseItems_err f r0 e1 h1
        injection h with h; rw [← h, this]
      | ok v => obtain ⟨a, b⟩ := v; simp [h1] at h
    | opn r0 =>
      simp only [ht] at h
      cases h1 : parseItems f r0 with
      | error e1 =>
        simp only [h1] at h
        have := parseItems_err f r0 e1 h1
        injection h with h; rw [← h, this]
      | ok v =>
        obtain ⟨g, r1⟩ := v
        simp only [h1] at h
        cases h2 : parseItems f r1 with
        | error e2 =>
          simp only [h2] at h
          have := parseItems_err f r1 e2 h2
          injection h with h; rw [← h, this]
        | ok v2 => obtain ⟨a, b⟩ := v2; simp [h2] at h


theorem safe_blanks (st : Bool) (n : Nat) (y : Str) : safe st (List.replicate n ' ' ++ y) = safe st y := by
  induction n with
  | zero => rfl
  | succ n ih =>
    have : isRunChar ' ' = true := by decide
    simp only [List.replicate_succ, List.cons_append]
    rw [safe]; simp only [this, if_true]; exact ih

/-- tab expansion turns tabs into blanks, which can only keep a content run going -/
theorem safe_expand : ∀ (s : Str) (st : Bool) (col : Nat), safe st s = true →
    safe st (expandTabsFrom col s) = true
  | [], _, _, _ => rfl
  | c :: cs, st, col, h => by
    unfold expandTabsFrom
    by_cases ht : c = '\t'
    · subst ht
      have hr : isRunChar '\t' = false := by decide
      rw [safe_suffix_brace _ hr] at h
      simp only [if_true]
      rw [safe_blanks]
      exact safe_any (safe_expand cs false _ h)
    · simp only [ht, if_false]
      by_cases hn : c = '\n' ∨ c = '\r'
      · have hr : isRunChar c = false := by rcases hn with rfl | rfl <;> decide
        rw [safe_suffix_brace _ hr] at h
        simp only [hn, if_true]
        rw [safe_suffix_brace _ hr]
        exact safe_expand cs false _ h
      · simp only [hn, if_false]
        rw [safe] at h ⊢
        by_cases hr : isRunChar c = true
        · simp only [hr, if_true] at h ⊢
          by_cases hb : c = ' '
          · simp only [hb, if_true] at h ⊢; exact safe_expand cs st _ h
          · simp only [hb, if_false] at h ⊢
            by_cases hq : (!st && isQuote c) = true
            · simp [hq] at h
            · simp only [hq, Bool.false_eq_true, if_false] at h ⊢; exact safe_expand cs true _ h
        · simp only [hr, Bool.false_eq_true, if_false] at h ⊢; exact safe_expand cs false _ h

theorem safe_delete : ∀ (a b : Str) (st : Bool), safe st (a ++ '}' :: b) = true → safe st (a ++ b) = true
  | [], b, st, h => by
    rw [List.nil_append, safe_suffix_brace _ (by decide)] at h
    exact safe_any h
  | c :: a, b, st, h => by
    simp only [List.cons_append] at h ⊢
    rw [safe] at h ⊢
    by_cases hr : isRunChar c = true
    · simp only [hr, if_true] at h ⊢
      by_cases hb : c = ' '
      · simp only [hb, if_true] at h ⊢; exact safe_delete a b st h
      · simp only [hb, if_false] at h ⊢
        by_cases hq : (!st && isQuote c) = true
        · simp [hq] at h
        · simp only [hq, Bool.false_eq_true, if_false] at h ⊢; exact safe_delete a b true h
    · simp only [hr, Bool.false_eq_true, if_false] at h ⊢; exact safe_delete a b false h

theorem bal_expand : ∀ (s : Str) (n col : Nat), bal n (expandTabsFrom col s) = bal n s
  | [], _, _ => rfl
  | c :: cs, n, col => by
    unfold expandTabsFrom
    by_cases ht : c = '\t'
    · subst ht
      simp only [if_true]
      rw [bal_skip (by intro z hz; rw [List.eq_of_mem_replicate hz]; decide), bal_expand cs]
      have h1 : ¬ ('\t' = '{') := by decide
      have h2 : ¬ ('\t' = '}') := by decide
      simp [bal, h1, h2]
    · simp only [ht, if_false]
      split <;> (simp only [bal]; simp only [bal_expand cs])

theorem expand_append : ∀ (x : Str) (col : Nat), ∃ col', ∀ k,
    expandTabsFrom col (x ++ k) = expandTabsFrom col x ++ expandTabsFrom col' k
  | [], col => ⟨col, fun _ => rfl⟩
  | c :: x, col => by
    by_cases ht : c = '\t'
    · obtain ⟨c', h⟩ := expand_append x (col + (8 - col % 8))
      exact ⟨c', fun k => by simp only [List.cons_append, expandTabsFrom, ht, if_true, h k, List.append_assoc]⟩
    · by_cases hn : c = '\n' ∨ c = '\r'
      · obtain ⟨c', h⟩ := expand_append x 0
        exact ⟨c', fun k => by simp only [List.cons_append, expandTabsFrom, ht, hn, if_false, if_true, h k]⟩
      · obtain ⟨c', h⟩ := expand_append x (col + 1)
        exact ⟨c', fun k => by simp only [List.cons_append, expandTabsFrom, ht, hn, if_false, h k]⟩

theorem safe_ws_true {w : Str} (hw : AllWs w) (y : Str) (h : safe false y = true) : safe true (w ++ y) = true :=
  safe_mono _ (by rw [safe_skip w (wsT_isSkip hw)]; exact h)

mutual
theorem renderStmt_safe (L : Layout) (hL : LayoutOk L) : ∀ (s : Stmt) (p : List Nat) (more : Bool),
    StmtOk s → ∀ (k : Str), safe false k = true → safe false (renderStmt L p more s ++ k) = true
  | .node ws cs, p, more, hs => by
    obtain ⟨hpre, hpost, hclose, hafter⟩ := hL p
    have hws : WordsOk ws := by unfold StmtOk at hs; exact hs.1
    have hcs : ListOk cs := by unfold StmtOk at hs; exact hs.2
    have ht := words_textOk hws
    have ih := renderList_safe L hL cs p 0 hcs
    intro k hk
    obtain ⟨c, t', htx, hc, hq, hb⟩ := ht.head
    have hrun : ∀ x ∈ t' ++ (if (L p).semi then [';'] else []), isRunChar x = true := by
      intro x hx
      rcases List.mem_append.mp hx with hx | hx
      · exact ht.run x (by rw [htx]; simp [hx])
      · cases h : (L p).semi <;> simp [h] at hx
        subst hx; decide
    unfold renderStmt
    simp only [List.append_assoc]
    rw [safe_skip _ (wsT_isSkip hpre), htx]
    simp only [List.cons_append]
    have hcr : isRunChar c = true := by simp [isRunChar, hc, hb.1, hb.2]
    have hcb : c ≠ ' ' := by rintro rfl; revert hc; decide
    have hcq : isQuote c = false := by simp [isQuote, hq.1, hq.2]
    rw [safe]
    simp only [hcr, if_true, hcb, if_false, hcq, Bool.and_false, Bool.false_eq_true]
    rw [← List.append_assoc, safe_true_run _ hrun]
    apply safe_ws_true hpost
    split
    · rw [List.cons_append, safe_suffix_brace _ (by decide)]
      simp only [List.append_assoc]
      apply ih
      rw [safe_skip _ (wsT_isSkip hclose), List.cons_append, safe_suffix_brace _ (by decide),
        safe_skip _ (wsT_isSkip hafter)]
      exact hk
    · split
      · rw [List.cons_append, safe_suffix_brace _ (by decide)]; exact hk
      · exact hk
theorem renderList_safe (L : Layout) (hL : LayoutOk L) : ∀ (ss : List Stmt) (p : List Nat) (i : Nat),
    ListOk ss → ∀ (k : Str), safe false k = true → safe false (renderList L p i ss ++ k) = true
  | [], _, _, _ => by simp [renderList]
  | s :: ss, p, i, hs => by
    have hs1 : StmtOk s := by unfold ListOk at hs; exact hs.1
    have hs2 : ListOk ss := by unfold ListOk at hs; exact hs.2
    intro k hk
    unfold renderList
    rw [List.append_assoc]
    exact renderStmt_safe L hL s _ _ hs1 _ (renderList_safe L hL ss p (i + 1) hs2 k hk)
end

/-- deleting one closing brace from a balanced text in which no token starts with a quote:
the group opened by the wrapper never closes -/
theorem braceText_missing_close (stop : Nat) (a b : Str) (hbal : bal 0 (a ++ '}' :: b) = some 0)
    (hsafe : safe false (a ++ '}' :: (b ++ ['}'])) = true)
    (hhead : ∀ x ∈ (a ++ b).head?, x ≠ '{' ∧ x ≠ '}') :
    braceText stop (a ++ b) = .error .parseException := by
  rw [braceText_of_head stop _ hhead]
  obtain ⟨c', he⟩ := expand_append (a ++ b) 1
  have hs : expandTabsFrom 1 (a ++ b ++ ['}']) = expandTabsFrom 1 (a ++ b) ++ ['}'] := by
    rw [he, expand_close]
  have hsf : safe false (expandTabsFrom 1 (a ++ b ++ ['}'])) = true := by
    apply safe_expand
    rw [List.append_assoc]
    exact safe_delete a (b ++ ['}']) false hsafe
  cases hp : parseItems ((expandTabsFrom 1 (a ++ b ++ ['}'])).length + 1) (expandTabsFrom 1 (a ++ b ++ ['}'])) with
  | error e => simp only; rw [parseItems_err _ _ e hp]
  | ok v =>
    exfalso
    obtain ⟨items, r⟩ := v
    obtain ⟨c, hc, hb, -⟩ := parseItems_balanced_safe _ _ items r hsf hp
    have h1 : bal 0 (expandTabsFrom 1 (a ++ b)) = some 1 := by rw [bal_expand]; exact bal_delete hbal
    rw [hs] at hc
    rcases List.eq_nil_or_concat r with rfl | ⟨r', z, rfl⟩
    · have : c = expandTabsFrom 1 (a ++ b) := ((List.append_inj' hc.symm rfl).1)
      rw [this, h1] at hb
      simp at hb
    · have h2 : expandTabsFrom 1 (a ++ b) ++ ['}'] = (c ++ '}' :: r') ++ [z] := by rw [hc]; simp
      have := (List.append_inj' h2 rfl).1
      rw [this, bal_append, hb] at h1
      simp [bal] at h1

end Ccp.Brace
