import Ccp.Spec.Brace
/-!
Helper lemmas for C08 (`Ccp.Props.C08`): the tokenizer on rendered statements, the
recursive descent with enough fuel, `cleanTok` on a statement token, and the round trip
by mutual induction over the statement tree.
-/
namespace Ccp.Brace
open Ccp.Py

/-! ### characters -/

theorem ws_isSkip {c : Char} (h : c = ' ' ∨ c = '\n' ∨ c = '\r') : isSkip c = true := by
  rcases h with h | h | h <;> subst h <;> decide

theorem ws_not_run {c : Char} (h : c = '\n' ∨ c = '\r') : isRunChar c = false := by
  rcases h with h | h <;> subst h <;> decide

theorem printable_not_space_tbl : ∀ n : Fin 127, 33 ≤ n.val → Gen.whitespace.contains n.val = false := by
  decide

theorem printable_not_isSpace {c : Char} (h : isPrintable c = true) : isSpace c = false := by
  simp only [isPrintable, Bool.and_eq_true, decide_eq_true_eq] at h
  have := printable_not_space_tbl ⟨c.toNat, by omega⟩ h.1
  simpa [isSpace] using this

theorem printable_not_skip {c : Char} (h : isPrintable c = true) : isSkip c = false := by
  simp only [isPrintable, Bool.and_eq_true, decide_eq_true_eq] at h
  have h1 : c ≠ ' ' := by rintro rfl; revert h; decide
  have h2 : c ≠ '\n' := by rintro rfl; revert h; decide
  have h3 : c ≠ '\r' := by rintro rfl; revert h; decide
  have h4 : c ≠ '\t' := by rintro rfl; revert h; decide
  simp [isSkip, h1, h2, h3, h4]

theorem dropWhile_skip_ws {w : Str} (hw : AllWs w) (s : Str) :
    (w ++ s).dropWhile isSkip = s.dropWhile isSkip := by
  induction w with
  | nil => rfl
  | cons c w ih =>
    have hc := ws_isSkip (hw c (by simp))
    simp only [List.cons_append, List.dropWhile_cons, hc, if_true]
    exact ih (fun x hx => hw x (by simp [hx]))

theorem nextTok_ws {w : Str} (hw : AllWs w) (s : Str) : nextTok (w ++ s) = nextTok s := by
  simp only [nextTok, dropWhile_skip_ws hw]

theorem nextTok_close (k : Str) : nextTok ('}' :: k) = .close k := by
  simp [nextTok, lexHead, isSkip]

theorem nextTok_open (k : Str) : nextTok ('{' :: k) = .opn k := by
  simp [nextTok, lexHead, isSkip]

/-- a visible first character that is neither a quote nor a brace, a run of content
characters, then something that is not a content character -/
theorem nextTok_text (c : Char) (t Z : Str) (hc : isPrintable c = true)
    (hq : c ≠ '"' ∧ c ≠ '\'') (hb : c ≠ '{' ∧ c ≠ '}')
    (ht : ∀ x ∈ t, isRunChar x = true) (hZ : ∀ x ∈ Z.head?, isRunChar x = false) :
    nextTok (c :: t ++ Z) = .text (c :: t) Z := by
  have hrun : isRunChar c = true := by simp [isRunChar, hc, hb.1, hb.2]
  have hall : ∀ x ∈ c :: t, isRunChar x = true := by
    intro x hx; rcases List.mem_cons.mp hx with rfl | hx
    · exact hrun
    · exact ht x hx
  have hZt : Z.takeWhile isRunChar = [] := by
    cases Z with
    | nil => rfl
    | cons z Z => simp [hZ z (by simp)]
  have hZd : Z.dropWhile isRunChar = Z := by
    cases Z with
    | nil => rfl
    | cons z Z => simp [hZ z (by simp)]
  have htk : ((c :: t) ++ Z).takeWhile isRunChar = c :: t := by
    rw [List.takeWhile_append_of_pos hall, hZt, List.append_nil]
  have hdr : ((c :: t) ++ Z).dropWhile isRunChar = Z := by
    rw [List.dropWhile_append_of_pos hall, hZd]
  have hsk : ((c :: t) ++ Z).dropWhile isSkip = (c :: t) ++ Z := by
    simp [printable_not_skip hc]
  show lexHead (((c :: t) ++ Z).dropWhile isSkip) = _
  rw [hsk]
  show lexHead (c :: (t ++ Z)) = _
  unfold lexHead
  simp only [hq.1, hq.2, or_self, if_false, hb.1, hb.2, hrun, if_true]
  rw [show c :: (t ++ Z) = (c :: t) ++ Z from rfl, htk, hdr]

/-! ### the recursive descent with enough fuel -/

/-- with any fuel above the input length the group items are `items` and `r` remains -/
def Parses (s : Str) (items : List Item) (r : Str) : Prop :=
  ∀ f, s.length < f → parseItems f s = .ok (items, r)

theorem parseItems_congr {s s' : Str} (h : nextTok s = nextTok s') (f : Nat) :
    parseItems f s = parseItems f s' := by
  cases f with
  | zero => rfl
  | succ f => simp only [parseItems, h]

theorem parses_ws {w s : Str} {items : List Item} {r : Str} (hw : AllWs w)
    (h : Parses s items r) : Parses (w ++ s) items r := by
  intro f hf
  rw [parseItems_congr (nextTok_ws hw s)]
  exact h f (by simp at hf; omega)

theorem parses_close (k : Str) : Parses ('}' :: k) [] k := by
  intro f hf
  cases f with
  | zero => omega
  | succ f => simp only [parseItems, nextTok_close]

theorem parses_text {s t r0 : Str} {items : List Item} {r : Str}
    (ht : nextTok s = .text t r0) (hl : r0.length < s.length)
    (h : Parses r0 items r) : Parses s (.tok t :: items) r := by
  intro f hf
  cases f with
  | zero => omega
  | succ f => simp only [parseItems, ht, h f (by omega)]

theorem parses_open {s r0 r1 : Str} {g items : List Item} {r : Str}
    (ho : nextTok s = .opn r0) (hl0 : r0.length < s.length) (hg : Parses r0 g r1)
    (hl1 : r1.length < s.length) (h : Parses r1 items r) : Parses s (.grp g :: items) r := by
  intro f hf
  cases f with
  | zero => omega
  | succ f => simp only [parseItems, ho, hg f (by omega), h f (by omega)]

/-! ### statement texts -/

/-- what the tokenizer and `cleanTok` need to know about a statement text -/
structure TextOk (t : Str) : Prop where
  head : ∃ c t', t = c :: t' ∧ isPrintable c = true ∧ (c ≠ '"' ∧ c ≠ '\'') ∧ (c ≠ '{' ∧ c ≠ '}')
  run : ∀ x ∈ t, isRunChar x = true
  nobrace : ∀ x ∈ t, x ≠ '{' ∧ x ≠ '}'
  last : ∃ ini l, t = ini ++ [l] ∧ isPrintable l = true ∧ l ≠ ';'

theorem wordOk_run {w : Str} (hw : WordOk w) : ∀ x ∈ w, isRunChar x = true ∧ (x ≠ '{' ∧ x ≠ '}') := by
  intro x hx
  have := hw.2 x hx
  simp [isRunChar, this.1, this.2.1, this.2.2]

theorem join_cons_cons (w v : Str) (ws : List Str) :
    join [' '] (w :: v :: ws) = w ++ [' '] ++ join [' '] (v :: ws) := rfl

theorem join_run : ∀ (ws : List Str), (∀ w ∈ ws, WordOk w) →
    ∀ x ∈ join [' '] ws, isRunChar x = true ∧ (x ≠ '{' ∧ x ≠ '}')
  | [], _ => by simp [join]
  | [w], h => by simpa [join] using wordOk_run (h w (by simp))
  | w :: v :: ws, h => by
    intro x hx
    rw [join_cons_cons] at hx
    rcases List.mem_append.mp hx with hx | hx
    · rcases List.mem_append.mp hx with hx | hx
      · exact wordOk_run (h w (by simp)) x hx
      · have : x = ' ' := by simpa using hx
        subst this; decide
    · exact join_run (v :: ws) (fun u hu => h u (by simp [hu])) x hx

theorem join_head (w : Str) (ws : List Str) : ∃ rest, join [' '] (w :: ws) = w ++ rest := by
  cases ws with
  | nil => exact ⟨[], by simp [join]⟩
  | cons v ws => exact ⟨[' '] ++ join [' '] (v :: ws), by rw [join_cons_cons]; simp⟩

theorem join_last : ∀ (ws : List Str) (lw : Str), ws.getLast? = some lw →
    ∃ ini, join [' '] ws = ini ++ lw
  | [], _, h => by simp at h
  | [w], lw, h => by
    have : w = lw := by simpa using h
    subst this; exact ⟨[], by simp [join]⟩
  | w :: v :: ws, lw, h => by
    have h' : (v :: ws).getLast? = some lw := by simpa [List.getLast?_cons_cons] using h
    obtain ⟨ini, hi⟩ := join_last (v :: ws) lw h'
    exact ⟨w ++ [' '] ++ ini, by rw [join_cons_cons, hi]; simp⟩

theorem words_textOk {ws : List Str} (h : WordsOk ws) : TextOk (stmtText ws) := by
  obtain ⟨hne, hall, hfirst, hlast⟩ := h
  have hr := join_run ws hall
  refine ⟨?_, fun x hx => (hr x hx).1, fun x hx => (hr x hx).2, ?_⟩
  · cases ws with
    | nil => exact absurd rfl hne
    | cons w ws =>
      obtain ⟨rest, hrest⟩ := join_head w ws
      have hw := hall w (by simp)
      cases w with
      | nil => exact absurd rfl hw.1
      | cons c w' =>
        have hc := hw.2 c (by simp)
        have hq := hfirst (c :: w') (by simp)
        refine ⟨c, w' ++ rest, by simp [stmtText, hrest], hc.1, ?_, hc.2⟩
        constructor
        · intro e; exact hq.1 (by simp [e])
        · intro e; exact hq.2 (by simp [e])
  · have : ∃ lw, ws.getLast? = some lw := by
      cases h : ws.getLast? with
      | none => exact absurd (List.getLast?_eq_none_iff.mp h) hne
      | some lw => exact ⟨lw, rfl⟩
    obtain ⟨lw, hlw⟩ := this
    obtain ⟨ini, hi⟩ := join_last ws lw hlw
    have hmem : lw ∈ ws := List.mem_of_getLast? hlw
    have hw := hall lw hmem
    have hsemi := hlast lw (by simp [hlw])
    obtain ⟨ini2, l, hl⟩ : ∃ ini2 l, lw = ini2 ++ [l] := by
      refine ⟨lw.dropLast, lw.getLast hw.1, ?_⟩
      exact (List.dropLast_concat_getLast hw.1).symm
    refine ⟨ini ++ ini2, l, by simp [stmtText, hi, hl], (hw.2 l (by simp [hl])).1, ?_⟩
    intro e; apply hsemi; simp [hl, e]

/-! ### `cleanTok` -/

theorem lstrip_cons_printable {c : Char} (t : Str) (hc : isPrintable c = true) : lstrip (c :: t) = c :: t := by
  simp [lstrip, printable_not_isSpace hc]

theorem rstrip_blanks (ini : Str) (l : Char) (j : Nat) (hl : isPrintable l = true) :
    rstrip (ini ++ [l] ++ List.replicate j ' ') = ini ++ [l] := by
  have hsp : ∀ j, (List.replicate j ' ' ++ l :: ini.reverse).dropWhile isSpace = l :: ini.reverse := by
    intro j
    induction j with
    | zero => simp [printable_not_isSpace hl]
    | succ j ih =>
      have : isSpace ' ' = true := by decide
      simp only [List.replicate_succ, List.cons_append, List.dropWhile_cons, this, if_true]
      exact ih
  simp only [rstrip, List.reverse_append, List.reverse_replicate, List.reverse_cons, List.reverse_nil,
    List.nil_append, List.singleton_append]
  rw [hsp]; simp

theorem strip_text {t : Str} (h : TextOk t) (extra : Str) (j : Nat)
    (hx : extra = [] ∨ extra = [';']) :
    strip (t ++ extra ++ List.replicate j ' ') = t ++ extra := by
  obtain ⟨c, t', rfl, hc, -, -⟩ := h.head
  obtain ⟨ini, l, hl, hlp, -⟩ := h.last
  have h1 : lstrip (c :: t' ++ extra ++ List.replicate j ' ') = c :: t' ++ extra ++ List.replicate j ' ' :=
    lstrip_cons_printable _ hc
  unfold strip
  rw [h1]
  rcases hx with rfl | rfl
  · rw [List.append_nil, hl]; exact rstrip_blanks ini l j hlp
  · rw [hl, show ini ++ [l] ++ [';'] = (ini ++ [l]) ++ [';'] from rfl]
    exact rstrip_blanks (ini ++ [l]) ';' j (by decide)

theorem cleanTok_text {t : Str} (h : TextOk t) (semi : Bool) (j : Nat) :
    cleanTok (t ++ (if semi then [';'] else []) ++ List.replicate j ' ') = t := by
  have h0 : strip t = t := by simpa using strip_text h [] 0 (Or.inl rfl)
  unfold cleanTok
  cases semi with
  | true =>
    simp only [if_true]
    rw [strip_text h [';'] j (Or.inr rfl)]
    simp [h0]
  | false =>
    have := strip_text h [] j (Or.inl rfl)
    simp only [List.append_nil] at this
    simp only [Bool.false_eq_true, if_false, List.append_nil, this]
    obtain ⟨ini, l, hl, -, hls⟩ := h.last
    have : t.getLast? ≠ some ';' := by
      rw [hl]; simp; exact hls
    simp [this, h0]

/-! ### round trip -/

theorem allWs_append {a b : Str} (ha : AllWs a) (hb : AllWs b) : AllWs (a ++ b) := by
  intro c hc; rcases List.mem_append.mp hc with h | h
  · exact ha c h
  · exact hb c h

theorem parses_congr {s s' : Str} {items : List Item} {r : Str} (h : nextTok s = nextTok s')
    (hl : s'.length ≤ s.length) (hp : Parses s' items r) : Parses s items r := by
  intro f hf
  rw [parseItems_congr h]
  exact hp f (by omega)

/-- blanks after a statement text belong to its token; the first line break ends it -/
theorem absorb {w : Str} (hw : AllWs w) (c : Char) (Y : Str) (hc : isRunChar c = false) :
    ∃ j Z, w ++ c :: Y = List.replicate j ' ' ++ Z ∧ (∀ x ∈ Z.head?, isRunChar x = false) ∧
      nextTok Z = nextTok (c :: Y) ∧ (c :: Y).length ≤ Z.length := by
  induction w with
  | nil => exact ⟨0, c :: Y, by simp, by simpa using hc, rfl, Nat.le_refl _⟩
  | cons a w ih =>
    have hw' : AllWs w := fun x hx => hw x (by simp [hx])
    rcases hw a (by simp) with ha | ha
    · obtain ⟨j, Z, h1, h2, h3, h4⟩ := ih hw'
      exact ⟨j + 1, Z, by simp [ha, List.replicate_succ, h1], h2, h3, h4⟩
    · refine ⟨0, a :: w ++ c :: Y, by simp, ?_, ?_, by simp; omega⟩
      · simpa using ws_not_run ha
      · exact nextTok_ws (w := a :: w) hw (c :: Y)

/-- the continuation of the last statement of a block: white space, then the closing brace -/
def EndsBlock (k : Str) : Prop := ∃ w k', k = w ++ '}' :: k' ∧ AllWs w

theorem endsBlock_parses {w k' : Str} (hw : AllWs w) {items : List Item} {r : Str}
    (h : Parses (w ++ '}' :: k') items r) : items = [] ∧ r = k' := by
  have h1 := h ((w ++ '}' :: k').length + 1) (by omega)
  have h2 := parses_ws hw (parses_close k') ((w ++ '}' :: k').length + 1) (by omega)
  rw [h1] at h2
  injection h2 with h2
  injection h2 with h3 h4
  exact ⟨h3, h4⟩

/-- one statement text with what follows it is one token whose cleaned form is the text -/
theorem text_token {t : Str} (ht : TextOk t) (semi : Bool) {w : Str} (hw : AllWs w) (c : Char) (Y : Str)
    (hc : isRunChar c = false) {items : List Item} {r : Str} (hp : Parses (c :: Y) items r) :
    ∃ T, Parses (t ++ ((if semi then [';'] else []) ++ (w ++ c :: Y))) (.tok T :: items) r ∧ cleanTok T = t := by
  obtain ⟨j, Z, h1, h2, h3, h4⟩ := absorb hw c Y hc
  obtain ⟨a, t', rfl, ha, hq, hb⟩ := ht.head
  let tail := t' ++ (if semi then [';'] else []) ++ List.replicate j ' '
  refine ⟨a :: tail, ?_, ?_⟩
  · have hs : (a :: t') ++ ((if semi then [';'] else []) ++ (w ++ c :: Y)) = a :: tail ++ Z := by
      rw [h1]; simp [tail]
    rw [hs]
    refine parses_text (nextTok_text a tail Z ha hq hb ?_ h2) (by simp; omega) (parses_congr h3 h4 hp)
    intro x hx
    simp only [tail, List.mem_append, List.mem_replicate] at hx
    rcases hx with (hx | hx) | hx
    · exact ht.run x (by simp [hx])
    · cases semi <;> simp at hx
      subst hx; decide
    · rw [hx.2]; decide
  · have := cleanTok_text ht semi j
    simpa [tail] using this

theorem unpack_tok (d : Nat) (T : Str) (rest : List Item) :
    unpackList 4 d (.tok T :: rest) = (List.replicate (d * 4) ' ' ++ cleanTok T) :: unpackList 4 d rest := by
  simp [unpackList, unpackItem]

theorem unpack_grp (d : Nat) (g rest : List Item) :
    unpackList 4 d (.grp g :: rest) = unpackList 4 (d + 1) g ++ unpackList 4 d rest := by
  simp [unpackList, unpackItem]

theorem unpack_append (d : Nat) : ∀ (a b : List Item),
    unpackList 4 d (a ++ b) = unpackList 4 d a ++ unpackList 4 d b
  | [], b => by simp [unpackList]
  | x :: a, b => by simp [unpackList, unpack_append d a b]

mutual
theorem stmt_rt (L : Layout) (hL : LayoutOk L) : ∀ (s : Stmt) (p : List Nat) (more : Bool) (k : Str)
    (items : List Item) (r : Str), StmtOk s → (more = false → EndsBlock k) → Parses k items r →
    ∃ its, Parses (renderStmt L p more s ++ k) (its ++ items) r ∧ ∀ d, unpackList 4 d its = flattenStmt d s
  | .node ws cs, p, more, k, items, r, hs, hk, hp => by
    obtain ⟨hpre, hpost, hclose, hafter⟩ := hL p
    have hws : WordsOk ws := by unfold StmtOk at hs; exact hs.1
    have hcs : ListOk cs := by unfold StmtOk at hs; exact hs.2
    have ht := words_textOk hws
    unfold renderStmt
    by_cases hblk : writtenAsBlock (L p) cs = true
    · -- a block
      simp only [hblk, if_true]
      have hkin : EndsBlock ((L p).close ++ '}' :: ((L p).after ++ k)) := ⟨_, _, rfl, hclose⟩
      obtain ⟨g, hg, hgu⟩ := list_rt L hL cs p 0 ((L p).close ++ '}' :: ((L p).after ++ k)) [] ((L p).after ++ k)
        hcs hkin (parses_ws hclose (parses_close _))
      rw [List.append_nil] at hg
      have hY : Parses ('{' :: (renderList L p 0 cs ++ ((L p).close ++ '}' :: ((L p).after ++ k))))
          (.grp g :: items) r :=
        parses_open (nextTok_open _) (by simp) hg (by simp; omega) (parses_ws hafter hp)
      obtain ⟨T, hT, hTc⟩ := text_token ht (L p).semi hpost '{' _ (by decide) hY
      refine ⟨[.tok T, .grp g], ?_, ?_⟩
      · simp only [List.append_assoc, List.cons_append, List.nil_append]
        apply parses_ws hpre
        simpa [List.append_assoc] using hT
      · intro d
        rw [unpack_tok, unpack_grp, hTc, hgu]
        simp [flattenStmt, unpackList, Nat.mul_comm]
    · -- a leaf
      simp only [hblk, Bool.false_eq_true, if_false]
      have hcs0 : cs = [] := by
        cases cs with
        | nil => rfl
        | cons a b => simp [writtenAsBlock] at hblk
      cases more with
      | true =>
        simp only [if_true]
        have hY : Parses ('\n' :: k) items r := parses_ws (w := ['\n']) (by intro c hc; simp at hc; simp [hc]) hp
        obtain ⟨T, hT, hTc⟩ := text_token ht (L p).semi hpost '\n' k (by decide) hY
        refine ⟨[.tok T], ?_, ?_⟩
        · simp only [List.append_assoc, List.cons_append, List.nil_append]
          apply parses_ws hpre
          simpa [List.append_assoc] using hT
        · intro d
          rw [unpack_tok, hTc, hcs0]
          simp [flattenStmt, flattenList, unpackList, Nat.mul_comm]
      | false =>
        simp only [Bool.false_eq_true, if_false, List.append_nil]
        obtain ⟨wk, k', rfl, hwk⟩ := hk rfl
        obtain ⟨rfl, rfl⟩ := endsBlock_parses hwk hp
        obtain ⟨T, hT, hTc⟩ := text_token ht (L p).semi (allWs_append hpost hwk) '}' r (by decide) (parses_close r)
        refine ⟨[.tok T], ?_, ?_⟩
        · simp only [List.append_assoc, List.cons_append, List.nil_append]
          apply parses_ws hpre
          simpa [List.append_assoc] using hT
        · intro d
          rw [unpack_tok, hTc, hcs0]
          simp [flattenStmt, flattenList, unpackList, Nat.mul_comm]
theorem list_rt (L : Layout) (hL : LayoutOk L) : ∀ (ss : List Stmt) (p : List Nat) (i : Nat) (k : Str)
    (items : List Item) (r : Str), ListOk ss → EndsBlock k → Parses k items r →
    ∃ its, Parses (renderList L p i ss ++ k) (its ++ items) r ∧ ∀ d, unpackList 4 d its = flattenList d ss
  | [], p, i, k, items, r, _, _, hp => ⟨[], by simpa [renderList] using hp, by intro d; simp [unpackList, flattenList]⟩
  | s :: ss, p, i, k, items, r, hs, hk, hp => by
    have hs1 : StmtOk s := by unfold ListOk at hs; exact hs.1
    have hs2 : ListOk ss := by unfold ListOk at hs; exact hs.2
    obtain ⟨its2, h2, h2u⟩ := list_rt L hL ss p (i + 1) k items r hs2 hk hp
    have hk2 : (!ss.isEmpty) = false → EndsBlock (renderList L p (i + 1) ss ++ k) := by
      intro h
      cases ss with
      | nil => simpa [renderList] using hk
      | cons a b => simp at h
    obtain ⟨its1, h1, h1u⟩ := stmt_rt L hL s (p ++ [i]) (!ss.isEmpty) _ _ r hs1 hk2 h2
    refine ⟨its1 ++ its2, ?_, ?_⟩
    · unfold renderList
      simpa [List.append_assoc] using h1
    · intro d
      rw [unpack_append, h1u, h2u]; simp [flattenList]
end

/-! ### the wrapper: tab expansion, leading brace -/

theorem expandTabs_notab : ∀ (s : Str) (col : Nat), (∀ x ∈ s, x ≠ '\t') → expandTabsFrom col s = s
  | [], _, _ => rfl
  | c :: cs, col, h => by
    have hc : c ≠ '\t' := h c (by simp)
    have ih := fun col => expandTabs_notab cs col (fun x hx => h x (by simp [hx]))
    unfold expandTabsFrom
    simp only [hc, if_false]
    split <;> simp [ih]

theorem ws_notab {w : Str} (hw : AllWs w) : ∀ x ∈ w, x ≠ '\t' := by
  intro x hx; rcases hw x hx with h | h | h <;> subst h <;> decide

theorem run_notab {x : Char} (h : isRunChar x = true) : x ≠ '\t' := by
  rintro rfl; revert h; decide

mutual
theorem renderStmt_notab (L : Layout) (hL : LayoutOk L) : ∀ (s : Stmt) (p : List Nat) (more : Bool),
    StmtOk s → ∀ x ∈ renderStmt L p more s, x ≠ '\t'
  | .node ws cs, p, more, hs => by
    obtain ⟨hpre, hpost, hclose, hafter⟩ := hL p
    have hws : WordsOk ws := by unfold StmtOk at hs; exact hs.1
    have hcs : ListOk cs := by unfold StmtOk at hs; exact hs.2
    have ht := words_textOk hws
    have ih := renderList_notab L hL cs p 0 hcs
    intro x hx
    unfold renderStmt at hx
    simp only [List.mem_append] at hx
    rcases hx with hx | hx | hx | hx | hx
    · exact ws_notab hpre x hx
    · exact run_notab (ht.run x hx)
    · cases h : (L p).semi <;> simp [h] at hx
      subst hx; decide
    · exact ws_notab hpost x hx
    · split at hx
      · simp only [List.mem_append, List.mem_cons] at hx
        rcases hx with hx | hx | hx | hx | hx
        · subst hx; decide
        · exact ih x hx
        · exact ws_notab hclose x hx
        · subst hx; decide
        · exact ws_notab hafter x hx
      · split at hx
        · have : x = '\n' := by simpa using hx
          subst this; decide
        · simp at hx
theorem renderList_notab (L : Layout) (hL : LayoutOk L) : ∀ (ss : List Stmt) (p : List Nat) (i : Nat),
    ListOk ss → ∀ x ∈ renderList L p i ss, x ≠ '\t'
  | [], _, _, _ => by simp [renderList]
  | s :: ss, p, i, hs => by
    have hs1 : StmtOk s := by unfold ListOk at hs; exact hs.1
    have hs2 : ListOk ss := by unfold ListOk at hs; exact hs.2
    intro x hx
    unfold renderList at hx
    rcases List.mem_append.mp hx with hx | hx
    · exact renderStmt_notab L hL s _ _ hs1 x hx
    · exact renderList_notab L hL ss p (i + 1) hs2 x hx
end

theorem head_ws_text {pre : Str} (hpre : AllWs pre) (c : Char) (hb : c ≠ '{' ∧ c ≠ '}') (rest : Str) :
    ∀ x ∈ (pre ++ c :: rest).head?, x ≠ '{' ∧ x ≠ '}' := by
  intro x hx
  cases pre with
  | nil =>
    have : x = c := by simpa using hx.symm
    subst this; exact hb
  | cons a w =>
    have : x = a := by simpa using hx.symm
    subst this
    rcases hpre x (by simp) with h | h | h <;> subst h <;> decide

theorem render_head (L : Layout) (hL : LayoutOk L) (T : List Stmt) (hT : ListOk T) :
    ∀ x ∈ (render L T).head?, x ≠ '{' ∧ x ≠ '}' := by
  cases T with
  | nil => simp [render, renderList]
  | cons s ss =>
    cases s with
    | node ws cs =>
      have hs1 : StmtOk (.node ws cs) := by unfold ListOk at hT; exact hT.1
      have hws : WordsOk ws := by unfold StmtOk at hs1; exact hs1.1
      obtain ⟨c, t', htx, -, -, hb⟩ := (words_textOk hws).head
      have hpre := (hL [0]).1
      have := head_ws_text hpre c hb
      simp only [render, renderList, renderStmt, htx, List.nil_append, List.append_assoc, List.cons_append]
      exact this _

theorem braceText_of_head (stop : Nat) (txt : Str) (h : ∀ x ∈ txt.head?, x ≠ '{' ∧ x ≠ '}') :
    braceText stop txt =
      match parseItems ((expandTabsFrom 1 (txt ++ ['}'])).length + 1) (expandTabsFrom 1 (txt ++ ['}'])) with
      | .ok (items, _) => .ok (unpackList stop 0 items)
      | .error e => .error e := by
  unfold braceText
  split
  · exact absurd rfl (h '{' (by simp)).1
  · exact absurd rfl (h '}' (by simp)).2
  · rfl

theorem braceText_render (L : Layout) (hL : LayoutOk L) (T : List Stmt) (hT : ListOk T) :
    braceText 4 (render L T) = .ok (flatten T) := by
  rw [braceText_of_head 4 _ (render_head L hL T hT)]
  have hnt : ∀ x ∈ render L T ++ ['}'], x ≠ '\t' := by
    intro x hx
    rcases List.mem_append.mp hx with hx | hx
    · exact renderList_notab L hL T [] 0 hT x hx
    · have : x = '}' := by simpa using hx
      subst this; decide
  rw [expandTabs_notab _ 1 hnt]
  obtain ⟨its, hp, hu⟩ := list_rt L hL T [] 0 ['}'] [] [] hT ⟨[], [], rfl, by intro c hc; simp at hc⟩
    (parses_close [])
  have := hp ((renderList L [] 0 T ++ ['}']).length + 1) (by omega)
  unfold render
  rw [this]
  simp [hu, flatten]

/-! ### the indentation parent of a flattened tree -/

mutual
def depthsStmt (d : Nat) : Stmt → List Nat
  | .node _ cs => d :: depthsList (d + 1) cs
def depthsList (d : Nat) : List Stmt → List Nat
  | [] => []
  | s :: ss => depthsStmt d s ++ depthsList d ss
end

theorem indent_line {t : Str} (ht : TextOk t) (n : Nat) : indent (List.replicate n ' ' ++ t) = n := by
  obtain ⟨c, t', rfl, hc, -, -⟩ := ht.head
  have h : ∀ n, lstrip (List.replicate n ' ' ++ c :: t') = c :: t' := by
    intro n
    induction n with
    | zero => simpa using lstrip_cons_printable t' hc
    | succ n ih =>
      have hs : isSpace ' ' = true := by decide
      simpa [lstrip, List.replicate_succ, hs] using ih
  simp only [indent, h n]
  simp

mutual
theorem indents_stmt : ∀ (s : Stmt) (d : Nat), StmtOk s →
    (flattenStmt d s).map indent = (depthsStmt d s).map (4 * ·)
  | .node ws cs, d, hs => by
    have hws : WordsOk ws := by unfold StmtOk at hs; exact hs.1
    have hcs : ListOk cs := by unfold StmtOk at hs; exact hs.2
    simp [flattenStmt, depthsStmt, indent_line (words_textOk hws), indents_list cs (d + 1) hcs]
theorem indents_list : ∀ (ss : List Stmt) (d : Nat), ListOk ss →
    (flattenList d ss).map indent = (depthsList d ss).map (4 * ·)
  | [], _, _ => by simp [flattenList, depthsList]
  | s :: ss, d, hs => by
    have hs1 : StmtOk s := by unfold ListOk at hs; exact hs.1
    have hs2 : ListOk ss := by unfold ListOk at hs; exact hs.2
    simp [flattenList, depthsList, indents_stmt s d hs1, indents_list ss d hs2]
end

mutual
theorem depths_stmt_ge : ∀ (s : Stmt) (d : Nat), ∀ x ∈ depthsStmt d s, d ≤ x
  | .node _ cs, d => by
    intro x hx
    simp only [depthsStmt, List.mem_cons] at hx
    rcases hx with rfl | hx
    · exact Nat.le_refl _
    · have := depths_list_ge cs (d + 1) x hx; omega
theorem depths_list_ge : ∀ (ss : List Stmt) (d : Nat), ∀ x ∈ depthsList d ss, d ≤ x
  | [], _ => by simp [depthsList]
  | s :: ss, d => by
    intro x hx
    simp only [depthsList, List.mem_append] at hx
    rcases hx with hx | hx
    · exact depths_stmt_ge s d x hx
    · exact depths_list_ge ss d x hx
end

mutual
theorem depths_stmt_length : ∀ (s : Stmt) (d : Nat), (depthsStmt d s).length = sizeStmt s
  | .node _ cs, d => by simp [depthsStmt, sizeStmt, depths_list_length cs (d + 1)]; omega
theorem depths_list_length : ∀ (ss : List Stmt) (d : Nat), (depthsList d ss).length = sizeList ss
  | [], _ => by simp [depthsList, sizeList]
  | s :: ss, d => by simp [depthsList, sizeList, depths_stmt_length s d, depths_list_length ss d]
end

theorem lastSmaller_append_ge (x : Nat) : ∀ (a b : List Nat), (∀ y ∈ b, x ≤ y) →
    lastSmaller x (a ++ b) = lastSmaller x a
  | a, [], _ => by simp
  | [], y :: b, h => by
    have h1 := lastSmaller_append_ge x [] b (fun z hz => h z (by simp [hz]))
    have hy := h y (by simp)
    simp only [List.nil_append] at h1 ⊢
    simp [lastSmaller, h1, Nat.not_lt.mpr hy]
  | c :: a, b, h => by
    simp [lastSmaller, lastSmaller_append_ge x a b h]

theorem lastSmaller_snoc_lt (x y : Nat) (a : List Nat) (h : y < x) :
    lastSmaller x (a ++ [y]) = some a.length := by
  induction a with
  | nil => simp [lastSmaller, h]
  | cons c a ih => simp [lastSmaller, ih]

mutual
theorem parents_stmt : ∀ (s : Stmt) (d : Nat) (pre rest : List Nat) (par : Option Nat),
    lastSmaller (4 * d) pre = par →
    parentsFrom pre ((depthsStmt d s).map (4 * ·) ++ rest) =
      treeParentsStmt pre.length par s ++ parentsFrom (pre ++ (depthsStmt d s).map (4 * ·)) rest
  | .node _ cs, d, pre, rest, par, h => by
    have ih := parents_list cs (d + 1) (pre ++ [4 * d]) rest (some pre.length)
      (lastSmaller_snoc_lt _ _ pre (by omega))
    simp only [depthsStmt, List.map_cons, List.cons_append, parentsFrom, h, treeParentsStmt]
    rw [ih]
    simp
theorem parents_list : ∀ (ss : List Stmt) (d : Nat) (pre rest : List Nat) (par : Option Nat),
    lastSmaller (4 * d) pre = par →
    parentsFrom pre ((depthsList d ss).map (4 * ·) ++ rest) =
      treeParentsList pre.length par ss ++ parentsFrom (pre ++ (depthsList d ss).map (4 * ·)) rest
  | [], _, _, _, _, _ => by simp [depthsList, treeParentsList]
  | s :: ss, d, pre, rest, par, h => by
    have h2 : lastSmaller (4 * d) (pre ++ (depthsStmt d s).map (4 * ·)) = par := by
      rw [lastSmaller_append_ge _ _ _ ?_, h]
      intro y hy
      obtain ⟨z, hz, rfl⟩ := List.mem_map.mp hy
      have := depths_stmt_ge s d z hz
      omega
    have e1 := parents_stmt s d pre ((depthsList d ss).map (4 * ·) ++ rest) par h
    have e2 := parents_list ss d (pre ++ (depthsStmt d s).map (4 * ·)) rest par h2
    simp only [depthsList, List.map_append, List.append_assoc, treeParentsList]
    rw [e1, e2]
    simp [depths_stmt_length]
end

theorem indentParents_flatten (T : List Stmt) (hT : ListOk T) : indentParents (flatten T) = treeParents T := by
  unfold indentParents flatten treeParents
  rw [indents_list T 0 hT]
  have := parents_list T 0 [] [] none rfl
  simpa [parentsFrom] using this

/-! ### a missing closing brace -/

/-- brace depth after reading the text from depth `n`; `none` when a closing brace
arrives at depth 0 -/
def bal : Nat → Str → Option Nat
  | n, [] => some n
  | n, c :: cs =>
    if c = '{' then bal (n + 1) cs
    else if c = '}' then (match n with | 0 => none | m + 1 => bal m cs)
    else bal n cs

def NoBrace (x : Str) : Prop := ∀ c ∈ x, c ≠ '{' ∧ c ≠ '}'

theorem bal_skip {x : Str} (hx : NoBrace x) (n : Nat) (y : Str) : bal n (x ++ y) = bal n y := by
  induction x with
  | nil => rfl
  | cons c x ih =>
    have hc := hx c (by simp)
    simp only [List.cons_append, bal, hc.1, hc.2, if_false]
    exact ih (fun z hz => hx z (by simp [hz]))

theorem bal_nobrace {x : Str} (hx : NoBrace x) (n : Nat) : bal n x = some n := by
  simpa [bal] using bal_skip hx n []

theorem bal_append : ∀ (x y : Str) (n : Nat), bal n (x ++ y) = (bal n x).bind (fun m => bal m y)
  | [], y, n => by simp [bal]
  | c :: x, y, n => by
    simp only [List.cons_append, bal]
    split
    · exact bal_append x y (n + 1)
    · split
      · cases n with
        | zero => simp
        | succ m => exact bal_append x y m
      · exact bal_append x y n

theorem bal_shift : ∀ (s : Str) (n m : Nat), bal n s = some m → bal (n + 1) s = some (m + 1)
  | [], n, m, h => by simp [bal] at h ⊢; omega
  | c :: s, n, m, h => by
    simp only [bal] at h ⊢
    split
    · rename_i hc; simp only [hc, if_true] at h; exact bal_shift s (n + 1) m h
    · rename_i hc
      simp only [hc, if_false] at h
      split
      · rename_i hc2
        simp only [hc2, if_true] at h
        cases n with
        | zero => simp at h
        | succ k => exact bal_shift s k m h
      · rename_i hc2
        simp only [hc2, if_false] at h
        exact bal_shift s n m h

theorem ws_nobrace {w : Str} (hw : AllWs w) : NoBrace w := by
  intro c hc; rcases hw c hc with h | h | h <;> subst h <;> decide

theorem mem_takeWhile_true (p : Char → Bool) : ∀ (l : Str) (c : Char), c ∈ l.takeWhile p → p c = true
  | [], _, h => by simp at h
  | a :: l, c, h => by
    by_cases ha : p a = true
    · simp only [List.takeWhile_cons, ha, if_true, List.mem_cons] at h
      rcases h with rfl | h
      · exact ha
      · exact mem_takeWhile_true p l c h
    · simp [ha] at h

theorem skip_nobrace (s : Str) : NoBrace (s.takeWhile isSkip) := by
  intro c hc
  have := mem_takeWhile_true _ _ _ hc
  constructor <;> (rintro rfl; revert this; decide)

theorem run_nobrace (s : Str) : NoBrace (s.takeWhile isRunChar) := by
  intro c hc
  have := mem_takeWhile_true _ _ _ hc
  constructor <;> (rintro rfl; revert this; decide)

def NoQuote (s : Str) : Prop := ∀ c ∈ s, c ≠ '"' ∧ c ≠ '\''

/-- without quote characters the tokenizer splits the input at braces only -/
theorem nextTok_split {s : Str} (hq : NoQuote s) :
    match nextTok s with
    | .bad => True
    | .close r => ∃ sk, s = sk ++ '}' :: r ∧ NoBrace sk
    | .opn r => ∃ sk, s = sk ++ '{' :: r ∧ NoBrace sk
    | .text t r => ∃ sk, s = sk ++ (t ++ r) ∧ NoBrace sk ∧ NoBrace t := by
  have hs : s = s.takeWhile isSkip ++ s.dropWhile isSkip := (List.takeWhile_append_dropWhile).symm
  have hsk := skip_nobrace s
  unfold nextTok
  generalize hu : s.dropWhile isSkip = u at hs
  cases u with
  | nil => simp [lexHead]
  | cons c cs =>
    have hc : c ≠ '"' ∧ c ≠ '\'' := hq c (by rw [hs]; simp)
    have hl : lexHead (c :: cs) =
        if c = '{' then Lex.opn cs else if c = '}' then Lex.close cs
        else if isRunChar c then Lex.text ((c :: cs).takeWhile isRunChar) ((c :: cs).dropWhile isRunChar)
        else Lex.bad := by
      simp [lexHead, hc.1, hc.2]
    rw [hl]
    by_cases h1 : c = '{'
    · subst h1; simp only [if_true]; exact ⟨_, hs, hsk⟩
    · by_cases h2 : c = '}'
      · subst h2; simp only [h1, if_false, if_true]; exact ⟨_, hs, hsk⟩
      · by_cases h3 : isRunChar c = true
        · simp only [h1, h2, h3, if_false, if_true]
          refine ⟨_, ?_, hsk, run_nobrace _⟩
          rw [List.takeWhile_append_dropWhile]; exact hs
        · simp [h1, h2, h3]

theorem noQuote_suffix {a b : Str} (h : NoQuote (a ++ b)) : NoQuote b :=
  fun c hc => h c (by simp [hc])

/-- without quote characters a successful group parse has consumed a balanced text and
the closing brace -/
theorem parseItems_balanced : ∀ (f : Nat) (s : Str) (items : List Item) (r : Str), NoQuote s →
    parseItems f s = .ok (items, r) → ∃ c, s = c ++ '}' :: r ∧ bal 0 c = some 0
  | 0, _, _, _, _, h => by simp [parseItems] at h
  | f + 1, s, items, r, hq, h => by
    have hsplit := nextTok_split hq
    unfold parseItems at h
    cases ht : nextTok s with
    | bad => simp [ht] at h
    | close r0 =>
      simp only [ht] at h hsplit
      obtain ⟨sk, hs, hsk⟩ := hsplit
      have : r0 = r := by injection h with h; injection h
      subst this
      exact ⟨sk, hs, bal_nobrace hsk 0⟩
    | text t r0 =>
      simp only [ht] at h hsplit
      obtain ⟨sk, hs, hsk, htk⟩ := hsplit
      cases h1 : parseItems f r0 with
      | error e => simp [h1] at h
      | ok v =>
        obtain ⟨its, r1⟩ := v
        simp only [h1] at h
        have : r1 = r := by injection h with h; injection h
        subst this
        have hq0 : NoQuote r0 := by
          rw [hs] at hq; exact noQuote_suffix (noQuote_suffix hq)
        obtain ⟨c1, hc1, hb1⟩ := parseItems_balanced f r0 its r1 hq0 h1
        refine ⟨sk ++ (t ++ c1), by rw [hs, hc1]; simp, ?_⟩
        rw [bal_skip hsk, bal_skip htk]; exact hb1
    | opn r0 =>
      simp only [ht] at h hsplit
      obtain ⟨sk, hs, hsk⟩ := hsplit
      cases h1 : parseItems f r0 with
      | error e => simp [h1] at h
      | ok v =>
        obtain ⟨g, r1⟩ := v
        simp only [h1] at h
        cases h2 : parseItems f r1 with
        | error e => simp [h2] at h
        | ok v2 =>
          obtain ⟨its, r2⟩ := v2
          simp only [h2] at h
          have : r2 = r := by injection h with h; injection h
          subst this
          have hq0 : NoQuote r0 := by
            rw [hs] at hq; exact noQuote_suffix (b := r0) (a := sk ++ ['{']) (by simpa using hq)
          obtain ⟨c1, hc1, hb1⟩ := parseItems_balanced f r0 g r1 hq0 h1
          have hq1 : NoQuote r1 := by
            rw [hc1] at hq0; exact noQuote_suffix (b := r1) (a := c1 ++ ['}']) (by simpa using hq0)
          obtain ⟨c2, hc2, hb2⟩ := parseItems_balanced f r1 its r2 hq1 h2
          refine ⟨sk ++ '{' :: (c1 ++ '}' :: c2), by rw [hs, hc1, hc2]; simp, ?_⟩
          rw [bal_skip hsk]
          have e1 : bal 1 c1 = some 1 := bal_shift c1 0 0 hb1
          simp only [bal, if_true]
          rw [bal_append, e1]
          simp [bal, hb2]

mutual
theorem renderStmt_bal (L : Layout) (hL : LayoutOk L) : ∀ (s : Stmt) (p : List Nat) (more : Bool),
    StmtOk s → ∀ (n : Nat) (k : Str), bal n (renderStmt L p more s ++ k) = bal n k
  | .node ws cs, p, more, hs => by
    obtain ⟨hpre, hpost, hclose, hafter⟩ := hL p
    have hws : WordsOk ws := by unfold StmtOk at hs; exact hs.1
    have hcs : ListOk cs := by unfold StmtOk at hs; exact hs.2
    have ht := words_textOk hws
    have ih := renderList_bal L hL cs p 0 hcs
    have hsemi : NoBrace (if (L p).semi then [';'] else []) := by
      intro c hc; cases h : (L p).semi <;> simp [h] at hc
      subst hc; decide
    intro n k
    unfold renderStmt
    simp only [List.append_assoc]
    rw [bal_skip (ws_nobrace hpre), bal_skip ht.nobrace, bal_skip hsemi, bal_skip (ws_nobrace hpost)]
    split
    · simp only [List.cons_append, List.append_assoc, bal, if_true]
      rw [ih, bal_skip (ws_nobrace hclose)]
      simp only [bal, if_true]
      have : ¬ ('}' = '{') := by decide
      simp only [this, if_false]
      exact bal_skip (ws_nobrace hafter) n k
    · split
      · exact bal_skip (x := ['\n']) (by intro c hc; simp at hc; subst hc; decide) n k
      · rfl
theorem renderList_bal (L : Layout) (hL : LayoutOk L) : ∀ (ss : List Stmt) (p : List Nat) (i : Nat),
    ListOk ss → ∀ (n : Nat) (k : Str), bal n (renderList L p i ss ++ k) = bal n k
  | [], _, _, _ => by simp [renderList]
  | s :: ss, p, i, hs => by
    have hs1 : StmtOk s := by unfold ListOk at hs; exact hs.1
    have hs2 : ListOk ss := by unfold ListOk at hs; exact hs.2
    intro n k
    unfold renderList
    rw [List.append_assoc, renderStmt_bal L hL s _ _ hs1, renderList_bal L hL ss p (i + 1) hs2]
end

/-- the text with one closing brace removed leaves the outermost group open -/
theorem bal_delete {a b : Str} (h : bal 0 (a ++ '}' :: b) = some 0) : bal 0 (a ++ b) = some 1 := by
  rw [bal_append] at h
  rw [bal_append]
  cases ha : bal 0 a with
  | none => simp [ha] at h
  | some m =>
    simp only [ha, Option.bind_some] at h ⊢
    have : ¬ ('}' = '{') := by decide
    simp only [bal, this, if_false, if_true] at h
    cases m with
    | zero => simp at h
    | succ m => exact bal_shift b m 0 h

theorem parseItems_err : ∀ (f : Nat) (s : Str) (e : Err), parseItems f s = .error e → e = .parseException
  | 0, _, e, h => by simp [parseItems] at h; exact h.symm
  | f + 1, s, e, h => by
    unfold parseItems at h
    cases ht : nextTok s with
    | bad => simp [ht] at h; exact h.symm
    | close r0 => simp [ht] at h
    | text t r0 =>
      simp only [ht] at h
      cases h1 : parseItems f r0 with
      | error e1 =>
        simp only [h1] at h
        have := parseItems_err f r0 e1 h1
        injection h with h; rw [← h, this]
      | ok v => obtain ⟨a, b⟩ := v; simp [h1] at h
    | opn r0 =>
      simp only [ht] at h
      cases h1 : parseItems f r0 with
      | error e1 =>
        simp only [h1] at h
        have := parseItems_err f r0 e1 h1
        injection h with h; rw [← h, this]
      | ok v =>
        obtain ⟨g, r1⟩ := v
        simp only [h1] at h
        cases h2 : parseItems f r1 with
        | error e2 =>
          simp only [h2] at h
          have := parseItems_err f r1 e2 h2
          injection h with h; rw [← h, this]
        | ok v2 => obtain ⟨a, b⟩ := v2; simp [h2] at h

theorem braceText_missing_close (stop : Nat) (a b : Str) (hbal : bal 0 (a ++ '}' :: b) = some 0)
    (hq : NoQuote (a ++ b)) (hnt : ∀ x ∈ a ++ b, x ≠ '\t')
    (hhead : ∀ x ∈ (a ++ b).head?, x ≠ '{' ∧ x ≠ '}') :
    braceText stop (a ++ b) = .error .parseException := by
  rw [braceText_of_head stop _ hhead]
  · have hnt' : ∀ x ∈ (a ++ b) ++ ['}'], x ≠ '\t' := by
      intro x hx
      rcases List.mem_append.mp hx with hx | hx
      · exact hnt x hx
      · have : x = '}' := by simpa using hx
        subst this; decide
    simp only [expandTabs_notab _ 1 hnt']
    cases hp : parseItems ((a ++ b ++ ['}']).length + 1) (a ++ b ++ ['}']) with
    | error e => simp only; rw [parseItems_err _ _ e hp]
    | ok v =>
      exfalso
      obtain ⟨items, r⟩ := v
      have hq' : NoQuote (a ++ b ++ ['}']) := by
        intro c hc
        rcases List.mem_append.mp hc with hc | hc
        · exact hq c hc
        · have : c = '}' := by simpa using hc
          subst this; decide
      obtain ⟨c, hc, hb⟩ := parseItems_balanced _ _ items r hq' hp
      have h1 := bal_delete hbal
      rcases List.eq_nil_or_concat r with rfl | ⟨r', z, rfl⟩
      · have : c = a ++ b := by
          have := List.append_inj' (hc.symm) rfl
          exact this.1
        rw [this, h1] at hb
        simp at hb
      · have h2 : (a ++ b) ++ ['}'] = (c ++ '}' :: r') ++ [z] := by rw [hc]; simp
        have := (List.append_inj' h2 rfl).1
        rw [this, bal_append, hb] at h1
        simp [bal] at h1

end Ccp.Brace
