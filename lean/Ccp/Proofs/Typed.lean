import Ccp.Model.Typed
import Ccp.Proofs.TreeForest
/-!
Helper lemmas for C05: the three loops of the typed extraction helpers as
"first match" / "filter then map" over the visited list.
-/
deriving instance DecidableEq for Except

namespace Ccp.Typed
open Ccp.Py Ccp.Tree

/-! ### first match of a list -/

/-- every list either has a first element satisfying `p` or none at all -/
theorem first_cases (p : Nat → Bool) (l : List Nat) :
    (∃ pre j post, l = pre ++ j :: post ∧ (∀ k ∈ pre, p k = false) ∧ p j = true) ∨
    (∀ k ∈ l, p k = false) := by
  induction l with
  | nil => right; intro k hk; cases hk
  | cons a l ih =>
    cases hpa : p a with
    | true => left; exact ⟨[], a, l, rfl, by simp, hpa⟩
    | false =>
      rcases ih with ⟨pre, j, post, hl, hpre, hj⟩ | hnone
      · left
        refine ⟨a :: pre, j, post, by rw [hl]; rfl, ?_, hj⟩
        intro k hk
        rcases List.mem_cons.mp hk with rfl | hk
        · exact hpa
        · exact hpre k hk
      · right
        intro k hk
        rcases List.mem_cons.mp hk with rfl | hk
        · exact hpa
        · exact hnone k hk

/-- the first element satisfying `p` is unique: two decompositions coincide -/
theorem first_unique (p : Nat → Bool) {pre pre' post post' : List Nat} {j j' : Nat}
    (h : pre ++ j :: post = pre' ++ j' :: post')
    (hpre : ∀ k ∈ pre, p k = false) (hj : p j = true)
    (hpre' : ∀ k ∈ pre', p k = false) (hj' : p j' = true) : pre = pre' ∧ j = j' ∧ post = post' := by
  induction pre generalizing pre' with
  | nil =>
    cases pre' with
    | nil => simp at h; exact ⟨rfl, h.1, h.2⟩
    | cons a pre' =>
      simp at h
      have := hpre' a (List.mem_cons_self ..)
      rw [← h.1, hj] at this; cases this
  | cons a pre ih =>
    cases pre' with
    | nil =>
      simp at h
      have := hpre a (List.mem_cons_self ..)
      rw [h.1, hj'] at this; cases this
    | cons b pre' =>
      simp at h
      obtain ⟨hab, hrest⟩ := h
      have := ih (pre' := pre') hrest (fun k hk => hpre k (List.mem_cons_of_mem _ hk))
        (fun k hk => hpre' k (List.mem_cons_of_mem _ hk))
      exact ⟨by rw [hab, this.1], this.2⟩

/-! ### `firstLoop` -/

theorem firstLoop_split (c : Ctx) (ty : Ty) (pre post : List Nat) (j : Nat)
    (hpre : ∀ k ∈ pre, matched (c.at k) = false) (hj : matched (c.at j) = true) :
    firstLoop c ty (pre ++ j :: post) = some (convGroup c.ip ty (c.at j)) := by
  induction pre with
  | nil => simp [firstLoop, hj]
  | cons a pre ih =>
    have ha := hpre a (List.mem_cons_self ..)
    simp only [List.cons_append, firstLoop, ha]
    exact ih (fun k hk => hpre k (List.mem_cons_of_mem _ hk))

theorem firstLoop_none (c : Ctx) (ty : Ty) (l : List Nat)
    (h : ∀ k ∈ l, matched (c.at k) = false) : firstLoop c ty l = none := by
  induction l with
  | nil => rfl
  | cons a l ih =>
    have ha := h a (List.mem_cons_self ..)
    simp only [firstLoop, ha]
    exact ih (fun k hk => h k (List.mem_cons_of_mem _ hk))

/-- `re_match_iter_typed` is the first-match loop over `order`, else the default -/
theorem iter_eq_firstLoop (c : Ctx) (i : Nat) (ty : Ty) (d : Arg) (u r : Bool) :
    reMatchIterTyped c i ty d u r =
      match firstLoop c ty (order c.t i r) with
      | some x => x
      | none => typedDefault c ty d u := by
  unfold reMatchIterTyped order
  cases hm : matched (c.at i) with
  | true => simp [firstLoop, hm]
  | false =>
    cases r
    · simp [firstLoop, hm]
      cases firstLoop c ty (children c.t i) <;> rfl
    · simp [firstLoop, hm]
      cases firstLoop c ty (allChildren c.t i) <;> rfl

/-! ### the root loop -/

theorem rootLoop_eq (c : Ctx) (ty : Ty) (l : List Nat) :
    rootLoop c ty l = firstLoop c ty (l.filter (fun j => parentOf c.t j == j)) := by
  induction l with
  | nil => rfl
  | cons a l ih =>
    by_cases hr : parentOf c.t a = a
    · have hf : (parentOf c.t a == a) = true := by simp [hr]
      have hn : (parentOf c.t a != a) = false := by simp [hr]
      simp only [rootLoop, hn, List.filter_cons, hf, ih]
      rfl
    · have hf : (parentOf c.t a == a) = false := by simp [hr]
      have hn : (parentOf c.t a != a) = true := by simp [hr]
      simp only [rootLoop, hn, List.filter_cons, hf, ih]
      rfl

theorem root_eq_firstLoop (c : Ctx) (ty : Ty) (d : Arg) (u : Bool) :
    rootIterTyped c ty d u =
      match firstLoop c ty (roots c.t) with
      | some x => x
      | none => typedDefault c ty d u := by
  unfold rootIterTyped roots
  rw [rootLoop_eq]
  cases firstLoop c ty (List.filter (fun j => parentOf c.t j == j) (List.range c.t.size)) <;> rfl

/-! ### the list loop -/

theorem mapE_eq_mapM {α β ε : Type} (f : α → Except ε β) (l : List α) : mapE f l = l.mapM f := by
  induction l with
  | nil => rfl
  | cons a l ih =>
    rw [List.mapM_cons, mapE, ih]
    cases f a with
    | error e => rfl
    | ok b =>
      cases l.mapM f with
      | error e => rfl
      | ok bs => rfl

theorem listLoop_eq (c : Ctx) (ty : Ty) (l : List Nat) :
    listLoop c ty l =
      mapE (fun j => convGroup c.ip ty (c.at j)) (l.filter (fun j => matched (c.at j))) := by
  induction l with
  | nil => rfl
  | cons a l ih =>
    cases hm : matched (c.at a) with
    | true =>
      simp [listLoop, hm, mapE, ih]
      cases convGroup c.ip ty (c.at a) with
      | error e => rfl
      | ok v =>
        cases mapE (fun j => convGroup c.ip ty (c.at j)) (List.filter (fun j => matched (c.at j)) l) <;> rfl
    | false => simp [listLoop, hm, ih]

theorem mapE_congr {α β ε : Type} (f g : α → Except ε β) (l : List α) (h : ∀ a ∈ l, f a = g a) :
    mapE f l = mapE g l := by
  induction l with
  | nil => rfl
  | cons a l ih =>
    simp only [mapE, h a (List.mem_cons_self ..), ih (fun b hb => h b (List.mem_cons_of_mem _ hb))]

theorem mapE_ok_length {α β ε : Type} (f : α → Except ε β) (l : List α) (vs : List β)
    (h : mapE f l = .ok vs) : vs.length = l.length := by
  induction l generalizing vs with
  | nil => simp [mapE] at h; subst h; rfl
  | cons a l ih =>
    simp only [mapE] at h
    split at h
    · cases h
    · split at h
      · cases h
      · rename_i bs hbs
        cases h
        simp [ih bs hbs]

/-! ### the recursive order of a forest: the line, then its descendants in config order -/

/-- specification: line `i`, then every line that has `i` on its ancestor chain, in config order -/
def familyLines (t : T) (i : Nat) : List Nat :=
  i :: (List.range t.size).filter (fun j => decide (i ∈ ancestors t j))

theorem order_eq_familyLines {t : T} (hf : Forest t) (i : Nat) : order t i true = familyLines t i := by
  simp only [order, familyLines, if_true, allChildren_eq_filter hf i]

theorem familyLines_sorted (t : T) (i : Nat) : (familyLines t i).Pairwise (· < ·) := by
  refine List.pairwise_cons.mpr ⟨?_, List.Pairwise.filter _ List.pairwise_lt_range⟩
  intro j hj
  have := (List.mem_filter.mp hj).2
  exact ancestors_lt (by simpa using this)

theorem mem_familyLines {t : T} (hf : Forest t) (i j : Nat) :
    j ∈ familyLines t i ↔ j = i ∨ IsAncestor t i j := by
  simp only [familyLines, List.mem_cons, List.mem_filter, List.mem_range, decide_eq_true_eq]
  constructor
  · rintro (h | ⟨_, h⟩)
    · exact .inl h
    · exact .inr (isAncestor_of_mem h)
  · rintro (h | h)
    · exact .inl h
    · have hm := mem_of_isAncestor hf h
      exact .inr ⟨ancestors_lt_size hf hm, hm⟩

/-- in a forest a line is a root iff its ancestor chain is empty -/
theorem root_iff_no_ancestors {t : T} (hf : Forest t) (j : Nat) : parentOf t j = j ↔ ancestors t j = [] := by
  have hle := parentOf_le_of_forest hf j
  constructor
  · intro h; exact ancestors_of_not_lt (by omega)
  · intro h
    by_cases hp : parentOf t j < j
    · rw [ancestors_of_lt hp] at h; cases h
    · omega

/-! ### groupdict -/

theorem firstSome_split (c : DCtx) (pre post : List Nat) (j : Nat)
    (hpre : ∀ k ∈ pre, c.at k = none) : firstSome c (pre ++ j :: post) =
      match c.at j with
      | some rows => some rows
      | none => firstSome c post := by
  induction pre with
  | nil => rfl
  | cons a pre ih =>
    have ha := hpre a (List.mem_cons_self ..)
    simp only [List.cons_append, firstSome, ha]
    exact ih (fun k hk => hpre k (List.mem_cons_of_mem _ hk))

theorem firstSome_none (c : DCtx) (l : List Nat) (h : ∀ k ∈ l, c.at k = none) : firstSome c l = none := by
  induction l with
  | nil => rfl
  | cons a l ih =>
    simp only [firstSome, h a (List.mem_cons_self ..)]
    exact ih (fun k hk => h k (List.mem_cons_of_mem _ hk))

theorem iterDict_recurse_eq (c : DCtx) (i : Nat) (d : Arg) :
    reMatchIterDict c i d true = typedDict c d (firstSome c (order c.t i true)) := by
  unfold reMatchIterDict order
  simp only [if_true, firstSome]
  cases c.at i <;> simp

/-! ### stale configs -/

theorem rootLoopItems_committed (g : Str → GroupRes) (ip : Arg → Except Err Str) (t : T) (ty : Ty)
    (l : List Str) (n : Nat) (h : t.texts.drop n = l) :
    rootLoopItems g ip t ty ((l.zipIdx n).map (fun p => ({ text := p.1, id := some p.2 } : Edit.Item))) =
      rootLoop { g := g, ip := ip, t := t } ty (List.range' n l.length) := by
  induction l generalizing n with
  | nil => rfl
  | cons a l ih =>
    have hhead : t.texts[n]? = some a := by
      have := congrArg List.head? h
      simpa [List.head?_drop] using this
    have htail : t.texts.drop (n + 1) = l := by
      have := congrArg List.tail h
      simpa [List.tail_drop] using this
    have hat : Ctx.at { g := g, ip := ip, t := t } n = g a := by
      simp [Ctx.at, text, List.getD_eq_getElem?_getD, hhead]
    simp only [List.zipIdx_cons, List.map_cons, rootLoopItems, itemIsRoot, List.length_cons, List.range'_succ,
      rootLoop, hat, ih (n + 1) htail]
    by_cases hr : parentOf t n = n
    · simp [hr]
    · simp [hr]

end Ccp.Typed
