import Ccp.Model.Typed
/-!
Helper lemmas for C05: the three loops of the typed extraction helpers as
"first match" / "filter then map" over the visited list.
-/
deriving instance DecidableEq for Except

namespace Ccp.Typed
open Ccp.Py Ccp.Tree

/-! ### first match of a list -/

/-- every list either has a first element satisfying `p` or none at all -/
theorem first_cases (p : Nat → Bool) (l : List Nat) :
    (∃ pre j post, l = pre ++ j :: post ∧ (∀ k ∈ pre, p k = false) ∧ p j = true) ∨
    (∀ k ∈ l, p k = false) := by
  induction l with
  | nil => right; intro k hk; cases hk
  | cons a l ih =>
    cases hpa : p a with
    | true => left; exact ⟨[], a, l, rfl, by simp, hpa⟩
    | false =>
      rcases ih with ⟨pre, j, post, hl, hpre, hj⟩ | hnone
      · left
        refine ⟨a :: pre, j, post, by rw [hl]; rfl, ?_, hj⟩
        intro k hk
        rcases List.mem_cons.mp hk with rfl | hk
        · exact hpa
        · exact hpre k hk
      · right
        intro k hk
        rcases List.mem_cons.mp hk with rfl | hk
        · exact hpa
        · exact hnone k hk

/-- the first element satisfying `p` is unique: two decompositions coincide -/
theorem first_unique (p : Nat → Bool) {pre pre' post post' : List Nat} {j j' : Nat}
    (h : pre ++ j :: post = pre' ++ j' :: post')
    (hpre : ∀ k ∈ pre, p k = false) (hj : p j = true)
    (hpre' : ∀ k ∈ pre', p k = false) (hj' : p j' = true) : pre = pre' ∧ j = j' ∧ post = post' := by
  induction pre generalizing pre' with
  | nil =>
    cases pre' with
    | nil => simp at h; exact ⟨rfl, h.1, h.2⟩
    | cons a pre' =>
      simp at h
      have := hpre' a (List.mem_cons_self ..)
      rw [← h.1, hj] at this; cases this
  | cons a pre ih =>
    cases pre' with
    | nil =>
      simp at h
      have := hpre a (List.mem_cons_self ..)
      rw [h.1, hj'] at this; cases this
    | cons b pre' =>
      simp at h
      obtain ⟨hab, hrest⟩ := h
      have := ih (pre' := pre') hrest (fun k hk => hpre k (List.mem_cons_of_mem _ hk))
        (fun k hk => hpre' k (List.mem_cons_of_mem _ hk))
      exact ⟨by rw [hab, this.1], this.2⟩

/-! ### `firstLoop` -/

theorem firstLoop_split (c : Ctx) (ty : Ty) (pre post : List Nat) (j : Nat)
    (hpre : ∀ k ∈ pre, matched (c.at k) = false) (hj : matched (c.at j) = true) :
    firstLoop c ty (pre ++ j :: post) = some (convGroup c.ip ty (c.at j)) := by
  induction pre with
  | nil => simp [firstLoop, hj]
  | cons a pre ih =>
    have ha := hpre a (List.mem_cons_self ..)
    simp only [List.cons_append, firstLoop, ha]
    exact ih (fun k hk => hpre k (List.mem_cons_of_mem _ hk))

theorem firstLoop_none (c : Ctx) (ty : Ty) (l : List Nat)
    (h : ∀ k ∈ l, matched (c.at k) = false) : firstLoop c ty l = none := by
  induction l with
  | nil => rfl
  | cons a l ih =>
    have ha := h a (List.mem_cons_self ..)
    simp only [firstLoop, ha]
    exact ih (fun k hk => h k (List.mem_cons_of_mem _ hk))

/-- `re_match_iter_typed` is the first-match loop over `order`, else the default -/
theorem iter_eq_firstLoop (c : Ctx) (i : Nat) (ty : Ty) (d : Arg) (u r : Bool) :
    reMatchIterTyped c i ty d u r =
      match firstLoop c ty (order c.t i r) with
      | some x => x
      | none => typedDefault c ty d u := by
  unfold reMatchIterTyped order
  cases hm : matched (c.at i) with
  | true => simp [firstLoop, hm]
  | false =>
    cases r
    · simp [firstLoop, hm]
      cases firstLoop c ty (children c.t i) <;> rfl
    · simp [firstLoop, hm]
      cases firstLoop c ty (allChildren c.t i) <;> rfl

/-! ### the root loop -/

theorem rootLoop_eq (c : Ctx) (ty : Ty) (l : List Nat) :
    rootLoop c ty l = firstLoop c ty (l.filter (fun j => parentOf c.t j == j)) := by
  induction l with
  | nil => rfl
  | cons a l ih =>
    by_cases hr : parentOf c.t a = a
    · have hf : (parentOf c.t a == a) = true := by simp [hr]
      have hn : (parentOf c.t a != a) = false := by simp [hr]
      simp only [rootLoop, hn, List.filter_cons, hf, ih]
      rfl
    · have hf : (parentOf c.t a == a) = false := by simp [hr]
      have hn : (parentOf c.t a != a) = true := by simp [hr]
      simp only [rootLoop, hn, List.filter_cons, hf, ih]
      rfl

theorem root_eq_firstLoop (c : Ctx) (ty : Ty) (d : Arg) (u : Bool) :
    rootIterTyped c ty d u =
      match firstLoop c ty (roots c.t) with
      | some x => x
      | none => typedDefault c ty d u := by
  unfold rootIterTyped roots
  rw [rootLoop_eq]
  cases firstLoop c ty (List.filter (fun j => parentOf c.t j == j) (List.range c.t.size)) <;> rfl

/-! ### the list loop -/

/-- `mapM` in `Except`, written out (the first failing conversion aborts) -/
def mapE {α β ε : Type} (f : α → Except ε β) : List α → Except ε (List β)
  | [] => .ok []
  | a :: as =>
    match f a with
    | .error e => .error e
    | .ok b =>
      match mapE f as with
      | .error e => .error e
      | .ok bs => .ok (b :: bs)

theorem mapE_eq_mapM {α β ε : Type} (f : α → Except ε β) (l : List α) : mapE f l = l.mapM f := by
  induction l with
  | nil => rfl
  | cons a l ih =>
    rw [List.mapM_cons, mapE, ih]
    cases f a with
    | error e => rfl
    | ok b =>
      cases l.mapM f with
      | error e => rfl
      | ok bs => rfl

theorem listLoop_eq (c : Ctx) (ty : Ty) (l : List Nat) :
    listLoop c ty l =
      mapE (fun j => convGroup c.ip ty (c.at j)) (l.filter (fun j => matched (c.at j))) := by
  induction l with
  | nil => rfl
  | cons a l ih =>
    cases hm : matched (c.at a) with
    | true =>
      simp [listLoop, hm, mapE, ih]
      cases convGroup c.ip ty (c.at a) with
      | error e => rfl
      | ok v =>
        cases mapE (fun j => convGroup c.ip ty (c.at j)) (List.filter (fun j => matched (c.at j)) l) <;> rfl
    | false => simp [listLoop, hm, ih]

theorem mapE_congr {α β ε : Type} (f g : α → Except ε β) (l : List α) (h : ∀ a ∈ l, f a = g a) :
    mapE f l = mapE g l := by
  induction l with
  | nil => rfl
  | cons a l ih =>
    simp only [mapE, h a (List.mem_cons_self ..), ih (fun b hb => h b (List.mem_cons_of_mem _ hb))]

theorem mapE_ok_length {α β ε : Type} (f : α → Except ε β) (l : List α) (vs : List β)
    (h : mapE f l = .ok vs) : vs.length = l.length := by
  induction l generalizing vs with
  | nil => simp [mapE] at h; subst h; rfl
  | cons a l ih =>
    simp only [mapE] at h
    split at h
    · cases h
    · split at h
      · cases h
      · rename_i bs hbs
        cases h
        simp [ih bs hbs]

/-! ### the orders are ascending -/

theorem children_sorted (t : T) (p : Nat) : (children t p).Pairwise (· < ·) := by
  unfold children
  exact List.Pairwise.filter _ List.pairwise_lt_range

theorem insertKeep_sorted (x : Nat) (l : List Nat) (h : l.Pairwise (· ≤ ·)) :
    (insertKeep x l).Pairwise (· ≤ ·) ∧ ∀ y, y ∈ insertKeep x l ↔ y = x ∨ y ∈ l := by
  induction l with
  | nil => simp [insertKeep]
  | cons a l ih =>
    have hl := (List.pairwise_cons.mp h).2
    have ha := (List.pairwise_cons.mp h).1
    obtain ⟨ihs, ihm⟩ := ih hl
    by_cases hxa : x ≤ a
    · simp only [insertKeep, hxa, if_true]
      refine ⟨List.pairwise_cons.mpr ⟨?_, h⟩, by intro y; simp⟩
      intro y hy
      rcases List.mem_cons.mp hy with rfl | hy
      · exact hxa
      · exact Nat.le_trans hxa (ha y hy)
    · simp only [insertKeep, hxa, if_false]
      refine ⟨List.pairwise_cons.mpr ⟨?_, ihs⟩, ?_⟩
      · intro y hy
        rcases (ihm y).mp hy with rfl | hy
        · omega
        · exact ha y hy
      · intro y
        simp only [List.mem_cons, ihm]
        constructor
        · rintro (h | h | h)
          · exact Or.inr (Or.inl h)
          · exact Or.inl h
          · exact Or.inr (Or.inr h)
        · rintro (h | h | h)
          · exact Or.inr (Or.inl h)
          · exact Or.inl h
          · exact Or.inr (Or.inr h)

theorem sortKeep_sorted (l : List Nat) : (sortKeep l).Pairwise (· ≤ ·) := by
  induction l with
  | nil => exact List.Pairwise.nil
  | cons a l ih => exact (insertKeep_sorted a _ ih).1

theorem allChildren_sorted (t : T) (i : Nat) : (allChildren t i).Pairwise (· ≤ ·) :=
  sortKeep_sorted _

end Ccp.Typed
