import Ccp.Model.Diff
/-!
Helper lemmas for C10 (`Ccp.Model.Diff`): membership in `paths`, in a delta (`diff`), the four
facts about a delta proved by induction on the hierarchical line, order-independence of
`apply` when removals and additions do not interfere, `diff f f = []`, and distinctness of
siblings in every loaded configuration.  Core Lean only.
-/
namespace Ccp.Diff
open Ccp.Py


theorem pathsF_nil : pathsF [] = [] := by simp [pathsF]
theorem pathsF_cons (t : Str) (cs r : Forest) :
    pathsF (.node t cs :: r) = ([t] :: (pathsF cs).map (t :: ·)) ++ pathsF r := by
  simp [pathsF, pathsT]

theorem mem_pathsF {p : Path} {f : Forest} :
    p ∈ pathsF f ↔ ∃ t cs, Tree.node t cs ∈ f ∧ (p = [t] ∨ ∃ q, q ∈ pathsF cs ∧ p = t :: q) := by
  induction f with
  | nil => simp [pathsF_nil]
  | cons x r ih =>
    obtain ⟨t, cs⟩ := x
    rw [pathsF_cons]
    simp only [List.cons_append, List.mem_cons, List.mem_append, List.mem_map, ih]
    constructor
    · rintro (h | ⟨q, hq, rfl⟩ | ⟨t', cs', hm, h⟩)
      · exact ⟨t, cs, Or.inl rfl, Or.inl h⟩
      · exact ⟨t, cs, Or.inl rfl, Or.inr ⟨q, hq, rfl⟩⟩
      · exact ⟨t', cs', Or.inr hm, h⟩
    · rintro ⟨t', cs', hm | hm, h⟩
      · cases hm
        rcases h with h | ⟨q, hq, rfl⟩
        · exact Or.inl h
        · exact Or.inr (Or.inl ⟨q, hq, rfl⟩)
      · exact Or.inr (Or.inr ⟨t', cs', hm, h⟩)

theorem mem_texts {t : Str} {f : Forest} : t ∈ texts f ↔ ∃ cs, Tree.node t cs ∈ f := by
  unfold texts
  constructor
  · intro h
    obtain ⟨x, hx, rfl⟩ := List.mem_map.mp h
    obtain ⟨u, cs⟩ := x
    exact ⟨cs, hx⟩
  · rintro ⟨cs, h⟩
    exact List.mem_map.mpr ⟨_, h, rfl⟩

theorem lookup_none {t : Str} {f : Forest} : lookup t f = none ↔ t ∉ texts f := by
  induction f with
  | nil => simp [lookup, texts]
  | cons x r ih =>
    obtain ⟨u, cs⟩ := x
    by_cases h : u = t
    · simp [lookup, texts, h, Tree.text]
    · have : ¬ t = u := fun e => h e.symm
      simp [lookup, h, this, ih, texts, Tree.text]

theorem lookup_some_mem {t : Str} {f cs : Forest} (h : lookup t f = some cs) : Tree.node t cs ∈ f := by
  induction f with
  | nil => simp [lookup] at h
  | cons x r ih =>
    obtain ⟨u, cs'⟩ := x
    by_cases e : u = t
    · simp [lookup, e] at h; subst h; subst e; exact List.mem_cons_self
    · simp [lookup, e] at h; exact List.mem_cons_of_mem _ (ih h)

theorem distinctF_cons {x : Tree} {r : Forest} :
    DistinctF (x :: r) ↔ x.text ∉ texts r ∧ DistinctF x.children ∧ DistinctF r := by
  obtain ⟨t, cs⟩ := x
  simp [DistinctF, DistinctT, Tree.text, Tree.children]

theorem distinct_child {f : Forest} (hd : DistinctF f) {t : Str} {cs : Forest}
    (h : Tree.node t cs ∈ f) : DistinctF cs := by
  induction f with
  | nil => cases h
  | cons x r ih =>
    rw [distinctF_cons] at hd
    rcases List.mem_cons.mp h with rfl | h
    · exact hd.2.1
    · exact ih hd.2.2 h

theorem lookup_of_distinct {f : Forest} (hd : DistinctF f) {t : Str} {cs : Forest}
    (h : Tree.node t cs ∈ f) : lookup t f = some cs := by
  induction f with
  | nil => cases h
  | cons x r ih =>
    rw [distinctF_cons] at hd
    obtain ⟨u, cs'⟩ := x
    rcases List.mem_cons.mp h with e | h
    · cases e; simp [lookup]
    · have hne : u ≠ t := by
        intro e; subst e
        exact hd.1 (mem_texts.mpr ⟨cs, h⟩)
      simp [lookup, hne, ih hd.2.2 h]

theorem distinct_unique {f : Forest} (hd : DistinctF f) {t : Str} {cs cs' : Forest}
    (h : Tree.node t cs ∈ f) (h' : Tree.node t cs' ∈ f) : cs = cs' := by
  have a := lookup_of_distinct hd h
  have b := lookup_of_distinct hd h'
  rw [a] at b; exact Option.some.inj b

theorem mem_diffLeft {x : Tree} {o n : Forest} :
    x ∈ diffLeft o n ↔ ∃ t cs, Tree.node t cs ∈ o ∧ t ∉ texts n ∧ x = .node (negate t) [] := by
  unfold diffLeft
  simp only [List.mem_map, List.mem_filter]
  constructor
  · rintro ⟨c, ⟨hc, hnot⟩, rfl⟩
    obtain ⟨t, cs⟩ := c
    refine ⟨t, cs, hc, ?_, rfl⟩
    simpa [Tree.text] using hnot
  · rintro ⟨t, cs, hc, hnot, rfl⟩
    exact ⟨.node t cs, ⟨hc, by simpa [Tree.text] using hnot⟩, rfl⟩

theorem diffF_nil (o : Forest) : diffF o [] = [] := by simp [diffF]
theorem diffF_cons (o : Forest) (x : Tree) (r : Forest) : diffF o (x :: r) = diffT o x ++ diffF o r := by
  simp [diffF]
theorem diffT_node (o : Forest) (t : Str) (tcs : Forest) :
    diffT o (.node t tcs) =
      match lookup t o with
      | some scs => if (diff scs tcs).isEmpty then [] else [.node t (diff scs tcs)]
      | none => [.node t tcs] := by
  rw [diffT]; rfl

theorem mem_diffF {x : Tree} {o n : Forest} :
    x ∈ diffF o n ↔ ∃ t ncs, Tree.node t ncs ∈ n ∧ x ∈ diffT o (.node t ncs) := by
  induction n with
  | nil => simp [diffF_nil]
  | cons y r ih =>
    obtain ⟨u, ucs⟩ := y
    rw [diffF_cons, List.mem_append, ih]
    constructor
    · rintro (h | ⟨t, ncs, hm, h⟩)
      · exact ⟨u, ucs, List.mem_cons_self, h⟩
      · exact ⟨t, ncs, List.mem_cons_of_mem _ hm, h⟩
    · rintro ⟨t, ncs, hm, h⟩
      rcases List.mem_cons.mp hm with e | hm
      · cases e; exact Or.inl h
      · exact Or.inr ⟨t, ncs, hm, h⟩

/-- the nodes of a delta -/
theorem mem_diff {x : Tree} {o n : Forest} :
    x ∈ diff o n ↔
      (∃ t cs, Tree.node t cs ∈ o ∧ t ∉ texts n ∧ x = .node (negate t) []) ∨
      (∃ t ncs, Tree.node t ncs ∈ n ∧ lookup t o = none ∧ x = .node t ncs) ∨
      (∃ t ncs ocs, Tree.node t ncs ∈ n ∧ lookup t o = some ocs ∧ diff ocs ncs ≠ [] ∧
        x = .node t (diff ocs ncs)) := by
  rw [show diff o n = diffLeft o n ++ diffF o n from rfl, List.mem_append, mem_diffLeft, mem_diffF]
  constructor
  · rintro (h | ⟨t, ncs, hm, h⟩)
    · exact Or.inl h
    · rw [diffT_node] at h
      cases hl : lookup t o with
      | none => rw [hl] at h; simp at h; exact Or.inr (Or.inl ⟨t, ncs, hm, hl, h⟩)
      | some ocs =>
        rw [hl] at h
        by_cases he : (diff ocs ncs).isEmpty
        · simp [he] at h
        · simp [he] at h
          refine Or.inr (Or.inr ⟨t, ncs, ocs, hm, hl, ?_, h⟩)
          simpa using he
  · rintro (h | ⟨t, ncs, hm, hl, rfl⟩ | ⟨t, ncs, ocs, hm, hl, hne, rfl⟩)
    · exact Or.inl h
    · refine Or.inr ⟨t, ncs, hm, ?_⟩
      rw [diffT_node, hl]; simp
    · refine Or.inr ⟨t, ncs, hm, ?_⟩
      rw [diffT_node, hl]
      have : (diff ocs ncs).isEmpty = false := by simpa using hne
      simp [this]

/-! ### commands: `isRem`, `target` -/

theorem paths_ne_nil {p : Path} {f : Forest} (h : p ∈ pathsF f) : p ≠ [] := by
  obtain ⟨t, cs, _, h | ⟨q, _, h⟩⟩ := mem_pathsF.mp h <;> simp [h]

theorem isRem_single (t : Str) : isRem [t] = negPrefix.isPrefixOf t := by simp [isRem]

theorem isRem_cons (t : Str) {q : Path} (hq : q ≠ []) : isRem (t :: q) = isRem q := by
  cases q with
  | nil => exact absurd rfl hq
  | cons a r => simp [isRem, List.getLast?_cons_cons]

theorem target_single (t : Str) : target [t] = [t.drop 3] := by simp [target]

theorem target_cons (t : Str) {q : Path} (hq : q ≠ []) : target (t :: q) = t :: target q := by
  cases q with
  | nil => exact absurd rfl hq
  | cons a r =>
    simp only [target, List.getLast?_cons_cons]
    cases h : (a :: r).getLast? with
    | none => simp at h
    | some l => simp [List.dropLast]

theorem target_ne_nil {q : Path} (hq : q ≠ []) : target q ≠ [] := by
  cases q with
  | nil => exact absurd rfl hq
  | cons a r =>
    unfold target
    cases h : (a :: r).getLast? with
    | none => simp at h
    | some l => simp

theorem negate_plain {t : Str} (h : negPrefix.isPrefixOf t = false) : negate t = negPrefix ++ t := by
  simp [negate, h]

theorem isRem_negate {t : Str} (h : negPrefix.isPrefixOf t = false) : isRem [negate t] = true := by
  rw [negate_plain h, isRem_single]; simp [negPrefix]

theorem target_negate {t : Str} (h : negPrefix.isPrefixOf t = false) : target [negate t] = [t] := by
  rw [negate_plain h, target_single]; simp [negPrefix]

/-! ### `Plain` -/

theorem plain_text {f : Forest} (hp : Plain f) {t : Str} {cs : Forest} (h : Tree.node t cs ∈ f) :
    negPrefix.isPrefixOf t = false := by
  have := hp [t] (mem_pathsF.mpr ⟨t, cs, h, Or.inl rfl⟩)
  rwa [isRem_single] at this

theorem plain_child {f : Forest} (hp : Plain f) {t : Str} {cs : Forest} (h : Tree.node t cs ∈ f) :
    Plain cs := by
  intro q hq
  have := hp (t :: q) (mem_pathsF.mpr ⟨t, cs, h, Or.inr ⟨q, hq, rfl⟩⟩)
  rwa [isRem_cons t (paths_ne_nil hq)] at this

theorem single_mem_paths {t : Str} {f : Forest} : [t] ∈ pathsF f ↔ t ∈ texts f := by
  rw [mem_pathsF, mem_texts]
  constructor
  · rintro ⟨u, cs, hm, h | ⟨q, hq, h⟩⟩
    · cases h; exact ⟨cs, hm⟩
    · cases h; exact absurd rfl (paths_ne_nil hq)
  · rintro ⟨cs, hm⟩; exact ⟨t, cs, hm, Or.inl rfl⟩

theorem cons_mem_paths {t : Str} {q : Path} (hq : q ≠ []) {f : Forest} :
    t :: q ∈ pathsF f ↔ ∃ cs, Tree.node t cs ∈ f ∧ q ∈ pathsF cs := by
  rw [mem_pathsF]
  constructor
  · rintro ⟨u, cs, hm, h | ⟨q', hq', h⟩⟩
    · cases h; exact absurd rfl hq
    · cases h; exact ⟨cs, hm, hq'⟩
  · rintro ⟨cs, hm, h⟩; exact ⟨t, cs, hm, Or.inr ⟨q, h, rfl⟩⟩

/-- the hierarchical lines of a delta -/
theorem mem_paths_diff {c : Path} {o n : Forest} :
    c ∈ pathsF (diff o n) ↔
      (∃ t cs, Tree.node t cs ∈ o ∧ t ∉ texts n ∧ c = [negate t]) ∨
      (∃ t ncs, Tree.node t ncs ∈ n ∧ lookup t o = none ∧
        (c = [t] ∨ ∃ q, q ∈ pathsF ncs ∧ c = t :: q)) ∨
      (∃ t ncs ocs, Tree.node t ncs ∈ n ∧ lookup t o = some ocs ∧ diff ocs ncs ≠ [] ∧
        (c = [t] ∨ ∃ q, q ∈ pathsF (diff ocs ncs) ∧ c = t :: q)) := by
  rw [mem_pathsF]
  constructor
  · rintro ⟨u, ds, hm, hc⟩
    rcases mem_diff.mp hm with ⟨t, cs, ho, hn, e⟩ | ⟨t, ncs, hn, hl, e⟩ | ⟨t, ncs, ocs, hn, hl, hne, e⟩
    · cases e
      rcases hc with hc | ⟨q, hq, _⟩
      · exact Or.inl ⟨t, cs, ho, hn, hc⟩
      · simp [pathsF_nil] at hq
    · rw [Tree.node.injEq] at e; rw [e.1, e.2] at hc
      exact Or.inr (Or.inl ⟨t, ncs, hn, hl, hc⟩)
    · rw [Tree.node.injEq] at e; rw [e.1, e.2] at hc
      exact Or.inr (Or.inr ⟨t, ncs, ocs, hn, hl, hne, hc⟩)
  · rintro (⟨t, cs, ho, hn, e⟩ | ⟨t, ncs, hn, hl, hc⟩ | ⟨t, ncs, ocs, hn, hl, hne, hc⟩)
    · exact ⟨negate t, [], mem_diff.mpr (Or.inl ⟨t, cs, ho, hn, rfl⟩), Or.inl e⟩
    · exact ⟨t, ncs, mem_diff.mpr (Or.inr (Or.inl ⟨t, ncs, hn, hl, rfl⟩)), hc⟩
    · exact ⟨t, diff ocs ncs, mem_diff.mpr (Or.inr (Or.inr ⟨t, ncs, ocs, hn, hl, hne, rfl⟩)), hc⟩


/-! ### the four facts about a delta (induction on the hierarchical line) -/

/-- a removal names a line of the source that the target does not have -/
theorem rem_spec {c : Path} : ∀ {o n : Forest}, DistinctF o → DistinctF n → Plain o → Plain n →
    c ∈ pathsF (diff o n) → isRem c = true → target c ∈ pathsF o ∧ target c ∉ pathsF n := by
  induction c with
  | nil => intro o n _ _ _ _ h; exact absurd rfl (paths_ne_nil h)
  | cons a q ih =>
    intro o n dO dN pO pN h hr
    rcases mem_paths_diff.mp h with ⟨t, cs, ho, hn, e⟩ | ⟨t, ncs, hn, hl, hc⟩ | ⟨t, ncs, ocs, hn, hl, hne, hc⟩
    · rw [e, target_negate (plain_text pO ho)]
      exact ⟨single_mem_paths.mpr (mem_texts.mpr ⟨cs, ho⟩), fun hx => hn (single_mem_paths.mp hx)⟩
    · have : a :: q ∈ pathsF n := mem_pathsF.mpr ⟨t, ncs, hn, hc⟩
      rw [pN _ this] at hr; cases hr
    · rcases hc with hc | ⟨q', hq', hc⟩
      · rw [hc, isRem_single, plain_text pN hn] at hr; cases hr
      · cases hc
        have hne' := paths_ne_nil hq'
        rw [isRem_cons _ hne'] at hr
        have ho := lookup_some_mem hl
        have := ih (distinct_child dO ho) (distinct_child dN hn) (plain_child pO ho) (plain_child pN hn) hq' hr
        rw [target_cons _ hne']
        refine ⟨(cons_mem_paths (target_ne_nil hne')).mpr ⟨ocs, ho, this.1⟩, ?_⟩
        intro hx
        obtain ⟨cs', hm', hq''⟩ := (cons_mem_paths (target_ne_nil hne')).mp hx
        rw [distinct_unique dN hm' hn] at hq''
        exact this.2 hq''

/-- every other command is a line of the target -/
theorem add_in_target {c : Path} : ∀ {o n : Forest}, Plain o →
    c ∈ pathsF (diff o n) → isRem c = false → c ∈ pathsF n := by
  induction c with
  | nil => intro o n _ h; exact absurd rfl (paths_ne_nil h)
  | cons a q ih =>
    intro o n pO h hr
    rcases mem_paths_diff.mp h with ⟨t, cs, ho, hn, e⟩ | ⟨t, ncs, hn, hl, hc⟩ | ⟨t, ncs, ocs, hn, hl, hne, hc⟩
    · rw [e, isRem_negate (plain_text pO ho)] at hr; cases hr
    · exact mem_pathsF.mpr ⟨t, ncs, hn, hc⟩
    · rcases hc with hc | ⟨q', hq', hc⟩
      · exact mem_pathsF.mpr ⟨t, ncs, hn, Or.inl hc⟩
      · cases hc
        rw [isRem_cons _ (paths_ne_nil hq')] at hr
        have ho := lookup_some_mem hl
        exact mem_pathsF.mpr ⟨a, ncs, hn, Or.inr ⟨q, ih (plain_child pO ho) hq' hr, rfl⟩⟩

/-- a non-removal command that is already a line of the source is only the header of a deeper
command -/
theorem add_absent_or_header {c : Path} : ∀ {o n : Forest}, DistinctF o → Plain o →
    c ∈ pathsF (diff o n) → isRem c = false → c ∈ pathsF o → ∃ x, c ++ [x] ∈ pathsF (diff o n) := by
  induction c with
  | nil => intro o n _ _ h; exact absurd rfl (paths_ne_nil h)
  | cons a q ih =>
    intro o n dO pO h hr hin
    rcases mem_paths_diff.mp h with ⟨t, cs, ho, hn, e⟩ | ⟨t, ncs, hn, hl, hc⟩ | ⟨t, ncs, ocs, hn, hl, hne, hc⟩
    · rw [e, isRem_negate (plain_text pO ho)] at hr; cases hr
    · exfalso
      have ha : a = t := by rcases hc with hc | ⟨q', _, hc⟩ <;> cases hc <;> rfl
      subst ha
      obtain ⟨u, cs, hm, hu⟩ := mem_pathsF.mp hin
      have : u = a := by rcases hu with hu | ⟨q', _, hu⟩ <;> cases hu <;> rfl
      subst this
      exact (lookup_none.mp hl) (mem_texts.mpr ⟨cs, hm⟩)
    · have ho := lookup_some_mem hl
      rcases hc with hc | ⟨q', hq', hc⟩
      · cases hc
        cases hd : diff ocs ncs with
        | nil => exact absurd hd hne
        | cons x r =>
          obtain ⟨u, us⟩ := x
          refine ⟨u, mem_paths_diff.mpr (Or.inr (Or.inr ⟨a, ncs, ocs, hn, hl, hne, Or.inr ⟨[u], ?_, rfl⟩⟩))⟩
          rw [hd]; exact mem_pathsF.mpr ⟨u, us, List.mem_cons_self, Or.inl rfl⟩
      · cases hc
        have hqne := paths_ne_nil hq'
        rw [isRem_cons _ hqne] at hr
        obtain ⟨cs', hm', hq''⟩ := (cons_mem_paths hqne).mp hin
        rw [distinct_unique dO hm' ho] at hq''
        obtain ⟨x, hx⟩ := ih (distinct_child dO ho) (plain_child pO ho) hq' hr hq''
        exact ⟨x, mem_paths_diff.mpr (Or.inr (Or.inr ⟨a, ncs, ocs, hn, hl, hne, Or.inr ⟨q ++ [x], hx, rfl⟩⟩))⟩

/-- every line of the target is a line of the source or a command -/
theorem target_covered {p : Path} : ∀ {o n : Forest},
    p ∈ pathsF n → p ∈ pathsF o ∨ p ∈ pathsF (diff o n) := by
  induction p with
  | nil => intro o n h; exact absurd rfl (paths_ne_nil h)
  | cons a q ih =>
    intro o n h
    obtain ⟨t, ncs, hn, hc⟩ := mem_pathsF.mp h
    cases hl : lookup t o with
    | none => exact Or.inr (mem_paths_diff.mpr (Or.inr (Or.inl ⟨t, ncs, hn, hl, hc⟩)))
    | some ocs =>
      have ho := lookup_some_mem hl
      rcases hc with hc | ⟨q', hq', hc⟩
      · exact Or.inl (mem_pathsF.mpr ⟨t, ocs, ho, Or.inl hc⟩)
      · cases hc
        rcases ih (o := ocs) hq' with h1 | h1
        · exact Or.inl (mem_pathsF.mpr ⟨a, ocs, ho, Or.inr ⟨q, h1, rfl⟩⟩)
        · have hne : diff ocs ncs ≠ [] := by
            intro e; rw [e] at h1; simp [pathsF_nil] at h1
          exact Or.inr (mem_paths_diff.mpr (Or.inr (Or.inr ⟨a, ncs, ocs, hn, hl, hne, Or.inr ⟨q, h1, rfl⟩⟩)))

/-- a line of the source that the target lacks lies at or below the line named by a removal -/
theorem gone_removed {p : Path} : ∀ {o n : Forest}, DistinctF o → Plain o →
    p ∈ pathsF o → p ∉ pathsF n →
    ∃ c, c ∈ pathsF (diff o n) ∧ isRem c = true ∧ target c <+: p := by
  induction p with
  | nil => intro o n _ _ h; exact absurd rfl (paths_ne_nil h)
  | cons a q ih =>
    intro o n dO pO h hnot
    obtain ⟨t, ocs, ho, hc⟩ := mem_pathsF.mp h
    have hat : a = t := by rcases hc with hc | ⟨q', _, hc⟩ <;> cases hc <;> rfl
    subst hat
    by_cases htn : a ∈ texts n
    · obtain ⟨ncs, hn⟩ := mem_texts.mp htn
      have hl := lookup_of_distinct dO ho
      rcases hc with hc | ⟨q', hq', hc⟩
      · cases hc; exact absurd (single_mem_paths.mpr htn) hnot
      · cases hc
        have hqn : q ∉ pathsF ncs := fun hx =>
          hnot (mem_pathsF.mpr ⟨a, ncs, hn, Or.inr ⟨q, hx, rfl⟩⟩)
        obtain ⟨c, hcm, hcr, hcp⟩ := ih (distinct_child dO ho) (plain_child pO ho) hq' hqn
        have hne : diff ocs ncs ≠ [] := by
          intro e; rw [e] at hcm; simp [pathsF_nil] at hcm
        have hcne := paths_ne_nil hcm
        refine ⟨a :: c, mem_paths_diff.mpr (Or.inr (Or.inr ⟨a, ncs, ocs, hn, hl, hne, Or.inr ⟨c, hcm, rfl⟩⟩)), ?_, ?_⟩
        · rw [isRem_cons _ hcne]; exact hcr
        · rw [target_cons _ hcne]; exact (List.prefix_cons_inj a).mpr hcp
    · refine ⟨[negate a], mem_paths_diff.mpr (Or.inl ⟨a, ocs, ho, htn, rfl⟩), isRem_negate (plain_text pO ho), ?_⟩
      rw [target_negate (plain_text pO ho)]
      rcases hc with hc | ⟨q', _, hc⟩ <;> cases hc <;> simp

/-- the hierarchical lines of a configuration are closed under non-empty prefixes -/
theorem paths_prefix_closed {p : Path} : ∀ {f : Forest} {q : Path},
    p ∈ pathsF f → q <+: p → q ≠ [] → q ∈ pathsF f := by
  induction p with
  | nil => intro f q h; exact absurd rfl (paths_ne_nil h)
  | cons a r ih =>
    intro f q h hpre hq
    cases q with
    | nil => exact absurd rfl hq
    | cons b q' =>
      obtain ⟨e, hpre'⟩ := List.cons_prefix_cons.mp hpre
      subst e
      obtain ⟨t, cs, hm, hc⟩ := mem_pathsF.mp h
      rcases hc with hc | ⟨r', hr', hc⟩
      · cases hc
        have : q' = [] := List.prefix_nil.mp hpre'
        subst this
        exact mem_pathsF.mpr ⟨b, cs, hm, Or.inl rfl⟩
      · cases hc
        by_cases hq' : q' = []
        · subst hq'; exact mem_pathsF.mpr ⟨b, cs, hm, Or.inl rfl⟩
        · exact mem_pathsF.mpr ⟨b, cs, hm, Or.inr ⟨q', ih hr' hpre' hq', rfl⟩⟩


/-! ### applying commands -/

/-- command `c` removes the hierarchical line `p` -/
def Kills (c p : Path) : Prop := isRem c = true ∧ target c <+: p

theorem mem_applyCmd {s : List Path} {c p : Path} :
    p ∈ applyCmd s c ↔ (p ∈ s ∧ ¬ Kills c p) ∨ (isRem c = false ∧ p = c) := by
  unfold applyCmd Kills
  cases h : isRem c <;> simp [← List.isPrefixOf_iff_prefix]

/-- When no removal names an added line or an ancestor of one (`hsep`), the order of the
commands does not matter: what survives is what no removal touches, plus the additions. -/
theorem mem_apply {cmds : List Path} : ∀ {s : List Path} {p : Path},
    (∀ a ∈ cmds, isRem a = false → ∀ r ∈ cmds, ¬ Kills r a) →
    (p ∈ apply cmds s ↔ (p ∈ s ∧ ∀ c ∈ cmds, ¬ Kills c p) ∨ (p ∈ cmds ∧ isRem p = false)) := by
  induction cmds with
  | nil => intro s p _; simp [apply]
  | cons c rest ih =>
    intro s p hsep
    have hsep' : ∀ a ∈ rest, isRem a = false → ∀ r ∈ rest, ¬ Kills r a :=
      fun a ha hr r hrm => hsep a (List.mem_cons_of_mem _ ha) hr r (List.mem_cons_of_mem _ hrm)
    have : apply (c :: rest) s = apply rest (applyCmd s c) := rfl
    rw [this, ih hsep', mem_applyCmd]
    constructor
    · rintro (⟨(⟨hs, hk⟩ | ⟨hr, rfl⟩), hall⟩ | ⟨hm, hr⟩)
      · exact Or.inl ⟨hs, fun c' hc' => by
          rcases List.mem_cons.mp hc' with rfl | h
          · exact hk
          · exact hall c' h⟩
      · exact Or.inr ⟨List.mem_cons_self, hr⟩
      · exact Or.inr ⟨List.mem_cons_of_mem _ hm, hr⟩
    · rintro (⟨hs, hall⟩ | ⟨hm, hr⟩)
      · exact Or.inl ⟨Or.inl ⟨hs, hall c List.mem_cons_self⟩, fun c' hc' => hall c' (List.mem_cons_of_mem _ hc')⟩
      · rcases List.mem_cons.mp hm with rfl | hm
        · exact Or.inl ⟨Or.inr ⟨hr, rfl⟩, fun c' hc' =>
            hsep p List.mem_cons_self hr c' (List.mem_cons_of_mem _ hc')⟩
        · exact Or.inr ⟨hm, hr⟩

/-- no removal of a delta touches a line of the target -/
theorem not_kills_target {o n : Forest} (dO : DistinctF o) (dN : DistinctF n) (pO : Plain o)
    (pN : Plain n) {r p : Path} (hr : r ∈ pathsF (diff o n)) (hp : p ∈ pathsF n) : ¬ Kills r p := by
  rintro ⟨h1, h2⟩
  have := rem_spec dO dN pO pN hr h1
  exact this.2 (paths_prefix_closed hp h2 (target_ne_nil (paths_ne_nil hr)))

theorem apply_diff_mem {o n : Forest} (dO : DistinctF o) (dN : DistinctF n) (pO : Plain o)
    (pN : Plain n) (p : Path) :
    p ∈ apply (pathsF (diff o n)) (pathsF o) ↔ p ∈ pathsF n := by
  have hsep : ∀ a ∈ pathsF (diff o n), isRem a = false → ∀ r ∈ pathsF (diff o n), ¬ Kills r a :=
    fun a ha hra r hr => not_kills_target dO dN pO pN hr (add_in_target pO ha hra)
  rw [mem_apply hsep]
  constructor
  · rintro (⟨hs, hall⟩ | ⟨hm, hr⟩)
    · apply Classical.byContradiction
      intro hnot
      obtain ⟨c, hc, hcr, hcp⟩ := gone_removed dO pO hs hnot
      exact hall c hc ⟨hcr, hcp⟩
    · exact add_in_target pO hm hr
  · intro hp
    rcases target_covered (o := o) hp with h | h
    · exact Or.inl ⟨h, fun c hc => not_kills_target dO dN pO pN hc hp⟩
    · exact Or.inr ⟨h, pN p hp⟩

/-! ### diff of a configuration with itself -/

theorem diffLeft_self (f : Forest) : diffLeft f f = [] := by
  unfold diffLeft
  rw [List.map_eq_nil_iff, List.filter_eq_nil_iff]
  intro c hc
  have : c.text ∈ texts f := List.mem_map.mpr ⟨c, hc, rfl⟩
  simp [this]

theorem diff_self_aux : ∀ (k : Nat) (f : Forest), sizeOf f ≤ k → DistinctF f → diff f f = [] := by
  intro k
  induction k with
  | zero =>
    intro f h; cases f <;> simp at h
  | succ k ih =>
    intro f hk dF
    cases hd : diff f f with
    | nil => rfl
    | cons x r =>
      exfalso
      have hx : x ∈ diff f f := by rw [hd]; exact List.mem_cons_self
      rcases mem_diff.mp hx with ⟨t, cs, ho, hn, _⟩ | ⟨t, ncs, hn, hl, _⟩ | ⟨t, ncs, ocs, hn, hl, hne, _⟩
      · exact hn (mem_texts.mpr ⟨cs, ho⟩)
      · exact (lookup_none.mp hl) (mem_texts.mpr ⟨ncs, hn⟩)
      · have e : ocs = ncs := distinct_unique dF (lookup_some_mem hl) hn
        subst e
        have h1 := List.sizeOf_lt_of_mem hn
        have h2 : sizeOf (Tree.node t ocs) = 1 + sizeOf t + sizeOf ocs := Tree.node.sizeOf_spec t ocs
        exact hne (ih ocs (by omega) (distinct_child dF hn))

/-- the diff of a configuration with itself is empty -/
theorem diff_self {f : Forest} (dF : DistinctF f) : diff f f = [] :=
  diff_self_aux (sizeOf f) f (Nat.le_refl _) dF


/-! ### the loader never produces duplicate siblings -/

theorem texts_upd (t : Str) (g : Forest → Forest) (f : Forest) :
    texts (upd t g f) = if t ∈ texts f then texts f else texts f ++ [t] := by
  induction f with
  | nil => simp [upd, texts, Tree.text]
  | cons x r ih =>
    obtain ⟨u, cs⟩ := x
    by_cases h : u = t
    · subst h; simp [upd, texts, Tree.text]
    · have h' : ¬ t = u := fun e => h e.symm
      have ih' : List.map Tree.text (upd t g r) =
          if t ∈ List.map Tree.text r then List.map Tree.text r else List.map Tree.text r ++ [t] := ih
      simp only [upd, h, if_false, texts, List.map_cons, Tree.text, List.mem_cons, h', false_or, ih']
      split <;> simp

theorem distinct_upd {t : Str} {g : Forest → Forest} (hg : ∀ cs, DistinctF cs → DistinctF (g cs)) :
    ∀ {f : Forest}, DistinctF f → DistinctF (upd t g f) := by
  intro f
  induction f with
  | nil =>
    intro _
    simp only [upd]
    rw [distinctF_cons]
    exact ⟨by simp [texts], hg [] (by simp [DistinctF]), by simp [DistinctF]⟩
  | cons x r ih =>
    intro hd
    obtain ⟨u, cs⟩ := x
    rw [distinctF_cons] at hd
    by_cases h : u = t
    · simp only [upd, h, if_true]
      rw [distinctF_cons]
      exact ⟨by simpa [Tree.text, h] using hd.1, hg cs hd.2.1, hd.2.2⟩
    · simp only [upd, h, if_false]
      rw [distinctF_cons]
      refine ⟨?_, hd.2.1, ih hd.2.2⟩
      rw [texts_upd]
      have h1 : u ∉ texts r := hd.1
      split
      · exact h1
      · simp only [Tree.text, List.mem_append, List.mem_singleton, not_or]
        exact ⟨h1, h⟩

theorem distinct_insertPath (q : List Str) : ∀ {f : Forest}, DistinctF f → DistinctF (insertPath q f) := by
  induction q with
  | nil => intro f h; simpa [insertPath] using h
  | cons t q ih =>
    intro f h
    simp only [insertPath]
    exact distinct_upd (fun cs hcs => ih hcs) h

theorem distinct_foldl_insert (ps : List (List Str)) : ∀ {f : Forest}, DistinctF f →
    DistinctF (ps.foldl (fun f p => insertPath p f) f) := by
  induction ps with
  | nil => intro f h; exact h
  | cons p ps ih => intro f h; exact ih (distinct_insertPath p h)

/-- `add_child` returns the existing child for a repeated text: loaded configurations have
pairwise different siblings at every level -/
theorem loadLines_distinct (lines : List Str) : DistinctF (loadLines lines) :=
  distinct_foldl_insert _ (by simp [DistinctF])

theorem loadTree_distinct (text : Str) : DistinctF (loadTree text) := loadLines_distinct _




theorem isSpace_blank : isSpace ' ' = true := by decide

theorem lstrip_blanks (k : Nat) (t : Str) : lstrip (List.replicate k ' ' ++ t) = lstrip t := by
  induction k with
  | zero => rfl
  | succ k ih =>
    simp only [List.replicate_succ, List.cons_append, lstrip, List.dropWhile_cons, isSpace_blank, if_true]
    exact ih

theorem lstrip_length_le (t : Str) : (lstrip t).length ≤ t.length := by
  unfold lstrip
  exact (List.dropWhile_sublist _).length_le

theorem indent_blanks (k : Nat) (t : Str) : indent (List.replicate k ' ' ++ t) = k + indent t := by
  unfold indent
  rw [lstrip_blanks]
  have := lstrip_length_le t
  simp only [List.length_append, List.length_replicate]
  omega

theorem words_blanks (k : Nat) (t : Str) : words (List.replicate k ' ' ++ t) = words t := by
  unfold words
  induction k with
  | zero => rfl
  | succ k ih =>
    simp only [List.replicate_succ, List.cons_append, wordsAux, isSpace_blank, if_true]
    exact ih

theorem normLine_blanks {t : Str} (h : NormalText t) (k : Nat) :
    normLine (List.replicate k ' ' ++ t) = some (k, t) := by
  unfold NormalText normLine at *
  rw [words_blanks, indent_blanks]
  cases hw : words t with
  | nil => rw [hw] at h; cases h
  | cons w ws =>
    rw [hw] at h
    simp only [Option.some.injEq, Prod.mk.injEq] at h ⊢
    exact ⟨by omega, h.2⟩

/-! ### reading the printed diff back -/

theorem pathsT_node (t : Str) (cs : Forest) : pathsT (.node t cs) = [t] :: (pathsF cs).map (t :: ·) := by
  simp [pathsT]
theorem pathsF_cons' (x : Tree) (r : Forest) : pathsF (x :: r) = pathsT x ++ pathsF r := by
  simp [pathsF]
theorem renderT_node (d : Nat) (t : Str) (cs : Forest) :
    renderT d (.node t cs) = (List.replicate (2 * d) ' ' ++ t) :: renderF (d + 1) cs := by simp [renderT]
theorem renderF_cons (d : Nat) (x : Tree) (r : Forest) : renderF d (x :: r) = renderT d x ++ renderF d r := by
  simp [renderF]
theorem renderF_nil (d : Nat) : renderF d [] = [] := by simp [renderF]

/-- sections at depth `d` or deeper: what a line printed at depth `d` walks up past -/
abbrev Deeper (d : Nat) (p : Nat × Str) : Bool := decide (2 * d ≤ p.1)

/-- ancestor texts of a chain, outermost first -/
abbrev anc (st : List (Nat × Str)) : List Str := st.reverse.map (·.2)

theorem dropWhile_weaken {α} (p q : α → Bool) (h : ∀ x, p x = true → q x = true) (l : List α) :
    (l.dropWhile p).dropWhile q = l.dropWhile q := by
  induction l with
  | nil => rfl
  | cons a l ih =>
    by_cases hp : p a = true
    · simp [hp, h a hp, ih]
    · simp [List.dropWhile_cons, hp]

theorem dropWhile_idem {α} (p : α → Bool) (l : List α) : (l.dropWhile p).dropWhile p = l.dropWhile p :=
  dropWhile_weaken p p (fun _ h => h) l

theorem linePaths_cons (st : List (Nat × Str)) (i : Nat) (t : Str) (rest : List (Nat × Str)) :
    linePaths st ((i, t) :: rest) = anc (step st i t) :: linePaths (step st i t) rest := by
  simp [linePaths]

mutual
theorem lpT (x : Tree) : ∀ (d : Nat) (st base : List (Nat × Str)) (rest : List Str),
    (∀ p ∈ pathsT x, ∀ t ∈ p, NormalText t) → st.dropWhile (Deeper d) = base →
    ∃ st', st'.dropWhile (Deeper d) = base ∧
      linePaths st ((renderT d x ++ rest).filterMap normLine) =
        (pathsT x).map (anc base ++ ·) ++ linePaths st' (rest.filterMap normLine) := by
  match x with
  | .node t cs =>
    intro d st base rest hN hst
    have ht : NormalText t := hN [t] (by simp [pathsT_node]) t (by simp)
    have hcs : ∀ p ∈ pathsF cs, ∀ u ∈ p, NormalText u := fun p hp u hu =>
      hN (t :: p) (by rw [pathsT_node]; exact List.mem_cons_of_mem _ (List.mem_map.mpr ⟨p, hp, rfl⟩)) u
        (List.mem_cons_of_mem _ hu)
    have hstep : step st (2 * d) t = (2 * d, t) :: base := by simp [step, ← hst]
    have hst1 : ((2 * d, t) :: base).dropWhile (Deeper (d + 1)) = (2 * d, t) :: base := by
      simp [Deeper]
    obtain ⟨st', h1, h2⟩ := lpF cs (d + 1) ((2 * d, t) :: base) ((2 * d, t) :: base) rest hcs hst1
    refine ⟨st', ?_, ?_⟩
    · have hw := dropWhile_weaken (Deeper (d + 1)) (Deeper d)
        (fun x h => by simp only [Deeper, decide_eq_true_eq] at h ⊢; omega) st'
      rw [← hw, h1]
      have hb : base.dropWhile (Deeper d) = base := by rw [← hst]; exact dropWhile_idem _ _
      simp [Deeper]
      simpa [Deeper] using hb
    · rw [renderT_node, List.cons_append, List.filterMap_cons, normLine_blanks ht, linePaths_cons, hstep, h2,
        pathsT_node]
      simp [anc, List.map_map, Function.comp_def]
theorem lpF (f : Forest) : ∀ (d : Nat) (st base : List (Nat × Str)) (rest : List Str),
    (∀ p ∈ pathsF f, ∀ t ∈ p, NormalText t) → st.dropWhile (Deeper d) = base →
    ∃ st', st'.dropWhile (Deeper d) = base ∧
      linePaths st ((renderF d f ++ rest).filterMap normLine) =
        (pathsF f).map (anc base ++ ·) ++ linePaths st' (rest.filterMap normLine) := by
  match f with
  | [] =>
    intro d st base rest _ hst
    exact ⟨st, hst, by simp [renderF_nil, pathsF_nil]⟩
  | x :: r =>
    intro d st base rest hN hst
    have hx : ∀ p ∈ pathsT x, ∀ t ∈ p, NormalText t := fun p hp =>
      hN p (by rw [pathsF_cons']; exact List.mem_append_left _ hp)
    have hr : ∀ p ∈ pathsF r, ∀ t ∈ p, NormalText t := fun p hp =>
      hN p (by rw [pathsF_cons']; exact List.mem_append_right _ hp)
    obtain ⟨st1, h1, h2⟩ := lpT x d st base (renderF d r ++ rest) hx hst
    obtain ⟨st2, h3, h4⟩ := lpF r d st1 base rest hr h1
    refine ⟨st2, h3, ?_⟩
    rw [renderF_cons, List.append_assoc, h2, h4, pathsF_cons']
    simp
end



/-- Reading the printed lines back with the loader's own indentation rule gives exactly the
hierarchical lines of the tree that was printed. -/
theorem linePaths_render (f : Forest) (hN : ∀ p ∈ pathsF f, ∀ t ∈ p, NormalText t) :
    linePaths [] ((render f).filterMap normLine) = pathsF f := by
  obtain ⟨st', _, h⟩ := lpF f 0 [] [] [] hN rfl
  simpa [render, linePaths] using h

end Ccp.Diff
