import Ccp.Model.Diff
namespace Ccp.Diff
end Ccp.Diff
